#!/bin/bash
# usage: collect_seed.sh <name> <prop...>   copies /tmp/seedout-<name> to /verif/seeded/<name>, removes the agent's worktree, tries the seed
n=$1; shift
mkdir -p /verif/seeded/$n && cp /tmp/seedout-$n/* /verif/seeded/$n/ && git -C /repo worktree remove --force /tmp/seed-$n 2>/dev/null; rm -rf /tmp/seedtmp-$n
for p in "$@"; do /verif/tools/try_seed.sh $n $p 1 2 2>&1 | tail -2; done
