#!/usr/bin/env python3
"""Run /repo's test suite with the verif guard OFF and compare with BASELINE.json stable_pass."""
import json, os, subprocess, sys, glob, shutil
repo = sys.argv[1] if len(sys.argv) > 1 else "/repo"
env = dict(os.environ, GOFLAGS="-mod=mod", GOPROXY="off", GOSUMDB="off", GOTOOLCHAIN="local")
p = subprocess.run(["go", "test", "-json", "-vet=off", "-count=1", "-timeout", "25m", "./..."],
                   cwd=repo, env=env, capture_output=True, text=True)
passed = set()
failed = set()
for line in p.stdout.splitlines():
    try:
        e = json.loads(line)
    except Exception:
        continue
    if e.get("Test") and e.get("Action") in ("pass", "fail"):
        name = e["Package"] + "::" + e["Test"]
        (passed if e["Action"] == "pass" else failed).add(name)
for d in glob.glob("/tmp/clover-test*"):
    shutil.rmtree(d, ignore_errors=True)
base = json.load(open("/root/.vp/BASELINE.json"))
want = set(base["stable_pass"])
missing = sorted(want - passed)
print(f"passed={len(passed)} failed={len(failed)} baseline={len(want)} missing={len(missing)}")
for m in missing:
    print("MISSING", m)
sys.exit(1 if missing else 0)
