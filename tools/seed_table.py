#!/usr/bin/env python3
"""Regenerates the table of seeded changes in DESIGN.md (between the markers) from /verif/seeded/*/meta.json."""
import json, glob, os, re
rows = []
for d in sorted(glob.glob('/verif/seeded/*/')):
    n = os.path.basename(d[:-1])
    m = json.load(open(d + 'meta.json'))
    v = m.get('validation', {})
    ch = v.get('checks', {})
    res = []
    for k in sorted(x for x in ch if not x.endswith('_note')):
        val = ch[k]
        res.append(k + (': replay' if 'VIOLATION' in val and 'no-failing' not in val else ': no-failing-input-found' if 'VIOLATION' in val else ': missed'))
    what = re.sub(r'\s+', ' ', m.get('what', ''))[:150].replace('|', '/')
    needs = re.sub(r'\s+', ' ', m.get('needs', ''))[:130].replace('|', '/')
    status = 'valid' if v.get('valid') else ('neutralised: ' + m.get('neutralised_by', 'the demonstration no longer fails on the current tree'))
    rows.append('| %s | %s | %s | %s | %s |' % (n, what, needs, status, '; '.join(res) or '—'))
table = '| seed | change | needs | status | registered checks (quick tier, VERIF_SEED=1) |\n|---|---|---|---|---|\n' + '\n'.join(rows)
p = '/verif/DESIGN.md'
s = open(p).read()
a, b = '<!-- SEEDS-BEGIN -->', '<!-- SEEDS-END -->'
if a in s:
    s = s[:s.index(a) + len(a)] + '\n' + table + '\n' + s[s.index(b):]
    open(p, 'w').write(s)
print(len(rows), 'seeds')
