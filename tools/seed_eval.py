#!/usr/bin/env python3
"""Validates a seeded change produced by a sub-agent and runs the registered checks against it.

  seed_eval.py <src dir with patch.diff, demo_test.go|demo.go, meta.json> <name> <check ids...>

1. scratch worktree of /repo: the demo passes on the clean tree; with the patch the tree builds, the 84
   baseline tests still pass, and the demo fails;
2. /repo: apply the patch, run `./check <id>` for each listed id, undo the patch;
3. /verif/seeded/<name>/: patch.diff, the demonstration, meta.json (with what was run and which checks caught it).
"""
import json, os, re, shutil, subprocess, sys
ENV = dict(os.environ, GOFLAGS="-mod=mod", GOPROXY="off", GOSUMDB="off", GOTOOLCHAIN="local")
def sh(cmd, cwd=None, timeout=1800):
    p = subprocess.run(cmd, cwd=cwd, env=ENV, capture_output=True, text=True, errors="replace", timeout=timeout, shell=isinstance(cmd, str))
    return p.returncode, p.stdout + p.stderr
def main():
    src, name, checks = sys.argv[1], sys.argv[2], sys.argv[3:]
    wt = "/tmp/seedval-" + name
    sh("git -C /repo worktree remove --force %s; rm -rf %s" % (wt, wt))
    rc, out = sh("git -C /repo worktree add --detach %s HEAD" % wt)
    if rc != 0:
        print("cannot create worktree", out); sys.exit(2)
    report = {"name": name}
    try:
        demo = None
        for f in ("demo_test.go", "demo.go"):
            if os.path.exists(os.path.join(src, f)):
                demo = f
        if demo is None:
            print("no demo"); sys.exit(2)
        def run_demo():
            if demo == "demo_test.go":
                shutil.copy(os.path.join(src, demo), os.path.join(wt, "zz_seed_demo_test.go"))
                names = re.findall(r"^func (Test\w+)", open(os.path.join(src, demo)).read(), re.M)
                rc, out = sh(["go", "test", "-vet=off", "-count=1", "-run", "^(" + "|".join(names) + ")$", "."], cwd=wt)
                os.remove(os.path.join(wt, "zz_seed_demo_test.go"))
            else:
                os.makedirs(os.path.join(wt, "zzdemo"), exist_ok=True)
                shutil.copy(os.path.join(src, demo), os.path.join(wt, "zzdemo", "main.go"))
                rc, out = sh(["go", "run", "./zzdemo"], cwd=wt)
                shutil.rmtree(os.path.join(wt, "zzdemo"))
            return rc, out
        rc, out = run_demo()
        report["demo_clean"] = "pass" if rc == 0 else "FAIL: " + out[-400:]
        rc, out = sh(["git", "apply", os.path.join(os.path.abspath(src), "patch.diff")], cwd=wt)
        report["applies"] = rc == 0
        if rc != 0:
            report["apply_error"] = out[-300:]
        rc, out = sh("go build ./... && go build -tags verif ./...", cwd=wt)
        report["builds"] = rc == 0
        rc, out = sh(["python3", "/verif/tools/baseline.py", wt])
        report["baseline"] = out.strip().split("\n")[0]
        report["baseline_ok"] = rc == 0
        rc, out = run_demo()
        report["demo_patched"] = "fails" if rc != 0 else "PASSES (change not demonstrated)"
        valid = report["demo_clean"] == "pass" and report["applies"] and report["builds"] and report["baseline_ok"] and rc != 0
        report["valid"] = valid
    finally:
        sh("git -C /repo worktree remove --force %s; rm -rf %s" % (wt, wt))
        sh("rm -rf /tmp/clover-test*")
    detected = {}
    if report.get("valid") and checks:
        REPO = os.environ.get("VERIF_REPO", "/repo"); rc, out = sh(["git", "-C", REPO, "apply", os.path.join(os.path.abspath(src), "patch.diff")])
        try:
            for c in checks:
                VD = os.environ.get("VERIF_DIR", "/verif"); rc, out = sh([VD + "/check", c], cwd=VD, timeout=3600)
                lines = [l for l in out.split("\n") if l.startswith("VIOLATION")]
                detected[c] = lines[0] if lines else ("exit %d, no violation" % rc)
                for l in lines[:1]:
                    m = re.search(r"replay=(\S+)", l)
                    if m and os.path.exists(m.group(1)):
                        try:
                            detected[c + "_note"] = json.load(open(m.group(1))).get("note", "")[:300]
                        except Exception:
                            pass
        finally:
            sh(["git", "-C", os.environ.get("VERIF_REPO", "/repo"), "checkout", "--", "."])
            pass
    report["checks"] = detected
    dst = os.path.join("/verif/seeded", name)
    os.makedirs(dst, exist_ok=True)
    for f in ("patch.diff", "demo_test.go", "demo.go"):
        if os.path.exists(os.path.join(src, f)) and os.path.abspath(src) != os.path.abspath(dst):
            shutil.copy(os.path.join(src, f), dst)
    meta = {}
    if os.path.exists(os.path.join(src, "meta.json")):
        try:
            meta = json.load(open(os.path.join(src, "meta.json")))
        except Exception as e:
            meta = {"meta_error": str(e)}
    meta["validation"] = report
    json.dump(meta, open(os.path.join(dst, "meta.json"), "w"), indent=1)
    print(json.dumps(report, indent=1))
main()
