#!/bin/bash
# usage: run_tier.sh <quick|thorough> [ids...]   builds this copy of /verif (wherever it is) and runs the tier of every
# (or the listed) property against /repo, printing one summary line per property
export GOFLAGS=-mod=mod GOPROXY=off GOSUMDB=off GOTOOLCHAIN=local
HERE=$(cd "$(dirname "$0")/.." && pwd)
tier=$1; shift
ids="$@"; [ -z "$ids" ] && ids="C01 C02 C03 C04 C05 C06 C07 C08 C09 C10 C11 C12 C13 C14 C15 C16 C17 C18 C19 C20"
( cd $HERE/harness && go build -tags verif -o bin/corr . && go run ./cmd/extract -repo /repo -out $HERE/lean/Clover/Generated/Facts.lean && go run ./cmd/translate -repo /repo -out $HERE/lean/Clover/Generated/Translated.lean ) || exit 2
( cd $HERE/lean && lake build Clover driver 2>&1 | grep -E "error|completed" )
cd $HERE
for p in $ids; do
  s=$(date +%s)
  ./check $p --tier $tier > /tmp/tier_${tier}_$p.log 2>&1; rc=$?
  e=$(date +%s)
  echo "$p tier=$tier rc=$rc t=$((e-s))s viol=$(grep -c '^VIOLATION' /tmp/tier_${tier}_$p.log) $(grep '^VIOLATION' /tmp/tier_${tier}_$p.log | head -2 | tr '\n' ' ')"
done
echo TIER-DONE
