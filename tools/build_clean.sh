#!/bin/bash
# builds the CURRENT /verif/harness sources against a pristine checkout of /repo's HEAD (/tmp/repo-clean), for
# trying generator changes on the unchanged tree while /repo itself is being patched by a seed run.  -> /tmp/corr_clean
export GOFLAGS=-mod=mod GOPROXY=off GOSUMDB=off GOTOOLCHAIN=local
[ -d /tmp/repo-clean ] || git -C /repo worktree add --detach /tmp/repo-clean HEAD >/dev/null 2>&1
git -C /tmp/repo-clean reset -q --hard; git -C /tmp/repo-clean clean -fdq; git -C /tmp/repo-clean checkout -q --detach $(git -C /repo rev-parse HEAD) 2>/dev/null
rm -rf /tmp/harness-clean && mkdir -p /tmp/harness-clean && cp -r /verif/harness/*.go /verif/harness/go.mod /verif/harness/go.sum /verif/harness/cmd /tmp/harness-clean/
sed -i 's#=> /repo#=> /tmp/repo-clean#' /tmp/harness-clean/go.mod
cd /tmp/harness-clean && go build -tags verif -o /tmp/corr_clean . && echo built /tmp/corr_clean
