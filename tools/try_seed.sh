#!/bin/bash
# usage: try_seed.sh <seeded-name> <prop> [verif seeds...]  — current /verif/harness sources against a pristine checkout
# with the seeded patch applied (/repo itself is not touched); prints the first VIOLATION line per seed
export GOFLAGS=-mod=mod GOPROXY=off GOSUMDB=off GOTOOLCHAIN=local
name=$1; prop=$2; shift; shift; seeds="$@"; [ -z "$seeds" ] && seeds="1 2 3"
/verif/tools/build_clean.sh >/dev/null || exit 2
cd /tmp/repo-clean && git apply /verif/seeded/$name/patch.diff || { echo "patch does not apply"; exit 2; }
( cd /tmp/harness-clean && go build -tags verif -o /tmp/corr_mut . ) || { git -C /tmp/repo-clean checkout -- .; echo build failed; exit 3; }
for s in $seeds; do
  out=$(/tmp/corr_mut -prop $prop -tier quick -seed $s -driver /verif/lean/.lake/build/bin/driver -replaydir /tmp/rpx 2>&1 | grep -E "VIOLATION" | head -1)
  echo "$name $prop seed=$s: ${out:-no violation}"
done
git -C /tmp/repo-clean checkout -- .
