#!/bin/bash
# usage: seed_matrix.sh [names...]   re-evaluates seeded changes with the committed checks, from a snapshot of /verif HEAD
# (so that files being edited in /verif do not disturb the run); results go to /verif/seeded/<name>/meta.json.
export GOFLAGS=-mod=mod GOPROXY=off GOSUMDB=off GOTOOLCHAIN=local
SNAP=/tmp/verif-snap
git -C /verif worktree remove --force $SNAP 2>/dev/null; rm -rf $SNAP
git -C /verif worktree add --detach $SNAP HEAD >/dev/null 2>&1 || exit 2
cp -r /verif/lean/.lake $SNAP/lean/.lake
# a private checkout of /repo's HEAD to patch, so that /repo itself stays untouched while the matrix runs
export VERIF_REPO=/tmp/repo-matrix
git -C /repo worktree remove --force $VERIF_REPO 2>/dev/null; rm -rf $VERIF_REPO
git -C /repo worktree add --detach $VERIF_REPO HEAD >/dev/null 2>&1 || exit 2
sed -i "s#=> /repo#=> $VERIF_REPO#" $SNAP/harness/go.mod
( cd $SNAP/harness && go build -tags verif -o bin/corr . && go run ./cmd/extract -repo $VERIF_REPO -out $SNAP/lean/Clover/Generated/Facts.lean && go run ./cmd/translate -repo $VERIF_REPO -out $SNAP/lean/Clover/Generated/Translated.lean ) || exit 3
( cd $SNAP/lean && lake build Clover driver 2>&1 | grep -E "error|completed" )
related() { # property -> checks worth running against a seed of that property
  case $1 in
    C01) echo "C01 C02";; C02) echo "C02 C01";; C03) echo "C03 C06";; C04) echo "C04";; C05) echo "C05 C04";;
    C06) echo "C06 C13";; C07) echo "C07";; C08) echo "C08 C02";; C09) echo "C09";; C10) echo "C10 C01";;
    C11) echo "C11";; C12) echo "C12 C06";; C13) echo "C13 C06";; C14) echo "C14 C02";; C15) echo "C15 C06";;
    C16) echo "C16 C01";; C17) echo "C17 C02";; C18) echo "C18";; C19) echo "C19";; C20) echo "C20";;
  esac
}
names="$@"; [ -z "$names" ] && names=$(ls /verif/seeded)
for n in $names; do
  p=${n%%-*}
  VERIF_DIR=$SNAP python3 /verif/tools/seed_eval.py /verif/seeded/$n $n $(related $p) > /tmp/sm_$n.log 2>&1
  python3 - $n <<'PY'
import json,sys
n=sys.argv[1]
try:
    m=json.load(open('/verif/seeded/%s/meta.json'%n)); ch=m['validation']['checks']
    print(n, 'valid=%s'%m['validation'].get('valid'), {k:('V-nf' if 'no-failing' in v else 'V' if 'VIOLATION' in v else 'miss') for k,v in ch.items() if not k.endswith('_note')})
except Exception as e: print(n, 'ERR', e)
PY
done
echo MATRIX-DONE
