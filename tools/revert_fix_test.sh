#!/bin/bash
# usage: revert_fix_test.sh <commit> <prop> [<prop>...]
# Re-introduces one repaired defect in /repo's working tree (reverse-applies the fix commit), runs the
# given property streams, then restores the tree. Used to confirm that the checks detect the defect.
set -u
export GOFLAGS=-mod=mod GOPROXY=off GOSUMDB=off GOTOOLCHAIN=local
commit=$1; shift
cd /repo
if ! git diff "$commit~1" "$commit" | git apply -R 2>/dev/null; then
  echo "cannot reverse-apply $commit cleanly (later fixes touch the same lines)"; exit 2
fi
( cd /verif/harness && go build -tags verif -o /tmp/corr_mut . ) || { git -C /repo checkout -- .; echo "build failed"; exit 3; }
for p in "$@"; do
  out=$(/tmp/corr_mut -prop "$p" -replaydir /tmp/mut_replays 2>&1 | grep -E "VIOLATION|panic" | head -2)
  echo "$commit $p: ${out:-no violation}"
done
git -C /repo checkout -- .
rm -rf /tmp/corr_mut /tmp/mut_replays
