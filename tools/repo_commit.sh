#!/bin/bash
# usage: repo_commit.sh "<message>" file...   (commits the given files in /repo using plumbing; see DESIGN §7)
set -e
msg="$1"; shift
cd /repo
git add "$@"
T=$(git write-tree --missing-ok)
C=$(git commit-tree "$T" -p HEAD -m "$msg")
git update-ref HEAD "$C"
git log --oneline -1
