#!/usr/bin/env python3
"""Regenerates /verif/MANIFEST.json from the table below (kept in one place so that the manifest stays valid)."""
import json, os, subprocess
V = "/verif"
TB = ("Trusted: Lean 4.33 kernel; axioms propext/Classical.choice/Quot.sound only (audited per run); the hand-written Lean model "
      "(lean/Clover/Model) is tied to /repo by the differential correspondence run of the same check (Go harness + Lean driver); "
      "bbolt, badger, msgpack, encoding/json, regexp, orderedcode, reflect are modelled or parameters, not verified.")
P = {
 'C01': ('proof', 'Lean theorems on the executable model: refine_step / refine_history (every operation kind refines the abstract specification call by call after any history, for queries served by a full scan - in particular all collections without indexes), refine_history_under_faults (the same in lockstep under ANY fault schedule), findAll_exact (ANY index set and plan on the key domain: a permutation of filter(sat) over the live documents), findAll_returns_nothing_else (any plan, no domain hypothesis), spec_keeps_wellformed. Tie: three-way differential of random histories on the real DB (bbolt, badger), the model and the specification; regenerated fingerprints of the decision functions. Run time only: order of sorted/windowed answers served from an index (tie classes), values outside the key domain.', 'Lean refinement proof (model refines index-free specification) + differential histories'),
 'C02': ('proof', "Lean: planner_sound, index_block_shape, index_candidates_complete, findAll_index_transparent and count_index_transparent (whatever the index set and the plan chosen, FindAll returns a permutation of / Count returns the index-free specification's answer, on the key domain), update_index_transparent / delete_index_transparent (the state after a bulk write through ANY plan is the specification's), bulk_write_any_plan, source_decision_logic (regenerated text of tryToSelectIndex/getIndexQueries = the text the model was written from). Tie: systematic cells (leaf form x operand kind x wrapper x sort) and random twin collections differing only in their indexes on the real DB, compared with the index-free spec and pairwise. Run time only: sort elision order, windowed bulk-write selections through index plans.", 'Lean proof of index transparency on the model; twin-collection correspondence'),
 'C03': ('proof', 'Lean: apply_phase_exact (for every updater, size and index set, any selection of live documents is rewritten exactly once each on its pre-call value, nothing else touched), update_exact / delete_exact (full-scan plans; any plan on the key domain via C02), bulk_write_order_independent, each_selected_document_rewritten_once, selection_is_live_any_plan, dropCollection_removes_all. Tie: bulk histories on collections of size 0..1100 on both backends incl. rewrites that take documents out of their own selection, updater invocations and raw key dumps vs the model; an implementation-only oracle at 2100/5000 documents; a cursor monitor flags a mutation under an open cursor.', 'Lean refinement proof of the bulk apply phase; differential bulk histories with raw key dumps'),
 "C04": ("proof", "Lean: failed_op_no_trace and fault_reported for every operation, state and fault schedule; run_unfired (a run in which no fault fired is the fault-free run); sentinel errors equal the specification's (refine_step). Tie: fault enumeration over every store call of every operation kind (incl. import/export) on the real DB: outcome, raw dump, follow-up write and store-call trace vs the model; after a broken correspondence the search continues with the property's own oracle.", 'Lean theorem over all fault schedules; fault-enumeration correspondence'),
 "C06": ("proof", 'Lean: inv_step (every operation in the supported domain, every handle state, EVERY fault schedule preserves the representation invariant) and inv_reachable (every history from the empty database), index_entries_exact, size_is_number_of_documents, documents_exact, no_residue_of_missing_collection. Tie: raw key dumps of the real DB vs the model after every operation, the Lean-evaluated inv flag, and a direct invariant oracle on the real store.', 'Lean representation invariant proved by induction over histories; raw key dump correspondence'),
 'C08': ('proof', "Lean: window_exact / window_length (skip/limit node = drop/take), compareDocuments_total_preorder, sort_node_sorts, findAll_is_sorted (any plan keeping the sort node), findAll_in_index_order (elided sort), window_of_sorted_is_sorted, builder semantics (negative skip ignored, negative limit unlimited, default sort by _id, direction normalised), source_decision_logic (regenerated text of the plan builder). Tie: sorted/windowed answers of the real DB checked position by position against the tie classes of the specification's ordered sequence, with and without an index on the sort key, windows up to 5000.", 'Lean proofs of sort and window laws on the plan model; class-sequence correspondence'),
 "C09": ("proof", 'Lean: count_is_length, exists_iff_nonempty, findFirst_is_head, forEach_is_prefix (incl. a consumer stopping after n documents) for full-scan plans, count_is_length_any_plan (any plan, key domain), findById_iff_live, reads_do_not_alter_db (any fault schedule). Tie: derived reads compared with FindAll on the real DB (self-relative) and with model/spec after every write.', 'Lean refinement proofs of the derived reads; self-relative differential'),
 "C10": ("proof", "c10_preorder and c10_key_order proved in Lean for all values (unbounded nesting): total preorder by exact value; index key bytes followed by any ids sort exactly as the values on the key domain. Correspondence: Compare and OrderedCode of the real code vs the Lean definitions on all pairs of a boundary-rich pool.", "Lean proof by mutual induction; byte-exact key correspondence"),
 "C12": ("proof", 'Lean: insert_exact (Insert refines the specification: duplicate / malformed ids at any batch position rejected with nothing changed, supplied ids kept, fresh ids assigned), updateById_exact (any updater; ReplaceById, Save), findById_returns_own_id, valid_id_wellformed, key_determines_id. Tie: histories of inserts with generated/supplied (several valid spellings)/duplicate/malformed ids, saves, replacements and _id-rewriting updates vs model and spec.', 'Lean refinement proofs of the id-handling operations; differential histories'),
 'C13': ('proof', "Lean: createCollection_exact, dropCollection_exact, listCollections_exact (each refines the specification's catalog), collection_frame, bulk_write_frame, step_changes_only_its_collection, operations_on_other_collections_do_not_interfere, key-space lemmas for ';'-free names incl. prefix-related and unicode ones, source_key_layout (regenerated key prefixes/separators = the model's). Tie: catalog histories vs model/spec with raw dumps.", 'Lean refinement proofs of the catalog operations + key-space lemmas; differential histories'),
 "C14": ("proof", 'Lean: createIndex_exact, dropIndex_exact (at any point of a history; entries of other indexes untouched incl. x/xy and n/n.a), hasIndex_exact, listIndexes_exact, index_prefix_selects_own_entries. Tie: index create/drop histories vs model/spec with raw dumps.', 'Lean refinement proofs of the index catalog operations + key-space lemmas; differential histories'),
 'C05': ('proof', "Lean: crash_atomic (a crash after any number of store calls of an operation leaves the pre-state or the post-state), acknowledged_survive / returned_survives, recovered_state_is_consistent, reopen_is_identity, commit_is_the_only_publication - under the named assumption that the store's commit is atomic and durable; facts regenerated from the source (every transaction-opening function begins exactly one transaction, defers Rollback, commits at most once; bbolt opened with nil options) decided in Lean. Tie: close/reopen after every write, abandoned handles and SIGKILL of a child process at random instants (bbolt, badger on disk), faults before the cut: the reopened store must be the model's state after j or j+1 operations and pass the invariant oracle. Partial: power loss and backend-internal recovery are outside the theorem.", 'Lean crash/recovery theorems over the transaction model + regenerated transaction-shape facts; kill/reopen correspondence'),
 "C07": ("proof", "Linearizability of the lock/snapshot protocol proved in Lean for any number of threads and operations (instantiated with the model's operations); regenerated facts: no shared mutable state in the handle, no mutable globals, no builder writes through its receiver. Race-detector build running tagged batches / bulk updates / counters from 2-8 goroutines with perturbed scheduling. Partial: Go scheduler/memory model and badger's conflict detection are outside the theorem.", "Lean linearizability theorem + regenerated structural facts; -race concurrent workload"),
 "C11": ("proof", "decode_encode proved in Lean for every document at any nesting depth (time wrapping/unwrapping recursive over maps and slices); msgpack/gob abstracted as a faithful serialiser, validated by round trips of the full value grammar through Insert/Save/Update and FindById/FindAll before and after reopen on three backends.", "Lean proof by mutual structural induction; round-trip correspondence"),
 "C15": ("proof", "Cursor contract proved in Lean over the sorted store (forward seek = entries >= target in order, reverse seek = entries <= target descending, values irrelevant, store determined by its lookups); adapter conformance on random key sets x targets x directions on bbolt, badger-mem, badger-disk; identical histories on all three backends compared pairwise. Partial: that each adapter meets the contract is correspondence, not proof.", "Lean cursor-contract theorems; adapter conformance + cross-backend differential"),
 'C16': ('proof', "Boolean algebra of Satisfy, Neq/NotExists as negations, In/Contains/Exists characterisations, field-reference dereferencing and literal_kind_invariance (criteria differing only in the Go kind of numerically equal literals are satisfied by the same documents) proved in Lean on the model's sat; Satisfy of the real code vs the model on thousands of (criteria, document) pairs, Boolean/list laws and kind invariance checked on the implementation, also through the DB with and without an index.", 'Lean proofs on the criteria model; differential Satisfy'),
 "C17": ("proof", "range_scan_exact proved in Lean for the model's IterateRange (byte-level cursor steps over any store around the index, both directions, any index content in the key domain): exactly the in-range entries in (value,id) order; full iteration; Intersect sound for all ranges; IsEmpty sound on the domain. IterateRange/Iterate of the real index package on both backends vs the model and vs a direct oracle, with early stops.", "Lean proof (scan = filter on sorted entries, bytes<->values bridge); differential range scans"),
 "C20": ("proof", "Model operations are total functions returning results or errors; regenerated list of panic-capable source sites (unchecked type assertions, explicit panics) equals the reviewed list (Lean decide); every public call of every stream runs under recover() with a deadline, incl. negated criteria x indexes x missing things x closed handle x three backends and direct document/index API calls. Partial: non-syntactic runtime panics and blocking inside backends are outside the theorem.", "Lean totality + regenerated panic-site facts; recover()-guarded differential"),
 'C18': ('proof', "Lean model of Normalize on Go values as reflect sees them (every width one constructor, pointers, slices/arrays, maps, structs with clover tags incl. omitempty/embedded/unexported, unsupported kinds) and of Unmarshal's key renaming: widths canonical, pointers followed (also to times), go_kinds_normalise_to_the_same_number, struct tag lemmas, unsupported values leave the document unchanged at any depth, unmarshal_renames_every_field / _nested / _along_paths; dotted-path laws get_set_same / get_set_other. Go values built by reflection normalised by the real code vs the model; renameMapKeys of the real code (hook) vs the model and struct round trips. reflect and encoding/json are abstracted.", 'Lean model of normalisation and renaming + path-law proofs; reflection-built differential'),
 'C19': ('proof', "Lean model of JSON typing (numbers -> float64 exact within 2^53, times -> RFC 3339 text, _expiresAt restored by the RFC 3339 parser: parse_print) wired into the model's Export/Import; theorems: export_import_roundtrip (same ids, same count, documents equal up to JSON typing, FindAll equal), export is pure, every failing import changes nothing, unreadable / existing-name imports fail. Export files parsed by an independent JSON reader, imported under a new name and compared with model and spec incl. raw dumps; eight failure paths. encoding/json is abstracted (validated by the stream).", 'Lean round-trip theorem over the JSON-typing model + atomic import theorems; export/import differential'),
}
NOT_YET = {
 "C05": "check not built yet in this session (crash/reopen harness pending)",
 "C07": "check not built yet in this session (concurrency harness pending)",
 "C11": "check not built yet in this session (codec stream pending)",
 "C15": "check not built yet in this session (backend conformance stream pending)",
 "C16": "check not built yet in this session (criteria stream pending)",
 "C17": "check not built yet in this session (range scan stream pending)",
 "C18": "check not built yet in this session (Go value model pending)",
 "C19": "check not built yet in this session (JSON typing model pending)",
 "C20": "check not built yet in this session (panic stream pending)",
}
def main():
    hooks = subprocess.run(["git", "-C", "/repo", "log", "--format=%h %s", "--grep", "^verif hooks"], capture_output=True, text=True).stdout.split("\n")
    hook_commits = [h.split()[0] for h in hooks if h.strip()]
    checks = []
    for pid in sorted(P):
        level, text, tech = P[pid]
        checks.append({
            "property_id": pid,
            "quick_cmd": "./check %s --tier quick" % pid,
            "thorough_cmd": "./check %s --tier thorough" % pid,
            "evidence_file": "/verif/evidence/%s.json" % pid,
            "replay_cmd_template": "./check %s --replay {path}" % pid,
            "engine": "lean-proof+correspondence",
            "level_claimed": {"category": level, "text": text, "design_ref": "DESIGN.md §4 " + pid},
            "level_note": TB,
            "technique": tech,
        })
    m = {
        "version": 1,
        "setup_cmd": "cd /verif && ./setup.sh",
        "hooks": {
            "guard": "verif",
            "enable": "go build -tags verif (the harness module replaces github.com/ostafen/clover/v2 by /repo)",
            "baseline_off_cmd": "python3 /verif/tools/baseline.py /repo",
            "source_commits": hook_commits,
            "add_only": True,
        },
        "engines": [{"name": "lean-proof+correspondence", "path": "/verif/check", "serves_properties": sorted(P),
                     "kind_free_text": "Lean 4 theorems about a hand-written executable model + differential correspondence of model and spec against the Go implementation"}],
        "checks": checks,
        "notes": "See DESIGN.md. Fixes of genuine defects are 'fix:' commits in /repo, listed in known_findings.json.",
        "not_applicable": [{"property_id": k, "reason": v} for k, v in sorted(NOT_YET.items()) if k not in P],
    }
    json.dump(m, open(os.path.join(V, "MANIFEST.json"), "w"), indent=1)
    try:
        import jsonschema
        jsonschema.validate(m, json.load(open("/root/.vp/MANIFEST.schema.json")))
        print("manifest valid,", len(checks), "checks")
    except ImportError:
        print("jsonschema not available; not validated")
main()
