#!/bin/bash
# usage: try_seed_race.sh <seeded-name> [seeds...]  — C07 workload (race detector build) of the current harness against a pristine checkout with the seed applied
export GOFLAGS=-mod=mod GOPROXY=off GOSUMDB=off GOTOOLCHAIN=local
name=$1; shift; seeds="$@"; [ -z "$seeds" ] && seeds="1 2"
/verif/tools/build_clean.sh >/dev/null || exit 2
cd /tmp/repo-clean && git apply /verif/seeded/$name/patch.diff || { echo "patch does not apply"; exit 2; }
( cd /tmp/harness-clean && go build -race -tags verif -o /tmp/corr_mut_race . ) || { git -C /tmp/repo-clean checkout -- .; echo build failed; exit 3; }
for s in $seeds; do
  out=$(/tmp/corr_mut_race -prop C07 -tier quick -seed $s -driver /verif/lean/.lake/build/bin/driver -replaydir /tmp/rpx 2>&1 | grep -E "VIOLATION|DATA RACE" | head -1)
  echo "$name C07 seed=$s: ${out:-no violation}"
done
git -C /tmp/repo-clean checkout -- .
