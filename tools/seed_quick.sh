#!/bin/bash
# usage: seed_quick.sh <patch.diff> <prop>...   applies the patch to /repo, runs the correspondence streams only, restores the tree
export GOFLAGS=-mod=mod GOPROXY=off GOSUMDB=off GOTOOLCHAIN=local
patch=$1; shift
cd /repo && git apply "$patch" || { echo "patch does not apply"; exit 2; }
( cd /verif/harness && go build -tags verif -o /tmp/corr_mut . ) || { git -C /repo checkout -- .; echo "build failed"; exit 3; }
for p in "$@"; do
  out=$(/tmp/corr_mut -prop "$p" -replaydir /tmp/mut_replays 2>&1 | grep -E "VIOLATION|panic" | head -1)
  echo "$(basename $(dirname $patch)) $p: ${out:-no violation}"
done
git -C /repo checkout -- .
rm -rf /tmp/corr_mut /tmp/mut_replays
