import Clover.Generated.Facts
import Clover.Proofs.ExportImport
import Clover.Props.C04
import Clover.Spec.Spec
/-! # C19 — export then import reproduces a collection

`jsonType` is the model of what `encoding/json` does to a value on its way through an exported
file (numbers → float64, times → RFC 3339 text); the stream validates it against the real
Export/Import on every run. -/
namespace CV.Props.C19
open CV CV.Spec

variable (likeFn : LikeFn) (fnFam : FnFam)

/-- JSON typing keeps the shape of a document: same keys in the same order (same field sets at
    every nesting level) -/
theorem jsonType_keys : (kvs : List (Bytes × Value)) → (jsonTypeKV kvs).map (·.1) = kvs.map (·.1)
  | [] => rfl
  | (k, x) :: xs => by simp only [jsonTypeKV, List.map, jsonType_keys xs]

/-- ... keeps strings, booleans and nil as they are — in particular a string `_id` -/
theorem jsonType_str (s : Bytes) : jsonType (.str s) = .str s := rfl
theorem jsonType_bool (b : Bool) : jsonType (.bool b) = .bool b := rfl
theorem jsonType_null : jsonType .null = .null := rfl

/-- ... turns every number into the float64 with the same value (exact within 2^53) -/
theorem jsonType_num (n : Num) (h : numOK n) : ∃ b, jsonType (.num n) = .num (.float b) ∧ F64.fval b = nkey n :=
  ⟨toF64 n, rfl, (nkey_eq_fval n h).symm⟩

/-- ... and a time into its RFC 3339 text -/
theorem jsonType_time (ns off : Int) : jsonType (.time ns off) = .str (rfc3339 ns off) := rfl

theorem lookupKey_jsonType : (d : Doc) → (k : Bytes) →
    lookupKey k (jsonTypeKV d) = (lookupKey k d).map jsonType
  | [], _ => rfl
  | (k', v) :: t, k => by
    simp only [jsonTypeKV, lookupKey]
    split
    · rfl
    · exact lookupKey_jsonType t k

/-- the `_id` of an exported document is the `_id` of the source document (stored documents have
    a string `_id`) -/
theorem jsonType_objectId (d : Doc) (hid : ∀ ns off, lookupKey idField d ≠ some (.time ns off)) :
    (jsonTypeDoc d).objectId = d.objectId := by
  unfold Doc.objectId Doc.get jsonTypeDoc
  have hs : splitDots idField = [idField] := by decide
  simp only [hs, getPath, lookupKey_jsonType]
  cases h : lookupKey idField d with
  | none => rfl
  | some v =>
    cases v with
    | time ns off => exact absurd h (hid ns off)
    | _ => simp [jsonType]

/-- Export does not modify the database (it is two read transactions). -/
theorem export_pure (c : Bytes) (kv : KVS) (φ : Faults) :
    ((Op.exportDocs c).exec likeFn fnFam kv φ).2.1 = kv :=
  C04.read_tx_pure likeFn fnFam (.exportDocs c) rfl kv φ

/-- Importing under an existing name, or from an unreadable / ill-formed file, or a file with an
    invalid or duplicate `_id`, fails without altering anything: every failing import leaves the
    database exactly as it was. -/
theorem failed_import_changes_nothing (c : Bytes) (docs : Option (List Doc)) (fresh : List Bytes)
    (σ : DBState) (φ : Faults)
    (h : ((Op.importDocs c docs fresh).run likeFn fnFam σ φ).out.isErr = true) :
    ((Op.importDocs c docs fresh).run likeFn fnFam σ φ).state = σ :=
  C04.failed_op_no_trace likeFn fnFam _ σ φ h

/-- An unreadable or ill-formed file is always an error (specification and model agree by definition). -/
theorem unreadable_import_fails (s : State) (c : Bytes) (fresh : List Bytes) :
    (step likeFn fnFam s (.importDocs c none fresh)).1 = .err .badInput ∧
    (step likeFn fnFam s (.importDocs c none fresh)).2 = s := by
  simp [step]

/-- Importing under an existing name fails with "collection already exists" and changes nothing. -/
theorem import_existing_fails (s : State) (c : Bytes) (docs : List Doc) (fresh : List Bytes)
    (h : (lookup c s).isSome = true) :
    (step likeFn fnFam s (.importDocs c (some docs) fresh)) = (.err .collExist, s) := by
  simp [step, createWith, h]

end CV.Props.C19
namespace CV.Props.C19
open CV

variable (likeFn : LikeFn) (fnFam : FnFam)

/-- **Export then import reproduces the collection** (model level, through `refine_step`): from a store
    representing `s`, exporting collection `c` and importing what was exported under the new name
    `c'` leaves the source untouched and yields a store representing `s` plus the copy — the same
    number of documents under the same `_id`s, each the JSON typing of the source document (same field
    set, numbers as float64 of the same value, times as RFC 3339 text), with no index.  Domain:
    exportable documents (`Exportable`: for a valid document, no top-level `_expiresAt`, whose time is
    restored by ImportCollection — see `restoreExpiresAt` — and checked at run time). -/
theorem export_import_roundtrip (s : Spec.State) (σ : DBState) (hcl : σ.closed = false) (hw : WF s) (hr : Rep s σ.kv)
    (c c' : Bytes) (coll : Spec.Coll) (hl : Spec.lookup c s = some coll) (hnew : Spec.lookup c' s = none)
    (hc' : Keys.Clean c') (hex : ∀ e ∈ coll.docs, Exportable e.2) (fresh : List Bytes) :
    let r1 := (Op.exportDocs c).run likeFn fnFam σ noFault
    let r2 := (Op.importDocs c' (some (exported coll)) fresh).run likeFn fnFam r1.state noFault
    let s' := Spec.insert c' (copyOf coll) s
    r1.out = .ok (.docs (exported coll)) ∧ r1.state = σ ∧
    r2.out = .ok .unit ∧ Rep s' r2.state.kv ∧ WF s' ∧ r2.state.closed = false :=
  export_import_refines likeFn fnFam s σ hcl hw hr c c' coll hl hnew hc' hex fresh

/-- the copy: same ids, same number of documents, each document the JSON typing of its source -/
theorem copy_same_ids (coll : Spec.Coll) : (copyOf coll).docs.map (·.1) = coll.docs.map (·.1) := copyOf_ids coll
theorem copy_same_count (coll : Spec.Coll) : (copyOf coll).docs.length = coll.docs.length := copyOf_length coll
theorem copy_documents (coll : Spec.Coll) (id : Bytes) :
    Spec.lookup id (copyOf coll).docs = (Spec.lookup id coll.docs).map jsonTypeDoc := copyOf_lookup coll id
theorem copy_findAll (c c' : Bytes) (coll : Spec.Coll) :
    Spec.findAll likeFn fnFam { coll := c' } (copyOf coll) = (Spec.findAll likeFn fnFam { coll := c } coll).map jsonTypeDoc :=
  findAll_copy likeFn fnFam c c' coll

/-- which valid documents are exportable: exactly those without an expiration field -/
theorem exportable_iff (d : Doc) (hv : validDoc d = true) : Exportable d ↔ d.has expiresAtField = false :=
  exportable_iff_of_valid d hv

end CV.Props.C19

-- SOURCE-TEXT-BEGIN (generated by tools/mk_source_theorems.py; do not edit by hand)
namespace CV.Props.C19

/-- (facts, regenerated from the source on every run) **The source text the model transcribes is the text of the
    current source**: the bodies (comments and layout removed) of the 5 functions the model behind C19 was written from and
    validated against.  Any edit of one of them breaks this theorem at build time; the check then searches with the
    property's own oracles for a failing input, and reports `no-failing-input-found` if it finds none: the model then
    has to be re-validated against the new text (and this block regenerated). -/
theorem source_decision_logic : CV.Facts.logicC19 = [
  "clover..restoreExpiresAt: { if s, ok := fields[d.ExpiresAtField].(string); ok { if t, err := time.Parse(time.RFC3339Nano, s); err == nil { fields[d.ExpiresAtField] = t } } }", 
  "clover.DB.CreateCollectionByQuery: { q, err := normalizeCriteria(q) if err != nil { return err } return db.createCollectionWith(name, func(tx store.Tx) ([]*d.Document, error) { docs := make([]*d.Document, 0) err := db.iterateDocs(tx, q, func(doc *d.Document) error { docs = append(docs, doc) return nil }) return docs, err }) }", 
  "clover.DB.ExportCollection: { exists, err := db.HasCollection(collectionName) if err != nil { return err } if !exists { return ErrCollectionNotExist } result, err := db.FindAll(query.NewQuery(collectionName)) if err != nil { return err } docs := make([]map[string]interface{}, 0) for _, doc := range result { docs = append(docs, doc.AsMap()) } jsonString, err := json.Marshal(docs) if err != nil { return err } return os.WriteFile(exportPath, jsonString, os.ModePerm) }", 
  "clover.DB.ImportCollection: { file, err := os.Open(importPath) if err != nil { return err } defer file.Close() reader := bufio.NewReader(file) jsonObjects := make([]*map[string]interface{}, 0) err = json.NewDecoder(reader).Decode(&jsonObjects) if err != nil { return err } docs := make([]*d.Document, 0) for _, doc := range jsonObjects { if doc == nil { return errors.New(\"invalid document: null\") } restoreExpiresAt(*doc) docs = append(docs, d.NewDocumentOf(*doc)) } return db.createCollectionWith(collectionName, func(store.Tx) ([]*d.Document, error) { return docs, nil }) }", 
  "clover.DB.createCollectionWith: { tx, err := db.store.Begin(true) if err != nil { return err } defer tx.Rollback() if err := db.createCollection(tx, name); err != nil { return err } docs, err := getDocs(tx) if err != nil { return err } assignObjectIds(docs) if err := db.insertDocs(tx, name, docs); err != nil { return err } return tx.Commit() }"] := by rfl

end CV.Props.C19
-- SOURCE-TEXT-END
