import Clover.Props.C13
import Clover.Model.DB
/-! # C12 — `_id` is a unique, immutable key within a collection -/
namespace CV.Props.C12
open CV

/-- A document is stored under the key of its (collection, `_id`); different ids or collections
    never share a key. -/
theorem key_determines_id (c c' id id' : Bytes) (hc : Keys.Clean c) (hc' : Keys.Clean c')
    (h : Keys.docKey c id = Keys.docKey c' id') : c = c' ∧ id = id' :=
  C13.doc_key_injective c c' id id' hc hc' h

/-- `UpdateById` never stores a document whose `_id` differs from the id it was called with, for
    every updater: the body fails with `idChanged` before any write. -/
theorem updateById_rejects_id_change (c id : Bytes) (u : Upd) (d d' : Doc)
    (hu : u.apply d = some d') (hid : d'.objectId ≠ id) (m : CMeta) :
    ∀ φ ctx, kvGet ctx.work (Keys.metaKey c) = some (.cmeta m) → kvGet ctx.work (Keys.docKey c id) = some (.doc d) →
      φ ctx.tick = false → φ (ctx.tick + 1) = false →
      ((Op.body (fun _ _ => false) (fun _ _ => false) (.updateById c id u)) φ ctx).1.isErr = true := by
  intro φ ctx hm hd h0 h1
  simp only [Op.body, getMeta, bind, StoreM.bind', StoreM.get, StoreM.call, h0, hm, Bool.false_eq_true, if_false,
    StoreM.pure', pure, h1, hd, hu, hid, ne_eq, not_false_eq_true, if_true, StoreM.fail, Res.isErr]

end CV.Props.C12
