import Clover.Props.C13
import Clover.Model.DB
import Clover.Proofs.RefineInsert
/-! # C12 — `_id` is a unique, immutable key within a collection -/
namespace CV.Props.C12
open CV

/-- A document is stored under the key of its (collection, `_id`); different ids or collections
    never share a key. -/
theorem key_determines_id (c c' id id' : Bytes) (hc : Keys.Clean c) (hc' : Keys.Clean c')
    (h : Keys.docKey c id = Keys.docKey c' id') : c = c' ∧ id = id' :=
  C13.doc_key_injective c c' id id' hc hc' h

/-- `UpdateById` never stores a document whose `_id` differs from the id it was called with, for
    every updater: the body fails with `idChanged` before any write. -/
theorem updateById_rejects_id_change (c id : Bytes) (u : Upd) (d d' : Doc)
    (hu : u.apply d = some d') (hid : d'.objectId ≠ id) (m : CMeta) :
    ∀ φ ctx, kvGet ctx.work (Keys.metaKey c) = some (.cmeta m) → kvGet ctx.work (Keys.docKey c id) = some (.doc d) →
      φ ctx.tick = false → φ (ctx.tick + 1) = false →
      ((Op.body (fun _ _ => false) (fun _ _ => false) (.updateById c id u)) φ ctx).1.isErr = true := by
  intro φ ctx hm hd h0 h1
  simp only [Op.body, getMeta, bind, StoreM.bind', StoreM.get, StoreM.call, h0, hm, Bool.false_eq_true, if_false,
    StoreM.pure', pure, h1, hd, hu, hid, ne_eq, not_false_eq_true, if_true, StoreM.fail, Res.isErr]

end CV.Props.C12

namespace CV.Props.C12
open CV

variable (likeFn : LikeFn) (fnFam : FnFam)

/-- **Insert** (single or batched, generated and supplied ids) answers what the specification
    answers — `ErrDuplicateKey` for an id already stored or occurring earlier in the batch,
    `invalid id` for a malformed one, in the specification's order, with nothing changed — and on
    success the store represents the specification's new state: every document under the key of its
    own `_id`, supplied ids kept, fresh ids assigned to documents lacking one. -/
theorem insert_exact (s : Spec.State) (σ : KVS) (hw : WF s) (hr : Rep s σ) (c : Bytes) (docs : List Doc) (fresh : List Bytes) :
    let r := withTx true (Op.body likeFn fnFam (.insert c docs fresh)) noFault σ
    let sp := Spec.step likeFn fnFam s (.insert c docs fresh)
    r.1 = sp.1 ∧ Rep sp.2 r.2.1 ∧ WF sp.2 := insert_refines likeFn fnFam s σ hw hr c docs fresh

/-- In the specification a duplicate id anywhere in a batch fails the whole insert. -/
theorem spec_insert_dup_rejected (docs : List (Bytes × Doc)) (d : Doc) (ds : List Doc)
    (h : (Spec.lookup d.objectId docs).isSome = true) : Spec.insertAll docs (d :: ds) = .err .dupKey := by
  simp [Spec.insertAll, h]

/-- **UpdateById / ReplaceById / Save of an existing id** (any updater, any index set): same outcome
    as the specification, which replaces exactly the document stored under `id` and refuses a
    result whose `_id` differs; no other document is overwritten, none becomes reachable under a
    key different from its `_id` (the new store represents the new state, in which `CollWF.idsWF`
    holds). -/
theorem updateById_exact (s : Spec.State) (σ : KVS) (hw : WF s) (hr : Rep s σ) (c id : Bytes) (u : Upd) :
    let r := withTx true (Op.body likeFn fnFam (.updateById c id u)) noFault σ
    let sp := Spec.step likeFn fnFam s (.updateById c id u)
    r.1 = sp.1 ∧ Rep sp.2 r.2.1 ∧ WF sp.2 := updateById_refines likeFn fnFam s σ hw hr c id u

/-- Under the invariant `FindById(c, id)` can only return a document whose `_id` is `id`. -/
theorem findById_returns_own_id (s : Spec.State) (hw : WF s) (c id : Bytes) (coll : Spec.Coll) (d : Doc)
    (hl : Spec.lookup c s = some coll) (hd : Spec.lookup id coll.docs = some d) : d.objectId = id :=
  (collWF_lookup coll (wf_lookup_clean s hw c coll hl).2 id d hd).2

/-- A valid `_id` is a 36-byte text free of `';'` and 0xFF (what the key layout relies on). -/
theorem valid_id_wellformed (d : Doc) (h : validDoc d = true) : IdWF d.objectId := validDoc_idWF d h

end CV.Props.C12
