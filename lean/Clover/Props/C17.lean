import Clover.Generated.Facts
import Clover.Proofs.Translated
import Clover.Proofs.ScanExact
import Clover.Proofs.RangeSem
/-! # C17 — index range scans return exactly the in-range entries, in order

`iterateRange` / `iterateAll` are the model of `rangeIndex.IterateRange` / `Iterate` (cursor steps
over the raw keys of the store, validated against the real functions on both backends on every
run).  The store is `pre ++ block ++ post`: `block` holds the entries `prefix ‖ key(v) ‖ id` of the
scanned index in key order, `pre`/`post` everything stored before/after them (other indexes,
documents, other collections, metadata). -/
namespace CV.Props.C17
open CV OC

variable (c f : Bytes) (pre post : KVS) (E : List IEntry) (r : Range)

/-- "in range": a nil start never constrains; a nil end is open when excluded and means `≤ nil`
    when included (the code's own convention) -/
def InRange (r : Range) (v : Value) : Prop := Pl.valSem vord r.abs v

/-- what the scan's bound tests accept -/
def scanned (r : Range) (e : IEntry) : Bool := Pl.inScan vord r.abs e.1

/-- Range scan exactness, both directions, any store around the index, any index content with
    duplicates / nil / mixed types in the key domain: a fault-free `IterateRange` hands the
    consumer exactly the ids of the entries the bound tests accept, each once, in ascending
    (value, id) order — descending when reversed. -/
theorem range_scan_exact (rev : Bool) (ctx : Ctx)
    (hstore : ctx.work = pre ++ (block c f E ++ post))
    (hpre : ∀ e ∈ pre, ∀ t, lexLt e.1 (Keys.idxPrefix c f ++ t) = true)
    (hpost : ∀ e ∈ post, ∀ t, lexLt (Keys.idxPrefix c f ++ t) e.1 = true)
    (hE : ∀ e ∈ E, Dom numOK e.1 ∧ IdOK e.2) (hrs : Dom numOK r.start) (hre : Dom numOK r.stop)
    (hsorted : E.Pairwise (Pl.leE vord)) :
    ∃ ctx' ids, (iterateRange c f r rev collectAll []) noFault ctx = (.ok ids, ctx') ∧
      ids.reverse = ((if rev then (E.filter (scanned r)).reverse else E.filter (scanned r))).map (·.2) := by
  obtain ⟨ctx', hrun, _⟩ := iterateRange_run c f r rev ctx
  refine ⟨ctx', _, hrun, ?_⟩
  rw [List.reverse_reverse, hstore]
  cases rev with
  | false =>
    rw [iterateRangeP_fwd c f pre post E r hpre hpost hE hrs hre, Pl.scanFwd_exact vord r.abs E hsorted]
    rfl
  | true =>
    rw [iterateRangeP_rev c f pre post E r hpre hpost hE hrs hre hsorted, Pl.scanRev_exact vord r.abs E hsorted]
    rfl

/-- On C17's ranges (at least one non-nil bound, or the nil-only range) the entries the scan accepts
    are exactly those whose value lies within the requested bounds, honouring inclusive and
    exclusive ends and open ends. -/
theorem scanned_iff_in_range (e : IEntry) (hd : Pl.RangeDom vord r.abs) :
    scanned r e = true ↔ InRange r e.1 := Pl.inScan_iff_valSem vord r.abs e.1 hd

/-- A full index iteration yields every entry once, in order (reversed when asked). -/
theorem full_iteration_exact (rev : Bool) (ctx : Ctx)
    (hstore : ctx.work = pre ++ (block c f E ++ post))
    (hpre : ∀ e ∈ pre, ∀ t, lexLt e.1 (Keys.idxPrefix c f ++ t) = true)
    (hpost : ∀ e ∈ post, ∀ t, lexLt (Keys.idxPrefix c f ++ t) e.1 = true)
    (hE : ∀ e ∈ E, Dom numOK e.1 ∧ IdOK e.2) :
    ∃ ctx' ids, (iterateAll c f rev collectAll []) noFault ctx = (.ok ids, ctx') ∧
      ids.reverse = (if rev then E.reverse else E).map (·.2) := by
  obtain ⟨ctx', hrun, _⟩ := iterateAll_run c f rev ctx
  refine ⟨ctx', _, hrun, ?_⟩
  rw [List.reverse_reverse, hstore, iterateAllP_exact c f pre post E hpre hpost hE rev]

/-- Intersecting two ranges never excludes a value contained in both (for ALL ranges). -/
theorem intersect_sound (r1 r2 : Range) (v : Value) (h1 : InRange r1 v) (h2 : InRange r2 v) :
    Pl.valSem vord (r1.abs.intersect vord r2.abs) v := Pl.valSem_intersect vord r1.abs r2.abs v h1 h2

/-- A range is reported empty only if no value can lie in it. -/
theorem empty_sound (v : Value) (hd : Pl.RangeDom vord r.abs) (he : r.abs.isEmpty vord = true) : ¬ InRange r v :=
  Pl.isEmpty_sound vord r.abs v hd he

/-- `Range.IsEmpty` of the model is the abstract one on the key domain. -/
theorem isEmpty_model (hrs : Dom numOK r.start) (hre : Dom numOK r.stop) : r.isEmpty = r.abs.isEmpty vord :=
  isEmpty_abs r hrs hre

/-- non-vacuity: a two-entry index (values 1 and 2, canonical ids) around which nothing is stored
    meets the hypotheses -/
example : ∀ e ∈ ([] : KVS), ∀ t, lexLt e.1 (Keys.idxPrefix [0x61] [0x78] ++ t) = true := by simp

/-- (translated, regenerated from the source on every run) **`Range.IsEmpty`, `Range.IsNil` and `Range.Intersect` as the
    current source writes them** - translated statement by statement into `Generated/Translated.lean` - compute, for every
    range, what the model's definitions (the ones the theorems above are about) compute. -/
theorem source_ranges_are_the_models (r r2 : Gen.GRange) :
    Gen.Range_IsEmpty r = (Translated.toModel r).isEmpty ∧ Gen.Range_IsNil r = (Translated.toModel r).isNilR ∧
    Translated.toModel (Gen.Range_Intersect r r2) = (Translated.toModel r).intersect (Translated.toModel r2) :=
  ⟨Translated.range_isEmpty_eq r, Translated.range_isNil_eq r, Translated.range_intersect_eq r r2⟩

end CV.Props.C17

-- SOURCE-TEXT-BEGIN (generated by tools/mk_source_theorems.py; do not edit by hand)
namespace CV.Props.C17

/-- (facts, regenerated from the source on every run) **The source text the model transcribes is the text of the
    current source**: the bodies (comments and layout removed) of the 4 functions the model behind C17 was written from and
    validated against.  Any edit of one of them breaks this theorem at build time; the check then searches with the
    property's own oracles for a failing input, and reports `no-failing-input-found` if it finds none: the model then
    has to be re-validated against the new text (and this block regenerated). -/
theorem source_decision_logic : CV.Facts.logicC17 = [
  "index..extractDocId: { if len(key) < 36 { panic(string(key)) } return key[:len(key)-36], key[len(key)-36:] }", 
  "index.rangeIndex.Iterate: { opts := badger.DefaultIteratorOptions opts.Reverse = reverse it, err := idx.tx.Cursor(!reverse) if err != nil { return err } defer it.Close() prefix := idx.getKeyPrefix() seekPrefix := prefix if reverse { seekPrefix = append(seekPrefix, 255) } it.Seek(seekPrefix) for ; it.Valid(); it.Next() { item, err := it.Item() if err != nil { return err } key := item.Key if !bytes.HasPrefix(key, prefix) { return nil } _, docId := extractDocId(key) if err := onValue(string(docId)); err != nil { if errors.Is(err, internal.ErrStopIteration) { return nil } return err } } return nil }", 
  "index.rangeIndex.IterateRange: { if vRange.IsEmpty() { return nil } startKey, endKey, err := idx.encodeRange(vRange) if err != nil { return err } seekPrefix := startKey if reverse { seekPrefix = nil if endKey != nil { seekPrefix = append(append([]byte{}, endKey...), 255) } } if seekPrefix == nil { seekPrefix = idx.getKeyPrefix() if reverse { seekPrefix = append(seekPrefix, 255) } } cursor, err := idx.tx.Cursor(!reverse) if err != nil { return err } defer cursor.Close() cursor.Seek(seekPrefix) if !reverse { if vRange.Start != nil && !vRange.StartIncluded { for ; cursor.Valid(); cursor.Next() { item, err := cursor.Item() if err != nil { return err } if !bytes.HasPrefix(item.Key, startKey) { break } } } } else { if vRange.End != nil && !vRange.EndIncluded { for ; cursor.Valid(); cursor.Next() { item, err := cursor.Item() if err != nil { return err } if !bytes.HasPrefix(item.Key, endKey) { break } } } } prefix := idx.getKeyPrefix() for ; cursor.Valid(); cursor.Next() { item, err := cursor.Item() if err != nil { return err } key := item.Key if !bytes.HasPrefix(key, prefix) { return nil } p, docId := extractDocId(key) if !reverse { endCmp := bytes.Compare(p, endKey) if (vRange.End != nil || vRange.IsNil()) && (endCmp > 0 || (endCmp == 0 && !vRange.EndIncluded)) { break } } else { startCmp := bytes.Compare(p, startKey) if (vRange.Start != nil || vRange.IsNil()) && (startCmp < 0 || (startCmp == 0 && !vRange.StartIncluded)) { break } } if err := onValue(string(docId)); err != nil { if errors.Is(err, internal.ErrStopIteration) { return nil } return err } } return nil }", 
  "index.rangeIndex.encodeRange: { var err error var startKey, endKey []byte if vRange.IsNil() || vRange.Start != nil { startKey, err = idx.getKey(vRange.Start) if err != nil { return nil, nil, err } } if vRange.IsNil() || vRange.End != nil { var err error endKey, err = idx.getKey(vRange.End) if err != nil { return nil, nil, err } } return startKey, endKey, nil }"] := by rfl

end CV.Props.C17
-- SOURCE-TEXT-END
