import Clover.Generated.Facts
import Clover.Proofs.ScanExact
import Clover.Proofs.RangeSem
/-! # C17 — index range scans return exactly the in-range entries, in order

`iterateRange` / `iterateAll` are the model of `rangeIndex.IterateRange` / `Iterate` (cursor steps
over the raw keys of the store, validated against the real functions on both backends on every
run).  The store is `pre ++ block ++ post`: `block` holds the entries `prefix ‖ key(v) ‖ id` of the
scanned index in key order, `pre`/`post` everything stored before/after them (other indexes,
documents, other collections, metadata). -/
namespace CV.Props.C17
open CV OC

variable (c f : Bytes) (pre post : KVS) (E : List IEntry) (r : Range)

/-- "in range": a nil start never constrains; a nil end is open when excluded and means `≤ nil`
    when included (the code's own convention) -/
def InRange (r : Range) (v : Value) : Prop := Pl.valSem vord r.abs v

/-- what the scan's bound tests accept -/
def scanned (r : Range) (e : IEntry) : Bool := Pl.inScan vord r.abs e.1

/-- Range scan exactness, both directions, any store around the index, any index content with
    duplicates / nil / mixed types in the key domain: a fault-free `IterateRange` hands the
    consumer exactly the ids of the entries the bound tests accept, each once, in ascending
    (value, id) order — descending when reversed. -/
theorem range_scan_exact (rev : Bool) (ctx : Ctx)
    (hstore : ctx.work = pre ++ (block c f E ++ post))
    (hpre : ∀ e ∈ pre, ∀ t, lexLt e.1 (Keys.idxPrefix c f ++ t) = true)
    (hpost : ∀ e ∈ post, ∀ t, lexLt (Keys.idxPrefix c f ++ t) e.1 = true)
    (hE : ∀ e ∈ E, Dom numOK e.1 ∧ IdOK e.2) (hrs : Dom numOK r.start) (hre : Dom numOK r.stop)
    (hsorted : E.Pairwise (Pl.leE vord)) :
    ∃ ctx' ids, (iterateRange c f r rev collectAll []) noFault ctx = (.ok ids, ctx') ∧
      ids.reverse = ((if rev then (E.filter (scanned r)).reverse else E.filter (scanned r))).map (·.2) := by
  obtain ⟨ctx', hrun, _⟩ := iterateRange_run c f r rev ctx
  refine ⟨ctx', _, hrun, ?_⟩
  rw [List.reverse_reverse, hstore]
  cases rev with
  | false =>
    rw [iterateRangeP_fwd c f pre post E r hpre hpost hE hrs hre, Pl.scanFwd_exact vord r.abs E hsorted]
    rfl
  | true =>
    rw [iterateRangeP_rev c f pre post E r hpre hpost hE hrs hre hsorted, Pl.scanRev_exact vord r.abs E hsorted]
    rfl

/-- On C17's ranges (at least one non-nil bound, or the nil-only range) the entries the scan accepts
    are exactly those whose value lies within the requested bounds, honouring inclusive and
    exclusive ends and open ends. -/
theorem scanned_iff_in_range (e : IEntry) (hd : Pl.RangeDom vord r.abs) :
    scanned r e = true ↔ InRange r e.1 := Pl.inScan_iff_valSem vord r.abs e.1 hd

/-- A full index iteration yields every entry once, in order (reversed when asked). -/
theorem full_iteration_exact (rev : Bool) (ctx : Ctx)
    (hstore : ctx.work = pre ++ (block c f E ++ post))
    (hpre : ∀ e ∈ pre, ∀ t, lexLt e.1 (Keys.idxPrefix c f ++ t) = true)
    (hpost : ∀ e ∈ post, ∀ t, lexLt (Keys.idxPrefix c f ++ t) e.1 = true)
    (hE : ∀ e ∈ E, Dom numOK e.1 ∧ IdOK e.2) :
    ∃ ctx' ids, (iterateAll c f rev collectAll []) noFault ctx = (.ok ids, ctx') ∧
      ids.reverse = (if rev then E.reverse else E).map (·.2) := by
  obtain ⟨ctx', hrun, _⟩ := iterateAll_run c f rev ctx
  refine ⟨ctx', _, hrun, ?_⟩
  rw [List.reverse_reverse, hstore, iterateAllP_exact c f pre post E hpre hpost hE rev]

/-- Intersecting two ranges never excludes a value contained in both (for ALL ranges). -/
theorem intersect_sound (r1 r2 : Range) (v : Value) (h1 : InRange r1 v) (h2 : InRange r2 v) :
    Pl.valSem vord (r1.abs.intersect vord r2.abs) v := Pl.valSem_intersect vord r1.abs r2.abs v h1 h2

/-- A range is reported empty only if no value can lie in it. -/
theorem empty_sound (v : Value) (hd : Pl.RangeDom vord r.abs) (he : r.abs.isEmpty vord = true) : ¬ InRange r v :=
  Pl.isEmpty_sound vord r.abs v hd he

/-- `Range.IsEmpty` of the model is the abstract one on the key domain. -/
theorem isEmpty_model (hrs : Dom numOK r.start) (hre : Dom numOK r.stop) : r.isEmpty = r.abs.isEmpty vord :=
  isEmpty_abs r hrs hre

/-- non-vacuity: a two-entry index (values 1 and 2, canonical ids) around which nothing is stored
    meets the hypotheses -/
example : ∀ e ∈ ([] : KVS), ∀ t, lexLt e.1 (Keys.idxPrefix [0x61] [0x78] ++ t) = true := by simp

end CV.Props.C17

namespace CV.Props.C17

/-- (facts, regenerated from the source on every run) **The decision logic the model transcribes is the
    decision logic of the current source**: `Range.IsEmpty`, `Range.IsNil`, `Range.Intersect` — what `Range.isEmpty`, `Range.isNilR`, `Range.intersect` of the model transcribe.  The text is the functions' bodies with comments and layout
    removed.  Any edit of these functions breaks this theorem at build time; the check then searches
    with the property's own oracles for a failing input (and reports `no-failing-input-found` if the
    edit was harmless: the model then has to be re-validated against the new text). -/
theorem source_decision_logic : CV.Facts.logicC17 = [
  "index.Range.Intersect: { intersection := &Range{ Start: r.Start, End: r.End, StartIncluded: r.StartIncluded, EndIncluded: r.EndIncluded, } res := internal.Compare(r2.Start, intersection.Start) if res > 0 { intersection.Start = r2.Start intersection.StartIncluded = r2.StartIncluded } else if res == 0 { intersection.StartIncluded = intersection.StartIncluded && r2.StartIncluded } else if intersection.Start == nil { intersection.Start = r2.Start intersection.StartIncluded = r2.StartIncluded } res = internal.Compare(r2.End, intersection.End) if res < 0 { intersection.End = r2.End intersection.EndIncluded = r2.EndIncluded } else if res == 0 { intersection.EndIncluded = intersection.EndIncluded && r2.EndIncluded } else if intersection.End == nil { intersection.End = r2.End intersection.EndIncluded = r2.EndIncluded } return intersection }", 
  "index.Range.IsEmpty: { if (r.Start == nil && !r.StartIncluded && r.End != nil) || (r.End == nil && !r.EndIncluded && r.Start != nil) { return false } res := internal.Compare(r.Start, r.End) return (res > 0) || (res == 0 && !r.StartIncluded && !r.EndIncluded) }", 
  "index.Range.IsNil: { return r.Start == nil && r.End == nil && r.StartIncluded && r.EndIncluded }"] := by rfl

end CV.Props.C17
