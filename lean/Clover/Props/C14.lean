import Clover.Probe.Keys
import Clover.Model.Index
import Clover.Proofs.RefineIndex
import Clover.Proofs.RefineDelete
/-! # C14 — index catalog exact, indexes independent (key-space part) -/
namespace CV.Props.C14
open Keys

/-- Scanning or dropping the index on `(c', f')` meets an entry of index `(c, f)` iff it is the
    same index — in particular not when `f'` is a proper prefix of `f` (`x` / `xy`) or a dotted
    parent (`n` / `n.a`). -/
theorem index_prefix_selects_own_entries (c c' f f' rest : Bytes) (hc : Clean c) (hc' : Clean c')
    (hf : Clean f) (hf' : Clean f') :
    isPrefix (idxPrefix c' f') (Keys.idxKey c f rest) = true ↔ c = c' ∧ f = f' :=
  idxKey_prefix c c' f f' rest hc hc' hf hf'

/-- An index scan or drop never meets a document. -/
theorem index_prefix_excludes_documents (c c' f id : Bytes) (hc : Clean c) (hc' : Clean c') :
    isPrefix (idxPrefix c' f) (docKey c id) = false := docKey_not_idxPrefix c c' f id hc hc'

/-- The entry key the model writes is `idxPrefix` followed by the value code and the id. -/
theorem model_entry_key (c f : Bytes) (v : CV.Value) (id : Bytes) :
    CV.idxKey c f v id = Keys.idxKey c f (CV.goKeyTail v ++ id) := rfl

/-- The unterminated prefix the code used before the repair overlaps: kept as the witness of the
    defect (field `x` selecting the entries of `xy`). -/
theorem old_prefix_overlaps (c rest : Bytes) :
    isPrefix (idxPrefixOld c [0x78]) (idxPrefixOld c [0x78, 0x79] ++ semi :: rest) = true := old_prefix_overlap c rest

end CV.Props.C14

namespace CV.Props.C14
open Keys

variable (likeFn : CV.LikeFn) (fnFam : CV.FnFam)

/-- **CreateIndex** (at any point of a history: before, between or after the writes) answers what the
    specification answers (`ErrIndexExist`, `ErrCollectionNotExist`) and the new store represents the
    state with the field catalogued: exactly one entry per document under its current value, the
    entries of every other index and all documents untouched. -/
theorem createIndex_exact (s : CV.Spec.State) (σ : CV.KVS) (hw : CV.WF s) (hr : CV.Rep s σ) (c f : Bytes) (hf : Clean f) :
    let r := CV.withTx true (CV.Op.body likeFn fnFam (.createIndex c f)) CV.noFault σ
    let sp := CV.Spec.step likeFn fnFam s (.createIndex c f)
    r.1 = sp.1 ∧ CV.Rep sp.2 r.2.1 ∧ CV.WF sp.2 := CV.createIndex_refines likeFn fnFam s σ hw hr c f hf

/-- **DropIndex** answers what the specification answers (`ErrIndexNotExist`, …) and the new store
    represents the state without that index: all its entries are gone and nothing else changed —
    including when another catalogued field has the dropped one as a proper prefix (`x` / `xy`) or
    is a dotted sub-path of it (`n` / `n.a`). -/
theorem dropIndex_exact (s : CV.Spec.State) (σ : CV.KVS) (hw : CV.WF s) (hr : CV.Rep s σ) (c f : Bytes) :
    let r := CV.withTx true (CV.Op.body likeFn fnFam (.dropIndex c f)) CV.noFault σ
    let sp := CV.Spec.step likeFn fnFam s (.dropIndex c f)
    r.1 = sp.1 ∧ CV.Rep sp.2 r.2.1 ∧ CV.WF sp.2 := CV.dropIndex_refines likeFn fnFam s σ hw hr c f

/-- **HasIndex / ListIndexes** answer from the catalog of the specification. -/
theorem hasIndex_exact (s : CV.Spec.State) (σ : CV.KVS) (hr : CV.Rep s σ) (c f : Bytes) :
    (CV.withTx false (CV.Op.body likeFn fnFam (.hasIndex c f)) CV.noFault σ).1 =
      (CV.Spec.step likeFn fnFam s (.hasIndex c f)).1 := CV.hasIndex_refines likeFn fnFam s σ hr c f
theorem listIndexes_exact (s : CV.Spec.State) (σ : CV.KVS) (hr : CV.Rep s σ) (c : Bytes) :
    (CV.withTx false (CV.Op.body likeFn fnFam (.listIndexes c)) CV.noFault σ).1 =
      (CV.Spec.step likeFn fnFam s (.listIndexes c)).1 := CV.listIndexes_refines likeFn fnFam s σ hr c

end CV.Props.C14
