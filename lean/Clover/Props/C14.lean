import Clover.Probe.Keys
import Clover.Model.Index
/-! # C14 — index catalog exact, indexes independent (key-space part) -/
namespace CV.Props.C14
open Keys

/-- Scanning or dropping the index on `(c', f')` meets an entry of index `(c, f)` iff it is the
    same index — in particular not when `f'` is a proper prefix of `f` (`x` / `xy`) or a dotted
    parent (`n` / `n.a`). -/
theorem index_prefix_selects_own_entries (c c' f f' rest : Bytes) (hc : Clean c) (hc' : Clean c')
    (hf : Clean f) (hf' : Clean f') :
    isPrefix (idxPrefix c' f') (Keys.idxKey c f rest) = true ↔ c = c' ∧ f = f' :=
  idxKey_prefix c c' f f' rest hc hc' hf hf'

/-- An index scan or drop never meets a document. -/
theorem index_prefix_excludes_documents (c c' f id : Bytes) (hc : Clean c) (hc' : Clean c') :
    isPrefix (idxPrefix c' f) (docKey c id) = false := docKey_not_idxPrefix c c' f id hc hc'

/-- The entry key the model writes is `idxPrefix` followed by the value code and the id. -/
theorem model_entry_key (c f : Bytes) (v : CV.Value) (id : Bytes) :
    CV.idxKey c f v id = Keys.idxKey c f (CV.goKeyTail v ++ id) := rfl

/-- The unterminated prefix the code used before the repair overlaps: kept as the witness of the
    defect (field `x` selecting the entries of `xy`). -/
theorem old_prefix_overlaps (c rest : Bytes) :
    isPrefix (idxPrefixOld c [0x78]) (idxPrefixOld c [0x78, 0x79] ++ semi :: rest) = true := old_prefix_overlap c rest

end CV.Props.C14
