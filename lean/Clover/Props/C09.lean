import Clover.Generated.Facts
import Clover.Props.C04
import Clover.Spec.Spec
import Clover.Proofs.RefineReads
import Clover.Proofs.RefineFindAll
import Clover.Proofs.ReadsExact
import Clover.Proofs.DerivedAnyPlan
/-! # C09 — Count, Exists, FindFirst, ForEach and FindById agree with FindAll; reads are pure -/
namespace CV.Props.C09
open CV

variable (likeFn : LikeFn) (fnFam : FnFam)

/-- None of the read operations alters the database, in any state and under any fault schedule. -/
theorem reads_do_not_alter_db (op : Op) (hw : op.isWrite = false) (kv : KVS) (φ : Faults) :
    (op.exec likeFn fnFam kv φ).2.1 = kv := C04.read_tx_pure likeFn fnFam op hw kv φ

/-- In the specification `Count` is the length of `FindAll`, `Exists` is its non-emptiness under
    limit 1 and `FindFirst` its head under limit 1 — by definition of `Spec.step`; the model
    agrees with the specification wherever the refinement holds (checked at run time on every
    operation until proved). -/
theorem spec_count_is_length (s : Spec.State) (q : Query) (coll : Spec.Coll)
    (h : Spec.lookup q.coll s = some coll) :
    (Spec.step likeFn fnFam s (.count q)).1 = .ok (.int (Spec.findAll likeFn fnFam q coll).length) := by
  simp [Spec.step, Spec.withColl, h]

/-- `FindById` returns the document iff it is live, in every store representing a well-formed state -/
theorem findById_iff_live (s : Spec.State) (σ : KVS) (hw : WF s) (hr : Rep s σ) (c id : Bytes) (hc : Keys.Clean c) :
    (withTx false (Op.body likeFn fnFam (.findById c id)) noFault σ).1 =
      (Spec.step likeFn fnFam s (.findById c id)).1 :=
  findById_refines likeFn fnFam s σ hw hr c id hc

/-- `HasCollection` agrees with the specification's catalog -/
theorem hasCollection_exact (s : Spec.State) (σ : KVS) (hr : Rep s σ) (c : Bytes) :
    (withTx false (Op.body likeFn fnFam (.hasCollection c)) noFault σ).1 =
      (Spec.step likeFn fnFam s (.hasCollection c)).1 :=
  hasCollection_refines likeFn fnFam s σ hr c

/-- `Count(q)` is the length of `FindAll(q)` — through the stored counter when there is no criteria,
    through the plan otherwise; `Exists` and `FindFirst` are `FindAll` under limit 1 (collections
    without indexes; with indexes the same is checked at run time). -/
theorem count_is_length_partial (s : Spec.State) (σ : KVS) (hw : WF s) (hr : Rep s σ) (q : Query)
    (coll : Spec.Coll) (hc : Keys.Clean q.coll) (hl : Spec.lookup q.coll s = some coll) (hni : coll.indexes = []) :
    (withTx false (Op.body likeFn fnFam (.count q)) noFault σ).1 = (Spec.step likeFn fnFam s (.count q)).1 :=
  count_refines_noindex likeFn fnFam s σ hw hr q coll hc hl hni
theorem exists_iff_nonempty_partial (s : Spec.State) (σ : KVS) (hw : WF s) (hr : Rep s σ) (q : Query)
    (coll : Spec.Coll) (hc : Keys.Clean q.coll) (hl : Spec.lookup q.coll s = some coll) (hni : coll.indexes = []) :
    (withTx false (Op.body likeFn fnFam (.exists_ q)) noFault σ).1 = (Spec.step likeFn fnFam s (.exists_ q)).1 :=
  exists_refines_noindex likeFn fnFam s σ hw hr q coll hc hl hni
theorem findFirst_is_head_partial (s : Spec.State) (σ : KVS) (hw : WF s) (hr : Rep s σ) (q : Query)
    (coll : Spec.Coll) (hc : Keys.Clean q.coll) (hl : Spec.lookup q.coll s = some coll) (hni : coll.indexes = []) :
    (withTx false (Op.body likeFn fnFam (.findFirst q)) noFault σ).1 = (Spec.step likeFn fnFam s (.findFirst q)).1 :=
  findFirst_refines_noindex likeFn fnFam s σ hw hr q coll hc hl hni

/-- `Count`, `Exists`, `FindFirst`, `ForEach` (including a consumer that stops after `n` documents)
    agree with `FindAll` whenever the plan is a full scan — any index set: each is the
    specification's answer, and the specification defines all of them from `findAll`. -/
theorem count_is_length (s : Spec.State) (σ : KVS) (hw : WF s) (hr : Rep s σ) (q : Query) (coll : Spec.Coll)
    (hl : Spec.lookup q.coll s = some coll) (hplan : choosePlan coll.indexes q = (.full, false)) :
    (withTx false (Op.body likeFn fnFam (.count q)) noFault σ).1 = (Spec.step likeFn fnFam s (.count q)).1 :=
  count_refines_full likeFn fnFam s σ hw hr q coll hl hplan
theorem forEach_is_prefix (s : Spec.State) (σ : KVS) (hw : WF s) (hr : Rep s σ) (q : Query) (k : Option Nat) (coll : Spec.Coll)
    (hl : Spec.lookup q.coll s = some coll) (hplan : choosePlan coll.indexes q = (.full, false)) :
    (withTx false (Op.body likeFn fnFam (.forEach q k)) noFault σ).1 = (Spec.step likeFn fnFam s (.forEach q k)).1 :=
  forEach_refines_full likeFn fnFam s σ hw hr q k coll hl hplan
theorem exists_iff_nonempty (s : Spec.State) (σ : KVS) (hw : WF s) (hr : Rep s σ) (q : Query) (coll : Spec.Coll)
    (hl : Spec.lookup q.coll s = some coll) (hplan : choosePlan coll.indexes { q with limit := 1 } = (.full, false)) :
    (withTx false (Op.body likeFn fnFam (.exists_ q)) noFault σ).1 = (Spec.step likeFn fnFam s (.exists_ q)).1 :=
  exists_refines_full likeFn fnFam s σ hw hr q coll hl hplan
theorem findFirst_is_head (s : Spec.State) (σ : KVS) (hw : WF s) (hr : Rep s σ) (q : Query) (coll : Spec.Coll)
    (hl : Spec.lookup q.coll s = some coll) (hplan : choosePlan coll.indexes { q with limit := 1 } = (.full, false)) :
    (withTx false (Op.body likeFn fnFam (.findFirst q)) noFault σ).1 = (Spec.step likeFn fnFam s (.findFirst q)).1 :=
  findFirst_refines_full likeFn fnFam s σ hw hr q coll hl hplan

/-- … and `Count` with criteria agrees with the specification's count under ANY plan (index range,
    index order, full scan), with any sort, skip and limit, on the key domain. -/
theorem count_is_length_any_plan (s : Spec.State) (σ : KVS) (hw : WF s) (hr : Rep s σ) (q : Query) (cr : Crit)
    (hq : q.crit = some cr) (coll : Spec.Coll) (hl : Spec.lookup q.coll s = some coll) (hdomain : KeyDomain q coll) :
    (withTx false (Op.body likeFn fnFam (.count q)) noFault σ).1 = (Spec.step likeFn fnFam s (.count q)).1 :=
  count_exact_any_plan likeFn fnFam s σ hw hr q cr hq coll hl hdomain

end CV.Props.C09

namespace CV.Props.C09


/-- **The derived reads agree with `FindAll` whatever plan serves the query** — no domain hypothesis at
    all: for every index set, criteria, sort and window, on the model's own answers, `Count` (with
    criteria) is the length of `FindAll`, `Exists` is non-emptiness and `FindFirst` the head of
    `FindAll` with limit 1, `ForEach` visits `FindAll`'s sequence (its prefix when the consumer stops). -/
theorem derived_reads_agree_any_plan (s : Spec.State) (σ : KVS) (hw : WF s) (hr : Rep s σ) (q : Query)
    (coll : Spec.Coll) (hl : Spec.lookup q.coll s = some coll) :
    ∃ res res₁,
      (withTx false (Op.body likeFn fnFam (.findAll q)) noFault σ).1 = .ok (.docs res) ∧
      (withTx false (Op.body likeFn fnFam (.findAll { q with limit := 1 })) noFault σ).1 = .ok (.docs res₁) ∧
      (q.crit ≠ none → (withTx false (Op.body likeFn fnFam (.count q)) noFault σ).1 = .ok (.int res.length)) ∧
      (withTx false (Op.body likeFn fnFam (.exists_ q)) noFault σ).1 = .ok (.bool (!res₁.isEmpty)) ∧
      (withTx false (Op.body likeFn fnFam (.findFirst q)) noFault σ).1 = .ok (.docOpt res₁.head?) ∧
      (∀ k, (withTx false (Op.body likeFn fnFam (.forEach q k)) noFault σ).1 = .ok (.docs (seenBy k res))) :=
  CV.derived_reads_agree_any_plan likeFn fnFam s σ hw hr q coll hl

/-- **`Exists` and `Count` through any plan equal the specification's** (key domain; `Count` without
    criteria takes the stored size and needs no domain). -/
theorem exists_exact_any_plan (s : Spec.State) (σ : KVS) (hw : WF s) (hr : Rep s σ) (q : Query)
    (coll : Spec.Coll) (hl : Spec.lookup q.coll s = some coll) (hdomain : KeyDomain q coll) :
    (withTx false (Op.body likeFn fnFam (.exists_ q)) noFault σ).1 = (Spec.step likeFn fnFam s (.exists_ q)).1 :=
  CV.exists_exact_any_plan likeFn fnFam s σ hw hr q coll hl hdomain

theorem count_exact_any_plan (s : Spec.State) (σ : KVS) (hw : WF s) (hr : Rep s σ) (q : Query)
    (coll : Spec.Coll) (hl : Spec.lookup q.coll s = some coll) (hdomain : KeyDomain q coll) :
    (withTx false (Op.body likeFn fnFam (.count q)) noFault σ).1 = (Spec.step likeFn fnFam s (.count q)).1 :=
  CV.count_any_plan likeFn fnFam s σ hw hr q coll hl hdomain

/-- **`ForEach` through any plan** visits, position by position up to ties of the sort options, what the
    specification visits — the whole answer, or its first `max n 1` documents for a consumer that
    stops after `n`. -/
theorem forEach_up_to_ties_any_plan (s : Spec.State) (σ : KVS) (hw : WF s) (hr : Rep s σ) (q : Query) (k : Option Nat)
    (coll : Spec.Coll) (hl : Spec.lookup q.coll s = some coll) (hdomain : KeyDomain q coll)
    (hsd : SortDom q.sort ((coll.docs.map (·.2)).filter (fun d => satOpt likeFn fnFam d q.crit)))
    (hnn : (choosePlan coll.indexes q).2 = true →
      ∀ o ∈ q.sort, ∀ d ∈ (coll.docs.map (·.2)).filter (fun d => satOpt likeFn fnFam d q.crit),
        d.has o.1 = true → d.get o.1 ≠ .null) :
    ∃ res spec, (withTx false (Op.body likeFn fnFam (.forEach q k)) noFault σ).1 = .ok (.docs res) ∧
      (Spec.step likeFn fnFam s (.forEach q k)).1 = .ok (.docs spec) ∧
      spec = seenBy k (Spec.findAll likeFn fnFam q coll) ∧
      List.Forall₂ (fun a b => compareDocuments a b q.sort = 0) res spec :=
  forEach_classwise_any_plan likeFn fnFam s σ hw hr q k coll hl hdomain hsd hnn

end CV.Props.C09

-- SOURCE-TEXT-BEGIN (generated by tools/mk_source_theorems.py; do not edit by hand)
namespace CV.Props.C09

/-- (facts, regenerated from the source on every run) **The source text the model transcribes is the text of the
    current source**: the bodies (comments and layout removed) of the 10 functions the model behind C09 was written from and
    validated against.  Any edit of one of them breaks this theorem at build time; the check then searches with the
    property's own oracles for a failing input, and reports `no-failing-input-found` if it finds none: the model then
    has to be re-validated against the new text (and this block regenerated). -/
theorem source_decision_logic : CV.Facts.logicC09 = [
  "clover..getDocumentById: { value, err := tx.Get([]byte(getDocumentKey(collectionName, id))) if value == nil || err != nil { return nil, err } return d.Decode(value) }", 
  "clover.DB.Count: { q, err := normalizeCriteria(q) if err != nil { return -1, err } if q.Criteria() == nil { return db.countCollection(q) } num := 0 err = db.IterateDocs(q, func(doc *d.Document) error { num++ return nil }) return num, err }", 
  "clover.DB.Exists: { doc, err := db.FindFirst(q) return doc != nil, err }", 
  "clover.DB.FindAll: { q, err := normalizeCriteria(q) if err != nil { return nil, err } docs := make([]*d.Document, 0) err = db.IterateDocs(q, func(doc *d.Document) error { docs = append(docs, doc) return nil }) return docs, err }", 
  "clover.DB.FindById: { tx, err := db.store.Begin(false) if err != nil { return nil, err } defer tx.Rollback() ok, err := db.hasCollection(collection, tx) if err != nil { return nil, err } if !ok { return nil, ErrCollectionNotExist } return getDocumentById(collection, id, tx) }", 
  "clover.DB.FindFirst: { docs, err := db.FindAll(q.Limit(1)) var doc *d.Document if len(docs) > 0 { doc = docs[0] } return doc, err }", 
  "clover.DB.ForEach: { q, err := normalizeCriteria(q) if err != nil { return err } return db.IterateDocs(q, func(doc *d.Document) error { if !consumer(doc) { return internal.ErrStopIteration } return nil }) }", 
  "clover.DB.IterateDocs: { q, err := normalizeCriteria(q) if err != nil { return err } tx, err := db.store.Begin(false) if err != nil { return err } defer tx.Rollback() return db.iterateDocs(tx, q, consumer) }", 
  "clover.DB.countCollection: { size, err := db.getCollectionSize(q.Collection()) size -= q.GetSkip() if size < 0 { size = 0 } if q.GetLimit() >= 0 && q.GetLimit() < size { return q.GetLimit(), err } return size, err }", 
  "clover.DB.getCollectionSize: { tx, err := db.store.Begin(false) if err != nil { return -1, err } defer tx.Rollback() meta, err := db.getCollectionMeta(collection, tx) if err != nil { return -1, err } return meta.Size, nil }"] := by rfl

end CV.Props.C09
-- SOURCE-TEXT-END
