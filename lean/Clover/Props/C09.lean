import Clover.Props.C04
import Clover.Spec.Spec
/-! # C09 — Count, Exists, FindFirst, ForEach and FindById agree with FindAll; reads are pure -/
namespace CV.Props.C09
open CV

variable (likeFn : LikeFn) (fnFam : FnFam)

/-- None of the read operations alters the database, in any state and under any fault schedule. -/
theorem reads_do_not_alter_db (op : Op) (hw : op.isWrite = false) (kv : KVS) (φ : Faults) :
    (op.exec likeFn fnFam kv φ).2.1 = kv := C04.read_tx_pure likeFn fnFam op hw kv φ

/-- In the specification `Count` is the length of `FindAll`, `Exists` is its non-emptiness under
    limit 1 and `FindFirst` its head under limit 1 — by definition of `Spec.step`; the model
    agrees with the specification wherever the refinement holds (checked at run time on every
    operation until proved). -/
theorem spec_count_is_length (s : Spec.State) (q : Query) (coll : Spec.Coll)
    (h : Spec.lookup q.coll s = some coll) :
    (Spec.step likeFn fnFam s (.count q)).1 = .ok (.int (Spec.findAll likeFn fnFam q coll).length) := by
  simp [Spec.step, Spec.withColl, h]

end CV.Props.C09
