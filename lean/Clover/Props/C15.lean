import Clover.Proofs.KVLaws
import Clover.Model.DB
/-! # C15 — all storage backends behave identically (the cursor contract and determinism)

Every operation of the model uses the store only through `kvGet / kvSet / kvDel / seekFwd / seekRev`;
its result is therefore a function of the committed key–value set alone (`Op.run` is a function).
That both adapters implement this contract is what the conformance stream checks on every run. -/
namespace CV.Props.C15
open CV OC

/-- Forward seek: the cursor stands on the first key at or after the target and then visits every
    later key exactly once in ascending order — its view is exactly the entries with key ≥ target. -/
theorem forward_seek_contract (kv : KVS) (hs : KSorted kv) (k : Bytes) :
    seekFwd kv k = kv.filter (fun e => !lexLt e.1 k) := seekFwd_eq_filter kv hs k

/-- Reverse seek: the cursor stands on the last key at or before the target and then visits every
    earlier key exactly once in descending order. -/
theorem reverse_seek_contract (kv : KVS) (hs : KSorted kv) (k : Bytes) :
    seekRev kv k = (kv.filter (fun e => !lexLt k e.1)).reverse := seekRev_eq_filter kv hs k

/-- Keys with empty values are visible: what a cursor visits depends on the keys only. -/
theorem empty_values_visible (kv : KVS) (k : Bytes) :
    (seekFwd kv k).map (·.1) = (kv.map (·.1)).dropWhile (fun x => lexLt x k) := seekFwd_keys kv k

/-- The store stays sorted under writes, reads after writes see the last value, and two stores
    with the same lookups are the same store — so the outcome of an operation is determined by
    the committed key–value set, whichever backend holds it. -/
theorem store_determined_by_lookups (a b : KVS) (ha : KSorted a) (hb : KSorted b)
    (h : ∀ k, kvGet a k = kvGet b k) : a = b := kv_ext a b ha hb h
theorem set_then_get (t : KVS) (hs : KSorted t) (k k' : Bytes) (v : SVal) :
    kvGet (kvSet t k v) k' = if k' = k then some v else kvGet t k' := kvGet_kvSet t k k' v hs
theorem delete_then_get (t : KVS) (hs : KSorted t) (k k' : Bytes) :
    kvGet (kvDel t k) k' = if k' = k then none else kvGet t k' := kvGet_kvDel t k k' hs
theorem writes_keep_order (t : KVS) (hs : KSorted t) (k : Bytes) (v : SVal) :
    KSorted (kvSet t k v) ∧ KSorted (kvDel t k) := ⟨ksorted_kvSet t hs k v, ksorted_kvDel t hs k⟩

example : KSorted [([1], .unit), ([1, 0], .unit), ([2], .unit)] := by
  simp [KSorted, lexLt]

end CV.Props.C15
