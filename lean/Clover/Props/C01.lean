import Clover.Generated.Facts
import Clover.Props.C02
import Clover.Spec.Spec
import Clover.Proofs.RefineFindAll
import Clover.Proofs.ReadsAny
import Clover.Proofs.ReadsExact
import Clover.Proofs.RefineFaults
import Clover.Proofs.SpecWF
import Clover.Proofs.RefineAnyPlan
import Clover.Proofs.RefineAnyPlanFaults
import Clover.Proofs.RefineExact
import Clover.Proofs.Witness
/-! # C01 — queries return exactly the documents that satisfy their criteria -/
namespace CV.Props.C01
open CV

variable (likeFn : LikeFn) (fnFam : FnFam)

/-- Meaning of a query (specification): without skip/limit, a document is returned iff it is a
    live document of the collection and satisfies the criteria — whatever the sort options. -/
theorem spec_findAll_mem (q : Query) (coll : Spec.Coll) (hs : q.skip = 0) (hl : q.limit < 0) (d : Doc) :
    d ∈ Spec.findAll likeFn fnFam q coll ↔
      d ∈ coll.docs.map (·.2) ∧ satOpt likeFn fnFam d q.crit = true := by
  unfold Spec.findAll Spec.window
  simp only [hs, hl, if_true, List.drop_zero]
  split
  · simp [List.mem_filter]
  · unfold sortDocs
    rw [(List.mergeSort_perm _ _).mem_iff]
    simp [List.mem_filter]

/-- ... and nothing is returned twice: the result has as many elements as the filter. -/
theorem spec_findAll_length (q : Query) (coll : Spec.Coll) (hs : q.skip = 0) (hl : q.limit < 0) :
    (Spec.findAll likeFn fnFam q coll).length =
      ((coll.docs.map (·.2)).filter (fun d => satOpt likeFn fnFam d q.crit)).length := by
  unfold Spec.findAll Spec.window
  simp only [hs, hl, if_true, List.drop_zero]
  split
  · rfl
  · unfold sortDocs
    exact (List.mergeSort_perm _ _).length_eq

/-- Planner soundness (shared with C02): the index range never excludes a satisfying document. -/
theorem planner_never_drops (d : Doc) (hd : AllNumKV numOK d) (c : Crit) (hc : CritOK c) (f : Bytes)
    (h : sat likeFn fnFam d c = true) :
    ∀ r, fieldRange f (flatten c) = some r → Pl.inScan vord r.abs (d.get f) = true :=
  C02.planner_sound likeFn fnFam d hd c hc f h

/-- **Refinement of FindAll (collections without indexes).**  In every store that represents a
    well-formed abstract state — i.e. after any history of operations that preserve the invariant —
    a fault-free `FindAll(q)` of the model returns exactly the specification's answer: the live
    documents of the collection that satisfy the criteria (any tree, any operand kind), each once,
    with the fields last written, ordered by the sort options and cut to the skip/limit window.
    (With indexes the same holds for the candidates — `C02.index_candidates_complete` — and is
    checked end to end at run time; `_partial` because the index-plan glue is not yet a theorem.) -/
theorem findAll_refines_spec_partial (s : Spec.State) (σ : KVS) (hw : WF s) (hr : Rep s σ) (q : Query)
    (coll : Spec.Coll) (hc : Keys.Clean q.coll) (hl : Spec.lookup q.coll s = some coll) (hni : coll.indexes = []) :
    (withTx false (Op.body likeFn fnFam (.findAll q)) noFault σ).1 =
      .ok (.docs (Spec.findAll likeFn fnFam q coll)) :=
  findAll_refines_noindex likeFn fnFam s σ hw hr q coll hc hl hni

/-- a query on a missing collection reports it -/
theorem findAll_missing_collection (s : Spec.State) (σ : KVS) (hr : Rep s σ) (q : Query)
    (hl : Spec.lookup q.coll s = none) :
    (withTx false (Op.body likeFn fnFam (.findAll q)) noFault σ).1 = .err .collNotExist :=
  findAll_missing likeFn fnFam s σ hr q hl

/-- non-vacuity: the empty store represents the empty (well-formed) state -/
example : WF [] ∧ Rep [] [] := ⟨wf_empty, rep_empty⟩

end CV.Props.C01

namespace CV.Props.C01
open CV

variable (likeFn : LikeFn) (fnFam : FnFam)

/-- **Whatever the index set and whichever plan the planner chose** (index range, index order, full
    scan; forward or reverse), in every store representing a well-formed abstract state — i.e.
    after any history (`C06.inv_reachable`) — a fault-free `FindAll(q)` returns only live documents
    of `q`'s collection, each carrying the fields last written, each satisfying the criteria (any
    tree, any operand kind), and none of them twice. (That none is missed is planner soundness +
    scan exactness, `C02`.) -/
theorem findAll_returns_nothing_else (s : Spec.State) (σ : KVS) (hw : WF s) (hr : Rep s σ) (q : Query)
    (coll : Spec.Coll) (hl : Spec.lookup q.coll s = some coll) :
    ∃ res, (withTx false (Op.body likeFn fnFam (.findAll q)) noFault σ).1 = .ok (.docs res) ∧
      (∀ d ∈ res, Spec.lookup d.objectId coll.docs = some d ∧ satOpt likeFn fnFam d q.crit = true) ∧
      (res.map Doc.objectId).Nodup := findAll_sound_any_plan likeFn fnFam s σ hw hr q coll hl

/-- **Exactly the satisfying documents, each once — with any indexes**: in every store representing a
    well-formed abstract state, on the key domain, a fault-free `FindAll(q)` (no sort, no window)
    returns a permutation of `filter (sat q.crit)` over the live documents of the collection. -/
theorem findAll_exact (s : Spec.State) (σ : KVS) (hw : WF s) (hr : Rep s σ) (q : Query)
    (coll : Spec.Coll) (hl : Spec.lookup q.coll s = some coll) (hdomain : KeyDomain q coll)
    (hskip : q.skip = 0) (hlimit : q.limit < 0) :
    ∃ res, (withTx false (Op.body likeFn fnFam (.findAll q)) noFault σ).1 = .ok (.docs res) ∧
      res.Perm (Spec.findAll likeFn fnFam q coll) :=
  findAll_exact_any_plan likeFn fnFam s σ hw hr q coll hl hdomain hskip hlimit

/-- **One public call refines the specification** (fault-free run; every operation kind, with `Save`
    and `ReplaceById` routed as the code routes them; queries served by a full scan — in particular
    every call on collections without indexes): same answer, sentinel errors included, and the new
    store represents the specification's new state. -/
theorem refine_step (op : Op) (hop : OpOK op) (s : Spec.State) (σ : DBState) (hcl : σ.closed = false)
    (hw : WF s) (hr : Rep s σ.kv) (hdet : Op.Determined s op) :
    let r := op.run likeFn fnFam σ noFault
    let sp := Spec.step likeFn fnFam s op
    r.out = sp.1 ∧ Rep sp.2 r.state.kv ∧ WF sp.2 ∧ r.state.closed = false :=
  CV.refine_step likeFn fnFam op hop s σ hcl hw hr hdet

/-- **Every history refines the specification**: from the empty database, for any finite sequence of
    operations each of which is determined in the state reached so far, the model's answers equal
    the specification's answers call by call — so `FindAll` returns the documents satisfying its
    criteria with the field values last written, after any interleaving of inserts, updates,
    replacements, deletes, index and collection operations. -/
theorem refine_history (ops : List Op) (hok : ∀ op ∈ ops, OpOK op) (hdet : AllDetermined likeFn fnFam ops []) :
    (modelRun likeFn fnFam ops {}).1 = (specRun likeFn fnFam ops []).1 ∧
      Rep (specRun likeFn fnFam ops []).2 (modelRun likeFn fnFam ops {}).2.kv ∧ WF (specRun likeFn fnFam ops []).2 :=
  refine_from_empty likeFn fnFam ops hok hdet

/-- **… under arbitrary fault schedules too**: in any history in which every call runs under its own
    fault schedule, a call hit by a fault returns an error and changes neither the store nor the
    specification's state (it simply did not happen), and every other call returns exactly the
    specification's answer; at the end the store represents the specification's state. -/
theorem refine_history_under_faults (h : List (Op × Faults)) (hok : ∀ x ∈ h, OpOK x.1)
    (hdet : AllDeterminedF likeFn fnFam h {} []) :
    (∀ x ∈ (lockstep likeFn fnFam h {} []).1, CallAgrees x) ∧
      Rep (lockstep likeFn fnFam h {} []).2.2 (lockstep likeFn fnFam h {} []).2.1.kv ∧
      WF (lockstep likeFn fnFam h {} []).2.2 :=
  refine_from_empty_faults likeFn fnFam h hok hdet

/-- The specification itself is well behaved for EVERY operation (also the queries an index would
    serve): its states stay well formed and an error never changes the state. -/
theorem spec_keeps_wellformed (ops : List Op) (hok : ∀ op ∈ ops, OpOK op) : WF (specRun likeFn fnFam ops []).2 :=
  spec_history_wf likeFn fnFam ops hok
theorem spec_error_changes_nothing (s : Spec.State) (op : Op) (h : (Spec.step likeFn fnFam s op).1.isErr = true) :
    (Spec.step likeFn fnFam s op).2 = s := spec_step_err_unchanged likeFn fnFam s op h

/-- **The store follows the specification along histories whatever plans serve the calls**: reads may be
    served by any index (they cannot change the state), bulk updates, deletes and `CreateCollectionByQuery`
    may select their documents through any index plan on the key domain (no window), every other
    operation is unrestricted; after any such history the store represents exactly the specification's state and
    every call failed iff the specification's call failed.  (`refine_history` adds equality of the
    answers for the calls served by a full scan.) -/
theorem states_refine_any_plan (ops : List Op) (hok : ∀ op ∈ ops, OpOK op) (hdom : AllInDomain likeFn fnFam ops []) :
    Rep (specRun likeFn fnFam ops []).2 (modelRun likeFn fnFam ops {}).2.kv ∧ WF (specRun likeFn fnFam ops []).2 ∧
      (modelRun likeFn fnFam ops {}).1.map Res.isErr = (specRun likeFn fnFam ops []).1.map Res.isErr := by
  obtain ⟨h1, h2, _⟩ := refine_states_from_empty likeFn fnFam ops hok hdom
  exact ⟨h1, h2, refine_errs_any_plan likeFn fnFam ops hok [] {} rfl wf_empty rep_empty hdom⟩

/-- **… and under arbitrary fault schedules**: in any history in which every call runs under its own fault
    schedule and the calls that were not hit are in the domain above, a call hit by a fault returns an error and
    changes nothing (it did not happen), every other call fails iff the specification's call fails, and at the end
    the store represents the specification's state — whatever plans served the calls. -/
theorem states_refine_any_plan_under_faults (h : List (Op × Faults)) (hok : ∀ x ∈ h, OpOK x.1)
    (hdom : AllInDomainF likeFn fnFam h {} []) :
    (∀ x ∈ (lockstep likeFn fnFam h {} []).1, CallAgreesState x) ∧
      Rep (lockstep likeFn fnFam h {} []).2.2 (lockstep likeFn fnFam h {} []).2.1.kv ∧
      WF (lockstep likeFn fnFam h {} []).2.2 :=
  refine_states_any_plan_from_empty_faults likeFn fnFam h hok hdom

/-- **The any-plan theorems are not vacuous** (`Proofs/Witness.lean`): a concrete history — create a collection,
    index `x`, insert three documents, `Update` where `x ≥ 2`, copy the documents with `x ≥ 7` into a second
    collection, index it, `Delete` from it — satisfies every hypothesis, and its update, copy and delete are in
    the domain ONLY through the index-plan disjunct (none of them is a full scan); the sorted, windowed read at
    the end has its sort served by the index and cuts a real tie class. -/
theorem any_plan_theorems_apply_to_a_real_history :
    (∀ op ∈ Witness.ops, OpOK op) ∧ AllInDomain Witness.likeFn Witness.fnFam Witness.ops [] ∧
    ¬ FullPlan Witness.s3 Witness.q₁ ∧ ¬ FullPlan Witness.s6 Witness.qDel ∧
    (choosePlan Witness.coll.indexes Witness.q₂).2 = true ∧
    Rep Witness.sFinal (modelRun Witness.likeFn Witness.fnFam Witness.ops {}).2.kv ∧
    (∃ r, (withTx false (Op.body Witness.likeFn Witness.fnFam (.findAll Witness.q₂)) noFault
        (modelRun Witness.likeFn Witness.fnFam Witness.ops {}).2.kv).1 = .ok (.docs [r]) ∧
      compareDocuments r Witness.d2' [(Witness.x, 1)] = 0) :=
  ⟨Witness.ops_ok, Witness.ops_inDomain, Witness.update_not_fullPlan, Witness.delete_not_fullPlan,
    Witness.plan₂_sorted, Witness.witness_states.1, Witness.witness_findAll_one⟩

/-- **Exact answers, call by call, whatever plans serve the calls — whenever the property determines the answer**:
    reads whose sort order is total on the matching documents (e.g. `_id` among the sort keys), `Count` / `Exists` on the
    key domain, bulk updates / deletes with a total order (windowed or not), copies, and everything a full scan serves:
    along any such history the model answers EXACTLY what the specification answers and the store represents the
    specification's state.  `refine_history` (full scans only) is the special case `allDetermined_allExact`. -/
theorem refine_history_exact_any_plan (ops : List Op) (hok : ∀ op ∈ ops, OpOK op) (hdom : AllExact likeFn fnFam ops []) :
    (modelRun likeFn fnFam ops {}).1 = (specRun likeFn fnFam ops []).1 ∧
      Rep (specRun likeFn fnFam ops []).2 (modelRun likeFn fnFam ops {}).2.kv ∧ WF (specRun likeFn fnFam ops []).2 :=
  refine_exact_from_empty likeFn fnFam ops hok hdom

theorem full_scan_histories_are_exact_histories (ops : List Op) (s : Spec.State) (h : AllDetermined likeFn fnFam ops s) :
    AllExact likeFn fnFam ops s := allDetermined_allExact likeFn fnFam ops s h

/-- the domain of `states_refine_any_plan` contains every history of `refine_history` -/
theorem determined_histories_are_in_domain (ops : List Op) (s : Spec.State) (h : AllDetermined likeFn fnFam ops s) :
    AllInDomain likeFn fnFam ops s := allDetermined_allInDomain likeFn fnFam ops s h

/-- **… hence, after any such history, `FindAll` through any plan** answers the specification's
    documents: a permutation of them without sort and window, and position by position up to ties of
    the sort options with any sort, skip and limit. -/
theorem findAll_after_any_history (ops : List Op) (hok : ∀ op ∈ ops, OpOK op) (hdom : AllInDomain likeFn fnFam ops [])
    (q : Query) (coll : Spec.Coll) (hl : Spec.lookup q.coll (specRun likeFn fnFam ops []).2 = some coll)
    (hdomain : KeyDomain q coll)
    (hsd : SortDom q.sort ((coll.docs.map (·.2)).filter (fun d => satOpt likeFn fnFam d q.crit)))
    (hnn : (choosePlan coll.indexes q).2 = true →
      ∀ o ∈ q.sort, ∀ d ∈ (coll.docs.map (·.2)).filter (fun d => satOpt likeFn fnFam d q.crit),
        d.has o.1 = true → d.get o.1 ≠ .null) :
    ∃ res, (withTx false (Op.body likeFn fnFam (.findAll q)) noFault (modelRun likeFn fnFam ops {}).2.kv).1 = .ok (.docs res) ∧
      List.Forall₂ (fun a b => compareDocuments a b q.sort = 0) res (Spec.findAll likeFn fnFam q coll) :=
  findAll_after_history_up_to_ties likeFn fnFam ops hok hdom q coll hl hdomain hsd hnn

end CV.Props.C01

-- SOURCE-TEXT-BEGIN (generated by tools/mk_source_theorems.py; do not edit by hand)
namespace CV.Props.C01

/-- (facts, regenerated from the source on every run) **The source text the model transcribes is the text of the
    current source**: the bodies (comments and layout removed) of the 50 functions the model behind C01 was written from and
    validated against.  Any edit of one of them breaks this theorem at build time; the check then searches with the
    property's own oracles for a failing input, and reports `no-failing-input-found` if it finds none: the model then
    has to be re-validated against the new text (and this block regenerated). -/
theorem source_decision_logic : CV.Facts.logicC01 = [
  "clover..isFieldReference: { s, isStr := v.(string) return query.IsField(v) || (isStr && strings.HasPrefix(s, \"$\")) }", 
  "clover..normalizeCriteria: { if q.Criteria() != nil { v := &CriteriaNormalizeVisitor{} c := q.Criteria().Accept(v) if v.err != nil { return nil, v.err } q = q.Where(c.(query.Criteria)) } return q, nil }", 
  "clover..normalizeOperand: { if query.IsField(value) { return value, nil } elems, isSlice := value.([]interface{}) if !isList || !isSlice { return internal.Normalize(value) } normElems := make([]interface{}, 0, len(elems)) for _, elem := range elems { normElem, err := normalizeOperand(elem, false) if err != nil { return nil, err } normElems = append(normElems, normElem) } return normElems, nil }", 
  "clover.CriteriaNormalizeVisitor.VisitBinaryCriteria: { leftRes := c.C1.Accept(v) rightRes := c.C2.Accept(v) if leftRes == nil || rightRes == nil { return nil } return &query.BinaryCriteria{ OpType: c.OpType, C1: leftRes.(query.Criteria), C2: rightRes.(query.Criteria), } }", 
  "clover.CriteriaNormalizeVisitor.VisitNotCriteria: { res := c.C.Accept(v) if res == nil { return nil } return &query.NotCriteria{C: res.(query.Criteria)} }", 
  "clover.CriteriaNormalizeVisitor.VisitUnaryCriteria: { normValue := c.Value if c.OpType != query.FunctionOp { var err error normValue, err = normalizeOperand(c.Value, c.OpType == query.InOp || c.OpType == query.ContainsOp) if err != nil { v.err = err return nil } } return &query.UnaryCriteria{ Field: c.Field, OpType: c.OpType, Value: normValue, } }", 
  "clover.DB.FindAll: { q, err := normalizeCriteria(q) if err != nil { return nil, err } docs := make([]*d.Document, 0) err = db.IterateDocs(q, func(doc *d.Document) error { docs = append(docs, doc) return nil }) return docs, err }", 
  "clover.DB.IterateDocs: { q, err := normalizeCriteria(q) if err != nil { return err } tx, err := db.store.Begin(false) if err != nil { return err } defer tx.Rollback() return db.iterateDocs(tx, q, consumer) }", 
  "clover.DB.iterateDocs: { meta, err := db.getCollectionMeta(q.Collection(), tx) if err != nil { return err } nd := buildQueryPlan(q, db.getIndexes(tx, q.Collection(), meta), &consumerNode{consumer: consumer}) return execPlan(nd, tx) }", 
  "clover.iterNode.iterateFullCollection: { prefix := []byte(getDocumentKeyPrefix(nd.collection)) return iteratePrefix(prefix, tx, func(item store.Item) error { doc, err := d.Decode(item.Value) if err != nil { return err } if nd.filter == nil || nd.filter.Satisfy(doc) { return nd.CallNext(doc) } return nil }) }", 
  "clover.iterNode.iterateIndex: { iterFunc := func(docId string) error { doc, err := getDocumentById(nd.collection, docId, tx) if err != nil || doc == nil { return err } if nd.filter == nil || nd.filter.Satisfy(doc) { return nd.CallNext(doc) } return nil } err := nd.idxQuery.Run(iterFunc) return err }", 
  "query..Field: { return &field{name: name} }", 
  "query..IsField: { _, ok := v.(*field) return ok }", 
  "query..NewQuery: { return &Query{ collection: collection, criteria: nil, limit: -1, skip: 0, sortOpts: nil, } }", 
  "query..and: { return &BinaryCriteria{ OpType: LogicalAnd, C1: c1, C2: c2, } }", 
  "query..getFieldOrValue: { if cmpField, ok := value.(*field); ok { value = doc.Get(cmpField.name) } else if fStr, ok := value.(string); ok && strings.HasPrefix(fStr, \"$\") { fieldName := strings.TrimLeft(fStr, \"$\") value = doc.Get(fieldName) } return value }", 
  "query..newCriteria: { return &UnaryCriteria{ OpType: opType, Field: field, Value: value, } }", 
  "query..not: { return &NotCriteria{c} }", 
  "query..or: { return &BinaryCriteria{ OpType: LogicalOr, C1: c1, C2: c2, } }", 
  "query.BinaryCriteria.And: { return and(c, other) }", 
  "query.BinaryCriteria.Not: { return not(c) }", 
  "query.BinaryCriteria.Or: { return or(c, other) }", 
  "query.NotCriteria.And: { return and(c, other) }", 
  "query.NotCriteria.Not: { return not(c) }", 
  "query.NotCriteria.Or: { return or(c, other) }", 
  "query.Query.MatchFunc: { return q.Where(newCriteria(FunctionOp, \"\", p)) }", 
  "query.Query.Where: { newQuery := q.copy() newQuery.criteria = c return newQuery }", 
  "query.Query.satisfy: { if q.criteria == nil { return true } return q.criteria.Satisfy(doc) }", 
  "query.UnaryCriteria.And: { return and(c, other) }", 
  "query.UnaryCriteria.Not: { return not(c) }", 
  "query.UnaryCriteria.Or: { return or(c, other) }", 
  "query.UnaryCriteria.Satisfy: { switch c.OpType { case ExistsOp: return c.exist(doc) case EqOp: return c.eq(doc) case LikeOp: return c.like(doc) case InOp: return c.in(doc) case GtOp, GtEqOp, LtOp, LtEqOp: return c.compare(doc) case ContainsOp: return c.contains(doc) case FunctionOp: return c.Value.(func(*d.Document) bool)(doc) } return false }", 
  "query.UnaryCriteria.contains: { elems := c.Value.([]interface{}) fieldValue := doc.Get(c.Field) slice, _ := fieldValue.([]interface{}) if fieldValue == nil || slice == nil { return false } for _, elem := range elems { found := false actualValue, err := internal.Normalize(getFieldOrValue(doc, elem)) if err != nil { return false } for _, val := range slice { if internal.Compare(actualValue, val) == 0 { found = true break } } if !found { return false } } return true }", 
  "query.UnaryCriteria.in: { values := c.Value.([]interface{}) docValue := doc.Get(c.Field) for _, value := range values { actualValue, err := internal.Normalize(getFieldOrValue(doc, value)) if err == nil && internal.Compare(actualValue, docValue) == 0 { return true } } return false }", 
  "query.UnaryCriteria.like: { pattern := c.Value.(string) s, isString := doc.Get(c.Field).(string) if !isString { return false } matched, err := regexp.MatchString(pattern, s) return matched && err == nil }", 
  "query.field.Contains: { return newCriteria(ContainsOp, f.name, elems) }", 
  "query.field.Eq: { return newCriteria(EqOp, f.name, value) }", 
  "query.field.Exists: { return newCriteria(ExistsOp, f.name, nil) }", 
  "query.field.Gt: { return newCriteria(GtOp, f.name, value) }", 
  "query.field.GtEq: { return newCriteria(GtEqOp, f.name, value) }", 
  "query.field.In: { return newCriteria(InOp, f.name, values) }", 
  "query.field.IsFalse: { return f.Eq(false) }", 
  "query.field.IsNil: { return f.Eq(nil) }", 
  "query.field.IsNilOrNotExists: { return f.IsNil().Or(f.NotExists()) }", 
  "query.field.IsTrue: { return f.Eq(true) }", 
  "query.field.Like: { return newCriteria(LikeOp, f.name, pattern) }", 
  "query.field.Lt: { return newCriteria(LtOp, f.name, value) }", 
  "query.field.LtEq: { return newCriteria(LtEqOp, f.name, value) }", 
  "query.field.Neq: { return f.Eq(value).Not() }", 
  "query.field.NotExists: { return newCriteria(ExistsOp, f.name, nil).Not() }"] := by rfl

end CV.Props.C01
-- SOURCE-TEXT-END
