import Clover.Props.C02
import Clover.Spec.Spec
/-! # C01 — queries return exactly the documents that satisfy their criteria -/
namespace CV.Props.C01
open CV

variable (likeFn : LikeFn) (fnFam : FnFam)

/-- Meaning of a query (specification): without skip/limit, a document is returned iff it is a
    live document of the collection and satisfies the criteria — whatever the sort options. -/
theorem spec_findAll_mem (q : Query) (coll : Spec.Coll) (hs : q.skip = 0) (hl : q.limit < 0) (d : Doc) :
    d ∈ Spec.findAll likeFn fnFam q coll ↔
      d ∈ coll.docs.map (·.2) ∧ satOpt likeFn fnFam d q.crit = true := by
  unfold Spec.findAll Spec.window
  simp only [hs, hl, if_true, List.drop_zero]
  split
  · simp [List.mem_filter]
  · unfold sortDocs
    rw [(List.mergeSort_perm _ _).mem_iff]
    simp [List.mem_filter]

/-- ... and nothing is returned twice: the result has as many elements as the filter. -/
theorem spec_findAll_length (q : Query) (coll : Spec.Coll) (hs : q.skip = 0) (hl : q.limit < 0) :
    (Spec.findAll likeFn fnFam q coll).length =
      ((coll.docs.map (·.2)).filter (fun d => satOpt likeFn fnFam d q.crit)).length := by
  unfold Spec.findAll Spec.window
  simp only [hs, hl, if_true, List.drop_zero]
  split
  · rfl
  · unfold sortDocs
    exact (List.mergeSort_perm _ _).length_eq

/-- Planner soundness (shared with C02): the index range never excludes a satisfying document. -/
theorem planner_never_drops (d : Doc) (hd : AllNumKV numOK d) (c : Crit) (hc : CritOK c) (f : Bytes)
    (h : sat likeFn fnFam d c = true) :
    ∀ r, fieldRange f (flatten c) = some r → Pl.inScan vord r.abs (d.get f) = true :=
  C02.planner_sound likeFn fnFam d hd c hc f h

end CV.Props.C01
