import Clover.Proofs.BulkExact
import Clover.Probe.Keys
import Clover.Generated.Facts
import Clover.Model.Index
import Clover.Proofs.RefineWrites
import Clover.Proofs.RefineBulkAny
import Clover.Proofs.RefineCatalog
/-! # C13 — collection catalog exact, collections isolated (key-space part)

The functions below (`Keys.docKey`, `Keys.docPrefix`, `Keys.idxPrefix`, `Keys.metaKey`) are the ones
the executable model builds every store key with. -/
namespace CV.Props.C13
open Keys

/-- Iterating the documents of collection `c'` (prefix scan) meets a document key of collection
    `c` iff `c = c'` — for all names free of `;`, including prefix-related and unicode ones. -/
theorem doc_prefix_selects_own_collection (c c' id : Bytes) (hc : Clean c) (hc' : Clean c') :
    isPrefix (docPrefix c') (docKey c id) = true ↔ c = c' := docKey_prefix c c' id hc hc'

/-- A document scan never meets an index entry of any collection. -/
theorem doc_prefix_excludes_index_entries (c c' f rest : Bytes) (hc : Clean c) (hc' : Clean c') :
    isPrefix (docPrefix c') (Keys.idxKey c f rest) = false := idxKey_not_docPrefix c c' f rest hc hc'

/-- The catalog scan (`coll:` prefix) never meets a document or index key (they start with `c:`),
    and a metadata key never starts with `c:`. -/
theorem catalog_keys_disjoint (c k : Bytes) : isPrefix sC (metaKey c) = false := metaKey_not_c c k

/-- Document keys of different (collection, id) pairs are different keys. -/
theorem doc_key_injective (c c' id id' : Bytes) (hc : Clean c) (hc' : Clean c')
    (h : docKey c id = docKey c' id') : c = c' ∧ id = id' := docKey_inj c c' id id' hc hc' h

example : Clean [0x61, 0x2E, 0x62] := by simp [Clean, semi]   -- "a.b" is a supported name

/-- **CreateCollection** answers what the specification answers (ErrCollectionExist for an existing
    name, without side effects) and the new store represents the specification's new state, which
    is again well formed: the catalog is exact after it, and every other collection is untouched
    (the representation relation determines the whole store). -/
theorem createCollection_exact (likeFn : CV.LikeFn) (fnFam : CV.FnFam) (s : CV.Spec.State) (σ : CV.KVS)
    (hw : CV.WF s) (hr : CV.Rep s σ) (c : Bytes) (hc : Clean c) :
    let r := CV.withTx true (CV.Op.body likeFn fnFam (.createCollection c)) CV.noFault σ
    let sp := CV.Spec.step likeFn fnFam s (.createCollection c)
    r.1 = sp.1 ∧ CV.Rep sp.2 r.2.1 ∧ CV.WF sp.2 :=
  CV.createCollection_refines likeFn fnFam s σ hw hr c hc

end CV.Props.C13

namespace CV.Props.C13
open Keys

variable (likeFn : CV.LikeFn) (fnFam : CV.FnFam)

/-- **DropCollection** answers what the specification answers (`ErrCollectionNotExist` for a missing
    name) and the new store represents the state WITHOUT the collection: its documents, index
    entries and metadata are all gone, every other collection is untouched. -/
theorem dropCollection_exact (s : CV.Spec.State) (σ : CV.KVS) (hw : CV.WF s) (hr : CV.Rep s σ) (c : Bytes) :
    let r := CV.withTx true (CV.Op.body likeFn fnFam (.dropCollection c)) CV.noFault σ
    let sp := CV.Spec.step likeFn fnFam s (.dropCollection c)
    r.1 = sp.1 ∧ CV.Rep sp.2 r.2.1 ∧ CV.WF sp.2 := CV.dropCollection_refines likeFn fnFam s σ hw hr c

/-- **ListCollections** returns exactly the names of the live collections and changes nothing. -/
theorem listCollections_exact (s : CV.Spec.State) (σ : CV.KVS) (hw : CV.WF s) (hr : CV.Rep s σ) :
    let r := CV.withTx true (CV.Op.body likeFn fnFam .listCollections) CV.noFault σ
    let sp := CV.Spec.step likeFn fnFam s .listCollections
    r.1 = sp.1 ∧ r.2.1 = σ := CV.listCollections_refines likeFn fnFam s σ hw hr

/-- Replacing the content of collection `c` in the abstract state leaves every other collection as it
    was — and since every write operation's resulting store represents such a state, an operation on
    `c` never changes what any query on `c' ≠ c` returns. -/
theorem collection_frame (s : CV.Spec.State) (c c' : Bytes) (coll : CV.Spec.Coll) (h : c' ≠ c) :
    CV.Spec.lookup c' (CV.Spec.insert c coll s) = CV.Spec.lookup c' s := by
  rw [CV.Spec.lookup_insert']; simp [h]

/-- Bulk update / delete through ANY plan (index-driven or not) leaves every other collection unchanged. -/
theorem bulk_write_frame (s : CV.Spec.State) (σ : CV.KVS) (hw : CV.WF s) (hr : CV.Rep s σ) (q : CV.Query) (u : CV.Upd) :
    let r := CV.withTx true (CV.Op.body likeFn fnFam (.update q u)) CV.noFault σ
    ∃ s', CV.Rep s' r.2.1 ∧ CV.WF s' ∧ ∀ c', c' ≠ q.coll → CV.Spec.lookup c' s' = CV.Spec.lookup c' s :=
  CV.update_inv likeFn fnFam s σ hw hr q u

end CV.Props.C13

namespace CV.Props.C13
open CV.Facts

/-- (facts, regenerated from the source on every run) **The key layout, the type ranks and the key
    encoding dispatch of the current source are the ones the model transcribes**: `coll:<name>`
    (`Keys.metaKey`), `c:<coll>;d:<id>` (`Keys.docKey`), `c:<coll>;i:<field>;` with its terminator
    (`Keys.idxPrefix`), `t:<rank>;v:` + ordered code + the 36-byte id (`idxKey`, `extractId`), ranks
    nil 0 < number 1 < string 2 < map 3 < slice 4 < bool 5 < time 6 (`Value.rank`), numbers encoded as
    float64, booleans and times as uint64.  A source change to any of these functions breaks this
    theorem at build time, whatever the tests do. -/
theorem source_key_layout : keyLayout = [
  "clover.getCollectionKey: return getCollectionKeyPrefix() + name",
  "clover.getCollectionKeyPrefix: return \"coll:\"",
  "clover.getDocumentKey: return getDocumentKeyPrefix(collection) + id",
  "clover.getDocumentKeyPrefix: return \"c:\" + collection + \";\" + \"d:\"",
  "index.extractDocId: if len(key) < 36 { panic(string(key)) } ; return key[:len(key)-36], key[len(key)-36:]",
  "index.getKey: prefix := idx.getKeyPrefixForType(internal.TypeId(v)) ; return internal.OrderedCode(prefix, v)",
  "index.getKeyPrefix: return []byte(fmt.Sprintf(\"c:%s;i:%s;\", idx.collection, idx.field))",
  "index.getKeyPrefixForType: return []byte(fmt.Sprintf(\"%st:%d;v:\", idx.getKeyPrefix(), typeId))",
  "internal.OrderedCode: return orderedCode(buf, v, false)",
  "internal.TypeId: return typesMap[TypeName(v)]",
  "internal.compareTypes: return TypeId(v1) - TypeId(v2)",
  "internal.getEncodeValue: if util.IsNumber(value) { return util.ToFloat64(value) } ; switch vType := value.(type) { case bool: return uint64(util.BoolToInt(vType)) case time.Time: return uint64(vType.UnixNano()) } ; return value",
  "internal.typesMap = map[string]int{ \"nil\": 0, \"number\": 1, \"string\": 2, \"map\": 3, \"slice\": 4, \"bool\": 5, \"time\": 6, }"] := by rfl

/-- the model's literals are those strings -/
def asciiBytes (s : String) : List UInt8 := s.toList.map (fun c => c.toNat.toUInt8)

theorem model_key_literals :
    Keys.sColl = asciiBytes "coll:" ∧ Keys.sC = asciiBytes "c:" ∧ Keys.sD = asciiBytes "d:" ∧
    Keys.sI = asciiBytes "i:" ∧ [Keys.semi] = asciiBytes ";" := by decide

end CV.Props.C13

namespace CV.Props.C13
open CV

variable (likeFn : CV.LikeFn) (fnFam : CV.FnFam)

/-- **Collections are isolated (specification level)**: an operation changes at most its own target
    collection (`Op.target`); every other collection's indexes and documents are exactly as before. -/
theorem step_changes_only_its_collection (s : Spec.State) (hw : WF s) (op : Op) (c' : Bytes) (h : op.target ≠ some c') :
    Spec.lookup c' (Spec.step likeFn fnFam s op).2 = Spec.lookup c' s := spec_step_frame likeFn fnFam s hw op c' h

/-- **… and on the model**: after any determined operation on another collection, every operation on
    `c'` answers exactly what it answered before. -/
theorem operations_on_other_collections_do_not_interfere (op op2 : Op) (hop : OpOK op) (hop2 : OpOK op2)
    (s : Spec.State) (σ : DBState) (hcl : σ.closed = false) (hw : WF s) (hr : Rep s σ.kv)
    (hdet : Op.Determined s op) (hdet2 : Op.Determined s op2) (c' : Bytes) (h : op.target ≠ some c') (h2 : op2.scope = some c') :
    (op2.run likeFn fnFam (op.run likeFn fnFam σ noFault).state noFault).out = (op2.run likeFn fnFam σ noFault).out :=
  run_isolation likeFn fnFam op op2 hop hop2 s σ hcl hw hr hdet hdet2 c' h h2

end CV.Props.C13

-- SOURCE-TEXT-BEGIN (generated by tools/mk_source_theorems.py; do not edit by hand)
namespace CV.Props.C13

/-- (facts, regenerated from the source on every run) **The source text the model transcribes is the text of the
    current source**: the bodies (comments and layout removed) of the 16 functions the model behind C13 was written from and
    validated against.  Any edit of one of them breaks this theorem at build time; the check then searches with the
    property's own oracles for a failing input, and reports `no-failing-input-found` if it finds none: the model then
    has to be re-validated against the new text (and this block regenerated). -/
theorem source_decision_logic : CV.Facts.logicC13 = [
  "clover..getCollectionKey: { return getCollectionKeyPrefix() + name }", 
  "clover..getCollectionKeyPrefix: { return \"coll:\" }", 
  "clover..getDocumentKey: { return getDocumentKeyPrefix(collection) + id }", 
  "clover..getDocumentKeyPrefix: { return \"c:\" + collection + \";\" + \"d:\" }", 
  "clover..iteratePrefix: { cursor, err := tx.Cursor(true) if err != nil { return err } defer cursor.Close() if err := cursor.Seek(prefix); err != nil { return err } for ; cursor.Valid(); cursor.Next() { item, err := cursor.Item() if err != nil { return err } if !bytes.HasPrefix(item.Key, prefix) { return nil } err = itemConsumer(item) if errors.Is(err, internal.ErrStopIteration) { return nil } if err != nil { return err } } return nil }", 
  "clover.DB.CreateCollection: { tx, err := db.store.Begin(true) if err != nil { return err } defer tx.Rollback() if err := db.createCollection(tx, name); err != nil { return err } return tx.Commit() }", 
  "clover.DB.CreateCollectionByQuery: { q, err := normalizeCriteria(q) if err != nil { return err } return db.createCollectionWith(name, func(tx store.Tx) ([]*d.Document, error) { docs := make([]*d.Document, 0) err := db.iterateDocs(tx, q, func(doc *d.Document) error { docs = append(docs, doc) return nil }) return docs, err }) }", 
  "clover.DB.DropCollection: { tx, err := db.store.Begin(true) if err != nil { return err } defer tx.Rollback() if err := db.deleteAll(tx, name); err != nil { return err } if err := tx.Delete([]byte(getCollectionKey(name))); err != nil { return err } return tx.Commit() }", 
  "clover.DB.HasCollection: { txn, err := db.store.Begin(false) if err != nil { return false, err } defer txn.Rollback() return db.hasCollection(name, txn) }", 
  "clover.DB.ListCollections: { tx, err := db.store.Begin(true) if err != nil { return nil, err } defer tx.Rollback() collections := make([]string, 0) prefix := []byte(getCollectionKeyPrefix()) err = iteratePrefix(prefix, tx, func(item store.Item) error { collectionName := string(bytes.TrimPrefix(item.Key, prefix)) collections = append(collections, collectionName) return nil }) return collections, err }", 
  "clover.DB.createCollection: { ok, err := db.hasCollection(name, tx) if err != nil { return err } if ok { return ErrCollectionExist } meta := &collectionMetadata{Size: 0} return db.saveCollectionMetadata(name, meta, tx) }", 
  "clover.DB.createCollectionWith: { tx, err := db.store.Begin(true) if err != nil { return err } defer tx.Rollback() if err := db.createCollection(tx, name); err != nil { return err } docs, err := getDocs(tx) if err != nil { return err } assignObjectIds(docs) if err := db.insertDocs(tx, name, docs); err != nil { return err } return tx.Commit() }", 
  "clover.DB.deleteAll: { return db.replaceDocs(tx, query.NewQuery(collName), func(_ *d.Document) *d.Document { return nil }) }", 
  "clover.DB.getCollectionMeta: { value, err := tx.Get([]byte(getCollectionKey(collection))) if err != nil { return nil, err } if value == nil { return nil, ErrCollectionNotExist } m := &collectionMetadata{} err = json.Unmarshal(value, m) return m, err }", 
  "clover.DB.hasCollection: { value, err := tx.Get([]byte(getCollectionKey(name))) return value != nil, err }", 
  "clover.DB.saveCollectionMetadata: { rawMeta, err := json.Marshal(meta) if err != nil { return err } return tx.Set([]byte(getCollectionKey(collection)), rawMeta) }"] := by rfl

end CV.Props.C13
-- SOURCE-TEXT-END
