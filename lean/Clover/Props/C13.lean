import Clover.Probe.Keys
import Clover.Model.Index
import Clover.Proofs.RefineWrites
/-! # C13 — collection catalog exact, collections isolated (key-space part)

The functions below (`Keys.docKey`, `Keys.docPrefix`, `Keys.idxPrefix`, `Keys.metaKey`) are the ones
the executable model builds every store key with. -/
namespace CV.Props.C13
open Keys

/-- Iterating the documents of collection `c'` (prefix scan) meets a document key of collection
    `c` iff `c = c'` — for all names free of `;`, including prefix-related and unicode ones. -/
theorem doc_prefix_selects_own_collection (c c' id : Bytes) (hc : Clean c) (hc' : Clean c') :
    isPrefix (docPrefix c') (docKey c id) = true ↔ c = c' := docKey_prefix c c' id hc hc'

/-- A document scan never meets an index entry of any collection. -/
theorem doc_prefix_excludes_index_entries (c c' f rest : Bytes) (hc : Clean c) (hc' : Clean c') :
    isPrefix (docPrefix c') (Keys.idxKey c f rest) = false := idxKey_not_docPrefix c c' f rest hc hc'

/-- The catalog scan (`coll:` prefix) never meets a document or index key (they start with `c:`),
    and a metadata key never starts with `c:`. -/
theorem catalog_keys_disjoint (c k : Bytes) : isPrefix sC (metaKey c) = false := metaKey_not_c c k

/-- Document keys of different (collection, id) pairs are different keys. -/
theorem doc_key_injective (c c' id id' : Bytes) (hc : Clean c) (hc' : Clean c')
    (h : docKey c id = docKey c' id') : c = c' ∧ id = id' := docKey_inj c c' id id' hc hc' h

example : Clean [0x61, 0x2E, 0x62] := by simp [Clean, semi]   -- "a.b" is a supported name

/-- **CreateCollection** answers what the specification answers (ErrCollectionExist for an existing
    name, without side effects) and the new store represents the specification's new state, which
    is again well formed: the catalog is exact after it, and every other collection is untouched
    (the representation relation determines the whole store). -/
theorem createCollection_exact (likeFn : CV.LikeFn) (fnFam : CV.FnFam) (s : CV.Spec.State) (σ : CV.KVS)
    (hw : CV.WF s) (hr : CV.Rep s σ) (c : Bytes) (hc : Clean c) :
    let r := CV.withTx true (CV.Op.body likeFn fnFam (.createCollection c)) CV.noFault σ
    let sp := CV.Spec.step likeFn fnFam s (.createCollection c)
    r.1 = sp.1 ∧ CV.Rep sp.2 r.2.1 ∧ CV.WF sp.2 :=
  CV.createCollection_refines likeFn fnFam s σ hw hr c hc

end CV.Props.C13
