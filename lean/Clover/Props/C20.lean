import Clover.Generated.Facts
import Clover.Proofs.IndexKeysWF
import Clover.Model.DB
import Clover.Proofs.ScanRun
/-! # C20 — no public operation panics on well-typed input

Logical core: (a) the model is a total function — every loop is a structural recursion over the
finite key list, document list or criteria tree, accepted by Lean's termination checker — and
its outcomes are results or errors, and the correspondence stream runs every public call of the
real code under `recover()` against it; (b) regenerated facts — the list of panic-capable sites of
the source (unchecked type assertions, explicit `panic`) is exactly the reviewed list below; a new
site breaks the theorem.  Outside the theorem (named): runtime panics that are not syntactic sites
(out of memory, stack overflow on adversarially deep criteria) and blocking inside the backends. -/
namespace CV.Props.C20
open CV CV.Facts

/-- (facts) the reviewed panic-capable sites: file, function, kind — each with the reason it cannot
    fire on well-typed input -/
def reviewedSites : List (String × String × String) :=
  [ -- visitor results: each Visit* method of a visitor returns the type its callers assert
    ("db.go", ".normalizeCriteria", "assert"),                       -- guarded by v.err == nil: result is a criteria
    ("plan.go", ".getIndexQueries", "assert"), ("plan.go", ".getIndexQueries", "assert"),
    ("plan.go", ".getIndexQueries", "assert"), ("plan.go", ".getIndexQueries", "assert"),
    ("plan.go", ".tryToSelectIndex", "assert"),                      -- every index.Index created by CreateIndex is a RangeIndex
    ("plan.go", ".execPlan", "assert"),                              -- an inputNode is a planNode
    ("visit.go", "NotFlattenVisitor.VisitBinaryCriteria", "assert"), ("visit.go", "NotFlattenVisitor.VisitBinaryCriteria", "assert"),
    ("visit.go", "NotFlattenVisitor.VisitNotCriteria", "assert"), ("visit.go", "NotFlattenVisitor.VisitNotCriteria", "assert"),
    ("visit.go", "NotFlattenVisitor.removeNotCriteria", "assert"),   -- called only from the *UnaryCriteria case
    ("visit.go", "IndexSelectVisitor.VisitBinaryCriteria", "assert"), ("visit.go", "IndexSelectVisitor.VisitBinaryCriteria", "assert"),
    ("visit.go", "FieldRangeVisitor.VisitBinaryCriteria", "assert"), ("visit.go", "FieldRangeVisitor.VisitBinaryCriteria", "assert"),
    ("visit.go", "CriteriaNormalizeVisitor.VisitBinaryCriteria", "assert"), ("visit.go", "CriteriaNormalizeVisitor.VisitBinaryCriteria", "assert"),
    ("visit.go", "CriteriaNormalizeVisitor.VisitNotCriteria", "assert"),  -- nil results are returned before the assertion
    -- operand shapes fixed by the builders (MatchFunc / In / Contains / Like)
    ("query/criteria.go", "UnaryCriteria.Satisfy", "assert"),
    ("query/criteria.go", "UnaryCriteria.compare", "panic"),          -- after an exhaustive switch on the four operators
    ("query/criteria.go", "UnaryCriteria.in", "assert"), ("query/criteria.go", "UnaryCriteria.contains", "assert"),
    ("query/criteria.go", "UnaryCriteria.like", "assert"),
    ("index/range_index.go", ".extractDocId", "panic"),               -- keys under an index prefix end with a 36-byte id
    -- Compare: the second operand has the type of the first because the type ranks are equal (string, bool, time,
    -- map; slices - generic or binary, which share a rank - go through the checked `asSlice` since the repair F36)
    ("internal/compare.go", ".toUint64", "assert"), ("internal/compare.go", ".Compare", "assert"),
    ("internal/compare.go", ".Compare", "assert"), ("internal/compare.go", ".Compare", "assert"),
    ("internal/compare.go", ".Compare", "assert"), ("internal/compare.go", ".Compare", "assert"),
    -- reached only with canonical numbers (int64, uint64, float64) after normalisation
    ("util/convert.go", ".ToFloat64", "panic"), ("util/convert.go", ".ToInt64", "panic") ]

theorem panic_sites_are_the_reviewed_ones :
    panicSites.map (fun s => (s.file, s.fn, s.kind)) = reviewedSites := by decide

/-- (facts, regenerated from the source on every run) **No function of the packages read is outside every model**: each
    function of `clover`, `query`, `document`, `index`, `internal`, `util` and the two store adapters (tests and hooks
    aside) is pinned, text and all, by the `source_decision_logic` theorem of at least one property.  A function added to
    the source - a new public operation in particular, which C20 quantifies over - breaks this theorem until it has been
    read, modelled and assigned. -/
theorem every_function_is_pinned : CV.Facts.logicUnpinned = [] ∧ CV.Facts.logicMissing = [] := by decide

/-- (facts, regenerated from the source on every run) **Every index and slice expression is a reviewed one.**  An index
    past the end of a slice is the other syntactic way to panic.  The sites on maps (`m[k]`, `typesMap[..]`,
    `mergedMap[key]`, `v.Fields[..]`, …) cannot panic; the ones on slices, arrays and strings are each guarded:
    `DropIndex` - `[i]` under the loop bound, `[j]`, `[0]`, `[1:]` after `j >= 0` (the slice then has an element);
    `FindFirst` - `docs[0]` under `len(docs) > 0`; `createIndex`, `asSlice`, `compareSlices`, `compareObjects`,
    `renameValue`, `replaceTimes`, `removeLocalizedTimes` - loop indices under the loop bound (both lengths for the
    two-sided ones); `lookupField` - `strings.Split` never returns an empty slice; `processStructTag` - `tags[0]` for the
    same reason, `tags[1]` under `len(tags) > 1`; `MarshalMsgpack` - `b[0]`, `b[13]`, `b[14]` on the 15 bytes
    `time.MarshalBinary` always returns; `getIndexQueries` - `selectedFields[0]` after the `len == 0` return;
    `tryToSelectIndex` - `indexQueries[0]` under `len == 1`, `SortOptions()[0]` under `len == 1`; `sortNode.Finish`,
    `MapKeys` - indices handed in by `sort`; `extractDocId` - after its explicit length test (`extractDocId_never_panics`).
    A new index or slice expression breaks this theorem until it has been reviewed. -/
theorem index_sites_are_the_reviewed_ones : CV.Facts.indexSites = [
  "db.go DB.DropIndex: meta.Indexes[0]", 
  "db.go DB.DropIndex: meta.Indexes[1:]", 
  "db.go DB.DropIndex: meta.Indexes[i]", 
  "db.go DB.DropIndex: meta.Indexes[j]", 
  "db.go DB.DropIndex: meta.Indexes[j]", 
  "db.go DB.FindFirst: docs[0]", 
  "db.go DB.createIndex: meta.Indexes[i]", 
  "document/document.go Document.Set: m[fieldName]", 
  "document/document.go lookupField: currMap[field]", 
  "document/document.go lookupField: currMap[field]", 
  "document/document.go lookupField: fields[len(fields)-1]", 
  "index/range_index.go extractDocId: key[:len(key)-36]", 
  "index/range_index.go extractDocId: key[len(key)-36:]", 
  "internal/code.go orderedCodeObject: o[key]", 
  "internal/compare.go TypeId: typesMap[TypeName(v)]", 
  "internal/compare.go asSlice: elems[i]", 
  "internal/compare.go compareObjects: m1Keys[i]", 
  "internal/compare.go compareObjects: m1[k1]", 
  "internal/compare.go compareObjects: m2Keys[i]", 
  "internal/compare.go compareObjects: m2[k2]", 
  "internal/compare.go compareSlices: s1[i]", 
  "internal/compare.go compareSlices: s2[i]", 
  "internal/encoding.go createRenameMap: renameMap[renameFrom]", 
  "internal/encoding.go normalizeMap: m[key.String()]", 
  "internal/encoding.go normalizeStruct: m[fieldName]", 
  "internal/encoding.go normalizeStruct: m[fieldName]", 
  "internal/encoding.go normalizeStruct: m[k]", 
  "internal/encoding.go processStructTag: tags[0]", 
  "internal/encoding.go processStructTag: tags[1]", 
  "internal/encoding.go rename: m[key]", 
  "internal/encoding.go rename: m[renamedFieldName]", 
  "internal/encoding.go rename: renameMap[key]", 
  "internal/encoding.go renameMapKeys: renamed[key]", 
  "internal/encoding.go renameMapKeys: renamed[key]", 
  "internal/encoding.go renameMapKeys: renamed[sf.Name]", 
  "internal/encoding.go renameValue: elems[i]", 
  "internal/encoding.go renameValue: values[k]", 
  "internal/time.go LocalizedTime.MarshalMsgpack: b[0]", 
  "internal/time.go LocalizedTime.MarshalMsgpack: b[13]", 
  "internal/time.go LocalizedTime.MarshalMsgpack: b[14]", 
  "internal/time.go removeLocalizedTimes: m[k]", 
  "internal/time.go removeLocalizedTimes: s[i]", 
  "internal/time.go replaceTimes: mapCopy[k]", 
  "internal/time.go replaceTimes: sliceCopy[i]", 
  "json.go restoreExpiresAt: fields[d.ExpiresAtField]", 
  "json.go restoreExpiresAt: fields[d.ExpiresAtField]", 
  "plan.go getIndexQueries: indexesMap[field]", 
  "plan.go getIndexQueries: indexesMap[idx.Field()]", 
  "plan.go getIndexQueries: info[idx.Field()]", 
  "plan.go getIndexQueries: selectedFields[0]", 
  "plan.go sortNode.Finish: nd.docs[i]", 
  "plan.go sortNode.Finish: nd.docs[j]", 
  "plan.go tryToSelectIndex: indexQueries[0]", 
  "plan.go tryToSelectIndex: q.SortOptions()[0]", 
  "plan.go tryToSelectIndex: q.SortOptions()[0]", 
  "plan.go tryToSelectIndex: q.SortOptions()[0]", 
  "plan.go tryToSelectIndex: q.SortOptions()[0]", 
  "util/map.go CopyMap: mapCopy[k]", 
  "util/map.go CopyMap: mapCopy[k]", 
  "util/map.go MapKeys: keys[i]", 
  "util/map.go MapKeys: keys[j]", 
  "util/map.go StringSliceToSet: set[str]", 
  "visit.go FieldRangeVisitor.VisitBinaryCriteria: mergedMap[key]", 
  "visit.go FieldRangeVisitor.VisitBinaryCriteria: mergedMap[key]", 
  "visit.go FieldRangeVisitor.VisitBinaryCriteria: mergedMap[key]", 
  "visit.go FieldRangeVisitor.VisitBinaryCriteria: mergedMap[key]", 
  "visit.go FieldRangeVisitor.VisitUnaryCriteria: v.Fields[c.Field]", 
  "visit.go IndexSelectVisitor.VisitUnaryCriteria: v.Fields[c.Field]"] := by rfl

variable (likeFn : LikeFn) (fnFam : FnFam)

/-- (model) the sites that used to panic return results or errors: a negated criterion selects no
    index instead of an untyped nil … -/
theorem negation_selects_no_index (indexed : List Bytes) (c : Crit) : indexSelect indexed (.not c) = [] := rfl

/-- … `ListIndexes` on a missing collection reports it … -/
theorem listIndexes_missing (c : Bytes) (ctx : Ctx) (h : kvGet ctx.work (Keys.metaKey c) = none) :
    ((Op.body likeFn fnFam (.listIndexes c)) noFault ctx).1 = .err .collNotExist := by
  simp [Op.body, getMeta, bind, StoreM.bind', StoreM.get, StoreM.call, noFault, h, StoreM.fail]

/-- … an updater returning nil is refused by `UpdateById` … -/
theorem updateById_nil_refused (c id : Bytes) (d : Doc) (m : CMeta) (ctx : Ctx)
    (hm : kvGet ctx.work (Keys.metaKey c) = some (.cmeta m)) (hd : kvGet ctx.work (Keys.docKey c id) = some (.doc d)) :
    ((Op.body likeFn fnFam (.updateById c id .retNil)) noFault ctx).1 = .err .nilDoc := by
  simp [Op.body, getMeta, bind, StoreM.bind', StoreM.get, StoreM.call, noFault, hm, hd, StoreM.pure', pure, Upd.apply, StoreM.fail]

/-- … and every operation on a closed handle returns an error. -/
theorem closed_handle_errors (op : Op) (σ : DBState) (φ : Faults) (h : σ.closed = true) :
    (op.run likeFn fnFam σ φ).out = .err .closed ∧ (op.run likeFn fnFam σ φ).state = σ := by
  simp [Op.run, h]

open OC Keys in
/-- **The one explicit `panic` of the index package cannot fire on a store the database wrote**
    (`extractDocId`: `if len(key) < 36 { panic }`, reviewed site above): in a store representing a well-formed state,
    every key under the prefix of a catalogued index is the entry of a live document — at least 36 bytes long, its last
    36 bytes that document's id, the rest the prefix followed by the value's code — and no document key, metadata key
    or key of another collection or index lies under that prefix. -/
theorem extractDocId_never_panics (s : Spec.State) (σ : KVS) (hw : WF s) (hr : Rep s σ) (c : Bytes) (coll : Spec.Coll)
    (hl : Spec.lookup c s = some coll) (f : Bytes) (hf : f ∈ coll.indexes) (k : Bytes) (v : SVal) (he : (k, v) ∈ σ)
    (hp : isPrefix (idxPrefix c f) k = true) :
    36 ≤ k.length ∧ ∃ d, (extractId k, d) ∈ coll.docs ∧ k = stripId k ++ extractId k := by
  obtain ⟨h36, d, hd, _, _, _, _, _, hk⟩ := extractDocId_total s σ hw hr c coll hl f hf k v he hp
  exact ⟨h36, d, hd, hk⟩

end CV.Props.C20
