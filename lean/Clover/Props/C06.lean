import Clover.Generated.Facts
import Clover.Props.C13
import Clover.Props.C14
import Clover.Spec.Render
import Clover.Proofs.RefineScan
import Clover.Proofs.InvStep
/-! # C06 — documents, index entries and counts stay consistent (representation invariant) -/
namespace CV.Props.C06
open CV

/-- The representation invariant (`CV.Inv`): the store is sorted and holds, key by key, exactly
    the entries of some well-formed abstract state — one metadata record per collection whose size
    is the number of documents, one record per document under the key of its `_id`, exactly one
    index entry per document per indexed field under the document's current value, nothing else. -/
theorem inv_init : Inv [] := CV.inv_init

/-- A store is determined by the abstract state it represents: two stores representing the same
    state are equal (so "drops leave no residue" is: the store after a drop is THE store of the
    state without the dropped collection / index). -/
theorem rep_determines_store (s : Spec.State) (σ σ' : KVS) (h : Rep s σ) (h' : Rep s σ') : σ = σ' :=
  rep_unique s σ σ' h h'

/-- Under the invariant the count used by `Count` is the number of stored documents … -/
theorem size_is_number_of_documents (s : Spec.State) (σ : KVS) (hr : Rep s σ) (c : Bytes) (coll : Spec.Coll)
    (hl : Spec.lookup c s = some coll) :
    kvGet σ (Keys.metaKey c) = some (.cmeta ⟨coll.docs.length, coll.indexes⟩) := by
  rw [hr.2, assoc_meta, hl]; rfl

/-- … and what is stored under a collection's document prefix is exactly its documents. -/
theorem documents_exact (s : Spec.State) (σ : KVS) (hw : WF s) (hr : Rep s σ) (c : Bytes) (coll : Spec.Coll)
    (hc : Keys.Clean c) (hl : Spec.lookup c s = some coll) (hcw : CollWF coll) :
    σ.filter (fun e => Keys.isPrefix (Keys.docPrefix c) e.1) = docEntries c coll :=
  doc_block s σ hw hr c coll hc hl hcw

/-- Dropping or scanning one index can only meet that index's own entries (see C14), and a
    document scan only that collection's documents (see C13): the frame lemmas the invariant's
    preservation rests on. -/
theorem frame_index (c c' f f' rest : Bytes) (hc : Keys.Clean c) (hc' : Keys.Clean c')
    (hf : Keys.Clean f) (hf' : Keys.Clean f') :
    Keys.isPrefix (Keys.idxPrefix c' f') (Keys.idxKey c f rest) = true ↔ c = c' ∧ f = f' :=
  C14.index_prefix_selects_own_entries c c' f f' rest hc hc' hf hf'

end CV.Props.C06

namespace CV.Props.C06
open CV

variable (likeFn : LikeFn) (fnFam : FnFam)

/-- **The invariant is preserved by every public operation** in the supported domain (`OpOK`: the
    names that enter the key space are free of `';'`) — every operation kind, every argument, every
    handle state, and every fault schedule: whether the call succeeds, fails on its input, or is
    hit by a store fault at any of its store calls, the store it leaves satisfies `Inv`. -/
theorem inv_step (op : Op) (hop : OpOK op) (σ : DBState) (φ : Faults) (h : Inv σ.kv) :
    Inv (op.run likeFn fnFam σ φ).state.kv := CV.inv_step likeFn fnFam op hop σ φ h

/-- **Every reachable state satisfies the invariant**: after any finite history of operations, each
    under its own arbitrary fault schedule, starting from the empty database. -/
theorem inv_reachable (h : List (Op × Faults)) (hok : ∀ p ∈ h, OpOK p.1) :
    Inv (runHistory likeFn fnFam h {}).kv := CV.inv_from_empty likeFn fnFam h hok

/-- What the invariant says about index entries: in a store representing a well-formed state, a key
    under the prefix of the index on `(c, f)` is bound iff `f` is catalogued and the key is the entry of
    a live document under its current value of `f` — one entry per document, nothing else (no
    residue of dropped indexes, deleted documents or old values). -/
theorem index_entries_exact (s : Spec.State) (σ : KVS) (hw : WF s) (hr : Rep s σ) (c : Bytes) (coll : Spec.Coll)
    (hl : Spec.lookup c s = some coll) (f : Bytes) (hf : Keys.Clean f) (k : Bytes) (v : SVal) (hk : KeyField c k f) :
    kvGet σ k = some v ↔
      f ∈ coll.indexes ∧ ∃ id d, Spec.lookup id coll.docs = some d ∧ k = CV.idxKey c f (d.get f) id ∧ v = .unit := by
  obtain ⟨hc, hcw⟩ := wf_lookup_clean s hw c coll hl
  have hd := rep_data s σ hw hr c coll hl
  obtain ⟨rest, hkk⟩ := hk
  rw [hd k v (Or.inr ⟨f, rest, hkk⟩)]
  exact holdsD_field c hc coll.indexes hcw.fieldsClean coll.docs f hf k v ⟨rest, hkk⟩

/-- No key is owned by a collection that does not exist: after `DropCollection` (whose resulting
    store represents the state without the collection, `C13.dropCollection_exact`) nothing of it is left,
    and a collection created later under the same name starts empty. -/
theorem no_residue_of_missing_collection (s : Spec.State) (σ : KVS) (hw : WF s) (hr : Rep s σ) (c : Bytes)
    (hc : Keys.Clean c) (hl : Spec.lookup c s = none) (k : Bytes) (ho : Owns c k) : kvGet σ k = none :=
  rep_unowned s σ hw hr c hc hl k ho

/-- non-vacuity: `OpOK` holds for ordinary operations, e.g. creating the collection `"a.b"` -/
example : OpOK (.createCollection [0x61, 0x2E, 0x62]) := by simp [OpOK, Keys.Clean, Keys.semi]

end CV.Props.C06

-- SOURCE-TEXT-BEGIN (generated by tools/mk_source_theorems.py; do not edit by hand)
namespace CV.Props.C06

/-- (facts, regenerated from the source on every run) **The source text the model transcribes is the text of the
    current source**: the bodies (comments and layout removed) of the 17 functions the model behind C06 was written from and
    validated against.  Any edit of one of them breaks this theorem at build time; the check then searches with the
    property's own oracles for a failing input, and reports `no-failing-input-found` if it finds none: the model then
    has to be re-validated against the new text (and this block regenerated). -/
theorem source_decision_logic : CV.Facts.logicC06 = [
  "clover.DB.DeleteById: { tx, err := db.store.Begin(true) if err != nil { return err } defer tx.Rollback() meta, err := db.getCollectionMeta(collection, tx) if err != nil { return err } indexes := db.getIndexes(tx, collection, meta) value, err := tx.Get([]byte(getDocumentKey(collection, id))) if err != nil { return err } if value == nil { return nil } if err := db.getDocAndDeleteFromIndexes(tx, indexes, collection, id); err != nil { return err } if err := tx.Delete([]byte(getDocumentKey(collection, id))); err != nil { return err } meta.Size-- if err := db.saveCollectionMetadata(collection, meta, tx); err != nil { return err } return tx.Commit() }", 
  "clover.DB.DropIndex: { txn, err := db.store.Begin(true) if err != nil { return err } defer txn.Rollback() meta, err := db.getCollectionMeta(collection, txn) if err != nil { return err } j := -1 for i := 0; i < len(meta.Indexes); i++ { if meta.Indexes[i].Field == field { j = i } } if j < 0 { return ErrIndexNotExist } idxType := meta.Indexes[j].Type meta.Indexes[j] = meta.Indexes[0] meta.Indexes = meta.Indexes[1:] idx := index.CreateIndex(collection, field, idxType, txn) if err := idx.Drop(); err != nil { return err } if err := db.saveCollectionMetadata(collection, meta, txn); err != nil { return err } return txn.Commit() }", 
  "clover.DB.UpdateById: { tx, err := db.store.Begin(true) if err != nil { return err } defer tx.Rollback() meta, err := db.getCollectionMeta(collectionName, tx) if err != nil { return err } indexes := db.getIndexes(tx, collectionName, meta) docKey := getDocumentKey(collectionName, docId) value, err := tx.Get([]byte(docKey)) if err != nil { return err } if value == nil { return ErrDocumentNotExist } doc, err := d.Decode(value) if err != nil { return err } updatedDoc := updater(doc.Copy()) if updatedDoc == nil { return errNilDocument } if updatedDoc.ObjectId() != docId { return errIdChanged } if err := db.updateIndexesOnDocUpdate(tx, indexes, doc, updatedDoc); err != nil { return err } if err := saveDocument(updatedDoc, []byte(docKey), tx); err != nil { return err } return tx.Commit() }", 
  "clover.DB.addDocToIndexes: { for _, idx := range indexes { fieldVal := doc.Get(idx.Field()) err := idx.Add(doc.ObjectId(), fieldVal, doc.TTL()) if err != nil { return err } } return nil }", 
  "clover.DB.createIndex: { tx, err := db.store.Begin(true) if err != nil { return err } defer tx.Rollback() meta, err := db.getCollectionMeta(collection, tx) if err != nil { return err } for i := 0; i < len(meta.Indexes); i++ { if meta.Indexes[i].Field == field { return ErrIndexExist } } if meta.Indexes == nil { meta.Indexes = make([]index.Info, 0) } meta.Indexes = append(meta.Indexes, index.Info{Field: field, Type: indexType}) idx := index.CreateIndex(collection, field, indexType, tx) err = db.iterateDocs(tx, query.NewQuery(collection), func(doc *d.Document) error { value := doc.Get(field) return idx.Add(doc.ObjectId(), value, doc.TTL()) }) if err != nil { return err } if err := db.saveCollectionMetadata(collection, meta, tx); err != nil { return err } return tx.Commit() }", 
  "clover.DB.deleteAll: { return db.replaceDocs(tx, query.NewQuery(collName), func(_ *d.Document) *d.Document { return nil }) }", 
  "clover.DB.deleteDocFromIndexes: { for _, idx := range indexes { value := doc.Get(idx.Field()) if err := idx.Remove(doc.ObjectId(), value); err != nil { return err } } return nil }", 
  "clover.DB.getDocAndDeleteFromIndexes: { if len(indexes) == 0 { return nil } doc, err := getDocumentById(collection, docId, tx) if err != nil { return err } if doc == nil { return nil } for _, idx := range indexes { value := doc.Get(idx.Field()) if err := idx.Remove(doc.ObjectId(), value); err != nil { return err } } return nil }", 
  "clover.DB.getIndexes: { indexes := make([]index.Index, 0) for _, info := range meta.Indexes { indexes = append(indexes, index.CreateIndex(collection, info.Field, info.Type, tx)) } return indexes }", 
  "clover.DB.insertDocs: { meta, err := db.getCollectionMeta(collectionName, tx) if err != nil { return err } indexes := db.getIndexes(tx, collectionName, meta) for _, doc := range docs { if err := db.addDocToIndexes(tx, indexes, doc); err != nil { return err } key := []byte(getDocumentKey(collectionName, doc.ObjectId())) value, err := tx.Get(key) if err != nil { return err } if value != nil { return ErrDuplicateKey } if err := saveDocument(doc, key, tx); err != nil { return err } } meta.Size += len(docs) return db.saveCollectionMetadata(collectionName, meta, tx) }", 
  "clover.DB.replaceDocs: { meta, err := db.getCollectionMeta(q.Collection(), tx) if err != nil { return err } indexes := db.getIndexes(tx, q.Collection(), meta) docs := make([]*d.Document, 0) err = db.iterateDocs(tx, q, func(doc *d.Document) error { docs = append(docs, doc) return nil }) if err != nil { return err } deletedDocs := 0 for _, doc := range docs { docKey := []byte(getDocumentKey(q.Collection(), doc.ObjectId())) newDoc := updater(doc.Copy()) if newDoc != nil && newDoc.ObjectId() != doc.ObjectId() { return errIdChanged } if err := db.updateIndexesOnDocUpdate(tx, indexes, doc, newDoc); err != nil { return err } if newDoc == nil { deletedDocs++ if err := tx.Delete(docKey); err != nil { return err } continue } if err := saveDocument(newDoc, docKey, tx); err != nil { return err } } if deletedDocs > 0 { meta.Size -= deletedDocs if err := db.saveCollectionMetadata(q.Collection(), meta, tx); err != nil { return err } } return nil }", 
  "clover.DB.saveCollectionMetadata: { rawMeta, err := json.Marshal(meta) if err != nil { return err } return tx.Set([]byte(getCollectionKey(collection)), rawMeta) }", 
  "clover.DB.updateIndexesOnDocUpdate: { if err := db.deleteDocFromIndexes(indexes, oldDoc); err != nil { return err } if newDoc != nil { if err := db.addDocToIndexes(tx, indexes, newDoc); err != nil { return err } } return nil }", 
  "index.rangeIndex.Add: { encodedKey, err := idx.encodeValueAndId(v, docId) if err != nil { return err } return idx.tx.Set(encodedKey, nil) }", 
  "index.rangeIndex.Drop: { cursor, err := idx.tx.Cursor(true) if err != nil { return err } defer cursor.Close() prefix := idx.getKeyPrefix() cursor.Seek(prefix) for ; cursor.Valid(); cursor.Next() { item, err := cursor.Item() if err != nil { return err } if !bytes.HasPrefix(item.Key, prefix) { return nil } if err := idx.tx.Delete(item.Key); err != nil { return err } } return nil }", 
  "index.rangeIndex.Remove: { encodedKey, err := idx.encodeValueAndId(value, docId) if err != nil { return err } return idx.tx.Delete(encodedKey) }", 
  "index.rangeIndex.encodeValueAndId: { encodedKey, err := idx.getKey(value) if err != nil { return nil, err } encodedKey = append(encodedKey, []byte(docId)...) return encodedKey, nil }"] := by rfl

end CV.Props.C06
-- SOURCE-TEXT-END
