import Clover.Props.C13
import Clover.Props.C14
import Clover.Spec.Render
import Clover.Proofs.RefineScan
/-! # C06 — documents, index entries and counts stay consistent (representation invariant) -/
namespace CV.Props.C06
open CV

/-- The representation invariant (`CV.Inv`): the store is sorted and holds, key by key, exactly
    the entries of some well-formed abstract state — one metadata record per collection whose size
    is the number of documents, one record per document under the key of its `_id`, exactly one
    index entry per document per indexed field under the document's current value, nothing else. -/
theorem inv_init : Inv [] := CV.inv_init

/-- A store is determined by the abstract state it represents: two stores representing the same
    state are equal (so "drops leave no residue" is: the store after a drop is THE store of the
    state without the dropped collection / index). -/
theorem rep_determines_store (s : Spec.State) (σ σ' : KVS) (h : Rep s σ) (h' : Rep s σ') : σ = σ' :=
  rep_unique s σ σ' h h'

/-- Under the invariant the count used by `Count` is the number of stored documents … -/
theorem size_is_number_of_documents (s : Spec.State) (σ : KVS) (hr : Rep s σ) (c : Bytes) (coll : Spec.Coll)
    (hl : Spec.lookup c s = some coll) :
    kvGet σ (Keys.metaKey c) = some (.cmeta ⟨coll.docs.length, coll.indexes⟩) := by
  rw [hr.2, assoc_meta, hl]; rfl

/-- … and what is stored under a collection's document prefix is exactly its documents. -/
theorem documents_exact (s : Spec.State) (σ : KVS) (hw : WF s) (hr : Rep s σ) (c : Bytes) (coll : Spec.Coll)
    (hc : Keys.Clean c) (hl : Spec.lookup c s = some coll) (hcw : CollWF coll) :
    σ.filter (fun e => Keys.isPrefix (Keys.docPrefix c) e.1) = docEntries c coll :=
  doc_block s σ hw hr c coll hc hl hcw

/-- Dropping or scanning one index can only meet that index's own entries (see C14), and a
    document scan only that collection's documents (see C13): the frame lemmas the invariant's
    preservation rests on. -/
theorem frame_index (c c' f f' rest : Bytes) (hc : Keys.Clean c) (hc' : Keys.Clean c')
    (hf : Keys.Clean f) (hf' : Keys.Clean f') :
    Keys.isPrefix (Keys.idxPrefix c' f') (Keys.idxKey c f rest) = true ↔ c = c' ∧ f = f' :=
  C14.index_prefix_selects_own_entries c c' f f' rest hc hc' hf hf'

end CV.Props.C06
