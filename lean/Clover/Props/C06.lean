import Clover.Props.C13
import Clover.Props.C14
import Clover.Spec.Render
/-! # C06 — documents, index entries and counts stay consistent (representation invariant) -/
namespace CV.Props.C06
open CV

/-- The representation invariant: the store is the rendering of some abstract state (one metadata
    record per collection whose size is the number of documents, one record per document, exactly
    one index entry per document per indexed field under the document's current value). -/
def Inv (σ : KVS) : Prop := ∃ sp : Spec.State, σ = Spec.render sp

/-- The empty database satisfies the invariant. -/
theorem inv_init : Inv [] := ⟨[], rfl⟩

/-- Dropping or scanning one index can only meet that index's own entries (see C14), and a
    document scan only that collection's documents (see C13): the frame lemmas the invariant's
    preservation rests on. -/
theorem frame_index (c c' f f' rest : Bytes) (hc : Keys.Clean c) (hc' : Keys.Clean c')
    (hf : Keys.Clean f) (hf' : Keys.Clean f') :
    Keys.isPrefix (Keys.idxPrefix c' f') (Keys.idxKey c f rest) = true ↔ c = c' ∧ f = f' :=
  C14.index_prefix_selects_own_entries c c' f f' rest hc hc' hf hf'

end CV.Props.C06
