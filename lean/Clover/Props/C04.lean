import Clover.Proofs.StoreM
import Clover.Proofs.Propagates
import Clover.Model.DB
/-! # C04 — a failed operation leaves no trace; store faults are reported -/
namespace CV.Props.C04
open CV

variable (likeFn : LikeFn) (fnFam : FnFam)

theorem execExport_state (c : Bytes) (kv : KVS) (φ : Faults) : (execExport likeFn fnFam c kv φ).2.1 = kv := by
  unfold execExport
  split
  · rfl
  · split <;> rfl
  · rfl

theorem exec_err_state (op : Op) (kv : KVS) (φ : Faults)
    (h : (op.exec likeFn fnFam kv φ).1.isErr = true) : (op.exec likeFn fnFam kv φ).2.1 = kv := by
  cases op <;> simp only [Op.exec] at h ⊢ <;>
    first
    | exact CV.failed_op_no_trace _ _ φ kv h
    | exact execExport_state likeFn fnFam _ kv φ

/-- Every public operation that returns an error — whatever the reason: invalid input, a missing
    or existing collection/index/document, or a store fault at any position of any fault schedule —
    leaves the committed store exactly as it was; the handle stays usable because the state is the
    only thing a later operation depends on. -/
theorem failed_op_no_trace (op : Op) (σ : DBState) (φ : Faults)
    (h : (op.run likeFn fnFam σ φ).out.isErr = true) : (op.run likeFn fnFam σ φ).state = σ := by
  unfold Op.run at *
  by_cases hc : σ.closed = true
  · simp [hc]
  · simp only [hc, Bool.false_eq_true, if_false] at h ⊢
    split
    · rfl
    · rename_i heq
      simp only [heq] at h
      simp only [exec_err_state likeFn fnFam _ _ _ h]
      cases σ with
      | mk kv closed => simp only at hc ⊢; simp [hc]

/-- Read transactions never change the store, whatever they compute and wherever a fault fires. -/
theorem read_tx_pure (op : Op) (hw : op.isWrite = false) (kv : KVS) (φ : Faults) :
    (op.exec likeFn fnFam kv φ).2.1 = kv := by
  cases op <;> simp only [Op.exec] <;>
    first
    | exact execExport_state likeFn fnFam _ kv φ
    | (rw [hw]; exact CV.read_pure _ φ kv)

theorem execExport_fault_reported (c : Bytes) (kv : KVS) (φ : Faults)
    (h : (execExport likeFn fnFam c kv φ).2.2.1 = true) : (execExport likeFn fnFam c kv φ).1.isErr = true := by
  unfold execExport at *
  have h1 := CV.fault_reported false (Op.body likeFn fnFam (.hasCollection c)) (prop_body likeFn fnFam _) φ kv
  have h2 := CV.fault_reported false (Op.body likeFn fnFam (.findAll { coll := c })) (prop_body likeFn fnFam _) (fun n => φ (n + 2)) kv
  revert h h1 h2
  generalize withTx false (Op.body likeFn fnFam (.hasCollection c)) φ kv = r1
  generalize withTx false (Op.body likeFn fnFam (.findAll { coll := c })) (fun n => φ (n + 2)) kv = r2
  obtain ⟨o1, s1, f1, t1⟩ := r1
  obtain ⟨o2, s2, f2, t2⟩ := r2
  intro h h1 h2
  simp only at h1 h2
  cases o1 with
  | err e => simp [Res.isErr]
  | ok out =>
    have hf1 : f1 = false := by
      cases f1 with
      | false => rfl
      | true => have := h1 rfl; simp [Res.isErr] at this
    subst hf1
    cases out <;> simp only [Res.isErr] at * <;> try rfl
    rename_i b
    cases b with
    | false => rfl
    | true =>
      simp only [Bool.false_or] at h
      cases o2 with
      | err e => simp [Res.isErr]
      | ok out2 =>
        cases out2 <;> simp only at h ⊢ <;> (have := h2 h; simp [Res.isErr] at this)

/-- A store failure is always reported: whenever a fault of ANY schedule fires at a store call the
    operation makes (begin, get, set, delete, cursor item read, commit), the operation returns an
    error — for every operation, every state — and (by `failed_op_no_trace`) changes nothing. -/
theorem fault_reported (op : Op) (σ : DBState) (φ : Faults)
    (h : (op.run likeFn fnFam σ φ).fired = true) :
    (op.run likeFn fnFam σ φ).out.isErr = true ∧ (op.run likeFn fnFam σ φ).state = σ := by
  have herr : (op.run likeFn fnFam σ φ).out.isErr = true := by
    unfold Op.run at *
    by_cases hc : σ.closed = true
    · simp [hc] at h
    · simp only [hc, Bool.false_eq_true, if_false] at h ⊢
      split
      · rfl
      · rename_i heq
        simp only [heq] at h
        simp only
        generalize op.route = op' at *
        cases op' <;> simp only [Op.exec] at h ⊢ <;>
          first
          | exact CV.fault_reported _ _ (prop_body likeFn fnFam _) φ σ.kv h
          | exact execExport_fault_reported likeFn fnFam _ σ.kv φ h
  exact ⟨herr, failed_op_no_trace likeFn fnFam op σ φ herr⟩

end CV.Props.C04
