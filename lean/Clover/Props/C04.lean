import Clover.Proofs.StoreM
import Clover.Model.DB
/-! # C04 — a failed operation leaves no trace; store faults are reported -/
namespace CV.Props.C04
open CV

variable (likeFn : LikeFn) (fnFam : FnFam)

theorem execExport_state (c : Bytes) (kv : KVS) (φ : Faults) : (execExport likeFn fnFam c kv φ).2.1 = kv := by
  unfold execExport
  split
  · rfl
  · split <;> rfl
  · rfl

theorem exec_err_state (op : Op) (kv : KVS) (φ : Faults)
    (h : (op.exec likeFn fnFam kv φ).1.isErr = true) : (op.exec likeFn fnFam kv φ).2.1 = kv := by
  cases op <;> simp only [Op.exec] at h ⊢ <;>
    first
    | exact CV.failed_op_no_trace _ _ φ kv h
    | exact execExport_state likeFn fnFam _ kv φ

/-- Every public operation that returns an error — whatever the reason: invalid input, a missing
    or existing collection/index/document, or a store fault at any position of any fault schedule —
    leaves the committed store exactly as it was; the handle stays usable because the state is the
    only thing a later operation depends on. -/
theorem failed_op_no_trace (op : Op) (σ : DBState) (φ : Faults)
    (h : (op.run likeFn fnFam σ φ).out.isErr = true) : (op.run likeFn fnFam σ φ).state = σ := by
  unfold Op.run at *
  by_cases hc : σ.closed = true
  · simp [hc]
  · simp only [hc, Bool.false_eq_true, if_false] at h ⊢
    split
    · rfl
    · rename_i heq
      simp only [heq] at h
      simp only [exec_err_state likeFn fnFam _ _ _ h]
      cases σ with
      | mk kv closed => simp only at hc ⊢; simp [hc]

/-- Read transactions never change the store, whatever they compute and wherever a fault fires. -/
theorem read_tx_pure (op : Op) (hw : op.isWrite = false) (kv : KVS) (φ : Faults) :
    (op.exec likeFn fnFam kv φ).2.1 = kv := by
  cases op <;> simp only [Op.exec] <;>
    first
    | exact execExport_state likeFn fnFam _ kv φ
    | (rw [hw]; exact CV.read_pure _ φ kv)

end CV.Props.C04
