import Clover.Generated.Facts
import Clover.Proofs.UnmarshalRename
import Clover.Proofs.Unmarshal2
import Clover.Proofs.KindInvariance
import Clover.Model.GoVal
import Clover.Proofs.Paths
import Clover.Proofs.SetAllOrder
import Clover.Proofs.DocFields
/-! # C18 — Go values are normalised to canonical types deterministically

`normalize` is the model of `internal.Normalize` on Go values described as `reflect` sees them
(validated against the real function on values built by reflection on every run); `Doc.set / get /
has` are the model of `Document.Set / Get / Has`. -/
namespace CV.Props.C18
open CV

/-- Signed integers of every width become int64, unsigned uint64, floats float64; strings, bools
    and times stay; nil stays nil. (`normalize` is a function: the conversion is deterministic.) -/
theorem widths_canonical (i : Int) (u : Nat) (b : Nat) :
    normalize (.int i) = .ok (.num (.int i)) ∧ normalize (.uint u) = .ok (.num (.uint u)) ∧
    normalize (.float b) = .ok (.num (.float b)) := ⟨rfl, rfl, rfl⟩

/-- Pointers are followed to nil or to a value, at any depth — also pointers to times. -/
theorem pointer_followed (v : GoVal) : normalize (.ptr (some v)) = normalize v := rfl
theorem nil_pointer_is_nil : normalize (.ptr none) = .ok .null := rfl
theorem pointer_to_time (ns off : Int) : normalize (.ptr (some (.ptr (some (.time ns off))))) = .ok (.time ns off) := rfl

/-- Maps need string keys; unsupported kinds are errors … -/
theorem map_needs_string_keys : normalize .otherMap = .error .mapKey := rfl
theorem unsupported_is_error : normalize .unsupported = .error .unsupportedType := rfl

/-- … and an unsupported value leaves the document unchanged (`Set` ignores it), also when it is
    nested inside a slice. -/
theorem unsupported_leaves_doc_unchanged (d : Doc) (name : Bytes) : d.setGo name .unsupported = d := rfl
theorem nested_unsupported_leaves_doc_unchanged (d : Doc) (name : Bytes) (xs : List GoVal) :
    d.setGo name (.list (.unsupported :: xs)) = d := by
  simp only [Doc.setGo, normalize, normalizeL]
  cases normalizeL xs <;> rfl

mutual
/-- Normalisation is idempotent on scalars, times and slices of them: a canonical value seen as a
    Go value normalises to itself. -/
theorem normalize_embed_noobj : (v : Value) → NoObj v → normalize (embed v) = .ok v
  | .null, _ => rfl
  | .num (.int _), _ => rfl
  | .num (.uint _), _ => rfl
  | .num (.float _), _ => rfl
  | .str _, _ => rfl
  | .bool _, _ => rfl
  | .time _ _, _ => rfl
  | .arr xs, h => by
    simp only [embed, normalize, normalizeL_embed_noobj xs (by simpa [NoObj] using h)]
    rfl
  | .obj _, h => by simp [NoObj] at h
theorem normalizeL_embed_noobj : (xs : List Value) → NoObjL xs → normalizeL (embedL xs) = .ok xs
  | [], _ => rfl
  | x :: xs, h => by
    simp only [NoObjL] at h
    simp only [embedL, normalizeL, normalize_embed_noobj x h.1, normalizeL_embed_noobj xs h.2]
end

/-- Struct tags: a `clover:"name"` tag renames the field, … -/
theorem struct_rename (f : GoField) (x : GoVal) (v : Value) (hx : normalize x = .ok v)
    (he : f.exported = true) (ho : f.omitempty = false) (hemb : f.embedded = false) (ht : f.tagName.isEmpty = false) :
    normalize (.struct [(f, x)]) = .ok (.obj [(f.tagName, v)]) := by
  simp [normalize, normalizeFields, he, ho, hemb, ht, hx, lookupKey, insertKey, Except.map]

/-- … `omitempty` drops an empty value, … -/
theorem struct_omitempty (f : GoField) (x : GoVal) (he : f.exported = true) (ho : f.omitempty = true)
    (hx : x.isEmptyValue = true) : normalize (.struct [(f, x)]) = .ok (.obj []) := by
  simp [normalize, normalizeFields, he, ho, hx, Except.map]

/-- … unexported fields are skipped, … -/
theorem struct_unexported (f : GoField) (x : GoVal) (he : f.exported = false) :
    normalize (.struct [(f, x)]) = .ok (.obj []) := by
  simp [normalize, normalizeFields, he, Except.map]

/-- … and an embedded struct is flattened into its parent. -/
theorem struct_embedded_flattened (f g : GoField) (x : GoVal) (v : Value) (hx : normalize x = .ok v)
    (he : f.exported = true) (ho : f.omitempty = false) (hemb : f.embedded = true)
    (hg : g.exported = true) (hgo : g.omitempty = false) (hge : g.embedded = false) (hgt : g.tagName.isEmpty = true) :
    normalize (.struct [(f, .struct [(g, x)])]) = .ok (.obj [(g.name, v)]) := by
  simp [normalize, normalizeFields, he, ho, hemb, hg, hgo, hge, hgt, hx, lookupKey, insertKey, Except.map]

/-- Set, Get and Has agree on dotted paths: what was set is read back and present … -/
theorem get_set_same (d : Doc) (name : Bytes) (v : Value) :
    (d.set name v).get name = v ∧ (d.set name v).has name = true := by
  have hne : splitDots name ≠ [] := by
    cases name with
    | nil => simp [splitDots]
    | cons c cs => simp only [splitDots]; split <;> (try split) <;> simp
  have := getPath_setPath_same d (splitDots name) hne v
  simp [Doc.set, Doc.get, Doc.has, this]

/-- … and assigning one path leaves every path that is not prefix-related untouched, including
    when the assignment creates intermediate maps or replaces a non-map intermediate. -/
theorem get_set_other (d : Doc) (p q : Bytes) (v : Value) (h : Unrelated (splitDots p) (splitDots q)) :
    (d.set p v).get q = d.get q ∧ (d.set p v).has q = d.has q := by
  have := getPath_setPath_other d (splitDots p) (splitDots q) h v
  simp [Doc.set, Doc.get, Doc.has, this]

end CV.Props.C18

namespace CV.Props.C18
open CV

/-- **`Document.Unmarshal` puts every field's value under the name `encoding/json` reads it from**
    (`Model/Unmarshal.lean` = `createRenameMap` / `rename` / `renameMapKeys`, validated against the real
    functions through a hook on every run): for a struct whose stored names (clover tag or Go name)
    are distinct and whose read names (json tag or Go name) are distinct, and a document shaped after it,
    the value stored under a field's clover name is found under its json/Go name after the renaming —
    all keys move simultaneously, so a struct with swapped tags (`A clover:"B"`, `B clover:"A"`) works … -/
theorem unmarshal_renames_every_field (fs : List RField) (hok : FieldsOK fs) (d : Doc) (hd : DocFits fs d)
    (f : RField) (hf : f ∈ fs) :
    lookupKey (RField.read f) (renameMapKeys (.struct fs) d) = (lookupKey (RField.stored f) d).map (renameVal f.2.2.2) :=
  lookupKey_renameMapKeys_field fs hok d hd f hf

/-- … and nested structs are renamed by the field's TYPE, under the key the field has after the
    renaming — also when the target's field is a nil pointer or carries a json tag (the two repaired
    defects F32/F33), at every depth. -/
theorem unmarshal_renames_nested (fs : List RField) (hok : FieldsOK fs) (d : Doc) (hd : DocFits fs d)
    (g c j : Bytes) (sub : List RField) (hf : (g, c, j, RType.struct sub) ∈ fs) (m : Doc)
    (hm : lookupKey (fromName g c) d = some (.obj m)) :
    lookupKey (toName g j) (renameMapKeys (.struct fs) d) = some (.obj (renameMapKeys (.struct sub) m)) :=
  renameMapKeys_nested fs hok d hd g c j sub hf m hm

theorem unmarshal_renames_along_paths (p : List RField) (T : RType) (f : RField) (d : Doc) (hT : RType.OK T)
    (hp : PathIn T (f :: p)) (hd : DocFitsAlong T (f :: p) d) :
    getPath (renameMapKeys T d) ((f :: p).map RField.read) =
      (getPath d ((f :: p).map RField.stored)).map (renameVal (lastType f p)) :=
  getPath_renameMapKeys p T f d hT hp hd

/-- **The same number supplied in any Go numeric kind normalises to values that compare equal to
    everything in the same way** (C16's literal-kind invariance, through this model of `Normalize`). -/
theorem go_kinds_normalise_to_the_same_number (n : Nat) (hn : n ≤ 2^53) :
    ∃ a b c, normalize (.int (n : Int)) = .ok a ∧ normalize (.uint n) = .ok b ∧
      normalize (.float (F64.ofNatMag n)) = .ok c ∧ SameNumber a b ∧ SameNumber a c ∧ SameNumber b c :=
  normalize_kinds_sameNumber n hn

/-- **`SetAll` is deterministic although Go iterates its map argument in random order**
    (`Document.SetAll`, hence `DB.Update(q, map)`): when no two names of the map are prefix-related as
    dotted paths, assigning them in ANY order yields the same document — so the model, which applies
    the pairs in list order, describes every order the runtime may pick.  No hypothesis on the
    document or the values. -/
theorem setAll_order_irrelevant {kvs kvs' : List (Bytes × Value)} (hp : kvs.Perm kvs')
    (hu : kvs.Pairwise (fun x y => Unrelated (splitDots x.1) (splitDots y.1))) (d : Doc) :
    Upd.apply (.setAll kvs) d = Upd.apply (.setAll kvs') d :=
  updApply_setAll_perm hp hu d

/-- … and the hypothesis is needed: for the prefix-related names `n` and `n.a` the two orders give
    different documents (the outcome of `Update(q, {"n": nil, "n.a": true})` depends on Go's map
    iteration order; the correspondence generators therefore keep the names of one update map
    unrelated). -/
theorem setAll_order_matters_for_related_names :
    ∃ kvs kvs' : List (Bytes × Value), kvs.Perm kvs' ∧ Upd.apply (.setAll kvs) [] ≠ Upd.apply (.setAll kvs') [] := by
  have h := setAll_order_matters
  exact ⟨_, _, h.1, h.2.2.2⟩

/-- well-formed documents (keys strictly increasing at every level) stay well formed under `Set` / `SetAll` -/
theorem set_keeps_documents_wellformed (d : Doc) (a : Bytes) (v : Value) (hd : DocOK d) (hv : ValOK v) :
    DocOK (d.set a v) := set_ok d a v hd hv

/-! ### `Document.Fields` (`util.MapKeys` + sort): `Model/DocFields.lean`, validated against the real method on every run -/

/-- `Fields(false)` lists exactly the top-level keys … -/
theorem fields_top_exact (d : Doc) (k : Bytes) : k ∈ d.fields false ↔ (lookupKey k d).isSome :=
  mem_fields_top d k

/-- … `Fields(true)` lists exactly the dotted paths that `Has` finds and whose value is not a map
    (an empty sub-map contributes nothing, as in the Go code), for documents whose keys contain no dot
    (a key with a dot is listed verbatim but is not a path: `leaf_has` needs the hypothesis, the converse
    direction does not) … -/
theorem fields_sub_exact (d : Doc) (h : DotFree d) (n : Bytes) :
    n ∈ d.fields true ↔ (d.has n = true ∧ ∀ sub, d.get n ≠ .obj sub) :=
  mem_fields_sub_iff d h n

/-- … every present non-map path is listed, for EVERY document … -/
theorem fields_lists_every_present_leaf (d : Doc) (n : Bytes) (hh : d.has n = true) (hv : ∀ sub, d.get n ≠ .obj sub) :
    n ∈ d.fields true :=
  (mem_fields_sub d n).2 (has_leaf' d n hh hv)

/-- … the listing is sorted byte-lexicographically … -/
theorem fields_sorted (d : Doc) (b : Bool) : (d.fields b).Pairwise (fun x y => bytesLe x y = true) :=
  CV.fields_sorted d b

/-- … and a field that was `Set` to a non-map value is listed afterwards (any document, any name). -/
theorem fields_after_set (d : Doc) (n : Bytes) (v : Value) (hv : ∀ sub, v ≠ .obj sub) : n ∈ (d.set n v).fields true :=
  (mem_fields_sub _ n).2 (leafNames_after_set d n v hv)

/-- dot-free, sorted documents stay so under `Set` of a non-map value -/
theorem set_keeps_dotfree (d : Doc) (h : DotFree d) (n : Bytes) (v : Value) (hv : ∀ sub, v ≠ .obj sub) : DotFree (d.set n v) :=
  dotFree_set d h n v hv

example : DotFree [([0x61], .obj [([0x62], .null)]), ([0x63], .bool true)] := by
  simp [DotFree, DotFreeKeys, SortedKeys, dot, OC.lexLt]

/-! ### the repaired renaming (F40): embedded structs, structs inside slices, arrays and maps — `Model/Unmarshal2.lean` -/

/-- on the struct shapes the first model knew, the repaired function is the old one -/
theorem unmarshal2_conservative (T : RType) (d : Doc) : U2.renameMapKeys (U2.embedOld T) d = renameMapKeys T d :=
  U2.renameMapKeys_embedOld T d

/-- every element of a **slice or array of structs** is renamed by the element type … -/
theorem unmarshal_renames_slice_elements (fs : List U2.RField) (hp : U2.Plain fs) (hok : U2.FieldsOK fs) (d : Doc)
    (hd : U2.DocFits fs d) (g c j : Bytes) (e : Bool) (sub : List U2.RField)
    (hf : (g, c, j, e, U2.RT.list (.struct sub)) ∈ fs) (xs : List Value)
    (hx : lookupKey (fromName g c) d = some (.arr xs)) :
    lookupKey (toName g j) (U2.renameMapKeys (.struct fs) d) = some (.arr (xs.map (U2.renameValue (.struct sub)))) :=
  U2.renameValue_list fs hp hok d hd g c j e sub hf xs hx

/-- … every value of a **map of structs** likewise … -/
theorem unmarshal_renames_map_values (fs : List U2.RField) (hp : U2.Plain fs) (hok : U2.FieldsOK fs) (d : Doc)
    (hd : U2.DocFits fs d) (g c j : Bytes) (e : Bool) (sub : List U2.RField)
    (hf : (g, c, j, e, U2.RT.map (.struct sub)) ∈ fs) (m : Doc)
    (hm : lookupKey (fromName g c) d = some (.obj m)) :
    lookupKey (toName g j) (U2.renameMapKeys (.struct fs) d) =
      some (.obj (m.map (fun kv => (kv.1, U2.renameValue (.struct sub) kv.2)))) :=
  U2.renameValue_map fs hp hok d hd g c j e sub hf m hm

/-- … and the fields of an **embedded struct**, flattened into the parent document on the way in, are renamed exactly
    like direct fields (hypotheses `EmbeddedOK`: distinct names, and no direct field's json name equal to a promoted
    field's stored name — with such a clash the second pass would move the wrong value, `Proofs/Unmarshal2.lean` has the
    counterexample). -/
theorem unmarshal_renames_embedded_fields (pre post es : List U2.RField) (gE cE : Bytes) (d : Doc)
    (h : U2.EmbeddedOK pre post es gE cE d) (jE : Bytes) (f : U2.RField) (hf : f ∈ es) :
    lookupKey (U2.RField.read f) (U2.renameMapKeys (.struct (pre ++ (gE, cE, jE, true, U2.RT.struct es) :: post)) d) =
      (lookupKey (U2.RField.stored f) d).map (U2.renameValue f.2.2.2.2) :=
  U2.renameMapKeys_embedded h jE f hf

end CV.Props.C18

-- SOURCE-TEXT-BEGIN (generated by tools/mk_source_theorems.py; do not edit by hand)
namespace CV.Props.C18

/-- (facts, regenerated from the source on every run) **The source text the model transcribes is the text of the
    current source**: the bodies (comments and layout removed) of the 27 functions the model behind C18 was written from and
    validated against.  Any edit of one of them breaks this theorem at build time; the check then searches with the
    property's own oracles for a failing input, and reports `no-failing-input-found` if it finds none: the model then
    has to be re-validated against the new text (and this block regenerated). -/
theorem source_decision_logic : CV.Facts.logicC18 = [
  "document..NewDocumentOf: { doc, isDoc := o.(*Document) if isDoc { return doc } return newDocumentOf(o) }", 
  "document..lookupField: { fields := strings.Split(name, \".\") var exists bool var f interface{} currMap := fieldMap for i, field := range fields { f, exists = currMap[field] m, isMap := f.(map[string]interface{}) if force { if (!exists || !isMap) && i < len(fields)-1 { m = make(map[string]interface{}) currMap[field] = m f = m } } else if !exists { return nil, nil, \"\" } if i < len(fields)-1 { currMap = m } } return currMap, f, fields[len(fields)-1] }", 
  "document..newDocumentOf: { normalized, _ := internal.Normalize(o) fields, _ := normalized.(map[string]interface{}) if fields == nil { return nil } return &Document{ fields: fields, } }", 
  "document.Document.AsMap: { return util.CopyMap(doc.fields) }", 
  "document.Document.Copy: { return &Document{ fields: util.CopyMap(doc.fields), } }", 
  "document.Document.Fields: { return util.MapKeys(doc.fields, true, includeSubFields) }", 
  "document.Document.Get: { _, v, _ := lookupField(name, doc.fields, false) return v }", 
  "document.Document.Has: { fieldMap, _, _ := lookupField(name, doc.fields, false) return fieldMap != nil }", 
  "document.Document.Set: { normalizedValue, err := internal.Normalize(value) if err == nil { m, _, fieldName := lookupField(name, doc.fields, true) m[fieldName] = normalizedValue } }", 
  "document.Document.SetAll: { for updateField, updateValue := range values { doc.Set(updateField, updateValue) } }", 
  "document.Document.ToMap: { return util.CopyMap(doc.fields) }", 
  "document.Document.Unmarshal: { return internal.Convert(doc.fields, v) }", 
  "internal..Convert: { renamed := renameMapKeys(m, v) b, err := json.Marshal(renamed) if err != nil { return err } return json.Unmarshal(b, v) }", 
  "internal..Normalize: { if value == nil { return nil, nil } rValue, rType := getElemValueAndType(value) if rType.Kind() == reflect.Ptr { return nil, nil } if _, isTime := rValue.Interface().(time.Time); isTime { return rValue.Interface(), nil } switch value := value.(type) { case encoding.BinaryMarshaler: return value, nil } if _, isValue := rValue.Interface().(Value); isValue { return rValue.Interface(), nil } switch rType.Kind() { case reflect.Uint, reflect.Uint8, reflect.Uint16, reflect.Uint32, reflect.Uint64: return rValue.Uint(), nil case reflect.Int, reflect.Int8, reflect.Int16, reflect.Int32, reflect.Int64: return rValue.Int(), nil case reflect.Float32, reflect.Float64: return rValue.Float(), nil case reflect.Struct: return normalizeStruct(rValue) case reflect.Map: return normalizeMap(rValue) case reflect.String: return rValue.String(), nil case reflect.Bool: return rValue.Bool(), nil case reflect.Slice, reflect.Array: return normalizeSlice(rValue) } return nil, fmt.Errorf(\"invalid dtype %s\", rType.Name()) }", 
  "internal..createRenameMap: { renameMap := make(map[string]string) for i := 0; i < rv.NumField(); i++ { fieldType := rv.Type().Field(i) renameTo := fieldType.Name renameFrom := fieldType.Name jsonTagStr, found := fieldType.Tag.Lookup(\"json\") if found { name, _ := processStructTag(jsonTagStr) if name != \"\" { renameTo = name } } tagStr, found := fieldType.Tag.Lookup(\"clover\") if found { name, _ := processStructTag(tagStr) if name != \"\" { renameFrom = name } } if renameFrom != renameTo { renameMap[renameFrom] = renameTo } } return renameMap }", 
  "internal..getElemType: { for rt.Kind() == reflect.Ptr { rt = rt.Elem() } return rt }", 
  "internal..getElemValueAndType: { rv := reflect.ValueOf(v) rt := reflect.TypeOf(v) for rt.Kind() == reflect.Ptr && !rv.IsNil() { rt = rt.Elem() rv = rv.Elem() } return rv, rt }", 
  "internal..isEmptyValue: { switch v.Kind() { case reflect.Array, reflect.Map, reflect.Slice, reflect.String: return v.Len() == 0 case reflect.Bool: return !v.Bool() case reflect.Int, reflect.Int8, reflect.Int16, reflect.Int32, reflect.Int64: return v.Int() == 0 case reflect.Uint, reflect.Uint8, reflect.Uint16, reflect.Uint32, reflect.Uint64, reflect.Uintptr: return v.Uint() == 0 case reflect.Float32, reflect.Float64: return v.Float() == 0 case reflect.Interface, reflect.Ptr: return v.IsNil() } return false }", 
  "internal..normalizeMap: { if mapValue.Type().Key().Kind() != reflect.String { return nil, fmt.Errorf(\"map key type must be a string\") } m := make(map[string]interface{}) for _, key := range mapValue.MapKeys() { value := mapValue.MapIndex(key) normalized, err := Normalize(value.Interface()) if err != nil { return nil, err } m[key.String()] = normalized } return m, nil }", 
  "internal..normalizeSlice: { if sliceValue.Kind() == reflect.Slice && sliceValue.Type().Elem().Kind() == reflect.Uint8 { return sliceValue.Bytes(), nil } s := make([]interface{}, 0) for i := 0; i < sliceValue.Len(); i++ { v, err := Normalize(sliceValue.Index(i).Interface()) if err != nil { return nil, err } s = append(s, v) } return s, nil }", 
  "internal..normalizeStruct: { m := make(map[string]interface{}) for i := 0; i < structValue.NumField(); i++ { fieldType := structValue.Type().Field(i) fieldValue := structValue.Field(i) if fieldType.PkgPath == \"\" { fieldName := fieldType.Name cloverTag := fieldType.Tag.Get(\"clover\") name, omitempty := processStructTag(cloverTag) if name != \"\" { fieldName = name } if !omitempty || !isEmptyValue(fieldValue) { normalized, err := Normalize(structValue.Field(i).Interface()) if err != nil { return nil, err } if !fieldType.Anonymous { m[fieldName] = normalized } else { if normalizedMap, ok := normalized.(map[string]interface{}); ok { for k, v := range normalizedMap { m[k] = v } } else { m[fieldName] = normalized } } } } } return m, nil }", 
  "internal..processStructTag: { tags := strings.Split(tagStr, \",\") name := tags[0] omitempty := len(tags) > 1 && tags[1] == \"omitempty\" return name, omitempty }", 
  "internal..rename: { rv := reflect.ValueOf(v) if rv.Type().Kind() != reflect.Struct { return nil } renameMap := createRenameMap(rv) m := make(map[string]interface{}) for key, value := range fields { renamedFieldName := renameMap[key] if renamedFieldName != \"\" { m[renamedFieldName] = value } else { m[key] = value } } return m }", 
  "internal..renameMapKeys: { rv, rt := getElemValueAndType(v) if rt.Kind() != reflect.Struct { return m } renamed := rename(m, rv.Interface()) for i := 0; i < rv.NumField(); i++ { sf := rv.Type().Field(i) if ft := getElemType(sf.Type); sf.Anonymous && ft.Kind() == reflect.Struct { if _, isMap := renamed[sf.Name].(map[string]interface{}); !isMap { renamed = renameMapKeys(renamed, reflect.New(ft).Interface()) continue } } key := sf.Name if jsonTagStr, found := sf.Tag.Lookup(\"json\"); found { if name, _ := processStructTag(jsonTagStr); name != \"\" { key = name } } if fv, found := renamed[key]; found { renamed[key] = renameValue(fv, sf.Type) } } return renamed }", 
  "internal..renameValue: { t = getElemType(t) switch t.Kind() { case reflect.Struct: if m, isMap := v.(map[string]interface{}); isMap { return renameMapKeys(m, reflect.New(t).Interface()) } case reflect.Slice, reflect.Array: if s, isSlice := v.([]interface{}); isSlice { elems := make([]interface{}, len(s)) for i, elem := range s { elems[i] = renameValue(elem, t.Elem()) } return elems } case reflect.Map: if m, isMap := v.(map[string]interface{}); isMap { values := make(map[string]interface{}, len(m)) for k, value := range m { values[k] = renameValue(value, t.Elem()) } return values } } return v }", 
  "util..CopyMap: { mapCopy := make(map[string]interface{}) for k, v := range m { mapValue, ok := v.(map[string]interface{}) if ok { mapCopy[k] = CopyMap(mapValue) } else { mapCopy[k] = v } } return mapCopy }", 
  "util..MapKeys: { keys := make([]string, 0, len(m)) for key, value := range m { added := false if includeSubKeys { subMap, isMap := value.(map[string]interface{}) if isMap { subFields := MapKeys(subMap, false, includeSubKeys) for _, subKey := range subFields { keys = append(keys, key+\".\"+subKey) } added = true } } if !added { keys = append(keys, key) } } if sorted { sort.Slice(keys, func(i, j int) bool { return keys[i] < keys[j] }) } return keys }"] := by rfl

end CV.Props.C18
-- SOURCE-TEXT-END
