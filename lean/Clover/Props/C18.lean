import Clover.Model.GoVal
import Clover.Proofs.Paths
/-! # C18 — Go values are normalised to canonical types deterministically

`normalize` is the model of `internal.Normalize` on Go values described as `reflect` sees them
(validated against the real function on values built by reflection on every run); `Doc.set / get /
has` are the model of `Document.Set / Get / Has`. -/
namespace CV.Props.C18
open CV

/-- Signed integers of every width become int64, unsigned uint64, floats float64; strings, bools
    and times stay; nil stays nil. (`normalize` is a function: the conversion is deterministic.) -/
theorem widths_canonical (i : Int) (u : Nat) (b : Nat) :
    normalize (.int i) = .ok (.num (.int i)) ∧ normalize (.uint u) = .ok (.num (.uint u)) ∧
    normalize (.float b) = .ok (.num (.float b)) := ⟨rfl, rfl, rfl⟩

/-- Pointers are followed to nil or to a value, at any depth — also pointers to times. -/
theorem pointer_followed (v : GoVal) : normalize (.ptr (some v)) = normalize v := rfl
theorem nil_pointer_is_nil : normalize (.ptr none) = .ok .null := rfl
theorem pointer_to_time (ns off : Int) : normalize (.ptr (some (.ptr (some (.time ns off))))) = .ok (.time ns off) := rfl

/-- Maps need string keys; unsupported kinds are errors … -/
theorem map_needs_string_keys : normalize .otherMap = .error .mapKey := rfl
theorem unsupported_is_error : normalize .unsupported = .error .unsupportedType := rfl

/-- … and an unsupported value leaves the document unchanged (`Set` ignores it), also when it is
    nested inside a slice. -/
theorem unsupported_leaves_doc_unchanged (d : Doc) (name : Bytes) : d.setGo name .unsupported = d := rfl
theorem nested_unsupported_leaves_doc_unchanged (d : Doc) (name : Bytes) (xs : List GoVal) :
    d.setGo name (.list (.unsupported :: xs)) = d := by
  simp only [Doc.setGo, normalize, normalizeL]
  cases normalizeL xs <;> rfl

mutual
/-- Normalisation is idempotent on scalars, times and slices of them: a canonical value seen as a
    Go value normalises to itself. -/
theorem normalize_embed_noobj : (v : Value) → NoObj v → normalize (embed v) = .ok v
  | .null, _ => rfl
  | .num (.int _), _ => rfl
  | .num (.uint _), _ => rfl
  | .num (.float _), _ => rfl
  | .str _, _ => rfl
  | .bool _, _ => rfl
  | .time _ _, _ => rfl
  | .arr xs, h => by
    simp only [embed, normalize, normalizeL_embed_noobj xs (by simpa [NoObj] using h)]
    rfl
  | .obj _, h => by simp [NoObj] at h
theorem normalizeL_embed_noobj : (xs : List Value) → NoObjL xs → normalizeL (embedL xs) = .ok xs
  | [], _ => rfl
  | x :: xs, h => by
    simp only [NoObjL] at h
    simp only [embedL, normalizeL, normalize_embed_noobj x h.1, normalizeL_embed_noobj xs h.2]
end

/-- Struct tags: a `clover:"name"` tag renames the field, … -/
theorem struct_rename (f : GoField) (x : GoVal) (v : Value) (hx : normalize x = .ok v)
    (he : f.exported = true) (ho : f.omitempty = false) (hemb : f.embedded = false) (ht : f.tagName.isEmpty = false) :
    normalize (.struct [(f, x)]) = .ok (.obj [(f.tagName, v)]) := by
  simp [normalize, normalizeFields, he, ho, hemb, ht, hx, lookupKey, insertKey, Except.map]

/-- … `omitempty` drops an empty value, … -/
theorem struct_omitempty (f : GoField) (x : GoVal) (he : f.exported = true) (ho : f.omitempty = true)
    (hx : x.isEmptyValue = true) : normalize (.struct [(f, x)]) = .ok (.obj []) := by
  simp [normalize, normalizeFields, he, ho, hx, Except.map]

/-- … unexported fields are skipped, … -/
theorem struct_unexported (f : GoField) (x : GoVal) (he : f.exported = false) :
    normalize (.struct [(f, x)]) = .ok (.obj []) := by
  simp [normalize, normalizeFields, he, Except.map]

/-- … and an embedded struct is flattened into its parent. -/
theorem struct_embedded_flattened (f g : GoField) (x : GoVal) (v : Value) (hx : normalize x = .ok v)
    (he : f.exported = true) (ho : f.omitempty = false) (hemb : f.embedded = true)
    (hg : g.exported = true) (hgo : g.omitempty = false) (hge : g.embedded = false) (hgt : g.tagName.isEmpty = true) :
    normalize (.struct [(f, .struct [(g, x)])]) = .ok (.obj [(g.name, v)]) := by
  simp [normalize, normalizeFields, he, ho, hemb, hg, hgo, hge, hgt, hx, lookupKey, insertKey, Except.map]

/-- Set, Get and Has agree on dotted paths: what was set is read back and present … -/
theorem get_set_same (d : Doc) (name : Bytes) (v : Value) :
    (d.set name v).get name = v ∧ (d.set name v).has name = true := by
  have hne : splitDots name ≠ [] := by
    cases name with
    | nil => simp [splitDots]
    | cons c cs => simp only [splitDots]; split <;> (try split) <;> simp
  have := getPath_setPath_same d (splitDots name) hne v
  simp [Doc.set, Doc.get, Doc.has, this]

/-- … and assigning one path leaves every path that is not prefix-related untouched, including
    when the assignment creates intermediate maps or replaces a non-map intermediate. -/
theorem get_set_other (d : Doc) (p q : Bytes) (v : Value) (h : Unrelated (splitDots p) (splitDots q)) :
    (d.set p v).get q = d.get q ∧ (d.set p v).has q = d.has q := by
  have := getPath_setPath_other d (splitDots p) (splitDots q) h v
  simp [Doc.set, Doc.get, Doc.has, this]

end CV.Props.C18
