import Clover.Proofs.UnmarshalRename
import Clover.Proofs.KindInvariance
import Clover.Model.GoVal
import Clover.Proofs.Paths
/-! # C18 — Go values are normalised to canonical types deterministically

`normalize` is the model of `internal.Normalize` on Go values described as `reflect` sees them
(validated against the real function on values built by reflection on every run); `Doc.set / get /
has` are the model of `Document.Set / Get / Has`. -/
namespace CV.Props.C18
open CV

/-- Signed integers of every width become int64, unsigned uint64, floats float64; strings, bools
    and times stay; nil stays nil. (`normalize` is a function: the conversion is deterministic.) -/
theorem widths_canonical (i : Int) (u : Nat) (b : Nat) :
    normalize (.int i) = .ok (.num (.int i)) ∧ normalize (.uint u) = .ok (.num (.uint u)) ∧
    normalize (.float b) = .ok (.num (.float b)) := ⟨rfl, rfl, rfl⟩

/-- Pointers are followed to nil or to a value, at any depth — also pointers to times. -/
theorem pointer_followed (v : GoVal) : normalize (.ptr (some v)) = normalize v := rfl
theorem nil_pointer_is_nil : normalize (.ptr none) = .ok .null := rfl
theorem pointer_to_time (ns off : Int) : normalize (.ptr (some (.ptr (some (.time ns off))))) = .ok (.time ns off) := rfl

/-- Maps need string keys; unsupported kinds are errors … -/
theorem map_needs_string_keys : normalize .otherMap = .error .mapKey := rfl
theorem unsupported_is_error : normalize .unsupported = .error .unsupportedType := rfl

/-- … and an unsupported value leaves the document unchanged (`Set` ignores it), also when it is
    nested inside a slice. -/
theorem unsupported_leaves_doc_unchanged (d : Doc) (name : Bytes) : d.setGo name .unsupported = d := rfl
theorem nested_unsupported_leaves_doc_unchanged (d : Doc) (name : Bytes) (xs : List GoVal) :
    d.setGo name (.list (.unsupported :: xs)) = d := by
  simp only [Doc.setGo, normalize, normalizeL]
  cases normalizeL xs <;> rfl

mutual
/-- Normalisation is idempotent on scalars, times and slices of them: a canonical value seen as a
    Go value normalises to itself. -/
theorem normalize_embed_noobj : (v : Value) → NoObj v → normalize (embed v) = .ok v
  | .null, _ => rfl
  | .num (.int _), _ => rfl
  | .num (.uint _), _ => rfl
  | .num (.float _), _ => rfl
  | .str _, _ => rfl
  | .bool _, _ => rfl
  | .time _ _, _ => rfl
  | .arr xs, h => by
    simp only [embed, normalize, normalizeL_embed_noobj xs (by simpa [NoObj] using h)]
    rfl
  | .obj _, h => by simp [NoObj] at h
theorem normalizeL_embed_noobj : (xs : List Value) → NoObjL xs → normalizeL (embedL xs) = .ok xs
  | [], _ => rfl
  | x :: xs, h => by
    simp only [NoObjL] at h
    simp only [embedL, normalizeL, normalize_embed_noobj x h.1, normalizeL_embed_noobj xs h.2]
end

/-- Struct tags: a `clover:"name"` tag renames the field, … -/
theorem struct_rename (f : GoField) (x : GoVal) (v : Value) (hx : normalize x = .ok v)
    (he : f.exported = true) (ho : f.omitempty = false) (hemb : f.embedded = false) (ht : f.tagName.isEmpty = false) :
    normalize (.struct [(f, x)]) = .ok (.obj [(f.tagName, v)]) := by
  simp [normalize, normalizeFields, he, ho, hemb, ht, hx, lookupKey, insertKey, Except.map]

/-- … `omitempty` drops an empty value, … -/
theorem struct_omitempty (f : GoField) (x : GoVal) (he : f.exported = true) (ho : f.omitempty = true)
    (hx : x.isEmptyValue = true) : normalize (.struct [(f, x)]) = .ok (.obj []) := by
  simp [normalize, normalizeFields, he, ho, hx, Except.map]

/-- … unexported fields are skipped, … -/
theorem struct_unexported (f : GoField) (x : GoVal) (he : f.exported = false) :
    normalize (.struct [(f, x)]) = .ok (.obj []) := by
  simp [normalize, normalizeFields, he, Except.map]

/-- … and an embedded struct is flattened into its parent. -/
theorem struct_embedded_flattened (f g : GoField) (x : GoVal) (v : Value) (hx : normalize x = .ok v)
    (he : f.exported = true) (ho : f.omitempty = false) (hemb : f.embedded = true)
    (hg : g.exported = true) (hgo : g.omitempty = false) (hge : g.embedded = false) (hgt : g.tagName.isEmpty = true) :
    normalize (.struct [(f, .struct [(g, x)])]) = .ok (.obj [(g.name, v)]) := by
  simp [normalize, normalizeFields, he, ho, hemb, hg, hgo, hge, hgt, hx, lookupKey, insertKey, Except.map]

/-- Set, Get and Has agree on dotted paths: what was set is read back and present … -/
theorem get_set_same (d : Doc) (name : Bytes) (v : Value) :
    (d.set name v).get name = v ∧ (d.set name v).has name = true := by
  have hne : splitDots name ≠ [] := by
    cases name with
    | nil => simp [splitDots]
    | cons c cs => simp only [splitDots]; split <;> (try split) <;> simp
  have := getPath_setPath_same d (splitDots name) hne v
  simp [Doc.set, Doc.get, Doc.has, this]

/-- … and assigning one path leaves every path that is not prefix-related untouched, including
    when the assignment creates intermediate maps or replaces a non-map intermediate. -/
theorem get_set_other (d : Doc) (p q : Bytes) (v : Value) (h : Unrelated (splitDots p) (splitDots q)) :
    (d.set p v).get q = d.get q ∧ (d.set p v).has q = d.has q := by
  have := getPath_setPath_other d (splitDots p) (splitDots q) h v
  simp [Doc.set, Doc.get, Doc.has, this]

end CV.Props.C18

namespace CV.Props.C18
open CV

/-- **`Document.Unmarshal` puts every field's value under the name `encoding/json` reads it from**
    (`Model/Unmarshal.lean` = `createRenameMap` / `rename` / `renameMapKeys`, validated against the real
    functions through a hook on every run): for a struct whose stored names (clover tag or Go name)
    are distinct and whose read names (json tag or Go name) are distinct, and a document shaped after it,
    the value stored under a field's clover name is found under its json/Go name after the renaming —
    all keys move simultaneously, so a struct with swapped tags (`A clover:"B"`, `B clover:"A"`) works … -/
theorem unmarshal_renames_every_field (fs : List RField) (hok : FieldsOK fs) (d : Doc) (hd : DocFits fs d)
    (f : RField) (hf : f ∈ fs) :
    lookupKey (RField.read f) (renameMapKeys (.struct fs) d) = (lookupKey (RField.stored f) d).map (renameVal f.2.2.2) :=
  lookupKey_renameMapKeys_field fs hok d hd f hf

/-- … and nested structs are renamed by the field's TYPE, under the key the field has after the
    renaming — also when the target's field is a nil pointer or carries a json tag (the two repaired
    defects F32/F33), at every depth. -/
theorem unmarshal_renames_nested (fs : List RField) (hok : FieldsOK fs) (d : Doc) (hd : DocFits fs d)
    (g c j : Bytes) (sub : List RField) (hf : (g, c, j, RType.struct sub) ∈ fs) (m : Doc)
    (hm : lookupKey (fromName g c) d = some (.obj m)) :
    lookupKey (toName g j) (renameMapKeys (.struct fs) d) = some (.obj (renameMapKeys (.struct sub) m)) :=
  renameMapKeys_nested fs hok d hd g c j sub hf m hm

theorem unmarshal_renames_along_paths (p : List RField) (T : RType) (f : RField) (d : Doc) (hT : RType.OK T)
    (hp : PathIn T (f :: p)) (hd : DocFitsAlong T (f :: p) d) :
    getPath (renameMapKeys T d) ((f :: p).map RField.read) =
      (getPath d ((f :: p).map RField.stored)).map (renameVal (lastType f p)) :=
  getPath_renameMapKeys p T f d hT hp hd

/-- **The same number supplied in any Go numeric kind normalises to values that compare equal to
    everything in the same way** (C16's literal-kind invariance, through this model of `Normalize`). -/
theorem go_kinds_normalise_to_the_same_number (n : Nat) (hn : n ≤ 2^53) :
    ∃ a b c, normalize (.int (n : Int)) = .ok a ∧ normalize (.uint n) = .ok b ∧
      normalize (.float (F64.ofNatMag n)) = .ok c ∧ SameNumber a b ∧ SameNumber a c ∧ SameNumber b c :=
  normalize_kinds_sameNumber n hn

end CV.Props.C18
