import Clover.Proofs.Window
/-! # C08 — sort order and skip/limit windows are exact -/
namespace CV.Props.C08
open CV

/-- Window law, for every skip, every limit (negative = unlimited) and every fed sequence: the
    skip/limit node in front of a collecting consumer hands over exactly `[skip, skip+limit)`. -/
theorem window_exact (q : Query) (l : List Doc) :
    (feed q none {} l).out.reverse = Spec.window q.skip q.limit l := feed_window q l

/-- The in-memory sort node returns a permutation of what it collected (nothing lost, nothing
    duplicated), whatever the sort options. -/
theorem sort_perm (opts : List (Bytes × Int)) (ds : List Doc) : (sortDocs opts ds).Perm ds :=
  List.mergeSort_perm ds _

/-- without a sort and with an unlimited window the result length is `max 0 (total - skip)`;
    with a limit `m` it is `min m (max 0 (total - skip))` -/
theorem window_length (skip : Nat) (limit : Int) (l : List Doc) :
    (Spec.window skip limit l).length =
      if limit < 0 then l.length - skip else min limit.toNat (l.length - skip) := by
  unfold Spec.window
  split <;> simp

example : Spec.window 1 2 [[], [([1], .null)], [([2], .null)], [([3], .null)]] = [[([1], .null)], [([2], .null)]] := by
  simp [Spec.window]

end CV.Props.C08
