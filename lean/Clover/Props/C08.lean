import Clover.Generated.Facts
import Clover.Proofs.Translated
import Clover.Proofs.Window
import Clover.Proofs.SortOrder
import Clover.Proofs.SortClasses
import Clover.Proofs.TotalOrder
import Clover.Model.QueryBuilder
/-! # C08 — sort order and skip/limit windows are exact -/
namespace CV.Props.C08
open CV

/-- Window law, for every skip, every limit (negative = unlimited) and every fed sequence: the
    skip/limit node in front of a collecting consumer hands over exactly `[skip, skip+limit)`. -/
theorem window_exact (q : Query) (l : List Doc) :
    (feed q none {} l).out.reverse = Spec.window q.skip q.limit l := feed_window q l

/-- The in-memory sort node returns a permutation of what it collected (nothing lost, nothing
    duplicated), whatever the sort options. -/
theorem sort_perm (opts : List (Bytes × Int)) (ds : List Doc) : (sortDocs opts ds).Perm ds :=
  List.mergeSort_perm ds _

/-- without a sort and with an unlimited window the result length is `max 0 (total - skip)`;
    with a limit `m` it is `min m (max 0 (total - skip))` -/
theorem window_length (skip : Nat) (limit : Int) (l : List Doc) :
    (Spec.window skip limit l).length =
      if limit < 0 then l.length - skip else min limit.toNat (l.length - skip) := by
  unfold Spec.window
  split <;> simp

example : Spec.window 1 2 [[], [([1], .null)], [([2], .null)], [([3], .null)]] = [[([1], .null)], [([2], .null)]] := by
  simp [Spec.window]

end CV.Props.C08

namespace CV.Props.C08
open CV

variable (likeFn : LikeFn) (fnFam : FnFam)

/-- **`compareDocuments` is a total preorder** for every list of sort options with directions ±1, on
    every set of documents whose compared values are comparable by value (C10's domain): sign
    antisymmetry, totality and transitivity — so "sorted" is well defined and any two sorted
    permutations have the same sequence of sort-key tuples (Go's unstable `sort.Slice` is covered). -/
theorem compareDocuments_total_preorder (opts : List (Bytes × Int)) (ds : List Doc) (h : SortDom opts ds) :
    (∀ a ∈ ds, ∀ b ∈ ds, compareDocuments a b opts = - compareDocuments b a opts) ∧
    (∀ a ∈ ds, ∀ b ∈ ds, compareDocuments a b opts ≤ 0 ∨ compareDocuments b a opts ≤ 0) ∧
    (∀ a ∈ ds, ∀ b ∈ ds, ∀ c ∈ ds, compareDocuments a b opts ≤ 0 → compareDocuments b c opts ≤ 0 →
      compareDocuments a c opts ≤ 0) :=
  ⟨fun a ha b hb => compareDocuments_antisymm opts ds h a b ha hb,
   fun a ha b hb => compareDocuments_total opts ds h a b ha hb,
   fun a ha b hb c hc => compareDocuments_trans opts ds h a b c ha hb hc⟩

/-- **The in-memory sort node sorts**: its output is pairwise ordered by `compareDocuments`. -/
theorem sort_node_sorts (opts : List (Bytes × Int)) (ds : List Doc) (h : SortDom opts ds) :
    (sortDocs opts ds).Pairwise (fun a b => compareDocuments a b opts ≤ 0) := sortDocs_sorted opts ds h

/-- **A sorted `FindAll` is sorted** (sort node present: any number of keys, either direction, any
    skip/limit window, any index set and plan): every pair of returned documents is in
    `compareDocuments` order. -/
theorem findAll_is_sorted (s : Spec.State) (σ : KVS) (hw : WF s) (hr : Rep s σ) (q : Query) (coll : Spec.Coll)
    (hl : Spec.lookup q.coll s = some coll) (hns : needSort q (choosePlan coll.indexes q).2 = true)
    (hdom : SortDom q.sort ((coll.docs.map (·.2)).filter (fun d => satOpt likeFn fnFam d q.crit))) :
    ∃ res, (withTx false (Op.body likeFn fnFam (.findAll q)) noFault σ).1 = .ok (.docs res) ∧
      res.Pairwise (fun a b => compareDocuments a b q.sort ≤ 0) :=
  findAll_sorted likeFn fnFam s σ hw hr q coll hl hns hdom

/-- **… also when the sort node is elided because an index on the single sort field delivers the
    order** (either direction, with or without an index range from the criteria): the answer is in
    non-decreasing (non-increasing when descending) order of the field's value, an absent field
    ordering together with nil (`get` reads it as nil). -/
theorem findAll_in_index_order (s : Spec.State) (σ : KVS) (hw : WF s) (hr : Rep s σ) (q : Query) (coll : Spec.Coll)
    (hl : Spec.lookup q.coll s = some coll) (hsorted : (choosePlan coll.indexes q).2 = true)
    (hdom : ∀ f ∈ coll.indexes, ∀ e ∈ coll.docs, Dom numOK (e.2.get f))
    (hcrit : ∀ cr, q.crit = some cr → CritDom cr) :
    ∃ f dir res, q.sort = [(f, dir)] ∧
      (withTx false (Op.body likeFn fnFam (.findAll q)) noFault σ).1 = .ok (.docs res) ∧
      res.Pairwise (idxOrd f (decide (dir < 0))) :=
  findAll_sort_by_index likeFn fnFam s σ hw hr q coll hl hsorted hdom hcrit

/-- The answer of any plan is the skip/limit window of the filtered, ordered candidates (so the
    window law `window_exact` applies to it), and a window of a sorted sequence is sorted. -/
theorem window_of_sorted_is_sorted (R : Doc → Doc → Prop) (skip : Nat) (limit : Int) (l : List Doc) (h : l.Pairwise R) :
    (Spec.window skip limit l).Pairwise R := window_sorted R skip limit l h

end CV.Props.C08

namespace CV.Props.C08
open CV

/-- **The builders normalise as documented** (`Model/QueryBuilder.lean` is what the driver builds every
    query with, so the correspondence ties it to `query.Skip/Limit/Sort`): a negative skip is
    ignored … -/
theorem skip_negative_ignored (q : Query) (n : Int) (h : n < 0) : q.skipB n = q := by
  unfold Query.skipB; simp [Int.not_le.2 h]

/-- … a negative limit means unlimited (the window is everything after `skip`) … -/
theorem limit_negative_unlimited (skip : Nat) (limit : Int) (h : limit < 0) (l : List Doc) :
    Spec.window skip limit l = l.drop skip := by simp [Spec.window, h]

/-- … `Sort()` without options orders by `_id` ascending … -/
theorem sort_default_by_id (q : Query) : (q.sortB []).sort = [(idField, 1)] := rfl

/-- … and every direction is normalised to 1 (zero or positive) or -1 (negative), whatever integer
    the caller supplied — so the comparator's `r * dir` cannot overflow or vanish. -/
theorem direction_normalised (q : Query) (opts : List (Bytes × Int)) :
    ∀ o ∈ (q.sortB opts).sort, o.2 = 1 ∨ o.2 = -1 := by
  intro o ho
  unfold Query.sortB at ho
  by_cases he : opts.isEmpty = true
  · simp only [he, if_true, List.mem_singleton] at ho; rw [ho]; exact Or.inl rfl
  · simp only [he, Bool.false_eq_true, if_false, normalizeSortOptions, List.mem_map] at ho
    obtain ⟨x, _, hx⟩ := ho
    rw [← hx]
    by_cases h0 : x.2 ≥ 0 <;> simp [h0]

theorem direction_sign (q : Query) (f : Bytes) (dir : Int) :
    (q.sortB [(f, dir)]).sort = [(f, if dir ≥ 0 then 1 else -1)] := rfl

/-- the builders are pure: they return a new query and cannot modify the one they were called on
    (functions on immutable values; `C07.no_receiver_writes` is the corresponding fact about the Go
    methods). -/
theorem builders_keep_other_fields (q : Query) (n : Int) (opts : List (Bytes × Int)) (c : Crit) :
    (q.limitB n).skip = q.skip ∧ (q.limitB n).sort = q.sort ∧ (q.limitB n).crit = q.crit ∧
    (q.sortB opts).skip = q.skip ∧ (q.sortB opts).limit = q.limit ∧ (q.sortB opts).crit = q.crit ∧
    (q.whereB c).skip = q.skip ∧ (q.whereB c).limit = q.limit ∧ (q.whereB c).sort = q.sort :=
  ⟨rfl, rfl, rfl, rfl, rfl, rfl, rfl, rfl, rfl⟩

/-- **Sorted and windowed answers are the specification's, position by position, up to ties** —
    for EVERY index set, EVERY plan the planner picks (full scan, index range, index-ordered scan with
    the sort node elided), every criteria, every sort and every skip/limit window: the fault-free
    answer of `FindAll` has the specification's length and its i-th document is tie-equivalent
    (`compareDocuments · · q.sort = 0`) to the specification's i-th document.  Two sorted
    arrangements of the same multiset can differ only inside tie classes
    (`sorted_perm_forall₂_tie`), and a positional window keeps that.  Domain: the key domain of the
    two known findings, sort keys pairwise comparable by value, and — only when the sort is served by
    an index — no matching document carries an explicit nil under the sort key (the one tie class
    where index order, which puts absent and nil together, differs from `compareDocuments`). -/
theorem findAll_is_the_specification_up_to_ties (s : Spec.State) (σ : KVS) (hw : WF s) (hr : Rep s σ) (q : Query)
    (coll : Spec.Coll) (hl : Spec.lookup q.coll s = some coll) (hdomain : KeyDomain q coll)
    (hsd : SortDom q.sort ((coll.docs.map (·.2)).filter (fun d => satOpt likeFn fnFam d q.crit)))
    (hnn : (choosePlan coll.indexes q).2 = true →
      ∀ o ∈ q.sort, ∀ d ∈ (coll.docs.map (·.2)).filter (fun d => satOpt likeFn fnFam d q.crit),
        d.has o.1 = true → d.get o.1 ≠ .null) :
    ∃ res, (withTx false (Op.body likeFn fnFam (.findAll q)) noFault σ).1 = .ok (.docs res) ∧
      List.Forall₂ (fun a b => compareDocuments a b q.sort = 0) res (Spec.findAll likeFn fnFam q coll) :=
  findAll_classwise_any_plan likeFn fnFam s σ hw hr q coll hl hdomain hsd hnn

/-- … read position by position: same length, and equal up to ties at every index. -/
theorem findAll_positions (s : Spec.State) (σ : KVS) (hw : WF s) (hr : Rep s σ) (q : Query)
    (coll : Spec.Coll) (hl : Spec.lookup q.coll s = some coll) (hdomain : KeyDomain q coll)
    (hsd : SortDom q.sort ((coll.docs.map (·.2)).filter (fun d => satOpt likeFn fnFam d q.crit)))
    (hnn : (choosePlan coll.indexes q).2 = true →
      ∀ o ∈ q.sort, ∀ d ∈ (coll.docs.map (·.2)).filter (fun d => satOpt likeFn fnFam d q.crit),
        d.has o.1 = true → d.get o.1 ≠ .null) :
    ∃ res, (withTx false (Op.body likeFn fnFam (.findAll q)) noFault σ).1 = .ok (.docs res) ∧
      res.length = (Spec.findAll likeFn fnFam q coll).length ∧
      ∀ i (h₁ : i < res.length) (h₂ : i < (Spec.findAll likeFn fnFam q coll).length),
        compareDocuments res[i] (Spec.findAll likeFn fnFam q coll)[i] q.sort = 0 := by
  obtain ⟨res, hrun, hf⟩ := findAll_classwise_any_plan likeFn fnFam s σ hw hr q coll hl hdomain hsd hnn
  exact ⟨res, hrun, forall₂_length _ hf, forall₂_getElem _ hf⟩

/-- **… and EXACTLY the specification's list when the sort order is total on the matching documents** (no ties:
    e.g. `_id` among the sort keys), for every plan, skip and limit. -/
theorem findAll_exact_when_order_total (s : Spec.State) (σ : KVS) (hw : WF s) (hr : Rep s σ) (q : Query)
    (coll : Spec.Coll) (hl : Spec.lookup q.coll s = some coll) (hdomain : KeyDomain q coll)
    (hsd : SortDom q.sort ((coll.docs.map (·.2)).filter (fun d => satOpt likeFn fnFam d q.crit)))
    (hnn : (choosePlan coll.indexes q).2 = true →
      ∀ o ∈ q.sort, ∀ d ∈ (coll.docs.map (·.2)).filter (fun d => satOpt likeFn fnFam d q.crit),
        d.has o.1 = true → d.get o.1 ≠ .null)
    (htot : TotalSort likeFn fnFam q coll) :
    (withTx false (Op.body likeFn fnFam (.findAll q)) noFault σ).1 = .ok (.docs (Spec.findAll likeFn fnFam q coll)) :=
  findAll_exact_total_any_plan likeFn fnFam s σ hw hr q coll hl hdomain hsd hnn htot

/-- **`FindFirst` under any plan** answers nothing exactly when the specification does, and otherwise
    a document tie-equivalent under the sort options to the specification's first document. -/
theorem findFirst_is_the_specification_up_to_ties (s : Spec.State) (σ : KVS) (hw : WF s) (hr : Rep s σ) (q : Query)
    (coll : Spec.Coll) (hl : Spec.lookup q.coll s = some coll) (hdomain : KeyDomain q coll)
    (hsd : SortDom q.sort ((coll.docs.map (·.2)).filter (fun d => satOpt likeFn fnFam d q.crit)))
    (hnn : (choosePlan coll.indexes q).2 = true →
      ∀ o ∈ q.sort, ∀ d ∈ (coll.docs.map (·.2)).filter (fun d => satOpt likeFn fnFam d q.crit),
        d.has o.1 = true → d.get o.1 ≠ .null) :
    ∃ r, (withTx false (Op.body likeFn fnFam (.findFirst q)) noFault σ).1 = .ok (.docOpt r) ∧
      ((r = none ∧ (Spec.findAll likeFn fnFam { q with limit := 1 } coll).head? = none) ∨
        ∃ a b, r = some a ∧ (Spec.findAll likeFn fnFam { q with limit := 1 } coll).head? = some b ∧
          compareDocuments a b q.sort = 0) :=
  findFirst_class_any_plan likeFn fnFam s σ hw hr q coll hl hdomain hsd hnn

/-- (translated, regenerated from the source on every run) **`Query.Skip` and `Query.Limit` (through `Query.copy`) as the
    current source writes them** are the model's builders: a negative skip is ignored, the limit is stored as given, the
    other fields are carried over - for every query and every integer. -/
theorem source_window_builders_are_the_models (g : Gen.GQuery) (n : Int) :
    Translated.toQ (Gen.Query_Skip g n) = (Translated.toQ g).skipB n ∧
    Translated.toQ (Gen.Query_Limit g n) = (Translated.toQ g).limitB n :=
  ⟨Translated.querySkip_eq g n, Translated.queryLimit_eq g n⟩

/-- (translated, regenerated from the source on every run) **`skipLimitNode.Callback` as the current source writes it**
    is the model's `emit`: skip while `skipped < skip`, hand on while the limit is negative or `consumed < limit`, stop
    otherwise - for every state of the counters and every skip / limit. -/
theorem source_skip_limit_is_the_models (q : Query) (stopAfter : Option Nat) (st : Pipe) (d : Doc)
    (h : (q.skip > 0 || q.limit ≥ 0) = true) :
    emit q stopAfter st d =
      match Gen.skipLimitNode_Callback ⟨st.skipped, st.consumed, q.skip, q.limit⟩ with
      | (nd, .cont) => ({ st with skipped := nd.skipped.toNat, consumed := nd.consumed.toNat }, .cont)
      | (nd, .call _) => consume stopAfter { st with skipped := nd.skipped.toNat, consumed := nd.consumed.toNat } d
      | (nd, .stop) => ({ st with skipped := nd.skipped.toNat, consumed := nd.consumed.toNat }, .stop) :=
  Translated.emit_eq_translated q stopAfter st d h

end CV.Props.C08

-- SOURCE-TEXT-BEGIN (generated by tools/mk_source_theorems.py; do not edit by hand)
namespace CV.Props.C08

/-- (facts, regenerated from the source on every run) **The source text the model transcribes is the text of the
    current source**: the bodies (comments and layout removed) of the 18 functions the model behind C08 was written from and
    validated against.  Any edit of one of them breaks this theorem at build time; the check then searches with the
    property's own oracles for a failing input, and reports `no-failing-input-found` if it finds none: the model then
    has to be re-validated against the new text (and this block regenerated). -/
theorem source_decision_logic : CV.Facts.logicC08 = [
  "clover..buildQueryPlan: { var inputNode inputNode var prevNode planNode itNode, isOutputSorted := tryToSelectIndex(q, indexes) if itNode == nil { itNode = &iterNode{ filter: q.Criteria(), collection: q.Collection(), } } inputNode = itNode prevNode = itNode if len(q.SortOptions()) > 0 && !isOutputSorted { nd := &sortNode{opts: q.SortOptions()} prevNode.SetNext(nd) prevNode = nd } if q.GetSkip() > 0 || q.GetLimit() >= 0 { nd := &skipLimitNode{skipped: 0, consumed: 0, skip: q.GetSkip(), limit: q.GetLimit()} prevNode.SetNext(nd) prevNode = nd } prevNode.SetNext(outputNode) return inputNode }", 
  "clover..compareDocuments: { for _, opt := range sortOpts { field := opt.Field direction := opt.Direction firstHas := first.Has(field) secondHas := second.Has(field) if !firstHas && secondHas { return -direction } if firstHas && !secondHas { return direction } if firstHas && secondHas { res := internal.Compare(first.Get(field), second.Get(field)) if res != 0 { return res * direction } } } return 0 }", 
  "clover..execPlan: { if err := nd.Run(tx); err != nil { return err } for curr := nd.(planNode); curr != nil; curr = curr.NextNode() { if err := curr.Finish(); err != nil { return err } } return nil }", 
  "clover.consumerNode.Callback: { return nd.consumer(doc) }", 
  "clover.planNodeBase.CallNext: { if nd.next != nil { return nd.next.Callback(doc) } return nil }", 
  "clover.planNodeBase.Callback: { return nil }", 
  "clover.planNodeBase.Finish: { return nil }", 
  "clover.planNodeBase.NextNode: { return nd.next }", 
  "clover.planNodeBase.SetNext: { nd.next = next }", 
  "clover.sortNode.Callback: { if nd.docs == nil { nd.docs = make([]*d.Document, 0) } nd.docs = append(nd.docs, doc) return nil }", 
  "clover.sortNode.Finish: { if nd.docs != nil { sort.Slice(nd.docs, func(i, j int) bool { return compareDocuments(nd.docs[i], nd.docs[j], nd.opts) < 0 }) for _, doc := range nd.docs { if err := nd.CallNext(doc); err != nil { if errors.Is(err, internal.ErrStopIteration) { return nil } return err } } } return nil }", 
  "query..normalizeSortOptions: { normOpts := make([]SortOption, 0, len(opts)) for _, opt := range opts { if opt.Direction >= 0 { normOpts = append(normOpts, SortOption{Field: opt.Field, Direction: 1}) } else { normOpts = append(normOpts, SortOption{Field: opt.Field, Direction: -1}) } } return normOpts }", 
  "query.Query.Collection: { return q.collection }", 
  "query.Query.Criteria: { return q.criteria }", 
  "query.Query.GetLimit: { return q.limit }", 
  "query.Query.GetSkip: { return q.skip }", 
  "query.Query.Sort: { if len(opts) == 0 { opts = []SortOption{{Field: d.ObjectIdField, Direction: 1}} } else { opts = normalizeSortOptions(opts) } newQuery := q.copy() newQuery.sortOpts = opts return newQuery }", 
  "query.Query.SortOptions: { return q.sortOpts }"] := by rfl

end CV.Props.C08
-- SOURCE-TEXT-END
