import Clover.Probe.PlannerProofs
import Clover.Probe.Scan
import Clover.Probe.ScanRev
import Clover.Probe.EntryBridge
/-! # C02 — index transparency (planner soundness and scan exactness) -/
namespace CV.Props.C02
open Pl

variable {V : Type} (O : VOrd V)

/-- Planner soundness, for every criteria tree: a document that satisfies the criteria lies inside
    the range the planner derives for any field (after negation push-down, with no range from a
    disjunction, a residual negation, a field reference or a nil ordering literal) — so an index
    range scan never drops a matching document. -/
theorem planner_sound (d : Doc V) (f : Field) (c : Crit V) (h : sat O d c = true) :
    covers O (fieldRange O f (flatten c)) (d.get f) = true := Pl.planner_sound O d f c h

/-- The forward range scan (seek, skip an excluded start, stop test) over the sorted entries of
    an index yields exactly the entries whose value is in range, in order. -/
theorem scan_forward_exact (r : Range V) (l : List (Entry V)) (hs : l.Pairwise (leE O)) :
    scanFwd O r l = l.filter (fun e => inScan O r e.1) := Pl.scanFwd_exact O r l hs

/-- The reverse range scan yields the same entries reversed. -/
theorem scan_reverse_exact (r : Range V) (l : List (Entry V)) (hs : l.Pairwise (leE O)) :
    scanRev O r l = (l.filter (fun e => inScan O r e.1)).reverse := Pl.scanRev_exact O r l hs

end CV.Props.C02
