import Clover.Proofs.BulkExact
import Clover.Generated.Facts
import Clover.Proofs.Translated
import Clover.Props.C17
import Clover.Proofs.PlannerModel
import Clover.Proofs.ReadsExact
import Clover.Proofs.CopyAnyPlan
/-! # C02 — index transparency (planner soundness + scan exactness, on the model's definitions) -/
namespace CV.Props.C02
open CV OC

variable (likeFn : LikeFn) (fnFam : FnFam)

/-- Planner soundness, for every criteria tree (any depth, every operator, literal / nil /
    field-reference operands): a document satisfying the criteria passes the bound tests of the
    range derived for ANY field by `fieldRange ∘ flatten` — the functions the plan is built with. -/
theorem planner_sound (d : Doc) (hd : AllNumKV numOK d) (c : Crit) (hc : CritOK c) (f : Bytes)
    (h : sat likeFn fnFam d c = true) :
    ∀ r, fieldRange f (flatten c) = some r → Pl.inScan vord r.abs (d.get f) = true :=
  planner_sound_model likeFn fnFam d hd c hc f h

/-- The single index query of a plan scans `fieldRange f (flatten c)` for the selected field. -/
theorem indexQuery_range (indexed : List Bytes) (c : Crit) (f : Bytes) (r : Range)
    (h : indexQuery indexed (some c) = some (f, r)) : fieldRange f (flatten c) = some r :=
  CV.indexQuery_range indexed c f r h

/-- Index transparency at the level of candidates: whatever the store around the index, if the
    plan chose the index on `f` with range `r`, every document that satisfies the criteria and
    has an entry in that index (under its current value, as C06 guarantees) is among the ids the
    range scan hands to the filter — in either direction. Since the filter is re-applied to every
    candidate (`iterateDocs`), the index can neither drop nor add a document. -/
theorem index_candidates_complete (c0 fld : Bytes) (pre post : KVS) (E : List IEntry) (indexed : List Bytes)
    (crit : Crit) (r : Range) (rev : Bool) (ctx : Ctx) (d : Doc) (id : Bytes)
    (hq : indexQuery indexed (some crit) = some (fld, r))
    (hd : AllNumKV numOK d) (hc : CritOK crit) (hsat : sat likeFn fnFam d crit = true)
    (hentry : (d.get fld, id) ∈ E)
    (hstore : ctx.work = pre ++ (block c0 fld E ++ post))
    (hpre : ∀ e ∈ pre, ∀ t, lexLt e.1 (Keys.idxPrefix c0 fld ++ t) = true)
    (hpost : ∀ e ∈ post, ∀ t, lexLt (Keys.idxPrefix c0 fld ++ t) e.1 = true)
    (hE : ∀ e ∈ E, Dom numOK e.1 ∧ IdOK e.2) (hrs : Dom numOK r.start) (hre : Dom numOK r.stop)
    (hsorted : E.Pairwise (Pl.leE vord)) :
    ∃ ctx' ids, (iterateRange c0 fld r rev collectAll []) noFault ctx = (.ok ids, ctx') ∧ id ∈ ids := by
  obtain ⟨ctx', ids, hrun, hids⟩ := C17.range_scan_exact c0 fld pre post E r rev ctx hstore hpre hpost hE hrs hre hsorted
  refine ⟨ctx', ids, hrun, ?_⟩
  have hin : Pl.inScan vord r.abs (d.get fld) = true :=
    planner_sound likeFn fnFam d hd crit hc fld hsat r (indexQuery_range indexed crit fld r hq)
  have hmem : (d.get fld, id) ∈ E.filter (C17.scanned r) := by
    simp [List.mem_filter, hentry, C17.scanned, hin]
  have : id ∈ ids.reverse := by
    rw [hids]
    cases rev with
    | false => simp only [Bool.false_eq_true, if_false]; exact List.mem_map.2 ⟨_, hmem, rfl⟩
    | true => simp only [if_true]; exact List.mem_map.2 ⟨_, List.mem_reverse.2 hmem, rfl⟩
  exact List.mem_reverse.1 this


/-- **The store really has the shape the scan theorems are stated for.**  In every store representing a
    well-formed abstract state, the entries of a catalogued index form one contiguous block
    `pre ++ (block c f E ++ post)` whose entry list `E` is a permutation of the (value, id) pairs of the
    collection's documents, in non-decreasing value order, everything else sorting strictly before or
    after every key of the block. -/
theorem index_block_shape (s : Spec.State) (w : KVS) (hw : WF s) (hr : Rep s w) (c : Bytes) (coll : Spec.Coll)
    (hl : Spec.lookup c s = some coll) (f : Bytes) (hf : f ∈ coll.indexes)
    (hdom : ∀ e ∈ coll.docs, Dom numOK (e.2.get f)) :
    ∃ pre post E, w = pre ++ (block c f E ++ post) ∧
      (∀ e ∈ pre, ∀ t, lexLt e.1 (Keys.idxPrefix c f ++ t) = true) ∧
      (∀ e ∈ post, ∀ t, lexLt (Keys.idxPrefix c f ++ t) e.1 = true) ∧
      (∀ e ∈ E, Dom numOK e.1 ∧ IdOK e.2) ∧ E.Pairwise (Pl.leE vord) ∧
      E.Perm (coll.docs.map (fun e => (e.2.get f, e.1))) :=
  store_shape s w hw hr c coll hl f hf hdom

/-- **Index transparency of `FindAll`, end to end on the model**: for every index set (created before,
    between or after the writes — the hypothesis is only that the store represents the abstract
    state, which `C06.inv_reachable` gives after any history), every criteria tree in the key domain and
    whichever plan the planner picks (index range, index order, full scan; either direction), a
    fault-free `FindAll(q)` without sort and window returns a permutation of the specification's
    answer, which does not mention indexes at all. -/
theorem findAll_index_transparent (s : Spec.State) (σ : KVS) (hw : WF s) (hr : Rep s σ) (q : Query)
    (coll : Spec.Coll) (hl : Spec.lookup q.coll s = some coll) (hdomain : KeyDomain q coll)
    (hskip : q.skip = 0) (hlimit : q.limit < 0) :
    ∃ res, (withTx false (Op.body likeFn fnFam (.findAll q)) noFault σ).1 = .ok (.docs res) ∧
      res.Perm (Spec.findAll likeFn fnFam q coll) :=
  findAll_exact_any_plan likeFn fnFam s σ hw hr q coll hl hdomain hskip hlimit

/-- **Index transparency of `Count`** (criteria present; any sort, skip and limit). -/
theorem count_index_transparent (s : Spec.State) (σ : KVS) (hw : WF s) (hr : Rep s σ) (q : Query) (cr : Crit)
    (hq : q.crit = some cr) (coll : Spec.Coll) (hl : Spec.lookup q.coll s = some coll) (hdomain : KeyDomain q coll) :
    (withTx false (Op.body likeFn fnFam (.count q)) noFault σ).1 = (Spec.step likeFn fnFam s (.count q)).1 :=
  count_exact_any_plan likeFn fnFam s σ hw hr q cr hq coll hl hdomain

/-- **Bulk writes through any plan** keep the invariant and leave the other collections untouched
    (`C03.selection_is_live_any_plan` says what they select). -/
theorem bulk_write_any_plan (s : Spec.State) (σ : KVS) (hw : WF s) (hr : Rep s σ) (q : Query) (u : Upd) :
    let r := withTx true (Op.body likeFn fnFam (.update q u)) noFault σ
    ∃ s', Rep s' r.2.1 ∧ WF s' ∧ ∀ c', c' ≠ q.coll → Spec.lookup c' s' = Spec.lookup c' s :=
  update_inv likeFn fnFam s σ hw hr q u

/-- The abstract statements the model-level ones are instances of (kept for reference). -/
theorem planner_sound_abstract {V : Type} (O : Pl.VOrd V) (d : Pl.Doc V) (f : Pl.Field) (c : Pl.Crit V)
    (h : Pl.sat O d c = true) : Pl.covers O (Pl.fieldRange O f (Pl.flatten c)) (d.get f) = true :=
  Pl.planner_sound O d f c h

end CV.Props.C02


namespace CV.Props.C02
open CV

variable (likeFn : LikeFn) (fnFam : FnFam)

/-- **Index transparency of bulk writes, end to end on the model.**  For every index set and whichever
    plan the planner picks, `Update(q, u)` / `UpdateFunc` with a query without skip/limit (any
    criteria, any sort) on the key domain: if the specification's step succeeds, the model rewrites a
    permutation of exactly `FindAll(q)` and the new store represents the specification's new state —
    which does not mention indexes; if it fails (an updater result that changes `_id` or is
    invalid), the model fails too and nothing changes. -/
theorem update_index_transparent (s : Spec.State) (σ : KVS) (hw : WF s) (hr : Rep s σ) (q : Query) (u : Upd)
    (coll : Spec.Coll) (hl : Spec.lookup q.coll s = some coll) (hdomain : KeyDomain q coll)
    (hskip : q.skip = 0) (hlimit : q.limit < 0) :
    let r := withTx true (Op.body likeFn fnFam (.update q u)) noFault σ
    let sp := Spec.step likeFn fnFam s (.update q u)
    (sp.1.isErr = true → r.1.isErr = true ∧ r.2.1 = σ) ∧
    (sp.1.isErr = false → ∃ sel, r.1 = .ok (.docs sel) ∧ sel.Perm (Spec.findAll likeFn fnFam q coll) ∧
      Rep sp.2 r.2.1 ∧ WF sp.2) :=
  update_exact_any_plan likeFn fnFam s σ hw hr q u coll hl hdomain hskip hlimit

/-- … and of `Delete(q)`, which never fails in its apply phase. -/
theorem delete_index_transparent (s : Spec.State) (σ : KVS) (hw : WF s) (hr : Rep s σ) (q : Query)
    (coll : Spec.Coll) (hl : Spec.lookup q.coll s = some coll) (hdomain : KeyDomain q coll)
    (hskip : q.skip = 0) (hlimit : q.limit < 0) :
    let r := withTx true (Op.body likeFn fnFam (.delete q)) noFault σ
    let sp := Spec.step likeFn fnFam s (.delete q)
    ∃ sel, r.1 = .ok (.docs sel) ∧ sel.Perm (Spec.findAll likeFn fnFam q coll) ∧ Rep sp.2 r.2.1 ∧ WF sp.2 :=
  delete_exact_any_plan_ok likeFn fnFam s σ hw hr q coll hl hdomain hskip hlimit

/-- … and of `CreateCollectionByQuery`: the copy made through ANY plan of the source's indexes is the
    specification's copy — same answer (also the errors: target exists, source missing, a stored
    document that `Validate` refuses), and the store represents the specification's next state.  The
    selected documents arrive in index order rather than id order; inserting documents with distinct
    ids into a sorted map commutes (`insertAll_perm_eq`). -/
theorem copy_index_transparent (s : Spec.State) (σ : KVS) (hw : WF s) (hr : Rep s σ) (c : Bytes)
    (hc : Keys.Clean c) (q : Query) (fresh : List Bytes)
    (hdomain : ∀ src, Spec.lookup q.coll (Spec.insert c ({} : Spec.Coll) s) = some src → KeyDomain q src)
    (hskip : q.skip = 0) (hlimit : q.limit < 0) :
    let r := withTx true (Op.body likeFn fnFam (.createCollectionByQuery c q fresh)) noFault σ
    let sp := Spec.step likeFn fnFam s (.createCollectionByQuery c q fresh)
    r.1 = sp.1 ∧ Rep sp.2 r.2.1 ∧ WF sp.2 :=
  createCollectionByQuery_exact_any_plan likeFn fnFam s σ hw hr c hc q fresh hdomain hskip hlimit

/-- (translated, regenerated from the source on every run) **the range of a conjunction, from the source alone**: for two
    comparisons on one indexed field, the range obtained by running the translated `unaryCriteriaToRange` on each and the
    translated `Range.Intersect` on the results is the model's `fieldRange` - the object `C02`'s and `C17`'s theorems
    reason about - for every pair of operators and operands. -/
theorem source_conjunction_range_is_the_models (op1 op2 : CmpOp) (f : Bytes) (x y : Operand) :
    (match Gen.unaryCriteriaToRange ⟨Translated.opName op1, f, x⟩, Gen.unaryCriteriaToRange ⟨Translated.opName op2, f, y⟩ with
     | some r, some r2 => some (Translated.toModel (Gen.Range_Intersect r r2))
     | some r, none => some (Translated.toModel r)
     | none, some r2 => some (Translated.toModel r2)
     | none, none => none)
    = fieldRange f (.and (.cmp op1 f x) (.cmp op2 f y)) :=
  Translated.source_conjunction_range op1 op2 f x y

/-- (translated, regenerated from the source on every run) **`removeNotCriteria` as the current source writes it** - how
    the planner pushes a negation into a comparison leaf before it looks for ranges - is the model's `negLeaf`:
    `not (f = x)` becomes `f < x or f > x`, `<` / `>=` and `<=` / `>` swap. -/
theorem source_negation_table_is_the_models (op : CmpOp) (f : Bytes) (x : Operand) :
    Translated.critOf (Gen.removeNotCriteria ⟨⟨Translated.opName op, f, x⟩⟩) = some (negLeaf op f x) :=
  Translated.removeNotCriteria_eq op f x

/-- (translated, regenerated from the source on every run) **`unaryCriteriaToRange` as the current source writes it** -
    the table that turns a comparison on the indexed field into the range the index is scanned over - is the model's
    `toRange`, for every operator and operand (field references and `$`-strings give no range, a nil bound only for
    equality); with `C17.source_ranges_are_the_models` (intersection, emptiness) this is the whole range derivation
    of the planner read off the source. -/
theorem source_range_derivation_is_the_models (op : CmpOp) (f : Bytes) (x : Operand) :
    (Gen.unaryCriteriaToRange ⟨Translated.opName op, f, x⟩).map Translated.toModel = toRange op x :=
  Translated.unaryCriteriaToRange_eq op f x

end CV.Props.C02

-- SOURCE-TEXT-BEGIN (generated by tools/mk_source_theorems.py; do not edit by hand)
namespace CV.Props.C02

/-- (facts, regenerated from the source on every run) **The source text the model transcribes is the text of the
    current source**: the bodies (comments and layout removed) of the 20 functions the model behind C02 was written from and
    validated against.  Any edit of one of them breaks this theorem at build time; the check then searches with the
    property's own oracles for a failing input, and reports `no-failing-input-found` if it finds none: the model then
    has to be re-validated against the new text (and this block regenerated). -/
theorem source_decision_logic : CV.Facts.logicC02 = [
  "clover..NewFieldRangeVisitor: { return &FieldRangeVisitor{ Fields: util.StringSliceToSet(fields), } }", 
  "clover..getIndexQueries: { if q.Criteria() == nil || len(indexes) == 0 { return nil } info := make(map[string]*index.Info) for _, idx := range indexes { info[idx.Field()] = &index.Info{ Field: idx.Field(), Type: idx.Type(), } } c := q.Criteria().Accept(&NotFlattenVisitor{}).(query.Criteria) selectedFields := c.Accept(&IndexSelectVisitor{ Fields: info, }).([]*index.Info) if len(selectedFields) == 0 { return nil } indexesMap := make(map[string]index.Index) for _, idx := range indexes { indexesMap[idx.Field()] = idx } fieldRanges := c.Accept(NewFieldRangeVisitor([]string{selectedFields[0].Field})).(map[string]*index.Range) queries := make([]index.Query, 0) for field, vRange := range fieldRanges { queries = append(queries, &index.RangeIndexQuery{ Range: vRange, Idx: indexesMap[field].(index.RangeIndex), }) } return queries }", 
  "clover..tryToSelectIndex: { indexQueries := getIndexQueries(q, indexes) if len(indexQueries) == 1 { outputSorted := false idxQuery := indexQueries[0] if rangeQuery, ok := idxQuery.(*index.RangeIndexQuery); ok { if len(q.SortOptions()) == 1 && q.SortOptions()[0].Field == rangeQuery.Idx.Field() { rangeQuery.Reverse = q.SortOptions()[0].Direction < 0 outputSorted = true } } return &iterNode{ idxQuery: idxQuery, filter: q.Criteria(), collection: q.Collection(), }, outputSorted } if len(q.SortOptions()) == 1 { for _, idx := range indexes { if idx.Type() == index.SingleField && idx.Field() == q.SortOptions()[0].Field { return &iterNode{ filter: q.Criteria(), collection: q.Collection(), idxQuery: &index.RangeIndexQuery{ Range: nil, Idx: idx.(index.RangeIndex), Reverse: q.SortOptions()[0].Direction < 0, }, }, true } } } return nil, false }", 
  "clover.FieldRangeVisitor.VisitBinaryCriteria: { if c.OpType != query.LogicalAnd { return map[string]*index.Range{} } leftRanges := c.C1.Accept(v).(map[string]*index.Range) rightRanges := c.C2.Accept(v).(map[string]*index.Range) mergedMap := make(map[string]*index.Range) for key, value := range leftRanges { mergedMap[key] = value } for key, value := range rightRanges { vRange := mergedMap[key] if vRange == nil { mergedMap[key] = value } else { mergedMap[key] = vRange.Intersect(value) } } return mergedMap }", 
  "clover.FieldRangeVisitor.VisitNotCriteria: { return map[string]*index.Range{} }", 
  "clover.FieldRangeVisitor.VisitUnaryCriteria: { if v.Fields[c.Field] { r := unaryCriteriaToRange(c) if r != nil { return map[string]*index.Range{c.Field: r} } } return map[string]*index.Range{} }", 
  "clover.IndexSelectVisitor.VisitBinaryCriteria: { leftIndexes := c.C1.Accept(v).([]*index.Info) rightIndexes := c.C2.Accept(v).([]*index.Info) if c.OpType == query.LogicalAnd { if len(leftIndexes) > 0 && len(leftIndexes) < len(rightIndexes) { return leftIndexes } return rightIndexes } if len(leftIndexes) == 0 || len(rightIndexes) == 0 { return []*index.Info{} } res := make([]*index.Info, 0, len(leftIndexes)+len(rightIndexes)) res = append(res, leftIndexes...) res = append(res, rightIndexes...) return res }", 
  "clover.IndexSelectVisitor.VisitNotCriteria: { return []*index.Info{} }", 
  "clover.IndexSelectVisitor.VisitUnaryCriteria: { info := v.Fields[c.Field] if info != nil { return []*index.Info{info} } return []*index.Info{} }", 
  "clover.NotFlattenVisitor.VisitBinaryCriteria: { return &query.BinaryCriteria{ OpType: c.OpType, C1: c.C1.Accept(v).(query.Criteria), C2: c.C2.Accept(v).(query.Criteria), } }", 
  "clover.NotFlattenVisitor.VisitNotCriteria: { switch criteriaType := c.C.(type) { case *query.UnaryCriteria: return v.removeNotCriteria(c) case *query.BinaryCriteria: opType := criteriaType.OpType if opType == query.LogicalAnd { opType = query.LogicalOr } else { opType = query.LogicalAnd } return &query.BinaryCriteria{ OpType: opType, C1: v.VisitNotCriteria(&query.NotCriteria{C: criteriaType.C1}).(query.Criteria), C2: v.VisitNotCriteria(&query.NotCriteria{C: criteriaType.C2}).(query.Criteria), } case *query.NotCriteria: return criteriaType.C } return c }", 
  "clover.NotFlattenVisitor.VisitUnaryCriteria: { return c }", 
  "clover.iterNode.Run: { if nd.idxQuery != nil { return nd.iterateIndex(tx) } return nd.iterateFullCollection(tx) }", 
  "clover.iterNode.iterateFullCollection: { prefix := []byte(getDocumentKeyPrefix(nd.collection)) return iteratePrefix(prefix, tx, func(item store.Item) error { doc, err := d.Decode(item.Value) if err != nil { return err } if nd.filter == nil || nd.filter.Satisfy(doc) { return nd.CallNext(doc) } return nil }) }", 
  "clover.iterNode.iterateIndex: { iterFunc := func(docId string) error { doc, err := getDocumentById(nd.collection, docId, tx) if err != nil || doc == nil { return err } if nd.filter == nil || nd.filter.Satisfy(doc) { return nd.CallNext(doc) } return nil } err := nd.idxQuery.Run(iterFunc) return err }", 
  "index.RangeIndexQuery.Run: { if q.Range == nil { return q.Idx.Iterate(q.Reverse, onValue) } return q.Idx.IterateRange(q.Range, q.Reverse, onValue) }", 
  "query.BinaryCriteria.Accept: { return v.VisitBinaryCriteria(c) }", 
  "query.NotCriteria.Accept: { return v.VisitNotCriteria(c) }", 
  "query.UnaryCriteria.Accept: { return v.VisitUnaryCriteria(c) }", 
  "util..StringSliceToSet: { set := make(map[string]bool) for _, str := range s { set[str] = true } return set }"] := by rfl

end CV.Props.C02
-- SOURCE-TEXT-END
