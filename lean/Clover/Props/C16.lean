import Clover.Model.Criteria
import Clover.Proofs.KindInvariance
/-! # C16 — criteria obey Boolean algebra and literal normalisation -/
namespace CV.Props.C16
open CV

variable (likeFn : LikeFn) (fnFam : FnFam)

theorem sat_not (d : Doc) (a : Crit) : sat likeFn fnFam d (.not a) = !sat likeFn fnFam d a := rfl
theorem sat_and (d : Doc) (a b : Crit) :
    sat likeFn fnFam d (.and a b) = (sat likeFn fnFam d a && sat likeFn fnFam d b) := rfl
theorem sat_or (d : Doc) (a b : Crit) :
    sat likeFn fnFam d (.or a b) = (sat likeFn fnFam d a || sat likeFn fnFam d b) := rfl

/-- De Morgan's laws and double negation hold for every document and all criteria. -/
theorem de_morgan_and (d : Doc) (a b : Crit) :
    sat likeFn fnFam d (.not (.and a b)) = sat likeFn fnFam d (.or (.not a) (.not b)) := by
  simp [sat, Bool.not_and]
theorem de_morgan_or (d : Doc) (a b : Crit) :
    sat likeFn fnFam d (.not (.or a b)) = sat likeFn fnFam d (.and (.not a) (.not b)) := by
  simp [sat, Bool.not_or]
theorem double_negation (d : Doc) (a : Crit) : sat likeFn fnFam d (.not (.not a)) = sat likeFn fnFam d a := by
  simp [sat]

/-- `Neq` is built as `Not(Eq)`, `NotExists` as `Not(Exists)`: their truth value is the negation. -/
theorem neq_is_not_eq (d : Doc) (f : Bytes) (x : Operand) :
    sat likeFn fnFam d (.not (.cmp .eq f x)) = !sat likeFn fnFam d (.cmp .eq f x) := rfl
theorem notExists_is_not_exists (d : Doc) (f : Bytes) :
    sat likeFn fnFam d (.not (.exists_ f)) = !sat likeFn fnFam d (.exists_ f) := rfl

/-- `Exists` means the field is present (even when nil). -/
theorem exists_iff_has (d : Doc) (f : Bytes) : sat likeFn fnFam d (.exists_ f) = d.has f := rfl

/-- `In` matches iff the field compares equal to one of the listed (dereferenced) values. -/
theorem in_iff (d : Doc) (f : Bytes) (xs : List Operand) :
    sat likeFn fnFam d (.isIn f xs) = true ↔ ∃ x ∈ xs, goCmp (deref d x) (d.get f) = 0 := by
  simp [sat, List.any_eq_true]

/-- `Contains` matches iff the field is an array holding an equal element for every listed value. -/
theorem contains_iff (d : Doc) (f : Bytes) (xs : List Operand) (ys : List Value) (h : d.get f = .arr ys) :
    sat likeFn fnFam d (.contains f xs) = true ↔ ∀ x ∈ xs, ∃ y ∈ ys, goCmp (deref d x) y = 0 := by
  simp [sat, h]

theorem contains_non_array (d : Doc) (f : Bytes) (xs : List Operand) (h : ∀ ys, d.get f ≠ .arr ys) :
    sat likeFn fnFam d (.contains f xs) = false := by
  unfold sat
  split
  · rename_i ys heq; exact absurd heq (h ys)
  · rfl

/-- `Field(name)` operands and `$name` strings are read from the document under test; a reference
    to an absent field reads nil. -/
theorem fieldref_reads_doc (d : Doc) (n : Bytes) : deref d (.ref n) = d.get n := rfl
theorem dollar_reads_doc (d : Doc) (n : Bytes) :
    deref d (.lit (.str (dollar :: n))) = d.get (trimDollars (dollar :: n)) := by
  simp [deref]
theorem absent_ref_is_nil (d : Doc) (n : Bytes) (h : d.has n = false) : deref d (.ref n) = .null := by
  simp only [deref, Doc.get]
  simp only [Doc.has] at h
  cases hg : getPath d (splitDots n) with
  | none => rfl
  | some v => simp [hg] at h

/-- An absent field fails `Eq` and `Exists`. -/
theorem absent_fails_eq (d : Doc) (f : Bytes) (x : Operand) (h : d.has f = false) :
    sat likeFn fnFam d (.cmp .eq f x) = false := by
  simp [sat, satCmp, h]

end CV.Props.C16

namespace CV.Props.C16
open CV

variable (likeFn : LikeFn) (fnFam : FnFam)

/-- **A literal yields the same result whatever Go numeric kind it was supplied as**: two criteria
    trees that differ only in the kind (int64 / uint64 / float64) of numerically equal literal
    operands — in comparisons, `In` and `Contains` lists, under any And/Or/Not — are satisfied by
    exactly the same documents (numbers within the exact domain). -/
theorem literal_kind_invariance (d : Doc) (hd : NumsOK (.obj d)) (c c' : Crit)
    (h : Crit.SameUpToKinds c c') (hc : c.LitsOK) (hc' : c'.LitsOK) :
    sat likeFn fnFam d c = sat likeFn fnFam d c' := sat_sameUpToKinds likeFn fnFam d hd h hc hc'

end CV.Props.C16
