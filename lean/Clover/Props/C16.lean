import Clover.Generated.Facts
import Clover.Proofs.Translated
import Clover.Proofs.TranslatedSat
import Clover.Model.Criteria
import Clover.Proofs.KindInvariance
/-! # C16 — criteria obey Boolean algebra and literal normalisation -/
namespace CV.Props.C16
open CV

variable (likeFn : LikeFn) (fnFam : FnFam)

theorem sat_not (d : Doc) (a : Crit) : sat likeFn fnFam d (.not a) = !sat likeFn fnFam d a := rfl
theorem sat_and (d : Doc) (a b : Crit) :
    sat likeFn fnFam d (.and a b) = (sat likeFn fnFam d a && sat likeFn fnFam d b) := rfl
theorem sat_or (d : Doc) (a b : Crit) :
    sat likeFn fnFam d (.or a b) = (sat likeFn fnFam d a || sat likeFn fnFam d b) := rfl

/-- De Morgan's laws and double negation hold for every document and all criteria. -/
theorem de_morgan_and (d : Doc) (a b : Crit) :
    sat likeFn fnFam d (.not (.and a b)) = sat likeFn fnFam d (.or (.not a) (.not b)) := by
  simp [sat, Bool.not_and]
theorem de_morgan_or (d : Doc) (a b : Crit) :
    sat likeFn fnFam d (.not (.or a b)) = sat likeFn fnFam d (.and (.not a) (.not b)) := by
  simp [sat, Bool.not_or]
theorem double_negation (d : Doc) (a : Crit) : sat likeFn fnFam d (.not (.not a)) = sat likeFn fnFam d a := by
  simp [sat]

/-- `Neq` is built as `Not(Eq)`, `NotExists` as `Not(Exists)`: their truth value is the negation. -/
theorem neq_is_not_eq (d : Doc) (f : Bytes) (x : Operand) :
    sat likeFn fnFam d (.not (.cmp .eq f x)) = !sat likeFn fnFam d (.cmp .eq f x) := rfl
theorem notExists_is_not_exists (d : Doc) (f : Bytes) :
    sat likeFn fnFam d (.not (.exists_ f)) = !sat likeFn fnFam d (.exists_ f) := rfl

/-- `Exists` means the field is present (even when nil). -/
theorem exists_iff_has (d : Doc) (f : Bytes) : sat likeFn fnFam d (.exists_ f) = d.has f := rfl

/-- `In` matches iff the field compares equal to one of the listed (dereferenced) values. -/
theorem in_iff (d : Doc) (f : Bytes) (xs : List Operand) :
    sat likeFn fnFam d (.isIn f xs) = true ↔ ∃ x ∈ xs, goCmp (deref d x) (d.get f) = 0 := by
  simp [sat, List.any_eq_true]

/-- `Contains` matches iff the field is an array holding an equal element for every listed value. -/
theorem contains_iff (d : Doc) (f : Bytes) (xs : List Operand) (ys : List Value) (h : d.get f = .arr ys) :
    sat likeFn fnFam d (.contains f xs) = true ↔ ∀ x ∈ xs, ∃ y ∈ ys, goCmp (deref d x) y = 0 := by
  simp [sat, h]

theorem contains_non_array (d : Doc) (f : Bytes) (xs : List Operand) (h : ∀ ys, d.get f ≠ .arr ys) :
    sat likeFn fnFam d (.contains f xs) = false := by
  unfold sat
  split
  · rename_i ys heq; exact absurd heq (h ys)
  · rfl

/-- `Field(name)` operands and `$name` strings are read from the document under test; a reference
    to an absent field reads nil. -/
theorem fieldref_reads_doc (d : Doc) (n : Bytes) : deref d (.ref n) = d.get n := rfl
theorem dollar_reads_doc (d : Doc) (n : Bytes) :
    deref d (.lit (.str (dollar :: n))) = d.get (trimDollars (dollar :: n)) := by
  simp [deref]
theorem absent_ref_is_nil (d : Doc) (n : Bytes) (h : d.has n = false) : deref d (.ref n) = .null := by
  simp only [deref, Doc.get]
  simp only [Doc.has] at h
  cases hg : getPath d (splitDots n) with
  | none => rfl
  | some v => simp [hg] at h

/-- An absent field fails `Eq` and `Exists`. -/
theorem absent_fails_eq (d : Doc) (f : Bytes) (x : Operand) (h : d.has f = false) :
    sat likeFn fnFam d (.cmp .eq f x) = false := by
  simp [sat, satCmp, h]

end CV.Props.C16

namespace CV.Props.C16
open CV

variable (likeFn : LikeFn) (fnFam : FnFam)

/-- **A literal yields the same result whatever Go numeric kind it was supplied as**: two criteria
    trees that differ only in the kind (int64 / uint64 / float64) of numerically equal literal
    operands — in comparisons, `In` and `Contains` lists, under any And/Or/Not — are satisfied by
    exactly the same documents (numbers within the exact domain). -/
theorem literal_kind_invariance (d : Doc) (hd : NumsOK (.obj d)) (c c' : Crit)
    (h : Crit.SameUpToKinds c c') (hc : c.LitsOK) (hc' : c'.LitsOK) :
    sat likeFn fnFam d c = sat likeFn fnFam d c' := sat_sameUpToKinds likeFn fnFam d hd h hc hc'

/-- (translated, regenerated from the source on every run) **Criteria evaluation, from the source alone**: a criterion
    built from Exists, the five comparisons, And, Or and Not, evaluated on a document by the translated source functions
    only (`Translated.srcSat`), answers what the model's `sat` answers - for every such criterion, of any depth, and
    every document; the source's `panic("unreachable code")` is never reached.  The Boolean laws proved above for `sat`
    are thereby laws of the code as it is written today. -/
theorem source_criteria_evaluation_is_the_models (likeFn : LikeFn) (fnFam : FnFam) (d : Doc) (c : Crit)
    (h : Translated.InFragment c) : Translated.srcSat d c = some (sat likeFn fnFam d c) :=
  Translated.srcSat_eq likeFn fnFam d c h

/-- the fragment is inhabited by the criteria one actually writes: `not (a >= 1 and (b = 2 or exists c))` -/
example : Translated.InFragment (.not (.and (.cmp .ge [97] (.lit (.num (.int 1))))
    (.or (.cmp .eq [98] (.lit (.num (.int 2)))) (.exists_ [99])))) := by
  simp [Translated.InFragment]

/-- (translated, regenerated from the source on every run) **the connectives as the current source evaluates them**:
    `BinaryCriteria.Satisfy` (and / or) and `NotCriteria.Satisfy`, with each sub-criterion standing for its answer on the
    document, are the model's `sat` on `.and`, `.or`, `.not` - the Boolean algebra of C16 rests on exactly these. -/
theorem source_connectives_are_the_models (likeFn : LikeFn) (fnFam : FnFam) (d : Doc) (a b : Crit) :
    Gen.BinaryCriteria_Satisfy ⟨"LogicalAnd", sat likeFn fnFam d a, sat likeFn fnFam d b⟩ = sat likeFn fnFam d (.and a b) ∧
    Gen.BinaryCriteria_Satisfy ⟨"LogicalOr", sat likeFn fnFam d a, sat likeFn fnFam d b⟩ = sat likeFn fnFam d (.or a b) ∧
    Gen.NotCriteria_Satisfy ⟨sat likeFn fnFam d a⟩ = sat likeFn fnFam d (.not a) :=
  ⟨(Translated.binarySatisfy_eq likeFn fnFam d a b).1, (Translated.binarySatisfy_eq likeFn fnFam d a b).2,
   Translated.notSatisfy_eq likeFn fnFam d a⟩

/-- (translated, regenerated from the source on every run) **the comparison criteria as the current source evaluates
    them**: `UnaryCriteria.compare` (Gt / GtEq / Lt / LtEq; its `panic` is not reached for these operators),
    `UnaryCriteria.eq` and `UnaryCriteria.exist`, translated statement by statement, are the model's `satCmp` and
    `Doc.has` - for every document, field and operand (a literal or a field reference). -/
theorem source_comparison_criteria_are_the_models (f : Bytes) (x : Operand) (d : Doc) :
    (∀ op : CmpOp, op ≠ .eq → Gen.UnaryCriteria_compare ⟨Translated.opName op, f, x⟩ d = some (satCmp d op f x)) ∧
    Gen.UnaryCriteria_eq ⟨Translated.opName .eq, f, x⟩ d = satCmp d .eq f x ∧
    (∀ op : String, Gen.UnaryCriteria_exist ⟨op, f, x⟩ d = d.has f) :=
  ⟨fun op hop => Translated.unaryCompare_eq op hop f x d, Translated.unaryEq_eq f x d,
   fun op => Translated.unaryExist_eq op f x d⟩

end CV.Props.C16

-- SOURCE-TEXT-BEGIN (generated by tools/mk_source_theorems.py; do not edit by hand)
namespace CV.Props.C16

/-- (facts, regenerated from the source on every run) **The source text the model transcribes is the text of the
    current source**: the bodies (comments and layout removed) of the 45 functions the model behind C16 was written from and
    validated against.  Any edit of one of them breaks this theorem at build time; the check then searches with the
    property's own oracles for a failing input, and reports `no-failing-input-found` if it finds none: the model then
    has to be re-validated against the new text (and this block regenerated). -/
theorem source_decision_logic : CV.Facts.logicC16 = [
  "clover..isFieldReference: { s, isStr := v.(string) return query.IsField(v) || (isStr && strings.HasPrefix(s, \"$\")) }", 
  "clover..normalizeCriteria: { if q.Criteria() != nil { v := &CriteriaNormalizeVisitor{} c := q.Criteria().Accept(v) if v.err != nil { return nil, v.err } q = q.Where(c.(query.Criteria)) } return q, nil }", 
  "clover..normalizeOperand: { if query.IsField(value) { return value, nil } elems, isSlice := value.([]interface{}) if !isList || !isSlice { return internal.Normalize(value) } normElems := make([]interface{}, 0, len(elems)) for _, elem := range elems { normElem, err := normalizeOperand(elem, false) if err != nil { return nil, err } normElems = append(normElems, normElem) } return normElems, nil }", 
  "clover.CriteriaNormalizeVisitor.VisitBinaryCriteria: { leftRes := c.C1.Accept(v) rightRes := c.C2.Accept(v) if leftRes == nil || rightRes == nil { return nil } return &query.BinaryCriteria{ OpType: c.OpType, C1: leftRes.(query.Criteria), C2: rightRes.(query.Criteria), } }", 
  "clover.CriteriaNormalizeVisitor.VisitNotCriteria: { res := c.C.Accept(v) if res == nil { return nil } return &query.NotCriteria{C: res.(query.Criteria)} }", 
  "clover.CriteriaNormalizeVisitor.VisitUnaryCriteria: { normValue := c.Value if c.OpType != query.FunctionOp { var err error normValue, err = normalizeOperand(c.Value, c.OpType == query.InOp || c.OpType == query.ContainsOp) if err != nil { v.err = err return nil } } return &query.UnaryCriteria{ Field: c.Field, OpType: c.OpType, Value: normValue, } }", 
  "query..Field: { return &field{name: name} }", 
  "query..IsField: { _, ok := v.(*field) return ok }", 
  "query..NewQuery: { return &Query{ collection: collection, criteria: nil, limit: -1, skip: 0, sortOpts: nil, } }", 
  "query..and: { return &BinaryCriteria{ OpType: LogicalAnd, C1: c1, C2: c2, } }", 
  "query..getFieldOrValue: { if cmpField, ok := value.(*field); ok { value = doc.Get(cmpField.name) } else if fStr, ok := value.(string); ok && strings.HasPrefix(fStr, \"$\") { fieldName := strings.TrimLeft(fStr, \"$\") value = doc.Get(fieldName) } return value }", 
  "query..newCriteria: { return &UnaryCriteria{ OpType: opType, Field: field, Value: value, } }", 
  "query..not: { return &NotCriteria{c} }", 
  "query..or: { return &BinaryCriteria{ OpType: LogicalOr, C1: c1, C2: c2, } }", 
  "query.BinaryCriteria.And: { return and(c, other) }", 
  "query.BinaryCriteria.Not: { return not(c) }", 
  "query.BinaryCriteria.Or: { return or(c, other) }", 
  "query.NotCriteria.And: { return and(c, other) }", 
  "query.NotCriteria.Not: { return not(c) }", 
  "query.NotCriteria.Or: { return or(c, other) }", 
  "query.Query.MatchFunc: { return q.Where(newCriteria(FunctionOp, \"\", p)) }", 
  "query.Query.Where: { newQuery := q.copy() newQuery.criteria = c return newQuery }", 
  "query.Query.satisfy: { if q.criteria == nil { return true } return q.criteria.Satisfy(doc) }", 
  "query.UnaryCriteria.And: { return and(c, other) }", 
  "query.UnaryCriteria.Not: { return not(c) }", 
  "query.UnaryCriteria.Or: { return or(c, other) }", 
  "query.UnaryCriteria.Satisfy: { switch c.OpType { case ExistsOp: return c.exist(doc) case EqOp: return c.eq(doc) case LikeOp: return c.like(doc) case InOp: return c.in(doc) case GtOp, GtEqOp, LtOp, LtEqOp: return c.compare(doc) case ContainsOp: return c.contains(doc) case FunctionOp: return c.Value.(func(*d.Document) bool)(doc) } return false }", 
  "query.UnaryCriteria.contains: { elems := c.Value.([]interface{}) fieldValue := doc.Get(c.Field) slice, _ := fieldValue.([]interface{}) if fieldValue == nil || slice == nil { return false } for _, elem := range elems { found := false actualValue, err := internal.Normalize(getFieldOrValue(doc, elem)) if err != nil { return false } for _, val := range slice { if internal.Compare(actualValue, val) == 0 { found = true break } } if !found { return false } } return true }", 
  "query.UnaryCriteria.in: { values := c.Value.([]interface{}) docValue := doc.Get(c.Field) for _, value := range values { actualValue, err := internal.Normalize(getFieldOrValue(doc, value)) if err == nil && internal.Compare(actualValue, docValue) == 0 { return true } } return false }", 
  "query.UnaryCriteria.like: { pattern := c.Value.(string) s, isString := doc.Get(c.Field).(string) if !isString { return false } matched, err := regexp.MatchString(pattern, s) return matched && err == nil }", 
  "query.field.Contains: { return newCriteria(ContainsOp, f.name, elems) }", 
  "query.field.Eq: { return newCriteria(EqOp, f.name, value) }", 
  "query.field.Exists: { return newCriteria(ExistsOp, f.name, nil) }", 
  "query.field.Gt: { return newCriteria(GtOp, f.name, value) }", 
  "query.field.GtEq: { return newCriteria(GtEqOp, f.name, value) }", 
  "query.field.In: { return newCriteria(InOp, f.name, values) }", 
  "query.field.IsFalse: { return f.Eq(false) }", 
  "query.field.IsNil: { return f.Eq(nil) }", 
  "query.field.IsNilOrNotExists: { return f.IsNil().Or(f.NotExists()) }", 
  "query.field.IsTrue: { return f.Eq(true) }", 
  "query.field.Like: { return newCriteria(LikeOp, f.name, pattern) }", 
  "query.field.Lt: { return newCriteria(LtOp, f.name, value) }", 
  "query.field.LtEq: { return newCriteria(LtEqOp, f.name, value) }", 
  "query.field.Neq: { return f.Eq(value).Not() }", 
  "query.field.NotExists: { return newCriteria(ExistsOp, f.name, nil).Not() }"] := by rfl

end CV.Props.C16
-- SOURCE-TEXT-END
