import Clover.Proofs.Crash
import Clover.Generated.Facts
import Clover.Props.C04
/-! # C05 — acknowledged operations survive close/reopen/crash atomically

Logical core: (a) every public write of the *source* opens exactly one store transaction, defers
its rollback and commits at most once (facts regenerated from /repo on every run); (b) in the
model — whose store-call traces are compared call by call with the real code — the committed
state is only ever replaced by the working copy of a body that ran to completion and whose commit
succeeded, so an abandoned transaction (crash, fault) leaves the pre-state and a completed one the
post-state; (c) indexes, counts and catalog live in the same key space and transaction (C06).
Outside the theorem (named): durability under power loss — whether fsync reaches the medium — and
the internal recovery of bbolt/badger. -/
namespace CV.Props.C05
open CV CV.Facts

/-- a function that begins a transaction begins exactly one, defers exactly one Rollback, commits at
    most once (never in a read transaction) and calls no other transaction-opening function;
    a function that begins none neither commits nor rolls back -/
def wellFormedTx (m : Method) : Bool :=
  if m.beginW + m.beginR > 0 then
    m.beginW + m.beginR == 1 && m.deferRollback == 1 && m.commits ≤ 1 &&
      (m.beginR == 0 || m.commits == 0) && m.txCallees.isEmpty
  else m.deferRollback == 0 && m.commits == 0

/-- (facts) every transaction-opening function of the current source is well formed -/
theorem source_one_tx_per_function : methods.all wellFormedTx = true := by decide

/-- (facts) the wrappers — public calls that open no transaction themselves — and what they call.
    `Save` and `Count` choose ONE of their callees; `ExportCollection` runs two read transactions
    (`HasCollection`, `FindAll`) and writes nothing; everything else is a single transaction. -/
def expectedWrappers : List (String × List String) :=
  [("CreateCollectionByQuery", ["createCollectionWith"]), ("Save", ["Insert", "ReplaceById"]), ("InsertOne", ["Insert"]),
   ("FindAll", ["IterateDocs"]), ("FindFirst", ["FindAll"]), ("ForEach", ["IterateDocs"]),
   ("Count", ["IterateDocs", "countCollection"]), ("countCollection", ["getCollectionSize"]), ("Exists", ["FindFirst"]),
   ("ReplaceById", ["UpdateById"]), ("Update", ["UpdateFunc"]), ("CreateIndex", ["createIndex"]),
   ("ExportCollection", ["FindAll", "HasCollection"]), ("ImportCollection", ["createCollectionWith"])]

theorem source_wrappers :
    (methods.filter (fun m => m.beginW + m.beginR == 0)).map (fun m => (m.name, m.txCallees)) = expectedWrappers := by
  decide

/-- (facts) the write operations of the source: one write transaction, one commit -/
def expectedWriters : List String :=
  ["CreateCollection", "createCollectionWith", "DropCollection", "Insert", "DeleteById", "UpdateById", "UpdateFunc",
   "Delete", "createIndex", "DropIndex"]

theorem source_writers :
    (methods.filter (fun m => m.beginW == 1 && m.commits == 1)).map (·.name) = expectedWriters := by decide

/-- (facts, regenerated from the source on every run) **A transaction can be asked for nothing but `Set`, `Get`, `Delete`,
    `Cursor`, `Commit`, `Rollback`**: package `store` declares these three interfaces and no other - in particular no
    optional interface through which an adapter could be asked to write outside the transaction (a range drop, a
    batch writer): "one store transaction per public write, committed once" covers every write there is. -/
theorem store_interfaces_are_the_reviewed_ones : storeInterfaces =
    ["Cursor: Seek Next Valid Item Close", "Store: Begin Close", "Tx: Set Get Delete Cursor Commit Rollback"] := by decide

/-- (facts) bbolt is opened with default options: fsync on commit, no NoSync / NoFreelistSync -/
theorem bbolt_default_options : boltOpenArgs.getLast? = some "nil" := by decide

/-- (model) The committed store changes only through a body that completed and a commit that
    succeeded: whatever happens before that — a store fault, an abandoned transaction, a crash of
    the process — leaves exactly the pre-state; afterwards it is exactly the post-state. -/
theorem commit_is_the_only_publication {α} (w : Bool) (body : StoreM α) (φ : Faults) (σ : KVS) :
    (withTx w body φ σ).2.1 = σ ∨
    ∃ a c, body φ ⟨σ, 1, false, [.begin w], false⟩ = (.ok a, c) ∧ φ c.tick = false ∧
      (withTx w body φ σ).2.1 = c.work ∧ (withTx w body φ σ).1 = .ok a := by
  unfold withTx
  by_cases h0 : φ 0 = true
  · simp [h0]
  · simp only [h0, Bool.false_eq_true, if_false]
    cases hb : body φ ⟨σ, 1, false, [.begin w], false⟩ with
    | mk r c =>
      cases r with
      | err e => simp
      | ok a =>
        simp only
        by_cases hw : (w && !c.skipCommit) = true
        · simp only [hw, if_true]
          by_cases hc : φ c.tick = true
          · simp [hc]
          · simp only [hc, Bool.false_eq_true, if_false]
            exact Or.inr ⟨a, c, rfl, by simpa using hc, rfl, rfl⟩
        · simp [hw]

/-- (model) an operation that reports success through a write transaction did commit: its effect
    is the working copy of its completed body — nothing is acknowledged before it is published. -/
theorem failed_or_published (op : Op) (σ : DBState) (φ : Faults) (likeFn : LikeFn) (fnFam : FnFam)
    (h : (op.run likeFn fnFam σ φ).out.isErr = true) : (op.run likeFn fnFam σ φ).state = σ :=
  C04.failed_op_no_trace likeFn fnFam op σ φ h

end CV.Props.C05

namespace CV.Props.C05
open CV

variable (likeFn : LikeFn) (fnFam : FnFam)

/-- **Crash atomicity of one call.**  Assuming the store's commit is atomic and durable (the trusted
    base: bbolt / badger), whenever the process dies — after any number `k` of the store calls the
    operation makes — the durable store is the store before the call or the store the completed call
    leaves; nothing in between, for every operation, state and fault schedule. -/
theorem crash_atomic (k : Nat) (op : Op) (σ : DBState) (φ : Faults) :
    durableAfterCrash likeFn fnFam k op σ φ ∈ CrashOutcomes likeFn fnFam op σ φ :=
  CV.crash_atomic likeFn fnFam k op σ φ

/-- **Acknowledged operations survive**: if the process dies during the (j+1)-th call of a history,
    the durable store is the store after the first `j` calls (all acknowledged ones are in) or
    after the first `j+1` calls (the in-flight one is all or nothing) … -/
theorem acknowledged_survive (h : List (Op × Faults)) (j k : Nat) (hj : j < h.length) :
    crashHistory likeFn fnFam h j k = (runHistory likeFn fnFam (h.take j) {}).kv ∨
    crashHistory likeFn fnFam h j k = (runHistory likeFn fnFam (h.take (j + 1)) {}).kv :=
  CV.acknowledged_survive likeFn fnFam h j k hj

/-- … and a call that had returned (all its store calls made) is in. -/
theorem returned_survives (h : List (Op × Faults)) (j k : Nat) (hj : j < h.length)
    (hk : (h[j]).1.ticks likeFn fnFam (runHistory likeFn fnFam (h.take j) {}) (h[j]).2 ≤ k) :
    crashHistory likeFn fnFam h j k = (runHistory likeFn fnFam (h.take (j + 1)) {}).kv :=
  CV.returned_survive likeFn fnFam h j k hj hk

/-- **Whatever the crash point, the recovered store is consistent** (satisfies C06's invariant):
    documents, index entries and counters agree without any rebuild. -/
theorem recovered_state_is_consistent (h : List (Op × Faults)) (hok : ∀ p ∈ h, OpOK p.1) (j k : Nat) :
    Inv (crashHistory likeFn fnFam h j k) := recovered_inv likeFn fnFam h hok j k

/-- **Close and reopen change nothing**: every later history behaves on the reopened handle as on the
    original one (and a closed handle refuses every operation, `C20.closed_handle_errors`). -/
theorem reopen_is_identity (h : List (Op × Faults)) (σ : DBState) (hopen : σ.closed = false) :
    runHistory likeFn fnFam h σ.close.reopen = runHistory likeFn fnFam h σ :=
  reopen_history likeFn fnFam h σ hopen

end CV.Props.C05

-- SOURCE-TEXT-BEGIN (generated by tools/mk_source_theorems.py; do not edit by hand)
namespace CV.Props.C05

/-- (facts, regenerated from the source on every run) **The source text the model transcribes is the text of the
    current source**: the bodies (comments and layout removed) of the 14 functions the model behind C05 was written from and
    validated against.  Any edit of one of them breaks this theorem at build time; the check then searches with the
    property's own oracles for a failing input, and reports `no-failing-input-found` if it finds none: the model then
    has to be re-validated against the new text (and this block regenerated). -/
theorem source_decision_logic : CV.Facts.logicC05 = [
  "badger..Open: { return OpenWithOptions(badger.DefaultOptions(dir)) }", 
  "badger..OpenWithOptions: { db, err := badger.Open(opts) if err != nil && !opts.InMemory && !opts.ReadOnly && strings.Contains(err.Error(), \"while opening memtables\") { db, err = badger.Open(opts) } if err != nil { return nil, err } dataStore := &badgerStore{ db: db, chQuit: make(chan struct{}, 1), } dataStore.startGC() return dataStore, nil }", 
  "badger.badgerStore.Close: { store.stopGC() return store.db.Close() }", 
  "badger.badgerStore.startGC: { store.chWg.Add(1) go func() { defer store.chWg.Done() ticker := time.NewTicker(GCReclaimInterval) defer ticker.Stop() for { select { case <-store.chQuit: return case <-ticker.C: err := store.db.RunValueLogGC(GCDiscardRatio) if err != nil && errors.Is(err, badger.ErrNoRewrite) { log.Printf(\"RunValueLogGC(): %s\\n\", err.Error()) } } } }() }", 
  "badger.badgerStore.stopGC: { store.chQuit <- struct{}{} store.chWg.Wait() close(store.chQuit) }", 
  "bbolt..Open: { db, err := bbolt.Open(filepath.Join(dir, dbFileName), 0600, nil) if err != nil { return nil, err } dataStore := &boltStore{db: db} err = dataStore.createRootBucketIfNotExists() return dataStore, err }", 
  "bbolt.boltStore.Close: { return store.db.Close() }", 
  "bbolt.boltStore.createRootBucketIfNotExists: { tx, err := store.db.Begin(true) if err != nil { return err } defer tx.Rollback() _, err = tx.CreateBucketIfNotExists([]byte(rootBucket)) if err != nil { return err } return tx.Commit() }", 
  "clover..Open: { dataStore, err := bbolt.Open(dir) if err != nil { return nil, err } return OpenWithStore(dataStore) }", 
  "clover..OpenWithStore: { return &DB{store: store}, nil }", 
  "clover.DB.Close: { if atomic.CompareAndSwapUint32(&db.closed, 0, 1) { return db.store.Close() } return nil }", 
  "index.rangeIndex.Add: { encodedKey, err := idx.encodeValueAndId(v, docId) if err != nil { return err } return idx.tx.Set(encodedKey, nil) }", 
  "index.rangeIndex.Drop: { cursor, err := idx.tx.Cursor(true) if err != nil { return err } defer cursor.Close() prefix := idx.getKeyPrefix() cursor.Seek(prefix) for ; cursor.Valid(); cursor.Next() { item, err := cursor.Item() if err != nil { return err } if !bytes.HasPrefix(item.Key, prefix) { return nil } if err := idx.tx.Delete(item.Key); err != nil { return err } } return nil }", 
  "index.rangeIndex.Remove: { encodedKey, err := idx.encodeValueAndId(value, docId) if err != nil { return err } return idx.tx.Delete(encodedKey) }"] := by rfl

end CV.Props.C05
-- SOURCE-TEXT-END
