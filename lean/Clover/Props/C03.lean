import Clover.Generated.Facts
import Clover.Proofs.TotalOrder
import Clover.Proofs.BulkExact
import Clover.Spec.Spec
import Clover.Proofs.RefineBulkAny
/-! # C03 — bulk update/delete touch exactly the matched documents, once each -/
namespace CV.Props.C03
open CV CV.Spec

theorem lookup_insert {α} (k k' : Bytes) (v : α) (m : List (Bytes × α)) :
    lookup k' (Spec.insert k v m) = if k' = k then some v else lookup k' m := by
  induction m with
  | nil => simp [Spec.insert, lookup]
  | cons e t ih =>
    obtain ⟨k2, v2⟩ := e
    simp only [Spec.insert]
    split
    · simp only [lookup]
    · split
      · subst_vars; simp only [lookup]; split <;> rfl
      · simp only [lookup, ih]; split <;> split <;> simp_all

theorem lookup_erase_ne {α} (k k' : Bytes) (h : k' ≠ k) (m : List (Bytes × α)) :
    lookup k' (erase k m) = lookup k' m := by
  induction m with
  | nil => simp [erase, lookup]
  | cons e t ih =>
    obtain ⟨k2, v2⟩ := e
    simp only [erase]
    split
    · subst_vars; simp [lookup, h]
    · simp only [lookup, ih]

/-- In the specification, a bulk update or delete never touches a document outside the selection:
    for every updater, every selection and every id not selected, the stored document is unchanged. -/
theorem applyAll_frame (u : Upd) : (docs : List (Bytes × Doc)) → (sel : List Doc) → (docs' : List (Bytes × Doc)) →
    applyAll u docs sel = .ok docs' → ∀ id, (∀ d ∈ sel, d.objectId ≠ id) →
    lookup id docs' = lookup id docs
  | docs, [], docs', h, id, _ => by
    simp only [applyAll, Res.ok.injEq] at h; rw [h]
  | docs, d :: ds, docs', h, id, hsel => by
    simp only [applyAll] at h
    have hid : d.objectId ≠ id := hsel d (by simp)
    have hrest : ∀ d' ∈ ds, d'.objectId ≠ id := fun d' hd => hsel d' (by simp [hd])
    split at h
    · rw [applyAll_frame u _ ds docs' h id hrest, lookup_erase_ne _ _ (Ne.symm hid)]
    · split at h
      · simp at h
      · split at h
        · simp at h
        · rw [applyAll_frame u _ ds docs' h id hrest, lookup_insert]
          simp [Ne.symm hid]

end CV.Props.C03

namespace CV.Props.C03
open CV

variable (likeFn : LikeFn) (fnFam : FnFam)

/-- **The apply phase of every bulk write** (Update, UpdateFunc, Delete, DropCollection), for every
    collection size, index set and updater: started on a store holding the documents `docs`, given
    ANY selection of live documents with distinct ids, it runs the updater on each selected document
    exactly once, on its pre-call value, and leaves a store holding exactly
    `Spec.applyAll u docs sel` — the selected documents replaced or removed, their index entries
    moved, every other key untouched; or it fails with the specification's error. -/
theorem apply_phase_exact (c : Bytes) (hc : Keys.Clean c) (idxs : List Bytes) (u : Upd)
    (sel : List Doc) (docs : List (Bytes × Doc)) (n : Nat) (ctx : Ctx)
    (hs : KSorted ctx.work) (hd : DataRep c idxs docs ctx.work) (hso : Spec.KeysSorted docs) (hid : IdsWF docs)
    (hl : Live docs sel) :
    match Spec.applyAll u docs sel with
    | .ok docs' => ∃ c', (applyLoop c idxs u n sel) noFault ctx = (.ok (n + delCount u sel), c') ∧
        ApplyPost c idxs docs ctx docs' (delCount u sel) c'
    | .err e => ∃ c', (applyLoop c idxs u n sel) noFault ctx = (.err e, c') :=
  applyLoop_run c hc idxs u sel docs n ctx hs hd hso hid hl

/-- **Update / UpdateFunc refine the specification** whenever the plan is a full scan (in particular
    on every collection without indexes, and for every query without criteria and sort): the
    documents handed to the updater are exactly `FindAll(q)` immediately before the call, in that
    order, and the new store represents the specification's new state. -/
theorem update_exact (s : Spec.State) (σ : KVS) (hw : WF s) (hr : Rep s σ) (q : Query) (u : Upd)
    (coll : Spec.Coll) (hl : Spec.lookup q.coll s = some coll) (hplan : choosePlan coll.indexes q = (.full, false)) :
    let r := withTx true (Op.body likeFn fnFam (.update q u)) noFault σ
    let sp := Spec.step likeFn fnFam s (.update q u)
    r.1 = sp.1 ∧ Rep sp.2 r.2.1 ∧ WF sp.2 := update_refines_fullscan likeFn fnFam s σ hw hr q u coll hl hplan

theorem delete_exact (s : Spec.State) (σ : KVS) (hw : WF s) (hr : Rep s σ) (q : Query)
    (coll : Spec.Coll) (hl : Spec.lookup q.coll s = some coll) (hplan : choosePlan coll.indexes q = (.full, false)) :
    let r := withTx true (Op.body likeFn fnFam (.delete q)) noFault σ
    let sp := Spec.step likeFn fnFam s (.delete q)
    r.1 = sp.1 ∧ Rep sp.2 r.2.1 ∧ WF sp.2 := delete_refines_fullscan likeFn fnFam s σ hw hr q coll hl hplan

/-- **Whatever plan is chosen** (index range, index order, full scan; forward or reverse), the
    selection a bulk write applies is a list of live documents of the collection, each at most once
    — so no document is rewritten twice and none outside the collection is touched. -/
theorem selection_is_live_any_plan (s : Spec.State) (w : KVS) (hw : WF s) (hr : Rep s w) (q : Query)
    (coll : Spec.Coll) (hl : Spec.lookup q.coll s = some coll) :
    Live coll.docs (selectionOf likeFn fnFam w q coll) := selectionOf_live likeFn fnFam s w hw hr q coll hl

/-- **DropCollection removes every document** (and every index entry and the catalog record). -/
theorem dropCollection_removes_all (s : Spec.State) (σ : KVS) (hw : WF s) (hr : Rep s σ) (c : Bytes) :
    let r := withTx true (Op.body likeFn fnFam (.dropCollection c)) noFault σ
    let sp := Spec.step likeFn fnFam s (.dropCollection c)
    r.1 = sp.1 ∧ Rep sp.2 r.2.1 ∧ WF sp.2 := dropCollection_refines likeFn fnFam s σ hw hr c

end CV.Props.C03

namespace CV.Props.C03
open CV

/-- **The result of a bulk write does not depend on the order in which the selected documents are
    visited** (index order, id order, sorted order): for permuted selections of live documents with
    distinct ids the specification's apply phase succeeds for one iff for the other, with the same
    resulting documents. -/
theorem bulk_write_order_independent (u : Upd) (docs : List (Bytes × Doc)) (hs : Spec.KeysSorted docs) (sel sel' : List Doc)
    (hl : Live docs sel) (hl' : Live docs sel') (hp : sel.Perm sel') :
    ((∃ r, Spec.applyAll u docs sel = .ok r) ↔ (∃ r, Spec.applyAll u docs sel' = .ok r)) ∧
    (∀ docs₁ docs₂, Spec.applyAll u docs sel = .ok docs₁ → Spec.applyAll u docs sel' = .ok docs₂ → docs₁ = docs₂) :=
  ⟨applyAll_ok_perm u docs sel sel' hp, fun d1 d2 h1 h2 => applyAll_perm_eq u docs hs sel sel' hl hl' hp d1 d2 h1 h2⟩

/-- each selected document is replaced by the updater's result on its pre-call value (or removed) -/
theorem each_selected_document_rewritten_once (u : Upd) (sel : List Doc) (docs docs' : List (Bytes × Doc))
    (hs : Spec.KeysSorted docs) (hnd : (sel.map Doc.objectId).Nodup) (h : Spec.applyAll u docs sel = .ok docs') :
    ∀ d ∈ sel, Spec.lookup d.objectId docs' = u.apply d := applyAll_lookup_sel u sel docs docs' hs hnd h

/-- **Windowed bulk writes through ANY plan** (skip / limit on a sorted selection): when the sort order is total on
    the matching documents — e.g. `_id` is one of the sort keys (`totalSort_of_id_key`) — the documents selected
    through an index plan are EXACTLY the specification's, so `Update` / `UpdateFunc` answers what the
    specification answers (same error or same selection) and leaves the specification's next state.  (With ties under
    the window the selection is not determined by the property; generated bulk writes with a window carry a total order.) -/
theorem windowed_update_exact_any_plan (s : Spec.State) (σ : KVS) (hw : WF s) (hr : Rep s σ) (q : Query) (u : Upd)
    (hdom : BulkDomainW likeFn fnFam s q) :
    let r := withTx true (Op.body likeFn fnFam (.update q u)) noFault σ
    let sp := Spec.step likeFn fnFam s (.update q u)
    r.1 = sp.1 ∧ Rep sp.2 r.2.1 ∧ WF sp.2 :=
  update_refines_any_plan_window likeFn fnFam s σ hw hr q u hdom

theorem windowed_delete_exact_any_plan (s : Spec.State) (σ : KVS) (hw : WF s) (hr : Rep s σ) (q : Query)
    (hdom : BulkDomainW likeFn fnFam s q) :
    let r := withTx true (Op.body likeFn fnFam (.delete q)) noFault σ
    let sp := Spec.step likeFn fnFam s (.delete q)
    r.1 = sp.1 ∧ Rep sp.2 r.2.1 ∧ WF sp.2 :=
  delete_refines_any_plan_window likeFn fnFam s σ hw hr q hdom

/-- `_id` among the sort keys makes the order total on the live documents of a well-formed collection -/
theorem id_sort_key_makes_order_total (s : Spec.State) (hw : WF s) (q : Query) (coll : Spec.Coll)
    (hl : Spec.lookup q.coll s = some coll) (hdir : ∀ o ∈ q.sort, o.2 = 1 ∨ o.2 = -1)
    (hid : ∃ o ∈ q.sort, o.1 = idField) : TotalSort likeFn fnFam q coll :=
  totalSort_of_id_key_wf likeFn fnFam s hw q coll hl hdir hid

end CV.Props.C03

-- SOURCE-TEXT-BEGIN (generated by tools/mk_source_theorems.py; do not edit by hand)
namespace CV.Props.C03

/-- (facts, regenerated from the source on every run) **The source text the model transcribes is the text of the
    current source**: the bodies (comments and layout removed) of the 7 functions the model behind C03 was written from and
    validated against.  Any edit of one of them breaks this theorem at build time; the check then searches with the
    property's own oracles for a failing input, and reports `no-failing-input-found` if it finds none: the model then
    has to be re-validated against the new text (and this block regenerated). -/
theorem source_decision_logic : CV.Facts.logicC03 = [
  "clover.DB.Delete: { q, err := normalizeCriteria(q) if err != nil { return err } tx, err := db.store.Begin(true) if err != nil { return err } defer tx.Rollback() if err := db.replaceDocs(tx, q, func(_ *d.Document) *d.Document { return nil }); err != nil { return err } return tx.Commit() }", 
  "clover.DB.DropCollection: { tx, err := db.store.Begin(true) if err != nil { return err } defer tx.Rollback() if err := db.deleteAll(tx, name); err != nil { return err } if err := tx.Delete([]byte(getCollectionKey(name))); err != nil { return err } return tx.Commit() }", 
  "clover.DB.Update: { q, err := normalizeCriteria(q) if err != nil { return err } return db.UpdateFunc(q, func(doc *d.Document) *d.Document { newDoc := doc.Copy() newDoc.SetAll(updateMap) return newDoc }) }", 
  "clover.DB.UpdateFunc: { txn, err := db.store.Begin(true) if err != nil { return err } defer txn.Rollback() q, err = normalizeCriteria(q) if err != nil { return err } if err := db.replaceDocs(txn, q, updateFunc); err != nil { return err } return txn.Commit() }", 
  "clover.DB.deleteAll: { return db.replaceDocs(tx, query.NewQuery(collName), func(_ *d.Document) *d.Document { return nil }) }", 
  "clover.DB.iterateDocs: { meta, err := db.getCollectionMeta(q.Collection(), tx) if err != nil { return err } nd := buildQueryPlan(q, db.getIndexes(tx, q.Collection(), meta), &consumerNode{consumer: consumer}) return execPlan(nd, tx) }", 
  "clover.DB.replaceDocs: { meta, err := db.getCollectionMeta(q.Collection(), tx) if err != nil { return err } indexes := db.getIndexes(tx, q.Collection(), meta) docs := make([]*d.Document, 0) err = db.iterateDocs(tx, q, func(doc *d.Document) error { docs = append(docs, doc) return nil }) if err != nil { return err } deletedDocs := 0 for _, doc := range docs { docKey := []byte(getDocumentKey(q.Collection(), doc.ObjectId())) newDoc := updater(doc.Copy()) if newDoc != nil && newDoc.ObjectId() != doc.ObjectId() { return errIdChanged } if err := db.updateIndexesOnDocUpdate(tx, indexes, doc, newDoc); err != nil { return err } if newDoc == nil { deletedDocs++ if err := tx.Delete(docKey); err != nil { return err } continue } if err := saveDocument(newDoc, docKey, tx); err != nil { return err } } if deletedDocs > 0 { meta.Size -= deletedDocs if err := db.saveCollectionMetadata(q.Collection(), meta, tx); err != nil { return err } } return nil }"] := by rfl

end CV.Props.C03
-- SOURCE-TEXT-END
