import Clover.Spec.Spec
/-! # C03 — bulk update/delete touch exactly the matched documents, once each -/
namespace CV.Props.C03
open CV CV.Spec

theorem lookup_insert {α} (k k' : Bytes) (v : α) (m : List (Bytes × α)) :
    lookup k' (Spec.insert k v m) = if k' = k then some v else lookup k' m := by
  induction m with
  | nil => simp [Spec.insert, lookup]
  | cons e t ih =>
    obtain ⟨k2, v2⟩ := e
    simp only [Spec.insert]
    split
    · simp only [lookup]
    · split
      · subst_vars; simp only [lookup]; split <;> rfl
      · simp only [lookup, ih]; split <;> split <;> simp_all

theorem lookup_erase_ne {α} (k k' : Bytes) (h : k' ≠ k) (m : List (Bytes × α)) :
    lookup k' (erase k m) = lookup k' m := by
  induction m with
  | nil => simp [erase, lookup]
  | cons e t ih =>
    obtain ⟨k2, v2⟩ := e
    simp only [erase]
    split
    · subst_vars; simp [lookup, h]
    · simp only [lookup, ih]

/-- In the specification, a bulk update or delete never touches a document outside the selection:
    for every updater, every selection and every id not selected, the stored document is unchanged. -/
theorem applyAll_frame (u : Upd) : (docs : List (Bytes × Doc)) → (sel : List Doc) → (docs' : List (Bytes × Doc)) →
    applyAll u docs sel = .ok docs' → ∀ id, (∀ d ∈ sel, d.objectId ≠ id) →
    lookup id docs' = lookup id docs
  | docs, [], docs', h, id, _ => by
    simp only [applyAll, Res.ok.injEq] at h; rw [h]
  | docs, d :: ds, docs', h, id, hsel => by
    simp only [applyAll] at h
    have hid : d.objectId ≠ id := hsel d (by simp)
    have hrest : ∀ d' ∈ ds, d'.objectId ≠ id := fun d' hd => hsel d' (by simp [hd])
    split at h
    · rw [applyAll_frame u _ ds docs' h id hrest, lookup_erase_ne _ _ (Ne.symm hid)]
    · split at h
      · simp at h
      · split at h
        · simp at h
        · rw [applyAll_frame u _ ds docs' h id hrest, lookup_insert]
          simp [Ne.symm hid]

end CV.Props.C03
