import Clover.Model.Codec
import Clover.Probe.Codec
/-! # C11 — stored documents read back identical in type and value -/
namespace CV.Props.C11
open CV

mutual
theorem ofWire_toWire : (v : Value) → ofWire (toWire v) = v
  | .null => rfl
  | .num _ => rfl
  | .str _ => rfl
  | .bool _ => rfl
  | .time _ _ => rfl
  | .arr xs => by simp only [toWire, ofWire, ofWireL_toWireL xs]
  | .obj kvs => by simp only [toWire, ofWire, ofWireKV_toWireKV kvs]
theorem ofWireL_toWireL : (xs : List Value) → ofWireL (toWireL xs) = xs
  | [] => rfl
  | x :: xs => by simp only [toWireL, ofWireL, ofWire_toWire x, ofWireL_toWireL xs]
theorem ofWireKV_toWireKV : (xs : List (Bytes × Value)) → ofWireKV (toWireKV xs) = xs
  | [] => rfl
  | (k, x) :: xs => by simp only [toWireKV, ofWireKV, ofWire_toWire x, ofWireKV_toWireKV xs]
end

/-- Decoding an encoded document gives back the document: same field set, same types, same values;
    times denote the same instant and zone offset wherever they occur — inside arrays and inside
    objects nested in arrays, at any depth. -/
theorem decode_encode (d : Doc) : decodeDoc (encodeDoc d) = d := ofWireKV_toWireKV d

/-- The decoder before the repair (`removeLocalizedTimes` re-wrapped the elements of a slice) did not
    round-trip a time inside an array — the witness of the repaired defect. -/
theorem old_decoder_broken :
    Codec.unwrapCur (Codec.wrap (.arr [.time 1 0])) ≠ .arr [.time 1 0] := Codec.cur_not_roundtrip

example : decodeDoc (encodeDoc [([0x74], .arr [.obj [([0x61], .time 5 3600)], .num (.uint 18446744073709551615)])]) =
    [([0x74], .arr [.obj [([0x61], .time 5 3600)], .num (.uint 18446744073709551615)])] := decode_encode _

end CV.Props.C11
