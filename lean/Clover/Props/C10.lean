import Clover.Probe.C10
import Clover.Model.Value
/-! # C10 — values are totally ordered and index keys sort in exactly that order -/
namespace CV.Props.C10
open CV

/-- The comparison by exact value is a total preorder on all values: reflexive, sign-antisymmetric,
    transitive (numbers by numeric value across int/uint/float, strings bytewise, arrays and
    objects lexicographically, type rank first). -/
theorem preorder :
    (∀ a, cmp nkey a a = 0) ∧ (∀ a b, cmp nkey a b = -cmp nkey b a) ∧
    (∀ a b c, cmp nkey a b ≤ 0 → cmp nkey b c ≤ 0 → cmp nkey a c ≤ 0) := c10_preorder

/-- On the key domain (integers within ±2^53, non-NaN doubles, times from 1970 on, at any
    nesting depth) the index key bytes, followed by any document ids, sort exactly as the values
    compare; equal values have equal keys. -/
theorem key_order (a b : Value) (da : Dom numOK a) (db : Dom numOK b) :
    (cmp nkey a b < 0 → ∀ id1 id2, OC.diffLt (goKeyTail a ++ id1) (goKeyTail b ++ id2) = true) ∧
    (cmp nkey a b = 0 → goKeyTail a = goKeyTail b) := c10_key_order a b da db

/-- non-vacuity: the domain predicate is satisfiable by a non-trivial nested value -/
example : Dom numOK (.arr [.num (.int 5), .num (.float 0x4014000000000000), .str [1], .time 7 0]) := by
  simp [Dom, DomL, numOK]

end CV.Props.C10
