import Clover.Proofs.GoCmp
/-! # C10 — values are totally ordered and index keys sort in exactly that order

`goCmp` is the model of `internal.Compare` (validated against the real function on every run);
`goKeyTail` is the model of the index key bytes after the per-index prefix. -/
namespace CV.Props.C10
open CV

/-- On the supported domain (integers beyond 2^53 only among integers, not against floats) the
    comparison the code performs is the comparison by exact value. -/
theorem compare_is_by_value (a b : Value) (h : PairDom a b) : goCmp a b = cmp nkey a b := goCmp_eq a b h

/-- The comparison by exact value is a total preorder on ALL values: reflexive, sign-antisymmetric,
    transitive; it ranks types nil < number < string < object < array < bool < time (`Value.rank`),
    compares strings bytewise and arrays/objects lexicographically (`cmp`). -/
theorem preorder :
    (∀ a, cmp nkey a a = 0) ∧ (∀ a b, cmp nkey a b = -cmp nkey b a) ∧
    (∀ a b c, cmp nkey a b ≤ 0 → cmp nkey b c ≤ 0 → cmp nkey a c ≤ 0) := c10_preorder

/-- Hence `Compare` itself is reflexive, sign-antisymmetric and transitive on every pair / triple
    of the domain: all three values free of floats (any integer magnitude, mixed int64/uint64), or
    all numbers exactly representable (|n| ≤ 2^53, any non-NaN double incl. ±0 and ±Inf). -/
theorem compare_refl (a : Value) (h : PairDom a a) : goCmp a a = 0 := by
  rw [goCmp_eq a a h]; exact c10_preorder.1 a
theorem compare_antisymm (a b : Value) (h : PairDom a b) (h' : PairDom b a) : goCmp a b = -goCmp b a := by
  rw [goCmp_eq a b h, goCmp_eq b a h']; exact c10_preorder.2.1 a b
theorem compare_trans (a b c : Value) (hab : PairDom a b) (hbc : PairDom b c) (hac : PairDom a c)
    (h1 : goCmp a b ≤ 0) (h2 : goCmp b c ≤ 0) : goCmp a c ≤ 0 := by
  rw [goCmp_eq a b hab] at h1; rw [goCmp_eq b c hbc] at h2; rw [goCmp_eq a c hac]
  exact c10_preorder.2.2 a b c h1 h2

/-- Different type ranks decide the comparison (nil < number < string < object < array < bool < time). -/
theorem rank_decides (a b : Value) (h : a.rank ≠ b.rank) : cmp nkey a b = a.rank - b.rank :=
  cmp_of_rank_ne nkey a b h

/-- On the key domain (integers within ±2^53, non-NaN doubles, times from 1970 on, at any nesting
    depth) the index key bytes, followed by ANY document ids, sort exactly as `Compare` orders the
    values; values that compare equal have equal keys — so an index range scan and a
    comparison-based filter agree. -/
theorem key_order (a b : Value) (da : Dom numOK a) (db : Dom numOK b) :
    (goCmp a b < 0 → ∀ id1 id2, OC.diffLt (goKeyTail a ++ id1) (goKeyTail b ++ id2) = true) ∧
    (goCmp a b = 0 → goKeyTail a = goKeyTail b) := by
  have hp : PairDom a b := Or.inr ⟨dom_numsOK a da, dom_numsOK b db⟩
  rw [goCmp_eq a b hp]
  exact c10_key_order a b da db

/-- `diffLt` (decided at a differing byte) implies the bytewise order `bytes.Compare` uses. -/
theorem diffLt_is_bytewise_less (x y : Bytes) (h : OC.diffLt x y = true) : OC.lexLt x y = true :=
  OC.diffLt_imp_lexLt x y h

/-- non-vacuity: the domain predicates are satisfiable by non-trivial nested values -/
example : Dom numOK (.arr [.num (.int 5), .num (.float 0x4014000000000000), .str [1], .time 7 0]) := by
  simp [Dom, DomL, numOK]
example : PairDom (.num (.int (-9223372036854775808))) (.num (.uint 18446744073709551615)) :=
  Or.inl ⟨by simp [NoFloat, AllNum, Num.isFloat], by simp [NoFloat, AllNum, Num.isFloat]⟩

end CV.Props.C10
