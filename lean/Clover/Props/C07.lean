import Clover.Generated.Facts
import Clover.Probe.Linear
import Clover.Probe.Occ
import Clover.Probe.WriterLock
import Clover.Model.DB
import Clover.Proofs.ScanRun
import Clover.Props.C04
/-! # C07 — concurrent use of one DB handle is atomic per operation and race-free

Logical core: (a) protocol theorem — under the bbolt discipline (one writer holds the lock from
`Begin(true)` to `Commit/Rollback`; a reader works on the committed state as of its `Begin`) every
interleaving of any number of threads and single-transaction operations returns exactly the
results of one sequential order consistent with real time (writers at their commit, readers at
their begin); (b) regenerated facts — the handle has no mutable shared state besides the store
(`closed` only through sync/atomic), there is no mutable package-level variable, and no builder
method of queries or criteria writes through its receiver.
(c) since the repair F43 the badger adapter enforces the same discipline itself (a writer lock taken in `Begin(true)`,
released by `Commit` / `Rollback`; pinned by `source_decision_logic` below): before it, badger's optimistic conflict
detection - on keys read, not on ranges scanned - let two bulk updates through an index that move documents into each
other's selection both commit (write skew; `Probe/Occ` states the counterexample).
Outside the theorem (named): the Go scheduler and memory model; the schedules explored by the race stream are
evidence, not proof. -/
namespace CV.Props.C07
open CV CV.Facts

variable (likeFn : LikeFn) (fnFam : FnFam)

/-- the model's operations as single-transaction specifications of the protocol -/
def opSpec (op : Op) : Lin.OpSpec KVS (Res Out) :=
  ⟨op.isWrite, fun kv => let r := op.exec likeFn fnFam kv noFault; (r.2.1, r.1)⟩

/-- Linearizability of the lock/snapshot protocol for the model's operations: every result
    returned by any enabled interleaving is the result of the sequential witness, and the final
    committed state is the witness's final state. -/
theorem linearizable (s0 : KVS) (es : List (Lin.Ev KVS (Res Out))) (s' : Lin.Sys KVS (Res Out))
    (hr : Lin.run (Lin.init s0) es = some s') :
    (Lin.seq s0 s'.hist).1 = s'.committed ∧ ∀ p, p ∈ s'.outs → p ∈ (Lin.seq s0 s'.hist).2 :=
  Lin.linearizable s0 es s' hr

/-- A transaction rejected at commit (write conflict of the optimistic backend = a fault at the
    commit call) has no effect. -/
theorem rejected_commit_no_effect (op : Op) (σ : DBState) (φ : Faults)
    (h : (op.run likeFn fnFam σ φ).out.isErr = true) : (op.run likeFn fnFam σ φ).state = σ :=
  C04.failed_op_no_trace likeFn fnFam op σ φ h

/-- **Why the writer lock of the badger adapter is needed (F43).**  Badger's own scheme - a read-write transaction is
    rejected at commit iff a transaction committed since its begin wrote a key it has READ - gives, for transactions
    whose reads and writes are determined by the keys they have read (no scans), exactly the sequential execution of
    the committed transactions in commit order … -/
theorem badger_validation_serializable_without_scans (s0 : Occ.Store) (evs : List Occ.Ev) (s : Occ.Sys)
    (hfd : Occ.AllFootprintDetermined evs) (hr : Occ.run (Occ.init s0) evs = some s) :
    s.store = (Occ.seq s0 s.hist).1 ∧ s.outs = (Occ.seq s0 s.hist).2 :=
  Occ.occ_point_reads_serializable s0 evs s hfd hr

/-- … and does NOT for transactions that scan a range, as clover's bulk writes through an index do: "move every entry of
    block 1 to block 3" against "move every entry of block 3 to block 1" on entries 11, 22, 33 both pass validation
    (each read only its own block and the first key after it), and the committed store is the one of neither sequential
    order.  This is the run the real code exhibited before the repair (`findings/F43`). -/
theorem badger_validation_alone_admits_write_skew (c a b : Occ.Sys)
    (hc : Occ.run (Occ.init Occ.s0) Occ.concurrent = some c) (ha : Occ.run (Occ.init Occ.s0) Occ.seq12 = some a)
    (hb : Occ.run (Occ.init Occ.s0) Occ.seq21 = some b) :
    c.hist.map (·.1) = [1, 2] ∧ c.store ≠ a.store ∧ c.store ≠ b.store :=
  let h := Occ.occ_write_skew_stores c a b hc ha hb
  ⟨h.1, h.2.1, h.2.2.1⟩

/-- the scan is what breaks the hypothesis of the positive theorem: a key appearing inside the scanned block (a phantom)
    changes what the program does although every key it had read is unchanged -/
theorem scans_are_not_determined_by_the_keys_read : ¬ Occ.FootprintDetermined (Occ.moveAll 1 3) :=
  Occ.moveAll_not_footprint_determined

/-- **The badger adapter's writer lock is released exactly once** per `Begin(true)`, by whichever of `Commit` /
    `Rollback` comes first, whatever further calls follow (every public write ends with `Commit` and the deferred
    `Rollback`, or with `Rollback` alone): never an unlock of an unlocked mutex (a Go panic), never a lock left held
    (which would wedge every later write) … -/
theorem writer_lock_released_exactly_once (m m' : WLock.Mu) (tx : WLock.Tx) (h : WLock.beginTx m true = some (m', tx))
    (e : WLock.End) (es : List WLock.End) :
    (WLock.endAll m' tx (e :: es)).1.locked = false ∧ (WLock.endAll m' tx (e :: es)).1.unlocks = m.unlocks + 1 ∧
    (WLock.endAll m' tx (e :: es)).1.fault = m.fault ∧ (WLock.endAll m' tx (e :: es)).2.held = false :=
  WLock.unlocks_exactly_once m m' tx h e es

/-- … and while it is held no second read-write transaction begins: the single-writer discipline `linearizable`
    assumes holds for badger as it does for bbolt. -/
theorem one_writer_at_a_time (m m' : WLock.Mu) (tx : WLock.Tx) (h : WLock.beginTx m true = some (m', tx)) :
    WLock.beginTx m' true = none :=
  WLock.begin_blocks_while_held m m' tx h

/-- … nor does a `Begin` that is refused because the store has been closed keep the lock: the next write is refused too
    instead of waiting forever (the path the adapter takes after `Close`). -/
theorem refused_begin_leaves_the_lock_free (m m' : WLock.Mu) (u : Bool) (h : WLock.beginOnClosed m u = some m') :
    m'.locked = m.locked ∧ m'.fault = m.fault ∧ WLock.beginOnClosed m' u ≠ none :=
  WLock.beginOnClosed_leaves_lock_free m m' u h

/-- (facts) the handle holds the store and an atomic flag, nothing else -/
theorem handle_has_no_shared_mutable_state : dbFields = ["store store.Store", "closed uint32"] := by decide

/-- (facts) `closed` is only touched by the atomic compare-and-swap in `Close` -/
theorem closed_only_atomic : closedUses = ["Close: .closed", "Close: atomic.CompareAndSwapUint32"] := by decide

/-- (facts) package-level variables: error sentinels (never reassigned) and the read-only type-rank table -/
theorem no_mutable_globals : packageVars =
    ["clover.ErrCollectionExist", "clover.ErrCollectionNotExist", "clover.ErrDocumentNotExist", "clover.ErrDuplicateKey",
     "clover.ErrIndexExist", "clover.ErrIndexNotExist", "clover.errIdChanged", "clover.errNilDocument",
     "internal.ErrStopIteration", "internal.typesMap"] := by decide

/-- (facts) the only methods writing through their receiver are cursor adapters, the badger transaction wrapper (its
    writer-lock release, cleared when the transaction ends: F43), plan nodes and the normalisation visitor — objects created per call; no method of `Query`, of the criteria types
    or of `DB` does (queries and criteria are immutable values, copy-on-write builders) -/
theorem builders_do_not_write_through_receiver : receiverWrites =
    ["badger.badgerCursor.Seek: cursor.empty", "badger.badgerTx.done: tx.release", "bbolt.boltCursor.Next: c.currItem", "bbolt.boltCursor.Seek: c.currItem",
     "bbolt.boltCursor.adjustSeek: c.currItem", "clover.CriteriaNormalizeVisitor.VisitUnaryCriteria: v.err",
     "clover.planNodeBase.SetNext: nd.next", "clover.sortNode.Callback: nd.docs", "clover.sortNode.Callback: nd.docs"] := by
  decide

end CV.Props.C07

-- SOURCE-TEXT-BEGIN (generated by tools/mk_source_theorems.py; do not edit by hand)
namespace CV.Props.C07

/-- (facts, regenerated from the source on every run) **The source text the model transcribes is the text of the
    current source**: the bodies (comments and layout removed) of the 10 functions the model behind C07 was written from and
    validated against.  Any edit of one of them breaks this theorem at build time; the check then searches with the
    property's own oracles for a failing input, and reports `no-failing-input-found` if it finds none: the model then
    has to be re-validated against the new text (and this block regenerated). -/
theorem source_decision_logic : CV.Facts.logicC07 = [
  "badger.badgerStore.Begin: { if update { store.writeMu.Lock() } if store.db.IsClosed() { if update { store.writeMu.Unlock() } return nil, badger.ErrDBClosed } tx := &badgerTx{Txn: store.db.NewTransaction(update)} if update { tx.release = store.writeMu.Unlock } return tx, nil }", 
  "badger.badgerTx.Commit: { defer tx.done() return tx.Txn.Commit() }", 
  "badger.badgerTx.Rollback: { tx.Txn.Discard() tx.done() return nil }", 
  "badger.badgerTx.done: { if tx.release != nil { tx.release() tx.release = nil } }", 
  "bbolt.boltStore.Begin: { tx, err := store.db.Begin(update) return &boltTx{Tx: tx}, err }", 
  "bbolt.boltTx.Commit: { return tx.Tx.Commit() }", 
  "bbolt.boltTx.Rollback: { return tx.Tx.Rollback() }", 
  "clover..Open: { dataStore, err := bbolt.Open(dir) if err != nil { return nil, err } return OpenWithStore(dataStore) }", 
  "clover..OpenWithStore: { return &DB{store: store}, nil }", 
  "clover.DB.Close: { if atomic.CompareAndSwapUint32(&db.closed, 0, 1) { return db.store.Close() } return nil }"] := by rfl

end CV.Props.C07
-- SOURCE-TEXT-END
