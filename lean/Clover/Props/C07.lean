import Clover.Generated.Facts
import Clover.Probe.Linear
import Clover.Model.DB
import Clover.Proofs.ScanRun
import Clover.Props.C04
/-! # C07 — concurrent use of one DB handle is atomic per operation and race-free

Logical core: (a) protocol theorem — under the bbolt discipline (one writer holds the lock from
`Begin(true)` to `Commit/Rollback`; a reader works on the committed state as of its `Begin`) every
interleaving of any number of threads and single-transaction operations returns exactly the
results of one sequential order consistent with real time (writers at their commit, readers at
their begin); (b) regenerated facts — the handle has no mutable shared state besides the store
(`closed` only through sync/atomic), there is no mutable package-level variable, and no builder
method of queries or criteria writes through its receiver.
Outside the theorem (named): the Go scheduler and memory model, badger's optimistic conflict
detection under phantoms; the schedules explored by the race stream are evidence, not proof. -/
namespace CV.Props.C07
open CV CV.Facts

variable (likeFn : LikeFn) (fnFam : FnFam)

/-- the model's operations as single-transaction specifications of the protocol -/
def opSpec (op : Op) : Lin.OpSpec KVS (Res Out) :=
  ⟨op.isWrite, fun kv => let r := op.exec likeFn fnFam kv noFault; (r.2.1, r.1)⟩

/-- Linearizability of the lock/snapshot protocol for the model's operations: every result
    returned by any enabled interleaving is the result of the sequential witness, and the final
    committed state is the witness's final state. -/
theorem linearizable (s0 : KVS) (es : List (Lin.Ev KVS (Res Out))) (s' : Lin.Sys KVS (Res Out))
    (hr : Lin.run (Lin.init s0) es = some s') :
    (Lin.seq s0 s'.hist).1 = s'.committed ∧ ∀ p, p ∈ s'.outs → p ∈ (Lin.seq s0 s'.hist).2 :=
  Lin.linearizable s0 es s' hr

/-- A transaction rejected at commit (write conflict of the optimistic backend = a fault at the
    commit call) has no effect. -/
theorem rejected_commit_no_effect (op : Op) (σ : DBState) (φ : Faults)
    (h : (op.run likeFn fnFam σ φ).out.isErr = true) : (op.run likeFn fnFam σ φ).state = σ :=
  C04.failed_op_no_trace likeFn fnFam op σ φ h

/-- (facts) the handle holds the store and an atomic flag, nothing else -/
theorem handle_has_no_shared_mutable_state : dbFields = ["store store.Store", "closed uint32"] := by decide

/-- (facts) `closed` is only touched by the atomic compare-and-swap in `Close` -/
theorem closed_only_atomic : closedUses = ["Close: .closed", "Close: atomic.CompareAndSwapUint32"] := by decide

/-- (facts) package-level variables: error sentinels (never reassigned) and the read-only type-rank table -/
theorem no_mutable_globals : packageVars =
    ["clover.ErrCollectionExist", "clover.ErrCollectionNotExist", "clover.ErrDocumentNotExist", "clover.ErrDuplicateKey",
     "clover.ErrIndexExist", "clover.ErrIndexNotExist", "clover.errIdChanged", "clover.errNilDocument",
     "internal.ErrStopIteration", "internal.typesMap"] := by decide

/-- (facts) the only methods writing through their receiver are cursor adapters, plan nodes and the
    normalisation visitor — objects created per call; no method of `Query`, of the criteria types
    or of `DB` does (queries and criteria are immutable values, copy-on-write builders) -/
theorem builders_do_not_write_through_receiver : receiverWrites =
    ["badger.badgerCursor.Seek: cursor.empty", "bbolt.boltCursor.Next: c.currItem", "bbolt.boltCursor.Seek: c.currItem",
     "bbolt.boltCursor.adjustSeek: c.currItem", "clover.CriteriaNormalizeVisitor.VisitUnaryCriteria: v.err",
     "clover.planNodeBase.SetNext: nd.next", "clover.sortNode.Callback: nd.docs", "clover.sortNode.Callback: nd.docs"] := by
  decide

end CV.Props.C07
