import Clover.Model.Doc
/-! # Criteria and their evaluation (query/criteria.go, after literal normalisation)

Operands are canonical values (the Go-kind layer is `Model/GoVal.lean`).  A string literal that
starts with `$` is a field reference resolved at evaluation time, exactly like `getFieldOrValue`;
`Field(name)` operands are `Operand.ref`. -/
namespace CV

inductive Operand
  | lit (v : Value)
  | ref (name : Bytes)
deriving Inhabited

inductive CmpOp | eq | gt | ge | lt | le
deriving DecidableEq, Repr, Inhabited

inductive Crit
  | exists_ (f : Bytes)
  | cmp (op : CmpOp) (f : Bytes) (x : Operand)
  | like (f : Bytes) (pat : Bytes)
  | isIn (f : Bytes) (xs : List Operand)
  | contains (f : Bytes) (xs : List Operand)
  | fn (id : Nat)
  | and (a b : Crit)
  | or (a b : Crit)
  | not (a : Crit)
deriving Inhabited

def dollar : UInt8 := 0x24

/-- `strings.TrimLeft(s, "$")` -/
def trimDollars : Bytes → Bytes
  | [] => []
  | c :: cs => if c = dollar then trimDollars cs else c :: cs

/-- `getFieldOrValue` -/
def deref (d : Doc) : Operand → Value
  | .ref n => d.get n
  | .lit (.str (c :: cs)) => if c = dollar then d.get (trimDollars (c :: cs)) else .str (c :: cs)
  | .lit v => v

/-- the regular-expression matcher is a parameter (regexp.MatchString is not modelled);
    `false` also stands for an invalid pattern -/
abbrev LikeFn := Bytes → Bytes → Bool

/-- user predicates of `MatchFunc` are a parameter as well -/
abbrev FnFam := Nat → Doc → Bool

variable (likeFn : LikeFn) (fnFam : FnFam)

def satCmp (d : Doc) (op : CmpOp) (f : Bytes) (x : Operand) : Bool :=
  match op with
  | .eq => d.has f && goCmp (d.get f) (deref d x) == 0
  | .gt => goCmp (d.get f) (deref d x) > 0
  | .ge => goCmp (d.get f) (deref d x) ≥ 0
  | .lt => goCmp (d.get f) (deref d x) < 0
  | .le => goCmp (d.get f) (deref d x) ≤ 0

/-- `Satisfy` -/
def sat (d : Doc) : Crit → Bool
  | .exists_ f => d.has f
  | .cmp op f x => satCmp d op f x
  | .like f p => match d.get f with
      | .str s => likeFn p s
      | _ => false
  | .isIn f xs => xs.any (fun x => goCmp (deref d x) (d.get f) == 0)
  | .contains f xs => match d.get f with
      | .arr ys => xs.all (fun x => ys.any (fun y => goCmp (deref d x) y == 0))
      | _ => false
  | .fn id => fnFam id d
  | .and a b => sat d a && sat d b
  | .or a b => sat d a || sat d b
  | .not a => !sat d a

/-- an optional criteria (a query without `Where`) -/
def satOpt (d : Doc) : Option Crit → Bool
  | none => true
  | some c => sat likeFn fnFam d c

end CV
