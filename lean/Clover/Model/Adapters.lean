import Clover.Model.Store
/-! # The two cursor adapters (store/bbolt/bbolt.go, store/badger/badger.go) over the libraries' raw cursors

`Model/Store.lean` describes what a `store.Cursor` must show (`seekFwd`, `seekRev`).  The two
adapters are clover's own small pieces of logic on top of the raw cursor of each library.  This file
transcribes that logic; the behaviour of the two raw cursors is the ASSUMPTION about the libraries,
stated here once, as an executable specification over the sorted entry list `kv : KVS` of the
transaction (section "RAW").  `Proofs/Adapters.lean` proves that the adapters on top of these raw
cursors show exactly `seekFwd` / `seekRev`.

## The assumed library behaviour, clause by clause

go.etcd.io/bbolt v1.3.7, `cursor.go` (the cursor's stack is abstracted to `pos : Option Nat`:
`none` = empty stack, `some i` = the leaf slot of entry `i`, `some kv.length` = the slot after the last
entry of the last leaf):
* B1 `First` — cursor.go:29-31 "moves the cursor to the first item in the bucket and returns its key
  and value. If the bucket is empty then a nil key and value are returned" (body 41-58).
* B2 `Last` — cursor.go:60-62 "moves the cursor to the last item ... If the bucket is empty then a nil
  key and value are returned"; on the empty bucket the stack is emptied (cursor.go:74-80).
* B3 `Seek` — cursor.go:113-116 "moves the cursor to a given key ... If the key does not exist then the
  next key is used. If no keys follow, a nil key is returned"; the leaf search is
  `sort.Search(.., Compare(key_i, seek) != -1)`, the first slot with key ≥ seek (cursor.go:336-355); when
  no key follows, the slot index stays one past the last entry (cursor.go:122-125 calls `next`, which
  does not move, see B4).
* B4 `Next` — cursor.go:89-91 "If the cursor is at the end of the bucket then a nil key and value are
  returned" and cursor.go:210-211, 225-229 "If the cursor is at the last leaf element then it stays
  there and returns nil"; with an empty stack the scan loop does not run and nil is returned
  (cursor.go:217-229).
* B5 `Prev` — cursor.go:101-103 "If the cursor is at the beginning of the bucket then a nil key and
  value are returned"; the stack is emptied on the way (cursor.go:251-258) and an empty stack returns
  nil (cursor.go:260-263), so every later `Prev`/`Next` returns nil as well; after a `Seek` which
  returned nil the slot index is `count` and `Prev` decrements it (cursor.go:253-255): it returns the
  LAST entry.
* B0 the entries are visited "in lexicographical order" (cursor.go:9-10) and the bucket is not changed
  while the cursor is used (cursor.go:16-18); bbolt refuses empty keys, so a returned key is nil
  exactly if there is no entry.

github.com/dgraph-io/badger/v4 v4.2.0, `iterator.go` (the iterator's `item` is abstracted to
`item : Option Nat`, the index of the current entry, `none` = `it.item == nil`):
* G1 `Seek`, non-empty key — iterator.go:748-750 "would seek to the provided key if present. If absent,
  it would seek to the next smallest key greater than the provided key if iterating in the forward
  direction. Behavior would be reversed if iterating backwards" (body 773-779).
* G2 `Seek`, empty key — iterator.go:764-771: with the empty `Prefix` of `DefaultIteratorOptions`
  (iterator.go:428-434) an empty key means `it.iitr.Rewind()`; iterator.go:782-784 "Rewind would rewind
  the iterator cursor all the way to zero-th position, which would be the smallest key if iterating
  forward, and largest if iterating backward".
* G3 `Next` — iterator.go:579-581 "would advance the iterator by one. Always check it.Valid() after a
  Next()" (the next entry in the direction of `IteratorOptions.Reverse`, iterator.go:322; at the end
  `it.item = it.data.pop()` is nil, iterator.go:591).  `Next` on an invalid iterator dereferences the
  nil item (iterator.go:586); the client loop never does this, the model leaves the iterator invalid.
* G4 `Valid` — iterator.go:533-542 "returns false when iteration is done" (`it.item == nil`; the prefix
  test is vacuous for the empty `Prefix`).
* G0 keys are returned "in lexicographically sorted order" (iterator.go:436, 460-461). -/
namespace CV.Adapters
open CV OC

abbrev Entry := Bytes × SVal

/-! ## RAW: the positions the libraries' searches find -/

/-- index of the first entry with key ≥ `k` (`kv.length` if there is none) -/
def lowerBound : KVS → Bytes → Nat
  | [], _ => 0
  | e :: t, k => if lexLt e.1 k then lowerBound t k + 1 else 0

/-- number of leading entries with key ≤ `k`; on a sorted store the last entry with key ≤ `k` is the
    one at index `countLe kv k - 1` -/
def countLe : KVS → Bytes → Nat
  | [], _ => 0
  | e :: t, k => if lexLt k e.1 then 0 else countLe t k + 1

/-! ## RAW bbolt cursor (assumptions B0-B5) -/

/-- `none`: empty stack (fresh cursor, or ran off the front); `some i`, `i < kv.length`: on entry `i`;
    `some kv.length`: behind the last entry -/
abbrev BoltRaw := Option Nat

def bFirst (kv : KVS) (_ : BoltRaw) : BoltRaw × Option Entry := (some 0, kv[0]?)

def bLast (kv : KVS) (_ : BoltRaw) : BoltRaw × Option Entry :=
  if kv.length = 0 then (none, none) else (some (kv.length - 1), kv[kv.length - 1]?)

def bSeek (kv : KVS) (_ : BoltRaw) (k : Bytes) : BoltRaw × Option Entry :=
  (some (lowerBound kv k), kv[lowerBound kv k]?)

def bNext (kv : KVS) (c : BoltRaw) : BoltRaw × Option Entry :=
  match c with
  | none => (none, none)
  | some i => if i + 1 < kv.length then (some (i + 1), kv[i + 1]?) else (some i, none)

def bPrev (kv : KVS) (c : BoltRaw) : BoltRaw × Option Entry :=
  match c with
  | none => (none, none)
  | some 0 => (none, none)
  | some (i + 1) => (some i, kv[i]?)

/-! ## the adapter `boltCursor` (store/bbolt/bbolt.go:93-152) -/

/-- `curr = none` stands for `currItem == nil` as well as for `currItem.Key == nil` (`Valid`, the only
    reader of the distinction, treats them alike) -/
structure BoltCursor where
  raw : BoltRaw
  forward : Bool
  curr : Option Entry

/-- `boltTx.Cursor(forward)` -/
def BoltCursor.new (forward : Bool) : BoltCursor := ⟨none, forward, none⟩

/-- `bytes.Equal(key, seek)`: a nil slice equals the empty slice -/
def bytesEqual (key : Option Bytes) (seek : Bytes) : Bool := key.getD [] == seek

/-- `adjustSeek`: positions a reverse cursor on the last key which is not greater than the seek key -/
def BoltCursor.adjustSeek (kv : KVS) (c : BoltCursor) (key : Option Bytes) (seek : Bytes) : BoltCursor :=
  if c.forward || bytesEqual key seek then c
  else
    let r := if key.isNone then bLast kv c.raw      -- every key is smaller than the seek key
             else bPrev kv c.raw
    { c with raw := r.1, curr := r.2 }

def BoltCursor.seek (kv : KVS) (c : BoltCursor) (seek : Bytes) : BoltCursor :=
  let r := bSeek kv c.raw seek
  let c1 : BoltCursor := { c with raw := r.1, curr := r.2 }
  c1.adjustSeek kv (r.2.map (·.1)) seek

def BoltCursor.next (kv : KVS) (c : BoltCursor) : BoltCursor :=
  let r := if c.forward then bNext kv c.raw else bPrev kv c.raw
  { c with raw := r.1, curr := r.2 }

def BoltCursor.valid (c : BoltCursor) : Bool := c.curr.isSome

def BoltCursor.item (c : BoltCursor) : Option Entry := c.curr

/-- `while c.Valid() { c.Item(); c.Next() }` -/
def boltLoop (kv : KVS) : Nat → BoltCursor → List Entry
  | 0, _ => []
  | n + 1, c =>
    if c.valid then
      match c.item with
      | some e => e :: boltLoop kv n (c.next kv)
      | none => []
    else []

/-- what a client sees with `c := tx.Cursor(forward); c.Seek(k); for c.Valid() { c.Item(); c.Next() }`;
    the fuel is never used up (`Proofs/Adapters.boltLoop_fuel`) -/
def boltView (kv : KVS) (forward : Bool) (k : Bytes) : List Entry :=
  boltLoop kv (kv.length + 1) ((BoltCursor.new forward).seek kv k)

/-! ## RAW badger iterator (assumptions G0-G4) -/

structure BadgerIt where
  reverse : Bool           -- `IteratorOptions.Reverse`
  item : Option Nat        -- index of the current entry, `none` = invalid

/-- `txn.NewIterator(opts)` -/
def BadgerIt.new (reverse : Bool) : BadgerIt := ⟨reverse, none⟩

def gRewind (kv : KVS) (it : BadgerIt) : BadgerIt :=
  if kv.length = 0 then { it with item := none }
  else if it.reverse then { it with item := some (kv.length - 1) }
  else { it with item := some 0 }

def gSeek (kv : KVS) (it : BadgerIt) (key : Bytes) : BadgerIt :=
  if key.length = 0 then gRewind kv it
  else if !it.reverse then
    { it with item := if lowerBound kv key < kv.length then some (lowerBound kv key) else none }
  else
    { it with item := if countLe kv key = 0 then none else some (countLe kv key - 1) }

def gNext (kv : KVS) (it : BadgerIt) : BadgerIt :=
  match it.item with
  | none => it
  | some i =>
    if !it.reverse then { it with item := if i + 1 < kv.length then some (i + 1) else none }
    else { it with item := match i with | 0 => none | j + 1 => some j }

def gValid (it : BadgerIt) : Bool := it.item.isSome

def gItem (kv : KVS) (it : BadgerIt) : Option Entry :=
  match it.item with
  | none => none
  | some i => kv[i]?

/-! ## the adapter `badgerCursor` (store/badger/badger.go:70-103) -/

structure BadgerCursor where
  it : BadgerIt
  reverse : Bool
  empty : Bool

/-- `badgerTx.Cursor(forward)` -/
def BadgerCursor.new (forward : Bool) : BadgerCursor := ⟨BadgerIt.new (!forward), !forward, false⟩

def BadgerCursor.seek (kv : KVS) (c : BadgerCursor) (key : Bytes) : BadgerCursor :=
  -- badger reads an empty key as "rewind", which in reverse is the last key, but no key is <= ""
  { c with empty := c.reverse && key.length == 0, it := gSeek kv c.it key }

def BadgerCursor.next (kv : KVS) (c : BadgerCursor) : BadgerCursor := { c with it := gNext kv c.it }

def BadgerCursor.valid (c : BadgerCursor) : Bool := !c.empty && gValid c.it

def BadgerCursor.item (kv : KVS) (c : BadgerCursor) : Option Entry := gItem kv c.it

def badgerLoop (kv : KVS) : Nat → BadgerCursor → List Entry
  | 0, _ => []
  | n + 1, c =>
    if c.valid then
      match c.item kv with
      | some e => e :: badgerLoop kv n (c.next kv)
      | none => []
    else []

def badgerView (kv : KVS) (forward : Bool) (k : Bytes) : List Entry :=
  badgerLoop kv (kv.length + 1) ((BadgerCursor.new forward).seek kv k)

/-- the adapter before the repair of defect F30: no `empty` flag (`Seek` is `cursor.it.Seek(key)` only
    and `Valid` is `cursor.it.Valid()`) -/
def BadgerCursor.seekNoFlag (kv : KVS) (c : BadgerCursor) (key : Bytes) : BadgerCursor :=
  { c with it := gSeek kv c.it key }

def badgerViewNoFlag (kv : KVS) (forward : Bool) (k : Bytes) : List Entry :=
  badgerLoop kv (kv.length + 1) ((BadgerCursor.new forward).seekNoFlag kv k)

end CV.Adapters
