import Clover.Model.Codec
/-! # The document codec at BYTE level: msgpack as `internal.Encode` / `internal.Decode` use it

`internal.Encode(v) = msgpack.Marshal(replaceTimes(v))`, `internal.Decode = msgpack.Unmarshal` into a
`*map[string]interface{}` followed by `removeLocalizedTimes` (/repo/internal/encoding.go:258-268,
/repo/internal/time.go).  `Clover/Model/Codec.lean` abstracts msgpack as a faithful serialiser of
`Wire` trees; this file makes the bytes concrete.  Library: github.com/vmihailenco/msgpack/v5
v5.3.5 (paths below are relative to that module), Go 1.23 `time.Time.MarshalBinary`.

## What the library does (read from the source, checked by running it)

ENCODER.  `Marshal` (encode.go:60) takes a pooled encoder and calls `enc.Reset` = `ResetDict(w,nil)`
(encode.go:104-114) which sets `flags = 0`, `dict = nil`: no `sortMapKeysFlag`, no
`useCompactIntsFlag`, no `useCompactFloatsFlag`, no interned strings.  Hence
  * `nil`                -> `c0`                                   (encode.go:242)
  * `bool`               -> `c2` / `c3`                            (encode.go:246-251)
  * `int64`              -> `d3` + 8 bytes big endian two's complement, ALWAYS in full:
                            `encodeInt64Cond` (encode_number.go:99-104) only compacts under
                            `useCompactIntsFlag`; both the `Encode` type switch (encode.go:208) and
                            the reflective `encodeInt64CondValue` (encode_number.go:242, used for the
                            elements of a `[]interface{}`) end there
  * `uint64`             -> `cf` + 8 bytes                         (encode_number.go:51-56, 47)
  * `float64`            -> `cb` + 8 bytes of `math.Float64bits`   (encode_number.go:154-165)
  * `string`             -> `encodeStringLen` (encode_slice.go:54-65): `a0|l` (l < 32), `d9 l`
                            (l < 256), `da` + 2 bytes (l <= 65535), `db` + 4 bytes; then the bytes
  * `[]interface{}`      -> `EncodeArrayLen` (encode_slice.go:91-99): `90|l` (l < 16), `dc` + 2 bytes
                            (l <= 65535), `dd` + 4 bytes; then the elements (encode_slice.go:128-139)
  * `map[string]interface{}` -> `EncodeMapLen` (encode_map.go:136-144): `80|l` (l < 16), `de` + 2
                            bytes, `df` + 4 bytes; then for each entry `EncodeString(key)`,
                            `Encode(value)` in Go map iteration order = UNSPECIFIED order
                            (`EncodeMap`, encode_map.go:70-86; `EncodeMapSorted` is not used because
                            the flag is off).  The model writes the entries in the order of the
                            association list; `Clover/Proofs/Msgpack.lean` proves that the decoder
                            does not depend on that order.
  * `*LocalizedTime`     -> registered extension id 1 (/repo/internal/time.go:11): `makeExtEncoder`
                            (ext.go:71-94) writes `encodeExtLen(len(b))` (ext.go:176-196: `d4..d8` for
                            lengths 1,2,4,8,16, else `c7 l` / `c8` + 2 / `c9` + 4), the id byte, then
                            `b = (*LocalizedTime).MarshalMsgpack()` (/repo/internal/time.go:26-41):
                            `GobEncode() = time.MarshalBinary()` except for a negative zone offset
                            with a seconds component (see below).  The payload has 15 bytes
                            (version 1: header `c7 0f 01`) or 16 bytes (version 2: header `d8 01`,
                            i.e. FIXEXT16).
  `replaceTimes` makes slices with `make` and maps with `CopyMap`, so no nil slice / nil map (which
  msgpack would write as `c0`) reaches the encoder.

`time.MarshalBinary` (time/time.go:1279-1324): version byte (1; 2 when the zone offset has a seconds
component), 8 bytes seconds since 1 Jan of year 1 (= Unix seconds + 62135596800), 4 bytes
nanoseconds, 2 bytes zone offset in MINUTES as int16 where -1 stands for the UTC location, and in
version 2 one more byte: the seconds of the offset as int8.  Division and remainder are Go's
(truncating).  An offset whose minutes are -1 (offsets -119..-60 seconds) or outside int16 makes
`MarshalBinary` FAIL ("unexpected zone offset").  This standard layout is `gobTimeStd`.

`(*LocalizedTime).MarshalMsgpack` (/repo/internal/time.go:26-41, REPAIRED) uses the standard layout
only when `offset >= 0 || offset%60 == 0`.  For a negative offset that is not a whole number of
minutes it writes version 2 with minutes := offset/60 - 1 (Go's truncating division; = floor for
these offsets) as int16 big endian — `byte(min>>8), byte(min)`, no range check — and seconds :=
offset - minutes*60, which lies in 1..59; the instant comes from `tm.UTC().GobEncode()`.  The reason:
`UnmarshalBinary` reads the seconds byte UNSIGNED, so the standard layout (seconds int8, negative)
does not round-trip there (see below), and it refuses -119..-61 altogether.  `gobTime` is this
encoder.  The offset -60 s still goes to `MarshalBinary` and is still refused (`Encode` fails).

The model's `.ltime ns off` is (UnixNano, zone offset in seconds) — what the harness compares
(/verif/harness/val.go:43-45).  The harness builds a time with offset 0 in `time.UTC` and any other
offset in `time.FixedZone("", off)` (val.go:75-81), so the encoder model writes offset 0 as the UTC
marker -1 (`ff ff`).  (`FixedZone("",0)`, or a named zone that is at offset 0, would write `00 00`;
that decodes to the same (ns, 0), see `gobDecode`.)

DECODER.  `Unmarshal` (decode.go:54-63) resets the flags to 0 (no loose interface decoding) and
calls `Decode(*map[string]interface{})` -> `decodeMapStringInterfacePtr` -> `DecodeMap`
(decode_map.go:131-165): map length (`DecodeMapLen`/`mapLen`, decode_map.go:53-88), then per entry
`DecodeString` for the key and `DecodeInterface` for the value, stored into a Go map: a duplicate
key overwrites (LAST wins) and the order of the entries is forgotten.  The model builds every map
with the sorted insert-or-replace `insertKeyG` (= `insertKey` of Clover/Model/Doc.lean at another
element type), at every level, so the result does not depend on the order of the entries either.
NOTE `Unmarshal` reads ONE value and IGNORES whatever follows it (there is no end-of-input check):
`decDocBytes` does the same; `decDocBytesStrict` additionally rejects trailing bytes.

`DecodeInterface` (decode.go:378-444) returns, code by code:
  * `c0` nil; `c2`/`c3` bool; `d3` int64; `cf` uint64; `cb` float64        — IN the model
  * `a0..bf`, `d9`, `da`, `db` string (`d.string`, decode_string.go:46-60)      — IN the model
  * `90..9f`, `dc`, `dd` `[]interface{}` (`decodeSlice`, decode_slice.go:157-176) — IN the model
  * `80..8f`, `de`, `df` `map[string]interface{}` (`decodeMapDefault` -> `DecodeMap`) — IN the model
  * `d4..d8`, `c7`, `c8`, `c9` extension (`decodeInterfaceExt`, ext.go:246-267): length, id byte,
    then for id 1 the payload goes to `GobDecode` = `time.UnmarshalBinary` and a `*LocalizedTime`
    comes back                                                                  — IN the model
and the following, which are OUT of the model (`decWire` answers `none`; the encoder never emits
them; the correspondence check must skip them):
  * `00..7f`, `e0..ff` fixint -> Go `int8`; `cc` `uint8`; `cd` `uint16`; `ce` `uint32`; `d0` `int8`;
    `d1` `int16`; `d2` `int32`; `ca` `float32`: Go types that a normalised clover document never holds
  * `c4`, `c5`, `c6` bin as a VALUE -> `[]byte`
  * extension id -1 (`ff`): msgpack's own timestamp -> `time.Time` in the LOCAL zone (time.go:12-33,
    122-145); any other extension id, and `c1`, are decoding ERRORS in Go (also `none` here)
  * a `*LocalizedTime` payload with nanoseconds >= 10^9 (Go stores the raw value in the wall word:
    not a proper time) or whose UnixNano does not fit int64 (Go's `UnixNano` is undefined there)
  * at TOP level only: `c0` (Go answers a nil map without error) and a map preceded by an extension
    header (`DecodeMapLen` skips it, decode_map.go:59-68)
A map KEY is read by `DecodeString` (decode_string.go:34-60, `bytesLen` :10-32), which accepts
`c0` (the empty key), fixstr/str8/str16/str32 and ALSO bin8/bin16/bin32: `decKey` accepts all of
these.

`time.UnmarshalBinary` (time/time.go:1327-1372): version 1 needs exactly 15 bytes, version 2 exactly
16; offset = int16 minutes * 60, plus — version 2 — `int(buf[2])` where `buf[2]` is a BYTE: the
seconds are read UNSIGNED although `MarshalBinary` wrote an int8.  So a NEGATIVE offset with a
seconds component does not round-trip through Go's own pair (-3630 s comes back as -3374 s; checked
by running Go 1.23.5) — which is why clover's `MarshalMsgpack` does not use `MarshalBinary` there.
With the repaired encoder every offset in -1966080 .. 1966079 except -60 round-trips (`TimeOK`,
`gobDecode_gobTime` in Clover/Proofs/Msgpack.lean).  offset = -60 means UTC (offset 0 in the model), anything else `FixedZone("",offset)` or
`Local` when it coincides with the local offset — the same (ns, offset) either way. -/
namespace CV.Msgpack
open CV

/-! ## big endian -/

/-- `width` bytes, big endian; the value is truncated to `width` bytes like Go's `byte(n >> k)` -/
def be (n : Nat) : Nat → Bytes
  | 0 => []
  | w+1 => UInt8.ofNat (n / 256^w) :: be (n % 256^w) w

def ofBE : Bytes → Nat
  | [] => 0
  | b :: bs => b.toNat * 256^bs.length + ofBE bs

/-- `int64(uint64 n)` -/
def toInt64 (n : Nat) : Int := if n < 9223372036854775808 then n else (n : Int) - 18446744073709551616
/-- `int16(uint16 n)` -/
def toInt16 (n : Nat) : Int := if n < 32768 then n else (n : Int) - 65536
/-- `uint64(int64 i)` -/
def ofInt64 (i : Int) : Nat := (i % 18446744073709551616).toNat

/-- Go's truncating `/` and `%` on a dividend of either sign by a positive constant, written with
    the floor operations of `Int` on non-negative operands only -/
def goDiv (a : Int) (b : Int) : Int := if 0 ≤ a then a / b else -((-a) / b)
def goMod (a : Int) (b : Int) : Int := if 0 ≤ a then a % b else -((-a) % b)

/-! ## encoder -/

/-- `encodeStringLen` (encode_slice.go:54-65) -/
def encStrHdr (l : Nat) : Bytes :=
  if l < 32 then [UInt8.ofNat (0xa0 + l)]
  else if l < 256 then 0xd9 :: be l 1
  else if l ≤ 65535 then 0xda :: be l 2
  else 0xdb :: be l 4

/-- `encodeNormalString` (encode_slice.go:74-79) -/
def encStr (s : Bytes) : Bytes := encStrHdr s.length ++ s

/-- `EncodeArrayLen` (encode_slice.go:91-99) -/
def encArrHdr (l : Nat) : Bytes :=
  if l < 16 then [UInt8.ofNat (0x90 + l)]
  else if l ≤ 65535 then 0xdc :: be l 2
  else 0xdd :: be l 4

/-- `EncodeMapLen` (encode_map.go:136-144) -/
def encMapHdr (l : Nat) : Bytes :=
  if l < 16 then [UInt8.ofNat (0x80 + l)]
  else if l ≤ 65535 then 0xde :: be l 2
  else 0xdf :: be l 4

/-- `encodeExtLen` (ext.go:176-196) -/
def encExtLen (l : Nat) : Bytes :=
  if l = 1 then [0xd4] else if l = 2 then [0xd5] else if l = 4 then [0xd6]
  else if l = 8 then [0xd7] else if l = 16 then [0xd8]
  else if l ≤ 255 then 0xc7 :: be l 1
  else if l ≤ 65535 then 0xc8 :: be l 2
  else 0xc9 :: be l 4

/-- seconds between 1 Jan of year 1 and the Unix epoch (`unixToInternal`, time/time.go) -/
def unixToInternal : Int := 62135596800

/-- `time.Time.MarshalBinary` (time/time.go:1279-1324) of the instant `ns` (Unix nanoseconds) in a
    zone `off` seconds east of UTC — the STANDARD layout; offset 0 is the UTC location (marker -1).
    When Go's `MarshalBinary` fails (minutes = -1 or outside int16) the bytes written here are
    meaningless. -/
def gobTimeStd (ns off : Int) : Bytes :=
  let sec : Int := ns / 1000000000 + unixToInternal
  let nsec : Int := ns % 1000000000
  let r : Int := goMod off 60
  let q : Int := if off = 0 then -1 else goDiv off 60
  if r = 0 then
    1 :: (be (ofInt64 sec) 8 ++ (be nsec.toNat 4 ++ be (q % 65536).toNat 2))
  else
    2 :: (be (ofInt64 sec) 8 ++ (be nsec.toNat 4 ++ (be (q % 65536).toNat 2 ++ be (r % 256).toNat 1)))

/-- `(*LocalizedTime).MarshalMsgpack` (/repo/internal/time.go:26-41): the standard layout when
    `offset >= 0 || offset%60 == 0`; otherwise version 2 with the minutes rounded DOWN
    (`offset/60 - 1`, truncating division) and the seconds `offset - min*60` in 1..59.  Where Go
    fails (offset -60: `MarshalBinary` refuses; minutes outside int16 in the standard branch; rounded-down
    minutes below -32768 in the repaired branch, refused since 24a08c0) the bytes written here are
    meaningless: those offsets are excluded by `TimeOK`. -/
def gobTime (ns off : Int) : Bytes :=
  if 0 ≤ off ∨ goMod off 60 = 0 then gobTimeStd ns off
  else
    let sec : Int := ns / 1000000000 + unixToInternal
    let nsec : Int := ns % 1000000000
    let min : Int := goDiv off 60 - 1
    let s : Int := off - min * 60
    2 :: (be (ofInt64 sec) 8 ++ (be nsec.toNat 4 ++ (be (min % 65536).toNat 2 ++ be (s % 256).toNat 1)))

/-- the extension id under which `*LocalizedTime` is registered (/repo/internal/time.go:11) -/
def localizedTimeExt : UInt8 := 1

mutual
/-- `msgpack.Marshal` of a value after `replaceTimes` — the exact bytes -/
def encWire : Wire → Bytes
  | .null => [0xc0]
  | .bool b => [if b then 0xc3 else 0xc2]
  | .num (.int i) => 0xd3 :: be (ofInt64 i) 8
  | .num (.uint u) => 0xcf :: be u 8
  | .num (.float bits) => 0xcb :: be bits 8
  | .str s => encStr s
  | .ltime ns off => encExtLen (gobTime ns off).length ++ (localizedTimeExt :: gobTime ns off)
  | .arr xs => encArrHdr xs.length ++ encWireL xs
  | .obj kvs => encMapHdr kvs.length ++ encWireKV kvs
def encWireL : List Wire → Bytes
  | [] => []
  | x :: xs => encWire x ++ encWireL xs
/-- the entries in the order of the association list (Go: unspecified order) -/
def encWireKV : List (Bytes × Wire) → Bytes
  | [] => []
  | (k, x) :: xs => encStr k ++ (encWire x ++ encWireKV xs)
end

/-- `internal.Encode`: the top level is a map -/
def encDocBytes (d : Doc) : Bytes := encWire (.obj (encodeDoc d))

/-! ## decoder -/

/-- `readN` -/
def takeN (n : Nat) (bs : Bytes) : Option (Bytes × Bytes) :=
  if bs.length < n then none else some (bs.take n, bs.drop n)

/-- `d.uint8()` / `d.uint16()` / `d.uint32()` / `d.uint64()` (decode_number.go:16-73) -/
def readBE (w : Nat) (bs : Bytes) : Option (Nat × Bytes) :=
  match takeN w bs with
  | none => none
  | some (a, r) => some (ofBE a, r)

/-- sorted insert-or-replace: `insertKey` of Clover/Model/Doc.lean at any element type
    (`m[k] = v` on a Go map, seen through the sorted association list) -/
def insertKeyG {α : Type} (k : Bytes) (v : α) : List (Bytes × α) → List (Bytes × α)
  | [] => [(k, v)]
  | (k', v') :: t =>
    if OC.lexLt k k' then (k, v) :: (k', v') :: t
    else if k = k' then (k, v) :: t
    else (k', v') :: insertKeyG k v t

/-- `d.stringWithLen` after the length is known (decode_string.go:54-60) -/
def decStrBody (n : Nat) (bs : Bytes) : Option (Wire × Bytes) :=
  match takeN n bs with
  | none => none
  | some (s, r) => some (.str s, r)

/-- length prefix of `w` bytes, then the string -/
def decStrN (w : Nat) (bs : Bytes) : Option (Wire × Bytes) :=
  match readBE w bs with
  | none => none
  | some (n, r) => decStrBody n r

/-- length prefix of `w` bytes, then the key -/
def decKeyN (w : Nat) (bs : Bytes) : Option (Bytes × Bytes) :=
  match readBE w bs with
  | none => none
  | some (l, r) => takeN l r

/-- `d.string(c)` for a map key after the code byte `n` (decode_string.go:46-60, `bytesLen` :10-32) -/
def decKeyBody (n : Nat) (bs : Bytes) : Option (Bytes × Bytes) :=
  if n = 0xc0 then some ([], bs)                          -- nil: the empty key
  else if 0xa0 ≤ n ∧ n ≤ 0xbf then takeN (n - 0xa0) bs    -- fixstr
  else if n = 0xd9 ∨ n = 0xc4 then decKeyN 1 bs           -- str8 / bin8
  else if n = 0xda ∨ n = 0xc5 then decKeyN 2 bs           -- str16 / bin16
  else if n = 0xdb ∨ n = 0xc6 then decKeyN 4 bs           -- str32 / bin32
  else none

/-- `DecodeString` for a map key (decode_string.go:34-44): nil, str and bin formats -/
def decKey : Bytes → Option (Bytes × Bytes)
  | [] => none
  | c :: bs => decKeyBody c.toNat bs

/-- `decodeSlice` (decode_slice.go:157-176): `n` elements -/
def decList (dec : Bytes → Option (Wire × Bytes)) : Nat → Bytes → Option (List Wire × Bytes)
  | 0, bs => some ([], bs)
  | n+1, bs =>
    match dec bs with
    | none => none
    | some (x, r) =>
      match decList dec n r with
      | none => none
      | some (xs, r') => some (x :: xs, r')

/-- the loop of `DecodeMap` (decode_map.go:152-162): `n` entries assigned into the map `acc` -/
def decKVs (dec : Bytes → Option (Wire × Bytes)) :
    Nat → Bytes → List (Bytes × Wire) → Option (List (Bytes × Wire) × Bytes)
  | 0, bs, acc => some (acc, bs)
  | n+1, bs, acc =>
    match decKey bs with
    | none => none
    | some (k, r) =>
      match dec r with
      | none => none
      | some (v, r') => decKVs dec n r' (insertKeyG k v acc)

def decArrBody (dec : Bytes → Option (Wire × Bytes)) (n : Nat) (bs : Bytes) : Option (Wire × Bytes) :=
  match decList dec n bs with
  | none => none
  | some (xs, r) => some (.arr xs, r)

def decArrN (dec : Bytes → Option (Wire × Bytes)) (w : Nat) (bs : Bytes) : Option (Wire × Bytes) :=
  match readBE w bs with
  | none => none
  | some (n, r) => decArrBody dec n r

def decMapBody (dec : Bytes → Option (Wire × Bytes)) (n : Nat) (bs : Bytes) : Option (Wire × Bytes) :=
  match decKVs dec n bs [] with
  | none => none
  | some (m, r) => some (.obj m, r)

def decMapN (dec : Bytes → Option (Wire × Bytes)) (w : Nat) (bs : Bytes) : Option (Wire × Bytes) :=
  match readBE w bs with
  | none => none
  | some (n, r) => decMapBody dec n r

/-- the tail of `time.UnmarshalBinary` (time/time.go:1346-1370) once seconds, nanoseconds, offset
    minutes and (version 2) the offset-seconds BYTE are known; `none` = out of the model -/
def mkTime (sec nsec om sb : Nat) : Option (Int × Int) :=
  let offset : Int := toInt16 om * 60 + (sb : Int)       -- `int(buf[2])`: the byte, UNSIGNED
  let ns : Int := (toInt64 sec - unixToInternal) * 1000000000 + (nsec : Int)
  if 1000000000 ≤ nsec then none
  else if ns < -9223372036854775808 ∨ 9223372036854775808 ≤ ns then none
  else some (ns, if offset = -60 then 0 else offset)     -- -1 minute is the UTC marker

/-- `time.UnmarshalBinary` (time/time.go:1327-1372) as (UnixNano, zone offset seconds) -/
def gobDecode : Bytes → Option (Int × Int)
  | [] => none
  | v :: p =>
    if v = 1 ∨ v = 2 then
      match readBE 8 p with
      | none => none
      | some (sec, p1) =>
        match readBE 4 p1 with
        | none => none
        | some (nsec, p2) =>
          match readBE 2 p2 with
          | none => none
          | some (om, p3) =>
            if v = 1 then (if p3 = [] then mkTime sec nsec om 0 else none)
            else match p3 with
              | [b] => mkTime sec nsec om b.toNat
              | _ => none
    else none

/-- `decodeInterfaceExt` after the length (ext.go:206-267): id byte, payload -/
def decExtBody (l : Nat) (bs : Bytes) : Option (Wire × Bytes) :=
  match bs with
  | [] => none
  | id :: r =>
    if id = localizedTimeExt then
      match takeN l r with
      | none => none
      | some (p, rest) =>
        match gobDecode p with
        | none => none
        | some (ns, off) => some (.ltime ns off, rest)
    else none

def decExtN (w : Nat) (bs : Bytes) : Option (Wire × Bytes) :=
  match readBE w bs with
  | none => none
  | some (l, r) => decExtBody l r

def decNum (f : Nat → Num) (bs : Bytes) : Option (Wire × Bytes) :=
  match readBE 8 bs with
  | none => none
  | some (n, r) => some (.num (f n), r)

/-- `DecodeInterface` (decode.go:378-444) after the code byte `n` has been read; `dec` decodes the
    nested values -/
def decBody (dec : Bytes → Option (Wire × Bytes)) (n : Nat) (bs : Bytes) : Option (Wire × Bytes) :=
  if n ≤ 0x7f then none                                   -- positive fixint -> int8
  else if n ≤ 0x8f then decMapBody dec (n - 0x80) bs      -- fixmap
  else if n ≤ 0x9f then decArrBody dec (n - 0x90) bs      -- fixarray
  else if n ≤ 0xbf then decStrBody (n - 0xa0) bs          -- fixstr
  else if n = 0xc0 then some (.null, bs)
  else if n = 0xc2 then some (.bool false, bs)
  else if n = 0xc3 then some (.bool true, bs)
  else if n = 0xcb then decNum (fun b => .float b) bs
  else if n = 0xcf then decNum (fun u => .uint u) bs
  else if n = 0xd3 then decNum (fun u => .int (toInt64 u)) bs
  else if n = 0xd9 then decStrN 1 bs
  else if n = 0xda then decStrN 2 bs
  else if n = 0xdb then decStrN 4 bs
  else if n = 0xdc then decArrN dec 2 bs
  else if n = 0xdd then decArrN dec 4 bs
  else if n = 0xde then decMapN dec 2 bs
  else if n = 0xdf then decMapN dec 4 bs
  else if n = 0xd4 then decExtBody 1 bs
  else if n = 0xd5 then decExtBody 2 bs
  else if n = 0xd6 then decExtBody 4 bs
  else if n = 0xd7 then decExtBody 8 bs
  else if n = 0xd8 then decExtBody 16 bs
  else if n = 0xc7 then decExtN 1 bs
  else if n = 0xc8 then decExtN 2 bs
  else if n = 0xc9 then decExtN 4 bs
  else none       -- c1, bin c4-c6, float32 ca, uint8/16/32 cc-ce, int8/16/32 d0-d2, negative fixint

/-- one value: read the code byte, then `decBody` -/
def decWire1 (dec : Bytes → Option (Wire × Bytes)) : Bytes → Option (Wire × Bytes)
  | [] => none
  | c :: bs => decBody dec c.toNat bs

/-- `DecodeInterface`: the value and the rest of the input.  The fuel bounds the NESTING DEPTH only
    (array elements and map entries are iterated by `decList`/`decKVs` without using fuel); every
    level consumes at least its code byte, so `fuel = length of the input` is always enough. -/
def decWire : Nat → Bytes → Option (Wire × Bytes)
  | 0, _ => none
  | fuel+1, bs => decWire1 (decWire fuel) bs

/-- `internal.Decode`: `msgpack.Unmarshal` into a map, then `removeLocalizedTimes`.  Like Go it
    reads one value and ignores what follows.  Maps are built with `insertKeyG` at every level, so
    the answer does not depend on the order of the entries in the input, and of two entries with the
    same key the later one wins. -/
def decDocBytes (bs : Bytes) : Option Doc :=
  match decWire bs.length bs with
  | some (.obj kvs, _) => some (decodeDoc kvs)
  | _ => none

/-- the same, rejecting trailing bytes (stricter than the library) -/
def decDocBytesStrict (bs : Bytes) : Option Doc :=
  match decWire bs.length bs with
  | some (.obj kvs, []) => some (decodeDoc kvs)
  | _ => none

end CV.Msgpack
