import Clover.Model.Doc
/-! # Go values and their normalisation to canonical types (internal/encoding.go `Normalize`)

`GoVal` describes a Go value as `reflect` sees it after pointers are followed: every integer width
is one constructor (the code reads them with `reflect.Value.Int/Uint/Float`).  `[]byte` (returned as
is by an explicit branch of the code) and non-time `encoding.BinaryMarshaler`s are outside the
canonical types and are not described. -/
namespace CV

structure GoField where
  name : Bytes            -- Go field name
  tagName : Bytes         -- first component of the `clover` tag ("" when absent)
  omitempty : Bool        -- second component is "omitempty"
  exported : Bool
  embedded : Bool
deriving Inhabited

inductive GoVal
  | nilIface
  | int (v : Int)                   -- int, int8 … int64
  | uint (v : Nat)                  -- uint, uint8 … uint64
  | float (bits : Nat)              -- float32 / float64, as the float64 `reflect.Value.Float()` returns
  | str (s : Bytes)
  | bool (b : Bool)
  | time (ns : Int) (off : Int)
  | ptr (p : Option GoVal)          -- nil pointer, or pointer to a value
  | list (xs : List GoVal)          -- slice or array
  | strMap (kvs : List (Bytes × GoVal))   -- map with string keys
  | otherMap                        -- map with any other key type
  | struct (fields : List (GoField × GoVal))
  | unsupported                     -- chan, func, complex, unsafe pointer …
deriving Inhabited

/-- `isEmptyValue` on the static kind of a struct field -/
def GoVal.isEmptyValue : GoVal → Bool
  | .list xs => xs.isEmpty
  | .strMap kvs => kvs.isEmpty
  | .str s => s.isEmpty
  | .bool b => !b
  | .int v => v == 0
  | .uint v => v == 0
  | .float bits => bits % 2^63 == 0      -- ±0
  | .ptr none => true
  | .nilIface => true
  | _ => false

inductive NErr | unsupportedType | mapKey
deriving DecidableEq, Repr

mutual
/-- `Normalize` -/
def normalize : GoVal → Except NErr Value
  | .nilIface => .ok .null
  | .int v => .ok (.num (.int v))
  | .uint v => .ok (.num (.uint v))
  | .float b => .ok (.num (.float b))
  | .str s => .ok (.str s)
  | .bool b => .ok (.bool b)
  | .time ns off => .ok (.time ns off)
  | .ptr none => .ok .null
  | .ptr (some v) => normalize v
  | .list xs => (normalizeL xs).map .arr
  | .strMap kvs => (normalizeKV kvs).map .obj
  | .otherMap => .error .mapKey
  | .struct fs => (normalizeFields fs).map .obj
  | .unsupported => .error .unsupportedType
def normalizeL : List GoVal → Except NErr (List Value)
  | [] => .ok []
  | x :: xs =>
    match normalize x, normalizeL xs with
    | .ok v, .ok vs => .ok (v :: vs)
    | .error e, _ => .error e
    | _, .error e => .error e
/-- `normalizeMap`: a Go map has unique keys; the result is the sorted association list -/
def normalizeKV : List (Bytes × GoVal) → Except NErr Doc
  | [] => .ok []
  | (k, x) :: xs =>
    match normalize x, normalizeKV xs with
    | .ok v, .ok d => .ok (insertKey k v d)
    | .error e, _ => .error e
    | _, .error e => .error e
/-- `normalizeStruct`: fields in declaration order, later fields overwrite earlier ones of the same name -/
def normalizeFields : List (GoField × GoVal) → Except NErr Doc
  | [] => .ok []
  | (f, x) :: rest =>
    match normalizeFields rest with
    | .error e => .error e
    | .ok d =>
      -- the Go loop runs first to last; processing the tail first and letting the head NOT overwrite
      -- would be wrong, so the head is applied to the result of the tail only where the tail has no such key
      if !f.exported then .ok d
      else if f.omitempty && x.isEmptyValue then .ok d
      else match normalize x with
        | .error e => .error e
        | .ok v =>
          let name := if f.tagName.isEmpty then f.name else f.tagName
          let put (k : Bytes) (v : Value) (d : Doc) : Doc := if (lookupKey k d).isSome then d else insertKey k v d
          if !f.embedded then .ok (put name v d)
          else match v with
            | .obj sub => .ok (sub.foldr (fun (kv : Bytes × Value) acc => put kv.1 kv.2 acc) d)
            | _ => .ok (put name v d)
end

/-- `Document.Set(name, goValue)`: an unsupported value leaves the document unchanged -/
def Doc.setGo (d : Doc) (name : Bytes) (g : GoVal) : Doc :=
  match normalize g with
  | .ok v => d.set name v
  | .error _ => d

mutual
/-- a canonical value seen as a Go value -/
def embed : Value → GoVal
  | .null => .nilIface
  | .num (.int i) => .int i
  | .num (.uint u) => .uint u
  | .num (.float b) => .float b
  | .str s => .str s
  | .bool b => .bool b
  | .time ns off => .time ns off
  | .arr xs => .list (embedL xs)
  | .obj kvs => .strMap (embedKV kvs)
def embedL : List Value → List GoVal
  | [] => []
  | x :: xs => embed x :: embedL xs
def embedKV : List (Bytes × Value) → List (Bytes × GoVal)
  | [] => []
  | (k, x) :: xs => (k, embed x) :: embedKV xs
end


mutual
/-- no object anywhere inside (scalars, times, slices of them) -/
def NoObj : Value → Prop
  | .obj _ => False
  | .arr xs => NoObjL xs
  | _ => True
def NoObjL : List Value → Prop
  | [] => True
  | x :: xs => NoObj x ∧ NoObjL xs
end

end CV
