import Clover.Model.Value
/-! # Documents and dotted paths (document/document.go)

A document is the field map of `Document`: an association list sorted by key without duplicates
(sortedness is a well-formedness theorem, not a subtype). -/
namespace CV

abbrev Doc := List (Bytes × Value)

def dot : UInt8 := 0x2E

/-- `strings.Split(name, ".")` -/
def splitDots : Bytes → List Bytes
  | [] => [[]]
  | c :: cs =>
    if c = dot then [] :: splitDots cs
    else match splitDots cs with
      | [] => [[c]]            -- unreachable: splitDots never returns []
      | h :: t => (c :: h) :: t

def lookupKey (k : Bytes) : Doc → Option Value
  | [] => none
  | (k', v) :: t => if k = k' then some v else lookupKey k t

/-- sorted insert-or-replace -/
def insertKey (k : Bytes) (v : Value) : Doc → Doc
  | [] => [(k, v)]
  | (k', v') :: t =>
    if OC.lexLt k k' then (k, v) :: (k', v') :: t
    else if k = k' then (k, v) :: t
    else (k', v') :: insertKey k v t

/-- `lookupField(name, fields, force=false)`: `none` = the field does not exist -/
def getPath : Doc → List Bytes → Option Value
  | _, [] => none
  | m, [k] => lookupKey k m
  | m, k :: rest =>
    match lookupKey k m with
    | some (.obj sub) => getPath sub rest
    | _ => none

/-- `lookupField(name, fields, force=true)` followed by the assignment of `Set` -/
def setPath : Doc → List Bytes → Value → Doc
  | m, [], _ => m
  | m, [k], v => insertKey k v m
  | m, k :: rest, v =>
    let sub := match lookupKey k m with
      | some (.obj sub) => sub
      | _ => []
    insertKey k (.obj (setPath sub rest v)) m

def Doc.has (d : Doc) (name : Bytes) : Bool := (getPath d (splitDots name)).isSome
/-- `Get`: nil when the field does not exist -/
def Doc.get (d : Doc) (name : Bytes) : Value := (getPath d (splitDots name)).getD .null
def Doc.set (d : Doc) (name : Bytes) (v : Value) : Doc := setPath d (splitDots name) v

def idField : Bytes := [0x5F, 0x69, 0x64]   -- "_id"

/-- `ObjectId()`: the `_id` field when it is a string, "" otherwise -/
def Doc.objectId (d : Doc) : Bytes :=
  match d.get idField with
  | .str s => s
  | _ => []

end CV
