import Clover.Model.Doc
import Clover.Model.Unmarshal
/-! # `Document.Unmarshal`, the repaired key renaming (defect F40): embedded structs and structs held in
    slices / arrays / maps
    (internal/encoding.go `createRenameMap`, `rename`, `getElemType`, `renameMapKeys`, `renameValue`,
    called by `Convert`; `normalizeStruct` flattens the fields of an EMBEDDED struct into the map of
    the parent on the way in)

`renameMapKeys` used to descend only into direct struct-typed fields.  Now
  * an embedded (Anonymous) struct field whose fields were flattened into the parent map (the parent
    map has no MAP under the Go name of the field): `renameMapKeys` on the SAME map with the embedded
    type;
  * every other field found under its json name goes through `renameValue(value, fieldType)`, which
    recurses by TYPE: struct (the value must be a map), slice / array (a list: elementwise), map (a
    map: valuewise); pointers are followed (`getElemType`). -/
namespace CV.U2

/-- the static type of an Unmarshal target, pointers already followed (`getElemType`).  A field is
    `(Go name, clover tag name ("" = none), json tag name ("" = none), embedded (Anonymous), type)` -/
inductive RT
  | leaf
  | struct (fields : List (Bytes × Bytes × Bytes × Bool × RT))
  | list (elem : RT)          -- slice or array
  | map (elem : RT)
deriving Inhabited

def RT.isStruct : RT → Bool
  | .struct _ => true
  | _ => false

/-- a field of a target struct: Go name, `clover` tag, `json` tag, embedded, type -/
abbrev RField := Bytes × Bytes × Bytes × Bool × RT

def RField.goName (f : RField) : Bytes := f.1
def RField.cloverTag (f : RField) : Bytes := f.2.1
def RField.jsonTag (f : RField) : Bytes := f.2.2.1
def RField.embedded (f : RField) : Bool := f.2.2.2.1
def RField.type (f : RField) : RT := f.2.2.2.2

/-- `createRenameMap`: a Go map, so a later field with the same source key wins.  An embedded field
    takes part like any other field. -/
def renameMap : List RField → List (Bytes × Bytes)
  | [] => []
  | (g, c, j, _, _) :: rest =>
    let rm := renameMap rest
    if (lookupKey (fromName g c) (rm.map (fun p => (p.1, Value.str p.2)))).isSome then rm   -- overwritten by a later field
    else if fromName g c = toName g j then rm else (fromName g c, toName g j) :: rm

/-- `rename`: every key moves to its target simultaneously -/
def renameTop (rm : List (Bytes × Bytes)) (d : Doc) : Doc := CV.renameTop rm d

/-- `_, isMap := renamed[sf.Name].(map[string]interface{})` -/
def hasMapUnder (g : Bytes) (d : Doc) : Bool :=
  match lookupKey g d with
  | some (.obj _) => true
  | _ => false

mutual
/-- the loop over the fields of `renameMapKeys`, on the map `renamed` -/
def renameFields : List (Bytes × Bytes × Bytes × Bool × RT) → Doc → Doc
  | [], d => d
  | (g, _, j, e, t) :: rest, d =>
    -- the field sits under its json name (when it has one) after renaming:
    -- `if fv, found := renamed[key]; found { renamed[key] = renameValue(fv, sf.Type) }`
    let direct : Doc := match lookupKey (toName g j) d with
      | some v => insertKey (toName g j) (renameValue t v) d
      | none => d
    -- `sf.Anonymous && ft.Kind() == reflect.Struct`, and no MAP under the Go name: the fields of the
    -- embedded struct were flattened into this map:
    -- `renamed = renameMapKeys(renamed, reflect.New(ft).Interface()); continue`
    let flattened : Doc := match t with
      | .struct sub => renameFields sub (renameTop (renameMap sub) d)
      | _ => direct
    renameFields rest (if e && t.isStruct && !hasMapUnder g d then flattened else direct)
/-- `renameValue`, by the static type -/
def renameValue : RT → Value → Value
  | .struct fs, .obj m => .obj (renameFields fs (renameTop (renameMap fs) m))   -- `renameMapKeys(m, reflect.New(t))`
  | .list elem, .arr xs => .arr (xs.map (renameValue elem))
  | .map elem, .obj m => .obj (m.map (fun kv => (kv.1, renameValue elem kv.2)))
  | _, v => v
end

/-- `renameMapKeys`: a target that is not a struct leaves the map alone; otherwise `rename`, then the
    loop over the fields -/
def renameMapKeys : RT → Doc → Doc
  | .struct fs, d => renameFields fs (renameTop (renameMap fs) d)
  | _, d => d

mutual
/-- the old types: no embedded fields, no containers -/
def embedOld : RType → RT
  | .leaf => .leaf
  | .struct fs => .struct (embedOldFields fs)
def embedOldFields : List (Bytes × Bytes × Bytes × RType) → List (Bytes × Bytes × Bytes × Bool × RT)
  | [] => []
  | (g, c, j, t) :: rest => (g, c, j, false, embedOld t) :: embedOldFields rest
end

end CV.U2
