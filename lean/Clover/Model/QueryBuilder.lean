import Clover.Model.Plan
/-! # The query builders (query/query.go): `NewQuery`, `Where`, `Skip`, `Limit`, `Sort`

Each builder returns a new query (the Go methods copy the receiver); the stored fields are the
normalised ones the plan reads. -/
namespace CV

/-- `NewQuery(collection)`: no criteria, skip 0, limit -1 (unlimited), no sort -/
def Query.new (coll : Bytes) : Query := { coll := coll, crit := none, skip := 0, limit := -1, sort := [] }

/-- `Where(c)` -/
def Query.whereB (q : Query) (c : Crit) : Query := { q with crit := some c }

/-- `Skip(n)`: a negative `n` is ignored -/
def Query.skipB (q : Query) (n : Int) : Query := if n ≥ 0 then { q with skip := n.toNat } else q

/-- `Limit(n)`: stored as given; a negative limit means unlimited -/
def Query.limitB (q : Query) (n : Int) : Query := { q with limit := n }

/-- `normalizeSortOptions`: any direction ≥ 0 is ascending (1), any negative one descending (-1) -/
def normalizeSortOptions (opts : List (Bytes × Int)) : List (Bytes × Int) :=
  opts.map (fun o => (o.1, if o.2 ≥ 0 then (1 : Int) else -1))

/-- `Sort(opts...)`: without options, by `_id` ascending -/
def Query.sortB (q : Query) (opts : List (Bytes × Int)) : Query :=
  { q with sort := if opts.isEmpty then [(idField, 1)] else normalizeSortOptions opts }

end CV
