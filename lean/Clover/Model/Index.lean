import Clover.Model.Store
import Clover.Model.Planner
import Clover.Probe.Keys
/-! # The range index over the ordered store (index/range_index.go) -/
namespace CV
open StoreM

def idxKey (c f : Bytes) (v : Value) (id : Bytes) : Bytes := Keys.idxPrefix c f ++ (goKeyTail v ++ id)
/-- `getKey`: the key of a range bound -/
def rangeBoundKey (c f : Bytes) (v : Value) : Bytes := Keys.idxPrefix c f ++ goKeyTail v

/-- `extractDocId`: the last 36 bytes of an entry key, and what precedes them -/
def extractId (k : Bytes) : Bytes := k.drop (k.length - 36)
def stripId (k : Bytes) : Bytes := k.take (k.length - 36)

inductive Flow | cont | stop
deriving DecidableEq, Inhabited

variable {β : Type}

/-- `for ; cursor.Valid(); cursor.Next() { item; if !HasPrefix(item.Key, bound) break }` -/
def skipEq (bound : Bytes) : KVS → StoreM KVS
  | [] => pure []
  | e :: rest => do
    item e.1
    if Keys.isPrefix bound e.1 then skipEq bound rest else pure (e :: rest)

/-- the main loop of `IterateRange` / `Iterate` -/
def scanLoop (pfx : Bytes) (stopTest : Bytes → Bool) (onId : β → Bytes → StoreM (β × Flow)) :
    β → KVS → StoreM β
  | acc, [] => pure acc
  | acc, e :: rest => do
    item e.1
    if !Keys.isPrefix pfx e.1 then pure acc
    else if stopTest (stripId e.1) then pure acc
    else
      let (acc', fl) ← onId acc (extractId e.1)
      match fl with
      | .stop => pure acc'
      | .cont => scanLoop pfx stopTest onId acc' rest

def boundTest (bound : Option Bytes) (active incl upper : Bool) (p : Bytes) : Bool :=
  let c := OC.cmpB p (bound.getD [])
  active && (if upper then (c > 0 || (c == 0 && !incl)) else (c < 0 || (c == 0 && !incl)))

/-- what `IterateRange` computes before touching the cursor: where the cursor lands after `Seek`
    (the remaining entries in iteration order), the bound whose equal entries are skipped first (an
    excluded start, resp. end when reversed), and the stop test of the main loop -/
structure ScanPlan where
  items : KVS
  skip : Option Bytes
  stopTest : Bytes → Bool

/-- where a reverse scan seeks: just after every entry of the end value (`endKey ‖ 0xFF`), or after
    the whole index when there is no end bound -/
def revSeekKey (endKey : Option Bytes) (pfx : Bytes) : Bytes :=
  match endKey with
  | some e => e ++ [255]
  | none => pfx ++ [255]

def rangePlan (kv : KVS) (c f : Bytes) (r : Range) (rev : Bool) : ScanPlan :=
  let pfx := Keys.idxPrefix c f
  let startKey : Option Bytes := if r.isNilR || !r.start.isNull then some (rangeBoundKey c f r.start) else none
  let endKey : Option Bytes := if r.isNilR || !r.stop.isNull then some (rangeBoundKey c f r.stop) else none
  if !rev then
    { items := seekFwd kv (startKey.getD pfx)
      skip := if !r.start.isNull && !r.si then some (startKey.getD []) else none
      stopTest := boundTest endKey (!r.stop.isNull || r.isNilR) r.ei true }
  else
    { items := seekRev kv (revSeekKey endKey pfx)
      skip := if !r.stop.isNull && !r.ei then some (endKey.getD []) else none
      stopTest := boundTest startKey (!r.start.isNull || r.isNilR) r.si false }

/-- `IterateRange` -/
def iterateRange (c f : Bytes) (r : Range) (rev : Bool) (onId : β → Bytes → StoreM (β × Flow))
    (acc : β) : StoreM β := do
  if r.isEmpty then return acc
  let kv ← snapshot
  let plan := rangePlan kv c f r rev
  let items ← match plan.skip with
    | some b => skipEq b plan.items
    | none => pure plan.items
  scanLoop (Keys.idxPrefix c f) plan.stopTest onId acc items

/-- `Iterate` -/
def iterateAll (c f : Bytes) (rev : Bool) (onId : β → Bytes → StoreM (β × Flow)) (acc : β) : StoreM β := do
  let pfx := Keys.idxPrefix c f
  let kv ← snapshot
  let items := if rev then seekRev kv (pfx ++ [255]) else seekFwd kv pfx
  scanLoop pfx (fun _ => false) onId acc items

/-- `iteratePrefix` (db.go) -/
def loopPrefix (pfx : Bytes) (f : β → Bytes × SVal → StoreM (β × Flow)) : β → KVS → StoreM β
  | acc, [] => pure acc
  | acc, e :: rest => do
    item e.1
    if !Keys.isPrefix pfx e.1 then pure acc
    else
      let (acc', fl) ← f acc e
      match fl with
      | .stop => pure acc'
      | .cont => loopPrefix pfx f acc' rest

/-- `rangeIndex.Drop`: delete every entry under the prefix (the keys are taken from the cursor's
    view at `Seek`; deleting the key the cursor stands on is within the cursor contract) -/
def dropLoop (pfx : Bytes) : KVS → StoreM Unit
  | [] => pure ()
  | e :: rest => do
    item e.1
    if !Keys.isPrefix pfx e.1 then pure ()
    else do
      del e.1
      dropLoop pfx rest

end CV
