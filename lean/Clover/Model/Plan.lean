import Clover.Model.Index
/-! # Queries, plan construction and plan execution (query/query.go, plan.go) -/
namespace CV
open StoreM

structure Query where
  coll : Bytes
  crit : Option Crit := none
  skip : Nat := 0            -- `Skip(n)` ignores negative n, so the stored skip is never negative
  limit : Int := -1
  sort : List (Bytes × Int) := []   -- directions already normalised to 1 / -1 by `Sort`
deriving Inhabited

/-- `compareDocuments` -/
def compareDocuments (a b : Doc) : List (Bytes × Int) → Int
  | [] => 0
  | (f, dir) :: rest =>
    let ha := a.has f
    let hb := b.has f
    if !ha && hb then -dir
    else if ha && !hb then dir
    else if ha && hb then
      let r := goCmp (a.get f) (b.get f)
      if r ≠ 0 then r * dir else compareDocuments a b rest
    else compareDocuments a b rest

inductive Source
  | full
  | idxRange (f : Bytes) (r : Range) (rev : Bool)
  | idxAll (f : Bytes) (rev : Bool)
deriving Inhabited

/-- `tryToSelectIndex` + the fallback of `buildQueryPlan`: the input node and whether its output
    is already in the order the single sort option asks for -/
def choosePlan (indexed : List Bytes) (q : Query) : Source × Bool :=
  match indexQuery indexed q.crit with
  | some (f, r) =>
    match q.sort with
    | [(sf, dir)] => if sf = f then (.idxRange f r (dir < 0), true) else (.idxRange f r false, false)
    | _ => (.idxRange f r false, false)
  | none =>
    match q.sort with
    | [(sf, dir)] => if indexed.contains sf then (.idxAll sf (dir < 0), true) else (.full, false)
    | _ => (.full, false)

/-- state of the nodes after the input node: the sort buffer, the skip/limit counters and what the
    consumer has been handed so far (most recent first) -/
structure Pipe where
  buf : List Doc := []
  skipped : Nat := 0
  consumed : Nat := 0
  out : List Doc := []
deriving Inhabited

/-- the consumer node: collects; `stopAfter = some k` is a `ForEach` consumer answering `false`
    on its k-th document -/
def consume (stopAfter : Option Nat) (st : Pipe) (d : Doc) : Pipe × Flow :=
  let st' := { st with out := d :: st.out }
  match stopAfter with
  | some k => (st', if st'.out.length ≥ k then .stop else .cont)
  | none => (st', .cont)

/-- `skipLimitNode.Callback` in front of the consumer (the node exists iff skip > 0 or limit ≥ 0) -/
def emit (q : Query) (stopAfter : Option Nat) (st : Pipe) (d : Doc) : Pipe × Flow :=
  if q.skip > 0 || q.limit ≥ 0 then
    if st.skipped < q.skip then ({ st with skipped := st.skipped + 1 }, .cont)
    else if q.limit < 0 || (st.consumed : Int) < q.limit then
      consume stopAfter { st with consumed := st.consumed + 1 } d
    else (st, .stop)
  else consume stopAfter st d

/-- `sortNode.Callback` -/
def collect (st : Pipe) (d : Doc) : Pipe × Flow := ({ st with buf := d :: st.buf }, .cont)

/-- feed documents to `emit` until it asks to stop (the loop of `sortNode.Finish`) -/
def feed (q : Query) (stopAfter : Option Nat) : Pipe → List Doc → Pipe
  | st, [] => st
  | st, d :: ds =>
    match emit q stopAfter st d with
    | (st', .stop) => st'
    | (st', .cont) => feed q stopAfter st' ds

def sortDocs (opts : List (Bytes × Int)) (ds : List Doc) : List Doc :=
  ds.mergeSort (fun a b => compareDocuments a b opts ≤ 0)

variable (likeFn : LikeFn) (fnFam : FnFam)

/-- `getCollectionMeta` -/
def getMeta (c : Bytes) : StoreM CMeta := do
  match (← get (Keys.metaKey c)) with
  | some (.cmeta m) => pure m
  | some _ => fail .badInput
  | none => fail .collNotExist

/-- is the in-memory sort node present? -/
def needSort (q : Query) (sorted : Bool) : Bool := !q.sort.isEmpty && !sorted

/-- what happens to a candidate document: filter, then the sort node or the skip/limit + consumer -/
def onDocOf (q : Query) (stopAfter : Option Nat) (ns : Bool) (st : Pipe) (d : Doc) : Pipe × Flow :=
  if satOpt likeFn fnFam d q.crit then (if ns then collect st d else emit q stopAfter st d) else (st, .cont)

/-- `iterNode.iterateFullCollection` -/
def fullScan (coll : Bytes) (onDoc : Pipe → Doc → Pipe × Flow) : StoreM Pipe := do
  let kv ← snapshot
  let pfx := Keys.docPrefix coll
  loopPrefix pfx (fun st e => match e.2 with
    | .doc d => pure (onDoc st d)
    | _ => fail .badInput) {} (seekFwd kv pfx)

/-- the callback of `iterNode.iterateIndex`: fetch the document of an index entry -/
def onIdOf (coll : Bytes) (onDoc : Pipe → Doc → Pipe × Flow) (st : Pipe) (id : Bytes) : StoreM (Pipe × Flow) := do
  match (← get (Keys.docKey coll id)) with
  | some (.doc d) => pure (onDoc st d)
  | _ => pure (st, .cont)

/-- `execPlan`'s Finish phase: the sort node sorts and feeds the rest of the pipeline -/
def finishPipe (q : Query) (stopAfter : Option Nat) (ns : Bool) (st : Pipe) : List Doc :=
  (if ns then feed q stopAfter st (sortDocs q.sort st.buf.reverse) else st).out.reverse

/-- `iterateDocs`: metadata lookup, plan construction, plan execution; returns what the consumer saw -/
def iterateDocs (q : Query) (stopAfter : Option Nat) : StoreM (List Doc) := do
  let m ← getMeta q.coll
  let plan := choosePlan m.indexes q
  let ns := needSort q plan.2
  let onDoc := onDocOf likeFn fnFam q stopAfter ns
  let st ← match plan.1 with
    | .full => fullScan q.coll onDoc
    | .idxRange f r rev => iterateRange q.coll f r rev (onIdOf q.coll onDoc) {}
    | .idxAll f rev => iterateAll q.coll f rev (onIdOf q.coll onDoc) {}
  pure (finishPipe q stopAfter ns st)

end CV
