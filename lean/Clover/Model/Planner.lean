import Clover.Model.Criteria
/-! # index.Range and the planner visitors (index/range.go, visit.go) -/
namespace CV

structure Range where
  start : Value
  stop : Value
  si : Bool
  ei : Bool
deriving Inhabited

/-- `Range.IsNil` -/
def Range.isNilR (r : Range) : Bool := r.start.isNull && r.stop.isNull && r.si && r.ei

/-- `Range.IsEmpty` -/
def Range.isEmpty (r : Range) : Bool :=
  if (r.start.isNull && !r.si && !r.stop.isNull) || (r.stop.isNull && !r.ei && !r.start.isNull) then false
  else
    let res := goCmp r.start r.stop
    res > 0 || (res == 0 && !r.si && !r.ei)

def interStart (r r2 : Range) : Value × Bool :=
  let res := goCmp r2.start r.start
  if res > 0 then (r2.start, r2.si)
  else if res == 0 then (r.start, r.si && r2.si)
  else if r.start.isNull then (r2.start, r2.si) else (r.start, r.si)

def interStop (r r2 : Range) : Value × Bool :=
  let res2 := goCmp r2.stop r.stop
  if res2 < 0 then (r2.stop, r2.ei)
  else if res2 == 0 then (r.stop, r.ei && r2.ei)
  else if r.stop.isNull then (r2.stop, r2.ei) else (r.stop, r.ei)

/-- `Range.Intersect` -/
def Range.intersect (r r2 : Range) : Range :=
  ⟨(interStart r r2).1, (interStop r r2).1, (interStart r r2).2, (interStop r r2).2⟩

/-! ## NotFlattenVisitor -/

def negLeaf (op : CmpOp) (f : Bytes) (x : Operand) : Crit :=
  match op with
  | .eq => .or (.cmp .lt f x) (.cmp .gt f x)
  | .lt => .cmp .ge f x
  | .le => .cmp .gt f x
  | .gt => .cmp .le f x
  | .ge => .cmp .lt f x

mutual
def flatten : Crit → Crit
  | .and a b => .and (flatten a) (flatten b)
  | .or a b => .or (flatten a) (flatten b)
  | .not a => flattenNot a
  | c => c
/-- `VisitNotCriteria(&NotCriteria{C: c})` -/
def flattenNot : Crit → Crit
  | .cmp op f x => negLeaf op f x
  | .and a b => .or (flattenNot a) (flattenNot b)
  | .or a b => .and (flattenNot a) (flattenNot b)
  | .not a => a                       -- the child of a double negation is returned unvisited
  | c => .not c                       -- Exists / Like / In / Contains / MatchFunc stay negated
end

/-! ## IndexSelectVisitor: the list of indexed fields a criteria could be served by -/

/-- the field name a unary criterion carries (`MatchFunc` has the empty name) -/
def Crit.leafField : Crit → Option Bytes
  | .exists_ f => some f
  | .cmp _ f _ => some f
  | .like f _ => some f
  | .isIn f _ => some f
  | .contains f _ => some f
  | .fn _ => some []
  | _ => none

def indexSelect (indexed : List Bytes) : Crit → List Bytes
  | .and a b =>
    let l := indexSelect indexed a
    let r := indexSelect indexed b
    if l.length > 0 && l.length < r.length then l else r
  | .or a b =>
    let l := indexSelect indexed a
    let r := indexSelect indexed b
    if l.length == 0 || r.length == 0 then [] else l ++ r
  | .not _ => []
  | c => match c.leafField with
    | some f => if indexed.contains f then [f] else []
    | none => []

/-! ## FieldRangeVisitor -/

/-- `isFieldReference` -/
def Operand.isRef : Operand → Bool
  | .ref _ => true
  | .lit (.str (c :: _)) => c = dollar
  | .lit _ => false

/-- `unaryCriteriaToRange` for the comparison operators -/
def toRange (op : CmpOp) (x : Operand) : Option Range :=
  match x with
  | .ref _ => none
  | .lit v =>
    if (Operand.lit v).isRef then none
    else if v.isNull && op != .eq then none
    else match op with
      | .eq => some ⟨v, v, true, true⟩
      | .lt => some ⟨.null, v, false, false⟩
      | .le => some ⟨.null, v, false, true⟩
      | .gt => some ⟨v, .null, false, false⟩
      | .ge => some ⟨v, .null, true, false⟩

def mergeAnd (ra rb : Option Range) : Option Range :=
  match ra, rb with
  | some r, some r2 => some (r.intersect r2)
  | some r, none => some r
  | none, some r => some r
  | none, none => none

/-- `FieldRangeVisitor` restricted to one field -/
def fieldRange (f : Bytes) : Crit → Option Range
  | .cmp op g x => if g = f then toRange op x else none
  | .and a b => mergeAnd (fieldRange f a) (fieldRange f b)
  | _ => none

/-- `getIndexQueries`: the (field, range) pair of the single index query, if any -/
def indexQuery (indexed : List Bytes) (crit : Option Crit) : Option (Bytes × Range) :=
  match crit with
  | none => none
  | some c =>
    if indexed.isEmpty then none else
    let c' := flatten c
    match indexSelect indexed c' with
    | [] => none
    | f :: _ => (fieldRange f c').map (fun r => (f, r))

end CV
