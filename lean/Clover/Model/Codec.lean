import Clover.Model.Doc
/-! # The document codec's time wrapping (internal/time.go, internal/encoding.go Encode/Decode)

`Wire` is what travels through msgpack: every `time.Time` has been replaced by a
`*LocalizedTime` (msgpack extension type 1, gob-encoded instant and zone offset).  msgpack and gob
themselves are abstracted as a faithful serialiser of `Wire` trees; that abstraction is what the
round-trip correspondence stream of C11 validates against the real libraries. -/
namespace CV

inductive Wire
  | null
  | num (n : Num)
  | str (s : Bytes)
  | bool (b : Bool)
  | ltime (ns : Int) (off : Int)
  | arr (xs : List Wire)
  | obj (kvs : List (Bytes × Wire))
deriving Inhabited

mutual
/-- `replaceTimes` -/
def toWire : Value → Wire
  | .null => .null
  | .num n => .num n
  | .str s => .str s
  | .bool b => .bool b
  | .time ns off => .ltime ns off
  | .arr xs => .arr (toWireL xs)
  | .obj kvs => .obj (toWireKV kvs)
def toWireL : List Value → List Wire
  | [] => []
  | x :: xs => toWire x :: toWireL xs
def toWireKV : List (Bytes × Value) → List (Bytes × Wire)
  | [] => []
  | (k, x) :: xs => (k, toWire x) :: toWireKV xs
end

mutual
/-- `removeLocalizedTimes`: recursive over maps and slices -/
def ofWire : Wire → Value
  | .null => .null
  | .num n => .num n
  | .str s => .str s
  | .bool b => .bool b
  | .ltime ns off => .time ns off
  | .arr xs => .arr (ofWireL xs)
  | .obj kvs => .obj (ofWireKV kvs)
def ofWireL : List Wire → List Value
  | [] => []
  | x :: xs => ofWire x :: ofWireL xs
def ofWireKV : List (Bytes × Wire) → List (Bytes × Value)
  | [] => []
  | (k, x) :: xs => (k, ofWire x) :: ofWireKV xs
end

/-- `document.Encode` / `document.Decode` on the field map -/
def encodeDoc (d : Doc) : List (Bytes × Wire) := toWireKV d
def decodeDoc (w : List (Bytes × Wire)) : Doc := ofWireKV w

end CV
