import Clover.Probe.C10
/-! # Values as the Go code compares and encodes them

`goCmp` follows `internal.Compare` of the current source line by line (type rank first, numbers
through `compareNumbers`: float64 conversion as soon as one operand is a float, otherwise exact
integer comparison).  The bridge to the exact-value comparison `cmp nkey` of the proof layer is in
`Clover/Proofs/GoCmp.lean`. -/
namespace CV
open F64

/-- `compareNumbers` (internal/compare.go) -/
def goNumCmp : Num → Num → Int
  | .float a, .float b => cmpInt (ford a) (ford b)
  | .float a, y => cmpInt (ford a) (ford (toF64 y))
  | x, .float b => cmpInt (ford (toF64 x)) (ford b)
  | .int a, .int b => cmpInt a b
  | .int a, .uint b => if a < 0 then -1 else cmpInt a b
  | .uint a, .int b => if b < 0 then 1 else cmpInt a b
  | .uint a, .uint b => cmpInt a b

mutual
/-- `Compare` (internal/compare.go); only the sign of the result is meaningful -/
def goCmp : Value → Value → Int
  | .null, .null => 0
  | .num a, .num b => goNumCmp a b
  | .str a, .str b => cmpBytes a b
  | .bool a, .bool b => cmpInt (if a then 1 else 0) (if b then 1 else 0)
  | .time a _, .time b _ => cmpInt a b
  | .arr a, .arr b => goCmpList a b
  | .obj a, .obj b => goCmpKVs a b
  | a, b => a.rank - b.rank
def goCmpList : List Value → List Value → Int
  | [], [] => 0
  | [], _ :: _ => -1
  | _ :: _, [] => 1
  | a :: as, b :: bs => let r := goCmp a b; if r ≠ 0 then r else goCmpList as bs
def goCmpKVs : List (Bytes × Value) → List (Bytes × Value) → Int
  | [], [] => 0
  | [], _ :: _ => -1
  | _ :: _, [] => 1
  | (k1, a) :: as, (k2, b) :: bs =>
    let rk := cmpBytes k1 k2
    if rk ≠ 0 then rk else
    let r := goCmp a b; if r ≠ 0 then r else goCmpKVs as bs
end

/-- `internal.OrderedCode(prefix-for-type, v)` without the collection/field prefix:
    `;`-less tail `t:<rank>;v:<code>`; see `Model/Keys.lean` for the full key -/
def goKeyTail (v : Value) : Bytes := tkey numCode v

def Value.isNull : Value → Bool
  | .null => true
  | _ => false

end CV
