import Clover.Model.Doc
/-! # JSON typing of exported documents (json.go: encoding/json Marshal, then Decode + Normalize)

What a value becomes after `ExportCollection` writes it and `ImportCollection` reads it back:
numbers become float64, times their RFC 3339 text, everything else keeps its shape.
`encoding/json` itself is abstracted by this function; the export/import stream validates it. -/
namespace CV
open F64

/-- days since 1970-01-01 → (year, month, day) (proleptic Gregorian; Hinnant's algorithm) -/
def civilFromDays (z0 : Int) : Int × Nat × Nat :=
  let z := z0 + 719468
  let era := (if z ≥ 0 then z else z - 146096) / 146097
  let doe := (z - era * 146097).toNat
  let yoe := (doe - doe / 1460 + doe / 36524 - doe / 146096) / 365
  let y : Int := (yoe : Int) + era * 400
  let doy := doe - (365 * yoe + yoe / 4 - yoe / 100)
  let mp := (5 * doy + 2) / 153
  let d := doy - (153 * mp + 2) / 5 + 1
  let m := if mp < 10 then mp + 3 else mp - 9
  (if m ≤ 2 then y + 1 else y, m, d)

def digits (width : Nat) (n : Nat) : List UInt8 :=
  let ds := (Nat.toDigits 10 n).map (fun c => UInt8.ofNat c.toNat)
  List.replicate (width - ds.length) 0x30 ++ ds

def trimZeros : List UInt8 → List UInt8
  | l => (l.reverse.dropWhile (· == 0x30)).reverse

/-- `time.Time.MarshalJSON`: RFC 3339 with nanoseconds (trailing zeros trimmed), `Z` for offset 0,
    otherwise `±hh:mm` -/
def rfc3339 (ns : Int) (off : Int) : Bytes :=
  let sec := ns / 1000000000          -- floor division (Int./ rounds toward -∞ for positive divisor)
  let nano := (ns % 1000000000).toNat
  let loc := sec + off
  let days := loc / 86400
  let sod := (loc % 86400).toNat
  let (y, m, d) := civilFromDays days
  let frac := if nano = 0 then [] else 0x2E :: trimZeros (digits 9 nano)
  let zone :=
    if off = 0 then [0x5A]
    else
      let a := off.natAbs
      (if off < 0 then 0x2D else 0x2B) :: (digits 2 (a / 3600) ++ [0x3A] ++ digits 2 (a % 3600 / 60))
  digits 4 y.toNat ++ [0x2D] ++ digits 2 m ++ [0x2D] ++ digits 2 d ++ [0x54] ++
    digits 2 (sod / 3600) ++ [0x3A] ++ digits 2 (sod % 3600 / 60) ++ [0x3A] ++ digits 2 (sod % 60) ++ frac ++ zone

mutual
/-- the value after a JSON round trip through export and import -/
def jsonType : Value → Value
  | .num n => .num (.float (toF64 n))
  | .time ns off => .str (rfc3339 ns off)
  | .arr xs => .arr (jsonTypeL xs)
  | .obj kvs => .obj (jsonTypeKV kvs)
  | v => v
def jsonTypeL : List Value → List Value
  | [] => []
  | x :: xs => jsonType x :: jsonTypeL xs
def jsonTypeKV : List (Bytes × Value) → List (Bytes × Value)
  | [] => []
  | (k, x) :: xs => (k, jsonType x) :: jsonTypeKV xs
end

def jsonTypeDoc (d : Doc) : Doc := jsonTypeKV d

end CV
