import Clover.Model.Doc
/-! # JSON typing of exported documents (json.go: encoding/json Marshal, then Decode + Normalize)

What a value becomes after `ExportCollection` writes it and `ImportCollection` reads it back:
numbers become float64, times their RFC 3339 text, everything else keeps its shape.
`encoding/json` itself is abstracted by this function; the export/import stream validates it. -/
namespace CV
open F64

/-- days since 1970-01-01 → (year, month, day) (proleptic Gregorian; Hinnant's algorithm) -/
def civilFromDays (z0 : Int) : Int × Nat × Nat :=
  let z := z0 + 719468
  let era := z / 146097                       -- `/` on Int is floor division: no C-style adjustment
  let doe := (z - era * 146097).toNat
  let yoe := (doe - doe / 1460 + doe / 36524 - doe / 146096) / 365
  let y : Int := (yoe : Int) + era * 400
  let doy := doe - (365 * yoe + yoe / 4 - yoe / 100)
  let mp := (5 * doy + 2) / 153
  let d := doy - (153 * mp + 2) / 5 + 1
  let m := if mp < 10 then mp + 3 else mp - 9
  (if m ≤ 2 then y + 1 else y, m, d)

def digits (width : Nat) (n : Nat) : List UInt8 :=
  let ds := (Nat.toDigits 10 n).map (fun c => UInt8.ofNat c.toNat)
  List.replicate (width - ds.length) 0x30 ++ ds

def trimZeros : List UInt8 → List UInt8
  | l => (l.reverse.dropWhile (· == 0x30)).reverse

/-- `time.Time.MarshalJSON`: RFC 3339 with nanoseconds (trailing zeros trimmed), `Z` for offset 0,
    otherwise `±hh:mm` -/
def rfc3339 (ns : Int) (off : Int) : Bytes :=
  let sec := ns / 1000000000          -- floor division (Int./ rounds toward -∞ for positive divisor)
  let nano := (ns % 1000000000).toNat
  let loc := sec + off
  let days := loc / 86400
  let sod := (loc % 86400).toNat
  let (y, m, d) := civilFromDays days
  let frac := if nano = 0 then [] else 0x2E :: trimZeros (digits 9 nano)
  let zone :=
    if off = 0 then [0x5A]
    else
      let a := off.natAbs
      -- Go: `zone := offset / 60` (truncating); the sign is that of the whole minutes, so -00:00:30 prints as +00:00
      (if off ≤ -60 then 0x2D else 0x2B) :: (digits 2 (a / 3600) ++ [0x3A] ++ digits 2 (a % 3600 / 60))
  digits 4 y.toNat ++ [0x2D] ++ digits 2 m ++ [0x2D] ++ digits 2 d ++ [0x54] ++
    digits 2 (sod / 3600) ++ [0x3A] ++ digits 2 (sod % 3600 / 60) ++ [0x3A] ++ digits 2 (sod % 60) ++ frac ++ zone

mutual
/-- the value after a JSON round trip through export and import -/
def jsonType : Value → Value
  | .num n => .num (.float (toF64 n))
  | .time ns off => .str (rfc3339 ns off)
  | .arr xs => .arr (jsonTypeL xs)
  | .obj kvs => .obj (jsonTypeKV kvs)
  | v => v
def jsonTypeL : List Value → List Value
  | [] => []
  | x :: xs => jsonType x :: jsonTypeL xs
def jsonTypeKV : List (Bytes × Value) → List (Bytes × Value)
  | [] => []
  | (k, x) :: xs => (k, jsonType x) :: jsonTypeKV xs
end

def jsonTypeDoc (d : Doc) : Doc := jsonTypeKV d

/-! ## reading a time back (ImportCollection restores `_expiresAt`) -/

/-- (year, month, day) → days since 1970-01-01 (Hinnant's algorithm, inverse of `civilFromDays`) -/
def daysFromCivil (y0 : Int) (m d : Nat) : Int :=
  let y := if m ≤ 2 then y0 - 1 else y0
  let era := y / 400                          -- floor division
  let yoe := (y - era * 400).toNat
  let mp := if m > 2 then m - 3 else m + 9
  let doy := (153 * mp + 2) / 5 + d - 1
  let doe := yoe * 365 + yoe / 4 - yoe / 100 + doy
  era * 146097 + (doe : Int) - 719468

def isDigit (b : UInt8) : Bool := 0x30 ≤ b && b ≤ 0x39

/-- the value of a non-empty all-digit byte string -/
def natOfDigits (l : List UInt8) : Option Nat :=
  if l.isEmpty || !l.all isDigit then none else some (l.foldl (fun acc (b : UInt8) => acc * 10 + (b.toNat - 48)) 0)

/-- `time.Parse(time.RFC3339Nano, s)` on the texts `MarshalJSON` writes:
    `YYYY-MM-DDTHH:MM:SS[.f…]` followed by `Z` or `±HH:MM`; result (UnixNano, offset seconds) -/
def parseRfc3339 (s : List UInt8) : Option (Int × Int) :=
  if s.length < 20 then none else
  let sep (i : Nat) (c : UInt8) : Bool := s[i]? == some c
  if !(sep 4 0x2D && sep 7 0x2D && sep 10 0x54 && sep 13 0x3A && sep 16 0x3A) then none else
  match natOfDigits (s.take 4), natOfDigits ((s.drop 5).take 2), natOfDigits ((s.drop 8).take 2),
        natOfDigits ((s.drop 11).take 2), natOfDigits ((s.drop 14).take 2), natOfDigits ((s.drop 17).take 2) with
  | some y, some mo, some d, some h, some mi, some sec =>
    if mo < 1 || mo > 12 || d < 1 || d > 31 || h > 23 || mi > 59 || sec > 59 then none else
    let rest := s.drop 19
    -- optional fraction
    let (fracDigits, rest) := match rest with
      | 0x2E :: r => (r.takeWhile isDigit, r.dropWhile isDigit)
      | r => ([], r)
    if (rest.length != s.length - 19) && fracDigits.isEmpty then none else
    if fracDigits.length > 9 then none else
    let nano : Nat := (fracDigits ++ List.replicate (9 - fracDigits.length) (0x30 : UInt8)).foldl (fun acc (b : UInt8) => acc * 10 + (b.toNat - 48)) 0
    let off : Option Int := match rest with
      | [0x5A] => some 0
      | [sg, a, b, 0x3A, c, e] =>
        if sg != 0x2B && sg != 0x2D then none else
        match natOfDigits [a, b], natOfDigits [c, e] with
        | some zh, some zm =>
          if zh > 23 || zm > 59 then none else
          let v : Int := (zh * 3600 + zm * 60 : Nat)
          some (if sg == 0x2D then -v else v)
        | _, _ => none
      | _ => none
    match off with
    | none => none
    | some o =>
      let loc : Int := daysFromCivil y mo d * 86400 + (h * 3600 + mi * 60 + sec : Nat)
      some ((loc - o) * 1000000000 + (nano : Int), o)
  | _, _, _, _, _, _ => none

def expiresAtKey : Bytes := [0x5F, 0x65, 0x78, 0x70, 0x69, 0x72, 0x65, 0x73, 0x41, 0x74]  -- "_expiresAt"

/-- what `ImportCollection` does to each decoded object before building the document: the RFC 3339
    text a top-level `_expiresAt` was exported as becomes the expiration time again -/
def restoreExpiresAt (d : Doc) : Doc :=
  match lookupKey expiresAtKey d with
  | some (.str s) =>
    match parseRfc3339 s with
    | some (ns, off) => insertKey expiresAtKey (.time ns off) d
    | none => d
  | _ => d

end CV
