import Clover.Model.Plan
import Clover.Model.Json
/-! # The public operations of `DB` (db.go, json.go), each one store transaction -/
namespace CV
open StoreM

variable (likeFn : LikeFn) (fnFam : FnFam)

/-! ## document validation -/

def isHex (b : UInt8) : Bool :=
  (0x30 ≤ b && b ≤ 0x39) || (0x61 ≤ b && b ≤ 0x66) || (0x41 ≤ b && b ≤ 0x46)

/-- canonical textual UUID `xxxxxxxx-xxxx-xxxx-xxxx-xxxxxxxxxxxx` (the forms `gofrs/uuid` accepts
    besides this one — 32 hex digits, braces, `urn:uuid:` — are outside the supported domain) -/
def isCanonicalUuid (s : Bytes) : Bool :=
  s.length == 36 &&
  (s.zipIdx.all (fun (b, i) => if i == 8 || i == 13 || i == 18 || i == 23 then b == 0x2D else isHex b))

def expiresAtField : Bytes := [0x5F, 0x65, 0x78, 0x70, 0x69, 0x72, 0x65, 0x73, 0x41, 0x74]  -- "_expiresAt"

/-- `document.Validate` -/
def validDoc (d : Doc) : Bool :=
  isCanonicalUuid d.objectId &&
  (!d.has expiresAtField || match d.get expiresAtField with | .time _ _ => true | _ => false)

/-! ## updaters (the functions handed to `UpdateById` / `UpdateFunc`; `Update` is `setAll`) -/

inductive Upd
  | setAll (kvs : List (Bytes × Value))   -- `doc.Copy(); SetAll(map)`
  | const (d : Doc)                        -- returns a fixed document (`ReplaceById`)
  | retNil                                 -- returns nil (`Delete`)
  | copyField (src dst : Bytes)            -- sets `dst` to the current value of `src`
deriving Inhabited

def Upd.apply : Upd → Doc → Option Doc
  | .setAll kvs, d => some (kvs.foldl (fun d (k, v) => d.set k v) d)
  | .const d', _ => some d'
  | .retNil, _ => none
  | .copyField s t, d => some (d.set t (d.get s))

/-! ## helpers running inside a transaction -/

def saveMeta (c : Bytes) (m : CMeta) : StoreM Unit := set (Keys.metaKey c) (.cmeta m)

/-- `addDocToIndexes` -/
def addToIndexes (c : Bytes) (idxs : List Bytes) (d : Doc) : StoreM Unit :=
  idxs.forM (fun f => set (idxKey c f (d.get f) d.objectId) .unit)

/-- `deleteDocFromIndexes` -/
def delFromIndexes (c : Bytes) (idxs : List Bytes) (d : Doc) : StoreM Unit :=
  idxs.forM (fun f => del (idxKey c f (d.get f) d.objectId))

/-- `saveDocument` -/
def saveDoc (key : Bytes) (d : Doc) : StoreM Unit :=
  if validDoc d then set key (.doc d) else fail .invalidId

/-- the per-document loop of `insertDocs` -/
def insertLoop (c : Bytes) (idxs : List Bytes) : List Doc → StoreM Unit
  | [] => pure ()
  | d :: ds => do
    addToIndexes c idxs d
    let key := Keys.docKey c d.objectId
    match (← get key) with
    | some _ => fail .dupKey
    | none => do
      saveDoc key d
      insertLoop c idxs ds

/-- `insertDocs` -/
def insertDocs (c : Bytes) (docs : List Doc) : StoreM Unit := do
  let m ← getMeta c
  insertLoop c m.indexes docs
  saveMeta c { m with size := m.size + docs.length }

/-- `assignObjectIds`: documents lacking `_id` (or with `_id == ""`) take the next fresh id -/
def assignIds : List Doc → List Bytes → List Doc
  | [], _ => []
  | d :: ds, fresh =>
    let needs := !d.has idField || (match d.get idField with | .str [] => true | _ => false)
    if needs then
      match fresh with
      | id :: fresh' => d.set idField (.str id) :: assignIds ds fresh'
      | [] => d :: assignIds ds []
    else d :: assignIds ds fresh

/-- the apply phase of `replaceDocs`; returns the number of deleted documents -/
def applyLoop (c : Bytes) (idxs : List Bytes) (u : Upd) : Nat → List Doc → StoreM Nat
  | n, [] => pure n
  | n, d :: ds => do
    let key := Keys.docKey c d.objectId
    let nd := u.apply d
    match nd with
    | some d' => if d'.objectId ≠ d.objectId then fail .idChanged else pure ()
    | none => pure ()
    delFromIndexes c idxs d
    match nd with
    | none => do
      del key
      applyLoop c idxs u (n + 1) ds
    | some d' => do
      addToIndexes c idxs d'
      saveDoc key d'
      applyLoop c idxs u n ds

/-- `replaceDocs`; returns the documents the updater was applied to -/
def replaceDocs (q : Query) (u : Upd) : StoreM (List Doc) := do
  let m ← getMeta q.coll
  let docs ← iterateDocs likeFn fnFam q none
  let deleted ← applyLoop q.coll m.indexes u 0 docs
  if deleted > 0 then saveMeta q.coll { m with size := m.size - deleted }
  pure docs

/-- `DropIndex`'s catalog update: `meta.Indexes[j] = meta.Indexes[0]; meta.Indexes = meta.Indexes[1:]` -/
def dropSwap (f : Bytes) : List Bytes → List Bytes
  | [] => []
  | first :: rest => rest.map (fun g => if g = f then first else g)

/-- `createCollection` (inside a transaction) -/
def createColl (c : Bytes) : StoreM Unit := do
  match (← get (Keys.metaKey c)) with
  | some _ => fail .collExist
  | none => saveMeta c ⟨0, []⟩

/-! ## operations -/

inductive Op
  | createCollection (c : Bytes)
  | dropCollection (c : Bytes)
  | hasCollection (c : Bytes)
  | listCollections
  | insert (c : Bytes) (docs : List Doc) (fresh : List Bytes)
  | save (c : Bytes) (d : Doc) (fresh : List Bytes)
  | findAll (q : Query)
  | forEach (q : Query) (stopAfter : Option Nat)
  | findFirst (q : Query)
  | exists_ (q : Query)
  | count (q : Query)
  | findById (c id : Bytes)
  | deleteById (c id : Bytes)
  | updateById (c id : Bytes) (u : Upd)
  | replaceById (c id : Bytes) (d : Doc)
  | update (q : Query) (u : Upd)
  | delete (q : Query)
  | createIndex (c f : Bytes)
  | dropIndex (c f : Bytes)
  | hasIndex (c f : Bytes)
  | listIndexes (c : Bytes)
  | createCollectionByQuery (c : Bytes) (q : Query) (fresh : List Bytes)
  | importDocs (c : Bytes) (docs : Option (List Doc)) (fresh : List Bytes)  -- `none`: unreadable / ill-formed file
  | exportDocs (c : Bytes)
deriving Inhabited

inductive Out
  | unit
  | bool (b : Bool)
  | int (n : Int)
  | docs (ds : List Doc)
  | docOpt (d : Option Doc)
  | names (l : List Bytes)
deriving Inhabited

/-- is the operation a write transaction (`Begin(true)`)?  `ListCollections` opens one too. -/
def Op.isWrite : Op → Bool
  | .hasCollection _ | .findAll _ | .forEach _ _ | .findFirst _ | .exists_ _ | .count _
  | .findById _ _ | .hasIndex _ _ | .listIndexes _ | .exportDocs _ => false
  | _ => true

/-- `countCollection` arithmetic -/
def countWindow (size : Int) (q : Query) : Int :=
  let s := size - q.skip
  let s := if s < 0 then 0 else s
  if q.limit ≥ 0 && q.limit < s then q.limit else s

/-- the transaction body of each operation -/
def Op.body : Op → StoreM Out
  | .createCollection c => do createColl c; pure .unit
  | .dropCollection c => do
    let _ ← replaceDocs likeFn fnFam { coll := c } .retNil
    del (Keys.metaKey c)
    pure .unit
  | .hasCollection c => do pure (.bool (← get (Keys.metaKey c)).isSome)
  | .listCollections => do
    let kv ← snapshot
    let names ← loopPrefix Keys.sColl (fun acc e => pure (e.1.drop Keys.sColl.length :: acc, Flow.cont)) []
      (seekFwd kv Keys.sColl)
    noCommit        -- `ListCollections` opens a write transaction and never commits it
    pure (.names names.reverse)
  | .insert c docs fresh => do insertDocs c (assignIds docs fresh); pure .unit
  | .save c d fresh =>
    -- routed to Insert or ReplaceById by `Op.run`; this branch is the Insert one
    do insertDocs c (assignIds [d] fresh); pure .unit
  | .findAll q => do pure (.docs (← iterateDocs likeFn fnFam q none))
  | .forEach q k => do pure (.docs (← iterateDocs likeFn fnFam q k))
  | .findFirst q => do pure (.docOpt (← iterateDocs likeFn fnFam { q with limit := 1 } none).head?)
  | .exists_ q => do pure (.bool (← iterateDocs likeFn fnFam { q with limit := 1 } none).head?.isSome)
  | .count q =>
    match q.crit with
    | none => do pure (.int (countWindow (← getMeta q.coll).size q))
    | some _ => do pure (.int (← iterateDocs likeFn fnFam q none).length)
  | .findById c id => do
    match (← get (Keys.metaKey c)) with
    | none => fail .collNotExist
    | some _ =>
      match (← get (Keys.docKey c id)) with
      | some (.doc d) => pure (.docOpt (some d))
      | _ => pure (.docOpt none)
  | .deleteById c id => do
    let m ← getMeta c
    let key := Keys.docKey c id
    match (← get key) with
    | none => do noCommit; pure .unit     -- nothing to delete: returns before Commit
    | some _ => do
      if !m.indexes.isEmpty then
        match (← get key) with
        | some (.doc d) => delFromIndexes c m.indexes d
        | _ => pure ()
      del key
      saveMeta c { m with size := m.size - 1 }
      pure .unit
  | .updateById c id u => do
    let m ← getMeta c
    let key := Keys.docKey c id
    match (← get key) with
    | some (.doc d) =>
      match u.apply d with
      | none => fail .nilDoc
      | some d' =>
        if d'.objectId ≠ id then fail .idChanged else do
        delFromIndexes c m.indexes d
        addToIndexes c m.indexes d'
        saveDoc key d'
        pure .unit
    | _ => fail .docNotExist
  | .replaceById _ _ _ => fail .badInput     -- rewritten to `updateById` by `Op.run`
  | .update q u => do pure (.docs (← replaceDocs likeFn fnFam q u))
  | .delete q => do pure (.docs (← replaceDocs likeFn fnFam q .retNil))
  | .createIndex c f => do
    let m ← getMeta c
    if m.indexes.contains f then fail .indexExist else do
    -- iterateDocs(NewQuery(c)) with a consumer that adds the entry: a full scan
    let _ ← getMeta c
    let kv ← snapshot
    let pfx := Keys.docPrefix c
    loopPrefix pfx (fun _ e => match e.2 with
      | .doc d => do set (idxKey c f (d.get f) d.objectId) .unit; pure ((), Flow.cont)
      | _ => fail .badInput) () (seekFwd kv pfx)
    saveMeta c { m with indexes := m.indexes ++ [f] }
    pure .unit
  | .dropIndex c f => do
    let m ← getMeta c
    if !m.indexes.contains f then fail .indexNotExist else do
    -- meta.Indexes[j] = meta.Indexes[0]; meta.Indexes = meta.Indexes[1:]
    let idxs' := dropSwap f m.indexes
    let kv ← snapshot
    let pfx := Keys.idxPrefix c f
    dropLoop pfx (seekFwd kv pfx)
    saveMeta c { m with indexes := idxs' }
    pure .unit
  | .hasIndex c f => do pure (.bool ((← getMeta c).indexes.contains f))
  | .listIndexes c => do pure (.names (← getMeta c).indexes)
  | .createCollectionByQuery c q fresh => do
    createColl c
    let docs ← iterateDocs likeFn fnFam q none
    insertDocs c (assignIds docs fresh)
    pure .unit
  | .importDocs c docs fresh =>
    match docs with
    | none => fail .badInput
    | some ds => do
      createColl c
      insertDocs c (assignIds ds fresh)
      pure .unit
  | .exportDocs _ => fail .badInput           -- two read transactions, composed by `Op.run`

structure DBState where
  kv : KVS := []
  closed : Bool := false
deriving Inhabited

structure RunResult where
  out : Res Out
  state : DBState
  fired : Bool
  trace : List Call

/-- checks made before any transaction is opened (`ReplaceById`; `ImportCollection` reads and decodes
    the file first) -/
def Op.pre : Op → Option Err
  | .replaceById _ id d => if d.objectId ≠ id then some .idMismatch else none
  | .importDocs _ none _ => some .badInput
  | _ => none

/-- `Save` routes to `Insert` or `ReplaceById`; `ReplaceById` is `UpdateById` with a constant updater -/
def Op.route : Op → Op
  | .save c d fresh =>
    let needs := !d.has idField || (match d.get idField with | .str [] => true | _ => false)
    if needs then .insert c [d] fresh else .updateById c d.objectId (.const d)
  | .replaceById c id d => .updateById c id (.const d)
  | o => o

/-- `ExportCollection`: `HasCollection` then `FindAll`, two read transactions; the fault schedule
    runs on across them (`HasCollection` makes two store calls: begin and get) -/
def execExport (c : Bytes) (kv : KVS) (φ : Faults) : Res Out × KVS × Bool × List Call :=
  match withTx false (Op.body likeFn fnFam (.hasCollection c)) φ kv with
  | (.err e, _, f1, t1) => (.err e, kv, f1, t1)
  | (.ok (.bool true), _, f1, t1) =>
    match withTx false (Op.body likeFn fnFam (.findAll { coll := c })) (fun n => φ (n + 2)) kv with
    | (.ok (.docs ds), _, f2, t2) => (.ok (.docs (ds.map jsonTypeDoc)), kv, f1 || f2, t1 ++ t2)   -- what json.Marshal writes
    | (r2, _, f2, t2) => (r2, kv, f1 || f2, t1 ++ t2)
  | (.ok _, _, f1, t1) => (.err .collNotExist, kv, f1, t1)

/-- the transaction(s) of a routed operation: outcome, committed store, fault fired, trace -/
def Op.exec (op : Op) (kv : KVS) (φ : Faults) : Res Out × KVS × Bool × List Call :=
  match op with
  | .exportDocs c => execExport likeFn fnFam c kv φ
  | _ => withTx op.isWrite (Op.body likeFn fnFam op) φ kv

/-- one public call on a handle -/
def Op.run (op : Op) (σ : DBState) (φ : Faults) : RunResult :=
  if σ.closed then ⟨.err .closed, σ, false, []⟩ else
  match op.pre with
  | some e => ⟨.err e, σ, false, []⟩
  | none =>
    let r := (op.route).exec likeFn fnFam σ.kv φ
    ⟨r.1, { σ with kv := r.2.1 }, r.2.2.1, r.2.2.2⟩

end CV
