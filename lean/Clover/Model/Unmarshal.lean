import Clover.Model.Doc
/-! # `Document.Unmarshal`: renaming the keys of a document to what `encoding/json` expects
    (internal/encoding.go `createRenameMap`, `rename`, `renameMapKeys`, called by `Convert`)

A document built from a struct carries the `clover` tag names; `json.Unmarshal` wants the `json` tag
names (or the Go field names).  `renameMapKeys` renames, level by level, following the TYPE of the
target struct.  The JSON step itself is abstracted (validated by the struct round trips of the C18 stream). -/
namespace CV

/-- the static type of an Unmarshal target, pointers already followed -/
inductive RType
  | leaf
  | struct (fields : List (Bytes × Bytes × Bytes × RType))   -- Go name, `clover` tag name ("" = none), `json` tag name ("" = none), field type
deriving Inhabited

/-- the key a field is stored under in the document -/
def fromName (g c : Bytes) : Bytes := if c.isEmpty then g else c
/-- the key `encoding/json` reads the field from -/
def toName (g j : Bytes) : Bytes := if j.isEmpty then g else j

/-- `createRenameMap`: a Go map, so a later field with the same source key wins -/
def renameMap : List (Bytes × Bytes × Bytes × RType) → List (Bytes × Bytes)
  | [] => []
  | (g, c, j, _) :: rest =>
    let rm := renameMap rest
    if (lookupKey (fromName g c) (rm.map (fun p => (p.1, Value.str p.2)))).isSome then rm   -- overwritten by a later field
    else if fromName g c = toName g j then rm else (fromName g c, toName g j) :: rm

def lookupName (k : Bytes) : List (Bytes × Bytes) → Option Bytes
  | [] => none
  | (a, b) :: t => if k = a then some b else lookupName k t

/-- `rename`: every key moves to its target simultaneously (targets are assumed distinct; with a
    collision Go's map iteration order would decide) -/
def renameTop (rm : List (Bytes × Bytes)) (d : Doc) : Doc :=
  d.foldl (fun acc kv => insertKey ((lookupName kv.1 rm).getD kv.1) kv.2 acc) []

mutual
/-- `renameMapKeys` (as repaired: nested structs are renamed by the field's TYPE, found under the key
    the field has after renaming) -/
def renameMapKeys : RType → Doc → Doc
  | .leaf, d => d
  | .struct fs, d => renameNested fs (renameTop (renameMap fs) d)
def renameNested : List (Bytes × Bytes × Bytes × RType) → Doc → Doc
  | [], d => d
  | (g, _, j, t) :: rest, d =>
    let d' := match t, lookupKey (toName g j) d with
      | .struct sub, some (.obj m) => insertKey (toName g j) (.obj (renameMapKeys (.struct sub) m)) d
      | _, _ => d
    renameNested rest d'
end

end CV
