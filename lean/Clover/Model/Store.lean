import Clover.Model.Doc
/-! # The ordered key-value store and store programs with injectable faults (store/store.go)

The store maps byte keys to decoded values (the codec round trip, `Props/C11`, justifies storing
decoded documents).  A program over an open transaction is a `StoreM`: every fallible store call
(`get`, `set`, `delete`, cursor `item`) consumes one tick of the fault schedule and is appended to
the trace; `withTx` adds `begin` (tick 0) and `commit` (last tick). -/
namespace CV

/-- collection metadata (`collectionMetadata`): size counter and the index catalog, in order -/
structure CMeta where
  size : Int
  indexes : List Bytes
deriving Inhabited

inductive SVal
  | doc (d : Doc)
  | cmeta (m : CMeta)
  | unit                 -- the empty value of an index entry
deriving Inhabited

abbrev KVS := List (Bytes × SVal)

def kvGet : KVS → Bytes → Option SVal
  | [], _ => none
  | (k', v) :: t, k => if k = k' then some v else kvGet t k

def kvSet : KVS → Bytes → SVal → KVS
  | [], k, v => [(k, v)]
  | (k', v') :: t, k, v =>
    if OC.lexLt k k' then (k, v) :: (k', v') :: t
    else if k = k' then (k, v) :: t
    else (k', v') :: kvSet t k v

def kvDel : KVS → Bytes → KVS
  | [], _ => []
  | (k', v') :: t, k => if k = k' then t else (k', v') :: kvDel t k

/-- forward cursor after `Seek(k)`: the entries at or after `k`, ascending -/
def seekFwd (kv : KVS) (k : Bytes) : KVS := kv.dropWhile (fun e => OC.lexLt e.1 k)

/-- reverse cursor after `Seek(k)`: the entries at or before `k`, descending -/
def seekRev (kv : KVS) (k : Bytes) : KVS := (kv.takeWhile (fun e => !OC.lexLt k e.1)).reverse

/-! ## errors and outcomes -/

inductive Err
  | storeFault
  | collExist | collNotExist | indexExist | indexNotExist | docNotExist | dupKey
  | invalidId          -- Validate: the `_id` is not a valid UUID / `_expiresAt` is not a time
  | idMismatch         -- ReplaceById: the document's id differs from the one supplied
  | idChanged          -- an update tried to change `_id`
  | nilDoc             -- UpdateById: updater returned nil
  | badInput           -- unreadable / ill-formed import file, unsupported value
  | closed
deriving DecidableEq, Repr, Inhabited

inductive Res (α : Type) | ok (a : α) | err (e : Err)

def Res.isErr {α} : Res α → Bool | .ok _ => false | .err _ => true

inductive Call
  | begin (w : Bool) | get (k : Bytes) | set (k : Bytes) | del (k : Bytes) | item (k : Bytes)
  | commit | rollback
deriving DecidableEq, Inhabited

abbrev Faults := Nat → Bool

structure Ctx where
  work : KVS
  tick : Nat
  fired : Bool
  trace : List Call      -- most recent first
  skipCommit : Bool := false   -- the operation returns without calling Commit (deferred Rollback only)

def StoreM (α : Type) := Faults → Ctx → Res α × Ctx

namespace StoreM

def pure' {α} (a : α) : StoreM α := fun _ c => (.ok a, c)

def bind' {α β} (m : StoreM α) (f : α → StoreM β) : StoreM β := fun φ c =>
  match m φ c with
  | (.ok a, c') => f a φ c'
  | (.err e, c') => (.err e, c')

instance : Monad StoreM where
  pure := pure'
  bind := bind'

/-- a primitive fallible store call -/
def call {α} (lbl : Call) (act : KVS → α × KVS) : StoreM α := fun φ c =>
  if φ c.tick then (.err .storeFault, { c with tick := c.tick + 1, fired := true, trace := lbl :: c.trace })
  else let r := act c.work
       (.ok r.1, { c with work := r.2, tick := c.tick + 1, trace := lbl :: c.trace })

def fail {α} (e : Err) : StoreM α := fun _ c => (.err e, c)

def get (k : Bytes) : StoreM (Option SVal) := call (.get k) (fun kv => (kvGet kv k, kv))
def set (k : Bytes) (v : SVal) : StoreM Unit := call (.set k) (fun kv => ((), kvSet kv k v))
def del (k : Bytes) : StoreM Unit := call (.del k) (fun kv => ((), kvDel kv k))
/-- `cursor.Item()` on the entry the cursor stands on -/
def item (k : Bytes) : StoreM Unit := call (.item k) (fun kv => ((), kv))
/-- the transaction's current content (cursor creation and `Seek` cannot fail in either adapter
    in a way the callers observe: `IterateRange`, `Iterate` and `Drop` ignore `Seek`'s result) -/
def snapshot : StoreM KVS := fun _ c => (.ok c.work, c)
/-- the Go function returns without reaching `tx.Commit()` -/
def noCommit : StoreM Unit := fun _ c => (.ok (), { c with skipCommit := true })

end StoreM

/-- one public operation = begin · body · (commit | rollback); returns the outcome, the committed
    state, whether a fault was injected, and the trace (oldest first) -/
def withTx {α} (write : Bool) (body : StoreM α) (φ : Faults) (σ : KVS) : Res α × KVS × Bool × List Call :=
  if φ 0 then (.err .storeFault, σ, true, [.begin write])
  else
    match body φ ⟨σ, 1, false, [.begin write], false⟩ with
    | (.err e, c) => (.err e, σ, c.fired, (.rollback :: c.trace).reverse)
    | (.ok a, c) =>
      if write && !c.skipCommit then
        if φ c.tick then (.err .storeFault, σ, true, (.rollback :: .commit :: c.trace).reverse)
        else (.ok a, c.work, c.fired, (.commit :: c.trace).reverse)
      else (.ok a, σ, c.fired, (.rollback :: c.trace).reverse)

end CV
