import Clover.Model.Doc
/-! # `Document.Fields` / `util.MapKeys` (util/map.go, document/document.go)

`Fields(includeSubFields)` is `util.MapKeys(d.fields, true, includeSubFields)`: the keys of the
field map (with `includeSubFields` the dotted names of the leaves of the nested maps), sorted as
Go strings (bytewise).  The Go loop ranges over a map (unspecified order) and sorts afterwards; the
model lists the names in the order of the association list and sorts with the same order. -/
namespace CV

/-- `key + "." + subKey` -/
def joinDot (k sub : Bytes) : Bytes := k ++ dot :: sub

/-- `util.MapKeys(m, false, true)`: a value that is a map contributes the dotted names of its own
    leaves (an EMPTY sub-map contributes nothing: `added = true` with zero sub keys), every other
    value contributes its key. -/
def leafNames : Doc → List Bytes
  | [] => []
  | (k, v) :: t =>
    (match v with
     | .obj sub => (leafNames sub).map (joinDot k)
     | _ => [k]) ++ leafNames t

/-- `util.MapKeys(m, false, false)` -/
def topNames (d : Doc) : List Bytes := d.map (·.1)

/-- `!(b < a)` for Go strings -/
def bytesLe (a b : Bytes) : Bool := !OC.lexLt b a

/-- `sort.Slice(keys, func(i, j) bool { return keys[i] < keys[j] })` -/
def sortNames (l : List Bytes) : List Bytes := l.mergeSort bytesLe

/-- `Document.Fields(includeSubFields)` -/
def Doc.fields (d : Doc) (sub : Bool) : List Bytes :=
  sortNames (if sub then leafNames d else topNames d)

/-
#eval leafNames [([0x62], .obj [([0x78], .null), ([0x79], .obj [])]), ([0x61], .bool true)]
  -- [[98, 46, 120], [97]]          ("b.x", "a"; the empty map b.y is not listed)
#eval Doc.fields [([0x62], .obj [([0x78], .null), ([0x79], .obj [])]), ([0x61], .bool true)] true
  -- [[97], [98, 46, 120]]
#eval Doc.fields [([0x62], .obj [([0x78], .null), ([0x79], .obj [])]), ([0x61], .bool true)] false
  -- [[97], [98]]
#eval Doc.fields [([0x61], .arr [.obj [([0x78], .null)]])] true
  -- [[97]]                          (arrays are leaves)
-/

end CV
