import Clover.Probe.PlannerProofs
import Clover.Probe.ScanPred
/-! calibration: IterateRange over a sorted entry list is a filter -/
namespace Pl

section generic
variable {α : Type} (R : α → α → Prop)

/-- p is downward closed w.r.t. R -/
def Down (p : α → Bool) : Prop := ∀ a b, R a b → p b = true → p a = true

theorem none_after (p : α → Bool) (hp : Down R p) (a : α) (t : List α)
    (hs : (a :: t).Pairwise R) (hpa : p a = false) : ∀ b ∈ t, p b = false := by
  intro b hb
  cases hpb : p b with
  | false => rfl
  | true =>
    have hab : R a b := (List.pairwise_cons.1 hs).1 b hb
    have := hp a b hab hpb
    simp_all

theorem takeWhile_eq_filter (p : α → Bool) (hp : Down R p) :
    (l : List α) → l.Pairwise R → l.takeWhile p = l.filter p
  | [], _ => rfl
  | a :: t, hs => by
    have ht := takeWhile_eq_filter p hp t (List.Pairwise.of_cons hs)
    simp only [List.takeWhile, List.filter]
    cases hpa : p a with
    | true => simp [ht]
    | false =>
      simp only
      have := none_after R p hp a t hs hpa
      symm
      exact List.filter_eq_nil_iff.2 (fun b hb => by simp [this b hb])

theorem dropWhile_eq_filter (p : α → Bool) (hp : Down R p) :
    (l : List α) → l.Pairwise R → l.dropWhile p = l.filter (fun e => !p e)
  | [], _ => rfl
  | a :: t, hs => by
    have ht := dropWhile_eq_filter p hp t (List.Pairwise.of_cons hs)
    simp only [List.dropWhile, List.filter]
    cases hpa : p a with
    | true => simp [ht]
    | false =>
      simp only [Bool.not_false]
      congr 1
      have := none_after R p hp a t hs hpa
      symm
      exact List.filter_eq_self.2 (fun b hb => by simp [this b hb])

theorem dropWhile_congr (p q : α → Bool) : (l : List α) → (∀ x ∈ l, p x = q x) →
    l.dropWhile p = l.dropWhile q
  | [], _ => rfl
  | a :: t, h => by
    have ha := h a (List.mem_cons_self ..)
    simp only [List.dropWhile, ha]
    cases q a with
    | true => exact dropWhile_congr p q t (fun x hx => h x (List.mem_cons_of_mem _ hx))
    | false => rfl

end generic

variable {V : Type} (O : VOrd V)
abbrev Entry (V : Type) := V × List UInt8   -- (indexed value, document id)
def leE (a b : Entry V) : Prop := O.cmp a.1 b.1 ≤ 0

/-- forward IterateRange as cursor steps over the (sorted) entries of one index -/
def scanFwd (r : Range V) (l : List (Entry V)) : List (Entry V) :=
  if r.isEmpty O then [] else
  let hasStart := !O.isNil r.start || r.isNilR O
  let hasEnd := !O.isNil r.stop || r.isNilR O
  let l1 := if hasStart then l.dropWhile (fun e => O.cmp e.1 r.start < 0) else l
  let l2 := if !O.isNil r.start && !r.si then l1.dropWhile (fun e => O.cmp e.1 r.start == 0) else l1
  l2.takeWhile (fun e => !(hasEnd && (O.cmp e.1 r.stop > 0 || (O.cmp e.1 r.stop == 0 && !r.ei))))

theorem scanFwd_exact (r : Range V) (l : List (Entry V)) (hs : l.Pairwise (leE O)) :
    scanFwd O r l = l.filter (fun e => inScan O r e.1) := by
  unfold scanFwd
  cases hem : r.isEmpty O with
  | true =>
    simp only [if_true]
    symm; apply List.filter_eq_nil_iff.2; intro e _; simp [inScan, hem]
  | false =>
    simp only [Bool.false_eq_true, if_false]
    -- the three cursor phases as filters
    have dStart : Down (leE O) (fun e : Entry V => decide (O.cmp e.1 r.start < 0)) := by
      intro a b hab hb
      simp only [decide_eq_true_eq] at *
      exact lt_of_le_of_lt O _ _ _ hab hb
    have dStartLe : Down (leE O) (fun e : Entry V => decide (O.cmp e.1 r.start ≤ 0)) := by
      intro a b hab hb
      simp only [decide_eq_true_eq] at *
      exact O.trans _ _ _ hab hb
    have dEnd : Down (leE O) (fun e : Entry V =>
        !((!O.isNil r.stop || r.isNilR O) && (decide (O.cmp e.1 r.stop > 0) || (O.cmp e.1 r.stop == 0 && !r.ei)))) := by
      intro a b hab hb
      cases hE : (!O.isNil r.stop || r.isNilR O) with
      | false => simp
      | true =>
        simp only [hE, Bool.true_and, Bool.not_eq_true', Bool.or_eq_false_iff, decide_eq_false_iff_not,
          Bool.and_eq_false_iff, beq_eq_false_iff_ne, ne_eq, Bool.not_eq_false'] at hb ⊢
        have hble : O.cmp b.1 r.stop ≤ 0 := by omega
        have hale := O.trans _ _ _ hab hble
        refine ⟨by omega, ?_⟩
        rcases hb.2 with h | h
        · -- b < stop strictly, so a < stop strictly
          left
          have : O.cmp a.1 r.stop < 0 := lt_of_le_of_lt O _ _ _ hab (by omega)
          omega
        · right; exact h
    -- phase 1: seek
    have hs1 : ∀ (b : Bool), (if b then l.dropWhile (fun e => decide (O.cmp e.1 r.start < 0)) else l)
        = l.filter (fun e => if b then !decide (O.cmp e.1 r.start < 0) else true) := by
      intro b; cases b with
      | true => simpa using dropWhile_eq_filter (leE O) _ dStart l hs
      | false => simp only [Bool.false_eq_true, if_false]; exact (List.filter_eq_self.2 (fun _ _ => rfl)).symm
    rw [hs1]
    generalize hl1 : l.filter (fun e => if (!O.isNil r.start || r.isNilR O) then !decide (O.cmp e.1 r.start < 0) else true) = l1
    have hs_l1 : l1.Pairwise (leE O) := by rw [← hl1]; exact hs.filter _
    -- phase 2: skip entries equal to an excluded start
    have hs2 : (if (!O.isNil r.start && !r.si) = true then l1.dropWhile (fun e => O.cmp e.1 r.start == 0) else l1)
        = l1.filter (fun e => if (!O.isNil r.start && !r.si) then !decide (O.cmp e.1 r.start ≤ 0) else true) := by
      cases hb : (!O.isNil r.start && !r.si) with
      | false => simp only [Bool.false_eq_true, if_false]; exact (List.filter_eq_self.2 (fun _ _ => rfl)).symm
      | true =>
        simp only [if_true]
        have hns : O.isNil r.start = false := by simp at hb; exact hb.1
        have hge : ∀ x ∈ l1, ¬ (O.cmp x.1 r.start < 0) := by
          intro x hx; rw [← hl1] at hx
          have := (List.mem_filter.1 hx).2
          simpa [hns] using this
        rw [dropWhile_congr _ (fun e => decide (O.cmp e.1 r.start ≤ 0)) l1 (by
          intro x hx
          have := hge x hx
          by_cases h0 : O.cmp x.1 r.start = 0
          · simp [h0]
          · have : ¬ (O.cmp x.1 r.start ≤ 0) := by omega
            simp [h0, this])]
        exact dropWhile_eq_filter (leE O) _ dStartLe l1 hs_l1
    rw [hs2]
    generalize hl2 : l1.filter (fun e => if (!O.isNil r.start && !r.si) then !decide (O.cmp e.1 r.start ≤ 0) else true) = l2
    have hs_l2 : l2.Pairwise (leE O) := by rw [← hl2]; exact hs_l1.filter _
    -- phase 3: stop condition
    rw [takeWhile_eq_filter (leE O) _ dEnd l2 hs_l2, ← hl2, ← hl1, List.filter_filter, List.filter_filter]
    apply List.filter_congr
    intro e _
    have := phase_pred_eq (O.cmp e.1 r.start) (O.cmp e.1 r.stop) (O.isNil r.start) (O.isNil r.stop) r.si r.ei
    simp only [inScan, hem, Bool.not_false, Bool.true_and, Range.isNilR]
    simp only at this
    rw [← this]
    simp [Bool.and_assoc, Bool.and_comm, Bool.and_left_comm]
end Pl
#print axioms Pl.scanFwd_exact
