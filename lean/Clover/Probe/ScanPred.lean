/-! pointwise equality of "cursor phase" predicate and range membership, on plain Ints and Bools -/
namespace Pl

theorem phase_pred_eq (c1 c2 : Int) (ns ne si ei : Bool) :
    let nr := ns && ne && si && ei
    let hasStart := !ns || nr
    let hasEnd := !ne || nr
    ((if hasStart then !decide (c1 < 0) else true) &&
      ((if (!ns && !si) then !decide (c1 ≤ 0) else true) &&
       !(hasEnd && (decide (c2 > 0) || (c2 == 0 && !ei)))))
    = ((!hasStart || (decide (c1 > 0) || (c1 == 0 && si))) &&
       (!hasEnd || (decide (c2 < 0) || (c2 == 0 && ei)))) := by
  rcases Int.lt_trichotomy c1 0 with h1 | h1 | h1 <;>
  rcases Int.lt_trichotomy c2 0 with h2 | h2 | h2 <;>
  cases ns <;> cases ne <;> cases si <;> cases ei <;>
  simp [*] <;> omega

end Pl
