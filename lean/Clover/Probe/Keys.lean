/-! calibration: clover's flat key space — prefixes of different collections / fields never overlap
    when names are free of the reserved ';' -/
namespace Keys

abbrev Bytes := List UInt8

def semi : UInt8 := 0x3B

/-- name free of ';' -/
def Clean (n : Bytes) : Prop := ∀ b ∈ n, b ≠ semi

def isPrefix : Bytes → Bytes → Bool
  | [], _ => true
  | _ :: _, [] => false
  | a :: as, b :: bs => a == b && isPrefix as bs

theorem isPrefix_append (p r : Bytes) : isPrefix p (p ++ r) = true := by
  induction p with
  | nil => rfl
  | cons x xs ih => simp [isPrefix, ih]

theorem isPrefix_iff (p k : Bytes) : isPrefix p k = true ↔ ∃ r, k = p ++ r := by
  induction p generalizing k with
  | nil => simp [isPrefix]
  | cons x xs ih =>
    cases k with
    | nil => simp [isPrefix]
    | cons y ys =>
      simp only [isPrefix, Bool.and_eq_true, beq_iff_eq, ih, List.cons_append, List.cons.injEq]
      constructor
      · rintro ⟨rfl, r, rfl⟩; exact ⟨r, rfl, rfl⟩
      · rintro ⟨r, rfl, rfl⟩; exact ⟨rfl, r, rfl⟩

/-- two clean names followed by ';' : one side being a prefix of the other forces equal names -/
theorem clean_split (c c' r r' : Bytes) (hc : Clean c) (hc' : Clean c')
    (h : c ++ semi :: r = c' ++ semi :: r') : c = c' ∧ r = r' := by
  induction c generalizing c' with
  | nil =>
    cases c' with
    | nil => simpa using h
    | cons y ys =>
      simp only [List.nil_append, List.cons_append, List.cons.injEq] at h
      exact absurd h.1.symm (hc' y (List.mem_cons_self ..))
  | cons x xs ih =>
    cases c' with
    | nil =>
      simp only [List.nil_append, List.cons_append, List.cons.injEq] at h
      exact absurd h.1 (hc x (List.mem_cons_self ..))
    | cons y ys =>
      simp only [List.cons_append, List.cons.injEq] at h
      have := ih ys (fun b hb => hc b (List.mem_cons_of_mem _ hb))
        (fun b hb => hc' b (List.mem_cons_of_mem _ hb)) h.2
      exact ⟨by rw [h.1, this.1], this.2⟩

theorem clean_prefix (c c' p k : Bytes) (hc : Clean c) (hc' : Clean c')
    (h : isPrefix (c' ++ semi :: p) (c ++ semi :: k) = true) : c = c' ∧ isPrefix p k = true := by
  obtain ⟨r, hr⟩ := (isPrefix_iff _ _).1 h
  rw [List.append_assoc, List.cons_append] at hr
  obtain ⟨e1, e2⟩ := clean_split c c' k (p ++ r) hc hc' hr
  exact ⟨e1, (isPrefix_iff _ _).2 ⟨r, e2⟩⟩

/-! ### the three key classes -/

def sC : Bytes := [0x63, 0x3A]                       -- "c:"
def sColl : Bytes := [0x63, 0x6F, 0x6C, 0x6C, 0x3A]  -- "coll:"
def sD : Bytes := [0x64, 0x3A]                       -- "d:"
def sI : Bytes := [0x69, 0x3A]                       -- "i:"

def metaKey (c : Bytes) : Bytes := sColl ++ c
def docPrefix (c : Bytes) : Bytes := sC ++ (c ++ semi :: sD)
def docKey (c id : Bytes) : Bytes := docPrefix c ++ id
/-- repaired index prefix: the field name carries its terminator -/
def idxPrefix (c f : Bytes) : Bytes := sC ++ (c ++ semi :: (sI ++ (f ++ [semi])))
/-- `rest` is `t:<rank>;v:<code><id>` -/
def idxKey (c f rest : Bytes) : Bytes := idxPrefix c f ++ rest

theorem docKey_prefix (c c' id : Bytes) (hc : Clean c) (hc' : Clean c') :
    isPrefix (docPrefix c') (docKey c id) = true ↔ c = c' := by
  constructor
  · intro h
    unfold docKey docPrefix at h
    simp only [sC, List.cons_append, List.nil_append, isPrefix, beq_self_eq_true, Bool.true_and,
      List.append_assoc] at h
    exact (clean_prefix c c' _ _ hc hc' h).1
  · rintro rfl; exact isPrefix_append _ _

theorem idxKey_not_docPrefix (c c' f rest : Bytes) (hc : Clean c) (hc' : Clean c') :
    isPrefix (docPrefix c') (idxKey c f rest) = false := by
  cases h : isPrefix (docPrefix c') (idxKey c f rest) with
  | false => rfl
  | true =>
    exfalso
    unfold idxKey idxPrefix docPrefix at h
    simp only [sC, List.cons_append, List.nil_append, isPrefix, beq_self_eq_true, Bool.true_and,
      List.append_assoc] at h
    have := (clean_prefix c c' _ _ hc hc' h).2
    simp [sD, sI, isPrefix] at this

theorem docKey_not_idxPrefix (c c' f id : Bytes) (hc : Clean c) (hc' : Clean c') :
    isPrefix (idxPrefix c' f) (docKey c id) = false := by
  cases h : isPrefix (idxPrefix c' f) (docKey c id) with
  | false => rfl
  | true =>
    exfalso
    unfold docKey idxPrefix docPrefix at h
    simp only [sC, List.cons_append, List.nil_append, isPrefix, beq_self_eq_true, Bool.true_and,
      List.append_assoc] at h
    have := (clean_prefix c c' _ _ hc hc' h).2
    simp [sD, sI, isPrefix] at this

/-- an index prefix selects exactly the keys of that collection and that field — also when one
    field name is a prefix of another (`x`, `xy`) or a dotted sub-path (`n`, `n.a`) -/
theorem idxKey_prefix (c c' f f' rest : Bytes) (hc : Clean c) (hc' : Clean c')
    (hf : Clean f) (hf' : Clean f') :
    isPrefix (idxPrefix c' f') (idxKey c f rest) = true ↔ c = c' ∧ f = f' := by
  constructor
  · intro h
    unfold idxKey idxPrefix at h
    simp only [sC, List.cons_append, List.nil_append, isPrefix, beq_self_eq_true, Bool.true_and,
      List.append_assoc] at h
    obtain ⟨e1, h2⟩ := clean_prefix c c' _ _ hc hc' h
    simp only [sI, List.cons_append, List.nil_append, isPrefix, beq_self_eq_true, Bool.true_and] at h2
    have h3 : isPrefix (f' ++ semi :: []) (f ++ semi :: rest) = true := by simpa using h2
    exact ⟨e1, (clean_prefix f f' _ _ hf hf' h3).1⟩
  · rintro ⟨rfl, rfl⟩; exact isPrefix_append _ _

theorem metaKey_not_c (c k : Bytes) : isPrefix sC (metaKey c) = false := by
  simp [sC, metaKey, sColl, isPrefix]

theorem docKey_inj (c c' id id' : Bytes) (hc : Clean c) (hc' : Clean c')
    (h : docKey c id = docKey c' id') : c = c' ∧ id = id' := by
  unfold docKey docPrefix at h
  simp only [sC, List.cons_append, List.nil_append, List.append_assoc, List.cons.injEq, true_and] at h
  obtain ⟨e1, e2⟩ := clean_split c c' _ _ hc hc' h
  exact ⟨e1, by simpa [sD] using e2⟩

/-- today's prefix has no terminator after the field name (F4) ... -/
def idxPrefixOld (c f : Bytes) : Bytes := sC ++ (c ++ semi :: (sI ++ f))

/-- ... so the prefix of field `x` also selects every key of field `xy` -/
theorem old_prefix_overlap (c rest : Bytes) :
    isPrefix (idxPrefixOld c [0x78]) (idxPrefixOld c [0x78, 0x79] ++ semi :: rest) = true := by
  apply (isPrefix_iff _ _).2
  exact ⟨0x79 :: semi :: rest, by simp [idxPrefixOld, sC, sI]⟩

end Keys
#print axioms Keys.idxKey_prefix
