/-! calibration: clover values, the repaired `Compare`, and its total-preorder laws (structural part).
    The number layer is abstracted by a key `nkey : Num → Int` (exact numeric denotation). -/
namespace CV

abbrev Bytes := List UInt8

inductive Num
  | int (i : Int)
  | uint (u : Nat)
  | float (bits : Nat)
deriving Repr, DecidableEq

inductive Value
  | null
  | num (n : Num)
  | str (s : Bytes)
  | bool (b : Bool)
  | time (ns : Int) (off : Int)
  | arr (xs : List Value)
  | obj (kvs : List (Bytes × Value))
deriving Repr, Inhabited

def sgn (x : Int) : Int := if x < 0 then -1 else if x = 0 then 0 else 1
def cmpInt (a b : Int) : Int := if a < b then -1 else if a = b then 0 else 1

def cmpBytes : Bytes → Bytes → Int
  | [], [] => 0
  | [], _ :: _ => -1
  | _ :: _, [] => 1
  | a :: as, b :: bs => if a < b then -1 else if b < a then 1 else cmpBytes as bs

def Value.rank : Value → Int
  | .null => 0 | .num _ => 1 | .str _ => 2 | .obj _ => 3 | .arr _ => 4 | .bool _ => 5 | .time _ _ => 6

variable (nkey : Num → Int)

mutual
def cmp : Value → Value → Int
  | .null, .null => 0
  | .num a, .num b => cmpInt (nkey a) (nkey b)
  | .str a, .str b => cmpBytes a b
  | .bool a, .bool b => cmpInt (if a then 1 else 0) (if b then 1 else 0)
  | .time a _, .time b _ => cmpInt a b
  | .arr a, .arr b => cmpList a b
  | .obj a, .obj b => cmpKVs a b
  | a, b => a.rank - b.rank
def cmpList : List Value → List Value → Int
  | [], [] => 0
  | [], _ :: _ => -1
  | _ :: _, [] => 1
  | a :: as, b :: bs => let r := cmp a b; if r ≠ 0 then r else cmpList as bs
def cmpKVs : List (Bytes × Value) → List (Bytes × Value) → Int
  | [], [] => 0
  | [], _ :: _ => -1
  | _ :: _, [] => 1
  | (k1, a) :: as, (k2, b) :: bs =>
    let rk := cmpBytes k1 k2
    if rk ≠ 0 then rk else
    let r := cmp a b; if r ≠ 0 then r else cmpKVs as bs
end

end CV
