/-! calibration: planner soundness over an abstract total preorder of values -/
namespace Pl

structure VOrd (V : Type) where
  cmp : V → V → Int
  nil : V
  isNil : V → Bool
  isNil_iff : ∀ v, isNil v = true ↔ v = nil
  refl : ∀ a, cmp a a = 0
  antisymm : ∀ a b, (cmp a b < 0 ↔ cmp b a > 0) ∧ (cmp a b = 0 ↔ cmp b a = 0)
  trans : ∀ a b c, cmp a b ≤ 0 → cmp b c ≤ 0 → cmp a c ≤ 0
  nil_min : ∀ v, cmp nil v ≤ 0
  nil_eq : ∀ v, cmp v nil = 0 → v = nil

variable {V : Type} (O : VOrd V)

abbrev Field := List UInt8

structure Doc (V : Type) where
  has : Field → Bool
  get : Field → V

inductive Operand (V : Type) | lit (v : V) | ref (g : Field)

inductive Op | eq | gt | ge | lt | le

inductive Crit (V : Type)
  | cmpLeaf (op : Op) (f : Field) (x : Operand V)
  | other (p : Doc V → Bool)            -- In / Like / Exists / Contains / MatchFunc
  | and (a b : Crit V)
  | or (a b : Crit V)
  | not (a : Crit V)

def deref (d : Doc V) : Operand V → V
  | .lit v => v
  | .ref g => d.get g

def sat (d : Doc V) : Crit V → Bool
  | .cmpLeaf .eq f x => d.has f && O.cmp (d.get f) (deref d x) == 0
  | .cmpLeaf .gt f x => O.cmp (d.get f) (deref d x) > 0
  | .cmpLeaf .ge f x => O.cmp (d.get f) (deref d x) ≥ 0
  | .cmpLeaf .lt f x => O.cmp (d.get f) (deref d x) < 0
  | .cmpLeaf .le f x => O.cmp (d.get f) (deref d x) ≤ 0
  | .other p => p d
  | .and a b => sat d a && sat d b
  | .or a b => sat d a || sat d b
  | .not a => !sat d a

/-- NotFlattenVisitor, including its quirk: the child of a double negation is returned unvisited -/
def negLeaf (op : Op) (f : Field) (x : Operand V) : Crit V :=
  match op with
  | .eq => .or (.cmpLeaf .lt f x) (.cmpLeaf .gt f x)
  | .lt => .cmpLeaf .ge f x
  | .le => .cmpLeaf .gt f x
  | .gt => .cmpLeaf .le f x
  | .ge => .cmpLeaf .lt f x

mutual
def flatten : Crit V → Crit V
  | .cmpLeaf op f x => .cmpLeaf op f x
  | .other p => .other p
  | .and a b => .and (flatten a) (flatten b)
  | .or a b => .or (flatten a) (flatten b)
  | .not a => flattenNot a
def flattenNot : Crit V → Crit V
  | .cmpLeaf op f x => negLeaf op f x
  | .other p => .not (.other p)
  | .and a b => .or (flattenNot a) (flattenNot b)
  | .or a b => .and (flattenNot a) (flattenNot b)
  | .not a => a
end

structure Range (V : Type) where
  start : V
  stop : V
  si : Bool
  ei : Bool

def Range.isNilR (r : Range V) : Bool := O.isNil r.start && O.isNil r.stop && r.si && r.ei

def Range.isEmpty (r : Range V) : Bool :=
  if (O.isNil r.start && !r.si && !O.isNil r.stop) || (O.isNil r.stop && !r.ei && !O.isNil r.start) then false
  else
    let res := O.cmp r.start r.stop
    res > 0 || (res == 0 && !r.si && !r.ei)

def interStart (r r2 : Range V) : V × Bool :=
  let res := O.cmp r2.start r.start
  if res > 0 then (r2.start, r2.si)
  else if res == 0 then (r.start, r.si && r2.si)
  else if O.isNil r.start then (r2.start, r2.si) else (r.start, r.si)

def interStop (r r2 : Range V) : V × Bool :=
  let res2 := O.cmp r2.stop r.stop
  if res2 < 0 then (r2.stop, r2.ei)
  else if res2 == 0 then (r.stop, r.ei && r2.ei)
  else if O.isNil r.stop then (r2.stop, r2.ei) else (r.stop, r.ei)

def Range.intersect (r r2 : Range V) : Range V :=
  ⟨(interStart O r r2).1, (interStop O r r2).1, (interStart O r r2).2, (interStop O r r2).2⟩

/-- what IterateRange yields for an entry with value v -/
def inScan (r : Range V) (v : V) : Bool :=
  !r.isEmpty O &&
  ((!(!O.isNil r.start || r.isNilR O)) || (O.cmp v r.start > 0 || (O.cmp v r.start == 0 && r.si))) &&
  ((!(!O.isNil r.stop || r.isNilR O)) || (O.cmp v r.stop < 0 || (O.cmp v r.stop == 0 && r.ei)))

/-- repaired unaryCriteriaToRange: no range for references, none for nil on ordering operators -/
def toRange (op : Op) (x : Operand V) : Option (Range V) :=
  match x, op with
  | .ref _, _ => none
  | .lit v, .eq => some ⟨v, v, true, true⟩
  | .lit v, .lt => if O.isNil v then none else some ⟨O.nil, v, false, false⟩
  | .lit v, .le => if O.isNil v then none else some ⟨O.nil, v, false, true⟩
  | .lit v, .gt => if O.isNil v then none else some ⟨v, O.nil, false, false⟩
  | .lit v, .ge => if O.isNil v then none else some ⟨v, O.nil, true, false⟩

def mergeAnd (ra rb : Option (Range V)) : Option (Range V) :=
  match ra, rb with
  | some r, some r2 => some (r.intersect O r2)
  | some r, none => some r
  | none, some r => some r
  | none, none => none

/-- repaired FieldRangeVisitor for one field: And intersects, Or and Not give no constraint -/
def fieldRange (f : Field) : Crit V → Option (Range V)
  | .cmpLeaf op g x => if g = f then toRange O op x else none
  | .other _ => none
  | .and a b => mergeAnd O (fieldRange f a) (fieldRange f b)
  | .or _ _ => none
  | .not _ => none

def covers (r : Option (Range V)) (v : V) : Bool :=
  match r with
  | none => true
  | some r => inScan O r v


/-- value reading of a range: a nil start never constrains; a nil stop constrains only when included -/
def lowerOK (s : V) (si : Bool) (v : V) : Prop :=
  O.isNil s = true ∨ O.cmp v s > 0 ∨ (O.cmp v s = 0 ∧ si = true)
def upperOK (e : V) (ei : Bool) (v : V) : Prop :=
  (O.isNil e = true ∧ ei = false) ∨ O.cmp v e < 0 ∨ (O.cmp v e = 0 ∧ ei = true)
def valSem (r : Range V) (v : V) : Prop := lowerOK O r.start r.si v ∧ upperOK O r.stop r.ei v

/-- an open end only occurs above a proper start -/
def J (r : Range V) : Prop := O.isNil r.stop = true → r.ei = false → O.isNil r.start = false

end Pl
