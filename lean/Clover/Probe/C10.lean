import Clover.Probe.ValueCode
import Clover.Probe.IntToFloat
/-! calibration: the number layer instantiated — C10's two halves with no hypotheses left -/
namespace CV
open F64

/-- exact numeric value scaled by 2^1074 -/
def nkey : Num → Int
  | .int i => i * 2^1074
  | .uint u => (u : Int) * 2^1074
  | .float b => fval b

/-- bits of the float64 the index encodes (`util.ToFloat64`) -/
def toF64 : Num → Nat
  | .int i => ofInt i
  | .uint u => ofNatMag u
  | .float b => b

/-- the ordered integer handed to orderedcode's int64 code -/
def numCode (n : Num) : Int := ford (toF64 n)

/-- numbers whose index key is exact: integers within ±2^53, non-NaN doubles -/
def numOK : Num → Prop
  | .int i => -2^53 ≤ i ∧ i ≤ 2^53
  | .uint u => u ≤ 2^53
  | .float b => b < 2^64 ∧ (b % 2^63) ≤ 2047 * 2^52

theorem toF64_lt (n : Num) (h : numOK n) : toF64 n < 2^64 := by
  cases n with
  | int i =>
    simp only [numOK] at h
    simp only [toF64, ofInt]
    split
    · have := ofNatMag_lt i.toNat (by omega); omega
    · have := ofNatMag_lt (-i).toNat (by omega); omega
  | uint u => simp only [numOK] at h; have := ofNatMag_lt u h; simp only [toF64]; omega
  | float b => exact h.1

theorem nkey_eq_fval (n : Num) (h : numOK n) : nkey n = fval (toF64 n) := by
  cases n with
  | int i => simp only [numOK] at h; simp only [nkey, toF64]; exact (fval_ofInt i h.1 h.2).symm
  | uint u =>
    simp only [numOK] at h
    simp only [nkey, toF64]
    have hlt := ofNatMag_lt u h
    unfold fval
    simp only [hlt, if_true, ofNatMag_exact u h]
    simp
  | float b => rfl

theorem numCode_lt (a b : Num) (ha : numOK a) (hb : numOK b) (h : nkey a < nkey b) :
    numCode a < numCode b := by
  rw [nkey_eq_fval a ha, nkey_eq_fval b hb] at h
  exact (ford_lt_iff_fval_lt _ _ (toF64_lt a ha) (toF64_lt b hb)).2 h

theorem numCode_eq (a b : Num) (ha : numOK a) (hb : numOK b) (h : nkey a = nkey b) :
    numCode a = numCode b := by
  rw [nkey_eq_fval a ha, nkey_eq_fval b hb] at h
  have h1 := ford_lt_iff_fval_lt _ _ (toF64_lt a ha) (toF64_lt b hb)
  have h2 := ford_lt_iff_fval_lt _ _ (toF64_lt b hb) (toF64_lt a ha)
  unfold numCode
  have : ¬ ford (toF64 a) < ford (toF64 b) := fun x => by have := h1.1 x; omega
  have : ¬ ford (toF64 b) < ford (toF64 a) := fun x => by have := h2.1 x; omega
  omega

theorem numCode_range (a : Num) (ha : numOK a) : -2^63 ≤ numCode a ∧ numCode a < 2^63 := by
  have := toF64_lt a ha
  unfold numCode ford
  split <;> omega

/-- C10, order half: the repaired comparison is a total preorder (any exact key works; here the value) -/
theorem c10_preorder :
    (∀ a, cmp nkey a a = 0) ∧ (∀ a b, cmp nkey a b = -cmp nkey b a) ∧
    (∀ a b c, cmp nkey a b ≤ 0 → cmp nkey b c ≤ 0 → cmp nkey a c ≤ 0) :=
  ⟨cmp_refl nkey, cmp_antisymm nkey, cmp_trans nkey⟩

/-- C10, key half: within the domain, index keys followed by any document ids sort exactly as the
    comparison, and equal values have equal keys -/
theorem c10_key_order (a b : Value) (da : Dom numOK a) (db : Dom numOK b) :
    (cmp nkey a b < 0 → ∀ id1 id2, OC.diffLt (tkey numCode a ++ id1) (tkey numCode b ++ id2) = true) ∧
    (cmp nkey a b = 0 → tkey numCode a = tkey numCode b) :=
  key_order nkey numCode numOK numCode_lt numCode_eq numCode_range a b da db

end CV
#print axioms CV.c10_preorder
#print axioms CV.c10_key_order
