/-! # The writer lock of the badger adapter (store/badger/badger.go, since F43)

`Begin(true)` locks `writeMu` and stores the unlock in the transaction (`release`); `Commit` and `Rollback` both end
with `done`, which calls `release` once and clears it.  Every public operation of clover ends a read-write
transaction by `Commit` followed by the deferred `Rollback`, or by `Rollback` alone (facts of C05: one transaction per
function, at most one commit, a deferred rollback).  What has to hold for the lock (Go's `sync.Mutex` PANICS when an
unlocked mutex is unlocked, and a mutex that is never unlocked wedges every later writer):

* whatever sequence of `Commit` / `Rollback` calls a transaction receives, the mutex is never unlocked while it is not
  locked by this transaction (`no_unlock_of_unlocked`), and
* after the first of them the mutex is free and stays free for this transaction (`released_after_first_end`):
  exactly one unlock per `Begin(true)` (`unlocks_exactly_once`);
* a read-only transaction never touches the mutex (`reader_never_touches`).

The system-level consequence - at most one read-write transaction between its begin and its end - is the discipline
`Lin.step` assumes (`Probe/Linear.lean`): `begin_blocks_while_held`. -/
namespace WLock

/-- what `Commit` / `Rollback` do to the lock: both end in `done` -/
inductive End | commit | rollback
deriving DecidableEq, Repr

/-- the adapter's transaction: `held` = `release != nil` -/
structure Tx where
  update : Bool
  held : Bool
deriving DecidableEq, Repr

/-- the mutex, with a count of the unlock calls made and a flag recording an unlock of an unlocked mutex (a Go panic) -/
structure Mu where
  locked : Bool
  unlocks : Nat
  fault : Bool
deriving DecidableEq, Repr

def Mu.unlock (m : Mu) : Mu :=
  if m.locked then { m with locked := false, unlocks := m.unlocks + 1 } else { m with fault := true }

/-- `Begin(update)`: defined when the mutex is free (a goroutine calling `Lock` on a held mutex waits) -/
def beginTx (m : Mu) (update : Bool) : Option (Mu × Tx) :=
  if update then
    if m.locked then none else some ({ m with locked := true }, ⟨true, true⟩)
  else some (m, ⟨false, false⟩)

/-- `done` -/
def done (m : Mu) (tx : Tx) : Mu × Tx :=
  if tx.held then (m.unlock, { tx with held := false }) else (m, tx)

/-- `Commit` = the library's commit, then `done`; `Rollback` = discard, then `done` -/
def endTx (m : Mu) (tx : Tx) (_ : End) : Mu × Tx := done m tx

def endAll (m : Mu) (tx : Tx) : List End → Mu × Tx
  | [] => (m, tx)
  | e :: es => let r := endTx m tx e; endAll r.1 r.2 es

/-- invariant of one transaction against the mutex: it holds the release only while the mutex is locked -/
def Ok (m : Mu) (tx : Tx) : Prop := tx.held = true → m.locked = true

theorem begin_ok (m : Mu) (u : Bool) (m' : Mu) (tx : Tx) (h : beginTx m u = some (m', tx)) :
    Ok m' tx ∧ m'.fault = m.fault ∧ m'.unlocks = m.unlocks ∧ tx.held = u ∧ tx.update = u := by
  unfold beginTx at h
  cases u with
  | false =>
    simp only [Bool.false_eq_true, if_false, Option.some.injEq, Prod.mk.injEq] at h
    obtain ⟨rfl, rfl⟩ := h
    exact ⟨fun hh => by simp at hh, rfl, rfl, rfl, rfl⟩
  | true =>
    simp only [if_true] at h
    cases hl : m.locked with
    | true => simp [hl] at h
    | false =>
      simp only [hl, Bool.false_eq_true, if_false, Option.some.injEq, Prod.mk.injEq] at h
      obtain ⟨rfl, rfl⟩ := h
      exact ⟨fun _ => rfl, rfl, rfl, rfl, rfl⟩

theorem done_spec (m : Mu) (tx : Tx) (hok : Ok m tx) :
    (done m tx).2.held = false ∧ (done m tx).1.fault = m.fault ∧
    (done m tx).1.unlocks = m.unlocks + (if tx.held then 1 else 0) ∧
    (tx.held = true → (done m tx).1.locked = false) ∧ (tx.held = false → (done m tx).1 = m) := by
  unfold done
  cases hh : tx.held with
  | false => simp [hh]
  | true =>
    have hl := hok hh
    simp [Mu.unlock, hl]

theorem endAll_not_held (m : Mu) (tx : Tx) (h : tx.held = false) (es : List End) : endAll m tx es = (m, tx) := by
  induction es with
  | nil => rfl
  | cons e es ih =>
    simp only [endAll, endTx, done, h, Bool.false_eq_true, if_false]
    exact ih

/-- **No unlock of an unlocked mutex, exactly one unlock**: after `Begin(true)` on a free mutex, ANY non-empty sequence
    of `Commit` / `Rollback` calls (the public operations use `[commit, rollback]`, `[rollback]`) leaves the mutex
    free, has unlocked it exactly once, and has never unlocked it while unlocked. -/
theorem unlocks_exactly_once (m m' : Mu) (tx : Tx) (h : beginTx m true = some (m', tx)) (e : End) (es : List End) :
    (endAll m' tx (e :: es)).1.locked = false ∧ (endAll m' tx (e :: es)).1.unlocks = m.unlocks + 1 ∧
    (endAll m' tx (e :: es)).1.fault = m.fault ∧ (endAll m' tx (e :: es)).2.held = false := by
  obtain ⟨hok, hf, hu, hh, _⟩ := begin_ok m true m' tx h
  obtain ⟨d1, d2, d3, d4, _⟩ := done_spec m' tx hok
  have hrest := endAll_not_held (done m' tx).1 (done m' tx).2 d1 es
  simp only [endAll, endTx]
  rw [hrest]
  refine ⟨d4 hh, ?_, ?_, d1⟩
  · rw [d3, hh, hu]; rfl
  · rw [d2, hf]

theorem no_unlock_of_unlocked (m m' : Mu) (tx : Tx) (u : Bool) (h : beginTx m u = some (m', tx)) (es : List End)
    (hm : m.fault = false) : (endAll m' tx es).1.fault = false := by
  obtain ⟨hok, hf, _, _, _⟩ := begin_ok m u m' tx h
  cases es with
  | nil => simp only [endAll]; rw [hf, hm]
  | cons e es =>
    obtain ⟨d1, d2, _, _, _⟩ := done_spec m' tx hok
    simp only [endAll, endTx]
    rw [endAll_not_held _ _ d1 es, d2, hf, hm]

theorem released_after_first_end (m m' : Mu) (tx : Tx) (h : beginTx m true = some (m', tx)) (e : End) :
    (endTx m' tx e).1.locked = false :=
  (unlocks_exactly_once m m' tx h e []).1

/-- a read-only transaction leaves the mutex as it is, whatever it is ended with -/
theorem reader_never_touches (m m' : Mu) (tx : Tx) (h : beginTx m false = some (m', tx)) (es : List End) :
    m' = m ∧ (endAll m' tx es).1 = m := by
  obtain ⟨_, _, _, hh, _⟩ := begin_ok m false m' tx h
  have hm : m' = m := by
    unfold beginTx at h
    simp only [Bool.false_eq_true, if_false, Option.some.injEq, Prod.mk.injEq] at h
    exact h.1.symm
  refine ⟨hm, ?_⟩
  rw [endAll_not_held m' tx hh es, hm]

/-- between `Begin(true)` and the end of that transaction no second read-write transaction begins: the single-writer
    discipline the protocol theorem (`Lin.linearizable`) is stated for -/
theorem begin_blocks_while_held (m m' : Mu) (tx : Tx) (h : beginTx m true = some (m', tx)) : beginTx m' true = none := by
  obtain ⟨hok, _, _, hh, _⟩ := begin_ok m true m' tx h
  have hl := hok hh
  simp [beginTx, hl]

/-- `Begin(update)` on a store that has been closed: the lock is taken, the closed flag is seen, the lock is given back
    before `ErrDBClosed` is returned (no transaction exists that could release it later) -/
def beginOnClosed (m : Mu) (update : Bool) : Option Mu :=
  if update then (if m.locked then none else some ({ m with locked := true } : Mu).unlock) else some m

/-- … so a refused `Begin` leaves the mutex free: the next write is refused as well, it does not wait forever -/
theorem beginOnClosed_leaves_lock_free (m m' : Mu) (u : Bool) (h : beginOnClosed m u = some m') :
    m'.locked = m.locked ∧ m'.fault = m.fault ∧ beginOnClosed m' u ≠ none := by
  unfold beginOnClosed at h
  cases u with
  | false =>
    simp only [Bool.false_eq_true, if_false, Option.some.injEq] at h
    subst h
    simp [beginOnClosed]
  | true =>
    simp only [if_true] at h
    cases hl : m.locked with
    | true => simp [hl] at h
    | false =>
      simp only [hl, Bool.false_eq_true, if_false, Option.some.injEq, Mu.unlock, if_true] at h
      subst h
      simp [beginOnClosed, Mu.unlock]

/-- the premises are satisfiable: the path every successful public write takes -/
example : (endAll ⟨true, 0, false⟩ ⟨true, true⟩ [.commit, .rollback]).1 = ⟨false, 1, false⟩ := by decide

end WLock
