import Clover.Probe.C10
import Clover.Probe.Keys
/-! calibration: the byte-level tests IterateRange performs on raw keys are the value-level tests of
    the abstract scan (`Scan.lean`): seek position, "has prefix startKey", and the stop comparison -/
namespace CV
open OC

open Keys (isPrefix)

theorem isPrefix_self_append (p r : Bytes) : isPrefix p (p ++ r) = true := by
  induction p with
  | nil => rfl
  | cons x xs ih => simp [isPrefix, ih]

theorem diffLt_not_prefix : (a b : Bytes) → diffLt a b = true → isPrefix a b = false ∧ isPrefix b a = false
  | [], _, h => by simp [diffLt] at h
  | _ :: _, [], h => by simp [diffLt] at h
  | x :: xs, y :: ys, h => by
    simp only [diffLt, Bool.or_eq_true, Bool.and_eq_true, decide_eq_true_eq, beq_iff_eq] at h
    simp only [isPrefix]
    rcases h with h | ⟨h1, h2⟩
    · have hne : x ≠ y := fun e => by subst e; exact absurd h (UInt8.lt_irrefl x)
      have hne' : y ≠ x := fun e => hne e.symm
      simp [hne, hne']
    · subst h1
      have := diffLt_not_prefix xs ys h2
      simp [this.1, this.2]

theorem lexLt_asymm : (a b : Bytes) → lexLt a b = true → lexLt b a = false
  | [], [], h => by simp [lexLt] at h
  | [], _ :: _, _ => by simp [lexLt]
  | _ :: _, [], h => by simp [lexLt] at h
  | x :: xs, y :: ys, h => by
    simp only [lexLt, Bool.or_eq_true, Bool.and_eq_true, decide_eq_true_eq, beq_iff_eq] at h
    simp only [lexLt, Bool.or_eq_false_iff, decide_eq_false_iff_not, Bool.and_eq_false_iff, beq_eq_false_iff_ne]
    rcases h with h | ⟨h1, h2⟩
    · refine ⟨?_, Or.inl ?_⟩
      · rw [UInt8.lt_iff_toNat_lt] at *; omega
      · intro e; subst e; exact absurd h (UInt8.lt_irrefl _)
    · subst h1
      exact ⟨UInt8.lt_irrefl _, Or.inr (lexLt_asymm xs ys h2)⟩

theorem lexLt_prefix (p a b : Bytes) : lexLt (p ++ a) (p ++ b) = lexLt a b := by
  induction p with
  | nil => rfl
  | cons x xs ih => simp [lexLt, UInt8.lt_irrefl, ih]

theorem lexLt_append_self (t s : Bytes) : lexLt (t ++ s) t = false := by
  induction t with
  | nil => cases s <;> simp [lexLt]
  | cons x xs ih => simp [lexLt, UInt8.lt_irrefl, ih]

theorem isPrefix_prefix (p a b : Bytes) : isPrefix (p ++ a) (p ++ b) = isPrefix a b := by
  induction p with
  | nil => rfl
  | cons x xs ih => simp [isPrefix, ih]

/-- raw key of an index entry and of a range bound, after the common `c:<coll>;i:<field>` part `P` -/
def entryKey (P : Bytes) (v : Value) (id : Bytes) : Bytes := P ++ (tkey numCode v ++ id)
def boundKey (P : Bytes) (s : Value) : Bytes := P ++ tkey numCode s

variable (P : Bytes) (v s : Value) (id : Bytes) (dv : Dom numOK v) (ds : Dom numOK s)
include dv ds

/-- forward seek: the keys strictly before `startKey` are exactly the entries with a smaller value -/
theorem entry_before_bound : lexLt (entryKey P v id) (boundKey P s) = true ↔ cmp nkey v s < 0 := by
  unfold entryKey boundKey
  rw [lexLt_prefix]
  obtain ⟨k1, k2⟩ := c10_key_order v s dv ds
  obtain ⟨j1, j2⟩ := c10_key_order s v ds dv
  have anti := cmp_antisymm nkey v s
  constructor
  · intro h
    rcases Int.lt_trichotomy (cmp nkey v s) 0 with h0 | h0 | h0
    · exact h0
    · rw [k2 h0, lexLt_append_self] at h; simp at h
    · exfalso
      have := j1 (by omega) [] id
      rw [List.append_nil] at this
      have := lexLt_asymm _ _ (diffLt_imp_lexLt _ _ this)
      simp [h] at this
  · intro h
    have := k1 h id []
    rw [List.append_nil] at this
    exact diffLt_imp_lexLt _ _ this

/-- "the key has prefix startKey" (the skip loop for an excluded bound) means "equal value" -/
theorem entry_has_bound_prefix : isPrefix (boundKey P s) (entryKey P v id) = true ↔ cmp nkey v s = 0 := by
  unfold entryKey boundKey
  rw [isPrefix_prefix]
  obtain ⟨k1, k2⟩ := c10_key_order v s dv ds
  obtain ⟨j1, _⟩ := c10_key_order s v ds dv
  have anti := cmp_antisymm nkey v s
  constructor
  · intro h
    rcases Int.lt_trichotomy (cmp nkey v s) 0 with h0 | h0 | h0
    · exfalso
      have := k1 h0 id []
      rw [List.append_nil] at this
      have := (diffLt_not_prefix _ _ this).2
      simp [h] at this
    · exact h0
    · exfalso
      have := j1 (by omega) [] id
      rw [List.append_nil] at this
      have := (diffLt_not_prefix _ _ this).1
      simp [h] at this
  · intro h; rw [k2 h]; exact isPrefix_self_append _ _

/-- the stop test compares the key without its id against `endKey`: same sign as the values -/
theorem stripped_vs_bound :
    (lexLt (boundKey P v) (boundKey P s) = true ↔ cmp nkey v s < 0) ∧
    (boundKey P v = boundKey P s ↔ cmp nkey v s = 0) := by
  unfold boundKey
  rw [lexLt_prefix]
  obtain ⟨k1, k2⟩ := c10_key_order v s dv ds
  obtain ⟨j1, _⟩ := c10_key_order s v ds dv
  have anti := cmp_antisymm nkey v s
  have irr : ∀ t : Bytes, lexLt t t = false := fun t => by simpa using lexLt_append_self t []
  refine ⟨⟨fun h => ?_, fun h => ?_⟩, ⟨fun h => ?_, fun h => by rw [k2 h]⟩⟩
  · rcases Int.lt_trichotomy (cmp nkey v s) 0 with h0 | h0 | h0
    · exact h0
    · rw [k2 h0, irr] at h; simp at h
    · exfalso
      have := j1 (by omega) [] []
      simp only [List.append_nil] at this
      have := lexLt_asymm _ _ (diffLt_imp_lexLt _ _ this)
      simp [h] at this
  · have := k1 h [] []
    simp only [List.append_nil] at this
    exact diffLt_imp_lexLt _ _ this
  · have h' : tkey numCode v = tkey numCode s := List.append_cancel_left h
    rcases Int.lt_trichotomy (cmp nkey v s) 0 with h0 | h0 | h0
    · exfalso
      have := k1 h0 [] []
      simp only [List.append_nil, h', diffLt_irrefl] at this
      simp at this
    · exact h0
    · exfalso
      have := j1 (by omega) [] []
      simp only [List.append_nil, h', diffLt_irrefl] at this
      simp at this

end CV
#print axioms CV.entry_before_bound
#print axioms CV.entry_has_bound_prefix
#print axioms CV.stripped_vs_bound
