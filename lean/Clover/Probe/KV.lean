/-! calibration: sorted association list as ordered KV store, with map laws and extensionality -/
namespace KV

notation "Key" => Nat
variable {V : Type}

def get : List (Key × V) → Key → Option V
  | [], _ => none
  | (k', v) :: t, k => if k = k' then some v else get t k

def set : List (Key × V) → Key → V → List (Key × V)
  | [], k, v => [(k, v)]
  | (k', v') :: t, k, v =>
    if k < k' then (k, v) :: (k', v') :: t
    else if k = k' then (k, v) :: t
    else (k', v') :: set t k v

def del : List (Key × V) → Key → List (Key × V)
  | [], _ => []
  | (k', v') :: t, k => if k = k' then t else (k', v') :: del t k

/-- strictly increasing keys -/
def Sorted : List (Key × V) → Prop
  | [] => True
  | [_] => True
  | (k1, _) :: (k2, v2) :: t => k1 < k2 ∧ Sorted ((k2, v2) :: t)

def LB (k : Key) : List (Key × V) → Prop
  | [] => True
  | (k', _) :: _ => k < k'

theorem sorted_tail {k v} {t : List (Key × V)} (h : Sorted ((k, v) :: t)) : Sorted t := by
  cases t with
  | nil => trivial
  | cons a t => obtain ⟨k2, v2⟩ := a; exact h.2

theorem sorted_lb {k v} {t : List (Key × V)} (h : Sorted ((k, v) :: t)) : LB k t := by
  cases t with
  | nil => trivial
  | cons a t => obtain ⟨k2, v2⟩ := a; exact h.1

theorem sorted_cons {k v} {t : List (Key × V)} (h1 : LB k t) (h2 : Sorted t) : Sorted ((k, v) :: t) := by
  cases t with
  | nil => trivial
  | cons a t => obtain ⟨k2, v2⟩ := a; exact ⟨h1, h2⟩

theorem get_none_of_lb {k k'} {t : List (Key × V)} (hs : Sorted t) (h : LB k t) (hk : k' ≤ k) : get t k' = none := by
  induction t generalizing k with
  | nil => rfl
  | cons a t ih =>
    obtain ⟨k2, v2⟩ := a
    simp only [LB] at h
    simp only [get]
    have : k' ≠ k2 := by omega
    simp [this]
    exact ih (sorted_tail hs) (sorted_lb hs) (by omega)

theorem lb_set {k k0 v} {t : List (Key × V)} (h : LB k0 t) (hk : k0 < k) : LB k0 (set t k v) := by
  cases t with
  | nil => exact hk
  | cons a t =>
    obtain ⟨k2, v2⟩ := a
    simp only [set]
    split
    · exact hk
    · split
      · exact hk
      · exact h

theorem sorted_set {t : List (Key × V)} (hs : Sorted t) (k v) : Sorted (set t k v) := by
  induction t with
  | nil => trivial
  | cons a t ih =>
    obtain ⟨k2, v2⟩ := a
    simp only [set]
    split
    · exact ⟨by assumption, hs⟩
    · split
      · subst_vars; exact sorted_cons (sorted_lb hs) (sorted_tail hs)
      · exact sorted_cons (lb_set (sorted_lb hs) (by omega)) (ih (sorted_tail hs))

theorem get_set {t : List (Key × V)} (k v k') : get (set t k v) k' = if k' = k then some v else get t k' := by
  induction t with
  | nil => simp [set, get]
  | cons a t ih =>
    obtain ⟨k2, v2⟩ := a
    simp only [set]
    split
    · simp [get]
    · split
      · subst_vars; simp only [get]; split <;> simp_all
      · simp only [get, ih]; split <;> split <;> simp_all

theorem lb_del {k0} {t : List (Key × V)} (hs : Sorted t) (h : LB k0 t) (k) : LB k0 (del t k) := by
  cases t with
  | nil => trivial
  | cons a t =>
    obtain ⟨k2, v2⟩ := a
    simp only [del]
    split
    · have := sorted_lb hs
      cases t with
      | nil => trivial
      | cons b t => obtain ⟨k3, v3⟩ := b; simp only [LB] at *; omega
    · exact h

theorem sorted_del {t : List (Key × V)} (hs : Sorted t) (k) : Sorted (del t k) := by
  induction t with
  | nil => trivial
  | cons a t ih =>
    obtain ⟨k2, v2⟩ := a
    simp only [del]
    split
    · exact sorted_tail hs
    · exact sorted_cons (lb_del (sorted_tail hs) (sorted_lb hs) k) (ih (sorted_tail hs))

theorem get_del {t : List (Key × V)} (hs : Sorted t) (k k') : get (del t k) k' = if k' = k then none else get t k' := by
  induction t with
  | nil => simp [del, get]
  | cons a t ih =>
    obtain ⟨k2, v2⟩ := a
    simp only [del]
    split
    · subst_vars
      split
      · subst_vars; exact get_none_of_lb (sorted_tail hs) (sorted_lb hs) (Nat.le_refl _)
      · simp [get, *]
    · simp only [get, ih (sorted_tail hs)]
      split <;> split <;> simp_all

theorem ext {a b : List (Key × V)} (ha : Sorted a) (hb : Sorted b) (h : ∀ k, get a k = get b k) : a = b := by
  induction a generalizing b with
  | nil =>
    cases b with
    | nil => rfl
    | cons x b => obtain ⟨k, v⟩ := x; have := h k; simp [get] at this
  | cons x a ih =>
    obtain ⟨k, v⟩ := x
    cases b with
    | nil => have := h k; simp [get] at this
    | cons y b =>
      obtain ⟨k', v'⟩ := y
      have h1 := h k
      have h2 := h k'
      simp only [get, if_true] at h1 h2
      have hk : k = k' := by
        rcases Nat.lt_trichotomy k k' with hlt | heq | hgt
        · exfalso
          have : k ≠ k' := by omega
          simp only [this, if_false] at h1
          have := get_none_of_lb (sorted_tail hb) (sorted_lb hb) (Nat.le_of_lt hlt)
          simp [this] at h1
        · exact heq
        · exfalso
          have : k' ≠ k := by omega
          simp only [this, if_false] at h2
          have := get_none_of_lb (sorted_tail ha) (sorted_lb ha) (Nat.le_of_lt hgt)
          simp [this] at h2
      subst hk
      simp at h1
      subst h1
      congr 1
      apply ih (sorted_tail ha) (sorted_tail hb)
      intro k2
      have := h k2
      simp only [get] at this
      by_cases hk2 : k2 = k
      · subst hk2
        rw [get_none_of_lb (sorted_tail ha) (sorted_lb ha) (Nat.le_refl _),
            get_none_of_lb (sorted_tail hb) (sorted_lb hb) (Nat.le_refl _)]
      · simpa [hk2] using this

end KV
