import Clover.Probe.Float
/-! calibration: Go's float64(x) for integers (round to nearest even) and its exactness up to 2^53 -/
namespace F64

/-- magnitude bits of float64(n) for a natural number n < 2^64 -/
def ofNatMag (n : Nat) : Nat :=
  if n = 0 then 0 else
  let e := Nat.log2 n
  if e ≤ 52 then (e + 1023) * 2^52 + (n - 2^e) * 2^(52 - e)
  else
    let sh := e - 52
    let q := n / 2^sh
    let r := n % 2^sh
    let half := 2^(sh - 1)
    let q' := if r > half ∨ (r = half ∧ q % 2 = 1) then q + 1 else q
    (e + 1023) * 2^52 + (q' - 2^52)

/-- a magnitude with zero fraction -/
theorem fvalMag_mul_pow (k : Nat) (hk : 0 < k) : fvalMag (k * 2^52) = 2^52 * 2^(k - 1) := by
  unfold fvalMag expOf fracOf
  rw [Nat.mul_div_cancel _ (by decide : 0 < 2^52), Nat.mul_mod_left]
  have : k ≠ 0 := by omega
  simp [this]

/-- integers up to 2^53 convert exactly -/
theorem ofNatMag_exact (n : Nat) (hn : n ≤ 2^53) : fvalMag (ofNatMag n) = n * 2^1074 := by
  unfold ofNatMag
  by_cases h0 : n = 0
  · subst h0; simp [fvalMag_zero]
  · simp only [h0, if_false]
    have hlo := Nat.log2_self_le h0
    have hhi := @Nat.lt_log2_self n
    generalize Nat.log2 n = e at *
    by_cases he : e ≤ 52
    · simp only [he, if_true]
      -- fraction stays below 2^52
      have hfr : (n - 2^e) * 2^(52 - e) < 2^52 := by
        have h1 : n - 2^e < 2^e := by rw [Nat.pow_succ] at hhi; omega
        calc (n - 2^e) * 2^(52 - e) < 2^e * 2^(52 - e) :=
                Nat.mul_lt_mul_of_pos_right h1 (Nat.pow_pos (by decide))
          _ = 2^52 := by rw [← Nat.pow_add]; congr 1; omega
      unfold fvalMag expOf fracOf
      have hexp : ((e + 1023) * 2^52 + (n - 2^e) * 2^(52 - e)) / 2^52 = e + 1023 := by
        rw [Nat.mul_comm, Nat.mul_add_div (by decide), Nat.div_eq_of_lt hfr]
      have hfrac : ((e + 1023) * 2^52 + (n - 2^e) * 2^(52 - e)) % 2^52 = (n - 2^e) * 2^(52 - e) := by
        rw [Nat.mul_comm, Nat.mul_add_mod, Nat.mod_eq_of_lt hfr]
      rw [hexp, hfrac]
      have hne : e + 1023 ≠ 0 := by omega
      simp only [hne, if_false]
      have hsplit : 2^52 = 2^e * 2^(52 - e) := by rw [← Nat.pow_add]; congr 1; omega
      have hsum : 2^52 + (n - 2^e) * 2^(52 - e) = n * 2^(52 - e) := by
        rw [hsplit, ← Nat.add_mul]; congr 1; omega
      have hexp2 : 52 - e + (e + 1023 - 1) = 1074 := by omega
      rw [hsum, Nat.mul_assoc, ← Nat.pow_add, hexp2]
    · -- only n = 2^53 remains
      have he53 : e = 53 := by
        have : n < 2^54 := by omega
        have h1 : 2^e ≤ 2^53 := Nat.le_trans hlo hn
        have : e ≤ 53 := by
          rcases Nat.lt_or_ge 53 e with h | h
          · have : 2^54 ≤ 2^e := Nat.pow_le_pow_right (by decide) h
            omega
          · exact h
        omega
      subst he53
      have hn53 : n = 2^53 := by omega
      subst hn53
      have hq : (2:Nat)^53 / 2^(53 - 52) = 2^52 := by
        show (2:Nat)^53 / 2^1 = 2^52
        rw [Nat.pow_div (by decide) (by decide)]
      have hr : (2:Nat)^53 % 2^(53 - 52) = 0 := by
        show (2:Nat)^53 % 2^1 = 0
        exact Nat.mod_eq_zero_of_dvd ⟨2^52, by rw [← Nat.pow_add]⟩
      simp only [he, if_false, hq, hr]
      have hcond : ¬ (0 > 2^(53 - 52 - 1) ∨ (0 = 2^(53 - 52 - 1) ∧ 2^52 % 2 = 1)) := by
        simp
      simp only [hcond, if_false, Nat.sub_self, Nat.add_zero]
      rw [fvalMag_mul_pow (53 + 1023) (by decide)]
      have e1 : (2:Nat)^52 * 2^(53 + 1023 - 1) = 2^(52 + (53 + 1023 - 1)) := (Nat.pow_add ..).symm
      have e2 : (2:Nat)^53 * 2^1074 = 2^(53 + 1074) := (Nat.pow_add ..).symm
      have e3 : 52 + (53 + 1023 - 1) = 53 + 1074 := by omega
      rw [e1, e2, e3]

/-- bits of float64(i) for an int64 -/
def ofInt (i : Int) : Nat := if 0 ≤ i then ofNatMag i.toNat else 2^63 + ofNatMag (-i).toNat

theorem ofNatMag_lt (n : Nat) (hn : n ≤ 2^53) : ofNatMag n < 2^63 := by
  -- the value is at most 2^53 · 2^1074, far below the value of the largest magnitude
  have hv := ofNatMag_exact n hn
  rcases Nat.lt_or_ge (ofNatMag n) (2^63) with h | h
  · exact h
  · exfalso
    have := fvalMag_mono_le (2^63) (ofNatMag n) h
    have h63 : fvalMag (2^63) = 2^52 * 2^2047 := by
      have : (2:Nat)^63 = 2048 * 2^52 := by decide
      rw [this, fvalMag_mul_pow 2048 (by decide)]
    rw [hv, h63] at this
    have : n * 2^1074 ≤ 2^53 * 2^1074 := Nat.mul_le_mul_right _ hn
    have h2 : 2^53 * 2^1074 < 2^52 * 2^2047 := by
      rw [← Nat.pow_add, ← Nat.pow_add]; exact Nat.pow_lt_pow_right (by decide) (by decide)
    omega

theorem fval_ofInt (i : Int) (h1 : -2^53 ≤ i) (h2 : i ≤ 2^53) : fval (ofInt i) = i * 2^1074 := by
  unfold ofInt
  by_cases hs : 0 ≤ i
  · simp only [hs, if_true]
    have hn : i.toNat ≤ 2^53 := by omega
    have hlt := ofNatMag_lt _ hn
    unfold fval
    simp only [hlt, if_true, ofNatMag_exact _ hn]
    have : (i.toNat : Int) = i := Int.toNat_of_nonneg hs
    rw [← this]; simp
  · simp only [hs, if_false]
    have hn : (-i).toNat ≤ 2^53 := by omega
    have hlt := ofNatMag_lt _ hn
    unfold fval
    have hge : ¬ (2^63 + ofNatMag (-i).toNat < 2^63) := by omega
    simp only [hge, if_false, Nat.add_sub_cancel_left, ofNatMag_exact _ hn]
    have : ((-i).toNat : Int) = -i := Int.toNat_of_nonneg (by omega)
    rw [Int.natCast_mul, this]; simp [Int.neg_mul]

end F64
#print axioms F64.fval_ofInt
