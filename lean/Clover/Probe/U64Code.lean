import Clover.Probe.DiffLt
/-! calibration: orderedcode's uint64 code: length byte, then big-endian without leading zeros -/
namespace OC

def lenU (x : Nat) : Nat :=
  if x = 0 then 0 else if x < 2^8 then 1 else if x < 2^16 then 2 else if x < 2^24 then 3
  else if x < 2^32 then 4 else if x < 2^40 then 5 else if x < 2^48 then 6 else if x < 2^56 then 7 else 8

def encU64 (x : Nat) : Bytes := UInt8.ofNat (lenU x) :: be (lenU x) x

theorem lenU_spec (x : Nat) (hx : x < 2^64) :
    lenU x ≤ 8 ∧ x < 256^(lenU x) ∧ (lenU x = 0 ∨ 256^(lenU x - 1) ≤ x) := by
  unfold lenU
  repeat' split
  all_goals (simp; omega)

theorem encU64_diffLt (x y : Nat) (hy : y < 2^64) (h : x < y) : diffLt (encU64 x) (encU64 y) = true := by
  have hx : x < 2^64 := by omega
  obtain ⟨a1, a2, a3⟩ := lenU_spec x hx
  obtain ⟨b1, b2, b3⟩ := lenU_spec y hy
  unfold encU64
  generalize lenU x = m at *
  generalize lenU y = n at *
  simp only [diffLt, Bool.or_eq_true, Bool.and_eq_true, decide_eq_true_eq, beq_iff_eq]
  rcases Nat.lt_trichotomy m n with hlt | heq | hgt
  · left; rw [UInt8.lt_iff_toNat_lt]; simp [UInt8.toNat_ofNat']; omega
  · subst heq; right; exact ⟨rfl, (be_diffLt_iff m x y a2 b2).2 h⟩
  · exfalso
    rcases a3 with a3 | a3
    · omega
    · have : 256^n ≤ 256^(m-1) := Nat.pow_le_pow_right (by decide) (by omega)
      omega

end OC
#print axioms OC.encU64_diffLt
