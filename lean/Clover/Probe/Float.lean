/-! calibration: IEEE-754 binary64 at bit level: exact value (scaled by 2^1074) and the ordered-int transform -/
namespace F64

/-- magnitude bits (lower 63 bits): exponent field and fraction -/
def expOf (mag : Nat) : Nat := mag / 2^52
def fracOf (mag : Nat) : Nat := mag % 2^52

/-- exact value of a non-negative double with magnitude bits `mag`, scaled by 2^1074
    (infinity, e = 2047 ∧ f = 0, gets the value the formula gives: larger than every finite one) -/
def fvalMag (mag : Nat) : Nat :=
  if expOf mag = 0 then fracOf mag else (2^52 + fracOf mag) * 2^(expOf mag - 1)

theorem fvalMag_strictMono (m1 m2 : Nat) (h : m1 < m2) : fvalMag m1 < fvalMag m2 := by
  unfold fvalMag
  have d1 := Nat.div_add_mod m1 (2^52)
  have d2 := Nat.div_add_mod m2 (2^52)
  have f1 : m1 % 2^52 < 2^52 := Nat.mod_lt _ (by decide)
  have f2 : m2 % 2^52 < 2^52 := Nat.mod_lt _ (by decide)
  unfold expOf fracOf
  generalize m1 / 2^52 = e1 at *
  generalize m2 / 2^52 = e2 at *
  generalize m1 % 2^52 = g1 at *
  generalize m2 % 2^52 = g2 at *
  have hle : e1 ≤ e2 := by
    rcases Nat.lt_or_ge e2 e1 with hlt | hge
    · exfalso
      have : 2^52 * (e2 + 1) ≤ 2^52 * e1 := Nat.mul_le_mul_left _ hlt
      omega
    · exact hge
  rcases Nat.lt_or_eq_of_le hle with hlt | heq
  · -- smaller exponent: fval1 < 2^52 * 2^e1' ≤ fval2
    by_cases h10 : e1 = 0
    · subst h10
      have he2 : e2 ≠ 0 := by omega
      simp only [if_true, he2, if_false]
      have : 1 ≤ 2^(e2 - 1) := Nat.one_le_two_pow
      calc g1 < 2^52 := f1
        _ ≤ (2^52 + g2) * 1 := by omega
        _ ≤ (2^52 + g2) * 2^(e2 - 1) := Nat.mul_le_mul_left _ this
    · have he2 : e2 ≠ 0 := by omega
      simp only [h10, he2, if_false]
      have hp : 2^(e2 - 1) = 2 * 2^(e2 - 2) * 1 ∨ True := Or.inr trivial
      have hpow : 2 * 2^(e1 - 1) ≤ 2^(e2 - 1) := by
        have : e1 - 1 + 1 ≤ e2 - 1 := by omega
        calc 2 * 2^(e1 - 1) = 2^(e1 - 1 + 1) := by rw [Nat.pow_succ]; omega
          _ ≤ 2^(e2 - 1) := Nat.pow_le_pow_right (by decide) this
      calc (2^52 + g1) * 2^(e1 - 1) < (2^52 + 2^52) * 2^(e1 - 1) :=
              Nat.mul_lt_mul_of_pos_right (by omega) (Nat.pow_pos (by decide))
        _ = 2^52 * (2 * 2^(e1 - 1)) := by rw [← Nat.two_mul]; rw [Nat.mul_assoc, Nat.mul_left_comm]
        _ ≤ 2^52 * 2^(e2 - 1) := Nat.mul_le_mul_left _ hpow
        _ ≤ (2^52 + g2) * 2^(e2 - 1) := Nat.mul_le_mul_right _ (by omega)
  · subst heq
    have hg : g1 < g2 := by omega
    by_cases h10 : e1 = 0
    · simp [h10, hg]
    · simp only [h10, if_false]
      exact Nat.mul_lt_mul_of_pos_right (by omega) (Nat.pow_pos (by decide))

/-- sign-magnitude bits → the ordered integer used by orderedcode (and by the model of big.Float.Cmp) -/
def ford (bits : Nat) : Int := if bits < 2^63 then (bits : Int) else -((bits - 2^63 : Nat) : Int)
/-- exact scaled value -/
def fval (bits : Nat) : Int := if bits < 2^63 then (fvalMag bits : Int) else -((fvalMag (bits - 2^63) : Nat) : Int)

theorem fvalMag_zero : fvalMag 0 = 0 := by decide

theorem fvalMag_mono_le (m1 m2 : Nat) (h : m1 ≤ m2) : fvalMag m1 ≤ fvalMag m2 := by
  rcases Nat.lt_or_eq_of_le h with h | h
  · exact Nat.le_of_lt (fvalMag_strictMono _ _ h)
  · subst h; exact Nat.le_refl _

/-- the ordered-int transform orders doubles exactly as their values (−0 = +0 included) -/
theorem ford_lt_iff_fval_lt (a b : Nat) (ha : a < 2^64) (hb : b < 2^64) :
    ford a < ford b ↔ fval a < fval b := by
  unfold ford fval
  by_cases sa : a < 2^63 <;> by_cases sb : b < 2^63 <;> simp only [sa, sb, if_true, if_false]
  · constructor
    · intro h; have := fvalMag_strictMono a b (by omega); omega
    · intro h
      rcases Nat.lt_or_ge a b with h1 | h1
      · omega
      · have := fvalMag_mono_le b a h1; omega
  · -- a ≥ 0, b ≤ 0
    have hb0 := fvalMag_mono_le 0 (b - 2^63) (Nat.zero_le _)
    have ha0 := fvalMag_mono_le 0 a (Nat.zero_le _)
    rw [fvalMag_zero] at hb0 ha0
    constructor
    · intro h; omega
    · intro h; omega
  · have ha0 := fvalMag_mono_le 0 (a - 2^63) (Nat.zero_le _)
    have hb0 := fvalMag_mono_le 0 b (Nat.zero_le _)
    rw [fvalMag_zero] at ha0 hb0
    constructor
    · intro h
      -- -(a') < b : either a' > 0 or b > 0
      by_cases hz : a - 2^63 = 0
      · have hb' : 0 < b := by omega
        have := fvalMag_strictMono 0 b hb'
        rw [fvalMag_zero] at this; rw [hz, fvalMag_zero]; omega
      · have := fvalMag_strictMono 0 (a - 2^63) (by omega)
        rw [fvalMag_zero] at this; omega
    · intro h
      by_cases hz : a - 2^63 = 0
      · rw [hz, fvalMag_zero] at h
        have : 0 < b := by
          rcases Nat.eq_zero_or_pos b with h0 | h0
          · subst h0; rw [fvalMag_zero] at h; omega
          · exact h0
        omega
      · omega
  · constructor
    · intro h; have := fvalMag_strictMono (b - 2^63) (a - 2^63) (by omega); omega
    · intro h
      rcases Nat.lt_or_ge (b - 2^63) (a - 2^63) with h1 | h1
      · omega
      · have := fvalMag_mono_le _ _ h1; omega

end F64
#print axioms F64.ford_lt_iff_fval_lt
