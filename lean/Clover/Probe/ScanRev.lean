import Clover.Probe.Scan
/-! calibration: the *repaired* reverse IterateRange (seek after every `endKey‖id`) over the reversed
    entry list is the same filter, reversed -/
namespace Pl

theorem phase_pred_eq_rev (c1 c2 : Int) (ns ne si ei : Bool) :
    let nr := ns && ne && si && ei
    let hasStart := !ns || nr
    let hasEnd := !ne || nr
    ((if hasEnd then !decide (c2 > 0) else true) &&
      ((if (!ne && !ei) then !decide (c2 ≥ 0) else true) &&
       !(hasStart && (decide (c1 < 0) || (c1 == 0 && !si)))))
    = ((!hasStart || (decide (c1 > 0) || (c1 == 0 && si))) &&
       (!hasEnd || (decide (c2 < 0) || (c2 == 0 && ei)))) := by
  rcases Int.lt_trichotomy c1 0 with h1 | h1 | h1 <;>
  rcases Int.lt_trichotomy c2 0 with h2 | h2 | h2 <;>
  cases ns <;> cases ne <;> cases si <;> cases ei <;>
  simp [*] <;> omega

variable {V : Type} (O : VOrd V)

def geE (a b : Entry V) : Prop := O.cmp b.1 a.1 ≤ 0

/-- reverse IterateRange with the repaired seek, as cursor steps over the reversed entries -/
def scanRev (r : Range V) (l : List (Entry V)) : List (Entry V) :=
  if r.isEmpty O then [] else
  let hasStart := !O.isNil r.start || r.isNilR O
  let hasEnd := !O.isNil r.stop || r.isNilR O
  let lr := l.reverse
  let l1 := if hasEnd then lr.dropWhile (fun e => O.cmp e.1 r.stop > 0) else lr
  let l2 := if !O.isNil r.stop && !r.ei then l1.dropWhile (fun e => O.cmp e.1 r.stop == 0) else l1
  l2.takeWhile (fun e => !(hasStart && (O.cmp e.1 r.start < 0 || (O.cmp e.1 r.start == 0 && !r.si))))

theorem gt_of_ge_of_gt (a b c : V) (h1 : O.cmp b a ≤ 0) (h2 : O.cmp b c > 0) : O.cmp a c > 0 := by
  -- c < b ≤ a
  have hcb : O.cmp c b < 0 := (cmp_gt_iff O b c).1 h2
  have := lt_of_lt_of_le O c b a hcb h1
  exact (cmp_gt_iff O a c).2 this

theorem scanRev_exact (r : Range V) (l : List (Entry V)) (hs : l.Pairwise (leE O)) :
    scanRev O r l = (l.filter (fun e => inScan O r e.1)).reverse := by
  have hsr : l.reverse.Pairwise (geE O) := by
    rw [List.pairwise_reverse]; exact hs
  rw [← List.filter_reverse]
  unfold scanRev
  simp only []
  generalize l.reverse = lr at *
  cases hem : r.isEmpty O with
  | true =>
    simp only [if_true]
    symm; apply List.filter_eq_nil_iff.2; intro e _; simp [inScan, hem]
  | false =>
    simp only [Bool.false_eq_true, if_false]
    have dEnd : Down (geE O) (fun e : Entry V => decide (O.cmp e.1 r.stop > 0)) := by
      intro a b hab hb
      simp only [decide_eq_true_eq] at *
      exact gt_of_ge_of_gt O a.1 b.1 r.stop hab hb
    have dEndGe : Down (geE O) (fun e : Entry V => decide (O.cmp e.1 r.stop ≥ 0)) := by
      intro a b hab hb
      simp only [decide_eq_true_eq] at *
      -- stop ≤ b ≤ a
      have h1 : O.cmp r.stop b.1 ≤ 0 := cmp_le_of_ge O _ _ hb
      have := O.trans _ _ _ h1 hab
      exact cmp_ge_of_le O _ _ this
    have dStart : Down (geE O) (fun e : Entry V =>
        !((!O.isNil r.start || r.isNilR O) && (decide (O.cmp e.1 r.start < 0) || (O.cmp e.1 r.start == 0 && !r.si)))) := by
      intro a b hab hb
      cases hS : (!O.isNil r.start || r.isNilR O) with
      | false => simp
      | true =>
        simp only [hS, Bool.true_and, Bool.not_eq_true', Bool.or_eq_false_iff, decide_eq_false_iff_not,
          Bool.and_eq_false_iff, beq_eq_false_iff_ne, ne_eq, Bool.not_eq_false'] at hb ⊢
        have hbge : O.cmp b.1 r.start ≥ 0 := by omega
        have hsb : O.cmp r.start b.1 ≤ 0 := cmp_le_of_ge O _ _ hbge
        have hsa := O.trans _ _ _ hsb hab
        have hage := cmp_ge_of_le O _ _ hsa
        refine ⟨by omega, ?_⟩
        rcases hb.2 with h | h
        · left
          -- b > start strictly, a ≥ b ⇒ a > start strictly
          have : O.cmp a.1 r.start > 0 := gt_of_ge_of_gt O a.1 b.1 r.start hab (by omega)
          omega
        · right; exact h
    have hs1 : ∀ (b : Bool), (if b then lr.dropWhile (fun e => decide (O.cmp e.1 r.stop > 0)) else lr)
        = lr.filter (fun e => if b then !decide (O.cmp e.1 r.stop > 0) else true) := by
      intro b; cases b with
      | true => simpa using dropWhile_eq_filter (geE O) _ dEnd lr hsr
      | false => simp only [Bool.false_eq_true, if_false]; exact (List.filter_eq_self.2 (fun _ _ => rfl)).symm
    rw [hs1]
    generalize hl1 : lr.filter (fun e => if (!O.isNil r.stop || r.isNilR O) then !decide (O.cmp e.1 r.stop > 0) else true) = l1
    have hs_l1 : l1.Pairwise (geE O) := by rw [← hl1]; exact hsr.filter _
    have hs2 : (if (!O.isNil r.stop && !r.ei) = true then l1.dropWhile (fun e => O.cmp e.1 r.stop == 0) else l1)
        = l1.filter (fun e => if (!O.isNil r.stop && !r.ei) then !decide (O.cmp e.1 r.stop ≥ 0) else true) := by
      cases hb : (!O.isNil r.stop && !r.ei) with
      | false => simp only [Bool.false_eq_true, if_false]; exact (List.filter_eq_self.2 (fun _ _ => rfl)).symm
      | true =>
        simp only [if_true]
        have hne : O.isNil r.stop = false := by simp at hb; exact hb.1
        have hle : ∀ x ∈ l1, ¬ (O.cmp x.1 r.stop > 0) := by
          intro x hx; rw [← hl1] at hx
          have := (List.mem_filter.1 hx).2
          simpa [hne] using this
        rw [dropWhile_congr _ (fun e => decide (O.cmp e.1 r.stop ≥ 0)) l1 (by
          intro x hx
          have := hle x hx
          by_cases h0 : O.cmp x.1 r.stop = 0
          · simp [h0]
          · have : ¬ (O.cmp x.1 r.stop ≥ 0) := by omega
            simp [h0, this])]
        exact dropWhile_eq_filter (geE O) _ dEndGe l1 hs_l1
    rw [hs2]
    generalize hl2 : l1.filter (fun e => if (!O.isNil r.stop && !r.ei) then !decide (O.cmp e.1 r.stop ≥ 0) else true) = l2
    have hs_l2 : l2.Pairwise (geE O) := by rw [← hl2]; exact hs_l1.filter _
    rw [takeWhile_eq_filter (geE O) _ dStart l2 hs_l2, ← hl2, ← hl1, List.filter_filter, List.filter_filter]
    apply List.filter_congr
    intro e _
    have := phase_pred_eq_rev (O.cmp e.1 r.start) (O.cmp e.1 r.stop) (O.isNil r.start) (O.isNil r.stop) r.si r.ei
    simp only [inScan, hem, Bool.not_false, Bool.true_and, Range.isNilR]
    simp only at this
    rw [← this]
    simp [Bool.and_assoc, Bool.and_comm, Bool.and_left_comm]

end Pl
#print axioms Pl.scanRev_exact
