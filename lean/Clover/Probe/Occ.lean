/-!
# Optimistic concurrency control as badger provides it: write skew through scans (F43)

clover's badger backend ran read-write transactions optimistically: a transaction works on the
snapshot of the store taken at its begin, buffers its writes, records the KEYS IT HAS READ (every
key passed to `Get` and every key an iterator has actually returned - not the ranges it scanned),
and at commit it is rejected iff a transaction that committed after its begin wrote one of those
keys; otherwise its writes are applied to the committed store.

* `Sys`, `beginTx`, `commitTx`, `conflict`, `applyWrites`, `step`, `run`: the protocol.  A program
  is a function from the snapshot to (keys it looked at, buffered writes).
* `occ_write_skew`: two bulk updates through an index (`moveAll 1 3`, `moveAll 3 1`, index entry
  "document id has x" = key `10*x+id`) begin on the same snapshot, BOTH validations succeed, and the
  final store (documents swapped) is the result of neither sequential order.
* `occ_point_reads_serializable`: if every program is *footprint-determined* (its behaviour depends
  only on the values of the keys it reports as read - true of point reads, false of scans), every
  accepted interleaving is equivalent to running the committed transactions in commit order.
  Key lemma `validation_ok_agree`: successful validation means that the snapshot and the committed
  store agree on the read set.
* `moveAll_not_footprint_determined`: the scan is not footprint-determined - a new entry appearing
  inside the scanned block (the phantom) is on no key the scan has read.
-/
namespace Occ

/-! ## (1) the model -/

abbrev Store := Nat → Option Nat
/-- buffered writes, in program order; `none` is a delete -/
abbrev Writes := List (Nat × Option Nat)
/-- a (scan-capable) transaction program: on the snapshot, the keys it has actually looked at and
    the writes it buffers -/
abbrev Prog := Store → List Nat × Writes

def setKey (s : Store) (k : Nat) (v : Option Nat) : Store := fun k' => if k' = k then v else s k'

def applyWrites (s : Store) : Writes → Store
  | [] => s
  | (k, v) :: ws => applyWrites (setKey s k v) ws

/-- a transaction in flight -/
structure Tx where
  beginTs : Nat
  snap : Store
  prog : Prog

structure Sys where
  store : Store                      -- the committed store
  ts : Nat                           -- the last commit timestamp
  log : List (Nat × List Nat)        -- committed write sets (commit timestamp, keys written)
  active : List (Nat × Tx)           -- thread ↦ transaction in flight
  hist : List (Nat × Prog)           -- the committed transactions in commit order
  outs : List (Nat × Writes)         -- the writes each committed transaction has actually applied

def init (s0 : Store) : Sys := ⟨s0, 0, [], [], [], []⟩

inductive Ev
  | begin (t : Nat) (p : Prog)
  | commit (t : Nat)

def lookup (t : Nat) : List (Nat × Tx) → Option Tx
  | [] => none
  | (t', a) :: rest => if t = t' then some a else lookup t rest

def remove (t : Nat) : List (Nat × Tx) → List (Nat × Tx)
  | [] => []
  | (t', a) :: rest => if t = t' then remove t rest else (t', a) :: remove t rest

/-- badger's validation: some write set committed after `b` touches a key of the read set -/
def conflict (log : List (Nat × List Nat)) (b : Nat) (rs : List Nat) : Bool :=
  log.any (fun e => decide (b < e.1) && e.2.any (fun k => rs.contains k))

def beginTx (s : Sys) (t : Nat) (p : Prog) : Sys :=
  { s with active := (t, ⟨s.ts, s.store, p⟩) :: s.active }

/-- commit of transaction `tx` of thread `t`: the program has run on the snapshot; rejected
    (dropped without any effect) on a conflict, otherwise its writes are applied -/
def commitTx (s : Sys) (t : Nat) (tx : Tx) : Sys :=
  if conflict s.log tx.beginTs (tx.prog tx.snap).1 then
    { s with active := remove t s.active }
  else
    { store := applyWrites s.store (tx.prog tx.snap).2
      ts := s.ts + 1
      log := (s.ts + 1, (tx.prog tx.snap).2.map (·.1)) :: s.log
      active := remove t s.active
      hist := s.hist ++ [(t, tx.prog)]
      outs := s.outs ++ [(t, (tx.prog tx.snap).2)] }

/-- one event; `none` when the event is not enabled -/
def step (s : Sys) : Ev → Option Sys
  | .begin t p => if (lookup t s.active).isSome then none else some (beginTx s t p)
  | .commit t =>
    match lookup t s.active with
    | none => none
    | some tx => some (commitTx s t tx)

def run (s : Sys) : List Ev → Option Sys
  | [] => some s
  | e :: es => match step s e with
    | none => none
    | some s' => run s' es

/-- the sequential execution of a list of transactions, each on the store left by the previous
    one: final store and the writes of each -/
def seq (s0 : Store) : List (Nat × Prog) → Store × List (Nat × Writes)
  | [] => (s0, [])
  | (id, p) :: rest =>
    let tl := seq (applyWrites s0 (p s0).2) rest
    (tl.1, (id, (p s0).2) :: tl.2)

/-- the behaviour of the program depends only on the values of the keys it reports as read -/
def FootprintDetermined (p : Prog) : Prop :=
  ∀ s s' : Store, (∀ k, k ∈ (p s).1 → s k = s' k) → p s' = p s

/-! ## (2) write skew through scans -/

def ofList (l : List (Nat × Nat)) : Store := fun k => l.lookup k

/-- the keys present (the key universe of the example is `0..49`), in key order -/
def keysOf (s : Store) : List Nat := (List.range 50).filter (fun k => (s k).isSome)

/-- `update x := b where x == a` through the index: seek to the block of `a`, every entry of the
    block is read, deleted and re-inserted in the block of `b`; the iterator also returns (so the
    transaction also reads) the first key after the block, if any -/
def moveAll (a b : Nat) : Prog := fun s =>
  let block := (keysOf s).filter (fun k => k / 10 = a)
  let next := ((keysOf s).filter (fun k => a < k / 10)).head?
  (block ++ next.toList, block.flatMap (fun k => [(k, none), (10 * b + k % 10, s k)]))

/-- document 1 has x=1, document 2 has x=2, document 3 has x=3 (the value of an entry is the id) -/
def s0 : Store := ofList [(11, 1), (22, 2), (33, 3)]

def concurrent : List Ev := [.begin 1 (moveAll 1 3), .begin 2 (moveAll 3 1), .commit 1, .commit 2]
def seq12 : List Ev := [.begin 1 (moveAll 1 3), .commit 1, .begin 2 (moveAll 3 1), .commit 2]
def seq21 : List Ev := [.begin 2 (moveAll 3 1), .commit 2, .begin 1 (moveAll 1 3), .commit 1]

/-- what can be observed of a run: the threads that committed, in commit order, and the keys
    present at the end with their values -/
def outcome (s : Store) (evs : List Ev) : Option (List Nat × List (Nat × Nat)) :=
  (run (init s) evs).map fun r =>
    (r.hist.map (·.1), (keysOf r.store).filterMap (fun k => (r.store k).map (fun v => (k, v))))

/-- the read sets and write sets of the two transactions on the common snapshot are disjoint -/
theorem skew_footprints :
    moveAll 1 3 s0 = ([11, 22], [(11, none), (31, some 1)]) ∧
    moveAll 3 1 s0 = ([33], [(33, none), (13, some 3)]) := by
  decide

/-- both transactions commit in the concurrent run, and the final store (documents 1 and 3
    swapped) is the final store of neither sequential run -/
theorem occ_write_skew :
    outcome s0 concurrent = some ([1, 2], [(13, 3), (22, 2), (31, 1)]) ∧
    outcome s0 seq12 = some ([1, 2], [(11, 1), (13, 3), (22, 2)]) ∧
    outcome s0 seq21 = some ([2, 1], [(22, 2), (31, 1), (33, 3)]) := by
  decide

/-- the same in terms of the stores: whatever the three runs end in, the store of the concurrent
    run is the store of neither sequential run, and of neither sequential execution `seq` -/
theorem occ_write_skew_stores (c a b : Sys)
    (hc : run (init s0) concurrent = some c)
    (ha : run (init s0) seq12 = some a)
    (hb : run (init s0) seq21 = some b) :
    c.hist.map (·.1) = [1, 2] ∧ c.store ≠ a.store ∧ c.store ≠ b.store ∧
    c.store ≠ (seq s0 [(1, moveAll 1 3), (2, moveAll 3 1)]).1 ∧
    c.store ≠ (seq s0 [(2, moveAll 3 1), (1, moveAll 1 3)]).1 := by
  have h := occ_write_skew
  simp only [outcome, hc, ha, hb, Option.map_some, Option.some.injEq, Prod.mk.injEq] at h
  obtain ⟨⟨hh, hcs⟩, ⟨_, has⟩, ⟨_, hbs⟩⟩ := h
  refine ⟨hh, ?_, ?_, ?_, ?_⟩
  · intro e; rw [e, has] at hcs; revert hcs; decide
  · intro e; rw [e, hbs] at hcs; revert hcs; decide
  · intro e
    have : c.store 31 = (seq s0 [(1, moveAll 1 3), (2, moveAll 3 1)]).1 31 := by rw [e]
    have h31 : c.store 31 = some 1 := by
      have : (31, 1) ∈ (keysOf c.store).filterMap (fun k => (c.store k).map (fun v => (k, v))) := by
        rw [hcs]; decide
      obtain ⟨k, _, hk⟩ := List.mem_filterMap.1 this
      cases hv : c.store k with
      | none => simp [hv] at hk
      | some v => simp [hv] at hk; obtain ⟨rfl, rfl⟩ := hk; exact hv
    rw [h31] at this
    revert this; decide
  · intro e
    have : c.store 13 = (seq s0 [(2, moveAll 3 1), (1, moveAll 1 3)]).1 13 := by rw [e]
    have h13 : c.store 13 = some 3 := by
      have : (13, 3) ∈ (keysOf c.store).filterMap (fun k => (c.store k).map (fun v => (k, v))) := by
        rw [hcs]; decide
      obtain ⟨k, _, hk⟩ := List.mem_filterMap.1 this
      cases hv : c.store k with
      | none => simp [hv] at hk
      | some v => simp [hv] at hk; obtain ⟨rfl, rfl⟩ := hk; exact hv
    rw [h13] at this
    revert this; decide

/-- the phantom: a new entry (document 4 with x=1, key 14) inside the scanned block.  The two
    stores agree on every key `moveAll 1 3` has read on the first one, yet the program behaves
    differently on the second one -/
def s0' : Store := ofList [(11, 1), (14, 4), (22, 2), (33, 3)]

theorem moveAll_phantom :
    (∀ k, k ∈ (moveAll 1 3 s0).1 → s0 k = s0' k) ∧ moveAll 1 3 s0' ≠ moveAll 1 3 s0 := by
  decide

theorem moveAll_not_footprint_determined : ¬ FootprintDetermined (moveAll 1 3) := fun h =>
  moveAll_phantom.2 (h s0 s0' moveAll_phantom.1)

/-! ## (3) without scans the scheme is serializable -/

theorem applyWrites_of_not_mem (s : Store) (ws : Writes) (k : Nat) (h : k ∉ ws.map (·.1)) :
    applyWrites s ws k = s k := by
  induction ws generalizing s with
  | nil => rfl
  | cons w rest ih =>
    obtain ⟨k', v⟩ := w
    simp only [List.map_cons, List.mem_cons, not_or] at h
    rw [applyWrites, ih _ h.2, setKey, if_neg h.1]

theorem conflict_false {log : List (Nat × List Nat)} {b : Nat} {rs : List Nat}
    (h : conflict log b rs = false) :
    ∀ e, e ∈ log → b < e.1 → ∀ k, k ∈ e.2 → k ∉ rs := by
  intro e he hb k hk hr
  have : conflict log b rs = true := by
    simp only [conflict, List.any_eq_true, Bool.and_eq_true, decide_eq_true_eq]
    exact ⟨e, he, hb, k, hk, by simpa using hr⟩
  rw [h] at this; cases this

/-- the key lemma.  `snap` is the snapshot a transaction took at timestamp `b`, related to the
    committed store as the protocol maintains it (they agree on every key no write set committed
    after `b` has touched).  If validation succeeds, they agree on the read set. -/
theorem validation_ok_agree {log : List (Nat × List Nat)} {b : Nat} {rs : List Nat}
    {snap store : Store}
    (hsnap : ∀ k, (∀ e, e ∈ log → b < e.1 → k ∉ e.2) → snap k = store k)
    (h : conflict log b rs = false) :
    ∀ k, k ∈ rs → snap k = store k := by
  intro k hk
  apply hsnap
  intro e he hb hke
  exact conflict_false h e he hb k hke hk

theorem seq_append (s0 : Store) (h : List (Nat × Prog)) (id : Nat) (p : Prog) :
    seq s0 (h ++ [(id, p)]) =
      (applyWrites (seq s0 h).1 (p (seq s0 h).1).2,
       (seq s0 h).2 ++ [(id, (p (seq s0 h).1).2)]) := by
  induction h generalizing s0 with
  | nil => simp [seq]
  | cons x rest ih =>
    obtain ⟨i, o⟩ := x
    simp only [List.cons_append, seq, ih]

theorem mem_lookup {t : Nat} {l : List (Nat × Tx)} {a : Tx} (h : lookup t l = some a) :
    (t, a) ∈ l := by
  induction l with
  | nil => simp [lookup] at h
  | cons x rest ih =>
    obtain ⟨t', a'⟩ := x
    simp only [lookup] at h
    split at h
    · rename_i heq; subst heq; cases h; exact List.mem_cons_self ..
    · exact List.mem_cons_of_mem _ (ih h)

theorem mem_remove {t t' : Nat} {l : List (Nat × Tx)} {a : Tx} (h : (t', a) ∈ remove t l) :
    (t', a) ∈ l := by
  induction l with
  | nil => simp [remove] at h
  | cons x rest ih =>
    obtain ⟨t2, a2⟩ := x
    simp only [remove] at h
    split at h
    · exact List.mem_cons_of_mem _ (ih h)
    · rcases List.mem_cons.1 h with h | h
      · cases h; exact List.mem_cons_self ..
      · exact List.mem_cons_of_mem _ (ih h)

/-- what the protocol maintains about a transaction in flight -/
def TxOk (s : Sys) (tx : Tx) : Prop :=
  FootprintDetermined tx.prog ∧ tx.beginTs ≤ s.ts ∧
  ∀ k, (∀ e, e ∈ s.log → tx.beginTs < e.1 → k ∉ e.2) → tx.snap k = s.store k

/-- the invariant tying the concurrent state to the sequential execution of the committed
    transactions in commit order -/
structure Inv (s0 : Store) (s : Sys) : Prop where
  state : (seq s0 s.hist).1 = s.store
  outs : (seq s0 s.hist).2 = s.outs
  act : ∀ t tx, (t, tx) ∈ s.active → TxOk s tx

/-- a rejected transaction has no effect -/
theorem commit_rejected_no_effect (s : Sys) (t : Nat) (tx : Tx)
    (h : conflict s.log tx.beginTs (tx.prog tx.snap).1 = true) :
    commitTx s t tx = { s with active := remove t s.active } := by
  rw [commitTx, if_pos h]

/-- the single-step commutation: an accepted commit of a footprint-determined transaction applies
    to the committed store exactly the writes the program computes ON THE COMMITTED STORE (not
    only on its snapshot), i.e. it is a sequential step -/
theorem commit_equals_sequential_step (s : Sys) (t : Nat) (tx : Tx) (hok : TxOk s tx)
    (h : conflict s.log tx.beginTs (tx.prog tx.snap).1 = false) :
    tx.prog s.store = tx.prog tx.snap ∧
    commitTx s t tx =
      { store := applyWrites s.store (tx.prog s.store).2
        ts := s.ts + 1
        log := (s.ts + 1, (tx.prog s.store).2.map (·.1)) :: s.log
        active := remove t s.active
        hist := s.hist ++ [(t, tx.prog)]
        outs := s.outs ++ [(t, (tx.prog s.store).2)] } := by
  have heq : tx.prog s.store = tx.prog tx.snap :=
    hok.1 tx.snap s.store (validation_ok_agree hok.2.2 h)
  refine ⟨heq, ?_⟩
  rw [commitTx, h, heq]
  simp only [Bool.false_eq_true, if_false]

theorem init_inv (s0 : Store) : Inv s0 (init s0) :=
  ⟨rfl, rfl, fun _ _ h => by simp [init] at h⟩

theorem step_inv (s0 : Store) (s s' : Sys) (e : Ev) (hi : Inv s0 s)
    (hfd : ∀ t p, e = .begin t p → FootprintDetermined p) (hs : step s e = some s') :
    Inv s0 s' := by
  cases e with
  | «begin» t p =>
    simp only [step] at hs
    split at hs
    · cases hs
    · cases hs
      refine ⟨hi.state, hi.outs, ?_⟩
      intro t' tx hm
      rcases List.mem_cons.1 hm with h | h
      · cases h
        exact ⟨hfd t p rfl, Nat.le_refl _, fun _ _ => rfl⟩
      · exact hi.act t' tx h
  | commit t =>
    simp only [step] at hs
    cases hl : lookup t s.active with
    | none => simp [hl] at hs
    | some tx =>
      simp only [hl, Option.some.injEq] at hs
      have hok := hi.act t tx (mem_lookup hl)
      cases hc : conflict s.log tx.beginTs (tx.prog tx.snap).1 with
      | true =>
        rw [commit_rejected_no_effect s t tx hc] at hs
        subst hs
        exact ⟨hi.state, hi.outs, fun t' tx' hm => hi.act t' tx' (mem_remove hm)⟩
      | false =>
        obtain ⟨heq, hstep⟩ := commit_equals_sequential_step s t tx hok hc
        rw [hstep] at hs
        subst hs
        have hsq := seq_append s0 s.hist t tx.prog
        rw [hi.state, hi.outs] at hsq
        refine ⟨by rw [hsq], by rw [hsq], ?_⟩
        intro t' tx' hm
        obtain ⟨hfd', hle, hag⟩ := hi.act t' tx' (mem_remove hm)
        refine ⟨hfd', Nat.le_succ_of_le hle, ?_⟩
        intro k hk
        have hk1 : k ∉ (tx.prog s.store).2.map (·.1) :=
          hk _ (List.mem_cons_self ..) (Nat.lt_succ_of_le hle)
        have hk2 : tx'.snap k = s.store k :=
          hag k (fun e he => hk e (List.mem_cons_of_mem _ he))
        show tx'.snap k = applyWrites s.store (tx.prog s.store).2 k
        rw [applyWrites_of_not_mem _ _ _ hk1, hk2]

/-- the programs begun in a list of events are all footprint-determined -/
def AllFootprintDetermined (evs : List Ev) : Prop :=
  ∀ t p, Ev.begin t p ∈ evs → FootprintDetermined p

theorem run_inv (s0 : Store) (evs : List Ev) (s s' : Sys) (hi : Inv s0 s)
    (hfd : AllFootprintDetermined evs) (hr : run s evs = some s') : Inv s0 s' := by
  induction evs generalizing s with
  | nil => simp only [run, Option.some.injEq] at hr; subst hr; exact hi
  | cons e es ih =>
    simp only [run] at hr
    cases hs : step s e with
    | none => simp [hs] at hr
    | some s1 =>
      simp only [hs] at hr
      refine ih s1 (step_inv s0 s s1 e hi ?_ hs) ?_ hr
      · intro t p he; exact hfd t p (he ▸ List.mem_cons_self ..)
      · intro t p hm; exact hfd t p (List.mem_cons_of_mem _ hm)

/-- for any footprint-determined transactions and any interleaving of begins and commits the
    protocol accepts, the final committed store is the store obtained by running the committed
    transactions (`s.hist`: thread and program, appended at each successful commit) sequentially in
    commit order, and the writes each of them applied in the concurrent run (`s.outs`) are its
    writes in that sequential run.  Rejected transactions have no effect
    (`commit_rejected_no_effect`). -/
theorem occ_point_reads_serializable (s0 : Store) (evs : List Ev) (s : Sys)
    (hfd : AllFootprintDetermined evs) (hr : run (init s0) evs = some s) :
    s.store = (seq s0 s.hist).1 ∧ s.outs = (seq s0 s.hist).2 := by
  have hi := run_inv s0 evs (init s0) s (init_inv s0) hfd hr
  exact ⟨hi.state.symm, hi.outs.symm⟩

/-- point reads are footprint-determined: a program that `Get`s a fixed list of keys and computes
    its writes from the values found -/
def pointProg (keys : List Nat) (f : List (Option Nat) → Writes) : Prog :=
  fun s => (keys, f (keys.map s))

theorem pointProg_footprint_determined (keys : List Nat) (f : List (Option Nat) → Writes) :
    FootprintDetermined (pointProg keys f) := by
  intro s s' h
  have : keys.map s' = keys.map s :=
    List.map_congr_left (fun k hk => (h k hk).symm)
  simp only [pointProg, this]

/-- the hypothesis of `occ_point_reads_serializable` cannot be dropped: the concurrent run of
    `occ_write_skew` ends in a store that is not the sequential execution of its history -/
theorem occ_scans_not_serializable :
    ∃ evs s, run (init s0) evs = some s ∧ s.store ≠ (seq s0 s.hist).1 :=
  ⟨concurrent, _, rfl, fun e => absurd (congrFun e 31) (by decide)⟩

end Occ
