import Clover.Probe.BigEndianOrder
/-! calibration: "decided at a differing byte" order on byte strings — the form of key order that
    survives appending arbitrary suffixes (document ids) -/
namespace OC

/-- a and b first differ at a position where a's byte is the smaller one -/
def diffLt : Bytes → Bytes → Bool
  | a :: as, b :: bs => a < b || (a == b && diffLt as bs)
  | _, _ => false

theorem diffLt_append : (a b s t : Bytes) → diffLt a b = true → diffLt (a ++ s) (b ++ t) = true
  | [], _, _, _, h => by simp [diffLt] at h
  | _ :: _, [], _, _, h => by simp [diffLt] at h
  | x :: xs, y :: ys, s, t, h => by
    simp only [diffLt, Bool.or_eq_true, Bool.and_eq_true, decide_eq_true_eq, beq_iff_eq,
      List.cons_append] at *
    rcases h with h | ⟨h1, h2⟩
    · exact Or.inl h
    · exact Or.inr ⟨h1, diffLt_append xs ys s t h2⟩

theorem diffLt_imp_lexLt : (a b : Bytes) → diffLt a b = true → lexLt a b = true
  | [], _, h => by simp [diffLt] at h
  | _ :: _, [], h => by simp [diffLt] at h
  | x :: xs, y :: ys, h => by
    simp only [diffLt, lexLt, Bool.or_eq_true, Bool.and_eq_true, decide_eq_true_eq, beq_iff_eq] at *
    rcases h with h | ⟨h1, h2⟩
    · exact Or.inl h
    · exact Or.inr ⟨h1, diffLt_imp_lexLt xs ys h2⟩

theorem lexLt_eqlen_diffLt : (a b : Bytes) → a.length = b.length → lexLt a b = true → diffLt a b = true
  | [], [], _, h => by simp [lexLt] at h
  | [], _ :: _, hl, _ => by simp at hl
  | _ :: _, [], hl, _ => by simp at hl
  | x :: xs, y :: ys, hl, h => by
    simp only [diffLt, lexLt, Bool.or_eq_true, Bool.and_eq_true, decide_eq_true_eq, beq_iff_eq] at *
    rcases h with h | ⟨h1, h2⟩
    · exact Or.inl h
    · exact Or.inr ⟨h1, lexLt_eqlen_diffLt xs ys (by simpa using hl) h2⟩

/-- with equal-length heads, the tails do not matter -/
theorem diffLt_append_right : (a b r : Bytes) → a.length = b.length →
    diffLt a (b ++ r) = diffLt a b
  | [], [], r, _ => by cases r <;> simp [diffLt]
  | [], _ :: _, _, hl => by simp at hl
  | _ :: _, [], _, hl => by simp at hl
  | x :: xs, y :: ys, r, hl => by
    simp only [List.cons_append, diffLt]
    rw [diffLt_append_right xs ys r (by simpa using hl)]

theorem diffLt_irrefl : (a : Bytes) → diffLt a a = false
  | [] => rfl
  | x :: xs => by simp [diffLt, UInt8.lt_irrefl, diffLt_irrefl xs]

/-- only the low n bytes of the value matter -/
theorem be_mod (k b : Nat) : be k (b % 256^k) = be k b := by
  cases k with
  | zero => rfl
  | succ k =>
    simp only [be]
    have hK : 0 < 256^k := Nat.pow_pos (by decide)
    have h1 : b % 256^(k+1) % 256^k = b % 256^k :=
      Nat.mod_mod_of_dvd _ ⟨256, by rw [Nat.pow_succ]⟩
    have h2 : b % 256^(k+1) / 256^k = (b / 256^k) % 256 := by
      rw [Nat.pow_succ, Nat.mod_mul_right_div_self]
    rw [h1, h2]
    congr 1
    apply UInt8.toNat_inj.1
    simp [UInt8.toNat_ofNat']

/-- splitting a big-endian string -/
theorem be_split (m k b : Nat) : be (m + k) b = be m (b / 256^k) ++ be k (b % 256^k) := by
  induction m generalizing b with
  | zero => simp [be, be_mod]
  | succ m ih =>
    have e : m + 1 + k = (m + k) + 1 := by omega
    rw [e]
    simp only [be, List.cons_append]
    rw [ih]
    have hK : 0 < 256^k := Nat.pow_pos (by decide)
    have hpow : 256^(m+k) = 256^m * 256^k := Nat.pow_add ..
    congr 1
    · -- leading byte
      rw [hpow, Nat.mul_comm, ← Nat.div_div_eq_div_mul]
    · congr 1
      · -- middle part
        rw [hpow]
        congr 1
        rw [Nat.mul_comm (256^m) (256^k), Nat.mod_mul_right_div_self]
      · congr 1
        rw [hpow, Nat.mul_comm (256^m) (256^k), Nat.mod_mul_right_mod]

theorem be_diffLt_iff (n a b : Nat) (ha : a < 256^n) (hb : b < 256^n) :
    diffLt (be n a) (be n b) = true ↔ a < b := by
  rw [← be_lt_iff n a b ha hb]
  constructor
  · exact diffLt_imp_lexLt _ _
  · exact lexLt_eqlen_diffLt _ _ (by simp [be_length])

/-- a shorter big-endian string against a longer one, decided at a differing byte -/
theorem be_diffLt_cross (m k a b : Nat) (ha : a < 256^m) (hb : b < 256^(m+k)) :
    diffLt (be m a) (be (m+k) b) = true ↔ a < b / 256^k := by
  rw [be_split, diffLt_append_right _ _ _ (by simp [be_length])]
  apply be_diffLt_iff _ _ _ ha
  rw [Nat.div_lt_iff_lt_mul (Nat.pow_pos (by decide)), ← Nat.pow_add]; exact hb

end OC
