/-! calibration: store programs with injectable faults; one transaction per operation;
    "a failed operation leaves no trace" and "an injected fault is always reported" by construction -/
namespace SM

variable {KV : Type}

inductive Err | storeFault | other (code : Nat)
deriving DecidableEq, Repr

inductive Res (α : Type) | ok (a : α) | err (e : Err)

def Res.isErr {α} : Res α → Bool | .ok _ => false | .err _ => true

/-- which store calls of the running operation fail (by ordinal) -/
abbrev Faults := Nat → Bool

structure Ctx (KV : Type) where
  work : KV        -- working copy of the transaction
  tick : Nat       -- store calls made so far
  fired : Bool     -- a fault has been injected

/-- a program over an open transaction -/
def StoreM (KV : Type) (α : Type) := Faults → Ctx KV → Res α × Ctx KV

def pure' {α} (a : α) : StoreM KV α := fun _ c => (.ok a, c)

def bind' {α β} (m : StoreM KV α) (f : α → StoreM KV β) : StoreM KV β := fun φ c =>
  match m φ c with
  | (.ok a, c') => f a φ c'
  | (.err e, c') => (.err e, c')

/-- a primitive store call (get / set / delete / seek / item): one tick, may be made to fail -/
def call {α} (act : KV → α × KV) : StoreM KV α := fun φ c =>
  if φ c.tick then (.err .storeFault, { c with tick := c.tick + 1, fired := true })
  else let r := act c.work; (.ok r.1, { c with work := r.2, tick := c.tick + 1 })

/-- a failure that is not a store fault (validation, duplicate key, missing collection …) -/
def fail {α} (e : Err) : StoreM KV α := fun _ c => (.err e, c)

/-- what `sortNode.Finish` does today with the result of `CallNext`: drop it -/
def ignoreErr {α} (m : StoreM KV α) : StoreM KV Unit := fun φ c => (.ok (), (m φ c).2)

def forEach {α} (f : α → StoreM KV Unit) : List α → StoreM KV Unit
  | [] => pure' ()
  | x :: xs => bind' (f x) (fun _ => forEach f xs)

/-- one public operation = begin · body · (commit | rollback) -/
def withTx {α} (write : Bool) (body : StoreM KV α) (φ : Faults) (σ : KV) : Res α × KV × Bool :=
  if φ 0 then (.err .storeFault, σ, true)                         -- Begin fails
  else
    match body φ ⟨σ, 1, false⟩ with
    | (.err e, c) => (.err e, σ, c.fired)                         -- deferred Rollback
    | (.ok a, c) =>
      if write then
        if φ c.tick then (.err .storeFault, σ, true)              -- Commit fails: nothing published
        else (.ok a, c.work, c.fired)
      else (.ok a, σ, c.fired)

/-- C04, first half: an operation that returns an error leaves the committed state untouched -/
theorem failed_op_no_trace {α} (w : Bool) (body : StoreM KV α) (φ : Faults) (σ : KV)
    (h : (withTx w body φ σ).1.isErr = true) : (withTx w body φ σ).2.1 = σ := by
  unfold withTx at *
  by_cases h0 : φ 0 = true
  · simp [h0]
  · simp only [h0, Bool.false_eq_true, if_false] at h ⊢
    cases hb : body φ ⟨σ, 1, false⟩ with
    | mk r c =>
      simp only [hb] at h ⊢
      cases r with
      | err e => rfl
      | ok a =>
        simp only at h ⊢
        cases w with
        | false => simp
        | true =>
          simp only [if_true] at h ⊢
          by_cases hc : φ c.tick = true
          · simp [hc]
          · simp [hc, Res.isErr] at h

/-- reads never change the committed state -/
theorem read_pure {α} (body : StoreM KV α) (φ : Faults) (σ : KV) : (withTx false body φ σ).2.1 = σ := by
  unfold withTx
  split
  · rfl
  · split <;> simp

/-- a program propagates faults: once one has been injected, it ends in an error -/
def Propagates {α} (m : StoreM KV α) : Prop :=
  ∀ φ c, ((m φ c).2.fired = true → c.fired = true ∨ (m φ c).1.isErr = true) ∧
         (c.fired = true → (m φ c).2.fired = true)

theorem prop_pure {α} (a : α) : Propagates (pure' a : StoreM KV α) := by
  intro φ c; exact ⟨fun h => Or.inl h, fun h => h⟩

theorem prop_fail {α} (e : Err) : Propagates (fail e : StoreM KV α) := by
  intro φ c; exact ⟨fun h => Or.inl h, fun h => h⟩

theorem prop_call {α} (act : KV → α × KV) : Propagates (call act) := by
  intro φ c
  unfold call
  split
  · exact ⟨fun _ => Or.inr rfl, fun _ => rfl⟩
  · exact ⟨fun h => Or.inl h, fun h => h⟩

theorem prop_bind {α β} (m : StoreM KV α) (f : α → StoreM KV β)
    (hm : Propagates m) (hf : ∀ a, Propagates (f a)) : Propagates (bind' m f) := by
  intro φ c
  unfold bind'
  have h1 := hm φ c
  split
  · rename_i a c' heq
    rw [heq] at h1
    have h2 := hf a φ c'
    constructor
    · intro h
      rcases h2.1 h with h3 | h3
      · rcases h1.1 h3 with h4 | h4
        · exact Or.inl h4
        · simp [Res.isErr] at h4
      · exact Or.inr h3
    · intro h; exact h2.2 (h1.2 h)
  · rename_i e c' heq
    rw [heq] at h1
    exact ⟨fun h => by rcases h1.1 h with h4 | _; exact Or.inl h4; exact Or.inr rfl, h1.2⟩

theorem prop_forEach {α} (f : α → StoreM KV Unit) (hf : ∀ a, Propagates (f a)) :
    (l : List α) → Propagates (forEach f l)
  | [] => prop_pure ()
  | x :: xs => prop_bind _ _ (hf x) (fun _ => prop_forEach f hf xs)

/-- C04, second half: if the body propagates faults, any injected fault makes the operation fail -/
theorem fault_reported {α} (w : Bool) (body : StoreM KV α) (hb : Propagates body) (φ : Faults) (σ : KV)
    (h : (withTx w body φ σ).2.2 = true) : (withTx w body φ σ).1.isErr = true := by
  unfold withTx at *
  by_cases h0 : φ 0 = true
  · simp [h0, Res.isErr]
  · simp only [h0, Bool.false_eq_true, if_false] at h ⊢
    have hp := hb φ ⟨σ, 1, false⟩
    cases hbd : body φ ⟨σ, 1, false⟩ with
    | mk r c =>
      simp only [hbd] at h ⊢ hp
      cases r with
      | err e => rfl
      | ok a =>
        simp only at h ⊢ hp
        have hnf : c.fired = true → False := by
          intro hf
          rcases hp.1 hf with h3 | h3
          · simp at h3
          · simp [Res.isErr] at h3
        cases w with
        | false => simp only [Bool.false_eq_true, if_false] at h; exact (hnf h).elim
        | true =>
          simp only [if_true] at h ⊢
          by_cases hc : φ c.tick = true
          · simp [hc, Res.isErr]
          · simp only [hc, Bool.false_eq_true, if_false] at h; exact (hnf h).elim

/-- today's sorted bulk path does not propagate: a fault inside `ignoreErr` ends in success -/
theorem ignoreErr_not_propagating :
    ¬ Propagates (ignoreErr (call (fun (s : Nat) => ((), s))) : StoreM Nat Unit) := by
  intro h
  have := (h (fun _ => true) ⟨0, 0, false⟩).1
  simp [ignoreErr, call, Res.isErr] at this

end SM
#print axioms SM.fault_reported
#print axioms SM.failed_op_no_trace
