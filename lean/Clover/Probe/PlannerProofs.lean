import Clover.Probe.Planner
namespace Pl
variable {V : Type} (O : VOrd V)

theorem cmp_gt_iff (a b : V) : O.cmp a b > 0 ↔ O.cmp b a < 0 := by
  have := (O.antisymm b a).1; constructor <;> intro h <;> simp_all
theorem cmp_eq_comm (a b : V) : O.cmp a b = 0 ↔ O.cmp b a = 0 := (O.antisymm a b).2
theorem cmp_le_of_ge (a b : V) (h : O.cmp a b ≥ 0) : O.cmp b a ≤ 0 := by
  rcases Int.lt_or_eq_of_le h with h1 | h1
  · have := (cmp_gt_iff O a b).1 (by omega); omega
  · have := (cmp_eq_comm O a b).1 (by omega); omega
theorem cmp_ge_of_le (a b : V) (h : O.cmp a b ≤ 0) : O.cmp b a ≥ 0 := by
  rcases Int.lt_or_eq_of_le h with h1 | h1
  · have := (O.antisymm a b).1.1 h1; omega
  · have := (cmp_eq_comm O a b).1 h1; omega
/-- strict/non-strict transitivity in all four flavours, from `trans` and `antisymm` -/
theorem lt_of_lt_of_le (a b c : V) (h1 : O.cmp a b < 0) (h2 : O.cmp b c ≤ 0) : O.cmp a c < 0 := by
  have h := O.trans a b c (by omega) h2
  rcases Int.lt_or_eq_of_le h with h3 | h3
  · exact h3
  · exfalso
    have hca : O.cmp c a ≤ 0 := by have := (cmp_eq_comm O a c).1 h3; omega
    have hba := O.trans b c a h2 hca
    have := cmp_ge_of_le O b a hba; omega
theorem lt_of_le_of_lt (a b c : V) (h1 : O.cmp a b ≤ 0) (h2 : O.cmp b c < 0) : O.cmp a c < 0 := by
  have h := O.trans a b c h1 (by omega)
  rcases Int.lt_or_eq_of_le h with h3 | h3
  · exact h3
  · exfalso
    have hca : O.cmp c a ≤ 0 := by have := (cmp_eq_comm O a c).1 h3; omega
    have hcb := O.trans c a b hca h1
    have := cmp_ge_of_le O c b hcb; omega

theorem isNil_cmp (v : V) (h : O.isNil v = true) (w : V) : O.cmp v w ≤ 0 := by
  have := (O.isNil_iff v).1 h; subst this; exact O.nil_min w
theorem isNil_of_le_nil (v w : V) (hw : O.isNil w = true) (h : O.cmp v w ≤ 0) : O.isNil v = true := by
  have hw' := (O.isNil_iff w).1 hw; subst hw'
  have h2 := cmp_ge_of_le O _ _ (O.nil_min v)
  have : O.cmp v O.nil = 0 := by omega
  exact (O.isNil_iff v).2 (O.nil_eq v this)

end Pl

namespace Pl
variable {V : Type} (O : VOrd V)

theorem lower_inter (r r2 : Range V) (v : V)
    (h1 : lowerOK O r.start r.si v) (h2 : lowerOK O r2.start r2.si v) :
    lowerOK O (interStart O r r2).1 (interStart O r r2).2 v := by
  unfold interStart
  simp only
  split
  · exact h2
  · split
    · rename_i hgt heq
      have heq' : O.cmp r2.start r.start = 0 := by simpa using heq
      unfold lowerOK at *
      rcases h1 with h1 | h1 | ⟨h1, h1'⟩
      · left; exact h1
      · right; left; exact h1
      · rcases h2 with h2 | h2 | ⟨h2, h2'⟩
        · -- r2.start nil and equal to r.start: r.start nil too
          left
          exact isNil_of_le_nil O r.start r2.start h2 (by have := (cmp_eq_comm O r2.start r.start).1 heq'; omega)
        · -- v > r2.start = r.start but v = r.start: contradiction
          exfalso
          have a1 : O.cmp r2.start v < 0 := (cmp_gt_iff O v r2.start).1 h2
          have a2 : O.cmp v r.start ≤ 0 := by omega
          have a3 := lt_of_lt_of_le O _ _ _ a1 a2
          omega
        · right; right; exact ⟨h1, by simp [h1', h2']⟩
    · split
      · exact h2
      · exact h1

theorem upper_inter (r r2 : Range V) (v : V)
    (h1 : upperOK O r.stop r.ei v) (h2 : upperOK O r2.stop r2.ei v) :
    upperOK O (interStop O r r2).1 (interStop O r r2).2 v := by
  unfold interStop
  simp only
  split
  · exact h2
  · split
    · rename_i hlt heq
      have heq' : O.cmp r2.stop r.stop = 0 := by simpa using heq
      have heq'' : O.cmp r.stop r2.stop = 0 := (cmp_eq_comm O _ _).1 heq'
      unfold upperOK at *
      rcases h1 with ⟨h1, h1'⟩ | h1 | ⟨h1, h1'⟩
      · left; exact ⟨h1, by simp [h1']⟩
      · right; left; exact h1
      · rcases h2 with ⟨h2, h2'⟩ | h2 | ⟨h2, h2'⟩
        · left
          refine ⟨isNil_of_le_nil O r.stop r2.stop h2 (by omega), by simp [h2']⟩
        · exfalso
          have a3 := lt_of_lt_of_le O v r2.stop r.stop h2 (by omega)
          omega
        · right; right; exact ⟨h1, by simp [h1', h2']⟩
    · split
      · exact h2
      · exact h1

theorem valSem_intersect (r r2 : Range V) (v : V) (h1 : valSem O r v) (h2 : valSem O r2 v) :
    valSem O (r.intersect O r2) v :=
  ⟨lower_inter O r r2 v h1.1 h2.1, upper_inter O r r2 v h1.2 h2.2⟩

end Pl

namespace Pl
variable {V : Type} (O : VOrd V)

theorem not_isNil_of_gt (a b : V) (h : O.cmp a b > 0) : O.isNil a = false := by
  cases hn : O.isNil a with
  | false => rfl
  | true => have := isNil_cmp O a hn b; omega

/-- start of an intersection is non-nil as soon as one operand's start is -/
theorem interStart_notNil (r r2 : Range V)
    (h : O.isNil r.start = false ∨ O.isNil r2.start = false) :
    O.isNil (interStart O r r2).1 = false := by
  unfold interStart
  simp only
  split
  · rename_i hgt; exact not_isNil_of_gt O _ _ hgt
  · split
    · rename_i hgt heq
      have heq' : O.cmp r2.start r.start = 0 := by simpa using heq
      rcases h with h | h
      · exact h
      · cases hn : O.isNil r.start with
        | false => rfl
        | true =>
          have := isNil_of_le_nil O r2.start r.start hn (by omega)
          simp_all
    · split
      · rename_i hn
        rcases h with h | h
        · simp_all
        · exact h
      · rename_i hn; simpa using hn

theorem J_intersect (r r2 : Range V) (h1 : J O r) (h2 : J O r2) : J O (r.intersect O r2) := by
  unfold J Range.intersect
  simp only
  intro hnil hei
  apply interStart_notNil
  -- find which operand has an open stop
  unfold interStop at hnil hei
  simp only at hnil hei
  split at hnil
  · right; simp_all [J]
  · split at hnil
    · rename_i hlt heq
      have heq' : O.cmp r2.stop r.stop = 0 := by simpa using heq
      simp only [*, if_true, if_false] at hei
      simp at hei
      have hn2 : O.isNil r2.stop = true := isNil_of_le_nil O r2.stop r.stop hnil (by omega)
      cases h : r.ei with
      | false => left; exact h1 hnil h
      | true => right; exact h2 hn2 (hei h)
    · split at hnil
      · rename_i h3
        simp only [*, if_true, if_false] at hei
        right; exact h2 hnil (by simpa using hei)
      · rename_i h3; simp_all

end Pl

namespace Pl
variable {V : Type} (O : VOrd V)

theorem valSem_inScan (r : Range V) (v : V) (hj : J O r) (h : valSem O r v) : inScan O r v = true := by
  obtain ⟨hl, hu⟩ := h
  unfold lowerOK at hl
  unfold upperOK at hu
  -- not reported empty
  have hne : r.isEmpty O = false := by
    unfold Range.isEmpty
    split
    · rfl
    · rename_i hshape
      simp only [Bool.or_eq_true, Bool.and_eq_true, Bool.not_eq_true', not_or, not_and] at hshape
      simp only [Bool.or_eq_false_iff, decide_eq_false_iff_not, Bool.and_eq_false_iff, Int.not_lt]
      -- facts: start ≤ v-ish and v ≤ stop-ish
      rcases hu with ⟨hen, hei⟩ | hu
      · -- open stop: then start is not nil (J), and the shape test must have fired
        have hs := hj hen hei
        exfalso
        have := hshape.2
        simp_all
      · have hvs : O.cmp v r.stop ≤ 0 := by rcases hu with hu | ⟨hu, _⟩ <;> omega
        have hsv : O.cmp r.start v ≤ 0 := by
          rcases hl with hl | hl | ⟨hl, _⟩
          · exact isNil_cmp O _ hl v
          · have := (cmp_gt_iff O v r.start).1 hl; omega
          · have := (cmp_eq_comm O v r.start).1 hl; omega
        have hss := O.trans _ _ _ hsv hvs
        refine ⟨hss, ?_⟩
        -- if start = stop then not both excluded
        by_cases h0 : O.cmp r.start r.stop = 0
        · -- then v = start = stop
          cases hsi : r.si with
          | true => simp
          | false =>
            cases hei : r.ei with
            | true => simp
            | false =>
              exfalso
              have hlt : O.cmp v r.stop < 0 := by
                rcases hu with hu | ⟨_, hu⟩
                · exact hu
                · simp_all
              rcases hl with hl | hl | ⟨_, hl⟩
              · have : O.isNil r.stop = true := by
                  have := hshape.1; simp_all
                have := isNil_cmp O r.stop this v
                have := cmp_ge_of_le O _ _ this
                omega
              · have a1 : O.cmp r.start v < 0 := (cmp_gt_iff O v r.start).1 hl
                have := lt_of_lt_of_le O _ _ _ a1 (by omega : O.cmp v r.stop ≤ 0)
                omega
              · simp_all
        · left; simp [h0]
  unfold inScan
  simp only [hne, Bool.not_false, Bool.true_and, Bool.and_eq_true, Bool.or_eq_true,
    Bool.not_eq_true', decide_eq_true_eq, beq_iff_eq]
  constructor
  · -- lower check
    cases hns : O.isNil r.start with
    | false =>
      right
      rcases hl with hl | hl | ⟨hl, hl'⟩
      · simp_all
      · left; exact hl
      · right; exact ⟨hl, hl'⟩
    | true =>
      cases hnr : r.isNilR O with
      | false => left; simp
      | true =>
        right
        unfold Range.isNilR at hnr
        simp only [Bool.and_eq_true] at hnr
        obtain ⟨⟨⟨_, hen⟩, hsi⟩, hei⟩ := hnr
        rcases hu with ⟨_, hu⟩ | hu | ⟨hu, _⟩
        · simp_all
        · exfalso
          have := isNil_cmp O r.stop hen v
          have := cmp_ge_of_le O _ _ this; omega
        · right
          have hv : O.isNil v = true := isNil_of_le_nil O v r.stop hen (by omega)
          have e1 := (O.isNil_iff v).1 hv
          have e2 := (O.isNil_iff r.start).1 hns
          rw [e1, e2]; exact ⟨O.refl _, hsi⟩
  · -- upper check
    cases hne' : O.isNil r.stop with
    | false =>
      right
      rcases hu with ⟨hu, _⟩ | hu | ⟨hu, hu'⟩
      · simp_all
      · left; exact hu
      · right; exact ⟨hu, hu'⟩
    | true =>
      cases hnr : r.isNilR O with
      | false => left; simp
      | true =>
        right
        unfold Range.isNilR at hnr
        simp only [Bool.and_eq_true] at hnr
        obtain ⟨⟨⟨_, _⟩, _⟩, hei⟩ := hnr
        rcases hu with ⟨_, hu⟩ | hu | ⟨hu, hu'⟩
        · simp_all
        · left; exact hu
        · right; exact ⟨hu, hu'⟩

end Pl

namespace Pl
variable {V : Type} (O : VOrd V)

def Good (r : Option (Range V)) (v : V) : Prop :=
  match r with
  | none => True
  | some r => valSem O r v ∧ J O r

theorem leaf_sound (d : Doc V) (op : Op) (f : Field) (x : Operand V)
    (h : sat O d (.cmpLeaf op f x) = true) : Good O (toRange O op x) (d.get f) := by
  have hnilnil : O.isNil O.nil = true := (O.isNil_iff _).2 rfl
  cases x with
  | ref g => cases op <;> trivial
  | lit w =>
    cases op with
    | eq =>
      have h' : O.cmp (d.get f) w = 0 := by
        simp only [sat, deref, Bool.and_eq_true, beq_iff_eq] at h; exact h.2
      exact ⟨⟨Or.inr (Or.inr ⟨h', rfl⟩), Or.inr (Or.inr ⟨h', rfl⟩)⟩, fun _ h2 => by simp at h2⟩
    | gt =>
      have h' : O.cmp (d.get f) w > 0 := by simpa [sat, deref] using h
      unfold toRange; simp only
      split
      · trivial
      · rename_i hn
        have hn' : O.isNil w = false := by simpa using hn
        exact ⟨⟨Or.inr (Or.inl h'), Or.inl ⟨hnilnil, rfl⟩⟩, fun _ _ => hn'⟩
    | ge =>
      have h' : O.cmp (d.get f) w ≥ 0 := by simpa [sat, deref] using h
      unfold toRange; simp only
      split
      · trivial
      · rename_i hn
        have hn' : O.isNil w = false := by simpa using hn
        refine ⟨⟨?_, Or.inl ⟨hnilnil, rfl⟩⟩, fun _ _ => hn'⟩
        rcases Int.lt_or_eq_of_le h' with h1 | h1
        · exact Or.inr (Or.inl (show O.cmp (d.get f) w > 0 by omega))
        · exact Or.inr (Or.inr ⟨show O.cmp (d.get f) w = 0 by omega, rfl⟩)
    | lt =>
      have h' : O.cmp (d.get f) w < 0 := by
        simp only [sat, deref] at h; exact of_decide_eq_true h
      unfold toRange; simp only
      split
      · trivial
      · rename_i hn
        have hn' : O.isNil w = false := by simpa using hn
        exact ⟨⟨Or.inl hnilnil, Or.inr (Or.inl h')⟩, fun h1 _ => by simp [hn'] at h1⟩
    | le =>
      have h' : O.cmp (d.get f) w ≤ 0 := by
        simp only [sat, deref] at h; exact of_decide_eq_true h
      unfold toRange; simp only
      split
      · trivial
      · rename_i hn
        have hn' : O.isNil w = false := by simpa using hn
        refine ⟨⟨Or.inl hnilnil, ?_⟩, fun h1 _ => by simp [hn'] at h1⟩
        rcases Int.lt_or_eq_of_le h' with h1 | h1
        · exact Or.inr (Or.inl h1)
        · exact Or.inr (Or.inr ⟨h1, rfl⟩)

theorem good_and (ra rb : Option (Range V)) (v : V) (ha : Good O ra v) (hb : Good O rb v) :
    Good O (mergeAnd O ra rb) v := by
  cases ra <;> cases rb <;> simp_all [Good, mergeAnd]
  exact ⟨valSem_intersect O _ _ v ha.1 hb.1, J_intersect O _ _ ha.2 hb.2⟩

/-- ranges derived from an un-flattened criterion are good for every document satisfying it -/
theorem fieldRange_good (d : Doc V) (f : Field) : (c : Crit V) → sat O d c = true →
    Good O (fieldRange O f c) (d.get f)
  | .cmpLeaf op g x, h => by
      simp only [fieldRange]; split
      · rename_i hg; subst hg; exact leaf_sound O d op g x h
      · trivial
  | .other _, _ => trivial
  | .and a b, h => by
      simp only [sat, Bool.and_eq_true] at h
      simp only [fieldRange]
      exact good_and O _ _ _ (fieldRange_good d f a h.1) (fieldRange_good d f b h.2)
  | .or _ _, _ => trivial
  | .not _, _ => trivial

theorem negLeaf_good (d : Doc V) (f : Field) (op : Op) (g : Field) (x : Operand V)
    (h : sat O d (.cmpLeaf op g x) = false) : Good O (fieldRange O f (negLeaf op g x)) (d.get f) := by
  cases op with
  | eq => simp [negLeaf, fieldRange, Good]
  | lt =>
    apply fieldRange_good O d f (negLeaf .lt g x)
    simp only [sat, decide_eq_false_iff_not, Int.not_lt] at h
    simp only [negLeaf, sat, decide_eq_true_eq]; omega
  | le =>
    apply fieldRange_good O d f (negLeaf .le g x)
    simp only [sat, decide_eq_false_iff_not, Int.not_le] at h
    simp only [negLeaf, sat, decide_eq_true_eq]; omega
  | gt =>
    apply fieldRange_good O d f (negLeaf .gt g x)
    simp only [sat, decide_eq_false_iff_not, Int.not_lt] at h
    simp only [negLeaf, sat, decide_eq_true_eq]; omega
  | ge =>
    apply fieldRange_good O d f (negLeaf .ge g x)
    simp only [sat, decide_eq_false_iff_not, Int.not_le] at h
    simp only [negLeaf, sat, decide_eq_true_eq]; omega

mutual
theorem flatten_good (d : Doc V) (f : Field) : (c : Crit V) → sat O d c = true →
    Good O (fieldRange O f (flatten c)) (d.get f)
  | .cmpLeaf op g x, h => by simpa [flatten] using fieldRange_good O d f (.cmpLeaf op g x) h
  | .other _, _ => by simp [flatten, fieldRange, Good]
  | .and a b, h => by
      simp only [sat, Bool.and_eq_true] at h
      simp only [flatten, fieldRange]
      exact good_and O _ _ _ (flatten_good d f a h.1) (flatten_good d f b h.2)
  | .or _ _, _ => by simp [flatten, fieldRange, Good]
  | .not a, h => by
      simp only [sat, Bool.not_eq_true'] at h
      simpa [flatten] using flattenNot_good d f a h
theorem flattenNot_good (d : Doc V) (f : Field) : (c : Crit V) → sat O d c = false →
    Good O (fieldRange O f (flattenNot c)) (d.get f)
  | .cmpLeaf op g x, h => by simpa [flattenNot] using negLeaf_good O d f op g x h
  | .other _, _ => by simp [flattenNot, fieldRange, Good]
  | .and _ _, _ => by simp [flattenNot, fieldRange, Good]
  | .or a b, h => by
      simp only [sat, Bool.or_eq_false_iff] at h
      simp only [flattenNot, fieldRange]
      exact good_and O _ _ _ (flattenNot_good d f a h.1) (flattenNot_good d f b h.2)
  | .not a, h => by
      simp only [sat, Bool.not_eq_false'] at h
      simpa [flattenNot] using fieldRange_good O d f a h
end

/-- planner soundness: a document satisfying the criteria is inside the range the planner scans -/
theorem planner_sound (d : Doc V) (f : Field) (c : Crit V) (h : sat O d c = true) :
    covers O (fieldRange O f (flatten c)) (d.get f) = true := by
  have := flatten_good O d f c h
  revert this
  cases fieldRange O f (flatten c) with
  | none => intro _; rfl
  | some r => intro hg; exact valSem_inScan O r _ hg.2 hg.1

end Pl
#print axioms Pl.planner_sound
