import Clover.Probe.KV
/-! calibration: representation invariant + commuting square for a toy collection (counter + documents) -/
namespace Mini

inductive Val | cnt (n : Nat) | doc (p : Nat)
deriving DecidableEq

abbrev Spec := List (Nat × Nat)        -- id ↦ payload, sorted
abbrev Store := List (Nat × Val)

def lift (m : Spec) : Store := m.map (fun e => (2 * e.1 + 1, Val.doc e.2))
def render (m : Spec) : Store := KV.set (lift m) 0 (Val.cnt m.length)

inductive Out | ok | dup | nocoll | count (n : Nat)
deriving DecidableEq

def insert (σ : Store) (id p : Nat) : Store × Out :=
  match KV.get σ 0 with
  | some (Val.cnt n) =>
    if (KV.get σ (2 * id + 1)).isSome then (σ, .dup)
    else (KV.set (KV.set σ (2 * id + 1) (Val.doc p)) 0 (Val.cnt (n + 1)), .ok)
  | _ => (σ, .nocoll)

/-- repaired DeleteById: the counter moves only when the document existed -/
def deleteById (σ : Store) (id : Nat) : Store × Out :=
  match KV.get σ 0 with
  | some (Val.cnt n) =>
    if (KV.get σ (2 * id + 1)).isSome then (KV.set (KV.del σ (2 * id + 1)) 0 (Val.cnt (n - 1)), .ok)
    else (σ, .ok)
  | _ => (σ, .nocoll)

def count (σ : Store) : Out :=
  match KV.get σ 0 with
  | some (Val.cnt n) => .count n
  | _ => .nocoll

def insertS (m : Spec) (id p : Nat) : Spec × Out :=
  if (KV.get m id).isSome then (m, .dup) else (KV.set m id p, .ok)
def deleteS (m : Spec) (id : Nat) : Spec × Out := (KV.del m id, .ok)

/-! ### facts about `lift` and `render` -/

theorem sorted_lift : (m : Spec) → KV.Sorted m → KV.Sorted (lift m)
  | [], _ => trivial
  | [_], _ => trivial
  | (k1, v1) :: (k2, v2) :: t, h => by
    have := sorted_lift ((k2, v2) :: t) h.2
    exact ⟨by have := h.1; simp only; omega, this⟩

theorem get_lift_odd (m : Spec) (id : Nat) : KV.get (lift m) (2 * id + 1) = (KV.get m id).map Val.doc := by
  induction m with
  | nil => rfl
  | cons e t ih =>
    obtain ⟨k, v⟩ := e
    simp only [lift, List.map, KV.get] at *
    by_cases h : id = k
    · subst h; simp
    · have : 2 * id + 1 ≠ 2 * k + 1 := by omega
      have t2 : 2 * id ≠ 2 * k := by omega
      simp [h, this, t2, ih]

theorem get_lift_even (m : Spec) (j : Nat) : KV.get (lift m) (2 * j) = none := by
  induction m with
  | nil => rfl
  | cons e t ih =>
    obtain ⟨k, v⟩ := e
    simp only [lift, List.map, KV.get] at *
    have : 2 * j ≠ 2 * k + 1 := by omega
    simp [this, ih]

theorem sorted_render (m : Spec) (h : KV.Sorted m) : KV.Sorted (render m) := KV.sorted_set (sorted_lift m h) _ _

theorem get_render_meta (m : Spec) : KV.get (render m) 0 = some (Val.cnt m.length) := by
  simp [render, KV.get_set]

theorem get_render_doc (m : Spec) (id : Nat) : KV.get (render m) (2 * id + 1) = (KV.get m id).map Val.doc := by
  simp [render, KV.get_set, get_lift_odd]

theorem get_render_even (m : Spec) (j : Nat) (hj : 0 < j) : KV.get (render m) (2 * j) = none := by
  have : 2 * j ≠ 0 := by omega
  simp [render, KV.get_set, this, get_lift_even]

theorem length_set_absent : (m : Spec) → (k v : Nat) → KV.get m k = none → (KV.set m k v).length = m.length + 1
  | [], _, _, _ => rfl
  | (k', v') :: t, k, v, h => by
    simp only [KV.get] at h
    split at h
    · simp at h
    · rename_i hne
      simp only [KV.set]
      split
      · simp
      · simp only [hne, if_false, List.length_cons]
        rw [length_set_absent t k v h]

theorem length_del_present : (m : Spec) → (k : Nat) → (KV.get m k).isSome → (KV.del m k).length = m.length - 1
  | [], _, h => by simp [KV.get] at h
  | (k', v') :: t, k, h => by
    simp only [KV.get] at h
    simp only [KV.del]
    split
    · simp
    · rename_i hne
      simp only [hne, if_false] at h
      have := length_del_present t k h
      have hpos : 0 < t.length := by
        cases t with
        | nil => simp [KV.get] at h
        | cons _ _ => simp
      simp only [List.length_cons, this]; omega

/-- every key is the counter, a document key, or a key that is never used -/
theorem key_cases (k : Nat) : k = 0 ∨ (∃ id, k = 2 * id + 1) ∨ (∃ j, 0 < j ∧ k = 2 * j) := by
  rcases Nat.mod_two_eq_zero_or_one k with hj | hj
  · by_cases h0 : k = 0
    · left; exact h0
    · right; right; exact ⟨k / 2, by omega, by omega⟩
  · right; left; exact ⟨k / 2, by omega⟩

/-! ### commuting squares -/

theorem insert_refines (m : Spec) (hm : KV.Sorted m) (id p : Nat) :
    insert (render m) id p = (render (insertS m id p).1, (insertS m id p).2) := by
  unfold insert insertS
  rw [get_render_meta, get_render_doc]
  cases hg : KV.get m id with
  | some v => simp
  | none =>
    simp only [Option.map_none, Option.isSome_none, Bool.false_eq_true, if_false, Prod.mk.injEq, and_true]
    apply KV.ext
    · exact KV.sorted_set (KV.sorted_set (sorted_render m hm) _ _) _ _
    · exact sorted_render _ (KV.sorted_set hm _ _)
    · intro k
      rcases key_cases k with h | ⟨j, h⟩ | ⟨j, hj, h⟩
      · subst h
        simp [KV.get_set, get_render_meta, length_set_absent m id p hg]
      · subst h
        have : 2 * j + 1 ≠ 0 := by omega
        simp only [KV.get_set, this, if_false, get_render_doc]
        by_cases hj : j = id
        · subst hj; simp
        · have : 2 * j + 1 ≠ 2 * id + 1 := by omega
          have t2 : 2 * j ≠ 2 * id := by omega
          simp [this, t2, hj]
      · subst h
        have h0 : 2 * j ≠ 0 := by omega
        have h1 : 2 * j ≠ 2 * id + 1 := by omega
        simp [KV.get_set, h0, h1, get_render_even _ _ hj]

theorem delete_refines (m : Spec) (hm : KV.Sorted m) (id : Nat) :
    deleteById (render m) id = (render (deleteS m id).1, (deleteS m id).2) := by
  unfold deleteById deleteS
  rw [get_render_meta, get_render_doc]
  cases hg : KV.get m id with
  | none =>
    simp only [Option.map_none, Option.isSome_none, Bool.false_eq_true, if_false, Prod.mk.injEq, and_true]
    -- deleting an absent id changes nothing
    congr 1
    apply KV.ext hm (KV.sorted_del hm _)
    intro k; rw [KV.get_del hm]; by_cases h : k = id
    · subst h; simp [hg]
    · simp [h]
  | some v =>
    simp only [Option.map_some, Option.isSome_some, if_true, Prod.mk.injEq, and_true]
    apply KV.ext
    · exact KV.sorted_set (KV.sorted_del (sorted_render m hm) _) _ _
    · exact sorted_render _ (KV.sorted_del hm _)
    · intro k
      have hlen := length_del_present m id (by simp [hg])
      rcases key_cases k with h | ⟨j, h⟩ | ⟨j, hj, h⟩
      · subst h; simp [KV.get_set, get_render_meta, hlen]
      · subst h
        have : 2 * j + 1 ≠ 0 := by omega
        simp only [KV.get_set, this, if_false, get_render_doc, KV.get_del (sorted_render m hm), KV.get_del hm]
        by_cases hj : j = id
        · subst hj; simp
        · have : 2 * j + 1 ≠ 2 * id + 1 := by omega
          have t2 : 2 * j ≠ 2 * id := by omega
          simp [this, t2, hj]
      · subst h
        have h0 : 2 * j ≠ 0 := by omega
        have h1 : 2 * j ≠ 2 * id + 1 := by omega
        simp [KV.get_set, h0, h1, KV.get_del (sorted_render m hm), get_render_even _ _ hj]

theorem count_refines (m : Spec) : count (render m) = .count m.length := by
  simp [count, get_render_meta]

end Mini
#print axioms Mini.insert_refines
#print axioms Mini.delete_refines
