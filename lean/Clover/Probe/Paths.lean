/-! calibration: dotted-path lookup and assignment of document/document.go (lookupField),
    with the force-create behaviour of Set, and the laws Set/Get/Has must obey -/
namespace Paths

inductive V
  | atom (n : Nat)
  | obj (m : List (Nat × V))
deriving Inhabited

abbrev M := List (Nat × V)

def lookup (k : Nat) : M → Option V
  | [] => none
  | (k', v) :: t => if k = k' then some v else lookup k t

def insert (k : Nat) (v : V) : M → M
  | [] => [(k, v)]
  | (k', v') :: t => if k = k' then (k, v) :: t else (k', v') :: insert k v t

theorem lookup_insert (k k' : Nat) (v : V) (m : M) :
    lookup k' (insert k v m) = if k' = k then some v else lookup k' m := by
  induction m with
  | nil => simp [insert, lookup]
  | cons e t ih =>
    obtain ⟨k2, v2⟩ := e
    simp only [insert]
    split
    · subst_vars; simp only [lookup]; split <;> simp_all
    · simp only [lookup, ih]; split <;> split <;> simp_all

/-- Get/Has: `none` = the field does not exist (`Has` false, `Get` nil) -/
def get : M → List Nat → Option V
  | _, [] => none
  | m, [k] => lookup k m
  | m, k :: rest =>
    match lookup k m with
    | some (.obj sub) => get sub rest
    | _ => none                 -- missing, or not a map: the nil map has no fields

/-- Set with force: intermediate segments that are missing or not maps are replaced by fresh maps -/
def set : M → List Nat → V → M
  | m, [], _ => m
  | m, [k], v => insert k v m
  | m, k :: rest, v =>
    let sub := match lookup k m with
      | some (.obj sub) => sub
      | _ => []
    insert k (.obj (set sub rest v)) m

theorem get_set_same : (m : M) → (p : List Nat) → p ≠ [] → (v : V) → get (set m p v) p = some v
  | _, [], h, _ => absurd rfl h
  | m, [k], _, v => by simp [set, get, lookup_insert]
  | m, k :: k2 :: rest, _, v => by
    simp only [set, get, lookup_insert, if_true]
    exact get_set_same _ (k2 :: rest) (by simp) v

/-- neither path is a prefix of the other -/
def Unrelated : List Nat → List Nat → Prop
  | [], _ => False
  | _, [] => False
  | a :: as, b :: bs => a ≠ b ∨ Unrelated as bs

/-- assigning one path does not disturb an unrelated one -/
theorem get_set_other : (m : M) → (p q : List Nat) → Unrelated p q → (v : V) →
    get (set m p v) q = get m q
  | _, [], _, h, _ => by simp [Unrelated] at h
  | _, _ :: _, [], h, _ => by simp [Unrelated] at h
  | m, [k], [k'], h, v => by
    simp only [Unrelated, or_false] at h
    have : k' ≠ k := fun e => h e.symm
    simp [set, get, lookup_insert, this]
  | m, [k], k' :: q2 :: qs, h, v => by
    simp only [Unrelated, or_false] at h
    have : k' ≠ k := fun e => h e.symm
    simp [set, get, lookup_insert, this]
  | m, k :: p2 :: ps, [k'], h, v => by
    simp only [Unrelated, or_false] at h
    have : k' ≠ k := fun e => h e.symm
    simp [set, get, lookup_insert, this]
  | m, k :: p2 :: ps, k' :: q2 :: qs, h, v => by
    simp only [set, get, lookup_insert]
    by_cases hk : k' = k
    · subst hk
      simp only [if_true]
      have hu : Unrelated (p2 :: ps) (q2 :: qs) := by
        simp only [Unrelated] at h
        rcases h with h | h
        · exact absurd rfl h
        · exact h
      -- the sub-map under k: existing map, or a fresh one when k was missing / not a map
      cases hl : lookup k' m with
      | none => simp only [hl]; rw [get_set_other [] _ _ hu v]; cases qs <;> simp [get, lookup]
      | some x =>
        cases x with
        | atom n => simp only [hl]; rw [get_set_other [] _ _ hu v]; cases qs <;> simp [get, lookup]
        | obj sub => simp only [hl]; exact get_set_other sub _ _ hu v
    · simp [hk]

end Paths
#print axioms Paths.get_set_other
