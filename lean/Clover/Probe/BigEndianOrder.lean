namespace OC

abbrev Bytes := List UInt8

/-- lexicographic strict order on byte strings (proper prefix is smaller) -/
def lexLt : Bytes → Bytes → Bool
  | [], [] => false
  | [], _ :: _ => true
  | _ :: _, [] => false
  | a :: as, b :: bs => a < b || (a == b && lexLt as bs)

/-- n-byte big-endian representation -/
def be : Nat → Nat → Bytes
  | 0, _ => []
  | n+1, v => UInt8.ofNat (v / 256^n) :: be n (v % 256^n)

theorem be_length (n v : Nat) : (be n v).length = n := by
  induction n generalizing v with
  | zero => rfl
  | succ n ih => simp [be, ih]

theorem be_lt_iff (n a b : Nat) (ha : a < 256^n) (hb : b < 256^n) :
    lexLt (be n a) (be n b) = true ↔ a < b := by
  induction n generalizing a b with
  | zero => simp at ha hb; subst ha; subst hb; simp [be, lexLt]
  | succ n ih =>
    have hp : 0 < 256^n := Nat.pow_pos (by decide)
    have ha1 : a / 256^n < 256 := by
      rw [Nat.div_lt_iff_lt_mul hp]; rw [Nat.pow_succ] at ha; omega
    have hb1 : b / 256^n < 256 := by
      rw [Nat.div_lt_iff_lt_mul hp]; rw [Nat.pow_succ] at hb; omega
    have ham : a % 256^n < 256^n := Nat.mod_lt _ hp
    have hbm : b % 256^n < 256^n := Nat.mod_lt _ hp
    simp only [be, lexLt, Bool.or_eq_true, Bool.and_eq_true, decide_eq_true_eq, beq_iff_eq]
    rw [ih _ _ ham hbm]
    have da := Nat.div_add_mod a (256^n)
    have db := Nat.div_add_mod b (256^n)
    generalize a / 256^n = qa at *
    generalize b / 256^n = qb at *
    generalize a % 256^n = ra at *
    generalize b % 256^n = rb at *
    generalize 256^n = P at *
    have e1 : (UInt8.ofNat qa < UInt8.ofNat qb) ↔ qa < qb := by
      rw [UInt8.lt_iff_toNat_lt]; simp [UInt8.toNat_ofNat']; omega
    have e2 : (UInt8.ofNat qa = UInt8.ofNat qb) ↔ qa = qb := by
      constructor
      · intro h; have := congrArg UInt8.toNat h; simp [UInt8.toNat_ofNat'] at this; omega
      · intro h; rw [h]
    rw [e1, e2]
    constructor
    · rintro (h | ⟨h1, h2⟩)
      · have : (qa + 1) * P ≤ qb * P := Nat.mul_le_mul_right _ h
        rw [Nat.add_mul] at this
        rw [Nat.mul_comm] at da db; omega
      · subst h1; omega
    · intro h
      by_cases hq : qa = qb
      · right; subst hq; exact ⟨rfl, by omega⟩
      · left
        rcases Nat.lt_or_gt_of_ne hq with h1 | h1
        · exact h1
        · exfalso
          have : (qb + 1) * P ≤ qa * P := Nat.mul_le_mul_right _ h1
          rw [Nat.add_mul] at this
          rw [Nat.mul_comm] at da db; omega

end OC
