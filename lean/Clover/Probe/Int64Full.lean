import Clover.Probe.DiffLt
/-! calibration: orderedcode's int64 code (closed form), full range, in the suffix-stable order -/
namespace OC

def lenFor (x : Nat) : Nat :=
  if x < 2^6 then 1 else if x < 2^13 then 2 else if x < 2^20 then 3 else if x < 2^27 then 4
  else if x < 2^34 then 5 else if x < 2^41 then 6 else if x < 2^48 then 7 else if x < 2^55 then 8
  else if x < 2^62 then 9 else 10

def hdrVal (n x : Nat) : Nat := x + 2^(8 * n) - 2^(7 * n)
def encNonneg (x : Nat) : Bytes := be (lenFor x) (hdrVal (lenFor x) x)
def compl (b : Bytes) : Bytes := b.map (fun u => UInt8.ofNat (255 - u.toNat))
/-- code of an int64 -/
def encInt (x : Int) : Bytes := if 0 ≤ x then encNonneg x.toNat else compl (encNonneg (-(x + 1)).toNat)

theorem lenFor_spec (x : Nat) (hx : x < 2^63) :
    1 ≤ lenFor x ∧ lenFor x ≤ 10 ∧ x < 2^(7 * lenFor x - 1) ∧ (lenFor x = 1 ∨ 2^(7 * (lenFor x - 1) - 1) ≤ x) := by
  unfold lenFor
  repeat' split
  all_goals (simp; omega)

theorem enc_diffLt_same (n x y : Nat) (hn1 : 1 ≤ n) (hn : n ≤ 10) (hx : x < 2^(7*n-1)) (hy : y < 2^(7*n-1))
    (h : x < y) : diffLt (be n (hdrVal n x)) (be n (hdrVal n y)) = true := by
  unfold hdrVal
  have hcases : n = 1 ∨ n = 2 ∨ n = 3 ∨ n = 4 ∨ n = 5 ∨ n = 6 ∨ n = 7 ∨ n = 8 ∨ n = 9 ∨ n = 10 := by omega
  rcases hcases with h | h | h | h | h | h | h | h | h | h <;> subst h <;>
    (rw [be_diffLt_iff _ _ _ (by simp at *; omega) (by simp at *; omega)]; simp at *; omega)

theorem enc_diffLt_cross (m n x y : Nat) (hm1 : 1 ≤ m) (hmn : m < n) (hn : n ≤ 10)
    (hx : x < 2^(7*m-1)) (hy : y < 2^(7*n-1)) :
    diffLt (be m (hdrVal m x)) (be n (hdrVal n y)) = true := by
  unfold hdrVal
  obtain ⟨k, rfl⟩ : ∃ k, n = m + k := ⟨n - m, by omega⟩
  have hm : m = 1 ∨ m = 2 ∨ m = 3 ∨ m = 4 ∨ m = 5 ∨ m = 6 ∨ m = 7 ∨ m = 8 ∨ m = 9 := by omega
  have hkc : k = 1 ∨ k = 2 ∨ k = 3 ∨ k = 4 ∨ k = 5 ∨ k = 6 ∨ k = 7 ∨ k = 8 ∨ k = 9 := by omega
  rcases hm with h | h | h | h | h | h | h | h | h <;> subst h <;>
  rcases hkc with h | h | h | h | h | h | h | h | h <;> subst h <;>
    first
    | (exfalso; omega)
    | (rw [be_diffLt_cross _ _ _ _ (by simp at *; omega) (by simp at *; omega)]; simp at *; omega)

theorem encNonneg_diffLt (x y : Nat) (hy : y < 2^63) (h : x < y) :
    diffLt (encNonneg x) (encNonneg y) = true := by
  have hx : x < 2^63 := by omega
  obtain ⟨a1, a2, a3, a4⟩ := lenFor_spec x hx
  obtain ⟨b1, b2, b3, b4⟩ := lenFor_spec y hy
  unfold encNonneg
  generalize lenFor x = m at *
  generalize lenFor y = n at *
  rcases Nat.lt_trichotomy m n with hlt | heq | hgt
  · exact enc_diffLt_cross m n x y a1 hlt b2 a3 b3
  · subst heq; exact enc_diffLt_same m x y a1 a2 a3 b3 h
  · exfalso
    rcases a4 with a4 | a4
    · omega
    · have : 2^(7*n-1) ≤ 2^(7*(m-1)-1) := Nat.pow_le_pow_right (by decide) (by omega)
      omega

/-- complementing every byte reverses the suffix-stable order -/
theorem diffLt_compl : (a b : Bytes) → diffLt a b = true → diffLt (compl b) (compl a) = true
  | [], _, h => by simp [diffLt] at h
  | _ :: _, [], h => by simp [diffLt] at h
  | x :: xs, y :: ys, h => by
    simp only [compl, List.map, diffLt, Bool.or_eq_true, Bool.and_eq_true, decide_eq_true_eq,
      beq_iff_eq] at *
    have hx := x.toNat_lt
    have hy := y.toNat_lt
    rcases h with h | ⟨h1, h2⟩
    · left
      rw [UInt8.lt_iff_toNat_lt] at *
      simp [UInt8.toNat_ofNat']; omega
    · right
      subst h1
      exact ⟨rfl, diffLt_compl xs ys h2⟩

/-- the leading byte of a non-negative code has its top bit set -/
theorem encNonneg_head (x : Nat) (hx : x < 2^63) :
    ∃ h t, encNonneg x = h :: t ∧ 128 ≤ h.toNat := by
  obtain ⟨a1, a2, a3, _⟩ := lenFor_spec x hx
  unfold encNonneg hdrVal
  generalize lenFor x = n at *
  have hcases : n = 1 ∨ n = 2 ∨ n = 3 ∨ n = 4 ∨ n = 5 ∨ n = 6 ∨ n = 7 ∨ n = 8 ∨ n = 9 ∨ n = 10 := by omega
  rcases hcases with h | h | h | h | h | h | h | h | h | h <;> subst h <;>
    (refine ⟨_, _, rfl, ?_⟩; simp [UInt8.toNat_ofNat'] at *; omega)

theorem encInt_diffLt (x y : Int) (hx : -2^63 ≤ x) (hy : y < 2^63) (h : x < y) :
    diffLt (encInt x) (encInt y) = true := by
  unfold encInt
  by_cases sx : 0 ≤ x <;> by_cases sy : 0 ≤ y <;> simp only [sx, sy, if_true, if_false]
  · exact encNonneg_diffLt _ _ (by omega) (by omega)
  · omega
  · -- negative against non-negative: decided by the first byte
    obtain ⟨h1, t1, e1, g1⟩ := encNonneg_head (-(x + 1)).toNat (by omega)
    obtain ⟨h2, t2, e2, g2⟩ := encNonneg_head y.toNat (by omega)
    rw [e1, e2]
    simp only [compl, List.map, diffLt, Bool.or_eq_true, decide_eq_true_eq]
    left
    have := h1.toNat_lt
    rw [UInt8.lt_iff_toNat_lt]; simp [UInt8.toNat_ofNat']; omega
  · apply diffLt_compl
    exact encNonneg_diffLt _ _ (by omega) (by omega)

end OC
#print axioms OC.encInt_diffLt
