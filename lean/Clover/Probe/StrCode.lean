import Clover.Probe.DiffLt
/-! calibration: orderedcode's string code turns bytewise order (prefix first) into the
    suffix-stable order, and is injective -/
namespace OC

/-- escape 0x00 → 00 FF, 0xFF → FF 00; terminate with 00 01 -/
def encStr : Bytes → Bytes
  | [] => [0x00, 0x01]
  | x :: xs =>
    if x = 0x00 then 0x00 :: 0xFF :: encStr xs
    else if x = 0xFF then 0xFF :: 0x00 :: encStr xs
    else x :: encStr xs

/-- bytewise comparison, proper prefix first (Go's strings.Compare) -/
def cmpB : Bytes → Bytes → Int
  | [], [] => 0
  | [], _ :: _ => -1
  | _ :: _, [] => 1
  | a :: as, b :: bs => if a < b then -1 else if b < a then 1 else cmpB as bs

theorem u8_cases (x : UInt8) : x = 0x00 ∨ x = 0xFF ∨ (x ≠ 0x00 ∧ x ≠ 0xFF) := by
  by_cases h0 : x = 0x00
  · exact Or.inl h0
  · by_cases h1 : x = 0xFF
    · exact Or.inr (Or.inl h1)
    · exact Or.inr (Or.inr ⟨h0, h1⟩)

theorem u8_ne_zero_pos (x : UInt8) (h : x ≠ 0x00) : (0x00 : UInt8) < x := by
  rw [UInt8.lt_iff_toNat_lt]
  have : x.toNat ≠ 0 := fun e => h (UInt8.toNat_inj.1 (by simpa using e))
  simp; omega

theorem u8_lt_ff (x : UInt8) (h : x ≠ 0xFF) : x < (0xFF : UInt8) := by
  rw [UInt8.lt_iff_toNat_lt]
  have : x.toNat ≠ 255 := fun e => h (UInt8.toNat_inj.1 (by simpa using e))
  have := x.toNat_lt
  simp; omega

theorem encStr_lt : (s t : Bytes) → cmpB s t < 0 → diffLt (encStr s) (encStr t) = true
  | [], [], h => by simp [cmpB] at h
  | [], y :: ys, _ => by
    rcases u8_cases y with h | h | ⟨h0, h1⟩
    · subst h; simp [encStr, diffLt] <;> decide
    · subst h; simp [encStr, diffLt] <;> decide
    · have := u8_ne_zero_pos y h0
      simp [encStr, h0, h1, diffLt, this]
  | _ :: _, [], h => by simp [cmpB] at h
  | x :: xs, y :: ys, h => by
    simp only [cmpB] at h
    by_cases hxy : x < y
    · -- decided at the first byte of the two escapes
      have hx1 : x ≠ 0xFF := by
        intro e; subst e
        have := y.toNat_lt
        rw [UInt8.lt_iff_toNat_lt] at hxy; simp at hxy; omega
      have hy0 : y ≠ 0x00 := by
        intro e; subst e
        rw [UInt8.lt_iff_toNat_lt] at hxy; simp at hxy
      rcases u8_cases x with hx | hx | ⟨hx0, _⟩
      · subst hx
        rcases u8_cases y with hy | hy | ⟨_, hy1⟩
        · exact absurd hy hy0
        · subst hy; simp [encStr, diffLt] <;> decide
        · simp [encStr, hy0, hy1, diffLt, hxy]
      · exact absurd hx hx1
      · rcases u8_cases y with hy | hy | ⟨_, hy1⟩
        · exact absurd hy hy0
        · subst hy; simp [encStr, hx0, hx1, diffLt, hxy]
        · simp [encStr, hx0, hx1, hy0, hy1, diffLt, hxy]
    · by_cases hyx : y < x
      · simp [hxy, hyx] at h
      · simp only [hxy, hyx, if_false] at h
        have hxy' : x = y := by
          apply UInt8.toNat_inj.1
          rw [UInt8.lt_iff_toNat_lt] at hxy hyx; omega
        subst hxy'
        have ih := encStr_lt xs ys h
        rcases u8_cases x with hx | hx | ⟨hx0, hx1⟩
        · subst hx; simp [encStr, diffLt, ih]
        · subst hx; simp [encStr, diffLt, ih]
        · simp [encStr, hx0, hx1, diffLt, ih]

theorem encStr_inj : (s t : Bytes) → encStr s = encStr t → s = t
  | [], [], _ => rfl
  | [], y :: ys, h => by
    rcases u8_cases y with hy | hy | ⟨hy0, hy1⟩
    · subst hy; simp [encStr] at h
    · subst hy; simp [encStr] at h
    · simp [encStr, hy0, hy1] at h; exact absurd h.1.symm hy0
  | x :: xs, [], h => by
    rcases u8_cases x with hx | hx | ⟨hx0, hx1⟩
    · subst hx; simp [encStr] at h
    · subst hx; simp [encStr] at h
    · simp [encStr, hx0, hx1] at h <;> exact absurd h.1 hx0
  | x :: xs, y :: ys, h => by
    rcases u8_cases x with hx | hx | ⟨hx0, hx1⟩ <;> rcases u8_cases y with hy | hy | ⟨hy0, hy1⟩
    · subst hx; subst hy; simp [encStr] at h; rw [encStr_inj xs ys h]
    · subst hx; subst hy; simp [encStr] at h
    · subst hx; simp [encStr, hy0, hy1] at h; exact absurd h.1.symm hy0
    · subst hx; subst hy; simp [encStr] at h
    · subst hx; subst hy; simp [encStr] at h; rw [encStr_inj xs ys h]
    · subst hx; simp [encStr, hy0, hy1] at h; exact absurd h.1.symm hy1
    · subst hy; simp [encStr, hx0, hx1] at h <;> exact absurd h.1 hx0
    · subst hy; simp [encStr, hx0, hx1] at h <;> exact absurd h.1 hx1
    · simp [encStr, hx0, hx1, hy0, hy1] at h
      rw [h.1, encStr_inj xs ys h.2]

end OC
#print axioms OC.encStr_lt
