/-! calibration: skipLimitNode (plan.go:184-203) run over a document stream = drop skip ∘ take limit -/
namespace Win

variable {α : Type}

structure St where
  skipped : Nat
  consumed : Nat

/-- one callback of the node: `none` = stop iteration, `some (st, emitted?)` otherwise -/
def callback (skip : Nat) (limit : Int) (st : St) : Option (St × Bool) :=
  if st.skipped < skip then some ({ st with skipped := st.skipped + 1 }, false)
  else if limit < 0 ∨ (limit ≥ 0 ∧ (st.consumed : Int) < limit) then
    some ({ st with consumed := st.consumed + 1 }, true)
  else none

/-- feed a stream through the node until it asks to stop -/
def run (skip : Nat) (limit : Int) : St → List α → List α
  | _, [] => []
  | st, x :: xs =>
    match callback skip limit st with
    | none => []
    | some (st', true) => x :: run skip limit st' xs
    | some (st', false) => run skip limit st' xs

def window (skip : Nat) (limit : Int) (l : List α) : List α :=
  if limit < 0 then l.drop skip else (l.drop skip).take limit.toNat

theorem run_eq (skip : Nat) (limit : Int) : (st : St) → (l : List α) → st.skipped ≤ skip →
    (st.skipped < skip → st.consumed = 0) →
    run skip limit st l =
      if limit < 0 then l.drop (skip - st.skipped)
      else (l.drop (skip - st.skipped)).take (limit.toNat - st.consumed)
  | st, [], _, _ => by simp [run]
  | st, x :: xs, h1, h2 => by
    simp only [run, callback]
    by_cases hs : st.skipped < skip
    · simp only [hs, if_true]
      rw [run_eq skip limit _ xs (by simp; omega) (by intro _; simp; exact h2 hs)]
      have : skip - st.skipped = (skip - (st.skipped + 1)) + 1 := by omega
      simp only [this, List.drop_succ_cons]
    · have h0 : skip - st.skipped = 0 := by omega
      simp only [hs, if_false, h0, List.drop_zero]
      by_cases hl : limit < 0
      · simp only [hl, true_or, if_true]
        rw [run_eq skip limit _ xs (by simp; omega) (by intro h; simp at h; omega)]
        simp [hl, h0]
      · by_cases hc : (st.consumed : Int) < limit
        · have : limit ≥ 0 := by omega
          simp only [hl, false_or, this, hc, and_self, if_true, if_false]
          rw [run_eq skip limit _ xs (by simp; omega) (by intro h; simp at h; omega)]
          simp only [hl, if_false, h0, List.drop_zero]
          have : limit.toNat - st.consumed = (limit.toNat - (st.consumed + 1)) + 1 := by omega
          rw [this, List.take_succ_cons]
        · simp only [hl, false_or, hc, and_false, if_false]
          have : limit.toNat - st.consumed = 0 := by omega
          simp [this]

/-- C08: the node yields exactly the window [skip, skip+limit) (everything after skip when limit < 0) -/
theorem run_window (skip : Nat) (limit : Int) (l : List α) :
    run skip limit ⟨0, 0⟩ l = window skip limit l := by
  rw [run_eq skip limit ⟨0, 0⟩ l (Nat.zero_le _) (fun _ => rfl)]
  simp [window]

end Win
#print axioms Win.run_window
