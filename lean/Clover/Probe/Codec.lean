/-! calibration: the document codec's time wrapping (internal/time.go), current and repaired -/
namespace Codec

/-- what travels through msgpack: plain times never occur on the wire, wrapped ones do -/
inductive W
  | null
  | int (i : Int)
  | str (s : List UInt8)
  | time (ns : Int) (off : Int)          -- a bare time.Time (only before wrapping / after unwrapping)
  | ltime (ns : Int) (off : Int)         -- *LocalizedTime (ext type 1)
  | arr (xs : List W)
  | obj (kvs : List (List UInt8 × W))
deriving Repr, Inhabited

mutual
/-- replaceTimes -/
def wrap : W → W
  | .time ns off => .ltime ns off
  | .arr xs => .arr (wrapL xs)
  | .obj kvs => .obj (wrapKV kvs)
  | w => w
def wrapL : List W → List W
  | [] => []
  | x :: xs => wrap x :: wrapL xs
def wrapKV : List (List UInt8 × W) → List (List UInt8 × W)
  | [] => []
  | (k, x) :: xs => (k, wrap x) :: wrapKV xs
end

mutual
/-- removeLocalizedTimes as it is today: inside a slice it calls replaceTimes -/
def unwrapCur : W → W
  | .ltime ns off => .time ns off
  | .arr xs => .arr (wrapL xs)                 -- the defect (F2)
  | .obj kvs => .obj (unwrapCurKV kvs)
  | w => w
def unwrapCurKV : List (List UInt8 × W) → List (List UInt8 × W)
  | [] => []
  | (k, x) :: xs => (k, unwrapCur x) :: unwrapCurKV xs
end

mutual
/-- repaired: recurse everywhere -/
def unwrap : W → W
  | .ltime ns off => .time ns off
  | .arr xs => .arr (unwrapL xs)
  | .obj kvs => .obj (unwrapKV kvs)
  | w => w
def unwrapL : List W → List W
  | [] => []
  | x :: xs => unwrap x :: unwrapL xs
def unwrapKV : List (List UInt8 × W) → List (List UInt8 × W)
  | [] => []
  | (k, x) :: xs => (k, unwrap x) :: unwrapKV xs
end

mutual
/-- a document value: no wrapped time anywhere -/
def Plain : W → Prop
  | .ltime _ _ => False
  | .arr xs => PlainL xs
  | .obj kvs => PlainKV kvs
  | _ => True
def PlainL : List W → Prop
  | [] => True
  | x :: xs => Plain x ∧ PlainL xs
def PlainKV : List (List UInt8 × W) → Prop
  | [] => True
  | (_, x) :: xs => Plain x ∧ PlainKV xs
end

mutual
theorem unwrap_wrap : (w : W) → Plain w → unwrap (wrap w) = w
  | .null, _ => rfl
  | .int _, _ => rfl
  | .str _, _ => rfl
  | .time _ _, _ => rfl
  | .ltime _ _, h => by simp [Plain] at h
  | .arr xs, h => by simp only [wrap, unwrap]; rw [unwrapL_wrapL xs (by simpa [Plain] using h)]
  | .obj kvs, h => by simp only [wrap, unwrap]; rw [unwrapKV_wrapKV kvs (by simpa [Plain] using h)]
theorem unwrapL_wrapL : (xs : List W) → PlainL xs → unwrapL (wrapL xs) = xs
  | [], _ => rfl
  | x :: xs, h => by
    simp only [PlainL] at h
    simp only [wrapL, unwrapL, unwrap_wrap x h.1, unwrapL_wrapL xs h.2]
theorem unwrapKV_wrapKV : (xs : List (List UInt8 × W)) → PlainKV xs → unwrapKV (wrapKV xs) = xs
  | [], _ => rfl
  | (k, x) :: xs, h => by
    simp only [PlainKV] at h
    simp only [wrapKV, unwrapKV, unwrap_wrap x h.1, unwrapKV_wrapKV xs h.2]
end

/-- the current code does not round-trip a time inside an array -/
theorem cur_not_roundtrip : unwrapCur (wrap (.arr [.time 1 0])) ≠ .arr [.time 1 0] := by
  simp [wrap, wrapL, unwrapCur]

end Codec
#print axioms Codec.unwrap_wrap
#print axioms Codec.cur_not_roundtrip
