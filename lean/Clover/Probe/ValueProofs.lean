import Clover.Probe.Value
namespace CV

theorem cmpInt_antisymm (a b : Int) : cmpInt a b = -cmpInt b a := by
  unfold cmpInt; split <;> split <;> (try split) <;> omega
theorem cmpInt_refl (a : Int) : cmpInt a a = 0 := by simp [cmpInt]
theorem cmpInt_trans (a b c : Int) (h1 : cmpInt a b ≤ 0) (h2 : cmpInt b c ≤ 0) : cmpInt a c ≤ 0 := by
  unfold cmpInt at *
  split at h1 <;> split at h2 <;> (try split at h1) <;> (try split at h2) <;> split <;> (try split) <;> omega
theorem cmpInt_le_iff (a b : Int) : cmpInt a b ≤ 0 ↔ a ≤ b := by
  unfold cmpInt; split <;> (try split) <;> omega
theorem cmpInt_eq_iff (a b : Int) : cmpInt a b = 0 ↔ a = b := by
  unfold cmpInt; split <;> (try split) <;> omega

theorem cmpBytes_refl : (a : Bytes) → cmpBytes a a = 0
  | [] => rfl
  | x :: xs => by simp [cmpBytes, UInt8.lt_irrefl, cmpBytes_refl xs]

theorem cmpBytes_antisymm : (a b : Bytes) → cmpBytes a b = -cmpBytes b a
  | [], [] => rfl
  | [], _ :: _ => rfl
  | _ :: _, [] => rfl
  | x :: xs, y :: ys => by
    simp only [cmpBytes]
    have ih := cmpBytes_antisymm xs ys
    by_cases h1 : x < y
    · have : ¬ y < x := by rw [UInt8.lt_iff_toNat_lt] at *; omega
      simp [h1, this]
    · by_cases h2 : y < x
      · simp [h1, h2]
      · simp [h1, h2, ih]

theorem cmpBytes_trans : (a b c : Bytes) → cmpBytes a b ≤ 0 → cmpBytes b c ≤ 0 → cmpBytes a c ≤ 0
  | [], [], _, _, h2 => h2
  | [], _ :: _, [], _, h2 => by simp [cmpBytes] at h2
  | [], _ :: _, _ :: _, _, _ => by simp [cmpBytes]
  | _ :: _, [], _, h1, _ => by simp [cmpBytes] at h1
  | _ :: _, _ :: _, [], _, h2 => by simp [cmpBytes] at h2
  | x :: xs, y :: ys, z :: zs, h1, h2 => by
    simp only [cmpBytes] at *
    have ih := cmpBytes_trans xs ys zs
    simp only [UInt8.lt_iff_toNat_lt] at *
    by_cases hxy : x.toNat < y.toNat
    · have hxz : x.toNat < z.toNat := by
        by_cases hyz : y.toNat < z.toNat
        · omega
        · by_cases hzy : z.toNat < y.toNat
          · simp [hyz, hzy] at h2
          · omega
      simp [hxz]
    · by_cases hyx : y.toNat < x.toNat
      · simp [hxy, hyx] at h1
      · have hxy' : x.toNat = y.toNat := by omega
        simp only [hxy, hyx, if_false] at h1
        by_cases hyz : y.toNat < z.toNat
        · have : x.toNat < z.toNat := by omega
          simp [this]
        · by_cases hzy : z.toNat < y.toNat
          · simp [hyz, hzy] at h2
          · simp only [hyz, hzy, if_false] at h2
            have e1 : ¬ x.toNat < z.toNat := by omega
            have e2 : ¬ z.toNat < x.toNat := by omega
            simp only [e1, e2, if_false]
            exact ih h1 h2

theorem cmpBytes_eq : (a b : Bytes) → cmpBytes a b = 0 → a = b
  | [], [], _ => rfl
  | [], _ :: _, h => by simp [cmpBytes] at h
  | _ :: _, [], h => by simp [cmpBytes] at h
  | x :: xs, y :: ys, h => by
    simp only [cmpBytes] at h
    simp only [UInt8.lt_iff_toNat_lt] at h
    by_cases hxy : x.toNat < y.toNat
    · simp [hxy] at h
    · by_cases hyx : y.toNat < x.toNat
      · simp [hxy, hyx] at h
      · simp only [hxy, hyx, if_false] at h
        have : x = y := UInt8.toNat_inj.1 (by omega)
        rw [this, cmpBytes_eq xs ys h]

end CV

namespace CV
variable (nkey : Num → Int)

/-! ### rank facts -/

theorem rank_range (a : Value) : 0 ≤ a.rank ∧ a.rank ≤ 6 := by cases a <;> simp [Value.rank]

/-- different ranks: the comparison is the rank difference -/
theorem cmp_of_rank_ne (a b : Value) (h : a.rank ≠ b.rank) : cmp nkey a b = a.rank - b.rank := by
  cases a <;> cases b <;> simp [Value.rank] at h <;> simp [cmp, Value.rank]

mutual
theorem cmp_antisymm : (a b : Value) → cmp nkey a b = -cmp nkey b a
  | .null, b => by cases b <;> simp [cmp, Value.rank]
  | .num x, b => by cases b <;> simp [cmp, Value.rank]; exact cmpInt_antisymm _ _
  | .str x, b => by cases b <;> simp [cmp, Value.rank]; exact cmpBytes_antisymm _ _
  | .bool x, b => by cases b <;> simp [cmp, Value.rank]; exact cmpInt_antisymm _ _
  | .time x _, b => by cases b <;> simp [cmp, Value.rank]; exact cmpInt_antisymm _ _
  | .arr xs, b => by
      cases b <;> simp [cmp, Value.rank]
      exact cmpList_antisymm xs _
  | .obj xs, b => by
      cases b <;> simp [cmp, Value.rank]
      exact cmpKVs_antisymm xs _
theorem cmpList_antisymm : (a b : List Value) → cmpList nkey a b = -cmpList nkey b a
  | [], [] => by simp [cmpList]
  | [], _ :: _ => by simp [cmpList]
  | _ :: _, [] => by simp [cmpList]
  | x :: xs, y :: ys => by
      simp only [cmpList]
      rw [cmp_antisymm x y, cmpList_antisymm xs ys]
      by_cases h : cmp nkey y x = 0 <;> simp [h]
theorem cmpKVs_antisymm : (a b : List (Bytes × Value)) → cmpKVs nkey a b = -cmpKVs nkey b a
  | [], [] => by simp [cmpKVs]
  | [], _ :: _ => by simp [cmpKVs]
  | _ :: _, [] => by simp [cmpKVs]
  | (k1, x) :: xs, (k2, y) :: ys => by
      simp only [cmpKVs]
      rw [cmpBytes_antisymm k1 k2, cmp_antisymm x y, cmpKVs_antisymm xs ys]
      by_cases hk : cmpBytes k2 k1 = 0 <;> by_cases h : cmp nkey y x = 0 <;> simp [hk, h]
end

mutual
theorem cmp_refl : (a : Value) → cmp nkey a a = 0
  | .null => by simp [cmp]
  | .num x => by simp [cmp, cmpInt_refl]
  | .str x => by simp [cmp, cmpBytes_refl]
  | .bool x => by simp [cmp, cmpInt_refl]
  | .time x _ => by simp [cmp, cmpInt_refl]
  | .arr xs => by simp [cmp]; exact cmpList_refl xs
  | .obj xs => by simp [cmp]; exact cmpKVs_refl xs
theorem cmpList_refl : (a : List Value) → cmpList nkey a a = 0
  | [] => by simp [cmpList]
  | x :: xs => by simp [cmpList, cmp_refl x, cmpList_refl xs]
theorem cmpKVs_refl : (a : List (Bytes × Value)) → cmpKVs nkey a a = 0
  | [] => by simp [cmpKVs]
  | (k, x) :: xs => by simp [cmpKVs, cmpBytes_refl, cmp_refl x, cmpKVs_refl xs]
end

end CV

namespace CV
variable (nkey : Num → Int)

theorem rank_le_of_cmp_le (a b : Value) (h : cmp nkey a b ≤ 0) : a.rank ≤ b.rank := by
  by_cases hr : a.rank = b.rank
  · omega
  · rw [cmp_of_rank_ne nkey a b hr] at h; omega

/-- transitivity whenever the three ranks are not all equal -/
theorem cmp_trans_rank (a b c : Value) (h1 : cmp nkey a b ≤ 0) (h2 : cmp nkey b c ≤ 0)
    (hr : ¬ (a.rank = b.rank ∧ b.rank = c.rank)) : cmp nkey a c ≤ 0 := by
  have r1 := rank_le_of_cmp_le nkey a b h1
  have r2 := rank_le_of_cmp_le nkey b c h2
  have : a.rank ≠ c.rank := by omega
  rw [cmp_of_rank_ne nkey a c this]; omega

/-- lexicographic step on plain integers -/
theorem lex_step (cxy cyz cxz lxy lyz lxz : Int)
    (h_lt_le : cxy < 0 → cyz ≤ 0 → cxz < 0) (h_le_lt : cxy ≤ 0 → cyz < 0 → cxz < 0)
    (h_eq : cxy = 0 → cyz = 0 → cxz = 0) (ih : lxy ≤ 0 → lyz ≤ 0 → lxz ≤ 0)
    (h1 : (if cxy ≠ 0 then cxy else lxy) ≤ 0) (h2 : (if cyz ≠ 0 then cyz else lyz) ≤ 0) :
    (if cxz ≠ 0 then cxz else lxz) ≤ 0 := by
  by_cases a1 : cxy = 0 <;> by_cases a2 : cyz = 0 <;> simp only [a1, a2, ne_eq, not_true_eq_false,
    not_false_eq_true, if_true, if_false] at h1 h2
  · have := h_eq a1 a2; simp [this]; exact ih h1 h2
  · have := h_le_lt (by omega) (by omega); split <;> omega
  · have := h_lt_le (by omega) (by omega); split <;> omega
  · have := h_lt_le (by omega) (by omega); split <;> omega

/-- the three element-level facts a lexicographic step needs, from transitivity in rotated orders -/
theorem elem_facts (x y z : Value)
    (t_xyz : cmp nkey x y ≤ 0 → cmp nkey y z ≤ 0 → cmp nkey x z ≤ 0)
    (t_yzx : cmp nkey y z ≤ 0 → cmp nkey z x ≤ 0 → cmp nkey y x ≤ 0)
    (t_zxy : cmp nkey z x ≤ 0 → cmp nkey x y ≤ 0 → cmp nkey z y ≤ 0)
    (t_zyx : cmp nkey z y ≤ 0 → cmp nkey y x ≤ 0 → cmp nkey z x ≤ 0) :
    (cmp nkey x y < 0 → cmp nkey y z ≤ 0 → cmp nkey x z < 0) ∧
    (cmp nkey x y ≤ 0 → cmp nkey y z < 0 → cmp nkey x z < 0) ∧
    (cmp nkey x y = 0 → cmp nkey y z = 0 → cmp nkey x z = 0) := by
  have axy := cmp_antisymm nkey x y
  have ayz := cmp_antisymm nkey y z
  have axz := cmp_antisymm nkey x z
  refine ⟨?_, ?_, ?_⟩
  · intro h1 h2
    have := t_xyz (by omega) h2
    by_cases h0 : cmp nkey x z = 0
    · have := t_yzx h2 (by omega); omega
    · omega
  · intro h1 h2
    have := t_xyz h1 (by omega)
    by_cases h0 : cmp nkey x z = 0
    · have := t_zxy (by omega) h1; omega
    · omega
  · intro h1 h2
    have := t_xyz (by omega) (by omega)
    have := t_zyx (by omega) (by omega)
    omega

mutual
theorem cmp_trans : (a b c : Value) → cmp nkey a b ≤ 0 → cmp nkey b c ≤ 0 → cmp nkey a c ≤ 0
  | .null, b, c, h1, h2 => by
      cases b <;> cases c <;>
        first
        | (refine cmp_trans_rank nkey _ _ _ h1 h2 ?_; simp [Value.rank]; done)
        | simp [cmp]
  | .num x, b, c, h1, h2 => by
      cases b <;> cases c <;>
        first
        | (refine cmp_trans_rank nkey _ _ _ h1 h2 ?_; simp [Value.rank]; done)
        | (simp only [cmp] at *; exact cmpInt_trans _ _ _ h1 h2)
  | .str x, b, c, h1, h2 => by
      cases b <;> cases c <;>
        first
        | (refine cmp_trans_rank nkey _ _ _ h1 h2 ?_; simp [Value.rank]; done)
        | (simp only [cmp] at *; exact cmpBytes_trans _ _ _ h1 h2)
  | .bool x, b, c, h1, h2 => by
      cases b <;> cases c <;>
        first
        | (refine cmp_trans_rank nkey _ _ _ h1 h2 ?_; simp [Value.rank]; done)
        | (simp only [cmp] at *; exact cmpInt_trans _ _ _ h1 h2)
  | .time x _, b, c, h1, h2 => by
      cases b <;> cases c <;>
        first
        | (refine cmp_trans_rank nkey _ _ _ h1 h2 ?_; simp [Value.rank]; done)
        | (simp only [cmp] at *; exact cmpInt_trans _ _ _ h1 h2)
  | .arr xs, .arr ys, .arr zs, h1, h2 => by
      simp only [cmp] at *; exact cmpList_trans xs ys zs h1 h2
  | .obj xs, .obj ys, .obj zs, h1, h2 => by
      simp only [cmp] at *; exact cmpKVs_trans xs ys zs h1 h2
  | .arr xs, b, c, h1, h2 => by
      cases b <;> cases c <;>
        first
        | (refine cmp_trans_rank nkey _ _ _ h1 h2 ?_; simp [Value.rank]; done)
        | (rename_i ys zs; simp only [cmp] at *; exact cmpList_trans xs ys zs h1 h2)
  | .obj xs, b, c, h1, h2 => by
      cases b <;> cases c <;>
        first
        | (refine cmp_trans_rank nkey _ _ _ h1 h2 ?_; simp [Value.rank]; done)
        | (rename_i ys zs; simp only [cmp] at *; exact cmpKVs_trans xs ys zs h1 h2)
termination_by a b c => sizeOf a + sizeOf b + sizeOf c
theorem cmpList_trans : (a b c : List Value) → cmpList nkey a b ≤ 0 → cmpList nkey b c ≤ 0 →
    cmpList nkey a c ≤ 0
  | [], [], _, _, h2 => h2
  | [], _ :: _, [], _, h2 => by simp [cmpList] at h2
  | [], _ :: _, _ :: _, _, _ => by simp [cmpList]
  | _ :: _, [], _, h1, _ => by simp [cmpList] at h1
  | _ :: _, _ :: _, [], _, h2 => by simp [cmpList] at h2
  | x :: xs, y :: ys, z :: zs, h1, h2 => by
      simp only [cmpList] at *
      obtain ⟨f1, f2, f3⟩ := elem_facts nkey x y z (cmp_trans x y z) (cmp_trans y z x)
        (cmp_trans z x y) (cmp_trans z y x)
      exact lex_step _ _ _ _ _ _ f1 f2 f3 (cmpList_trans xs ys zs) h1 h2
termination_by a b c => sizeOf a + sizeOf b + sizeOf c
theorem cmpKVs_trans : (a b c : List (Bytes × Value)) → cmpKVs nkey a b ≤ 0 → cmpKVs nkey b c ≤ 0 →
    cmpKVs nkey a c ≤ 0
  | [], [], _, _, h2 => h2
  | [], _ :: _, [], _, h2 => by simp [cmpKVs] at h2
  | [], _ :: _, _ :: _, _, _ => by simp [cmpKVs]
  | _ :: _, [], _, h1, _ => by simp [cmpKVs] at h1
  | _ :: _, _ :: _, [], _, h2 => by simp [cmpKVs] at h2
  | (k1, x) :: xs, (k2, y) :: ys, (k3, z) :: zs, h1, h2 => by
      simp only [cmpKVs] at *
      obtain ⟨f1, f2, f3⟩ := elem_facts nkey x y z (cmp_trans x y z) (cmp_trans y z x)
        (cmp_trans z x y) (cmp_trans z y x)
      -- keys: bytes are a total order with the same three facts
      have b12 := cmpBytes_antisymm k1 k2
      have b23 := cmpBytes_antisymm k2 k3
      have b13 := cmpBytes_antisymm k1 k3
      have k1f : cmpBytes k1 k2 < 0 → cmpBytes k2 k3 ≤ 0 → cmpBytes k1 k3 < 0 := by
        intro a1 a2
        have := cmpBytes_trans k1 k2 k3 (by omega) a2
        by_cases h0 : cmpBytes k1 k3 = 0
        · have := cmpBytes_trans k2 k3 k1 a2 (by omega); omega
        · omega
      have k2f : cmpBytes k1 k2 ≤ 0 → cmpBytes k2 k3 < 0 → cmpBytes k1 k3 < 0 := by
        intro a1 a2
        have := cmpBytes_trans k1 k2 k3 a1 (by omega)
        by_cases h0 : cmpBytes k1 k3 = 0
        · have := cmpBytes_trans k3 k1 k2 (by omega) a1; omega
        · omega
      have k3f : cmpBytes k1 k2 = 0 → cmpBytes k2 k3 = 0 → cmpBytes k1 k3 = 0 := by
        intro a1 a2
        have := cmpBytes_trans k1 k2 k3 (by omega) (by omega)
        have := cmpBytes_trans k3 k2 k1 (by omega) (by omega)
        omega
      refine lex_step _ _ _ _ _ _ k1f k2f k3f ?_ h1 h2
      exact lex_step _ _ _ _ _ _ f1 f2 f3 (cmpKVs_trans xs ys zs)
termination_by a b c => sizeOf a + sizeOf b + sizeOf c
end

end CV
#print axioms CV.cmp_trans
#print axioms CV.cmp_antisymm
