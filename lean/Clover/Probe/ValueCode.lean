import Clover.Probe.ValueProofs
import Clover.Probe.Int64Full
import Clover.Probe.StrCode
import Clover.Probe.U64Code
/-! calibration: clover's index key code (internal/code.go over orderedcode) preserves `Compare`:
    smaller value ⇒ key smaller at a differing byte; equal value ⇒ equal key -/
namespace CV
open OC

variable (nkey : Num → Int) (numCode : Num → Int) (numOK : Num → Prop)

mutual
/-- what follows the type id: the primitive's own code, or the escaped concatenation for containers -/
def body : Value → Bytes
  | .null => []
  | .num n => encInt (numCode n)
  | .str s => encStr s
  | .bool b => encU64 (if b then 1 else 0)
  | .time ns _ => encU64 (ns % 2^64).toNat   -- uint64(UnixNano()): wraps for negative instants
  | .arr xs => encStr (codeL xs)
  | .obj kvs => encStr (codeKV kvs)
/-- elements inside containers always carry their type id -/
def codeL : List Value → Bytes
  | [] => []
  | x :: xs => (encU64 x.rank.toNat ++ body x) ++ codeL xs
def codeKV : List (Bytes × Value) → Bytes
  | [] => []
  | (k, x) :: xs => (encStr k ++ (encU64 x.rank.toNat ++ body x)) ++ codeKV xs
end

/-- typed code of an element -/
def tcode (v : Value) : Bytes := encU64 v.rank.toNat ++ body numCode v

/-- top-level `OrderedCode(prefix, v)`: primitives without type id, containers with it -/
def code (v : Value) : Bytes :=
  match v with
  | .arr _ => tcode numCode v
  | .obj _ => tcode numCode v
  | _ => body numCode v

/-- the part of an index key after `c:<coll>;i:<field>`: `t:<rank>;v:` then the code (the index prefix ends with its own `;`) -/
def tkey (v : Value) : Bytes :=
  [0x74, 0x3A, UInt8.ofNat (48 + v.rank.toNat), 0x3B, 0x76, 0x3A] ++ code numCode v

mutual
def Dom : Value → Prop
  | .num n => numOK n
  | .time ns _ => 0 ≤ ns ∧ ns < 2^63
  | .arr xs => DomL xs
  | .obj kvs => DomKV kvs
  | _ => True
def DomL : List Value → Prop
  | [] => True
  | x :: xs => Dom x ∧ DomL xs
def DomKV : List (Bytes × Value) → Prop
  | [] => True
  | (_, x) :: xs => Dom x ∧ DomKV xs
end

/-! ### byte-string helpers -/

theorem cmpB_eq_cmpBytes : (a b : Bytes) → cmpB a b = cmpBytes a b
  | [], [] => rfl
  | [], _ :: _ => rfl
  | _ :: _, [] => rfl
  | x :: xs, y :: ys => by simp only [cmpB, cmpBytes, cmpB_eq_cmpBytes xs ys]

theorem diffLt_cmpB : (a b : Bytes) → diffLt a b = true → cmpB a b < 0
  | [], _, h => by simp [diffLt] at h
  | _ :: _, [], h => by simp [diffLt] at h
  | x :: xs, y :: ys, h => by
    simp only [diffLt, Bool.or_eq_true, Bool.and_eq_true, decide_eq_true_eq, beq_iff_eq] at h
    simp only [cmpB]
    rcases h with h | ⟨h1, h2⟩
    · simp [h]
    · subst h1; simp [UInt8.lt_irrefl, diffLt_cmpB xs ys h2]

theorem cmpB_prefix : (p a b : Bytes) → cmpB (p ++ a) (p ++ b) = cmpB a b
  | [], _, _ => rfl
  | x :: p, a, b => by simp [cmpB, UInt8.lt_irrefl, cmpB_prefix p a b]

theorem diffLt_prefix : (p a b : Bytes) → diffLt (p ++ a) (p ++ b) = diffLt a b
  | [], _, _ => rfl
  | x :: p, a, b => by simp [diffLt, UInt8.lt_irrefl, diffLt_prefix p a b]

theorem cmpB_nil_lt (b : Bytes) (h : b ≠ []) : cmpB [] b < 0 := by
  cases b with
  | nil => exact absurd rfl h
  | cons _ _ => simp [cmpB]

theorem encStr_ne_nil (k : Bytes) : encStr k ≠ [] := by
  cases k with
  | nil => simp [encStr]
  | cons x xs => simp only [encStr]; split <;> (try split) <;> simp

theorem encU64_ne_nil (x : Nat) : encU64 x ≠ [] := by simp [encU64]

/-! ### the rank prefix -/

theorem rank_toNat_lt (a b : Value) (h : a.rank < b.rank) : a.rank.toNat < b.rank.toNat := by
  have := rank_range a; have := rank_range b; omega

theorem tcode_rank_lt (a b : Value) (h : a.rank < b.rank) (s t : Bytes) :
    diffLt (tcode numCode a ++ s) (tcode numCode b ++ t) = true := by
  unfold tcode
  have hb := rank_range b
  have := encU64_diffLt a.rank.toNat b.rank.toNat (by omega) (rank_toNat_lt a b h)
  rw [List.append_assoc, List.append_assoc]
  exact diffLt_append _ _ _ _ this


/-! ### the main induction -/

section main
variable (hlt : ∀ a b, numOK a → numOK b → nkey a < nkey b → numCode a < numCode b)
variable (heq : ∀ a b, numOK a → numOK b → nkey a = nkey b → numCode a = numCode b)
variable (hrange : ∀ a, numOK a → -2^63 ≤ numCode a ∧ numCode a < 2^63)

theorem cmpInt_lt_iff (a b : Int) : cmpInt a b < 0 ↔ a < b := by
  unfold cmpInt; split <;> (try split) <;> omega

/-- from the body statement at equal ranks to the typed-code statement at any ranks -/
theorem elem_of_body (x y : Value)
    (hb : x.rank = y.rank → (cmp nkey x y < 0 → diffLt (body numCode x) (body numCode y) = true) ∧
      (cmp nkey x y = 0 → body numCode x = body numCode y)) :
    (cmp nkey x y < 0 → ∀ s t, diffLt (tcode numCode x ++ s) (tcode numCode y ++ t) = true) ∧
    (cmp nkey x y = 0 → tcode numCode x = tcode numCode y) := by
  by_cases hr : x.rank = y.rank
  · obtain ⟨b1, b2⟩ := hb hr
    constructor
    · intro h s t
      unfold tcode
      rw [hr, List.append_assoc, List.append_assoc, diffLt_prefix]
      exact diffLt_append _ _ _ _ (b1 h)
    · intro h; unfold tcode; rw [hr, b2 h]
  · rw [cmp_of_rank_ne nkey x y hr]
    constructor
    · intro h s t; exact tcode_rank_lt numCode x y (by omega) s t
    · intro h; omega

include hlt heq hrange in
mutual
theorem body_order : (a b : Value) → Dom numOK a → Dom numOK b → a.rank = b.rank →
    (cmp nkey a b < 0 → diffLt (body numCode a) (body numCode b) = true) ∧
    (cmp nkey a b = 0 → body numCode a = body numCode b)
  | .null, b, _, _, hr => by
      cases b <;> first
        | (exfalso; simp [Value.rank] at hr; done)
        | simp [cmp, body]
  | .num x, b, da, db, hr => by
      cases b <;> first
        | (exfalso; simp [Value.rank] at hr; done)
        | (rename_i y
           simp only [Dom] at da db
           simp only [cmp, body, cmpInt_lt_iff, cmpInt_eq_iff]
           exact ⟨fun h => encInt_diffLt _ _ (hrange x da).1 (hrange y db).2 (hlt x y da db h),
                  fun h => by rw [heq x y da db h]⟩)
  | .str x, b, da, db, hr => by
      cases b <;> first
        | (exfalso; simp [Value.rank] at hr; done)
        | (rename_i y
           simp only [cmp, body]
           exact ⟨fun h => encStr_lt x y (by rw [cmpB_eq_cmpBytes]; exact h),
                  fun h => by rw [cmpBytes_eq x y h]⟩)
  | .bool x, b, da, db, hr => by
      cases b <;> first
        | (exfalso; simp [Value.rank] at hr; done)
        | (rename_i y
           simp only [cmp, body, cmpInt_lt_iff, cmpInt_eq_iff]
           cases x <;> cases y <;> simp
           exact encU64_diffLt 0 1 (by decide) (by decide))
  | .time x _, b, da, db, hr => by
      cases b <;> first
        | (exfalso; simp [Value.rank] at hr; done)
        | (rename_i y0 oy
           simp only [Dom] at da db
           have hx : x % 2^64 = x := Int.emod_eq_of_lt (by omega) (by omega)
           have hy : y0 % 2^64 = y0 := Int.emod_eq_of_lt (by omega) (by omega)
           simp only [cmp, body, cmpInt_lt_iff, cmpInt_eq_iff, hx, hy]
           exact ⟨fun h => encU64_diffLt _ _ (by omega) (by omega), fun h => by rw [h]⟩)
  | .arr xs, b, da, db, hr => by
      cases b <;> first
        | (exfalso; simp [Value.rank] at hr; done)
        | (rename_i ys
           simp only [Dom] at da db
           simp only [cmp, body]
           obtain ⟨l1, l2⟩ := codeL_order xs ys da db
           exact ⟨fun h => encStr_lt _ _ (l1 h), fun h => by rw [l2 h]⟩)
  | .obj xs, b, da, db, hr => by
      cases b <;> first
        | (exfalso; simp [Value.rank] at hr; done)
        | (rename_i ys
           simp only [Dom] at da db
           simp only [cmp, body]
           obtain ⟨l1, l2⟩ := codeKV_order xs ys da db
           exact ⟨fun h => encStr_lt _ _ (l1 h), fun h => by rw [l2 h]⟩)
termination_by a b => sizeOf a + sizeOf b
theorem codeL_order : (xs ys : List Value) → DomL numOK xs → DomL numOK ys →
    (cmpList nkey xs ys < 0 → cmpB (codeL numCode xs) (codeL numCode ys) < 0) ∧
    (cmpList nkey xs ys = 0 → codeL numCode xs = codeL numCode ys)
  | [], [], _, _ => by simp [cmpList, codeL]
  | [], y :: ys, _, _ => by
      simp only [cmpList, codeL]
      refine ⟨fun _ => cmpB_nil_lt _ ?_, fun h => by omega⟩
      simp [encU64]
  | _ :: _, [], _, _ => by simp [cmpList]
  | x :: xs, y :: ys, dx, dy => by
      simp only [DomL] at dx dy
      obtain ⟨e1, e2⟩ := elem_of_body nkey numCode x y (body_order x y dx.1 dy.1)
      obtain ⟨l1, l2⟩ := codeL_order xs ys dx.2 dy.2
      simp only [cmpList, codeL]
      have tx : encU64 x.rank.toNat ++ body numCode x = tcode numCode x := rfl
      have ty : encU64 y.rank.toNat ++ body numCode y = tcode numCode y := rfl
      rw [tx, ty]
      by_cases h0 : cmp nkey x y = 0
      · simp only [h0, ne_eq, not_true_eq_false, if_false]
        rw [e2 h0]
        exact ⟨fun h => by rw [cmpB_prefix]; exact l1 h, fun h => by rw [l2 h]⟩
      · simp only [h0, ne_eq, not_false_eq_true, if_true]
        exact ⟨fun h => diffLt_cmpB _ _ (e1 h _ _), fun h => by first | exact absurd h h0 | exact h.elim⟩
termination_by xs ys => sizeOf xs + sizeOf ys
theorem codeKV_order : (xs ys : List (Bytes × Value)) → DomKV numOK xs → DomKV numOK ys →
    (cmpKVs nkey xs ys < 0 → cmpB (codeKV numCode xs) (codeKV numCode ys) < 0) ∧
    (cmpKVs nkey xs ys = 0 → codeKV numCode xs = codeKV numCode ys)
  | [], [], _, _ => by simp [cmpKVs, codeKV]
  | [], (k, y) :: ys, _, _ => by
      simp only [cmpKVs, codeKV]
      refine ⟨fun _ => cmpB_nil_lt _ ?_, fun h => by omega⟩
      have := encStr_ne_nil k
      cases hk : encStr k with
      | nil => exact absurd hk this
      | cons _ _ => simp
  | _ :: _, [], _, _ => by simp [cmpKVs]
  | (k1, x) :: xs, (k2, y) :: ys, dx, dy => by
      simp only [DomKV] at dx dy
      obtain ⟨e1, e2⟩ := elem_of_body nkey numCode x y (body_order x y dx.1 dy.1)
      obtain ⟨l1, l2⟩ := codeKV_order xs ys dx.2 dy.2
      simp only [cmpKVs, codeKV]
      have tx : encU64 x.rank.toNat ++ body numCode x = tcode numCode x := rfl
      have ty : encU64 y.rank.toNat ++ body numCode y = tcode numCode y := rfl
      rw [tx, ty]
      by_cases hk : cmpBytes k1 k2 = 0
      · have := cmpBytes_eq k1 k2 hk
        subst this
        simp only [hk, ne_eq, not_true_eq_false, if_false, List.append_assoc]
        rw [cmpB_prefix]
        by_cases h0 : cmp nkey x y = 0
        · simp only [h0, ne_eq, not_true_eq_false, if_false]
          rw [e2 h0]
          exact ⟨fun h => by rw [cmpB_prefix]; exact l1 h, fun h => by rw [l2 h]⟩
        · simp only [h0, ne_eq, not_false_eq_true, if_true]
          exact ⟨fun h => diffLt_cmpB _ _ (e1 h _ _), fun h => by first | exact absurd h h0 | exact h.elim⟩
      · simp only [hk, ne_eq, not_false_eq_true, if_true, List.append_assoc]
        refine ⟨fun h => diffLt_cmpB _ _ (diffLt_append _ _ _ _ (encStr_lt k1 k2 ?_)), fun h => by first | exact absurd h hk | exact h.elim⟩
        rw [cmpB_eq_cmpBytes]; exact h
termination_by xs ys => sizeOf xs + sizeOf ys
end

include hlt heq hrange in
theorem code_order (a b : Value) (da : Dom numOK a) (db : Dom numOK b) (hr : a.rank = b.rank) :
    (cmp nkey a b < 0 → ∀ s t, diffLt (code numCode a ++ s) (code numCode b ++ t) = true) ∧
    (cmp nkey a b = 0 → code numCode a = code numCode b) := by
  obtain ⟨b1, b2⟩ := body_order nkey numCode numOK hlt heq hrange a b da db hr
  have generic : (cmp nkey a b < 0 → ∀ s t, diffLt (tcode numCode a ++ s) (tcode numCode b ++ t) = true) ∧
      (cmp nkey a b = 0 → tcode numCode a = tcode numCode b) :=
    elem_of_body nkey numCode a b (fun _ => ⟨b1, b2⟩)
  cases a <;> cases b <;> first
    | (exfalso; simp [Value.rank] at hr; done)
    | exact generic
    | exact ⟨fun h s t => diffLt_append _ _ _ _ (b1 h), b2⟩

include hlt heq hrange in
/-- C10, key half: on the domain, index keys sort exactly as `Compare`, whatever ids follow -/
theorem key_order (a b : Value) (da : Dom numOK a) (db : Dom numOK b) :
    (cmp nkey a b < 0 → ∀ id1 id2, diffLt (tkey numCode a ++ id1) (tkey numCode b ++ id2) = true) ∧
    (cmp nkey a b = 0 → tkey numCode a = tkey numCode b) := by
  by_cases hr : a.rank = b.rank
  · obtain ⟨c1, c2⟩ := code_order nkey numCode numOK hlt heq hrange a b da db hr
    constructor
    · intro h id1 id2
      unfold tkey
      rw [hr]
      simp only [List.cons_append, List.nil_append, diffLt, UInt8.lt_irrefl, decide_false, beq_self_eq_true,
        Bool.true_and, Bool.false_or]
      exact c1 h id1 id2
    · intro h; unfold tkey; rw [hr, c2 h]
  · rw [cmp_of_rank_ne nkey a b hr]
    constructor
    · intro h id1 id2
      have ra := rank_range a
      have rb := rank_range b
      unfold tkey
      simp only [List.cons_append, List.nil_append, diffLt, UInt8.lt_irrefl, decide_false, beq_self_eq_true,
        Bool.true_and, Bool.false_or, Bool.or_eq_true, decide_eq_true_eq]
      left
      rw [UInt8.lt_iff_toNat_lt]; simp [UInt8.toNat_ofNat']; omega
    · intro h; omega

end main

end CV
#print axioms CV.key_order
