/-! calibration: single-writer lock + snapshot readers ⇒ every interleaving is linearizable
    (writers at their commit, readers at their begin) -/
namespace Lin

variable {S O : Type}

structure OpSpec (S O : Type) where
  write : Bool
  f : S → S × O          -- on the snapshot: next state (ignored for readers) and result

structure Act (S O : Type) where
  id : Nat
  op : OpSpec S O
  snap : S

structure Sys (S O : Type) where
  committed : S
  lock : Option Nat                       -- thread holding the writer lock
  active : List (Nat × Act S O)           -- thread ↦ operation in flight (at most one per thread)
  hist : List (Nat × OpSpec S O)          -- the sequential witness built so far (op id, op)
  outs : List (Nat × O)                   -- results actually returned

inductive Ev (S O : Type)
  | begin (t id : Nat) (op : OpSpec S O)
  | finish (t : Nat)

def lookup (t : Nat) : List (Nat × Act S O) → Option (Act S O)
  | [] => none
  | (t', a) :: rest => if t = t' then some a else lookup t rest

def remove (t : Nat) : List (Nat × Act S O) → List (Nat × Act S O)
  | [] => []
  | (t', a) :: rest => if t = t' then remove t rest else (t', a) :: remove t rest

/-- one event of the concurrent system; `none` when the event is not enabled -/
def step (s : Sys S O) : Ev S O → Option (Sys S O)
  | .begin t id op =>
    if (lookup t s.active).isSome then none
    else if op.write then
      if s.lock.isSome then none
      else some { s with lock := some t, active := (t, ⟨id, op, s.committed⟩) :: s.active }
    else
      -- a reader is linearised at its begin
      some { s with active := (t, ⟨id, op, s.committed⟩) :: s.active, hist := s.hist ++ [(id, op)] }
  | .finish t =>
    match lookup t s.active with
    | none => none
    | some a =>
      let r := a.op.f a.snap
      if a.op.write then
        -- a writer is linearised at its commit
        some { committed := r.1, lock := none, active := remove t s.active,
               hist := s.hist ++ [(a.id, a.op)], outs := (a.id, r.2) :: s.outs }
      else
        some { s with active := remove t s.active, outs := (a.id, r.2) :: s.outs }

def run (s : Sys S O) : List (Ev S O) → Option (Sys S O)
  | [] => some s
  | e :: es => match step s e with
    | none => none
    | some s' => run s' es

/-- the sequential execution of a witness: final state and the results it gives -/
def seq (s0 : S) : List (Nat × OpSpec S O) → S × List (Nat × O)
  | [] => (s0, [])
  | (id, op) :: rest =>
    let r := op.f s0
    let s1 := if op.write then r.1 else s0
    let tl := seq s1 rest
    (tl.1, (id, r.2) :: tl.2)

theorem seq_append (s0 : S) (h : List (Nat × OpSpec S O)) (id : Nat) (op : OpSpec S O) :
    seq s0 (h ++ [(id, op)]) =
      (if op.write then (op.f (seq s0 h).1).1 else (seq s0 h).1,
       (seq s0 h).2 ++ [(id, (op.f (seq s0 h).1).2)]) := by
  induction h generalizing s0 with
  | nil => simp [seq]
  | cons x rest ih =>
    obtain ⟨i, o⟩ := x
    simp only [List.cons_append, seq, ih]

theorem mem_lookup {t : Nat} {l : List (Nat × Act S O)} {a : Act S O} (h : lookup t l = some a) :
    (t, a) ∈ l := by
  induction l with
  | nil => simp [lookup] at h
  | cons x rest ih =>
    obtain ⟨t', a'⟩ := x
    simp only [lookup] at h
    split at h
    · rename_i heq; subst heq; cases h; exact List.mem_cons_self ..
    · exact List.mem_cons_of_mem _ (ih h)

theorem mem_remove {t t' : Nat} {l : List (Nat × Act S O)} {a : Act S O} (h : (t', a) ∈ remove t l) :
    (t', a) ∈ l ∧ t' ≠ t := by
  induction l with
  | nil => simp [remove] at h
  | cons x rest ih =>
    obtain ⟨t2, a2⟩ := x
    simp only [remove] at h
    split at h
    · have := ih h; exact ⟨List.mem_cons_of_mem _ this.1, this.2⟩
    · rename_i hne
      rcases List.mem_cons.1 h with h | h
      · cases h; exact ⟨List.mem_cons_self .., fun e => hne e.symm⟩
      · have := ih h; exact ⟨List.mem_cons_of_mem _ this.1, this.2⟩

/-- the invariant tying the concurrent state to the sequential witness -/
structure Inv (s0 : S) (s : Sys S O) : Prop where
  state : (seq s0 s.hist).1 = s.committed
  writer : ∀ t a, (t, a) ∈ s.active → a.op.write = true → s.lock = some t ∧ a.snap = s.committed
  reader : ∀ t a, (t, a) ∈ s.active → a.op.write = false → (a.id, (a.op.f a.snap).2) ∈ (seq s0 s.hist).2
  outs : ∀ p, p ∈ s.outs → p ∈ (seq s0 s.hist).2
  lockfree : s.lock = none → ∀ t a, (t, a) ∈ s.active → a.op.write = false

theorem step_inv (s0 : S) (s s' : Sys S O) (e : Ev S O) (hi : Inv s0 s) (hs : step s e = some s') :
    Inv s0 s' := by
  cases e with
  | «begin» t id op =>
    simp only [step] at hs
    split at hs
    · cases hs
    · cases hw : op.write with
      | true =>
        simp only [hw, if_true] at hs
        split at hs
        · cases hs
        · rename_i hl
          cases hs
          have hl' : s.lock = none := by simpa using hl
          refine ⟨hi.state, ?_, ?_, hi.outs, ?_⟩
          · intro t' a hm hwa
            rcases List.mem_cons.1 hm with h | h
            · cases h; exact ⟨rfl, rfl⟩
            · have := hi.lockfree hl' t' a h; simp [this] at hwa
          · intro t' a hm hwa
            rcases List.mem_cons.1 hm with h | h
            · cases h; simp [hw] at hwa
            · exact hi.reader t' a h hwa
          · intro h; simp at h
      | false =>
        simp only [hw, Bool.false_eq_true, if_false] at hs
        cases hs
        have hseq := seq_append s0 s.hist id op
        simp only [hw, Bool.false_eq_true, if_false] at hseq
        refine ⟨by simp [hseq, hi.state], ?_, ?_, ?_, ?_⟩
        · intro t' a hm hwa
          rcases List.mem_cons.1 hm with h | h
          · cases h; simp [hw] at hwa
          · exact hi.writer t' a h hwa
        · intro t' a hm hwa
          rw [hseq]
          rcases List.mem_cons.1 hm with h | h
          · cases h; simp [hi.state]
          · exact List.mem_append_left _ (hi.reader t' a h hwa)
        · intro p hp; rw [hseq]; exact List.mem_append_left _ (hi.outs p hp)
        · intro hl t' a hm
          rcases List.mem_cons.1 hm with h | h
          · cases h; exact hw
          · exact hi.lockfree hl t' a h
  | finish t =>
    simp only [step] at hs
    split at hs
    · cases hs
    · rename_i a hlk
      have hmem := mem_lookup hlk
      cases hw : a.op.write with
      | true =>
        simp only [hw, if_true] at hs
        cases hs
        obtain ⟨hlock, hsnap⟩ := hi.writer t a hmem hw
        have hseq := seq_append s0 s.hist a.id a.op
        simp only [hw, if_true] at hseq
        refine ⟨by simp [hseq, hi.state, hsnap], ?_, ?_, ?_, ?_⟩
        · intro t' a' hm hwa
          obtain ⟨hm', hne⟩ := mem_remove hm
          have := (hi.writer t' a' hm' hwa).1
          rw [hlock] at this; cases this; exact absurd rfl hne
        · intro t' a' hm hwa
          rw [hseq]
          exact List.mem_append_left _ (hi.reader t' a' (mem_remove hm).1 hwa)
        · intro p hp
          rw [hseq]
          rcases List.mem_cons.1 hp with h | h
          · subst h; simp [hi.state, hsnap]
          · exact List.mem_append_left _ (hi.outs p h)
        · intro _ t' a' hm
          obtain ⟨hm', hne⟩ := mem_remove hm
          cases hwa : a'.op.write with
          | false => rfl
          | true =>
            have := (hi.writer t' a' hm' hwa).1
            rw [hlock] at this; cases this; exact absurd rfl hne
      | false =>
        simp only [hw, Bool.false_eq_true, if_false] at hs
        cases hs
        refine ⟨hi.state, ?_, ?_, ?_, ?_⟩
        · intro t' a' hm hwa; exact hi.writer t' a' (mem_remove hm).1 hwa
        · intro t' a' hm hwa; exact hi.reader t' a' (mem_remove hm).1 hwa
        · intro p hp
          rcases List.mem_cons.1 hp with h | h
          · subst h; exact hi.reader t a hmem hw
          · exact hi.outs p h
        · intro hl t' a' hm; exact hi.lockfree hl t' a' (mem_remove hm).1

theorem run_inv (s0 : S) (s s' : Sys S O) (es : List (Ev S O)) (hi : Inv s0 s) (hr : run s es = some s') :
    Inv s0 s' := by
  induction es generalizing s with
  | nil => simp [run] at hr; subst hr; exact hi
  | cons e es ih =>
    simp only [run] at hr
    split at hr
    · cases hr
    · rename_i s1 hs1; exact ih s1 (step_inv s0 s s1 e hi hs1) hr

def init (s0 : S) : Sys S O := ⟨s0, none, [], [], []⟩

/-- every result returned by any interleaving is the result the sequential witness gives, and the
    committed state is the witness's final state -/
theorem linearizable (s0 : S) (es : List (Ev S O)) (s' : Sys S O) (hr : run (init s0) es = some s') :
    (seq s0 s'.hist).1 = s'.committed ∧ ∀ p, p ∈ s'.outs → p ∈ (seq s0 s'.hist).2 := by
  have : Inv s0 (init s0 : Sys S O) :=
    ⟨rfl, by intro _ _ h; simp [init] at h, by intro _ _ h; simp [init] at h,
     by intro _ h; simp [init] at h, by intro _ _ _ h; simp [init] at h⟩
  have h := run_inv s0 _ s' es this hr
  exact ⟨h.state, h.outs⟩

end Lin
#print axioms Lin.linearizable
