import Clover.Driver.Codec
import Clover.Model.DocFields
import Clover.Model.Msgpack
import Clover.Spec.Render
/-! Line-protocol driver: one JSON case per input line, one canonical result per output line.
    Runs the executable model and the abstract specification side by side. -/
namespace CV.Driver
open Lean

def isAlnum (b : UInt8) : Bool :=
  (0x30 ≤ b && b ≤ 0x39) || (0x61 ≤ b && b ≤ 0x7A) || (0x41 ≤ b && b ≤ 0x5A) || b == 0x20

def isInfix (p s : Bytes) : Bool :=
  match s with
  | [] => p.isEmpty
  | _ :: t => Keys.isPrefix p s || isInfix p t

/-- the pattern family the generators use: `.*`, and `^?literal$?` with an alphanumeric literal;
    anything else (e.g. the invalid pattern `(`) never matches -/
def likeImpl : LikeFn := fun pat s =>
  if pat == [0x2E, 0x2A] then true else
  let (as, p1) := match pat with
    | 0x5E :: rest => (true, rest)
    | _ => (false, pat)
  let (ae, body) := match p1.reverse with
    | 0x24 :: rest => (true, rest.reverse)
    | _ => (false, p1)
  if !body.all isAlnum then false
  else match as, ae with
    | true, true => s == body
    | true, false => Keys.isPrefix body s
    | false, true => Keys.isPrefix body.reverse s.reverse
    | false, false => isInfix body s

def fieldX : Bytes := [0x78]

def fnImpl : FnFam := fun id d =>
  match id with
  | 0 => true
  | 1 => false
  | 2 => d.has fieldX
  | 3 => match d.get fieldX with | .num _ => true | _ => false
  | _ => false

structure St where
  db : DBState := {}
  spec : Spec.State := []

def sgn (x : Int) : Int := if x < 0 then -1 else if x = 0 then 0 else 1

/-- comparison used for tie classes of a sorted result: the code's comparator, with an absent
    field read as nil on the last sort key (C08: "an absent field ordering together with nil") -/
def looseCompare (a b : Doc) : List (Bytes × Int) → Int
  | [] => 0
  | [(f, dir)] => goCmp (a.get f) (b.get f) * dir
  | (f, dir) :: rest =>
    let ha := a.has f
    let hb := b.has f
    if !ha && hb then -dir
    else if ha && !hb then dir
    else if ha && hb then
      let r := goCmp (a.get f) (b.get f)
      if r ≠ 0 then r * dir else looseCompare a b rest
    else looseCompare a b rest

/-- all documents matching the criteria in specification order, each with its tie class -/
def classesOf (q : Query) (coll : Spec.Coll) : List (Bytes × Nat) :=
  let matching := (coll.docs.map (·.2)).filter (fun d => satOpt likeImpl fnImpl d q.crit)
  let ordered := if q.sort.isEmpty then matching else sortDocs q.sort matching
  let rec go (prev : Option Doc) (cls : Nat) : List Doc → List (Bytes × Nat)
    | [] => []
    | d :: ds =>
      let cls' := match prev with
        | none => 0
        | some p => if q.sort.isEmpty || looseCompare p d q.sort ≠ 0 then cls + 1 else cls
      (d.objectId, cls') :: go (some d) cls' ds
  go none 0 ordered

def opQuery : Op → Option Query
  | .findAll q | .forEach q _ | .findFirst q | .exists_ q | .count q | .update q _ | .delete q => some q
  | .createCollectionByQuery _ q _ => some q
  | _ => none

def handleOp (st : St) (j : Json) : Except String (St × String) := do
  let op ← parseOp j
  let fault : Faults := match j.getObjVal? "fault" with
    | .ok n => match n.getNat? with
      | .ok k => fun t => t == k
      | .error _ => fun _ => false
    | .error _ => fun _ => false
  let r := op.run likeImpl fnImpl st.db fault
  let (so, sp') := if st.db.closed then (Res.err Err.closed, st.spec) else Spec.step likeImpl fnImpl st.spec op
  let wantTrace := (j.getObjVal? "trace").isOk
  let extra := match opQuery op with
    | some q => match Spec.lookup q.coll st.spec with
      | some coll => "\t#all=" ++ ",".intercalate ((classesOf q coll).map (fun (id, c) => toHex id ++ ":" ++ toString c))
      | none => ""
    | none => ""
  let out := showRes r.out ++ (if r.fired then " fired" else "") ++
    (if wantTrace then "\ttrace=" ++ " ".intercalate (r.trace.map showCall) else "") ++
    "\tspec=" ++ showRes so ++ extra
  -- a faulted run never advances the specification (the operation must have failed)
  let sp'' := if r.out.isErr then st.spec else sp'
  pure ({ st with db := r.state, spec := sp'' }, out)

def handle (st : St) (line : String) : St × String :=
  match Json.parse line with
  | .error e => (st, "bad-json " ++ e)
  | .ok j =>
    match getStr j "k" with
    | .error e => (st, "bad-line " ++ e)
    | .ok k =>
      let r : Except String (St × String) := match k with
        | "reset" => pure ({}, "ok")
        | "close" => pure ({ st with db := { st.db with closed := true } }, "ok")
        | "reopen" => pure ({ st with db := { st.db with closed := false } }, "ok")
        | "op" => handleOp st j
        | "dump" => do
          let m := showKVS st.db.kv
          let s := showKVS (Spec.render st.spec)
          pure (st, "dump " ++ m ++ "\tinv=" ++ (if m == s then "1" else "0:" ++ s))
        | "logical" => do
          -- the specification state as the public API shows it: per collection the index set,
          -- the document count and the documents by id
          let showColl := fun (p : Bytes × Spec.Coll) =>
            toHex p.1 ++ "|" ++ ",".intercalate ((p.2.indexes.map toHex).mergeSort (· ≤ ·)) ++ "|" ++
              toString p.2.docs.length ++ "|" ++ ";".intercalate (p.2.docs.map (fun e => showDoc e.2))
          pure (st, "logical " ++ "#".intercalate (st.spec.map showColl))
        | "cmp" => do
          let a ← parseValue (← j.getObjVal? "a")
          let b ← parseValue (← j.getObjVal? "b")
          pure (st, toString (sgn (goCmp a b)))
        | "key" => do
          let v ← parseValue (← j.getObjVal? "v")
          pure (st, toHex (goKeyTail v))
        | "sat" => do
          let c ← parseCrit (← j.getObjVal? "crit")
          let d ← parseDoc (← j.getObjVal? "doc")
          pure (st, if sat likeImpl fnImpl d c then "1" else "0")
        | "path" => do
          let d ← parseDoc (← j.getObjVal? "doc")
          let p ← getHex j "path"
          match j.getObjVal? "v" with
          | .ok v => do
            let v ← parseValue v
            pure (st, showDoc (d.set p v))
          | .error _ => pure (st, (if d.has p then "1 " else "0 ") ++ showValue (d.get p))
        | "mpenc" => do
          let d ← parseDoc (← j.getObjVal? "doc")
          pure (st, toHex (Msgpack.encDocBytes d))
        | "mpdec" => do
          let bs ← getHex j "bytes"
          match Msgpack.decDocBytes bs with
          | some d => pure (st, "ok " ++ showDoc d)
          | none => pure (st, "none")
        | "fields" => do
          let d ← parseDoc (← j.getObjVal? "doc")
          let sub ← (← j.getObjVal? "sub").getBool?
          pure (st, ",".intercalate ((d.fields sub).map toHex))
        | "norm" => do
          match normalize (← parseGoVal (← j.getObjVal? "v")) with
          | .ok v => pure (st, "ok " ++ showValue v)
          | .error .mapKey => pure (st, "err map-key")
          | .error .unsupportedType => pure (st, "err unsupported")
        | "rename" => do
          -- `renameMapKeys` of Document.Unmarshal: the document's keys renamed along the target struct type
          let d ← parseDoc (← j.getObjVal? "doc")
          let t ← parseRType (← j.getObjVal? "rtype")
          pure (st, showDoc (renameMapKeys t d))
        | "rename2" => do
          -- the repaired `renameMapKeys`: embedded structs, structs inside slices / arrays / maps
          let d ← parseDoc (← j.getObjVal? "doc")
          let t ← parseRT (← j.getObjVal? "rt")
          pure (st, showDoc (U2.renameMapKeys t d))
        | "rempty" => do
          let r ← parseRange (← j.getObjVal? "r")
          pure (st, if r.isEmpty then "1" else "0")
        | "rinter" => do
          let r ← parseRange (← j.getObjVal? "r")
          let r2 ← parseRange (← j.getObjVal? "r2")
          pure (st, showRange (r.intersect r2))
        | "scan" => do
          -- IterateRange / Iterate on the current database, through a read transaction
          let c ← getHex j "coll"
          let f ← getHex j "field"
          let rev := ((j.getObjVal? "rev").toOption.bind (·.getBool?.toOption)).getD false
          let stop := (j.getObjVal? "stopAfter").toOption.bind (·.getNat?.toOption)
          let onId : List Bytes → Bytes → StoreM (List Bytes × Flow) := fun acc id =>
            let acc' := id :: acc
            pure (acc', match stop with
              | some k => if acc'.length ≥ k then Flow.stop else Flow.cont
              | none => Flow.cont)
          let body : StoreM (List Bytes) := match j.getObjVal? "r" with
            | .ok rj => if rj.isNull then iterateAll c f rev onId [] else
                match parseRange rj with
                | .ok r => iterateRange c f r rev onId []
                | .error _ => StoreM.fail .badInput
            | .error _ => iterateAll c f rev onId []
          match withTx false body (fun _ => false) st.db.kv with
          | (.ok ids, _, _, _) => pure (st, "ok ids " ++ ",".intercalate (ids.reverse.map toHex))
          | (.err e, _, _, _) => pure (st, "err " ++ showErr e)
        | "cursor" => do
          -- the cursor contract over a set of keys
          let keys ← (← getArr j "keys").toList.mapM (fun s => do fromHex (← s.getStr?))
          let target ← getHex j "target"
          let fwd := ((j.getObjVal? "fwd").toOption.bind (·.getBool?.toOption)).getD true
          let kv : KVS := keys.foldl (fun kv k => kvSet kv k .unit) []
          let items := if fwd then seekFwd kv target else seekRev kv target
          pure (st, ",".intercalate (items.map (fun e => toHex e.1)))
        | _ => throw s!"unknown kind {k}"
      match r with
      | .ok x => x
      | .error e => (st, "bad-case " ++ e)

partial def loop (h : IO.FS.Stream) (out : IO.FS.Stream) (st : St) : IO Unit := do
  let line ← h.getLine
  if line.isEmpty then return ()
  let (st', o) := handle st line
  out.putStrLn o
  out.flush
  loop h out st'

end CV.Driver

def main : IO Unit := do
  CV.Driver.loop (← IO.getStdin) (← IO.getStdout) {}
