import Lean.Data.Json
import Clover.Model.Unmarshal2
import Clover.Spec.Spec
import Clover.Model.GoVal
import Clover.Model.QueryBuilder
import Clover.Model.Unmarshal
/-! JSON line protocol: parsing of cases, canonical printing of results (driver only; not part of
    the model the theorems are about) -/
namespace CV.Driver
open Lean

def hexDigit (n : Nat) : Char := if n < 10 then Char.ofNat (48 + n) else Char.ofNat (87 + n)

def toHex (b : Bytes) : String :=
  String.mk (b.foldr (fun u acc => hexDigit (u.toNat / 16) :: hexDigit (u.toNat % 16) :: acc) [])

def hexVal (c : Char) : Option Nat :=
  if '0' ≤ c && c ≤ '9' then some (c.toNat - 48)
  else if 'a' ≤ c && c ≤ 'f' then some (c.toNat - 87)
  else if 'A' ≤ c && c ≤ 'F' then some (c.toNat - 55)
  else none

def fromHexChars : List Char → Except String Bytes
  | [] => pure []
  | [_] => throw "odd hex"
  | a :: b :: rest => do
    match hexVal a, hexVal b with
    | some x, some y => pure (UInt8.ofNat (x * 16 + y) :: (← fromHexChars rest))
    | _, _ => throw "bad hex"

def fromHex (s : String) : Except String Bytes := fromHexChars s.toList

def hexNat (s : String) : Except String Nat :=
  s.toList.foldlM (fun acc c => match hexVal c with
    | some v => pure (acc * 16 + v)
    | none => throw "bad hex number") 0

def padHex16 (n : Nat) : String :=
  let ds := (Nat.toDigits 16 n)
  String.mk (List.replicate (16 - ds.length) '0' ++ ds)

def getStr (j : Json) (k : String) : Except String String := do (← j.getObjVal? k).getStr?
def getHex (j : Json) (k : String) : Except String Bytes := do fromHex (← getStr j k)
def getArr (j : Json) (k : String) : Except String (Array Json) := do (← j.getObjVal? k).getArr?

def parseInt (s : String) : Except String Int :=
  match s.toInt? with
  | some i => pure i
  | none => throw s!"bad int {s}"

partial def parseValue (j : Json) : Except String Value := do
  if j.isNull then return .null
  if let .ok b := j.getObjVal? "b" then return .bool (← b.getBool?)
  if let .ok s := j.getObjVal? "i" then return .num (.int (← parseInt (← s.getStr?)))
  if let .ok s := j.getObjVal? "u" then return .num (.uint (← parseInt (← s.getStr?)).toNat)
  if let .ok s := j.getObjVal? "f" then
    let bits ← hexNat (← s.getStr?)
    -- NaN is outside every property's domain
    if bits % 2^63 > 2047 * 2^52 then throw "NaN" else return .num (.float bits)
  if let .ok s := j.getObjVal? "s" then return .str (← fromHex (← s.getStr?))
  if let .ok t := j.getObjVal? "t" then
    let a ← t.getArr?
    return .time (← parseInt (← a[0]!.getStr?)) (← parseInt (← a[1]!.getStr?))
  if let .ok a := j.getObjVal? "a" then
    return .arr (← (← a.getArr?).toList.mapM parseValue)
  if let .ok o := j.getObjVal? "o" then
    let kvs ← (← o.getArr?).toList.mapM (fun p => do
      let pa ← p.getArr?
      pure ((← fromHex (← pa[0]!.getStr?)), (← parseValue pa[1]!)))
    return .obj (kvs.foldl (fun d (k, v) => insertKey k v d) [])
  throw s!"bad value {j.compress}"

def parseDoc (j : Json) : Except String Doc := do
  let kvs ← (← j.getArr?).toList.mapM (fun p => do
    let pa ← p.getArr?
    pure ((← fromHex (← pa[0]!.getStr?)), (← parseValue pa[1]!)))
  return kvs.foldl (fun d (k, v) => insertKey k v d) []

def parseOperand (j : Json) : Except String Operand := do
  if let .ok r := j.getObjVal? "ref" then return .ref (← fromHex (← r.getStr?))
  return .lit (← parseValue (← j.getObjVal? "lit"))

def parseCmpOp (s : String) : Except String CmpOp :=
  match s with
  | "eq" => pure .eq | "gt" => pure .gt | "ge" => pure .ge | "lt" => pure .lt | "le" => pure .le
  | _ => throw s!"bad op {s}"

partial def parseCrit (j : Json) : Except String Crit := do
  if let .ok f := j.getObjVal? "exists" then return .exists_ (← fromHex (← f.getStr?))
  if let .ok a := j.getObjVal? "cmp" then
    let a ← a.getArr?
    return .cmp (← parseCmpOp (← a[0]!.getStr?)) (← fromHex (← a[1]!.getStr?)) (← parseOperand a[2]!)
  if let .ok a := j.getObjVal? "like" then
    let a ← a.getArr?
    return .like (← fromHex (← a[0]!.getStr?)) (← fromHex (← a[1]!.getStr?))
  if let .ok a := j.getObjVal? "in" then
    let a ← a.getArr?
    return .isIn (← fromHex (← a[0]!.getStr?)) (← (← a[1]!.getArr?).toList.mapM parseOperand)
  if let .ok a := j.getObjVal? "contains" then
    let a ← a.getArr?
    return .contains (← fromHex (← a[0]!.getStr?)) (← (← a[1]!.getArr?).toList.mapM parseOperand)
  if let .ok n := j.getObjVal? "fn" then return .fn (← n.getNat?)
  if let .ok a := j.getObjVal? "and" then
    let a ← a.getArr?
    return .and (← parseCrit a[0]!) (← parseCrit a[1]!)
  if let .ok a := j.getObjVal? "or" then
    let a ← a.getArr?
    return .or (← parseCrit a[0]!) (← parseCrit a[1]!)
  if let .ok c := j.getObjVal? "not" then return .not (← parseCrit c)
  throw s!"bad criteria {j.compress}"

partial def parseGoVal (j : Json) : Except String GoVal := do
  let g ← getStr j "g"
  match g with
  | "nil" => pure .nilIface
  | "int" => pure (.int (← parseInt (← getStr j "v")))
  | "uint" => pure (.uint (← parseInt (← getStr j "v")).toNat)
  | "float" => pure (.float (← hexNat (← getStr j "bits")))
  | "str" => pure (.str (← getHex j "v"))
  | "bool" => pure (.bool (← (← j.getObjVal? "v").getBool?))
  | "time" =>
    let a ← getArr j "v"
    pure (.time (← parseInt (← a[0]!.getStr?)) (← parseInt (← a[1]!.getStr?)))
  | "ptr" =>
    let v ← j.getObjVal? "v"
    if v.isNull then pure (.ptr none) else pure (.ptr (some (← parseGoVal v)))
  | "list" => pure (.list (← (← getArr j "v").toList.mapM parseGoVal))
  | "map" =>
    if (← getStr j "key") != "string" then pure .otherMap else
    let kvs ← (← getArr j "v").toList.mapM (fun p => do
      let pa ← p.getArr?
      pure ((← fromHex (← pa[0]!.getStr?)), (← parseGoVal pa[1]!)))
    pure (.strMap kvs)
  | "struct" =>
    let fs ← (← getArr j "fields").toList.mapM (fun fj => do
      let name ← getHex fj "name"
      let tagName := (getHex fj "tag").toOption.getD []
      let omitE := ((fj.getObjVal? "omitempty").toOption.bind (·.getBool?.toOption)).getD false
      let exported := ((fj.getObjVal? "exported").toOption.bind (·.getBool?.toOption)).getD true
      let embedded := ((fj.getObjVal? "embedded").toOption.bind (·.getBool?.toOption)).getD false
      pure (({ name, tagName, omitempty := omitE, exported, embedded } : GoField), (← parseGoVal (← fj.getObjVal? "v"))))
    pure (.struct fs)
  | _ => pure .unsupported

/-- a struct type descriptor: null = not a struct; otherwise an array of [goName, cloverName, jsonName, type] (names in hex) -/
partial def parseRType (j : Json) : Except String RType := do
  if j.isNull then return .leaf
  let fs ← (← j.getArr?).toList.mapM (fun f => do
    let a ← f.getArr?
    let g ← fromHex (← a[0]!.getStr?)
    let c ← fromHex (← a[1]!.getStr?)
    let jn ← fromHex (← a[2]!.getStr?)
    let t ← parseRType a[3]!
    pure (g, c, jn, t))
  return .struct fs

/-- the richer type descriptor of `Model/Unmarshal2.lean`: null = leaf; {"s": [[goName, cloverName, jsonName, embedded, type], …]} =
    struct; {"l": type} = slice / array; {"m": type} = map with string keys -/
partial def parseRT (j : Json) : Except String U2.RT := do
  if j.isNull then return .leaf
  if let .ok e := j.getObjVal? "l" then return .list (← parseRT e)
  if let .ok e := j.getObjVal? "m" then return .map (← parseRT e)
  let fs ← (← (← j.getObjVal? "s").getArr?).toList.mapM (fun f => do
    let a ← f.getArr?
    let g ← fromHex (← a[0]!.getStr?)
    let c ← fromHex (← a[1]!.getStr?)
    let jn ← fromHex (← a[2]!.getStr?)
    let e ← a[3]!.getBool?
    let t ← parseRT a[4]!
    pure (g, c, jn, e, t))
  return .struct fs

def parseRange (j : Json) : Except String Range := do
  let start ← parseValue (← j.getObjVal? "start")
  let stop ← parseValue (← j.getObjVal? "end")
  let si ← (← j.getObjVal? "si").getBool?
  let ei ← (← j.getObjVal? "ei").getBool?
  return ⟨start, stop, si, ei⟩

def parseQuery (j : Json) : Except String Query := do
  let coll ← getHex j "coll"
  let crit ← match j.getObjVal? "crit" with
    | .ok c => if c.isNull then pure none else pure (some (← parseCrit c))
    | .error _ => pure none
  -- the builders are applied as the harness applies them: NewQuery, Where, Sort, Skip, Limit
  let q := Query.new coll
  let q := match crit with | some c => q.whereB c | none => q
  let q ← match j.getObjVal? "sort" with
    | .ok a => do
      let opts ← (← a.getArr?).toList.mapM (fun p => do
        let pa ← p.getArr?
        pure ((← fromHex (← pa[0]!.getStr?)), (← pa[1]!.getInt?)))
      pure (if opts.isEmpty then q else q.sortB opts)
    | .error _ => pure q
  -- `Sort()` without options
  let q := if (j.getObjVal? "sortDefault").isOk then q.sortB [] else q
  let q := match j.getObjVal? "skip" with
    | .ok n => (match n.getInt?.toOption with | some k => q.skipB k | none => q)
    | _ => q
  let q := match j.getObjVal? "limit" with
    | .ok n => (match n.getInt?.toOption with | some k => q.limitB k | none => q)
    | _ => q
  return q

def parseUpd (j : Json) : Except String Upd := do
  if let .ok a := j.getObjVal? "setAll" then
    let kvs ← (← a.getArr?).toList.mapM (fun p => do
      let pa ← p.getArr?
      pure ((← fromHex (← pa[0]!.getStr?)), (← parseValue pa[1]!)))
    return .setAll kvs
  if let .ok d := j.getObjVal? "const" then return .const (← parseDoc d)
  if let .ok _ := j.getObjVal? "nil" then return .retNil
  if let .ok a := j.getObjVal? "copy" then
    let a ← a.getArr?
    return .copyField (← fromHex (← a[0]!.getStr?)) (← fromHex (← a[1]!.getStr?))
  throw "bad updater"

def parseFresh (j : Json) : Except String (List Bytes) :=
  match j.getObjVal? "fresh" with
  | .ok a => do (← a.getArr?).toList.mapM (fun s => do fromHex (← s.getStr?))
  | .error _ => pure []

def parseOp (j : Json) : Except String Op := do
  let name ← getStr j "op"
  let coll := (getHex j "coll").toOption.getD []
  match name with
  | "createCollection" => pure (.createCollection coll)
  | "dropCollection" => pure (.dropCollection coll)
  | "hasCollection" => pure (.hasCollection coll)
  | "listCollections" => pure .listCollections
  | "insert" => pure (.insert coll (← (← getArr j "docs").toList.mapM parseDoc) (← parseFresh j))
  | "save" => pure (.save coll (← parseDoc (← j.getObjVal? "doc")) (← parseFresh j))
  | "findAll" => pure (.findAll (← parseQuery (← j.getObjVal? "q")))
  | "forEach" =>
    let k := match j.getObjVal? "stopAfter" with
      | .ok n => n.getNat?.toOption
      | _ => none
    pure (.forEach (← parseQuery (← j.getObjVal? "q")) k)
  | "findFirst" => pure (.findFirst (← parseQuery (← j.getObjVal? "q")))
  | "exists" => pure (.exists_ (← parseQuery (← j.getObjVal? "q")))
  | "count" => pure (.count (← parseQuery (← j.getObjVal? "q")))
  | "findById" => pure (.findById coll (← getHex j "id"))
  | "deleteById" => pure (.deleteById coll (← getHex j "id"))
  | "updateById" => pure (.updateById coll (← getHex j "id") (← parseUpd (← j.getObjVal? "upd")))
  | "replaceById" => pure (.replaceById coll (← getHex j "id") (← parseDoc (← j.getObjVal? "doc")))
  | "update" => pure (.update (← parseQuery (← j.getObjVal? "q")) (← parseUpd (← j.getObjVal? "upd")))
  | "delete" => pure (.delete (← parseQuery (← j.getObjVal? "q")))
  | "createIndex" => pure (.createIndex coll (← getHex j "field"))
  | "dropIndex" => pure (.dropIndex coll (← getHex j "field"))
  | "hasIndex" => pure (.hasIndex coll (← getHex j "field"))
  | "listIndexes" => pure (.listIndexes coll)
  | "createCollectionByQuery" =>
    pure (.createCollectionByQuery coll (← parseQuery (← j.getObjVal? "q")) (← parseFresh j))
  | "import" =>
    let docs ← match j.getObjVal? "docs" with
      | .ok a => if a.isNull then pure none else pure (some (← (← a.getArr?).toList.mapM parseDoc))
      | .error _ => pure none
    -- the decoded objects as `ImportCollection` hands them to `NewDocumentOf`: `_expiresAt` restored
    pure (.importDocs coll (docs.map (fun ds => ds.map restoreExpiresAt)) (← parseFresh j))
  | "export" => pure (.exportDocs coll)
  | _ => throw s!"unknown op {name}"

/-! ## canonical printing -/

mutual
partial def showValue : Value → String
  | .null => "N"
  | .bool b => if b then "B1" else "B0"
  | .num (.int i) => s!"I{i}"
  | .num (.uint u) => s!"U{u}"
  | .num (.float b) => "F" ++ padHex16 b
  | .str s => "S" ++ toHex s
  | .time ns off => s!"T{ns}:{off}"
  | .arr xs => "[" ++ ",".intercalate (xs.map showValue) ++ "]"
  | .obj kvs => showDoc kvs
partial def showDoc (d : Doc) : String :=
  "{" ++ ",".intercalate (d.map (fun (k, v) => toHex k ++ "=" ++ showValue v)) ++ "}"
end

def showRange (r : Range) : String :=
  (if r.si then "[" else "(") ++ showValue r.start ++ ";" ++ showValue r.stop ++ (if r.ei then "]" else ")")

def showErr : Err → String
  | .storeFault => "store-fault" | .collExist => "coll-exist" | .collNotExist => "coll-not-exist"
  | .indexExist => "index-exist" | .indexNotExist => "index-not-exist" | .docNotExist => "doc-not-exist"
  | .dupKey => "dup-key" | .invalidId => "invalid-doc" | .idMismatch => "id-mismatch"
  | .idChanged => "id-changed" | .nilDoc => "nil-doc" | .badInput => "bad-input" | .closed => "closed"

def showOut : Out → String
  | .unit => "unit"
  | .bool b => if b then "bool 1" else "bool 0"
  | .int n => s!"int {n}"
  | .docs ds => "docs " ++ ";".intercalate (ds.map showDoc)
  | .docOpt none => "doc none"
  | .docOpt (some d) => "doc " ++ showDoc d
  | .names l => "names " ++ ",".intercalate (l.map toHex)

def showRes : Res Out → String
  | .ok o => "ok " ++ showOut o
  | .err e => "err " ++ showErr e

def showCall : Call → String
  | .begin w => if w then "begin(w)" else "begin(r)"
  | .get k => "get:" ++ toHex k
  | .set k => "set:" ++ toHex k
  | .del k => "del:" ++ toHex k
  | .item k => "item:" ++ toHex k
  | .commit => "commit"
  | .rollback => "rollback"

def showSVal : SVal → String
  | .doc d => "D" ++ showDoc d
  | .cmeta m => s!"M{m.size}:" ++ ",".intercalate (m.indexes.map toHex)
  | .unit => "E"

def showKVS (kv : KVS) : String :=
  ";".intercalate (kv.map (fun (k, v) => toHex k ++ "=" ++ showSVal v))

end CV.Driver
