import Clover.Model.DB
/-! # The abstract specification

A database is a finite map from collection names to (set of indexed fields, finite map from ids to
documents).  Indexes never occur in the meaning of a query: `findAll` is filter, order, window.
This file is meant to be read in minutes; it shares with the model only the value-level
definitions (`Doc`, `sat`, `compareDocuments`, `validDoc`, `Upd.apply`, `assignIds`). -/
namespace CV.Spec

structure Coll where
  indexes : List Bytes := []            -- the catalog, in the order the code keeps it (no duplicates)
  docs : List (Bytes × Doc) := []       -- sorted by id, one entry per id
deriving Inhabited

abbrev State := List (Bytes × Coll)     -- sorted by name, one entry per name

def lookup {α} (k : Bytes) : List (Bytes × α) → Option α
  | [] => none
  | (k', v) :: t => if k = k' then some v else lookup k t

def insert {α} (k : Bytes) (v : α) : List (Bytes × α) → List (Bytes × α)
  | [] => [(k, v)]
  | (k', v') :: t =>
    if OC.lexLt k k' then (k, v) :: (k', v') :: t
    else if k = k' then (k, v) :: t
    else (k', v') :: insert k v t

def erase {α} (k : Bytes) : List (Bytes × α) → List (Bytes × α)
  | [] => []
  | (k', v') :: t => if k = k' then t else (k', v') :: erase k t

variable (likeFn : LikeFn) (fnFam : FnFam)

/-- skip/limit window: a negative limit means unlimited -/
def window (skip : Nat) (limit : Int) (l : List Doc) : List Doc :=
  if limit < 0 then l.drop skip else (l.drop skip).take limit.toNat

/-- the meaning of a query on a collection -/
def findAll (q : Query) (c : Coll) : List Doc :=
  let matching := (c.docs.map (·.2)).filter (fun d => satOpt likeFn fnFam d q.crit)
  let ordered := if q.sort.isEmpty then matching else sortDocs q.sort matching
  window q.skip q.limit ordered

/-- sequential insertion with duplicate and validity checks -/
def insertAll (docs : List (Bytes × Doc)) : List Doc → Res (List (Bytes × Doc))
  | [] => .ok docs
  | d :: ds =>
    if (lookup d.objectId docs).isSome then .err .dupKey
    else if !validDoc d then .err .invalidId
    else insertAll (insert d.objectId d docs) ds

/-- apply an updater to the selected documents, in order -/
def applyAll (u : Upd) (docs : List (Bytes × Doc)) : List Doc → Res (List (Bytes × Doc))
  | [] => .ok docs
  | d :: ds =>
    match u.apply d with
    | none => applyAll u (erase d.objectId docs) ds
    | some d' =>
      if d'.objectId ≠ d.objectId then .err .idChanged
      else if !validDoc d' then .err .invalidId
      else applyAll u (insert d.objectId d' docs) ds

def withColl (s : State) (c : Bytes) (f : Coll → Res Out × State) : Res Out × State :=
  match lookup c s with
  | none => (.err .collNotExist, s)
  | some coll => f coll

def createWith (s : State) (c : Bytes) (docs : List Doc) : Res Out × State :=
  if (lookup c s).isSome then (.err .collExist, s)
  else match insertAll [] docs with
    | .err e => (.err e, s)
    | .ok ds => (.ok .unit, insert c { docs := ds } s)

def step (s : State) : Op → Res Out × State
  | .createCollection c => createWith s c []
  | .dropCollection c => withColl s c fun _ => (.ok .unit, erase c s)
  | .hasCollection c => (.ok (.bool (lookup c s).isSome), s)
  | .listCollections => (.ok (.names (s.map (·.1))), s)
  | .insert c docs fresh => withColl s c fun coll =>
    match insertAll coll.docs (assignIds docs fresh) with
    | .err e => (.err e, s)
    | .ok ds => (.ok .unit, insert c { coll with docs := ds } s)
  | .save c d fresh =>
    let needs := !d.has idField || (match d.get idField with | .str [] => true | _ => false)
    if needs then step s (.insert c [d] fresh) else step s (.replaceById c d.objectId d)
  | .findAll q => withColl s q.coll fun coll => (.ok (.docs (findAll likeFn fnFam q coll)), s)
  | .forEach q k => withColl s q.coll fun coll =>
    let all := findAll likeFn fnFam q coll
    (.ok (.docs (match k with | some n => all.take (max n 1) | none => all)), s)
  | .findFirst q => withColl s q.coll fun coll =>
    (.ok (.docOpt (findAll likeFn fnFam { q with limit := 1 } coll).head?), s)
  | .exists_ q => withColl s q.coll fun coll =>
    (.ok (.bool (findAll likeFn fnFam { q with limit := 1 } coll).head?.isSome), s)
  | .count q => withColl s q.coll fun coll => (.ok (.int (findAll likeFn fnFam q coll).length), s)
  | .findById c id => withColl s c fun coll => (.ok (.docOpt (lookup id coll.docs)), s)
  | .deleteById c id => withColl s c fun coll =>
    (.ok .unit, insert c { coll with docs := erase id coll.docs } s)
  | .updateById c id u => withColl s c fun coll =>
    match lookup id coll.docs with
    | none => (.err .docNotExist, s)
    | some d =>
      match u.apply d with
      | none => (.err .nilDoc, s)
      | some d' =>
        if d'.objectId ≠ id then (.err .idChanged, s)
        else if !validDoc d' then (.err .invalidId, s)
        else (.ok .unit, insert c { coll with docs := insert id d' coll.docs } s)
  | .replaceById c id d =>
    if d.objectId ≠ id then (.err .idMismatch, s) else step s (.updateById c id (.const d))
  | .update q u => withColl s q.coll fun coll =>
    let sel := findAll likeFn fnFam q coll
    match applyAll u coll.docs sel with
    | .err e => (.err e, s)
    | .ok ds => (.ok (.docs sel), insert q.coll { coll with docs := ds } s)
  | .delete q => step s (.update q .retNil)
  | .createIndex c f => withColl s c fun coll =>
    if coll.indexes.contains f then (.err .indexExist, s)
    else (.ok .unit, insert c { coll with indexes := coll.indexes ++ [f] } s)
  | .dropIndex c f => withColl s c fun coll =>
    if !coll.indexes.contains f then (.err .indexNotExist, s)
    else (.ok .unit, insert c { coll with indexes := dropSwap f coll.indexes } s)
  | .hasIndex c f => withColl s c fun coll => (.ok (.bool (coll.indexes.contains f)), s)
  | .listIndexes c => withColl s c fun coll => (.ok (.names coll.indexes), s)
  | .createCollectionByQuery c q fresh =>
    if (lookup c s).isSome then (.err .collExist, s)
    else match lookup q.coll (insert c ({} : Coll) s) with   -- the target exists (empty) when the query runs
      | none => (.err .collNotExist, s)
      | some src => createWith s c (assignIds (findAll likeFn fnFam q src) fresh)
  | .importDocs c docs fresh =>
    match docs with
    | none => (.err .badInput, s)
    | some ds => createWith s c (assignIds ds fresh)
  | .exportDocs c => withColl s c fun coll =>
    (.ok (.docs ((findAll likeFn fnFam { coll := c } coll).map jsonTypeDoc)), s)
termination_by op => match op with
  | .save _ _ _ => 2 | .replaceById _ _ _ => 1 | .delete _ => 1 | _ => 0
decreasing_by all_goals simp_wf <;> omega

end CV.Spec
