import Clover.Spec.Spec
/-! # How an abstract state is stored: the representation function behind `Inv` (C06) -/
namespace CV.Spec

/-- the keys of one collection: metadata, one record per document, one entry per document per index -/
def renderColl (c : Bytes) (coll : Coll) (kv : KVS) : KVS :=
  let kv := kvSet kv (Keys.metaKey c) (.cmeta ⟨coll.docs.length, coll.indexes⟩)
  let kv := coll.docs.foldl (fun kv (id, d) => kvSet kv (Keys.docKey c id) (.doc d)) kv
  coll.indexes.foldl (fun kv f =>
    coll.docs.foldl (fun kv (id, d) => kvSet kv (idxKey c f (d.get f) id) .unit) kv) kv

def render (s : State) : KVS := s.foldl (fun kv (c, coll) => renderColl c coll kv) []

end CV.Spec
