import Clover.Proofs.InvStep
/-! # C05 — crash, close and reopen: acknowledged operations survive, the in-flight one is atomic

`withTx` (Model/Store.lean) runs the body of a public call on a working copy of the store and
replaces the committed store by that copy only at a successful commit, the last store call of the
transaction.  This file makes the behaviour under a process crash explicit.

**Crash semantics (the trusted base, NOT proved here).**  The process can be killed between any two
store calls (ticks) of a public call.  What is assumed about the underlying store (bbolt, badger)
is the atomic durable commit: a transaction whose `Commit` call has returned successfully is
entirely on the medium; a transaction whose `Commit` call has not been executed — or was refused —
has left nothing on it, whatever `Set`/`Delete` calls it had already made on its working copy, and
the store reopens on the last committed content without help from clover.  Whether `fsync` reaches
the medium under power loss, and the internal recovery of bbolt/badger, are outside the model.
Under that assumption the durable store of a call killed after `k` store calls is given by
`withTxUpTo k` below: the pre-state, unless the commit was among the `k` calls made and succeeded.

Proved from it: `crash_atomic` (the durable store at any point of a call is the pre-state or the
post-state of that call, nothing in between, and it is the post-state once the call has made all
its store calls), `acknowledged_survive` (in a history, a crash during call `j+1` leaves the result
of the first `j` calls or of the first `j+1`), `recovered_inv` (every crash outcome satisfies the
representation invariant: indexes, counters and catalog need no rebuild), `reopen_id` (close and
reopen change nothing). -/
namespace CV
open StoreM

/-! ## one transaction, stopped after `k` store calls -/

/-- The committed (durable) store when the process executing `withTx write body φ σ` is killed
    after it has made `k` store calls (`begin` is call number 0, the calls of the body follow, the
    commit — when the body completes in a write transaction that reaches `Commit` — is call number
    `c.tick`).  It mirrors `withTx` line by line: the committed store is the pre-state `σ` in every
    case except one, a commit that was executed (`c.tick < k`) and accepted (`φ c.tick = false`),
    after which it is the working copy `c.work`.  This is the specification of the crash
    semantics; the atomic durable commit of the underlying store is its assumption. -/
def withTxUpTo {α} (k : Nat) (write : Bool) (body : StoreM α) (φ : Faults) (σ : KVS) : KVS :=
  if φ 0 then σ                         -- `Begin` failed: nothing was opened
  else
    match body φ ⟨σ, 1, false, [.begin write], false⟩ with
    | (.err _, _) => σ                  -- the body failed: deferred `Rollback`
    | (.ok _, c) =>
      if write && !c.skipCommit then
        if φ c.tick then σ              -- `Commit` refused
        else if c.tick < k then c.work  -- `Commit` is among the first `k` calls and succeeded
        else σ                          -- killed before the `Commit` call
      else σ                            -- read transaction / returned without `Commit`

/-- the number of store calls (ticks of the fault schedule) the transaction makes when it is not
    interrupted: `begin`, the calls of the body, and the commit if it is reached -/
def txTicks {α} (write : Bool) (body : StoreM α) (φ : Faults) (σ : KVS) : Nat :=
  if φ 0 then 1
  else
    match body φ ⟨σ, 1, false, [.begin write], false⟩ with
    | (.err _, c) => c.tick
    | (.ok _, c) => if write && !c.skipCommit then c.tick + 1 else c.tick

/-- killed before any store call: the pre-state -/
theorem withTxUpTo_zero {α} (w : Bool) (body : StoreM α) (φ : Faults) (σ : KVS) :
    withTxUpTo 0 w body φ σ = σ := by
  unfold withTxUpTo
  split
  · rfl
  · split
    · rfl
    · split
      · split
        · rfl
        · rfl
      · rfl

/-- **atomicity of one transaction**: at every point of its execution the committed store is the
    pre-state or the final committed store — never a partial write set -/
theorem withTxUpTo_mem {α} (k : Nat) (w : Bool) (body : StoreM α) (φ : Faults) (σ : KVS) :
    withTxUpTo k w body φ σ ∈ [σ, (withTx w body φ σ).2.1] := by
  unfold withTxUpTo withTx
  by_cases h0 : φ 0 = true
  · simp [h0]
  · simp only [h0, Bool.false_eq_true, if_false]
    cases hb : body φ ⟨σ, 1, false, [.begin w], false⟩ with
    | mk r c =>
      cases r with
      | err e => simp
      | ok a =>
        simp only
        by_cases hw : (w && !c.skipCommit) = true
        · simp only [hw, if_true]
          by_cases hc : φ c.tick = true
          · simp [hc]
          · simp only [hc, Bool.false_eq_true, if_false]
            by_cases hk : c.tick < k
            · simp [hk]
            · simp [hk]
        · simp [hw]

/-- once all the store calls of the transaction have been made, the committed store is the one
    `withTx` returns (in particular for every `k` exceeding the number of ticks) -/
theorem withTxUpTo_done {α} (k : Nat) (w : Bool) (body : StoreM α) (φ : Faults) (σ : KVS)
    (hk : txTicks w body φ σ ≤ k) : withTxUpTo k w body φ σ = (withTx w body φ σ).2.1 := by
  unfold txTicks at hk
  unfold withTxUpTo withTx
  by_cases h0 : φ 0 = true
  · simp [h0]
  · simp only [h0, Bool.false_eq_true, if_false] at hk ⊢
    cases hb : body φ ⟨σ, 1, false, [.begin w], false⟩ with
    | mk r c =>
      rw [hb] at hk
      cases r with
      | err e => rfl
      | ok a =>
        simp only at hk ⊢
        by_cases hw : (w && !c.skipCommit) = true
        · simp only [hw, if_true] at hk ⊢
          by_cases hc : φ c.tick = true
          · simp [hc]
          · have hlt : c.tick < k := by omega
            simp [hc, hlt]
        · simp [hw]

/-- publication is monotone: a commit that has taken effect stays in effect at every later point -/
theorem withTxUpTo_mono {α} (k k' : Nat) (w : Bool) (body : StoreM α) (φ : Faults) (σ : KVS) (hkk : k ≤ k')
    (h : withTxUpTo k w body φ σ = (withTx w body φ σ).2.1) :
    withTxUpTo k' w body φ σ = (withTx w body φ σ).2.1 := by
  revert h
  unfold withTxUpTo withTx
  by_cases h0 : φ 0 = true
  · simp [h0]
  · simp only [h0, Bool.false_eq_true, if_false]
    cases hb : body φ ⟨σ, 1, false, [.begin w], false⟩ with
    | mk r c =>
      cases r with
      | err e => simp
      | ok a =>
        simp only
        by_cases hw : (w && !c.skipCommit) = true
        · simp only [hw, if_true]
          by_cases hc : φ c.tick = true
          · simp [hc]
          · simp only [hc, Bool.false_eq_true, if_false]
            by_cases hk : c.tick < k
            · have hk' : c.tick < k' := by omega
              simp [hk, hk']
            · by_cases hk' : c.tick < k'
              · simp [hk, hk']
              · simp [hk, hk']
        · simp [hw]

/-! ## one public call, stopped after `k` store calls -/

variable (likeFn : LikeFn) (fnFam : FnFam)

/-- The durable store when the transaction(s) of the routed operation `o` (`Op.exec`) are stopped
    after `k` store calls.  `ExportCollection` runs two READ transactions, neither of which can
    publish anything (`Props.C04.execExport_state`), so its durable store is the pre-state at every
    point.  Every other routed operation opens ONE transaction, stopped by `withTxUpTo`. -/
def Op.execUpTo (k : Nat) (o : Op) (kv : KVS) (φ : Faults) : KVS :=
  match o with
  | .exportDocs _ => kv
  | o => withTxUpTo k o.isWrite (Op.body likeFn fnFam o) φ kv

/-- the number of store calls of the (single) transaction of a routed operation; `0` for
    `ExportCollection`, whose read transactions publish nothing -/
def Op.execTicks (o : Op) (kv : KVS) (φ : Faults) : Nat :=
  match o with
  | .exportDocs _ => 0
  | o => txTicks o.isWrite (Op.body likeFn fnFam o) φ kv

/-- The durable store when the process is killed during the public call `op.run σ φ`, after `k`
    store calls of that call.  It follows `Op.run`: a call on a closed handle, or one rejected by
    the checks that precede the transaction (`Op.pre`), touches nothing; otherwise the routed
    operation is executed and stopped (`Op.execUpTo`). -/
def durableAfterCrash (k : Nat) (op : Op) (σ : DBState) (φ : Faults) : KVS :=
  if σ.closed then σ.kv else
  match op.pre with
  | some _ => σ.kv
  | none => (op.route).execUpTo likeFn fnFam k σ.kv φ

/-- the number of store calls of a public call (`0` when it opens no transaction) -/
def Op.ticks (op : Op) (σ : DBState) (φ : Faults) : Nat :=
  if σ.closed then 0 else
  match op.pre with
  | some _ => 0
  | none => (op.route).execTicks likeFn fnFam σ.kv φ

/-- the two durable stores a crash during `op.run σ φ` can leave: the crash happened before the
    commit took effect (pre-state) or after it (post-state) -/
def CrashOutcomes (op : Op) (σ : DBState) (φ : Faults) : List KVS :=
  [σ.kv, (op.run likeFn fnFam σ φ).state.kv]

/-- the post-state of a public call, by cases as in `durableAfterCrash` -/
theorem run_state_kv (op : Op) (σ : DBState) (φ : Faults) :
    (op.run likeFn fnFam σ φ).state.kv =
      if σ.closed then σ.kv else
      match op.pre with
      | some _ => σ.kv
      | none => ((op.route).exec likeFn fnFam σ.kv φ).2.1 := by
  unfold Op.run
  by_cases hc : σ.closed = true
  · simp [hc]
  · simp only [hc, Bool.false_eq_true, if_false]
    cases op.pre <;> rfl

/-- the durable store of an interrupted routed operation, against `Op.exec` -/
theorem execUpTo_mem (k : Nat) (o : Op) (kv : KVS) (φ : Faults) :
    o.execUpTo likeFn fnFam k kv φ ∈ [kv, (o.exec likeFn fnFam kv φ).2.1] := by
  cases o
  case exportDocs c => simp [Op.execUpTo]
  all_goals (simp only [Op.execUpTo, Op.exec]; exact withTxUpTo_mem k _ _ φ kv)

theorem execUpTo_done (k : Nat) (o : Op) (kv : KVS) (φ : Faults) (hk : o.execTicks likeFn fnFam kv φ ≤ k) :
    o.execUpTo likeFn fnFam k kv φ = (o.exec likeFn fnFam kv φ).2.1 := by
  cases o
  case exportDocs c => exact (Props.C04.execExport_state likeFn fnFam c kv φ).symm
  all_goals (simp only [Op.execUpTo, Op.execTicks, Op.exec] at hk ⊢; exact withTxUpTo_done k _ _ φ kv hk)

theorem execUpTo_zero (o : Op) (kv : KVS) (φ : Faults) : o.execUpTo likeFn fnFam 0 kv φ = kv := by
  cases o
  case exportDocs c => rfl
  all_goals (simp only [Op.execUpTo]; exact withTxUpTo_zero _ _ φ kv)

/-- **C05, atomicity under crash**: whenever the process is killed during a public call — after
    any number `k` of its store calls, under any fault schedule, on any handle — the durable store
    is the store before the call or the store after the call. -/
theorem crash_atomic (k : Nat) (op : Op) (σ : DBState) (φ : Faults) :
    durableAfterCrash likeFn fnFam k op σ φ ∈ CrashOutcomes likeFn fnFam op σ φ := by
  unfold durableAfterCrash CrashOutcomes
  rw [run_state_kv]
  by_cases hc : σ.closed = true
  · simp [hc]
  · simp only [hc, Bool.false_eq_true, if_false]
    cases op.pre with
    | some e => simp
    | none => exact execUpTo_mem likeFn fnFam k op.route σ.kv φ

/-- … and it is the store after the call as soon as the call has made all its store calls: a call
    that was allowed to finish (that is, to be acknowledged) is durable. -/
theorem crash_after_return (k : Nat) (op : Op) (σ : DBState) (φ : Faults)
    (hk : op.ticks likeFn fnFam σ φ ≤ k) :
    durableAfterCrash likeFn fnFam k op σ φ = (op.run likeFn fnFam σ φ).state.kv := by
  unfold Op.ticks at hk
  unfold durableAfterCrash
  rw [run_state_kv]
  by_cases hc : σ.closed = true
  · simp [hc]
  · simp only [hc, Bool.false_eq_true, if_false] at hk ⊢
    cases hp : op.pre with
    | some e => rfl
    | none =>
      rw [hp] at hk
      exact execUpTo_done likeFn fnFam k op.route σ.kv φ hk

/-- killed before the first store call of the call: the pre-state -/
theorem crash_before_begin (op : Op) (σ : DBState) (φ : Faults) :
    durableAfterCrash likeFn fnFam 0 op σ φ = σ.kv := by
  unfold durableAfterCrash
  by_cases hc : σ.closed = true
  · simp [hc]
  · simp only [hc, Bool.false_eq_true, if_false]
    cases op.pre with
    | some e => rfl
    | none => exact execUpTo_zero likeFn fnFam op.route σ.kv φ

/-! ## histories -/

theorem runHistory_nil (σ : DBState) : runHistory likeFn fnFam [] σ = σ := rfl

theorem runHistory_cons (p : Op × Faults) (t : List (Op × Faults)) (σ : DBState) :
    runHistory likeFn fnFam (p :: t) σ = runHistory likeFn fnFam t (p.1.run likeFn fnFam σ p.2).state := rfl

/-- the first `j+1` calls are the first `j` calls followed by call number `j` -/
theorem runHistory_take_succ (h : List (Op × Faults)) (j : Nat) (p : Op × Faults) (hp : h[j]? = some p)
    (σ : DBState) :
    runHistory likeFn fnFam (h.take (j + 1)) σ =
      (p.1.run likeFn fnFam (runHistory likeFn fnFam (h.take j) σ) p.2).state := by
  induction h generalizing j σ with
  | nil => simp at hp
  | cons q t ih =>
    cases j with
    | zero =>
      simp only [List.getElem?_cons_zero, Option.some.injEq] at hp
      subst hp
      simp only [List.take_succ_cons, List.take_zero, runHistory_cons, runHistory_nil]
    | succ j =>
      simp only [List.getElem?_cons_succ] at hp
      simp only [List.take_succ_cons, runHistory_cons]
      exact ih j hp _

/-- The durable store when, in the history `h` run from the empty database, the process is killed
    during call number `j` (the `(j+1)`-th call, 0-based `j`), after `k` store calls of that call.
    The first `j` calls have returned (they are the acknowledged ones).  If the history has no call
    number `j` the process was idle: the durable store is the result of the whole history. -/
def crashHistory (h : List (Op × Faults)) (j k : Nat) : KVS :=
  match h[j]? with
  | some p => durableAfterCrash likeFn fnFam k p.1 (runHistory likeFn fnFam (h.take j) {}) p.2
  | none => (runHistory likeFn fnFam h {}).kv

/-- **C05, acknowledged operations survive a crash**: if the process crashes during the `(j+1)`-th
    call of a history (at any point `k` of it), the durable store is exactly the result of the first
    `j` calls or exactly the result of the first `j+1` calls.  So the effect of every acknowledged
    call (the first `j`) is contained in it, and the in-flight call is all-or-nothing. -/
theorem acknowledged_survive (h : List (Op × Faults)) (j k : Nat) (hj : j < h.length) :
    crashHistory likeFn fnFam h j k = (runHistory likeFn fnFam (h.take j) {}).kv ∨
    crashHistory likeFn fnFam h j k = (runHistory likeFn fnFam (h.take (j + 1)) {}).kv := by
  have hp : h[j]? = some h[j] := List.getElem?_eq_getElem hj
  unfold crashHistory
  rw [hp]
  simp only
  rw [runHistory_take_succ likeFn fnFam h j h[j] hp]
  have := crash_atomic likeFn fnFam k h[j].1 (runHistory likeFn fnFam (h.take j) {}) h[j].2
  unfold CrashOutcomes at this
  simpa using this

/-- … and once the in-flight call has made all its store calls its effect is durable too -/
theorem returned_survive (h : List (Op × Faults)) (j k : Nat) (hj : j < h.length)
    (hk : (h[j]).1.ticks likeFn fnFam (runHistory likeFn fnFam (h.take j) {}) (h[j]).2 ≤ k) :
    crashHistory likeFn fnFam h j k = (runHistory likeFn fnFam (h.take (j + 1)) {}).kv := by
  have hp : h[j]? = some h[j] := List.getElem?_eq_getElem hj
  unfold crashHistory
  rw [hp]
  simp only
  rw [runHistory_take_succ likeFn fnFam h j h[j] hp]
  exact crash_after_return likeFn fnFam k _ _ _ hk

/-- **C05/C06, no rebuild after a crash**: every crash outcome of every history of operations in
    the supported domain — whichever call is interrupted, wherever, under whatever fault schedules —
    satisfies the representation invariant: documents, index entries, size counters and catalog are
    mutually consistent in the store the process finds when it restarts. -/
theorem recovered_inv (h : List (Op × Faults)) (hok : ∀ p ∈ h, OpOK p.1) (j k : Nat) :
    Inv (crashHistory likeFn fnFam h j k) := by
  by_cases hj : j < h.length
  · have htake : ∀ n, ∀ p ∈ h.take n, OpOK p.1 := fun n p hp => hok p (List.mem_of_mem_take hp)
    rcases acknowledged_survive likeFn fnFam h j k hj with e | e
    · rw [e]; exact inv_from_empty likeFn fnFam _ (htake j)
    · rw [e]; exact inv_from_empty likeFn fnFam _ (htake (j + 1))
  · have hn : h[j]? = none := List.getElem?_eq_none (by omega)
    unfold crashHistory
    rw [hn]
    exact inv_from_empty likeFn fnFam h hok

/-! ## close and reopen -/

/-- `DB.Close()`: the handle refuses further calls; the store is untouched -/
def DBState.close (σ : DBState) : DBState := { σ with closed := true }

/-- `Open()` on the same store: a fresh handle on the committed content -/
def DBState.reopen (σ : DBState) : DBState := { kv := σ.kv, closed := false }

/-- closing and reopening does not change the store -/
theorem reopen_kv (σ : DBState) : σ.close.reopen.kv = σ.kv := rfl

/-- a closed handle answers `closed` to every call and changes nothing -/
theorem closed_refuses (op : Op) (σ : DBState) (φ : Faults) :
    (op.run likeFn fnFam σ.close φ).out = .err .closed ∧ (op.run likeFn fnFam σ.close φ).state = σ.close := by
  unfold Op.run
  simp [DBState.close]

/-- **C05, close and reopen**: every operation, under every fault schedule, does on the reopened
    handle exactly what it does on the original open handle — same answer, same resulting store,
    same store calls. -/
theorem reopen_id (op : Op) (σ : DBState) (φ : Faults) (hopen : σ.closed = false) :
    op.run likeFn fnFam σ.close.reopen φ = op.run likeFn fnFam σ φ := by
  have : σ.close.reopen = σ := by
    cases σ with
    | mk kv closed =>
      simp only at hopen
      subst hopen
      rfl
  rw [this]

/-- whatever the state of the old handle (open, closed, or lost in a crash), the reopened handle
    answers as an open handle on the same committed store -/
theorem reopen_answers (op : Op) (σ : DBState) (φ : Faults) :
    op.run likeFn fnFam σ.reopen φ = op.run likeFn fnFam { kv := σ.kv, closed := false } φ := rfl

/-- close and reopen between two calls of a history changes nothing: the rest of the history runs
    to the same store -/
theorem reopen_history (h : List (Op × Faults)) (σ : DBState) (hopen : σ.closed = false) :
    runHistory likeFn fnFam h σ.close.reopen = runHistory likeFn fnFam h σ := by
  have : σ.close.reopen = σ := by
    cases σ with
    | mk kv closed =>
      simp only at hopen
      subst hopen
      rfl
  rw [this]

end CV
