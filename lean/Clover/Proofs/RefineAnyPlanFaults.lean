import Clover.Proofs.RefineFaults
import Clover.Proofs.RefineAnyPlan
/-! # The any-plan STATE refinement under arbitrary fault schedules

`RefineAnyPlan.lean` proves, for fault-free calls, that the STATE of the store follows the
specification whatever plan serves the queries (`refine_state_step`, `refine_states_any_plan`).
`RefineFaults.lean` lifts the full-scan refinement to histories in which every call runs under its
own fault schedule.  This file is the combination: in-domain calls (`Op.InDomain`), ANY plan, ANY
fault schedule.  A call during which a fault fired returns an error and changes nothing, so the
specification does not step on it (`lockstep`); a call during which none fired is the fault-free call
(`run_unfired`) and `refine_state_step` applies.

`CallAgrees` (RefineFaults.lean) demands equality of answers on unfaulted calls, which does not hold
for index-served reads; the per-call record used here is the weaker `CallAgreesState`: a faulted call
returned an error, an unfaulted call fails exactly when the specification's call fails. -/
namespace CV
open OC Keys StoreM

variable (likeFn : LikeFn) (fnFam : FnFam)

/-! ## 1. one call -/

/-- **One public call under an arbitrary fault schedule, whatever plan serves it**: if a fault fired
    the call returns an error and the handle state (store and open flag) is untouched -- the
    specification does not take the step and `s` is still represented; if none fired the store left
    represents the specification's next state, the handle stays open, the call fails exactly when the
    specification's call fails, and when the call is moreover determined it answers what the
    specification answers. -/
theorem refine_state_step_faults (op : Op) (hop : OpOK op) (s : Spec.State) (σ : DBState)
    (hcl : σ.closed = false) (hw : WF s) (hr : Rep s σ.kv) (hdom : Op.InDomain s op) (φ : Faults) :
    let r := op.run likeFn fnFam σ φ
    let sp := Spec.step likeFn fnFam s op
    (r.fired = true → r.out.isErr = true ∧ r.state = σ) ∧
    (r.fired = false → r.out.isErr = sp.1.isErr ∧ Rep sp.2 r.state.kv ∧ WF sp.2 ∧
      r.state.closed = false ∧ (Op.Determined s op → r.out = sp.1)) := by
  intro r sp
  refine ⟨fun h => Props.C04.fault_reported likeFn fnFam op σ φ h, fun h => ?_⟩
  have e : r = op.run likeFn fnFam σ noFault := run_unfired likeFn fnFam op σ φ h
  rw [e]
  obtain ⟨⟨h2, h3, h4, h5⟩, h6⟩ := refine_state_step likeFn fnFam op hop s σ hcl hw hr hdom
  exact ⟨h5, h2, h3, h4, h6⟩

/-- the same in the "either … or" form: either the call failed with the store unchanged (and `s` is
    still represented), or no fault fired and the fault-free conclusion of `refine_state_step` holds;
    in both cases the handle stays open -/
theorem refine_state_step_faults_cases (op : Op) (hop : OpOK op) (s : Spec.State) (σ : DBState)
    (hcl : σ.closed = false) (hw : WF s) (hr : Rep s σ.kv) (hdom : Op.InDomain s op) (φ : Faults) :
    let r := op.run likeFn fnFam σ φ
    let sp := Spec.step likeFn fnFam s op
    ((r.fired = true ∧ r.out.isErr = true ∧ r.state.kv = σ.kv ∧ Rep s r.state.kv) ∨
     (r.fired = false ∧ Rep sp.2 r.state.kv ∧ WF sp.2 ∧ r.out.isErr = sp.1.isErr)) ∧
    r.state.closed = false := by
  intro r sp
  have h := refine_state_step_faults likeFn fnFam op hop s σ hcl hw hr hdom φ
  cases hf : r.fired with
  | true =>
    obtain ⟨h1, h2⟩ := h.1 hf
    have h2' : r.state = σ := h2
    exact ⟨Or.inl ⟨rfl, h1, by rw [h2'], by rw [h2']; exact hr⟩, by rw [h2']; exact hcl⟩
  | false =>
    obtain ⟨h1, h2, h3, h4, _⟩ := h.2 hf
    exact ⟨Or.inr ⟨rfl, h2, h3, h1⟩, h4⟩

/-! ## 2. histories -/

/-- every UNFAULTED call of the history is in the any-plan domain in the specification state reached
    before it (the specification having stepped on the earlier unfaulted calls only) -/
def AllInDomainF (h : List (Op × Faults)) (σ : DBState) (s : Spec.State) : Prop :=
  AllInDomain likeFn fnFam (survivors likeFn fnFam h σ) s

/-- the full-scan domain of `refine_history_faults` is included -/
theorem allDeterminedF_allInDomainF (h : List (Op × Faults)) (σ : DBState) (s : Spec.State)
    (hd : AllDeterminedF likeFn fnFam h σ s) : AllInDomainF likeFn fnFam h σ s :=
  allDetermined_allInDomain likeFn fnFam _ s hd

/-- what one entry of `lockstep` must satisfy as far as STATES are concerned: a faulted call (no
    specification answer) returned an error, an unfaulted call fails exactly when the specification's
    call fails (the answers themselves may differ in order for index-served reads) -/
def CallAgreesState : Res Out × Option (Res Out) → Prop
  | (out, none) => out.isErr = true
  | (out, some specOut) => out.isErr = specOut.isErr

/-- `CallAgrees` is the stronger record -/
theorem callAgrees_state (x : Res Out × Option (Res Out)) (h : CallAgrees x) : CallAgreesState x := by
  obtain ⟨out, o⟩ := x
  cases o with
  | none => exact h
  | some sp =>
    have h' : out = sp := h
    show out.isErr = sp.isErr
    rw [h']

/-- **Refinement of states along histories under arbitrary fault schedules, for any plan**: along any
    finite history of in-domain calls, each with an arbitrary fault schedule, every faulted call
    returns an error and the specification does not step on it; every unfaulted call fails exactly
    when the specification's call fails; and the final store represents the final specification
    state. -/
theorem refine_states_any_plan_faults : (h : List (Op × Faults)) → (∀ x ∈ h, OpOK x.1) →
    (s : Spec.State) → (σ : DBState) → σ.closed = false → WF s → Rep s σ.kv →
    AllInDomainF likeFn fnFam h σ s →
    (∀ x ∈ (lockstep likeFn fnFam h σ s).1, CallAgreesState x) ∧
      Rep (lockstep likeFn fnFam h σ s).2.2 (lockstep likeFn fnFam h σ s).2.1.kv ∧
      WF (lockstep likeFn fnFam h σ s).2.2 ∧ (lockstep likeFn fnFam h σ s).2.1.closed = false
  | [], _, s, σ, hcl, hw, hr, _ => ⟨fun _ hx => by simp [lockstep] at hx, hr, hw, hcl⟩
  | (op, φ) :: rest, hok, s, σ, hcl, hw, hr, hdom => by
    have hok' : ∀ x ∈ rest, OpOK x.1 := fun x hx => hok x (List.mem_cons_of_mem _ hx)
    by_cases hf : (op.run likeFn fnFam σ φ).fired = true
    · obtain ⟨herr, hst⟩ := Props.C04.fault_reported likeFn fnFam op σ φ hf
      have hdom' : AllInDomainF likeFn fnFam rest (op.run likeFn fnFam σ φ).state s := by
        simpa only [AllInDomainF, survivors, hf, if_true] using hdom
      obtain ⟨i1, i2, i3, i4⟩ := refine_states_any_plan_faults rest hok' s (op.run likeFn fnFam σ φ).state
        (by rw [hst]; exact hcl) hw (by rw [hst]; exact hr) hdom'
      simp only [lockstep, hf, if_true]
      refine ⟨?_, i2, i3, i4⟩
      intro x hx
      rcases List.mem_cons.1 hx with rfl | hx
      · exact herr
      · exact i1 x hx
    · have hf' : (op.run likeFn fnFam σ φ).fired = false := by simpa using hf
      have hdom' : Op.InDomain s op ∧ AllInDomainF likeFn fnFam rest (op.run likeFn fnFam σ φ).state
          (Spec.step likeFn fnFam s op).2 := by
        simpa only [AllInDomainF, survivors, hf', Bool.false_eq_true, if_false, AllInDomain] using hdom
      obtain ⟨h1, h2, h3, h4, _⟩ :=
        (refine_state_step_faults likeFn fnFam op (hok (op, φ) (by simp)) s σ hcl hw hr hdom'.1 φ).2 hf'
      obtain ⟨i1, i2, i3, i4⟩ := refine_states_any_plan_faults rest hok' (Spec.step likeFn fnFam s op).2
        (op.run likeFn fnFam σ φ).state h4 h3 h2 hdom'.2
      simp only [lockstep, hf', Bool.false_eq_true, if_false]
      refine ⟨?_, i2, i3, i4⟩
      intro x hx
      rcases List.mem_cons.1 hx with rfl | hx
      · exact h1
      · exact i1 x hx

/-- … read through `lockstep_model` / `lockstep_spec`: the final store of the model run under the
    fault schedules represents the state the specification reaches on the unfaulted calls alone -/
theorem refine_states_any_plan_faults_survivors (h : List (Op × Faults)) (hok : ∀ x ∈ h, OpOK x.1)
    (s : Spec.State) (σ : DBState) (hcl : σ.closed = false) (hw : WF s) (hr : Rep s σ.kv)
    (hdom : AllInDomainF likeFn fnFam h σ s) :
    Rep (specRun likeFn fnFam (survivors likeFn fnFam h σ) s).2 (modelRunF likeFn fnFam h σ).2.kv ∧
      WF (specRun likeFn fnFam (survivors likeFn fnFam h σ) s).2 ∧
      (modelRunF likeFn fnFam h σ).2.closed = false := by
  obtain ⟨_, h2, h3, h4⟩ := refine_states_any_plan_faults likeFn fnFam h hok s σ hcl hw hr hdom
  rw [lockstep_model, lockstep_spec] at h2
  rw [lockstep_spec] at h3
  rw [lockstep_model] at h4
  exact ⟨h2, h3, h4⟩

/-- … in particular from the empty database -/
theorem refine_states_any_plan_from_empty_faults (h : List (Op × Faults)) (hok : ∀ x ∈ h, OpOK x.1)
    (hdom : AllInDomainF likeFn fnFam h {} []) :
    (∀ x ∈ (lockstep likeFn fnFam h {} []).1, CallAgreesState x) ∧
      Rep (lockstep likeFn fnFam h {} []).2.2 (lockstep likeFn fnFam h {} []).2.1.kv ∧
      WF (lockstep likeFn fnFam h {} []).2.2 := by
  obtain ⟨h1, h2, h3, _⟩ :=
    refine_states_any_plan_faults likeFn fnFam h hok [] {} rfl wf_empty rep_empty hdom
  exact ⟨h1, h2, h3⟩

end CV
