import Clover.Proofs.SortOrder
/-! # Sorted and windowed answers of any plan agree with the specification up to ties

1. two sorted arrangements of the same multiset agree position by position up to ties of the
   comparison (any total preorder `SPre`);
2. `List.Forall₂` is kept by `drop`, `take` and the skip/limit window;
3. the fault-free answer of `FindAll` under ANY plan, with any sort, skip and limit, is position by
   position tie-equivalent (`compareDocuments · · q.sort = 0`) to the specification's answer;
4. the same for the head (`FindFirst`). -/
namespace CV
open OC Keys StoreM

variable (likeFn : LikeFn) (fnFam : FnFam)

/-- position-by-position relatedness of two lists (core Lean has no `List.Forall₂`; this is the
    usual definition, living in `CV.List`) -/
inductive List.Forall₂ {α β : Type} (R : α → β → Prop) : List α → List β → Prop
  | nil : List.Forall₂ R [] []
  | cons {a : α} {b : β} {l₁ : List α} {l₂ : List β} :
      R a b → List.Forall₂ R l₁ l₂ → List.Forall₂ R (a :: l₁) (b :: l₂)

/-! ## 1. sorted arrangements of one multiset -/

/-- counting form: two sorted lists with the same number of elements below-or-tied-with every bound
    agree position by position up to ties -/
theorem forall₂_tie_of_counts {α : Type} (S : α → Prop) (cmp : α → α → Int) (hS : SPre S cmp) :
    (l₁ l₂ : List α) → (∀ x ∈ l₁, S x) → (∀ x ∈ l₂, S x) →
    l₁.Pairwise (fun a b => cmp a b ≤ 0) → l₂.Pairwise (fun a b => cmp a b ≤ 0) →
    l₁.length = l₂.length →
    (∀ y, S y → l₁.countP (fun x => decide (cmp x y ≤ 0)) = l₂.countP (fun x => decide (cmp x y ≤ 0))) →
    List.Forall₂ (fun a b => cmp a b = 0) l₁ l₂
  | [], [], _, _, _, _, _, _ => List.Forall₂.nil
  | [], _ :: _, _, _, _, _, hlen, _ => by simp at hlen
  | _ :: _, [], _, _, _, _, hlen, _ => by simp at hlen
  | a :: t₁, b :: t₂, h₁, h₂, p₁, p₂, hlen, hc => by
    obtain ⟨anti, trans⟩ := hS
    have sa : S a := h₁ a (by simp)
    have sb : S b := h₂ b (by simp)
    have p₁' := List.pairwise_cons.1 p₁
    have p₂' := List.pairwise_cons.1 p₂
    have raa : cmp a a = 0 := by have := anti a a sa sa; omega
    have rbb : cmp b b = 0 := by have := anti b b sb sb; omega
    -- the head of a sorted list is below every element of the list
    have mina : ∀ x ∈ a :: t₁, cmp a x ≤ 0 := by
      intro x hx
      rcases List.mem_cons.1 hx with e | e
      · rw [e]; omega
      · exact p₁'.1 x e
    have minb : ∀ x ∈ b :: t₂, cmp b x ≤ 0 := by
      intro x hx
      rcases List.mem_cons.1 hx with e | e
      · rw [e]; omega
      · exact p₂'.1 x e
    -- b ≤ a : some element of l₂ is ≤ a
    have hba : cmp b a ≤ 0 := by
      have hpos : 0 < (a :: t₁).countP (fun x => decide (cmp x a ≤ 0)) :=
        List.countP_pos_iff.2 ⟨a, by simp, by simp [raa]⟩
      rw [hc a sa] at hpos
      obtain ⟨x, hx, hxa⟩ := List.countP_pos_iff.1 hpos
      have hxa' : cmp x a ≤ 0 := by simpa using hxa
      exact trans b x a sb (h₂ x hx) sa (minb x hx) hxa'
    have hab : cmp a b ≤ 0 := by
      have hpos : 0 < (b :: t₂).countP (fun x => decide (cmp x b ≤ 0)) :=
        List.countP_pos_iff.2 ⟨b, by simp, by simp [rbb]⟩
      rw [← hc b sb] at hpos
      obtain ⟨x, hx, hxb⟩ := List.countP_pos_iff.1 hpos
      have hxb' : cmp x b ≤ 0 := by simpa using hxb
      exact trans a x b sa (h₁ x hx) sb (mina x hx) hxb'
    have htie : cmp a b = 0 := by have := anti a b sa sb; omega
    refine List.Forall₂.cons htie ?_
    apply forall₂_tie_of_counts S cmp ⟨anti, trans⟩ t₁ t₂
      (fun x hx => h₁ x (List.mem_cons_of_mem _ hx)) (fun x hx => h₂ x (List.mem_cons_of_mem _ hx))
      p₁'.2 p₂'.2 (by simpa using hlen)
    intro y sy
    have h := hc y sy
    rw [List.countP_cons, List.countP_cons] at h
    have hiff : (cmp a y ≤ 0) ↔ (cmp b y ≤ 0) :=
      ⟨fun h' => trans b a y sb sa sy hba h', fun h' => trans a b y sa sb sy hab h'⟩
    by_cases hy : cmp a y ≤ 0
    · have hy' := hiff.1 hy
      simp only [hy, hy', decide_true, if_true] at h
      omega
    · have hy' : ¬ cmp b y ≤ 0 := fun h' => hy (hiff.2 h')
      simp only [hy, hy', decide_false, Bool.false_eq_true, if_false] at h
      omega

/-- **Two sorted arrangements of the same multiset agree position by position up to ties.** -/
theorem sorted_perm_forall₂_tie {α : Type} (S : α → Prop) (cmp : α → α → Int) (hS : SPre S cmp)
    (l₁ l₂ : List α) (hp : l₁.Perm l₂) (h₁ : ∀ x ∈ l₁, S x)
    (p₁ : l₁.Pairwise (fun a b => cmp a b ≤ 0)) (p₂ : l₂.Pairwise (fun a b => cmp a b ≤ 0)) :
    List.Forall₂ (fun a b => cmp a b = 0) l₁ l₂ :=
  forall₂_tie_of_counts S cmp hS l₁ l₂ h₁ (fun x hx => h₁ x (hp.mem_iff.2 hx)) p₁ p₂ hp.length_eq
    (fun _ _ => hp.countP_eq _)

/-! ## 2. `Forall₂` under `drop`, `take` and the window -/

theorem forall₂_length {α β : Type} (R : α → β → Prop) : {l₁ : List α} → {l₂ : List β} →
    List.Forall₂ R l₁ l₂ → l₁.length = l₂.length
  | _, _, .nil => rfl
  | _, _, .cons _ h => by simp [forall₂_length R h]

/-- index form: equal lengths and related at every position -/
theorem forall₂_getElem {α β : Type} (R : α → β → Prop) : {l₁ : List α} → {l₂ : List β} →
    List.Forall₂ R l₁ l₂ → ∀ i (h₁ : i < l₁.length) (h₂ : i < l₂.length), R l₁[i] l₂[i]
  | _, _, .nil, _, h₁, _ => by simp at h₁
  | _, _, .cons hr _, 0, _, _ => by simpa using hr
  | _, _, .cons _ h, i + 1, h₁, h₂ => by
    simpa using forall₂_getElem R h i (by simpa using h₁) (by simpa using h₂)

theorem forall₂_drop {α β : Type} (R : α → β → Prop) : (n : Nat) → {l₁ : List α} → {l₂ : List β} →
    List.Forall₂ R l₁ l₂ → List.Forall₂ R (l₁.drop n) (l₂.drop n)
  | 0, _, _, h => by simpa using h
  | _ + 1, _, _, .nil => by simpa using List.Forall₂.nil
  | n + 1, _, _, .cons _ h => by simpa using forall₂_drop R n h

theorem forall₂_take {α β : Type} (R : α → β → Prop) : (n : Nat) → {l₁ : List α} → {l₂ : List β} →
    List.Forall₂ R l₁ l₂ → List.Forall₂ R (l₁.take n) (l₂.take n)
  | 0, _, _, _ => by simpa using List.Forall₂.nil
  | _ + 1, _, _, .nil => by simpa using List.Forall₂.nil
  | n + 1, _, _, .cons hr h => by simpa using List.Forall₂.cons hr (forall₂_take R n h)

/-- the same skip/limit window on both sides keeps a position-wise relation -/
theorem forall₂_window (R : Doc → Doc → Prop) (skip : Nat) (limit : Int) {l₁ l₂ : List Doc}
    (h : List.Forall₂ R l₁ l₂) :
    List.Forall₂ R (Spec.window skip limit l₁) (Spec.window skip limit l₂) := by
  unfold Spec.window
  split
  · exact forall₂_drop R skip h
  · exact forall₂_take R _ (forall₂_drop R skip h)

theorem forall₂_head? {α β : Type} (R : α → β → Prop) {l₁ : List α} {l₂ : List β}
    (h : List.Forall₂ R l₁ l₂) :
    (l₁.head? = none ∧ l₂.head? = none) ∨ ∃ a b, l₁.head? = some a ∧ l₂.head? = some b ∧ R a b := by
  cases h with
  | nil => exact Or.inl ⟨rfl, rfl⟩
  | cons hr _ => exact Or.inr ⟨_, _, rfl, rfl, hr⟩

/-! ## 3. the answer of any plan, position by position -/

/-- the filtered candidates of a plan that serves the sort from the index are sorted by the sort
    node's comparator, when no MATCHING live document carries an explicit nil under the sort key -/
theorem filtered_sorted_by_index (s : Spec.State) (σ : KVS) (hw : WF s) (hr : Rep s σ) (q : Query)
    (coll : Spec.Coll) (hl : Spec.lookup q.coll s = some coll)
    (hsorted : (choosePlan coll.indexes q).2 = true)
    (hdir : ∀ o ∈ q.sort, o.2 = 1 ∨ o.2 = -1)
    (hdom : ∀ f ∈ coll.indexes, ∀ e ∈ coll.docs, Dom numOK (e.2.get f))
    (hcrit : ∀ cr, q.crit = some cr → CritDom cr)
    (hnn : ∀ o ∈ q.sort, ∀ d ∈ (coll.docs.map (·.2)).filter (fun d => satOpt likeFn fnFam d q.crit),
      d.has o.1 = true → d.get o.1 ≠ .null) :
    ((candidates σ q.coll (coll.docs.map (·.2)) (choosePlan coll.indexes q).1).filter
      (fun d => satOpt likeFn fnFam d q.crit)).Pairwise (fun a b => compareDocuments a b q.sort ≤ 0) := by
  obtain ⟨f, dir, hs, hsrc⟩ := choosePlan_sorted coll.indexes q hsorted
  have hf : f ∈ coll.indexes := by
    have hfi := choosePlan_fieldIn coll.indexes q
    rcases hsrc with h | ⟨r, h⟩ <;> (rw [h] at hfi; exact hfi)
  have hord := filtered_index_order likeFn fnFam s σ hw hr q coll hl f (decide (dir < 0)) hsrc (hdom f hf) hcrit
  have hmem := filtered_candidates_mem likeFn fnFam s σ hw hr q coll hl
  have hlive : ∀ d ∈ (candidates σ q.coll (coll.docs.map (·.2)) (choosePlan coll.indexes q).1).filter
      (fun d => satOpt likeFn fnFam d q.crit), ∃ e ∈ coll.docs, e.2 = d := by
    intro d hd
    exact List.mem_map.1 (List.mem_filter.1 (hmem d hd)).1
  rw [hs]
  refine hord.imp_of_mem ?_
  intro a b ha hb h
  obtain ⟨ea, hea, eqa⟩ := hlive a ha
  obtain ⟨eb, heb, eqb⟩ := hlive b hb
  have hda := hdom f hf ea hea
  have hdb := hdom f hf eb heb
  rw [eqa] at hda
  rw [eqb] at hdb
  have hna := hnn (f, dir) (by rw [hs]; simp) a (hmem a ha)
  have hnb := hnn (f, dir) (by rw [hs]; simp) b (hmem b hb)
  exact compareDocuments_of_idxOrd f dir a b (hdir (f, dir) (by rw [hs]; simp))
    (Or.inr ⟨dom_numsOK _ hda, dom_numsOK _ hdb⟩) (Or.inr ⟨hna, hnb⟩) h

theorem pairwise_cmp_nil (l : List Doc) : l.Pairwise (fun a b => compareDocuments a b [] ≤ 0) := by
  have h : ∀ a b : Doc, compareDocuments a b [] ≤ 0 := by intro a b; simp [compareDocuments]
  exact List.pairwise_of_forall h

/-- the list a plan hands to the consumer (window of the filtered, possibly sorted candidates)
    against the specification's answer, position by position -/
theorem plan_answer_classwise (s : Spec.State) (σ : KVS) (hw : WF s) (hr : Rep s σ) (q : Query)
    (coll : Spec.Coll) (hl : Spec.lookup q.coll s = some coll) (hdomain : KeyDomain q coll)
    (hsd : SortDom q.sort ((coll.docs.map (·.2)).filter (fun d => satOpt likeFn fnFam d q.crit)))
    (hnn : (choosePlan coll.indexes q).2 = true →
      ∀ o ∈ q.sort, ∀ d ∈ (coll.docs.map (·.2)).filter (fun d => satOpt likeFn fnFam d q.crit),
        d.has o.1 = true → d.get o.1 ≠ .null) :
    List.Forall₂ (fun a b => compareDocuments a b q.sort = 0)
      (Spec.window q.skip q.limit
        (let cands := candidates σ q.coll (coll.docs.map (·.2)) (choosePlan coll.indexes q).1
         if needSort q (choosePlan coll.indexes q).2
         then sortDocs q.sort (cands.filter (fun d => satOpt likeFn fnFam d q.crit))
         else cands.filter (fun d => satOpt likeFn fnFam d q.crit)))
      (Spec.findAll likeFn fnFam q coll) := by
  have hperm := findAll_perm_any_plan' likeFn fnFam s σ hw hr q coll hl hdomain.docs hdomain.crit hdomain.indexed
  have hmem := filtered_candidates_mem likeFn fnFam s σ hw hr q coll hl
  unfold Spec.findAll
  simp only
  apply forall₂_window
  generalize hF : (candidates σ q.coll (coll.docs.map (·.2)) (choosePlan coll.indexes q).1).filter
    (fun d => satOpt likeFn fnFam d q.crit) = F at hperm hmem
  generalize hM : (coll.docs.map (·.2)).filter (fun d => satOpt likeFn fnFam d q.crit) = M at hperm hmem hsd hnn
  have hsortL : ∀ l : List Doc, (sortDocs q.sort l).Perm l := fun l => List.mergeSort_perm _ _
  have hsdF : SortDom q.sort F := sortDom_mono q.sort M F hmem hsd
  -- the implementation side: a sorted permutation of `M`
  have hA : ∀ A, A = (if needSort q (choosePlan coll.indexes q).2 = true then sortDocs q.sort F else F) →
      A.Perm M ∧ A.Pairwise (fun a b => compareDocuments a b q.sort ≤ 0) := by
    intro A hAe
    cases hns : needSort q (choosePlan coll.indexes q).2 with
    | true =>
      rw [hns] at hAe
      simp only [if_true] at hAe
      rw [hAe]
      exact ⟨(hsortL F).trans hperm, sortDocs_sorted q.sort F hsdF⟩
    | false =>
      rw [hns] at hAe
      simp only [Bool.false_eq_true, if_false] at hAe
      rw [hAe]
      refine ⟨hperm, ?_⟩
      cases hse : q.sort with
      | nil => exact pairwise_cmp_nil F
      | cons o t =>
        have hsorted : (choosePlan coll.indexes q).2 = true := by
          cases hc : (choosePlan coll.indexes q).2 with
          | true => rfl
          | false => rw [hc] at hns; simp [needSort, hse] at hns
        rw [← hse, ← hF]
        apply filtered_sorted_by_index likeFn fnFam s σ hw hr q coll hl hsorted hsd.1 hdomain.indexed
          (fun cr h => (hdomain.crit cr h).2)
        rw [hM]
        exact hnn hsorted
  -- the specification side
  have hB : ∀ B, B = (if q.sort.isEmpty = true then M else sortDocs q.sort M) →
      B.Perm M ∧ B.Pairwise (fun a b => compareDocuments a b q.sort ≤ 0) := by
    intro B hBe
    cases hse : q.sort with
    | nil =>
      rw [hse] at hBe
      simp only [List.isEmpty_nil, if_true] at hBe
      rw [hBe]
      exact ⟨List.Perm.refl _, pairwise_cmp_nil M⟩
    | cons o t =>
      have he : q.sort.isEmpty = false := by rw [hse]; rfl
      rw [he] at hBe
      simp only [Bool.false_eq_true, if_false] at hBe
      rw [hBe, ← hse]
      exact ⟨hsortL M, sortDocs_sorted q.sort M hsd⟩
  obtain ⟨pA, sA⟩ := hA _ rfl
  obtain ⟨pB, sB⟩ := hB _ rfl
  exact sorted_perm_forall₂_tie (· ∈ M) (fun a b => compareDocuments a b q.sort)
    (compareDocuments_spre q.sort M hsd) _ _ (pA.trans pB.symm) (fun x hx => pA.mem_iff.1 hx) sA sB

/-- **Sorted, windowed answers of any plan agree with the specification position by position, up to
    ties**: with any set of indexes, whichever plan the planner picks, any sort options, skip and
    limit, the fault-free answer of `FindAll` has the length of the specification's answer and its
    i-th document is tie-equivalent under `compareDocuments · · q.sort` to the specification's
    i-th document.  Domain: the key domain of index transparency, sort directions ±1 and matching
    documents pairwise comparable by value on the sort keys; when the planner elides the sort
    node, no matching live document carries an explicit nil under the sort key. -/
theorem findAll_classwise_any_plan (s : Spec.State) (σ : KVS) (hw : WF s) (hr : Rep s σ) (q : Query)
    (coll : Spec.Coll) (hl : Spec.lookup q.coll s = some coll) (hdomain : KeyDomain q coll)
    (hsd : SortDom q.sort ((coll.docs.map (·.2)).filter (fun d => satOpt likeFn fnFam d q.crit)))
    (hnn : (choosePlan coll.indexes q).2 = true →
      ∀ o ∈ q.sort, ∀ d ∈ (coll.docs.map (·.2)).filter (fun d => satOpt likeFn fnFam d q.crit),
        d.has o.1 = true → d.get o.1 ≠ .null) :
    ∃ res, (withTx false (Op.body likeFn fnFam (.findAll q)) noFault σ).1 = .ok (.docs res) ∧
      List.Forall₂ (fun a b => compareDocuments a b q.sort = 0) res (Spec.findAll likeFn fnFam q coll) :=
  ⟨_, findAll_run_any_plan likeFn fnFam s σ hw hr q coll hl,
    plan_answer_classwise likeFn fnFam s σ hw hr q coll hl hdomain hsd hnn⟩

/-- the hypothesis of `findAll_sorted_by_index` (over all live documents) gives the one used here -/
theorem findAll_classwise_any_plan' (s : Spec.State) (σ : KVS) (hw : WF s) (hr : Rep s σ) (q : Query)
    (coll : Spec.Coll) (hl : Spec.lookup q.coll s = some coll) (hdomain : KeyDomain q coll)
    (hsd : SortDom q.sort ((coll.docs.map (·.2)).filter (fun d => satOpt likeFn fnFam d q.crit)))
    (hnn : (choosePlan coll.indexes q).2 = true →
      ∀ o ∈ q.sort, ∀ e ∈ coll.docs, e.2.has o.1 = true → e.2.get o.1 ≠ .null) :
    ∃ res, (withTx false (Op.body likeFn fnFam (.findAll q)) noFault σ).1 = .ok (.docs res) ∧
      List.Forall₂ (fun a b => compareDocuments a b q.sort = 0) res (Spec.findAll likeFn fnFam q coll) := by
  apply findAll_classwise_any_plan likeFn fnFam s σ hw hr q coll hl hdomain hsd
  intro hsorted o ho d hd
  obtain ⟨e, he, ed⟩ := List.mem_map.1 (List.mem_filter.1 hd).1
  rw [← ed]
  exact hnn hsorted o ho e he

/-! ## 4. `FindFirst` -/

/-- **`FindFirst` under any plan**: it answers nothing exactly when the specification does, and
    otherwise a document tie-equivalent under the sort options to the specification's. -/
theorem findFirst_class_any_plan (s : Spec.State) (σ : KVS) (hw : WF s) (hr : Rep s σ) (q : Query)
    (coll : Spec.Coll) (hl : Spec.lookup q.coll s = some coll) (hdomain : KeyDomain q coll)
    (hsd : SortDom q.sort ((coll.docs.map (·.2)).filter (fun d => satOpt likeFn fnFam d q.crit)))
    (hnn : (choosePlan coll.indexes q).2 = true →
      ∀ o ∈ q.sort, ∀ d ∈ (coll.docs.map (·.2)).filter (fun d => satOpt likeFn fnFam d q.crit),
        d.has o.1 = true → d.get o.1 ≠ .null) :
    ∃ r, (withTx false (Op.body likeFn fnFam (.findFirst q)) noFault σ).1 = .ok (.docOpt r) ∧
      ((r = none ∧ (Spec.findAll likeFn fnFam { q with limit := 1 } coll).head? = none) ∨
        ∃ a b, r = some a ∧ (Spec.findAll likeFn fnFam { q with limit := 1 } coll).head? = some b ∧
          compareDocuments a b q.sort = 0) := by
  have hrun : (withTx false (Op.body likeFn fnFam (.findFirst q)) noFault σ).1 =
      .ok (.docOpt (Spec.window q.skip 1
        (let cands := candidates σ q.coll (coll.docs.map (·.2)) (choosePlan coll.indexes q).1
         if needSort q (choosePlan coll.indexes q).2
         then sortDocs q.sort (cands.filter (fun d => satOpt likeFn fnFam d q.crit))
         else cands.filter (fun d => satOpt likeFn fnFam d q.crit))).head?) := by
    rw [withTx_read_noFault]
    obtain ⟨c2, h2, _⟩ := iterateDocs_run likeFn fnFam s (ctx0 false σ) hw hr { q with limit := 1 } none coll hl
    simp only [Op.body]
    rw [bind_run _ _ _ c2 _ h2, pipeline_none]
    rfl
  refine ⟨_, hrun, ?_⟩
  have hd' : KeyDomain { q with limit := 1 } coll := ⟨hdomain.docs, hdomain.crit, hdomain.indexed⟩
  have h := plan_answer_classwise likeFn fnFam s σ hw hr { q with limit := 1 } coll hl hd' hsd hnn
  exact forall₂_head? _ h

end CV
