import Clover.Model.DocFields
import Clover.Proofs.Paths
import Clover.Proofs.ByteOrder
/-! # `Document.Fields`: the listed names are sorted, and are exactly the present non-map paths -/
namespace CV
open OC

/-! ## unfolding lemmas for `leafNames` -/

theorem leafNames_nil : leafNames [] = [] := by rw [leafNames]

theorem leafNames_cons_obj (k : Bytes) (sub t : Doc) :
    leafNames ((k, .obj sub) :: t) = (leafNames sub).map (joinDot k) ++ leafNames t := by
  rw [leafNames]

theorem leafNames_cons_leaf (k : Bytes) (v : Value) (t : Doc) (h : ∀ sub, v ≠ .obj sub) :
    leafNames ((k, v) :: t) = k :: leafNames t := by
  rw [leafNames.eq_def]
  cases v <;> first | rfl | exact absurd rfl (h _)

/-- induction over a document and the maps nested in it (arrays are leaves) -/
theorem docInd {motive : Doc → Prop} (nil : motive [])
    (obj : ∀ k sub t, motive sub → motive t → motive ((k, .obj sub) :: t))
    (leaf : ∀ k v t, (∀ sub, v ≠ .obj sub) → motive t → motive ((k, v) :: t))
    (d : Doc) : motive d := by
  match d with
  | [] => exact nil
  | (k, v) :: t =>
    have iht := docInd nil obj leaf t
    cases v with
    | obj sub => exact obj k sub t (docInd nil obj leaf sub) iht
    | _ => exact leaf _ _ _ (by intro s h; cases h) iht
termination_by sizeOf d

/-! ## 1-3: top-level names, sortedness, permutation -/

theorem mem_topNames (k : Bytes) : (d : Doc) → (k ∈ topNames d ↔ (lookupKey k d).isSome = true)
  | [] => by simp [topNames, lookupKey]
  | (k', v) :: t => by
    have ih := mem_topNames k t
    simp only [topNames, List.map_cons, List.mem_cons] at ih ⊢
    simp only [lookupKey]
    by_cases h : k = k'
    · simp [h]
    · rw [if_neg h, ← ih]; simp [h]

theorem mem_sortNames (l : List Bytes) (k : Bytes) : k ∈ sortNames l ↔ k ∈ l := List.mem_mergeSort

theorem mem_fields_top (d : Doc) (k : Bytes) : k ∈ d.fields false ↔ (lookupKey k d).isSome := by
  show k ∈ sortNames (topNames d) ↔ _
  rw [mem_sortNames]; exact mem_topNames k d

theorem mem_fields_sub (d : Doc) (n : Bytes) : n ∈ d.fields true ↔ n ∈ leafNames d := by
  show n ∈ sortNames (leafNames d) ↔ _
  exact mem_sortNames _ _

theorem bytesLe_trans (a b c : Bytes) (h1 : bytesLe a b = true) (h2 : bytesLe b c = true) :
    bytesLe a c = true := by
  simp only [bytesLe, Bool.not_eq_true'] at *
  rw [not_lexLt_iff] at *
  rcases h1 with e | h1
  · subst e; exact h2
  · rcases h2 with e | h2
    · subst e; exact Or.inr h1
    · exact Or.inr (lexLt_trans _ _ _ h1 h2)

theorem bytesLe_total (a b : Bytes) : (bytesLe a b || bytesLe b a) = true := by
  simp only [bytesLe]
  cases h : lexLt b a with
  | false => rfl
  | true => rw [lexLt_asymm b a h]; rfl

theorem bytesLe_antisymm (a b : Bytes) (h1 : bytesLe a b = true) (h2 : bytesLe b a = true) : a = b := by
  simp only [bytesLe, Bool.not_eq_true'] at *
  rcases (not_lexLt_iff a b).1 h1 with e | h
  · exact e
  · rw [h] at h2; cases h2

theorem sortNames_sorted (l : List Bytes) : (sortNames l).Pairwise (fun x y => bytesLe x y = true) :=
  List.pairwise_mergeSort bytesLe_trans bytesLe_total l

theorem fields_sorted (d : Doc) (b : Bool) : (d.fields b).Pairwise (fun x y => bytesLe x y = true) :=
  sortNames_sorted _

theorem fields_perm (d : Doc) : (d.fields true).Perm (leafNames d) := List.mergeSort_perm _ _

theorem fields_perm_top (d : Doc) : (d.fields false).Perm (topNames d) := List.mergeSort_perm _ _

/-! ## `strings.Split` on dot-free keys and joined names -/

theorem splitDots_ne_nil : (n : Bytes) → splitDots n ≠ []
  | [] => by simp [splitDots]
  | c :: cs => by
    simp only [splitDots]
    split
    · simp
    · split <;> simp

theorem splitDots_key : (k : Bytes) → dot ∉ k → splitDots k = [k]
  | [], _ => rfl
  | c :: cs, h => by
    have hc : c ≠ dot := fun e => h (by simp [e])
    have hcs : dot ∉ cs := fun m => h (List.mem_cons_of_mem _ m)
    simp only [splitDots, if_neg hc, splitDots_key cs hcs]

theorem splitDots_joinDot : (k s : Bytes) → dot ∉ k → splitDots (joinDot k s) = k :: splitDots s
  | [], s, _ => by simp [joinDot, splitDots]
  | c :: cs, s, h => by
    have hc : c ≠ dot := fun e => h (by simp [e])
    have hcs : dot ∉ cs := fun m => h (List.mem_cons_of_mem _ m)
    have ih := splitDots_joinDot cs s hcs
    simp only [joinDot] at ih
    simp only [joinDot, List.cons_append, splitDots, if_neg hc, ih]

/-- the segments produced by `strings.Split(name, ".")` never contain a dot -/
theorem splitDots_dotfree : (n : Bytes) → ∀ s ∈ splitDots n, dot ∉ s
  | [] => by simp [splitDots]
  | c :: cs => by
    have ih := splitDots_dotfree cs
    simp only [splitDots]
    by_cases hc : c = dot
    · rw [if_pos hc]
      intro s hs
      rcases List.mem_cons.1 hs with e | hs
      · subst e; simp
      · exact ih s hs
    · rw [if_neg hc]
      cases hsp : splitDots cs with
      | nil =>
        dsimp only
        intro s hs
        simp only [List.mem_singleton] at hs
        subst hs
        simpa using fun e => hc e.symm
      | cons h t =>
        dsimp only
        rw [hsp] at ih
        intro s hs
        rcases List.mem_cons.1 hs with e | hs
        · subst e
          have := ih h (by simp)
          intro m
          rcases List.mem_cons.1 m with e | m
          · exact hc e.symm
          · exact this m
        · exact ih s (List.mem_cons_of_mem _ hs)

theorem splitDots_single : (n k : Bytes) → splitDots n = [k] → n = k
  | [], k, h => by simp [splitDots] at h; exact h.symm
  | c :: cs, k, h => by
    simp only [splitDots] at h
    by_cases hc : c = dot
    · rw [if_pos hc] at h
      simp only [List.cons.injEq] at h
      exact absurd h.2 (splitDots_ne_nil cs)
    · rw [if_neg hc] at h
      cases hsp : splitDots cs with
      | nil => exact absurd hsp (splitDots_ne_nil cs)
      | cons x t =>
        rw [hsp] at h
        dsimp only at h
        simp only [List.cons.injEq] at h
        obtain ⟨h1, h2⟩ := h
        subst h2
        rw [splitDots_single cs x hsp, h1]

theorem splitDots_cons2 : (n k r : Bytes) → (rs : List Bytes) → splitDots n = k :: r :: rs →
    ∃ n', n = joinDot k n' ∧ splitDots n' = r :: rs
  | [], k, r, rs, h => by simp [splitDots] at h
  | c :: cs, k, r, rs, h => by
    simp only [splitDots] at h
    by_cases hc : c = dot
    · rw [if_pos hc] at h
      simp only [List.cons.injEq] at h
      obtain ⟨h1, h2⟩ := h
      subst h1
      exact ⟨cs, by simp [joinDot, hc], h2⟩
    · rw [if_neg hc] at h
      cases hsp : splitDots cs with
      | nil => exact absurd hsp (splitDots_ne_nil cs)
      | cons x t =>
        rw [hsp] at h
        dsimp only at h
        simp only [List.cons.injEq] at h
        obtain ⟨h1, h2⟩ := h
        subst h2
        obtain ⟨n', e1, e2⟩ := splitDots_cons2 cs x r rs hsp
        exact ⟨n', by rw [e1, ← h1]; simp [joinDot], e2⟩

/-! ## `lookupField` on explicit paths -/

theorem getPath_single (m : Doc) (k : Bytes) : getPath m [k] = lookupKey k m := by
  simp [getPath]

theorem getPath_cons2_obj (m sub : Doc) (k r : Bytes) (rs : List Bytes)
    (h : lookupKey k m = some (.obj sub)) : getPath m (k :: r :: rs) = getPath sub (r :: rs) := by
  simp only [getPath, h]

theorem getPath_cons2_some (m : Doc) (k r : Bytes) (rs : List Bytes) (v : Value)
    (h : getPath m (k :: r :: rs) = some v) :
    ∃ sub, lookupKey k m = some (.obj sub) ∧ getPath sub (r :: rs) = some v := by
  simp only [getPath] at h
  cases hl : lookupKey k m with
  | none => rw [hl] at h; cases h
  | some x =>
    rw [hl] at h
    cases x with
    | obj sub => exact ⟨sub, rfl, h⟩
    | _ => cases h

theorem getPath_cons_ne (k k' : Bytes) (x : Value) (t : Doc) (rest : List Bytes) (hne : k' ≠ k) :
    getPath ((k, x) :: t) (k' :: rest) = getPath t (k' :: rest) := by
  cases rest with
  | nil => simp only [getPath, lookupKey, if_neg hne]
  | cons r rs => simp only [getPath, lookupKey, if_neg hne]

/-! ## 4b: every present non-map path is listed (no hypothesis on the document needed) -/

theorem mem_leafNames_of_lookup_leaf (k : Bytes) (v : Value) (hv : ∀ sub, v ≠ .obj sub) :
    (d : Doc) → lookupKey k d = some v → k ∈ leafNames d
  | [], h => by simp [lookupKey] at h
  | (k', v') :: t, h => by
    simp only [lookupKey] at h
    by_cases hk : k = k'
    · rw [if_pos hk] at h
      cases h
      subst hk
      rw [leafNames_cons_leaf k v t hv]; simp
    · rw [if_neg hk] at h
      have ih := mem_leafNames_of_lookup_leaf k v hv t h
      by_cases ho : ∃ sub, v' = .obj sub
      · obtain ⟨sub, e⟩ := ho
        subst e
        rw [leafNames_cons_obj]; exact List.mem_append_right _ ih
      · rw [leafNames_cons_leaf k' v' t (fun sub e => ho ⟨sub, e⟩)]
        exact List.mem_cons_of_mem _ ih

theorem mem_leafNames_of_lookup_obj (k s : Bytes) (sub : Doc) (hs : s ∈ leafNames sub) :
    (d : Doc) → lookupKey k d = some (.obj sub) → joinDot k s ∈ leafNames d
  | [], h => by simp [lookupKey] at h
  | (k', v') :: t, h => by
    simp only [lookupKey] at h
    by_cases hk : k = k'
    · rw [if_pos hk] at h
      cases h
      subst hk
      rw [leafNames_cons_obj]
      exact List.mem_append_left _ (List.mem_map_of_mem hs)
    · rw [if_neg hk] at h
      have ih := mem_leafNames_of_lookup_obj k s sub hs t h
      by_cases ho : ∃ sub', v' = .obj sub'
      · obtain ⟨sub', e⟩ := ho
        subst e
        rw [leafNames_cons_obj]; exact List.mem_append_right _ ih
      · rw [leafNames_cons_leaf k' v' t (fun sub e => ho ⟨sub, e⟩)]
        exact List.mem_cons_of_mem _ ih

theorem mem_leafNames_of_getPath (v : Value) (hv : ∀ sub, v ≠ .obj sub) :
    (p : List Bytes) → (d : Doc) → (n : Bytes) → splitDots n = p → getPath d p = some v →
    n ∈ leafNames d
  | [], d, n, _, h => by simp [getPath] at h
  | [k], d, n, hp, h => by
    rw [getPath_single] at h
    rw [splitDots_single n k hp]
    exact mem_leafNames_of_lookup_leaf k v hv d h
  | k :: r :: rs, d, n, hp, h => by
    obtain ⟨n', e1, e2⟩ := splitDots_cons2 n k r rs hp
    obtain ⟨sub, hl, hg⟩ := getPath_cons2_some d k r rs v h
    have ih := mem_leafNames_of_getPath v hv (r :: rs) sub n' e2 hg
    rw [e1]
    exact mem_leafNames_of_lookup_obj k n' sub ih d hl

/-- every present path whose value is not a map is listed by `Fields(true)`; holds for EVERY
    document (a path that `Has` finds only goes through dot-free keys) -/
theorem has_leaf' (d : Doc) (n : Bytes) (hh : d.has n = true) (hv : ∀ sub, d.get n ≠ .obj sub) :
    n ∈ leafNames d := by
  simp only [Doc.has, Doc.get] at hh hv
  cases hg : getPath d (splitDots n) with
  | none => rw [hg] at hh; cases hh
  | some v =>
    rw [hg] at hv
    exact mem_leafNames_of_getPath v hv _ d n rfl hg

/-! ## hereditary conditions on the keys of a document -/

/-- no key at any nesting level of maps contains a dot (arrays are leaves) -/
def DotFreeKeys : Doc → Prop
  | [] => True
  | (k, v) :: t =>
    dot ∉ k ∧ (match v with
               | .obj sub => DotFreeKeys sub
               | _ => True) ∧ DotFreeKeys t

/-- at every nesting level of maps the keys are pairwise distinct -/
def DistinctKeys : Doc → Prop
  | [] => True
  | (k, v) :: t =>
    (∀ p ∈ t, k ≠ p.1) ∧ (match v with
                          | .obj sub => DistinctKeys sub
                          | _ => True) ∧ DistinctKeys t

/-- at every nesting level of maps the association list is strictly sorted by key (the
    representation invariant of `Doc`, kept by `insertKey`) -/
def SortedKeys : Doc → Prop
  | [] => True
  | (k, v) :: t =>
    (∀ p ∈ t, lexLt k p.1 = true) ∧ (match v with
                                     | .obj sub => SortedKeys sub
                                     | _ => True) ∧ SortedKeys t

/-- The hypothesis of the `Fields`/`Has` link: hereditarily dot-free keys AND hereditarily
    strictly sorted (hence distinct) keys.  Distinctness is needed: `lookupKey` reads the first
    entry of a key, `leafNames` lists all of them. -/
def DotFree (d : Doc) : Prop := DotFreeKeys d ∧ SortedKeys d

theorem dotFreeKeys_nil : DotFreeKeys [] := by rw [DotFreeKeys]; trivial
theorem distinctKeys_nil : DistinctKeys [] := by rw [DistinctKeys]; trivial
theorem sortedKeys_nil : SortedKeys [] := by rw [SortedKeys]; trivial
theorem dotFree_nil : DotFree [] := ⟨dotFreeKeys_nil, sortedKeys_nil⟩

theorem dotFreeKeys_cons (k : Bytes) (v : Value) (t : Doc) :
    DotFreeKeys ((k, v) :: t) ↔
      dot ∉ k ∧ (∀ sub, v = .obj sub → DotFreeKeys sub) ∧ DotFreeKeys t := by
  rw [DotFreeKeys.eq_def]
  cases v <;> simp

theorem distinctKeys_cons (k : Bytes) (v : Value) (t : Doc) :
    DistinctKeys ((k, v) :: t) ↔
      (∀ p ∈ t, k ≠ p.1) ∧ (∀ sub, v = .obj sub → DistinctKeys sub) ∧ DistinctKeys t := by
  rw [DistinctKeys.eq_def]
  cases v <;> simp

theorem sortedKeys_cons (k : Bytes) (v : Value) (t : Doc) :
    SortedKeys ((k, v) :: t) ↔
      (∀ p ∈ t, lexLt k p.1 = true) ∧ (∀ sub, v = .obj sub → SortedKeys sub) ∧ SortedKeys t := by
  rw [SortedKeys.eq_def]
  cases v <;> simp

theorem SortedKeys.distinct (d : Doc) : SortedKeys d → DistinctKeys d := by
  induction d using docInd with
  | nil => intro _; exact distinctKeys_nil
  | obj k sub t ihs iht =>
    intro h
    rw [sortedKeys_cons] at h
    rw [distinctKeys_cons]
    refine ⟨fun p hp => lexLt_ne _ _ (h.1 p hp), ?_, iht h.2.2⟩
    intro s e; cases e; exact ihs (h.2.1 _ rfl)
  | leaf k v t hv iht =>
    intro h
    rw [sortedKeys_cons] at h
    rw [distinctKeys_cons]
    exact ⟨fun p hp => lexLt_ne _ _ (h.1 p hp), fun s e => absurd e (hv s), iht h.2.2⟩

/-! ## 4a: every listed name is present and is not a map -/

/-- a listed name starts (as a path) with a top-level key -/
theorem leafNames_head : (t : Doc) → DotFreeKeys t → (n : Bytes) → n ∈ leafNames t →
    ∃ k' rest, splitDots n = k' :: rest ∧ k' ∈ topNames t
  | [], _, n, h => by rw [leafNames_nil] at h; cases h
  | (k, v) :: t, hd, n, h => by
    rw [dotFreeKeys_cons] at hd
    have tail : n ∈ leafNames t → ∃ k' rest, splitDots n = k' :: rest ∧ k' ∈ topNames ((k, v) :: t) := by
      intro hn
      obtain ⟨k', rest, e, m⟩ := leafNames_head t hd.2.2 n hn
      exact ⟨k', rest, e, by simp only [topNames, List.map_cons] at m ⊢; exact List.mem_cons_of_mem _ m⟩
    by_cases ho : ∃ sub, v = .obj sub
    · obtain ⟨sub, e⟩ := ho
      subst e
      rw [leafNames_cons_obj] at h
      rcases List.mem_append.1 h with h | h
      · obtain ⟨s, _, e⟩ := List.mem_map.1 h
        subst e
        exact ⟨k, splitDots s, splitDots_joinDot k s hd.1, by simp [topNames]⟩
      · exact tail h
    · rw [leafNames_cons_leaf k v t (fun sub e => ho ⟨sub, e⟩)] at h
      rcases List.mem_cons.1 h with e | h
      · subst e
        exact ⟨n, [], splitDots_key n hd.1, by simp [topNames]⟩
      · exact tail h

theorem getPath_skip (k : Bytes) (x : Value) (t : Doc) (hdf : DotFreeKeys t)
    (hdist : ∀ p ∈ t, k ≠ p.1) (n : Bytes) (hn : n ∈ leafNames t) :
    getPath ((k, x) :: t) (splitDots n) = getPath t (splitDots n) := by
  obtain ⟨k', rest, e, m⟩ := leafNames_head t hdf n hn
  rw [e]
  apply getPath_cons_ne
  simp only [topNames, List.mem_map] at m
  obtain ⟨p, hp, e'⟩ := m
  intro e2
  exact hdist p hp (by rw [e', e2])

theorem getPath_of_mem_leafNames (d : Doc) : DotFreeKeys d → DistinctKeys d → ∀ n, n ∈ leafNames d →
    ∃ v, getPath d (splitDots n) = some v ∧ ∀ sub, v ≠ .obj sub := by
  induction d using docInd with
  | nil => intro _ _ n h; rw [leafNames_nil] at h; cases h
  | obj k sub t ihs iht =>
    intro hdf hdk n h
    rw [dotFreeKeys_cons] at hdf
    rw [distinctKeys_cons] at hdk
    rw [leafNames_cons_obj] at h
    rcases List.mem_append.1 h with h | h
    · obtain ⟨s, hs, e⟩ := List.mem_map.1 h
      subst e
      obtain ⟨v, hg, hv⟩ := ihs (hdf.2.1 _ rfl) (hdk.2.1 _ rfl) s hs
      refine ⟨v, ?_, hv⟩
      rw [splitDots_joinDot k s hdf.1]
      cases hsp : splitDots s with
      | nil => exact absurd hsp (splitDots_ne_nil s)
      | cons r rs =>
        rw [hsp] at hg
        rw [getPath_cons2_obj _ sub k r rs (by simp [lookupKey])]
        exact hg
    · obtain ⟨v, hg, hv⟩ := iht hdf.2.2 hdk.2.2 n h
      exact ⟨v, by rw [getPath_skip k _ t hdf.2.2 hdk.1 n h]; exact hg, hv⟩
  | leaf k x t hx iht =>
    intro hdf hdk n h
    rw [dotFreeKeys_cons] at hdf
    rw [distinctKeys_cons] at hdk
    rw [leafNames_cons_leaf k x t hx] at h
    rcases List.mem_cons.1 h with e | h
    · subst e
      refine ⟨x, ?_, hx⟩
      rw [splitDots_key n hdf.1, getPath_single]
      simp [lookupKey]
    · obtain ⟨v, hg, hv⟩ := iht hdf.2.2 hdk.2.2 n h
      exact ⟨v, by rw [getPath_skip k _ t hdf.2.2 hdk.1 n h]; exact hg, hv⟩

/-- version with the weakest hypotheses: dot-free and (only) distinct keys -/
theorem leaf_has' (d : Doc) (hdf : DotFreeKeys d) (hdk : DistinctKeys d) (n : Bytes)
    (hn : n ∈ leafNames d) : d.has n = true ∧ ∀ sub, d.get n ≠ .obj sub := by
  obtain ⟨v, hg, hv⟩ := getPath_of_mem_leafNames d hdf hdk n hn
  simp only [Doc.has, Doc.get, hg]
  exact ⟨rfl, hv⟩

/-- every name listed by `Fields(true)` is present (`Has`) and its value (`Get`) is not a map -/
theorem leaf_has (d : Doc) (h : DotFree d) (n : Bytes) (hn : n ∈ leafNames d) :
    d.has n = true ∧ ∀ sub, d.get n ≠ .obj sub :=
  leaf_has' d h.1 (SortedKeys.distinct d h.2) n hn

/-- every present path whose value is not a map is listed by `Fields(true)` -/
theorem has_leaf (d : Doc) (_h : DotFree d) (n : Bytes) (hh : d.has n = true)
    (hv : ∀ sub, d.get n ≠ .obj sub) : n ∈ leafNames d := has_leaf' d n hh hv

/-- `Fields(true)` lists exactly the present paths that do not hold a map -/
theorem mem_fields_sub_iff (d : Doc) (h : DotFree d) (n : Bytes) :
    n ∈ d.fields true ↔ (d.has n = true ∧ ∀ sub, d.get n ≠ .obj sub) := by
  rw [mem_fields_sub]
  exact ⟨leaf_has d h n, fun ⟨a, b⟩ => has_leaf d h n a b⟩

/-! ## 5: `Set` keeps the conditions, and a field that was set is listed -/

theorem mem_insertKey_df (k : Bytes) (v : Value) : (m : Doc) → ∀ p ∈ insertKey k v m, p = (k, v) ∨ p ∈ m
  | [] => by simp [insertKey]
  | (k', v') :: t => by
    intro p hp
    simp only [insertKey] at hp
    by_cases h1 : lexLt k k' = true
    · rw [if_pos h1] at hp
      rcases List.mem_cons.1 hp with e | hp
      · exact Or.inl e
      · exact Or.inr hp
    · rw [if_neg h1] at hp
      by_cases h2 : k = k'
      · rw [if_pos h2] at hp
        rcases List.mem_cons.1 hp with e | hp
        · exact Or.inl e
        · exact Or.inr (List.mem_cons_of_mem _ hp)
      · rw [if_neg h2] at hp
        rcases List.mem_cons.1 hp with e | hp
        · exact Or.inr (by rw [e]; exact List.mem_cons_self)
        · rcases mem_insertKey_df k v t p hp with e | hp
          · exact Or.inl e
          · exact Or.inr (List.mem_cons_of_mem _ hp)

theorem dotFreeKeys_lookup (k : Bytes) (sub : Doc) : (m : Doc) → DotFreeKeys m →
    lookupKey k m = some (.obj sub) → DotFreeKeys sub
  | [], _, h => by simp [lookupKey] at h
  | (k', v') :: t, hd, h => by
    rw [dotFreeKeys_cons] at hd
    simp only [lookupKey] at h
    by_cases hk : k = k'
    · rw [if_pos hk] at h; cases h; exact hd.2.1 _ rfl
    · rw [if_neg hk] at h; exact dotFreeKeys_lookup k sub t hd.2.2 h

theorem sortedKeys_lookup (k : Bytes) (sub : Doc) : (m : Doc) → SortedKeys m →
    lookupKey k m = some (.obj sub) → SortedKeys sub
  | [], _, h => by simp [lookupKey] at h
  | (k', v') :: t, hd, h => by
    rw [sortedKeys_cons] at hd
    simp only [lookupKey] at h
    by_cases hk : k = k'
    · rw [if_pos hk] at h; cases h; exact hd.2.1 _ rfl
    · rw [if_neg hk] at h; exact sortedKeys_lookup k sub t hd.2.2 h

theorem dotFreeKeys_insertKey (k : Bytes) (v : Value) (hk : dot ∉ k)
    (hv : ∀ sub, v = .obj sub → DotFreeKeys sub) : (m : Doc) → DotFreeKeys m →
    DotFreeKeys (insertKey k v m)
  | [], _ => by
    simp only [insertKey]; rw [dotFreeKeys_cons]; exact ⟨hk, hv, dotFreeKeys_nil⟩
  | (k', v') :: t, hd => by
    have hd' := (dotFreeKeys_cons k' v' t).1 hd
    simp only [insertKey]
    by_cases h1 : lexLt k k' = true
    · rw [if_pos h1, dotFreeKeys_cons]; exact ⟨hk, hv, hd⟩
    · rw [if_neg h1]
      by_cases h2 : k = k'
      · rw [if_pos h2, dotFreeKeys_cons]; exact ⟨hk, hv, hd'.2.2⟩
      · rw [if_neg h2, dotFreeKeys_cons]
        exact ⟨hd'.1, hd'.2.1, dotFreeKeys_insertKey k v hk hv t hd'.2.2⟩

theorem sortedKeys_insertKey (k : Bytes) (v : Value)
    (hv : ∀ sub, v = .obj sub → SortedKeys sub) : (m : Doc) → SortedKeys m →
    SortedKeys (insertKey k v m)
  | [], _ => by
    simp only [insertKey]; rw [sortedKeys_cons]
    exact ⟨fun p hp => (by cases hp), hv, sortedKeys_nil⟩
  | (k', v') :: t, hd => by
    have hd' := (sortedKeys_cons k' v' t).1 hd
    simp only [insertKey]
    by_cases h1 : lexLt k k' = true
    · rw [if_pos h1, sortedKeys_cons]
      refine ⟨?_, hv, hd⟩
      intro p hp
      rcases List.mem_cons.1 hp with e | hp
      · rw [e]; exact h1
      · exact lexLt_trans _ _ _ h1 (hd'.1 p hp)
    · rw [if_neg h1]
      by_cases h2 : k = k'
      · rw [if_pos h2, sortedKeys_cons]
        exact ⟨by rw [h2]; exact hd'.1, hv, hd'.2.2⟩
      · rw [if_neg h2, sortedKeys_cons]
        refine ⟨?_, hd'.2.1, sortedKeys_insertKey k v hv t hd'.2.2⟩
        intro p hp
        rcases mem_insertKey_df k v t p hp with e | hp
        · rw [e]
          rcases lexLt_total k k' h2 with h | h
          · exact absurd h h1
          · exact h
        · exact hd'.1 p hp

/-- a hereditary property kept by `insertKey` and inherited by looked-up sub-maps is kept by
    `setPath` -/
theorem setPath_preserves (P : Doc → Prop) (Q : Bytes → Prop) (hnil : P [])
    (hlook : ∀ m k sub, P m → lookupKey k m = some (.obj sub) → P sub)
    (hins : ∀ m k v, Q k → (∀ sub, v = .obj sub → P sub) → P m → P (insertKey k v m))
    (v : Value) (hv : ∀ sub, v = .obj sub → P sub) :
    (p : List Bytes) → (m : Doc) → P m → (∀ s ∈ p, Q s) → P (setPath m p v)
  | [], m, hm, _ => by simpa [setPath] using hm
  | [k], m, hm, hq => by
    simp only [setPath]
    exact hins m k v (hq k (by simp)) hv hm
  | k :: r :: rs, m, hm, hq => by
    simp only [setPath]
    apply hins m k _ (hq k (by simp)) _ hm
    intro sub e
    cases e
    apply setPath_preserves P Q hnil hlook hins v hv (r :: rs)
    · cases hl : lookupKey k m with
      | none => exact hnil
      | some x =>
        cases x with
        | obj s => exact hlook m k s hm hl
        | _ => exact hnil
    · intro s hs; exact hq s (List.mem_cons_of_mem _ hs)

theorem dotFreeKeys_setPath (d : Doc) (p : List Bytes) (v : Value) (hd : DotFreeKeys d)
    (hp : ∀ s ∈ p, dot ∉ s) (hv : ∀ sub, v = .obj sub → DotFreeKeys sub) :
    DotFreeKeys (setPath d p v) :=
  setPath_preserves DotFreeKeys (fun k => dot ∉ k) dotFreeKeys_nil
    (fun m k sub hm hl => dotFreeKeys_lookup k sub m hm hl)
    (fun m k v hk hv hm => dotFreeKeys_insertKey k v hk hv m hm) v hv p d hd hp

theorem sortedKeys_setPath (d : Doc) (p : List Bytes) (v : Value) (hd : SortedKeys d)
    (hv : ∀ sub, v = .obj sub → SortedKeys sub) : SortedKeys (setPath d p v) :=
  setPath_preserves SortedKeys (fun _ => True) sortedKeys_nil
    (fun m k sub hm hl => sortedKeys_lookup k sub m hm hl)
    (fun m k v _ hv hm => sortedKeys_insertKey k v hv m hm) v hv p d hd (fun _ _ => trivial)

/-- `Set(name, v)` keeps `DotFree` for ANY name (the segments of `strings.Split` are dot-free),
    when the value is itself a `DotFree` map or not a map -/
theorem dotFree_set_gen (d : Doc) (h : DotFree d) (n : Bytes) (v : Value)
    (hv : ∀ sub, v = .obj sub → DotFree sub) : DotFree (d.set n v) :=
  ⟨dotFreeKeys_setPath d _ v h.1 (splitDots_dotfree n) (fun sub e => (hv sub e).1),
   sortedKeys_setPath d _ v h.2 (fun sub e => (hv sub e).2)⟩

theorem dotFree_set (d : Doc) (h : DotFree d) (n : Bytes) (v : Value) (hv : ∀ sub, v ≠ .obj sub) :
    DotFree (d.set n v) :=
  dotFree_set_gen d h n v (fun sub e => absurd e (hv sub))

theorem has_set_same (d : Doc) (n : Bytes) (v : Value) : (d.set n v).has n = true := by
  simp only [Doc.has, Doc.set, getPath_setPath_same d _ (splitDots_ne_nil n) v]; rfl

theorem get_set_same (d : Doc) (n : Bytes) (v : Value) : (d.set n v).get n = v := by
  simp only [Doc.get, Doc.set, getPath_setPath_same d _ (splitDots_ne_nil n) v]; rfl

/-- a field that was `Set` to a non-map value is listed by `Fields(true)` (for every document) -/
theorem leafNames_after_set (d : Doc) (n : Bytes) (v : Value) (hv : ∀ sub, v ≠ .obj sub) :
    n ∈ leafNames (d.set n v) :=
  has_leaf' _ n (has_set_same d n v) (by rw [get_set_same]; exact hv)

theorem fields_after_set (d : Doc) (_h : DotFree d) (n : Bytes) (v : Value) (hv : ∀ sub, v ≠ .obj sub) :
    n ∈ (d.set n v).fields true := by
  rw [mem_fields_sub]; exact leafNames_after_set d n v hv

end CV
