import Clover.Proofs.Translated
/-! # Criteria evaluation from the translated source alone

`srcSat` evaluates a criterion built from Exists, the five comparisons, And, Or and Not on a document by calling ONLY the
functions `Generated/Translated.lean` holds (the current source of `UnaryCriteria.exist / eq / compare`,
`BinaryCriteria.Satisfy`, `NotCriteria.Satisfy`); `srcSat_eq` proves it equal to the model's `sat` for every criterion of
the fragment and every document - in particular the source's `panic` is never reached. -/
namespace CV.Translated
open CV CV.Gen

/-- criteria built from Exists, the five comparisons, And, Or, Not -/
def InFragment : Crit → Prop
  | .exists_ _ => True
  | .cmp _ _ _ => True
  | .and a b => InFragment a ∧ InFragment b
  | .or a b => InFragment a ∧ InFragment b
  | .not a => InFragment a
  | _ => False

/-- evaluation of a criterion of the fragment by the TRANSLATED source functions only (`none`: outside the fragment, or
    the source's panic) -/
def srcSat (d : Doc) : Crit → Option Bool
  | .exists_ f => some (UnaryCriteria_exist ⟨"ExistsOp", f, .lit .null⟩ d)
  | .cmp op f x => if op = .eq then some (UnaryCriteria_eq ⟨opName .eq, f, x⟩ d) else UnaryCriteria_compare ⟨opName op, f, x⟩ d
  | .and a b => match srcSat d a, srcSat d b with
    | some p, some q => some (BinaryCriteria_Satisfy ⟨"LogicalAnd", p, q⟩)
    | _, _ => none
  | .or a b => match srcSat d a, srcSat d b with
    | some p, some q => some (BinaryCriteria_Satisfy ⟨"LogicalOr", p, q⟩)
    | _, _ => none
  | .not a => (srcSat d a).map (fun p => NotCriteria_Satisfy ⟨p⟩)
  | _ => none

variable (likeFn : LikeFn) (fnFam : FnFam)

theorem srcSat_eq (d : Doc) : (c : Crit) → InFragment c → srcSat d c = some (sat likeFn fnFam d c)
  | .exists_ f, _ => by simp [srcSat, sat, unaryExist_eq]
  | .cmp op f x, _ => by
    by_cases h : op = .eq
    · subst h; simp [srcSat, sat, unaryEq_eq]
    · simp [srcSat, sat, h, unaryCompare_eq op h]
  | .and a b, h => by
    have ha := srcSat_eq d a h.1
    have hb := srcSat_eq d b h.2
    simp only [srcSat, ha, hb]
    exact congrArg some (binarySatisfy_eq likeFn fnFam d a b).1
  | .or a b, h => by
    have ha := srcSat_eq d a h.1
    have hb := srcSat_eq d b h.2
    simp only [srcSat, ha, hb]
    exact congrArg some (binarySatisfy_eq likeFn fnFam d a b).2
  | .not a, h => by
    have ha := srcSat_eq d a h
    simp only [srcSat, ha, Option.map]
    exact congrArg some (notSatisfy_eq likeFn fnFam d a)
  | .like _ _, h => absurd h (by simp [InFragment])
  | .isIn _ _, h => absurd h (by simp [InFragment])
  | .contains _ _, h => absurd h (by simp [InFragment])
  | .fn _, h => absurd h (by simp [InFragment])

end CV.Translated
