import Clover.Proofs.RefineAnyPlan
import Clover.Proofs.DerivedAnyPlan
/-! # Non-vacuity of the any-plan theorems: a concrete history that USES AN INDEX

The any-plan theorems (`refine_states_any_plan`, `findAll_after_history_up_to_ties`,
`findAll_classwise_any_plan`, `update_exact_any_plan`, `createCollectionByQuery_exact_any_plan`,
`exists_exact_any_plan`, `count_any_plan`) carry hypotheses (`OpOK`, `AllInDomain`, `KeyDomain`,
`SortDom`, the no-explicit-nil condition, `Spec.lookup … = some coll`).  This file exhibits one
history from the empty database that satisfies all of them, in which

* `Update`, `CreateCollectionByQuery` and `Delete` are in the domain through the SECOND disjunct
  (`BulkDomain` / `CopyDomain`), each being served by an index range plan (`plan₁`, `planCopy`,
  `planDel`: none of them is `(.full, false)`);
* the final read is sorted by the indexed field, so that the sort node is elided
  (`plan₂ … = (_, true)`), and has a skip/limit window cutting through a tie class.

Only the SPECIFICATION side and the hypotheses are evaluated; the model-side facts are delivered by
the theorems (`witness_states`, `witness_findAll`, `witness_count`, `witness_exists`). -/
namespace CV.Witness
open CV OC Keys StoreM

/-! ## 1. the data -/

def likeFn : LikeFn := fun _ _ => false
def fnFam : FnFam := fun _ _ => false

/-- collection "c" -/
def c : Bytes := [0x63]
/-- collection "d" (the target of the copy) -/
def c' : Bytes := [0x64]
/-- field "x" -/
def x : Bytes := [0x78]
/-- field "y" -/
def y : Bytes := [0x79]

/-- "00000000-0000-0000-0000-000000000001" -/
def id1 : Bytes := [0x30,0x30,0x30,0x30,0x30,0x30,0x30,0x30,0x2D,0x30,0x30,0x30,0x30,0x2D,0x30,0x30,0x30,0x30,0x2D,
  0x30,0x30,0x30,0x30,0x2D,0x30,0x30,0x30,0x30,0x30,0x30,0x30,0x30,0x30,0x30,0x30,0x31]
/-- "00000000-0000-0000-0000-000000000002" -/
def id2 : Bytes := [0x30,0x30,0x30,0x30,0x30,0x30,0x30,0x30,0x2D,0x30,0x30,0x30,0x30,0x2D,0x30,0x30,0x30,0x30,0x2D,
  0x30,0x30,0x30,0x30,0x2D,0x30,0x30,0x30,0x30,0x30,0x30,0x30,0x30,0x30,0x30,0x30,0x32]
/-- "00000000-0000-0000-0000-000000000003" -/
def id3 : Bytes := [0x30,0x30,0x30,0x30,0x30,0x30,0x30,0x30,0x2D,0x30,0x30,0x30,0x30,0x2D,0x30,0x30,0x30,0x30,0x2D,
  0x30,0x30,0x30,0x30,0x2D,0x30,0x30,0x30,0x30,0x30,0x30,0x30,0x30,0x30,0x30,0x30,0x33]

def d1 : Doc := [(idField, .str id1), (x, .num (.int 1))]
def d2 : Doc := [(idField, .str id2), (x, .num (.int 2)), (y, .str [0x61])]
def d3 : Doc := [(idField, .str id3), (x, .num (.int 3))]

/-- `d2`, `d3` after `x := 7` -/
def d2' : Doc := [(idField, .str id2), (x, .num (.int 7)), (y, .str [0x61])]
def d3' : Doc := [(idField, .str id3), (x, .num (.int 7))]

example : validDoc d1 = true ∧ validDoc d2 = true ∧ validDoc d3 = true := by decide

/-- `x ≥ 2` on "c", no skip, no limit: selects `d2`, `d3` -/
def q₁ : Query := { coll := c, crit := some (.cmp .ge x (.lit (.num (.int 2)))) }
/-- the updater of `Update(q₁, {x: 7})` -/
def u₁ : Upd := .setAll [(x, .num (.int 7))]
/-- `x ≥ 7` on "c", no skip, no limit: the source query of the copy -/
def qCopy : Query := { coll := c, crit := some (.cmp .ge x (.lit (.num (.int 7)))) }
/-- `exists y ∧ x ≥ 7` on "d", no skip, no limit: the query of the delete -/
def qDel : Query := { coll := c', crit := some (.and (.exists_ y) (.cmp .ge x (.lit (.num (.int 7))))) }
/-- the read: `x ≥ 1` on "c", sorted by `x` ascending, skip 1, limit 1 -/
def q₂ : Query :=
  { coll := c, crit := some (.cmp .ge x (.lit (.num (.int 1)))), skip := 1, limit := 1, sort := [(x, 1)] }

/-- the history -/
def ops : List Op :=
  [.createCollection c, .createIndex c x, .insert c [d1, d2, d3] [], .update q₁ u₁,
   .createCollectionByQuery c' qCopy [], .createIndex c' x, .delete qDel]

/-! ## 2. the specification side, step by step -/

/-- "c" after the insertion -/
def coll0 : Spec.Coll := { indexes := [x], docs := [(id1, d1), (id2, d2), (id3, d3)] }
/-- "c" after the update (and until the end of the history) -/
def coll : Spec.Coll := { indexes := [x], docs := [(id1, d1), (id2, d2'), (id3, d3')] }
/-- "d" after the copy -/
def copy0 : Spec.Coll := { indexes := [], docs := [(id2, d2'), (id3, d3')] }
/-- "d" after `CreateIndex` -/
def copy1 : Spec.Coll := { indexes := [x], docs := [(id2, d2'), (id3, d3')] }
/-- "d" after the delete -/
def copy2 : Spec.Coll := { indexes := [x], docs := [(id3, d3')] }

def s1 : Spec.State := [(c, {})]
def s2 : Spec.State := [(c, { indexes := [x] })]
def s3 : Spec.State := [(c, coll0)]
def s4 : Spec.State := [(c, coll)]
def s5 : Spec.State := [(c, coll), (c', copy0)]
def s6 : Spec.State := [(c, coll), (c', copy1)]
/-- the specification state reached -/
def sFinal : Spec.State := [(c, coll), (c', copy2)]

theorem step1 : Spec.step likeFn fnFam [] (.createCollection c) = (.ok .unit, s1) := by
  simp only [Spec.step]; rfl
theorem step2 : Spec.step likeFn fnFam s1 (.createIndex c x) = (.ok .unit, s2) := by
  simp only [Spec.step]; rfl
theorem step3 : Spec.step likeFn fnFam s2 (.insert c [d1, d2, d3] []) = (.ok .unit, s3) := by
  simp only [Spec.step]; rfl
theorem step4 : Spec.step likeFn fnFam s3 (.update q₁ u₁) = (.ok (.docs [d2, d3]), s4) := by
  simp only [Spec.step]; rfl
theorem step5 : Spec.step likeFn fnFam s4 (.createCollectionByQuery c' qCopy []) = (.ok .unit, s5) := by
  simp only [Spec.step]; rfl
theorem step6 : Spec.step likeFn fnFam s5 (.createIndex c' x) = (.ok .unit, s6) := by
  simp only [Spec.step]; rfl
theorem step7 : Spec.step likeFn fnFam s6 (.delete qDel) = (.ok (.docs [d2']), sFinal) := by
  simp only [Spec.step]; rfl

/-- the specification's answers and final state along the history -/
theorem specRun_ops : specRun likeFn fnFam ops [] =
    ([.ok .unit, .ok .unit, .ok .unit, .ok (.docs [d2, d3]), .ok .unit, .ok .unit, .ok (.docs [d2'])], sFinal) := by
  simp only [ops, specRun, step1, step2, step3, step4, step5, step6, step7]

theorem specRun_state : (specRun likeFn fnFam ops []).2 = sFinal := by rw [specRun_ops]

/-- the collection the read queries, in the state reached; it has the index on `x` -/
theorem lookup_final : Spec.lookup q₂.coll (specRun likeFn fnFam ops []).2 = some coll := by
  rw [specRun_state]; rfl

example : coll.indexes = [x] := rfl

/-! ## 3. the plans: every query of the history is served from the index -/

theorem plan₁ : choosePlan coll0.indexes q₁ = (.idxRange x ⟨.num (.int 2), .null, true, false⟩ false, false) := rfl
theorem planCopy : choosePlan coll.indexes qCopy = (.idxRange x ⟨.num (.int 7), .null, true, false⟩ false, false) := rfl
theorem planDel : choosePlan copy1.indexes qDel = (.idxRange x ⟨.num (.int 7), .null, true, false⟩ false, false) := rfl
/-- the read is served by the index range, ascending, and the sort node is elided -/
theorem plan₂ : choosePlan coll.indexes q₂ = (.idxRange x ⟨.num (.int 1), .null, true, false⟩ false, true) := rfl

theorem plan₁_not_full : choosePlan [x] q₁ ≠ (.full, false) := by
  have h : choosePlan [x] q₁ = (.idxRange x ⟨.num (.int 2), .null, true, false⟩ false, false) := plan₁
  rw [h]; intro e; cases e
theorem planCopy_not_full : choosePlan [x] qCopy ≠ (.full, false) := by
  have h : choosePlan [x] qCopy = (.idxRange x ⟨.num (.int 7), .null, true, false⟩ false, false) := planCopy
  rw [h]; intro e; cases e
theorem planDel_not_full : choosePlan [x] qDel ≠ (.full, false) := by
  have h : choosePlan [x] qDel = (.idxRange x ⟨.num (.int 7), .null, true, false⟩ false, false) := planDel
  rw [h]; intro e; cases e
theorem plan₂_sorted : (choosePlan coll.indexes q₂).2 = true := by rw [plan₂]

/-- in particular none of the three writes satisfies `FullPlan` in the state it runs in: the second
    disjunct of `Op.InDomain` is the only way in -/
theorem update_not_fullPlan : ¬ FullPlan s3 q₁ := fun h => plan₁_not_full (h coll0 rfl)
theorem copy_not_fullPlan : ¬ FullPlan (Spec.insert c' ({} : Spec.Coll) s4) qCopy := fun h => planCopy_not_full (h coll rfl)
theorem delete_not_fullPlan : ¬ FullPlan s6 qDel := fun h => planDel_not_full (h copy1 rfl)

/-! ## 4. the value domain -/

theorem numOK_small (i : Int) (h1 : -10 ≤ i) (h2 : i ≤ 10) : numOK (.int i) := by
  have e : (2 : Int) ^ 53 = 9007199254740992 := by decide
  simp only [numOK, e]
  omega

theorem d1_ok : AllNumKV numOK d1 := by
  simp only [d1, AllNumKV, AllNum, true_and, and_true]; exact numOK_small 1 (by omega) (by omega)
theorem d2_ok : AllNumKV numOK d2 := by
  simp only [d2, AllNumKV, AllNum, true_and, and_true]; exact numOK_small 2 (by omega) (by omega)
theorem d3_ok : AllNumKV numOK d3 := by
  simp only [d3, AllNumKV, AllNum, true_and, and_true]; exact numOK_small 3 (by omega) (by omega)
theorem d2'_ok : AllNumKV numOK d2' := by
  simp only [d2', AllNumKV, AllNum, true_and, and_true]; exact numOK_small 7 (by omega) (by omega)
theorem d3'_ok : AllNumKV numOK d3' := by
  simp only [d3', AllNumKV, AllNum, true_and, and_true]; exact numOK_small 7 (by omega) (by omega)

theorem dom_int (i : Int) (h1 : -10 ≤ i) (h2 : i ≤ 10) : Dom numOK (.num (.int i)) := by
  simp only [Dom]; exact numOK_small i h1 h2

theorem numsOK_int (i : Int) (h1 : -10 ≤ i) (h2 : i ≤ 10) : NumsOK (.num (.int i)) := by
  simp only [NumsOK, AllNum]; exact numOK_small i h1 h2

/-- criteria `x ≥ i` with a small integer literal are in both criteria domains -/
theorem crit_ge_ok (i : Int) (h1 : -10 ≤ i) (h2 : i ≤ 10) :
    CritOK (.cmp .ge x (.lit (.num (.int i)))) ∧ CritDom (.cmp .ge x (.lit (.num (.int i)))) := by
  constructor
  · simp only [CritOK, OperandOK]; exact numsOK_int i h1 h2
  · simp only [CritDom, OperandDom]; exact dom_int i h1 h2

theorem get_d1 : d1.get x = .num (.int 1) := rfl
theorem get_d2 : d2.get x = .num (.int 2) := rfl
theorem get_d3 : d3.get x = .num (.int 3) := rfl
theorem get_d2' : d2'.get x = .num (.int 7) := rfl
theorem get_d3' : d3'.get x = .num (.int 7) := rfl

theorem keyDomain_coll0 : KeyDomain q₁ coll0 where
  docs := by
    intro e he
    simp only [coll0, List.mem_cons, List.not_mem_nil, or_false] at he
    rcases he with rfl | rfl | rfl
    · exact d1_ok
    · exact d2_ok
    · exact d3_ok
  crit := by
    intro cr h
    have : cr = .cmp .ge x (.lit (.num (.int 2))) := (Option.some.inj h).symm
    rw [this]; exact crit_ge_ok 2 (by omega) (by omega)
  indexed := by
    intro f hf e he
    simp only [coll0, List.mem_cons, List.not_mem_nil, or_false] at hf he
    subst hf
    rcases he with rfl | rfl | rfl
    · exact dom_int 1 (by omega) (by omega)
    · exact dom_int 2 (by omega) (by omega)
    · exact dom_int 3 (by omega) (by omega)

theorem coll_docs_ok : ∀ e ∈ coll.docs, AllNumKV numOK e.2 := by
  intro e he
  simp only [coll, List.mem_cons, List.not_mem_nil, or_false] at he
  rcases he with rfl | rfl | rfl
  · exact d1_ok
  · exact d2'_ok
  · exact d3'_ok

theorem coll_indexed_ok : ∀ f ∈ coll.indexes, ∀ e ∈ coll.docs, Dom numOK (e.2.get f) := by
  intro f hf e he
  simp only [coll, List.mem_cons, List.not_mem_nil, or_false] at hf he
  subst hf
  rcases he with rfl | rfl | rfl
  · exact dom_int 1 (by omega) (by omega)
  · exact dom_int 7 (by omega) (by omega)
  · exact dom_int 7 (by omega) (by omega)

theorem keyDomain_copy : KeyDomain qCopy coll where
  docs := coll_docs_ok
  crit := by
    intro cr h
    have : cr = .cmp .ge x (.lit (.num (.int 7))) := (Option.some.inj h).symm
    rw [this]; exact crit_ge_ok 7 (by omega) (by omega)
  indexed := coll_indexed_ok

theorem keyDomain_del : KeyDomain qDel copy1 where
  docs := by
    intro e he
    simp only [copy1, List.mem_cons, List.not_mem_nil, or_false] at he
    rcases he with rfl | rfl
    · exact d2'_ok
    · exact d3'_ok
  crit := by
    intro cr h
    have : cr = .and (.exists_ y) (.cmp .ge x (.lit (.num (.int 7)))) := (Option.some.inj h).symm
    rw [this]
    have h7 := crit_ge_ok 7 (by omega) (by omega)
    exact ⟨⟨trivial, h7.1⟩, ⟨trivial, h7.2⟩⟩
  indexed := by
    intro f hf e he
    simp only [copy1, List.mem_cons, List.not_mem_nil, or_false] at hf he
    subst hf
    rcases he with rfl | rfl
    · exact dom_int 7 (by omega) (by omega)
    · exact dom_int 7 (by omega) (by omega)

/-- **the key domain of the read**, in the collection reached -/
theorem keyDomain₂ : KeyDomain q₂ coll where
  docs := coll_docs_ok
  crit := by
    intro cr h
    have : cr = .cmp .ge x (.lit (.num (.int 1))) := (Option.some.inj h).symm
    rw [this]; exact crit_ge_ok 1 (by omega) (by omega)
  indexed := coll_indexed_ok

/-! ## 5. the history is in the domain -/

theorem ops_ok : ∀ op ∈ ops, OpOK op := by
  intro op h
  simp only [ops, List.mem_cons, List.not_mem_nil, or_false] at h
  rcases h with rfl | rfl | rfl | rfl | rfl | rfl | rfl
  · simp [OpOK, Clean, semi, c]
  · simp [OpOK, Clean, semi, x]
  · trivial
  · trivial
  · simp [OpOK, Clean, semi, c']
  · simp [OpOK, Clean, semi, x]
  · trivial

theorem bulkDomain_update : BulkDomain s3 q₁ := by
  intro cl h
  have : cl = coll0 := (Option.some.inj h).symm
  rw [this]
  exact ⟨keyDomain_coll0, rfl, by decide⟩

theorem copyDomain_copy : CopyDomain s4 c' qCopy := by
  refine ⟨?_, rfl, by decide⟩
  intro src h
  have : src = coll := (Option.some.inj h).symm
  rw [this]
  exact keyDomain_copy

theorem bulkDomain_delete : BulkDomain s6 qDel := by
  intro cl h
  have : cl = copy1 := (Option.some.inj h).symm
  rw [this]
  exact ⟨keyDomain_del, rfl, by decide⟩

/-- the history is in the any-plan domain; the update, the copy and the delete enter it through the
    SECOND disjunct (`update_not_fullPlan`, `copy_not_fullPlan`, `delete_not_fullPlan` exclude the first) -/
theorem ops_inDomain : AllInDomain likeFn fnFam ops [] := by
  simp only [ops, AllInDomain, Op.InDomain, step1, step2, step3, step4, step5, step6, true_and, and_true]
  exact ⟨Or.inr (Or.inl bulkDomain_update), Or.inr (Or.inl copyDomain_copy), Or.inr (Or.inl bulkDomain_delete)⟩

/-! ## 6. the sort domain and the no-explicit-nil condition of the read -/

/-- the documents of "c" matching the read's criteria -/
theorem matching₂ :
    (coll.docs.map (·.2)).filter (fun d => satOpt likeFn fnFam d q₂.crit) = [d1, d2', d3'] := rfl

theorem sortDom₂ : SortDom q₂.sort ((coll.docs.map (·.2)).filter (fun d => satOpt likeFn fnFam d q₂.crit)) := by
  rw [matching₂]
  have hint : ∀ a ∈ [d1, d2', d3'], ∃ i : Int, a.get x = .num (.int i) := by
    intro a ha
    simp only [List.mem_cons, List.not_mem_nil, or_false] at ha
    rcases ha with rfl | rfl | rfl
    · exact ⟨1, rfl⟩
    · exact ⟨7, rfl⟩
    · exact ⟨7, rfl⟩
  constructor
  · intro o ho
    simp only [q₂, List.mem_cons, List.not_mem_nil, or_false] at ho
    subst ho
    exact Or.inl rfl
  · intro a ha b hb o ho
    simp only [q₂, List.mem_cons, List.not_mem_nil, or_false] at ho
    subst ho
    obtain ⟨i, hi⟩ := hint a ha
    obtain ⟨j, hj⟩ := hint b hb
    show PairDom (a.get x) (b.get x)
    rw [hi, hj]
    left
    constructor <;> simp [NoFloat, AllNum, Num.isFloat]

theorem noNil₂ : (choosePlan coll.indexes q₂).2 = true →
    ∀ o ∈ q₂.sort, ∀ d ∈ (coll.docs.map (·.2)).filter (fun d => satOpt likeFn fnFam d q₂.crit),
      d.has o.1 = true → d.get o.1 ≠ .null := by
  intro _ o ho d hd _
  rw [matching₂] at hd
  simp only [q₂, List.mem_cons, List.not_mem_nil, or_false] at ho hd
  subst ho
  show d.get x ≠ .null
  rcases hd with rfl | rfl | rfl
  · rw [get_d1]; intro e; cases e
  · rw [get_d2']; intro e; cases e
  · rw [get_d3']; intro e; cases e

/-! ## 7. the specification's answer to the read -/

theorem sorted₂ : sortDocs q₂.sort [d1, d2', d3'] = [d1, d2', d3'] := by
  unfold sortDocs
  apply List.mergeSort_of_pairwise
  simp only [List.pairwise_cons, List.mem_cons, List.not_mem_nil, or_false, forall_eq_or_imp, forall_eq,
    List.Pairwise.nil, and_true, false_imp_iff, implies_true]
  decide

/-- sorted by `x`: `d1` (1), then the tie class `d2'`, `d3'` (7, 7); the window keeps the second -/
theorem spec_findAll₂ : Spec.findAll likeFn fnFam q₂ coll = [d2'] := by
  unfold Spec.findAll
  simp only [matching₂]
  have h : q₂.sort.isEmpty = false := rfl
  simp only [h, sorted₂]
  rfl

/-- the window really cuts a tie class: `d3'` ties with the specification's answer -/
example : compareDocuments d3' d2' q₂.sort = 0 := by decide

/-! ## 8. the theorems, instantiated -/

/-- `refine_states_from_empty` on the witness: the store left by the model after the history
    represents the explicit state `sFinal` -/
theorem witness_states :
    Rep sFinal (modelRun likeFn fnFam ops {}).2.kv ∧ WF sFinal ∧ (modelRun likeFn fnFam ops {}).2.closed = false := by
  have h := refine_states_from_empty likeFn fnFam ops ops_ok ops_inDomain
  rw [specRun_state] at h
  exact h

/-- … and the failure flags agree call by call: no call of the history fails in the model -/
theorem witness_errs :
    (modelRun likeFn fnFam ops {}).1.map Res.isErr = [false, false, false, false, false, false, false] := by
  have h := refine_errs_any_plan likeFn fnFam ops ops_ok [] {} rfl wf_empty rep_empty ops_inDomain
  rw [specRun_ops] at h
  exact h

/-- `findAll_after_history_up_to_ties` on the witness: after the history, the index-served, sort-elided,
    windowed `FindAll` of the model answers exactly one document, tied with `d2'` (so: `d2'` or `d3'`) -/
theorem witness_findAll :
    ∃ res, (withTx false (Op.body likeFn fnFam (.findAll q₂)) noFault (modelRun likeFn fnFam ops {}).2.kv).1 =
        .ok (.docs res) ∧
      List.Forall₂ (fun a b => compareDocuments a b q₂.sort = 0) res [d2'] := by
  have h := findAll_after_history_up_to_ties likeFn fnFam ops ops_ok ops_inDomain q₂ coll lookup_final
    keyDomain₂ sortDom₂ noNil₂
  rw [spec_findAll₂] at h
  exact h

/-- the same, spelled out: one document, carrying `x`, whose `x` compares equal to 7 -/
theorem witness_findAll_one :
    ∃ r, (withTx false (Op.body likeFn fnFam (.findAll q₂)) noFault (modelRun likeFn fnFam ops {}).2.kv).1 =
        .ok (.docs [r]) ∧ compareDocuments r d2' [(x, 1)] = 0 := by
  obtain ⟨res, h1, h2⟩ := witness_findAll
  cases h2 with
  | cons hab hrest =>
    cases hrest
    exact ⟨_, h1, hab⟩

/-- `count_any_plan` on the witness -/
theorem witness_count :
    (withTx false (Op.body likeFn fnFam (.count q₂)) noFault (modelRun likeFn fnFam ops {}).2.kv).1 = .ok (.int 1) := by
  obtain ⟨hr, hw, _⟩ := witness_states
  rw [count_any_plan likeFn fnFam sFinal _ hw hr q₂ coll rfl keyDomain₂]
  simp only [Spec.step, Spec.withColl]
  have hl : Spec.lookup q₂.coll sFinal = some coll := rfl
  simp only [hl, spec_findAll₂]
  rfl

/-- `exists_exact_any_plan` on the witness -/
theorem witness_exists :
    (withTx false (Op.body likeFn fnFam (.exists_ q₂)) noFault (modelRun likeFn fnFam ops {}).2.kv).1 =
      .ok (.bool true) := by
  obtain ⟨hr, hw, _⟩ := witness_states
  rw [exists_exact_any_plan likeFn fnFam sFinal _ hw hr q₂ coll rfl keyDomain₂]
  have e : Spec.findAll likeFn fnFam { q₂ with limit := 1 } coll = [d2'] := spec_findAll₂
  have hl : Spec.lookup q₂.coll sFinal = some coll := rfl
  simp only [Spec.step, Spec.withColl, hl, e]
  rfl

/-- `update_exact_any_plan` on the witness: its hypotheses hold in the state `s3` of the history
    (the specification's update does not fail there), whatever store represents `s3` -/
theorem witness_update (σ : KVS) (hr : Rep s3 σ) (hw : WF s3) :
    ∃ sel, (withTx true (Op.body likeFn fnFam (.update q₁ u₁)) noFault σ).1 = .ok (.docs sel) ∧
      sel.Perm [d2, d3] ∧ Rep s4 (withTx true (Op.body likeFn fnFam (.update q₁ u₁)) noFault σ).2.1 ∧ WF s4 := by
  have h := (update_exact_any_plan likeFn fnFam s3 σ hw hr q₁ u₁ coll0 rfl keyDomain_coll0 rfl (by decide)).2
  rw [step4] at h
  have e : Spec.findAll likeFn fnFam q₁ coll0 = [d2, d3] := rfl
  rw [e] at h
  exact h rfl

end CV.Witness
