import Clover.Probe.PlannerProofs
/-! # On C17's domain the scan's bound tests are the value reading of the range -/
namespace Pl
variable {V : Type} (O : VOrd V)

/-- C17's ranges: at least one non-nil bound, or the nil-only range -/
def RangeDom (r : Range V) : Prop := O.isNil r.start = false ∨ O.isNil r.stop = false ∨ r.isNilR O = true

theorem J_of_dom (r : Range V) (hd : RangeDom O r) : J O r := by
  intro hs he
  rcases hd with h | h | h
  · exact h
  · simp [hs] at h
  · simp [Range.isNilR, he] at h

theorem cmp_pos_of_not_nil (v : V) (h : O.isNil v = false) : O.cmp v O.nil > 0 := by
  have h1 := O.nil_min v
  have h2 := (O.antisymm O.nil v)
  by_cases h0 : O.cmp v O.nil = 0
  · have := O.nil_eq v h0
    have := (O.isNil_iff v).2 this
    simp [h] at this
  · rcases Int.lt_trichotomy (O.cmp v O.nil) 0 with hlt | heq | hgt
    · have := (O.antisymm v O.nil).1.1 hlt; omega
    · exact absurd heq h0
    · exact hgt

theorem inScan_valSem (r : Range V) (v : V) (hd : RangeDom O r) (h : inScan O r v = true) : valSem O r v := by
  unfold inScan at h
  simp only [Bool.and_eq_true, Bool.not_eq_true', Bool.or_eq_true, decide_eq_true_eq, beq_iff_eq] at h
  obtain ⟨⟨hne, hlo⟩, hhi⟩ := h
  constructor
  · unfold lowerOK
    cases hs : O.isNil r.start with
    | true => exact Or.inl rfl
    | false =>
      rcases hlo with hlo | hlo | hlo
      · simp [hs] at hlo
      · exact Or.inr (Or.inl hlo)
      · exact Or.inr (Or.inr hlo)
  · unfold upperOK
    rcases hhi with hhi | hhi | hhi
    · -- no end test: stop is nil and the range is not nil-only
      simp only [Bool.or_eq_false_iff, Bool.not_eq_false'] at hhi
      obtain ⟨hstop, hnr⟩ := hhi
      cases hei : r.ei with
      | false => exact Or.inl ⟨hstop, rfl⟩
      | true =>
        exfalso
        have hstart : O.isNil r.start = false := by
          rcases hd with h | h | h
          · exact h
          · simp [hstop] at h
          · simp [hnr] at h
        have hstopnil : r.stop = O.nil := (O.isNil_iff _).1 hstop
        have hpos := cmp_pos_of_not_nil O r.start hstart
        unfold Range.isEmpty at hne
        simp [hstart, hstop, hei, hstopnil, hpos] at hne
    · exact Or.inr (Or.inl hhi)
    · exact Or.inr (Or.inr hhi)

/-- on C17's domain: an entry is yielded by the scan iff its value lies within the bounds -/
theorem inScan_iff_valSem (r : Range V) (v : V) (hd : RangeDom O r) : inScan O r v = true ↔ valSem O r v :=
  ⟨inScan_valSem O r v hd, valSem_inScan O r v (J_of_dom O r hd)⟩

/-- a range is reported empty only if no value can lie in it -/
theorem isEmpty_sound (r : Range V) (v : V) (hd : RangeDom O r) (he : r.isEmpty O = true) : ¬ valSem O r v := by
  intro hv
  have := valSem_inScan O r v (J_of_dom O r hd) hv
  unfold inScan at this
  simp [he] at this

end Pl
