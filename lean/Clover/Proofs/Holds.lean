import Clover.Proofs.RefineWrites
/-! # The representation relation, key by key

`Holds s k v`: in the abstract state `s` the key `k` is bound to `v`.  Under well-formedness this
is exactly `assoc k (entries s) = some v`, so `Rep s σ` says: `σ` is sorted and `kvGet σ k = some v`
iff `Holds s k v`.  The relation localises to one collection (`HoldsC`) and inside it to the
document/index keys (`HoldsD`), which is what the write operations touch. -/
namespace CV
open OC Keys

/-- the document and index keys of one collection -/
inductive HoldsD (c : Bytes) (coll : Spec.Coll) : Bytes → SVal → Prop
  | doc (id : Bytes) (d : Doc) : Spec.lookup id coll.docs = some d → HoldsD c coll (docKey c id) (.doc d)
  | idx (f id : Bytes) (d : Doc) : f ∈ coll.indexes → Spec.lookup id coll.docs = some d →
      HoldsD c coll (CV.idxKey c f (d.get f) id) .unit

/-- all keys of one collection -/
inductive HoldsC (c : Bytes) (coll : Spec.Coll) : Bytes → SVal → Prop
  | cmeta : HoldsC c coll (metaKey c) (.cmeta ⟨coll.docs.length, coll.indexes⟩)
  | data (k : Bytes) (v : SVal) : HoldsD c coll k v → HoldsC c coll k v

def Holds (s : Spec.State) (k : Bytes) (v : SVal) : Prop :=
  ∃ c coll, Spec.lookup c s = some coll ∧ HoldsC c coll k v

/-! ## lookup versus membership -/

theorem lookup_some_mem {α} (k : Bytes) (v : α) : (l : List (Bytes × α)) → Spec.lookup k l = some v → (k, v) ∈ l
  | [], h => by simp [Spec.lookup] at h
  | (k', v') :: t, h => by
    simp only [Spec.lookup] at h
    by_cases hk : k = k'
    · simp only [hk, if_true, Option.some.injEq] at h; rw [hk, h]; simp
    · simp only [hk, if_false] at h
      exact List.mem_cons_of_mem _ (lookup_some_mem k v t h)

theorem mem_lookup_some {α} (k : Bytes) (v : α) : (l : List (Bytes × α)) → (l.map (·.1)).Nodup → (k, v) ∈ l →
    Spec.lookup k l = some v
  | [], _, h => by simp at h
  | (k', v') :: t, hnd, h => by
    simp only [List.map, List.nodup_cons] at hnd
    simp only [Spec.lookup]
    rcases List.mem_cons.1 h with e | e
    · simp only [Prod.mk.injEq] at e; simp [e.1, e.2]
    · have : k ≠ k' := by
        intro hk; subst hk
        exact hnd.1 (List.mem_map.2 ⟨(k, v), e, rfl⟩)
      simp only [this, if_false]
      exact mem_lookup_some k v t hnd.2 e

/-! ## membership in the flattened entries -/

theorem mem_collEntries (c : Bytes) (coll : Spec.Coll) (hnd : (coll.docs.map (·.1)).Nodup) (k : Bytes) (v : SVal) :
    (k, v) ∈ collEntries c coll ↔ HoldsC c coll k v := by
  constructor
  · intro h
    simp only [collEntries, List.mem_cons, List.mem_append] at h
    rcases h with h | h | h
    · simp only [Prod.mk.injEq] at h; rw [h.1, h.2]; exact .cmeta
    · simp only [docEntries, List.mem_map] at h
      obtain ⟨x, hx, he⟩ := h
      simp only [Prod.mk.injEq] at he
      rw [← he.1, ← he.2]
      exact .data _ _ (.doc x.1 x.2 (mem_lookup_some x.1 x.2 _ hnd hx))
    · simp only [idxEntries, idxEntriesOf, List.mem_flatMap, List.mem_map] at h
      obtain ⟨f, hf, x, hx, he⟩ := h
      simp only [Prod.mk.injEq] at he
      rw [← he.1, ← he.2]
      exact .data _ _ (.idx f x.1 x.2 hf (mem_lookup_some x.1 x.2 _ hnd hx))
  · intro h
    simp only [collEntries, List.mem_cons, List.mem_append]
    cases h with
    | cmeta => exact Or.inl rfl
    | data k v hd =>
      cases hd with
      | doc id d hl =>
        refine Or.inr (Or.inl ?_)
        simp only [docEntries, List.mem_map]
        exact ⟨(id, d), lookup_some_mem id d _ hl, rfl⟩
      | idx f id d hf hl =>
        refine Or.inr (Or.inr ?_)
        simp only [idxEntries, idxEntriesOf, List.mem_flatMap, List.mem_map]
        exact ⟨f, hf, (id, d), lookup_some_mem id d _ hl, rfl⟩

theorem mem_entries (s : Spec.State) (hw : WF s) (k : Bytes) (v : SVal) : (k, v) ∈ entries s ↔ Holds s k v := by
  constructor
  · intro h
    simp only [entries, List.mem_flatMap] at h
    obtain ⟨p, hp, hk⟩ := h
    exact ⟨p.1, p.2, mem_lookup_some p.1 p.2 s hw.namesDistinct hp,
      (mem_collEntries p.1 p.2 (hw.colls p hp).idsDistinct k v).1 hk⟩
  · rintro ⟨c, coll, hl, hk⟩
    have hp := lookup_some_mem c coll s hl
    simp only [entries, List.mem_flatMap]
    exact ⟨(c, coll), hp, (mem_collEntries c coll (hw.colls _ hp).idsDistinct k v).2 hk⟩

/-! ## a key is bound to at most one value -/

theorem holdsD_key (c : Bytes) (coll : Spec.Coll) (k : Bytes) (v : SVal) (h : HoldsD c coll k v) :
    (∃ id, k = docKey c id) ∨ (∃ f rest, k = Keys.idxKey c f rest) := by
  cases h with
  | doc id d _ => exact Or.inl ⟨id, rfl⟩
  | idx f id d _ _ => exact Or.inr ⟨f, _, rfl⟩

theorem docKey_ne_kIdxKey (c c' f id rest : Bytes) (hc : Clean c) (hc' : Clean c') :
    docKey c id ≠ Keys.idxKey c' f rest := by
  intro h
  have h1 := idxKey_not_docPrefix c' c f rest hc' hc
  have h2 : isPrefix (docPrefix c) (docKey c id) = true := isPrefix_append _ _
  rw [h] at h2
  simp [h1] at h2

theorem metaKey_ne_kIdxKey (c c' f rest : Bytes) : metaKey c ≠ Keys.idxKey c' f rest := by
  unfold Keys.idxKey idxPrefix
  rw [List.append_assoc, List.append_assoc]
  exact metaKey_ne_cKey c c' _

/-- keys of the data part of a collection name their collection -/
theorem kIdxKey_coll (c c' f f' rest rest' : Bytes) (hc : Clean c) (hc' : Clean c')
    (h : Keys.idxKey c f rest = Keys.idxKey c' f' rest') : c = c' := by
  unfold Keys.idxKey idxPrefix at h
  simp only [List.append_assoc] at h
  have h2 := List.append_cancel_left h
  exact (clean_split c c' _ _ hc hc' (by simpa using h2)).1

theorem holdsD_fun (c : Bytes) (coll : Spec.Coll) (hc : Clean c) (k : Bytes) (v v' : SVal)
    (h : HoldsD c coll k v) (h' : HoldsD c coll k v') : v = v' := by
  cases h with
  | doc id d hl =>
    generalize hk : docKey c id = k at h'
    cases h' with
    | doc id' d' hl' =>
      have := (docKey_inj c c id id' hc hc hk).2
      subst this
      rw [hl] at hl'; simp only [Option.some.injEq] at hl'; rw [hl']
    | idx f id' d' _ _ => exact absurd hk (docKey_ne_idxKey c c f id id' _ hc hc)
  | idx f id d _ _ =>
    generalize hk : CV.idxKey c f (d.get f) id = k at h'
    cases h' with
    | doc id' d' hl' => exact absurd hk.symm (docKey_ne_idxKey c c f id' id _ hc hc)
    | idx => rfl

theorem holdsC_fun (c : Bytes) (coll : Spec.Coll) (hc : Clean c) (k : Bytes) (v v' : SVal)
    (h : HoldsC c coll k v) (h' : HoldsC c coll k v') : v = v' := by
  cases h with
  | cmeta =>
    generalize hk : metaKey c = k at h'
    cases h' with
    | cmeta => rfl
    | data k v hd =>
      rcases holdsD_key c coll _ _ hd with ⟨id, e⟩ | ⟨f, rest, e⟩
      · exact absurd (hk.trans e) (metaKey_ne_docKey c c id)
      · exact absurd (hk.trans e) (metaKey_ne_kIdxKey c c f rest)
  | data k v hd =>
    cases h' with
    | cmeta =>
      rcases holdsD_key c coll _ _ hd with ⟨id, e⟩ | ⟨f, rest, e⟩
      · exact absurd e (metaKey_ne_docKey c c id)
      · exact absurd e (metaKey_ne_kIdxKey c c f rest)
    | data k v' hd' => exact holdsD_fun c coll hc k v v' hd hd'

/-- which collection a key belongs to -/
def Owns (c : Bytes) (k : Bytes) : Prop :=
  k = metaKey c ∨ (∃ id, k = docKey c id) ∨ (∃ f rest, k = Keys.idxKey c f rest)

theorem holdsC_owns (c : Bytes) (coll : Spec.Coll) (k : Bytes) (v : SVal) (h : HoldsC c coll k v) : Owns c k := by
  cases h with
  | cmeta => exact Or.inl rfl
  | data k v hd => exact Or.inr (holdsD_key c coll k v hd)

theorem docKey_coll (c c' id id' : Bytes) (hc : Clean c) (hc' : Clean c') (h : docKey c id = docKey c' id') : c = c' :=
  (docKey_inj c c' id id' hc hc' h).1

/-- a key belongs to at most one (clean) collection name -/
theorem owns_unique (c c' k : Bytes) (hc : Clean c) (hc' : Clean c') (h : Owns c k) (h' : Owns c' k) : c = c' := by
  rcases h with e | ⟨id, e⟩ | ⟨f, rest, e⟩ <;> rcases h' with e' | ⟨id', e'⟩ | ⟨f', rest', e'⟩
  · exact metaKey_inj c c' (e.symm.trans e')
  · exact absurd (e.symm.trans e') (metaKey_ne_docKey c c' id')
  · exact absurd (e.symm.trans e') (metaKey_ne_kIdxKey c c' f' rest')
  · exact absurd (e'.symm.trans e) (metaKey_ne_docKey c' c id)
  · exact docKey_coll c c' id id' hc hc' (e.symm.trans e')
  · exact absurd (e.symm.trans e') (docKey_ne_kIdxKey c c' f' id rest' hc hc')
  · exact absurd (e'.symm.trans e) (metaKey_ne_kIdxKey c' c f rest)
  · exact absurd (e'.symm.trans e) (docKey_ne_kIdxKey c' c f id' rest hc' hc)
  · exact kIdxKey_coll c c' f f' rest rest' hc hc' (e.symm.trans e')

theorem wf_lookup_clean (s : Spec.State) (hw : WF s) (c : Bytes) (coll : Spec.Coll) (hl : Spec.lookup c s = some coll) :
    Clean c ∧ CollWF coll := by
  have hp := lookup_some_mem c coll s hl
  exact ⟨hw.namesClean _ hp, hw.colls _ hp⟩

theorem holds_fun (s : Spec.State) (hw : WF s) (k : Bytes) (v v' : SVal) (h : Holds s k v) (h' : Holds s k v') : v = v' := by
  obtain ⟨c, coll, hl, hk⟩ := h
  obtain ⟨c', coll', hl', hk'⟩ := h'
  have hc := (wf_lookup_clean s hw c coll hl).1
  have hc' := (wf_lookup_clean s hw c' coll' hl').1
  have : c = c' := owns_unique c c' k hc hc' (holdsC_owns _ _ _ _ hk) (holdsC_owns _ _ _ _ hk')
  subst this
  rw [hl] at hl'; simp only [Option.some.injEq] at hl'; subst hl'
  exact holdsC_fun c coll hc k v v' hk hk'

/-! ## `assoc` over the entries is `Holds` -/

theorem assoc_some_mem' (k : Bytes) (v : SVal) : (l : List (Bytes × SVal)) → assoc k l = some v → (k, v) ∈ l
  | [], h => by simp [assoc] at h
  | (k', v') :: t, h => by
    simp only [assoc] at h
    by_cases hk : k = k'
    · simp only [hk, if_true, Option.some.injEq] at h; rw [hk, h]; simp
    · simp only [hk, if_false] at h
      exact List.mem_cons_of_mem _ (assoc_some_mem' k v t h)

theorem mem_assoc_some (k : Bytes) (v : SVal) : (l : List (Bytes × SVal)) → (k, v) ∈ l → ∃ v', assoc k l = some v'
  | [], h => by simp at h
  | (k', v') :: t, h => by
    simp only [assoc]
    by_cases hk : k = k'
    · exact ⟨v', by simp [hk]⟩
    · simp only [hk, if_false]
      rcases List.mem_cons.1 h with e | e
      · simp only [Prod.mk.injEq] at e; exact absurd e.1 hk
      · exact mem_assoc_some k v t e

theorem assoc_entries_iff (s : Spec.State) (hw : WF s) (k : Bytes) (v : SVal) :
    assoc k (entries s) = some v ↔ Holds s k v := by
  constructor
  · intro h; exact (mem_entries s hw k v).1 (assoc_some_mem' k v _ h)
  · intro h
    obtain ⟨v', hv'⟩ := mem_assoc_some k v _ ((mem_entries s hw k v).2 h)
    have h' := (mem_entries s hw k v').1 (assoc_some_mem' k v' _ hv')
    rw [hv', holds_fun s hw k v v' h h']

/-- the representation relation, key by key -/
theorem rep_iff_holds (s : Spec.State) (hw : WF s) (σ : KVS) :
    Rep s σ ↔ KSorted σ ∧ ∀ k v, kvGet σ k = some v ↔ Holds s k v := by
  constructor
  · rintro ⟨hs, h⟩
    exact ⟨hs, fun k v => by rw [h k]; exact assoc_entries_iff s hw k v⟩
  · rintro ⟨hs, h⟩
    refine ⟨hs, fun k => ?_⟩
    cases hg : kvGet σ k with
    | some v => exact ((assoc_entries_iff s hw k v).2 ((h k v).1 hg)).symm
    | none =>
      cases ha : assoc k (entries s) with
      | none => rfl
      | some v =>
        have := (h k v).2 ((assoc_entries_iff s hw k v).1 ha)
        rw [hg] at this; simp at this

end CV
