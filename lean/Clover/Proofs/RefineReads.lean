import Clover.Proofs.RepKeys
import Clover.Proofs.ScanRun
import Clover.Proofs.Window
import Clover.Model.DB
/-! # Refinement of the point reads: under the representation relation the model answers what the
    specification answers -/
namespace CV
open OC Keys StoreM

variable (likeFn : LikeFn) (fnFam : FnFam)

/-- the context a transaction body starts in -/
def ctx0 (w : Bool) (σ : KVS) : Ctx := ⟨σ, 1, false, [.begin w], false⟩

theorem withTx_read_noFault {α} (body : StoreM α) (σ : KVS) :
    (withTx false body noFault σ).1 = (body noFault (ctx0 false σ)).1 := by
  unfold withTx ctx0
  have h0 : noFault 0 = false := rfl
  simp only [h0, Bool.false_eq_true, if_false]
  cases h : body noFault ⟨σ, 1, false, [.begin false], false⟩ with
  | mk r c => cases r <;> simp

theorem get_val (k : Bytes) (c : Ctx) : ((StoreM.get k) noFault c).1 = .ok (kvGet c.work k) := by
  obtain ⟨c', h, _⟩ := get_run k c; rw [h]

/-- `HasCollection` answers whether the specification has the collection -/
theorem hasCollection_refines (s : Spec.State) (σ : KVS) (hr : Rep s σ) (c : Bytes) :
    (withTx false (Op.body likeFn fnFam (.hasCollection c)) noFault σ).1 =
      (Spec.step likeFn fnFam s (.hasCollection c)).1 := by
  rw [withTx_read_noFault]
  obtain ⟨c1, h1, s1⟩ := get_run (metaKey c) (ctx0 false σ)
  simp only [Op.body]
  rw [bind_run _ _ _ c1 _ h1]
  simp only [ctx0, hr.2, assoc_meta, Spec.step]
  cases Spec.lookup c s <;> rfl

/-- `FindById` returns the document iff it is live (and reports a missing collection) -/
theorem findById_refines (s : Spec.State) (σ : KVS) (hw : WF s) (hr : Rep s σ) (c id : Bytes) (hc : Clean c) :
    (withTx false (Op.body likeFn fnFam (.findById c id)) noFault σ).1 =
      (Spec.step likeFn fnFam s (.findById c id)).1 := by
  rw [withTx_read_noFault]
  obtain ⟨c1, h1, s1⟩ := get_run (metaKey c) (ctx0 false σ)
  simp only [Op.body]
  rw [bind_run _ _ _ c1 _ h1]
  have hm : kvGet (ctx0 false σ).work (metaKey c) = (Spec.lookup c s).map (fun coll => SVal.cmeta ⟨coll.docs.length, coll.indexes⟩) := by
    simp only [ctx0, hr.2, assoc_meta]
  rw [hm]
  simp only [Spec.step, Spec.withColl]
  cases hl : Spec.lookup c s with
  | none => rfl
  | some coll =>
    simp only [Option.map_some]
    obtain ⟨c2, h2, s2⟩ := get_run (docKey c id) c1
    rw [bind_run _ _ _ c2 _ h2]
    have hd : kvGet c1.work (docKey c id) = (Spec.lookup id coll.docs).map SVal.doc := by
      rw [s1.1]
      simp only [ctx0, hr.2, assoc_doc c id hc s hw.namesClean hw.namesDistinct, hl, Option.bind_some]
    rw [hd]
    cases Spec.lookup id coll.docs <;> rfl

end CV
