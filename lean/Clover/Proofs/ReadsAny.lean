import Clover.Proofs.IterSound
/-! # `FindAll` under any plan: nothing is returned that should not be -/
namespace CV
open OC Keys StoreM

variable (likeFn : LikeFn) (fnFam : FnFam)

/-- the answer of a fault-free `FindAll`, whatever the plan: the skip/limit window of the filtered
    (and, when the sort node is present, sorted) candidates of the plan -/
theorem findAll_run_any_plan (s : Spec.State) (σ : KVS) (hw : WF s) (hr : Rep s σ) (q : Query)
    (coll : Spec.Coll) (hl : Spec.lookup q.coll s = some coll) :
    (withTx false (Op.body likeFn fnFam (.findAll q)) noFault σ).1 =
      .ok (.docs (Spec.window q.skip q.limit
        (let cands := candidates σ q.coll (coll.docs.map (·.2)) (choosePlan coll.indexes q).1
         if needSort q (choosePlan coll.indexes q).2
         then sortDocs q.sort (cands.filter (fun d => satOpt likeFn fnFam d q.crit))
         else cands.filter (fun d => satOpt likeFn fnFam d q.crit)))) := by
  rw [withTx_read_noFault]
  obtain ⟨c2, h2, _⟩ := iterateDocs_run likeFn fnFam s (ctx0 false σ) hw hr q none coll hl
  simp only [Op.body]
  rw [bind_run _ _ _ c2 _ h2, pipeline_none]
  rfl

/-- **No plan returns a document it should not**: every document a fault-free `FindAll` returns is a
    live document of the collection carrying the fields last written, satisfies the criteria, and no
    document is returned twice — for every index set and whichever plan the planner chose. -/
theorem findAll_sound_any_plan (s : Spec.State) (σ : KVS) (hw : WF s) (hr : Rep s σ) (q : Query)
    (coll : Spec.Coll) (hl : Spec.lookup q.coll s = some coll) :
    ∃ res, (withTx false (Op.body likeFn fnFam (.findAll q)) noFault σ).1 = .ok (.docs res) ∧
      (∀ d ∈ res, Spec.lookup d.objectId coll.docs = some d ∧ satOpt likeFn fnFam d q.crit = true) ∧
      (res.map Doc.objectId).Nodup := by
  refine ⟨_, findAll_run_any_plan likeFn fnFam s σ hw hr q coll hl, ?_⟩
  have hlive := candidates_live s σ hw hr q.coll coll hl (choosePlan coll.indexes q).1 (choosePlan_fieldIn coll.indexes q)
  simp only at hlive ⊢
  generalize candidates σ q.coll (coll.docs.map (·.2)) (choosePlan coll.indexes q).1 = cands at hlive ⊢
  have hwin : ∀ l : List Doc, (Spec.window q.skip q.limit l).Sublist l := by
    intro l
    unfold Spec.window
    split
    · exact List.drop_sublist _ _
    · exact (List.take_sublist _ _).trans (List.drop_sublist _ _)
  have hfl : (cands.filter (fun d => satOpt likeFn fnFam d q.crit)).Sublist cands := List.filter_sublist
  cases hns : needSort q (choosePlan coll.indexes q).2 with
  | false =>
    simp only [Bool.false_eq_true, if_false]
    constructor
    · intro d hd
      have hm := (hwin _).subset hd
      have := List.mem_filter.1 hm
      exact ⟨hlive.1 d this.1, this.2⟩
    · exact (((hwin _).trans hfl).map _).nodup hlive.2
  | true =>
    simp only [if_true]
    have hperm : (sortDocs q.sort (cands.filter (fun d => satOpt likeFn fnFam d q.crit))).Perm
        (cands.filter (fun d => satOpt likeFn fnFam d q.crit)) := List.mergeSort_perm _ _
    constructor
    · intro d hd
      have hm := (hperm.mem_iff).1 ((hwin _).subset hd)
      have := List.mem_filter.1 hm
      exact ⟨hlive.1 d this.1, this.2⟩
    · have hnd : ((sortDocs q.sort (cands.filter (fun d => satOpt likeFn fnFam d q.crit))).map Doc.objectId).Nodup :=
        ((hperm.map _).nodup_iff).2 ((hfl.map _).nodup hlive.2)
      exact ((hwin _).map _).nodup hnd

end CV
