import Clover.Proofs.RefinePoint
/-! # `DeleteById` refines the specification; the catalog reads `HasIndex`, `ListIndexes` -/
namespace CV
open OC Keys StoreM

variable (likeFn : LikeFn) (fnFam : FnFam)

/-- an error of the first program is the error of the sequence (outcome only) -/
theorem bind_err_fst {α β} (m : StoreM α) (f : α → StoreM β) (c : Ctx) (e : Err)
    (h : (m noFault c).1 = .err e) : ((m >>= f) noFault c).1 = .err e := by
  show (bind' m f noFault c).1 = _
  unfold bind'
  cases hm : m noFault c with
  | mk r c' =>
    rw [hm] at h
    simp only at h
    subst h
    rfl

/-- `HasIndex` answers whether the field is in the specification's catalog -/
theorem hasIndex_refines (s : Spec.State) (σ : KVS) (hr : Rep s σ) (c f : Bytes) :
    (withTx false (Op.body likeFn fnFam (.hasIndex c f)) noFault σ).1 =
      (Spec.step likeFn fnFam s (.hasIndex c f)).1 := by
  rw [withTx_read_noFault]
  have hm := rep_meta s σ hr c
  simp only [Op.body, Spec.step, Spec.withColl]
  cases hl : Spec.lookup c s with
  | none =>
    rw [hl] at hm
    exact bind_err_fst _ _ _ _ (getMeta_run_none c (ctx0 false σ) hm)
  | some coll =>
    rw [hl] at hm
    simp only [Option.map_some] at hm
    obtain ⟨c1, h1, s1⟩ := getMeta_run c ⟨coll.docs.length, coll.indexes⟩ (ctx0 false σ) hm
    rw [bind_run _ _ _ c1 _ h1]
    rfl

/-- `ListIndexes` returns the specification's catalog, in its order -/
theorem listIndexes_refines (s : Spec.State) (σ : KVS) (hr : Rep s σ) (c : Bytes) :
    (withTx false (Op.body likeFn fnFam (.listIndexes c)) noFault σ).1 =
      (Spec.step likeFn fnFam s (.listIndexes c)).1 := by
  rw [withTx_read_noFault]
  have hm := rep_meta s σ hr c
  simp only [Op.body, Spec.step, Spec.withColl]
  cases hl : Spec.lookup c s with
  | none =>
    rw [hl] at hm
    exact bind_err_fst _ _ _ _ (getMeta_run_none c (ctx0 false σ) hm)
  | some coll =>
    rw [hl] at hm
    simp only [Option.map_some] at hm
    obtain ⟨c1, h1, s1⟩ := getMeta_run c ⟨coll.docs.length, coll.indexes⟩ (ctx0 false σ) hm
    rw [bind_run _ _ _ c1 _ h1]
    rfl

/-- the end of `DeleteById`: remove the document record, write the metadata back -/
theorem deleteTail_run (c id : Bytes) (m : CMeta) (ctx : Ctx) :
    ∃ c', (do del (docKey c id); saveMeta c m; pure Out.unit : StoreM Out) noFault ctx = (.ok .unit, c') ∧
      Eff ctx c' (kvSet (kvDel ctx.work (docKey c id)) (metaKey c) (.cmeta m)) := by
  obtain ⟨c1, h1, e1⟩ := del_run' (docKey c id) ctx
  obtain ⟨c2, h2, e2⟩ := set_run' (metaKey c) (.cmeta m) c1
  refine ⟨c2, ?_, ?_⟩
  · rw [bind_run _ _ _ c1 _ h1]
    simp only [saveMeta]
    rw [bind_run _ _ _ c2 _ h2]; rfl
  · have := e1.trans e2
    rw [e1.1] at this
    exact this

/-- the part of `DeleteById` after the existence check, on a store holding the document -/
theorem deleteRest_run (c id : Bytes) (m : CMeta) (d : Doc) (ctx : Ctx)
    (hd : kvGet ctx.work (docKey c id) = some (.doc d)) :
    ∃ c', (if (!m.indexes.isEmpty) = true then do
              let __do_lift ← StoreM.get (docKey c id)
              match __do_lift with
                | some (SVal.doc d) => do
                  delFromIndexes c m.indexes d
                  del (docKey c id)
                  saveMeta c { size := m.size - 1, indexes := m.indexes }
                  pure Out.unit
                | _ => do
                  del (docKey c id)
                  saveMeta c { size := m.size - 1, indexes := m.indexes }
                  pure Out.unit
            else do
              del (docKey c id)
              saveMeta c { size := m.size - 1, indexes := m.indexes }
              pure Out.unit : StoreM Out) noFault ctx = (.ok .unit, c') ∧
      Eff ctx c' (kvSet (kvDel (delEntries c m.indexes d ctx.work) (docKey c id)) (metaKey c)
        (.cmeta { size := m.size - 1, indexes := m.indexes })) := by
  by_cases he : (!m.indexes.isEmpty) = true
  · rw [if_pos he]
    obtain ⟨c1, h1, s1⟩ := get_run (docKey c id) ctx
    obtain ⟨c2, h2, e2⟩ := delFromIndexes_run c d m.indexes c1
    obtain ⟨c3, h3, e3⟩ := deleteTail_run c id { size := m.size - 1, indexes := m.indexes } c2
    refine ⟨c3, ?_, ?_⟩
    · rw [bind_run _ _ _ c1 _ h1, hd]
      dsimp only
      rw [bind_run _ _ _ c2 _ h2]
      exact h3
    · have := ((Eff.ofSame s1).trans e2).trans e3
      rw [e2.1, s1.1] at this
      exact this
  · rw [if_neg he]
    have hnil : m.indexes = [] := by
      cases hi : m.indexes with
      | nil => rfl
      | cons a b => rw [hi] at he; exact absurd rfl he
    obtain ⟨c3, h3, e3⟩ := deleteTail_run c id { size := m.size - 1, indexes := m.indexes } ctx
    refine ⟨c3, h3, ?_⟩
    rw [hnil] at e3 ⊢
    exact e3

theorem deleteById_refines (s : Spec.State) (σ : KVS) (hw : WF s) (hr : Rep s σ) (c id : Bytes) :
    let r := withTx true (Op.body likeFn fnFam (.deleteById c id)) noFault σ
    let sp := Spec.step likeFn fnFam s (.deleteById c id)
    r.1 = sp.1 ∧ Rep sp.2 r.2.1 ∧ WF sp.2 := by
  simp only
  have hm := rep_meta s σ hr c
  cases hl : Spec.lookup c s with
  | none =>
    rw [hl] at hm
    obtain ⟨c1, h1, s1⟩ := get_run (metaKey c) (ctx0 true σ)
    have hb : (Op.body likeFn fnFam (.deleteById c id)) noFault (ctx0 true σ) = (.err .collNotExist, c1) := by
      simp only [Op.body, getMeta]
      apply bind_run_err'
      rw [bind_run _ _ _ c1 _ h1]
      have : kvGet (ctx0 true σ).work (metaKey c) = none := hm
      rw [this]; rfl
    have ht := withTx_err _ σ _ _ hb
    simp only [Spec.step, Spec.withColl, hl]
    exact ⟨ht.1, by rw [ht.2]; exact hr, hw⟩
  | some coll =>
    rw [hl] at hm
    simp only [Option.map_some] at hm
    obtain ⟨hc, hcw⟩ := wf_lookup_clean s hw c coll hl
    have hdata := rep_data s σ hw hr c coll hl
    obtain ⟨c1, h1, s1⟩ := getMeta_run c ⟨coll.docs.length, coll.indexes⟩ (ctx0 true σ) hm
    obtain ⟨c2, h2, s2⟩ := get_run (docKey c id) c1
    have hw1 : c1.work = σ := s1.1
    have hw2 : c2.work = σ := s2.1.trans hw1
    have hdoc : kvGet c1.work (docKey c id) = (Spec.lookup id coll.docs).map SVal.doc := by
      rw [hw1, hr.2, assoc_doc c id hc s hw.namesClean hw.namesDistinct, hl]; rfl
    simp only [Spec.step, Spec.withColl, hl]
    cases hld : Spec.lookup id coll.docs with
    | none =>
      rw [hld] at hdoc
      have hb : (Op.body likeFn fnFam (.deleteById c id)) noFault (ctx0 true σ) = (.ok .unit, { c2 with skipCommit := true }) := by
        simp only [Op.body]
        rw [bind_run _ _ _ c1 _ h1, bind_run _ _ _ c2 _ h2, hdoc]; rfl
      have ht := withTx_ok_nocommit _ σ _ _ hb rfl
      rw [ht.1, ht.2, Spec.erase_of_lookup_none id coll.docs hld]
      refine ⟨rfl, ?_⟩
      exact rep_insert_coll s σ σ hw hr c hc coll hcw hr.1 (fun _ _ => rfl)
        (fun k v ho => rep_owned s σ hw hr c coll hl k v ho)
    | some d =>
      rw [hld] at hdoc
      simp only [Option.map_some] at hdoc
      obtain ⟨hidwf, hdid⟩ := collWF_lookup coll hcw id d hld
      have hdoc2 : kvGet c2.work (docKey c id) = some (.doc d) := by rw [s2.1]; exact hdoc
      obtain ⟨c3, h3, e3⟩ := deleteRest_run c id ⟨coll.docs.length, coll.indexes⟩ d c2 hdoc2
      have hb : (Op.body likeFn fnFam (.deleteById c id)) noFault (ctx0 true σ) = (.ok .unit, c3) := by
        simp only [Op.body]
        rw [bind_run _ _ _ c1 _ h1, bind_run _ _ _ c2 _ h2, hdoc]
        exact h3
      have hsk : c3.skipCommit = false := by
        rw [e3.2.2, s2.2.2, s1.2.2]; rfl
      have ht := withTx_ok _ σ _ _ hb hsk
      rw [ht.1, ht.2]
      refine ⟨rfl, ?_⟩
      simp only at e3
      rw [hw2] at e3
      have hσ : ∀ k v, KeyId c k id → (kvGet σ k = some v ↔ DocKeys c coll.indexes id d k v) := by
        intro k v hk
        rw [dataRep_keys_of c hc coll.indexes coll.docs σ hdata (collWF_ids coll hcw) id hidwf.1 k v hk, hld]
        constructor
        · rintro ⟨d0, e, h⟩; simp only [Option.some.injEq] at e; rw [e]; exact h
        · intro h; exact ⟨d, rfl, h⟩
      obtain ⟨hs2, hf2, hk2⟩ := docKeys_remove c coll.indexes id d hdid σ hr.1 hσ
      have hdata2 : DataRep c coll.indexes (Spec.erase id coll.docs)
          (kvDel (delEntries c coll.indexes d σ) (docKey c id)) :=
        dataRep_update c hc coll.indexes coll.docs σ _ hdata hcw.docsSorted (collWF_ids coll hcw) id hidwf.1
          none hf2 (fun k v hk => by rw [hk2 k hk]; simp)
      have hlen : ((coll.docs.length : Int) - 1) = ((Spec.erase id coll.docs).length : Int) := by
        have := Spec.length_erase_old id d coll.docs hld
        omega
      have hget3 : ∀ k, kvGet c3.work k =
          if k = metaKey c then some (.cmeta ⟨(Spec.erase id coll.docs).length, coll.indexes⟩)
          else kvGet (kvDel (delEntries c coll.indexes d σ) (docKey c id)) k := by
        intro k
        rw [e3.1, kvGet_kvSet _ _ _ _ hs2, hlen]
      have hs3 : KSorted c3.work := by rw [e3.1]; exact ksorted_kvSet _ hs2 _ _
      have hdata3 : DataRep c coll.indexes (Spec.erase id coll.docs) c3.work := by
        intro k v ho
        have hne : k ≠ metaKey c := by
          rcases ho with ⟨i, e⟩ | ⟨f, rest, e⟩
          · rw [e]; exact (metaKey_ne_docKey c c i).symm
          · rw [e]; exact (metaKey_ne_kIdxKey c c f rest).symm
        rw [hget3 k, if_neg hne]
        exact hdata2 k v ho
      have hmeta3 : kvGet c3.work (metaKey c) = some (.cmeta ⟨(Spec.erase id coll.docs).length, coll.indexes⟩) := by
        rw [hget3, if_pos rfl]
      exact rep_insert_coll s σ c3.work hw hr c hc _ (collWF_erase coll hcw id) hs3
        (fun k hno => by
          rw [hget3 k, if_neg (fun e => hno (Or.inl e))]
          exact hf2 k (not_owns_not_keyId c k id hno))
        (owned_of_parts c coll.indexes _ c3.work hmeta3 hdata3)

end CV
