import Clover.Proofs.DataRep
import Clover.Proofs.RefineFindAll
/-! # Fault-free runs of the writing programs, and what the resulting store binds each key to -/
namespace CV
open OC Keys StoreM

/-- the context after a step: the working copy is `w`, the fault flag and the commit flag are kept -/
def Eff (c c' : Ctx) (w : KVS) : Prop := c'.work = w ∧ c'.fired = c.fired ∧ c'.skipCommit = c.skipCommit

theorem Eff.ofSame {c c' : Ctx} (h : SameWork c c') : Eff c c' c.work := h
theorem Eff.trans {a b c : Ctx} {w w' : KVS} (h1 : Eff a b w) (h2 : Eff b c w') : Eff a c w' :=
  ⟨h2.1, h2.2.1.trans h1.2.1, h2.2.2.trans h1.2.2⟩
theorem Eff.refl (c : Ctx) : Eff c c c.work := ⟨rfl, rfl, rfl⟩

theorem set_run' (k : Bytes) (v : SVal) (c : Ctx) :
    ∃ c', (StoreM.set k v) noFault c = (.ok (), c') ∧ Eff c c' (kvSet c.work k v) :=
  ⟨{ c with work := kvSet c.work k v, tick := c.tick + 1, trace := .set k :: c.trace },
    by simp [StoreM.set, call, noFault], rfl, rfl, rfl⟩

theorem del_run' (k : Bytes) (c : Ctx) :
    ∃ c', (StoreM.del k) noFault c = (.ok (), c') ∧ Eff c c' (kvDel c.work k) :=
  ⟨{ c with work := kvDel c.work k, tick := c.tick + 1, trace := .del k :: c.trace },
    by simp [StoreM.del, call, noFault], rfl, rfl, rfl⟩

theorem get_run' (k : Bytes) (c : Ctx) :
    ∃ c', (StoreM.get k) noFault c = (.ok (kvGet c.work k), c') ∧ Eff c c' c.work := get_run k c

theorem pure_run {α} (a : α) (c : Ctx) : (pure a : StoreM α) noFault c = (.ok a, c) := rfl
theorem fail_run {α} (e : Err) (c : Ctx) : (fail e : StoreM α) noFault c = (.err e, c) := rfl

theorem bind_run_err' {α β} (m : StoreM α) (f : α → StoreM β) (c c' : Ctx) (e : Err)
    (h : m noFault c = (.err e, c')) : (m >>= f) noFault c = (.err e, c') := by
  show bind' m f noFault c = _
  unfold bind'
  rw [h]

/-! ## index maintenance of one document -/

def setEntries (c : Bytes) (idxs : List Bytes) (d : Doc) (σ : KVS) : KVS :=
  idxs.foldl (fun kv f => kvSet kv (idxKey c f (d.get f) d.objectId) .unit) σ

def delEntries (c : Bytes) (idxs : List Bytes) (d : Doc) (σ : KVS) : KVS :=
  idxs.foldl (fun kv f => kvDel kv (idxKey c f (d.get f) d.objectId)) σ

theorem addToIndexes_run (c : Bytes) (d : Doc) : (idxs : List Bytes) → (ctx : Ctx) →
    ∃ c', (addToIndexes c idxs d) noFault ctx = (.ok (), c') ∧ Eff ctx c' (setEntries c idxs d ctx.work)
  | [], ctx => ⟨ctx, rfl, Eff.refl ctx⟩
  | f :: fs, ctx => by
    obtain ⟨c1, h1, e1⟩ := set_run' (idxKey c f (d.get f) d.objectId) .unit ctx
    obtain ⟨c2, h2, e2⟩ := addToIndexes_run c d fs c1
    refine ⟨c2, ?_, ?_⟩
    · simp only [addToIndexes, List.forM] at h2 ⊢
      rw [bind_run _ _ ctx c1 () h1]
      exact h2
    · have := e1.trans e2
      simp only [setEntries, List.foldl] at this ⊢
      rw [e1.1] at this
      exact this

theorem delFromIndexes_run (c : Bytes) (d : Doc) : (idxs : List Bytes) → (ctx : Ctx) →
    ∃ c', (delFromIndexes c idxs d) noFault ctx = (.ok (), c') ∧ Eff ctx c' (delEntries c idxs d ctx.work)
  | [], ctx => ⟨ctx, rfl, Eff.refl ctx⟩
  | f :: fs, ctx => by
    obtain ⟨c1, h1, e1⟩ := del_run' (idxKey c f (d.get f) d.objectId) ctx
    obtain ⟨c2, h2, e2⟩ := delFromIndexes_run c d fs c1
    refine ⟨c2, ?_, ?_⟩
    · simp only [delFromIndexes, List.forM] at h2 ⊢
      rw [bind_run _ _ ctx c1 () h1]
      exact h2
    · have := e1.trans e2
      simp only [delEntries, List.foldl] at this ⊢
      rw [e1.1] at this
      exact this

/-! ## what the folds bind each key to -/

theorem ksorted_setEntries (c : Bytes) (d : Doc) : (idxs : List Bytes) → (σ : KVS) → KSorted σ →
    KSorted (setEntries c idxs d σ)
  | [], _, h => h
  | f :: fs, σ, h => ksorted_setEntries c d fs _ (ksorted_kvSet σ h _ _)

theorem ksorted_delEntries (c : Bytes) (d : Doc) : (idxs : List Bytes) → (σ : KVS) → KSorted σ →
    KSorted (delEntries c idxs d σ)
  | [], _, h => h
  | f :: fs, σ, h => ksorted_delEntries c d fs _ (ksorted_kvDel σ h _)

theorem kvGet_setEntries_other (c : Bytes) (d : Doc) (k : Bytes) : (idxs : List Bytes) → (σ : KVS) → KSorted σ →
    (∀ f ∈ idxs, k ≠ idxKey c f (d.get f) d.objectId) → kvGet (setEntries c idxs d σ) k = kvGet σ k
  | [], _, _, _ => rfl
  | f :: fs, σ, hs, hne => by
    show kvGet (setEntries c fs d (kvSet σ _ _)) k = _
    rw [kvGet_setEntries_other c d k fs _ (ksorted_kvSet σ hs _ _) (fun g hg => hne g (List.mem_cons_of_mem _ hg)),
      kvGet_kvSet _ _ _ _ hs]
    simp [hne f (by simp)]

theorem kvGet_setEntries_mem (c : Bytes) (d : Doc) (k : Bytes) : (idxs : List Bytes) → (σ : KVS) → KSorted σ →
    (∃ f ∈ idxs, k = idxKey c f (d.get f) d.objectId) → kvGet (setEntries c idxs d σ) k = some .unit
  | [], _, _, h => by simp at h
  | f :: fs, σ, hs, h => by
    show kvGet (setEntries c fs d (kvSet σ _ _)) k = _
    have hs' := ksorted_kvSet σ hs (idxKey c f (d.get f) d.objectId) .unit
    by_cases hin : ∃ g ∈ fs, k = idxKey c g (d.get g) d.objectId
    · exact kvGet_setEntries_mem c d k fs _ hs' hin
    · have hne : ∀ g ∈ fs, k ≠ idxKey c g (d.get g) d.objectId := fun g hg e => hin ⟨g, hg, e⟩
      rw [kvGet_setEntries_other c d k fs _ hs' hne, kvGet_kvSet _ _ _ _ hs]
      obtain ⟨g, hg, e⟩ := h
      rcases List.mem_cons.1 hg with e2 | e2
      · subst e2; simp [e]
      · exact absurd e (hne g e2)

theorem kvGet_delEntries_other (c : Bytes) (d : Doc) (k : Bytes) : (idxs : List Bytes) → (σ : KVS) → KSorted σ →
    (∀ f ∈ idxs, k ≠ idxKey c f (d.get f) d.objectId) → kvGet (delEntries c idxs d σ) k = kvGet σ k
  | [], _, _, _ => rfl
  | f :: fs, σ, hs, hne => by
    show kvGet (delEntries c fs d (kvDel σ _)) k = _
    rw [kvGet_delEntries_other c d k fs _ (ksorted_kvDel σ hs _) (fun g hg => hne g (List.mem_cons_of_mem _ hg)),
      kvGet_kvDel _ _ _ hs]
    simp [hne f (by simp)]

theorem kvGet_delEntries_mem (c : Bytes) (d : Doc) (k : Bytes) : (idxs : List Bytes) → (σ : KVS) → KSorted σ →
    (∃ f ∈ idxs, k = idxKey c f (d.get f) d.objectId) → kvGet (delEntries c idxs d σ) k = none
  | [], _, _, h => by simp at h
  | f :: fs, σ, hs, h => by
    show kvGet (delEntries c fs d (kvDel σ _)) k = _
    have hs' := ksorted_kvDel σ hs (idxKey c f (d.get f) d.objectId)
    by_cases hin : ∃ g ∈ fs, k = idxKey c g (d.get g) d.objectId
    · exact kvGet_delEntries_mem c d k fs _ hs' hin
    · have hne : ∀ g ∈ fs, k ≠ idxKey c g (d.get g) d.objectId := fun g hg e => hin ⟨g, hg, e⟩
      rw [kvGet_delEntries_other c d k fs _ hs' hne, kvGet_kvDel _ _ _ hs]
      obtain ⟨g, hg, e⟩ := h
      rcases List.mem_cons.1 hg with e2 | e2
      · subst e2; simp [e]
      · exact absurd e (hne g e2)

/-- every index entry key of document `id` belongs to `id` -/
theorem idxKey_keyId (c f : Bytes) (v : Value) (id : Bytes) : KeyId c (idxKey c f v id) id :=
  Or.inr ⟨f, goKeyTail v, rfl⟩

theorem docKey_keyId (c id : Bytes) : KeyId c (docKey c id) id := Or.inl rfl

/-- the metadata key is not a data key -/
theorem metaKey_not_keyId (c k id : Bytes) (h : KeyId c k id) : k ≠ metaKey c := by
  rcases h with e | ⟨f, r, e⟩
  · rw [e]; exact (metaKey_ne_docKey c c id).symm
  · rw [e]; exact (metaKey_ne_kIdxKey c c f _).symm

/-! ## replacing the keys of one document

`σ' = set docKey d' (setEntries d' (delEntries d σ))` binds the keys belonging to `id` to exactly the
keys of `d'`, provided `σ` bound them to exactly the keys of `d` (or to nothing). -/

theorem docKeys_replace (c : Bytes) (hc : Clean c) (idxs : List Bytes) (id : Bytes)
    (old : Option Doc) (d' : Doc) (hid' : d'.objectId = id) (hold : ∀ d, old = some d → d.objectId = id)
    (σ : KVS) (hs : KSorted σ)
    (hσ : ∀ k v, KeyId c k id → (kvGet σ k = some v ↔ ∃ d, old = some d ∧ DocKeys c idxs id d k v)) :
    let σ1 := match old with | some d => delEntries c idxs d σ | none => σ
    let σ' := kvSet (setEntries c idxs d' σ1) (docKey c id) (.doc d')
    KSorted σ' ∧ (∀ k, ¬ KeyId c k id → kvGet σ' k = kvGet σ k) ∧
      (∀ k v, KeyId c k id → (kvGet σ' k = some v ↔ DocKeys c idxs id d' k v)) := by
  intro σ1 σ'
  have hs1 : KSorted σ1 := by
    cases old with
    | none => exact hs
    | some d => exact ksorted_delEntries c d idxs σ hs
  have hs2 : KSorted (setEntries c idxs d' σ1) := ksorted_setEntries c d' idxs σ1 hs1
  refine ⟨ksorted_kvSet _ hs2 _ _, ?_, ?_⟩
  · intro k hk
    have h1 : k ≠ docKey c id := fun e => hk (e ▸ docKey_keyId c id)
    have h2 : ∀ f ∈ idxs, k ≠ idxKey c f (d'.get f) d'.objectId := fun f _ e => hk (e ▸ hid' ▸ idxKey_keyId c f _ _)
    show kvGet (kvSet _ _ _) k = _
    rw [kvGet_kvSet _ _ _ _ hs2, if_neg h1, kvGet_setEntries_other c d' k idxs σ1 hs1 h2]
    cases old with
    | none => rfl
    | some d =>
      have h3 : ∀ f ∈ idxs, k ≠ idxKey c f (d.get f) d.objectId :=
        fun f _ e => hk (e ▸ (hold d rfl) ▸ idxKey_keyId c f _ _)
      exact kvGet_delEntries_other c d k idxs σ hs h3
  · intro k v hk
    show kvGet (kvSet _ _ _) k = some v ↔ _
    rw [kvGet_kvSet _ _ _ _ hs2]
    by_cases h1 : k = docKey c id
    · simp only [h1, if_true, Option.some.injEq]
      constructor
      · intro e; exact Or.inl ⟨rfl, e.symm⟩
      · rintro (⟨_, e⟩ | ⟨f, _, e, _⟩)
        · exact e.symm
        · exact absurd e (docKey_ne_idxKey c c f id id _ hc hc)
    · simp only [h1, if_false]
      by_cases h2 : ∃ f ∈ idxs, k = idxKey c f (d'.get f) d'.objectId
      · rw [kvGet_setEntries_mem c d' k idxs σ1 hs1 h2]
        simp only [Option.some.injEq]
        constructor
        · intro e
          obtain ⟨f, hf, ek⟩ := h2
          exact Or.inr ⟨f, hf, hid' ▸ ek, e.symm⟩
        · rintro (⟨e, _⟩ | ⟨f, _, _, e⟩)
          · exact absurd e h1
          · exact e.symm
      · have h2' : ∀ f ∈ idxs, k ≠ idxKey c f (d'.get f) d'.objectId := fun f hf e => h2 ⟨f, hf, e⟩
        rw [kvGet_setEntries_other c d' k idxs σ1 hs1 h2']
        have hnone : kvGet σ1 k = none := by
          cases old with
          | none =>
            show kvGet σ k = none
            cases hg : kvGet σ k with
            | none => rfl
            | some v0 => obtain ⟨d, e, _⟩ := (hσ k v0 hk).1 hg; simp at e
          | some d =>
            show kvGet (delEntries c idxs d σ) k = none
            by_cases h3 : ∃ f ∈ idxs, k = idxKey c f (d.get f) d.objectId
            · exact kvGet_delEntries_mem c d k idxs σ hs h3
            · have h3' : ∀ f ∈ idxs, k ≠ idxKey c f (d.get f) d.objectId := fun f hf e => h3 ⟨f, hf, e⟩
              rw [kvGet_delEntries_other c d k idxs σ hs h3']
              cases hg : kvGet σ k with
              | none => rfl
              | some v0 =>
                obtain ⟨d0, e, hdk⟩ := (hσ k v0 hk).1 hg
                simp only [Option.some.injEq] at e; subst e
                rcases hdk with ⟨e, _⟩ | ⟨f, hf, e, _⟩
                · exact absurd e h1
                · exact absurd ⟨f, hf, (hold d rfl).symm ▸ e⟩ h3
        rw [hnone]
        constructor
        · intro e; simp at e
        · rintro (⟨e, _⟩ | ⟨f, hf, e, _⟩)
          · exact absurd e h1
          · exact absurd ⟨f, hf, hid'.symm ▸ e⟩ h2

/-- removing the keys of one document -/
theorem docKeys_remove (c : Bytes) (idxs : List Bytes) (id : Bytes) (d : Doc) (hid : d.objectId = id)
    (σ : KVS) (hs : KSorted σ)
    (hσ : ∀ k v, KeyId c k id → (kvGet σ k = some v ↔ DocKeys c idxs id d k v)) :
    let σ' := kvDel (delEntries c idxs d σ) (docKey c id)
    KSorted σ' ∧ (∀ k, ¬ KeyId c k id → kvGet σ' k = kvGet σ k) ∧ (∀ k, KeyId c k id → kvGet σ' k = none) := by
  intro σ'
  have hs1 : KSorted (delEntries c idxs d σ) := ksorted_delEntries c d idxs σ hs
  refine ⟨ksorted_kvDel _ hs1 _, ?_, ?_⟩
  · intro k hk
    have h1 : k ≠ docKey c id := fun e => hk (e ▸ docKey_keyId c id)
    have h3 : ∀ f ∈ idxs, k ≠ idxKey c f (d.get f) d.objectId := fun f _ e => hk (e ▸ hid ▸ idxKey_keyId c f _ _)
    show kvGet (kvDel _ _) k = _
    rw [kvGet_kvDel _ _ _ hs1, if_neg h1, kvGet_delEntries_other c d k idxs σ hs h3]
  · intro k hk
    show kvGet (kvDel _ _) k = _
    rw [kvGet_kvDel _ _ _ hs1]
    by_cases h1 : k = docKey c id
    · simp [h1]
    · simp only [h1, if_false]
      by_cases h3 : ∃ f ∈ idxs, k = idxKey c f (d.get f) d.objectId
      · exact kvGet_delEntries_mem c d k idxs σ hs h3
      · have h3' : ∀ f ∈ idxs, k ≠ idxKey c f (d.get f) d.objectId := fun f hf e => h3 ⟨f, hf, e⟩
        rw [kvGet_delEntries_other c d k idxs σ hs h3']
        cases hg : kvGet σ k with
        | none => rfl
        | some v0 =>
          rcases (hσ k v0 hk).1 hg with ⟨e, _⟩ | ⟨f, hf, e, _⟩
          · exact absurd e h1
          · exact absurd ⟨f, hf, hid.symm ▸ e⟩ h3

end CV
