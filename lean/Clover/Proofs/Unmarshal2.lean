import Clover.Model.Unmarshal2
import Clover.Proofs.UnmarshalRename
import Clover.Proofs.SetAllOrder
/-! # The repaired key renaming of `Document.Unmarshal` (defect F40)

1. on the old fragment of types (no embedded fields, no containers) the new `renameMapKeys` is the
   old one, on every document (`renameMapKeys_embedOld`);
2. a struct without embedded fields: every field is found under its read name, its value renamed by
   its type (`lookupKey_renameMapKeys_field`); in particular structs held in slices / arrays
   (`renameValue_list`) and in maps (`renameValue_map`) are renamed by the element type;
4. the promoted fields of an embedded struct are renamed exactly like direct ones
   (`renameMapKeys_embedded`, `renameMapKeys_embedded_direct`) - under the hypothesis `cross`, which is
   needed (last example of the file): the promoted fields are renamed in a second pass;
5. the reproducer of F40. -/
namespace CV.U2
open OC

/-! ## 0. Unfolding -/

/-- the direct case of the loop body: the value found under the read name goes through `renameValue` -/
def directStep (g j : Bytes) (t : RT) (d : Doc) : Doc :=
  match lookupKey (toName g j) d with
  | some v => insertKey (toName g j) (renameValue t v) d
  | none => d

/-- one iteration of the loop of `renameMapKeys` -/
def fieldStep (g j : Bytes) (e : Bool) (t : RT) (d : Doc) : Doc :=
  if e && t.isStruct && !hasMapUnder g d then renameMapKeys t d else directStep g j t d

theorem renameFields_nil (d : Doc) : renameFields [] d = d := rfl

theorem renameFields_cons (g c j : Bytes) (e : Bool) (t : RT) (rest : List RField) (d : Doc) :
    renameFields ((g, c, j, e, t) :: rest) d = renameFields rest (fieldStep g j e t d) := by
  cases t <;> cases e <;> rfl

theorem fieldStep_direct (g j : Bytes) (t : RT) (d : Doc) :
    fieldStep g j false t d = directStep g j t d := rfl

theorem renameMapKeys_struct (fs : List RField) (d : Doc) :
    renameMapKeys (.struct fs) d = renameFields fs (renameTop (renameMap fs) d) := rfl

theorem renameValue_struct (fs : List RField) (m : Doc) :
    renameValue (.struct fs) (.obj m) = .obj (renameMapKeys (.struct fs) m) := rfl

theorem renameValue_list_arr (t : RT) (xs : List Value) :
    renameValue (.list t) (.arr xs) = .arr (xs.map (renameValue t)) := rfl

theorem renameValue_map_obj (t : RT) (m : Doc) :
    renameValue (.map t) (.obj m) = .obj (m.map (fun kv => (kv.1, renameValue t kv.2))) := rfl

theorem renameValue_leaf (v : Value) : renameValue .leaf v = v := rfl

theorem renameValue_struct_not_obj (fs : List RField) (v : Value) (h : ∀ m, v ≠ .obj m) :
    renameValue (.struct fs) v = v := by
  cases v <;> first | rfl | exact absurd rfl (h _)

/-! ## 1. The old fragment -/

theorem insertKey_self (k : Bytes) (v : Value) : (m : Doc) → KeysInc m → lookupKey k m = some v →
    insertKey k v m = m
  | [], _, h => by cases h
  | (a, x) :: t, hs, h => by
    have hs' := List.pairwise_cons.1 hs
    by_cases e : k = a
    · subst e
      simp only [lookupKey, if_true, Option.some.injEq] at h
      rw [insertKey_cons_eq, h]
    · simp only [lookupKey, if_neg e] at h
      have hl : lexLt a k = true := hs'.1 (k, v) (mem_of_lookupKey t h)
      rw [insertKey_cons_gt k v a x t hl, insertKey_self k v t hs'.2 h]

theorem keysInc_renameInto (rm : List (Bytes × Bytes)) : (d : Doc) → (acc : Doc) → KeysInc acc →
    KeysInc (renameInto rm acc d)
  | [], _, h => h
  | kv :: rest, acc, h => by
    rw [renameInto_cons]
    exact keysInc_renameInto rm rest _ (insertKey_sorted _ _ _ h)

theorem keysInc_renameTop (rm : List (Bytes × Bytes)) (d : Doc) : KeysInc (renameTop rm d) :=
  keysInc_renameInto rm d [] List.Pairwise.nil

theorem keysInc_nestStep (g j : Bytes) (t : RType) (d : Doc) (h : KeysInc d) :
    KeysInc (nestStep g j t d) := by
  unfold nestStep
  split
  · exact insertKey_sorted _ _ _ h
  · exact h

theorem renameMap_embedOldFields : (fs : List CV.RField) →
    renameMap (embedOldFields fs) = CV.renameMap fs
  | [] => rfl
  | (g, c, j, t) :: rest => by
    show renameMap ((g, c, j, false, embedOld t) :: embedOldFields rest) = _
    simp only [renameMap, CV.renameMap, renameMap_embedOldFields rest]

mutual
/-- item 1: on the old fragment of types the repaired function is the old one (every document) -/
theorem renameMapKeys_embedOld : (T : RType) → (d : Doc) →
    renameMapKeys (embedOld T) d = CV.renameMapKeys T d
  | .leaf, _ => rfl
  | .struct fs, d => by
    show renameFields (embedOldFields fs) (renameTop (renameMap (embedOldFields fs)) d) = _
    rw [CV.renameMapKeys_struct, renameMap_embedOldFields]
    exact renameFields_embedOld fs _ (keysInc_renameTop _ _)
theorem renameFields_embedOld : (fs : List CV.RField) → (d : Doc) → KeysInc d →
    renameFields (embedOldFields fs) d = renameNested fs d
  | [], _, _ => rfl
  | (g, c, j, t) :: rest, d, hd => by
    show renameFields ((g, c, j, false, embedOld t) :: embedOldFields rest) d = _
    rw [renameFields_cons, renameNested_cons, fieldStep_direct]
    have hstep : directStep g j (embedOld t) d = nestStep g j t d := by
      unfold directStep nestStep
      cases hl : lookupKey (toName g j) d with
      | none => cases t <;> rfl
      | some v =>
        cases t with
        | leaf =>
          show insertKey (toName g j) v d = d
          exact insertKey_self _ _ _ hd hl
        | struct sub =>
          cases v with
          | obj m =>
            show insertKey (toName g j) (.obj (renameMapKeys (embedOld (.struct sub)) m)) d = _
            rw [renameMapKeys_embedOld (.struct sub) m]
          | _ =>
            show insertKey (toName g j) _ d = d
            exact insertKey_self _ _ _ hd hl
    rw [hstep]
    exact renameFields_embedOld rest _ (keysInc_nestStep g j t d hd)
end

/-! ## 2. Structs without embedded fields: every field goes through `renameValue` -/

/-- the key the field is stored under in the document -/
def RField.stored (f : RField) : Bytes := fromName f.1 f.2.1
/-- the key `encoding/json` reads the field from -/
def RField.read (f : RField) : Bytes := toName f.1 f.2.2.1
/-- the field as a field of the old model (names only) -/
def forget (f : RField) : CV.RField := (f.1, f.2.1, f.2.2.1, RType.leaf)

/-- no field is embedded -/
def Plain (fs : List RField) : Prop := ∀ f ∈ fs, f.2.2.2.1 = false

/-- the stored names are pairwise distinct and the read names are pairwise distinct -/
def FieldsOK (fs : List RField) : Prop :=
  (fs.map RField.stored).Nodup ∧ (fs.map RField.read).Nodup

/-- the keys of `d` are distinct, and each is the stored name of a field or (a stray key) no field's
    read name -/
def DocFits (fs : List RField) (d : Doc) : Prop :=
  (d.map (·.1)).Nodup ∧
  ∀ kv ∈ d, (∃ f ∈ fs, kv.1 = RField.stored f) ∨ (∀ f ∈ fs, kv.1 ≠ RField.read f)

theorem plain_cons {g c j : Bytes} {e : Bool} {t : RT} {rest : List RField}
    (h : Plain ((g, c, j, e, t) :: rest)) : e = false ∧ Plain rest :=
  ⟨h _ List.mem_cons_self, fun f hf => h f (List.mem_cons_of_mem _ hf)⟩

theorem renameMap_forget : (fs : List RField) → renameMap fs = CV.renameMap (fs.map forget)
  | [] => rfl
  | (g, c, j, e, t) :: rest => by
    simp only [renameMap, List.map_cons, forget, CV.renameMap, renameMap_forget rest]

theorem map_stored_forget (fs : List RField) :
    (fs.map forget).map CV.RField.stored = fs.map RField.stored := by
  rw [List.map_map]; rfl

theorem map_read_forget (fs : List RField) :
    (fs.map forget).map CV.RField.read = fs.map RField.read := by
  rw [List.map_map]; rfl

/-- every field's stored name is sent to its read name -/
theorem target_renameMap (fs : List RField) (hn : (fs.map RField.stored).Nodup) (f : RField)
    (hf : f ∈ fs) : target (renameMap fs) (RField.stored f) = RField.read f := by
  rw [renameMap_forget]
  exact CV.target_renameMap (fs.map forget) (by rw [map_stored_forget]; exact hn) (forget f)
    (List.mem_map_of_mem hf)

/-- a key that is no field's stored name is not renamed -/
theorem target_renameMap_stray (k : Bytes) (fs : List RField)
    (h : ∀ f ∈ fs, k ≠ RField.stored f) : target (renameMap fs) k = k := by
  rw [renameMap_forget]
  refine CV.target_renameMap_stray k (fs.map forget) ?_
  intro f' hf'
  obtain ⟨f, hf, rfl⟩ := List.mem_map.1 hf'
  exact h f hf

/-- `rename`: the name `t` receives the value of the key `k` when `k` is the only key sent to `t` -/
theorem lookupKey_renameTop_of_iff (rm : List (Bytes × Bytes)) (d : Doc) (hn : (d.map (·.1)).Nodup)
    (t k : Bytes) (h : ∀ kv ∈ d, target rm kv.1 = t ↔ kv.1 = k) :
    lookupKey t (renameTop rm d) = lookupKey k d := by
  show lookupKey t (renameInto rm [] d) = _
  by_cases hk : k ∈ d.map (·.1)
  · obtain ⟨kv, hkv, rfl⟩ := List.mem_map.1 hk
    have ht : target rm kv.1 = t := (h kv hkv).2 rfl
    have := lookupKey_renameInto_key rm kv.1 d [] hn (fun kv' hkv' e => (h kv' hkv').1 (e.trans ht))
    rw [ht] at this
    rw [this]
    cases lookupKey kv.1 d <;> rfl
  · rw [lookupKey_none_of_not_mem k d hk,
      lookupKey_renameInto_other rm t d [] (fun kv hkv e => hk ((h kv hkv).1 e ▸ List.mem_map_of_mem hkv))]
    rfl

/-- the keys after `rename` are the targets of the keys before -/
theorem mem_keys_renameInto (rm : List (Bytes × Bytes)) (p : Bytes × Value) : (d : Doc) → (acc : Doc) →
    p ∈ renameInto rm acc d → p ∈ acc ∨ ∃ kv ∈ d, p.1 = target rm kv.1
  | [], _, h => Or.inl h
  | kv :: rest, acc, h => by
    rw [renameInto_cons] at h
    rcases mem_keys_renameInto rm p rest _ h with h1 | ⟨kv', hkv', e⟩
    · rcases mem_insertKey _ _ p acc h1 with e | h2
      · exact Or.inr ⟨kv, List.mem_cons_self, by rw [e]⟩
      · exact Or.inl h2
    · exact Or.inr ⟨kv', List.mem_cons_of_mem _ hkv', e⟩

theorem mem_keys_renameTop (rm : List (Bytes × Bytes)) (p : Bytes × Value) (d : Doc)
    (h : p ∈ renameTop rm d) : ∃ kv ∈ d, p.1 = target rm kv.1 := by
  rcases mem_keys_renameInto rm p d [] h with h1 | h2
  · cases h1
  · exact h2

theorem lookupKey_directStep (g j : Bytes) (t : RT) (d : Doc) (k : Bytes) :
    lookupKey k (directStep g j t d) =
      if k = toName g j then (lookupKey k d).map (renameValue t) else lookupKey k d := by
  unfold directStep
  by_cases hk : k = toName g j
  · subst hk
    rw [if_pos rfl]
    cases h : lookupKey (toName g j) d with
    | none => simp only [h]; rfl
    | some v => simp only [lookupKey_insertKey, if_true, Option.map_some]
  · rw [if_neg hk]
    split
    · rw [lookupKey_insertKey, if_neg hk]
    · rfl

theorem keysInc_directStep (g j : Bytes) (t : RT) (d : Doc) (h : KeysInc d) :
    KeysInc (directStep g j t d) := by
  unfold directStep
  split
  · exact insertKey_sorted _ _ _ h
  · exact h

theorem mem_keys_directStep (g j : Bytes) (t : RT) (d : Doc) (p : Bytes × Value)
    (h : p ∈ directStep g j t d) : p.1 ∈ d.map (·.1) := by
  unfold directStep at h
  split at h
  · rename_i v hl
    rcases mem_insertKey _ _ p d h with e | h2
    · rw [e]; exact List.mem_map_of_mem (f := (·.1)) (mem_of_lookupKey d hl)
    · exact List.mem_map_of_mem h2
  · exact List.mem_map_of_mem h

theorem renameFields_append : (a b : List RField) → (d : Doc) →
    renameFields (a ++ b) d = renameFields b (renameFields a d)
  | [], _, _ => rfl
  | (g, c, j, e, t) :: rest, b, d => by
    rw [List.cons_append, renameFields_cons, renameFields_cons, renameFields_append rest b]

/-- a key that is no field's read name is not touched by the loop -/
theorem lookupKey_renameFields_other (k : Bytes) : (fs : List RField) → (d : Doc) → Plain fs →
    (∀ f ∈ fs, k ≠ RField.read f) → lookupKey k (renameFields fs d) = lookupKey k d
  | [], _, _, _ => rfl
  | (g, c, j, e, t) :: rest, d, hp, h => by
    have hk : k ≠ toName g j := h (g, c, j, e, t) List.mem_cons_self
    obtain ⟨rfl, hp'⟩ := plain_cons hp
    rw [renameFields_cons, fieldStep_direct,
      lookupKey_renameFields_other k rest _ hp' (fun f hf => h f (List.mem_cons_of_mem _ hf)),
      lookupKey_directStep, if_neg hk]

/-- the loop rewrites the value under the read name of each field according to its type -/
theorem lookupKey_renameFields_field : (fs : List RField) → (d : Doc) → Plain fs →
    (fs.map RField.read).Nodup →
    ∀ f ∈ fs, lookupKey (RField.read f) (renameFields fs d) =
      (lookupKey (RField.read f) d).map (renameValue f.2.2.2.2)
  | [], _, _, _, f, hf => by cases hf
  | (g, c, j, e, t) :: rest, d, hp, hn, f, hf => by
    simp only [List.map_cons, List.nodup_cons] at hn
    have hn1 : toName g j ∉ rest.map RField.read := hn.1
    obtain ⟨rfl, hp'⟩ := plain_cons hp
    rw [renameFields_cons, fieldStep_direct]
    rcases List.mem_cons.1 hf with rfl | hf'
    · rw [lookupKey_renameFields_other _ rest _ hp'
        (fun f' hf' e => hn1 (by rw [show toName g j = RField.read f' from e]; exact List.mem_map_of_mem hf')),
        lookupKey_directStep]
      exact if_pos rfl
    · have hne : RField.read f ≠ toName g j := fun e => hn1 (e ▸ List.mem_map_of_mem hf')
      rw [lookupKey_renameFields_field rest _ hp' hn.2 f hf', lookupKey_directStep, if_neg hne]

theorem keysInc_renameFields : (fs : List RField) → (d : Doc) → Plain fs → KeysInc d →
    KeysInc (renameFields fs d)
  | [], _, _, h => h
  | (g, c, j, e, t) :: rest, d, hp, h => by
    obtain ⟨rfl, hp'⟩ := plain_cons hp
    rw [renameFields_cons, fieldStep_direct]
    exact keysInc_renameFields rest _ hp' (keysInc_directStep g j t d h)

theorem mem_keys_renameFields (p : Bytes × Value) : (fs : List RField) → (d : Doc) → Plain fs →
    p ∈ renameFields fs d → p.1 ∈ d.map (·.1)
  | [], _, _, h => List.mem_map_of_mem h
  | (g, c, j, e, t) :: rest, d, hp, h => by
    obtain ⟨rfl, hp'⟩ := plain_cons hp
    rw [renameFields_cons, fieldStep_direct] at h
    obtain ⟨p', hp'', e⟩ := List.mem_map.1 (mem_keys_renameFields p rest _ hp' h)
    rw [← e]
    exact mem_keys_directStep g j t d p' hp''

theorem nodup_keys_of_keysInc (d : Doc) (h : KeysInc d) : (d.map (·.1)).Nodup := by
  unfold List.Nodup
  rw [List.pairwise_map]
  exact List.Pairwise.imp (fun {a b} hab => lexLt_ne a.1 b.1 hab) h

theorem lookupKey_renameTop_field (fs : List RField) (hok : FieldsOK fs) (d : Doc) (hd : DocFits fs d)
    (f : RField) (hf : f ∈ fs) :
    lookupKey (RField.read f) (renameTop (renameMap fs) d) = lookupKey (RField.stored f) d := by
  have ht := target_renameMap fs hok.1
  refine lookupKey_renameTop_of_iff _ d hd.1 _ _ ?_
  intro kv hkv
  constructor
  · intro e
    by_cases hs : ∃ f' ∈ fs, kv.1 = RField.stored f'
    · obtain ⟨f', hf', e'⟩ := hs
      rw [e', ht f' hf'] at e
      rw [e', inj_of_nodup_map RField.read fs hok.2 f' hf' f hf e]
    · rw [target_renameMap_stray kv.1 fs (fun f' hf' e' => hs ⟨f', hf', e'⟩)] at e
      rcases hd.2 kv hkv with h1 | h2
      · exact absurd h1 hs
      · exact absurd e (h2 f hf)
  · intro e
    rw [e, ht f hf]

/-- one level: after `renameMapKeys` the value of every field is found under its read name, renamed
    by the type of the field -/
theorem lookupKey_renameMapKeys_field (fs : List RField) (hp : Plain fs) (hok : FieldsOK fs) (d : Doc)
    (hd : DocFits fs d) (f : RField) (hf : f ∈ fs) :
    lookupKey (RField.read f) (renameMapKeys (.struct fs) d) =
      (lookupKey (RField.stored f) d).map (renameValue f.2.2.2.2) := by
  rw [renameMapKeys_struct, lookupKey_renameFields_field fs _ hp hok.2 f hf,
    lookupKey_renameTop_field fs hok d hd f hf]

/-- a key that is neither the stored name nor the read name of a field is kept with its value -/
theorem lookupKey_renameMapKeys_stray (fs : List RField) (hp : Plain fs)
    (hst : (fs.map RField.stored).Nodup) (d : Doc) (hn : (d.map (·.1)).Nodup) (k : Bytes)
    (hk : ∀ f ∈ fs, k ≠ RField.stored f ∧ k ≠ RField.read f) :
    lookupKey k (renameMapKeys (.struct fs) d) = lookupKey k d := by
  rw [renameMapKeys_struct, lookupKey_renameFields_other k fs _ hp (fun f hf => (hk f hf).2)]
  refine lookupKey_renameTop_of_iff _ d hn _ _ ?_
  intro kv hkv
  constructor
  · intro e
    by_cases hs : ∃ f' ∈ fs, kv.1 = RField.stored f'
    · obtain ⟨f', hf', e'⟩ := hs
      rw [e', target_renameMap fs hst f' hf'] at e
      exact absurd e.symm (hk f' hf').2
    · rw [target_renameMap_stray kv.1 fs (fun f' hf' e' => hs ⟨f', hf', e'⟩)] at e
      exact e
  · intro e
    rw [e]
    exact target_renameMap_stray k fs (fun f hf => (hk f hf).1)

/-- item 2: a field of type slice / array of structs: every element is renamed by the struct type -/
theorem renameValue_list (fs : List RField) (hp : Plain fs) (hok : FieldsOK fs) (d : Doc)
    (hd : DocFits fs d) (g c j : Bytes) (e : Bool) (sub : List RField)
    (hf : (g, c, j, e, RT.list (.struct sub)) ∈ fs) (xs : List Value)
    (hx : lookupKey (fromName g c) d = some (.arr xs)) :
    lookupKey (toName g j) (renameMapKeys (.struct fs) d) =
      some (.arr (xs.map (renameValue (.struct sub)))) := by
  have := lookupKey_renameMapKeys_field fs hp hok d hd _ hf
  simp only [RField.read, RField.stored, hx, Option.map_some, renameValue_list_arr] at this
  exact this

/-- … whose elements that are documents are renamed by `renameMapKeys` of the struct type -/
theorem renameValue_list_objs (sub : List RField) (ms : List Doc) :
    (ms.map Value.obj).map (renameValue (.struct sub)) =
      (ms.map (renameMapKeys (.struct sub))).map Value.obj := by
  rw [List.map_map, List.map_map]; rfl

/-- item 3: a field of type map of structs: every value is renamed by the struct type, the keys of
    the map are kept -/
theorem renameValue_map (fs : List RField) (hp : Plain fs) (hok : FieldsOK fs) (d : Doc)
    (hd : DocFits fs d) (g c j : Bytes) (e : Bool) (sub : List RField)
    (hf : (g, c, j, e, RT.map (.struct sub)) ∈ fs) (m : Doc)
    (hm : lookupKey (fromName g c) d = some (.obj m)) :
    lookupKey (toName g j) (renameMapKeys (.struct fs) d) =
      some (.obj (m.map (fun kv => (kv.1, renameValue (.struct sub) kv.2)))) := by
  have := lookupKey_renameMapKeys_field fs hp hok d hd _ hf
  simp only [RField.read, RField.stored, hm, Option.map_some, renameValue_map_obj] at this
  exact this

/-- reading the renamed map of item 3 -/
theorem lookupKey_map_renameValue (t : RT) (k : Bytes) : (m : Doc) →
    lookupKey k (m.map (fun kv => (kv.1, renameValue t kv.2))) = (lookupKey k m).map (renameValue t)
  | [] => rfl
  | (a, x) :: rest => by
    simp only [List.map_cons, lookupKey]
    split
    · rfl
    · exact lookupKey_map_renameValue t k rest

/-- a field of struct type holding a document (as in the old model) -/
theorem renameMapKeys_nested (fs : List RField) (hp : Plain fs) (hok : FieldsOK fs) (d : Doc)
    (hd : DocFits fs d) (g c j : Bytes) (e : Bool) (sub : List RField)
    (hf : (g, c, j, e, RT.struct sub) ∈ fs) (m : Doc)
    (hm : lookupKey (fromName g c) d = some (.obj m)) :
    lookupKey (toName g j) (renameMapKeys (.struct fs) d) =
      some (.obj (renameMapKeys (.struct sub) m)) := by
  have := lookupKey_renameMapKeys_field fs hp hok d hd _ hf
  simp only [RField.read, RField.stored, hm, Option.map_some, renameValue_struct] at this
  exact this

/-! ## 4. An embedded struct: promoted fields are renamed exactly like direct ones -/

/-- the hypotheses of item 4: a struct with ordinary fields `pre`, then ONE embedded struct field `E`
    (Go name `gE`, tags `cE`, `jE`, fields `es`), then ordinary fields `post`; the document `d` holds
    the fields of `E` flattened among the direct ones -/
structure EmbeddedOK (pre post es : List RField) (gE cE : Bytes) (d : Doc) : Prop where
  /-- no further embedded field -/
  plain_pre : Plain pre
  plain_post : Plain post
  plain_es : Plain es
  /-- the stored names of the direct and of the promoted fields are pairwise distinct -/
  stored : (((pre ++ post) ++ es).map RField.stored).Nodup
  /-- the read names of the direct and of the promoted fields are pairwise distinct -/
  read : (((pre ++ post) ++ es).map RField.read).Nodup
  /-- no promoted field is stored under the read name of a direct field (the promoted fields are
      renamed in a second pass over the same map) -/
  cross : ∀ f ∈ es, ∀ f' ∈ pre ++ post, RField.stored f ≠ RField.read f'
  /-- the keys of the document: distinct; stored names of direct or promoted fields, or stray keys
      that are no field's read name -/
  fits : DocFits ((pre ++ post) ++ es) d
  /-- the Go name of `E` is not a key of the document (its fields were flattened) … -/
  goName_not_key : gE ∉ d.map (·.1)
  /-- … nor is the `clover` name of `E` (the same thing when `E` has no `clover` tag) -/
  stored_not_key : fromName gE cE ∉ d.map (·.1)
  /-- no direct field is read from the Go name of `E` -/
  goName_not_read : gE ∉ (pre ++ post).map RField.read
  /-- no direct field is stored under the `clover` name of `E` -/
  stored_not_stored : fromName gE cE ∉ (pre ++ post).map RField.stored

section Embedded
variable {pre post es : List RField} {gE cE : Bytes} {d : Doc}

theorem fieldStep_embedded (g j : Bytes) (sub : List RField) (d : Doc) (h : hasMapUnder g d = false) :
    fieldStep g j true (.struct sub) d = renameMapKeys (.struct sub) d := by
  simp only [fieldStep, RT.isStruct, h, Bool.and_self, Bool.not_false, if_true]

theorem hasMapUnder_of_not_key (g : Bytes) (d : Doc) (h : g ∉ d.map (·.1)) : hasMapUnder g d = false := by
  unfold hasMapUnder
  rw [lookupKey_none_of_not_mem g d h]

theorem EmbeddedOK.storedD (h : EmbeddedOK pre post es gE cE d) : ((pre ++ post).map RField.stored).Nodup := by
  have := h.stored; rw [List.map_append] at this; exact (List.nodup_append.1 this).1
theorem EmbeddedOK.storedE (h : EmbeddedOK pre post es gE cE d) : (es.map RField.stored).Nodup := by
  have := h.stored; rw [List.map_append] at this; exact (List.nodup_append.1 this).2.1
theorem EmbeddedOK.stored_disj (h : EmbeddedOK pre post es gE cE d) :
    ∀ f ∈ pre ++ post, ∀ f' ∈ es, RField.stored f ≠ RField.stored f' := by
  have := h.stored; rw [List.map_append] at this
  exact fun f hf f' hf' => (List.nodup_append.1 this).2.2 _ (List.mem_map_of_mem hf) _ (List.mem_map_of_mem hf')
theorem EmbeddedOK.readD (h : EmbeddedOK pre post es gE cE d) : ((pre ++ post).map RField.read).Nodup := by
  have := h.read; rw [List.map_append] at this; exact (List.nodup_append.1 this).1
theorem EmbeddedOK.readE (h : EmbeddedOK pre post es gE cE d) : (es.map RField.read).Nodup := by
  have := h.read; rw [List.map_append] at this; exact (List.nodup_append.1 this).2.1
theorem EmbeddedOK.read_disj (h : EmbeddedOK pre post es gE cE d) :
    ∀ f ∈ pre ++ post, ∀ f' ∈ es, RField.read f ≠ RField.read f' := by
  have := h.read; rw [List.map_append] at this
  exact fun f hf f' hf' => (List.nodup_append.1 this).2.2 _ (List.mem_map_of_mem hf) _ (List.mem_map_of_mem hf')
theorem EmbeddedOK.read_pre_post (h : EmbeddedOK pre post es gE cE d) :
    ∀ f ∈ pre, ∀ f' ∈ post, RField.read f ≠ RField.read f' := by
  have := h.readD; rw [List.map_append] at this
  exact fun f hf f' hf' => (List.nodup_append.1 this).2.2 _ (List.mem_map_of_mem hf) _ (List.mem_map_of_mem hf')

/-- the top-level `rename` sends the stored name of every direct field to its read name -/
theorem EmbeddedOK.target_direct (h : EmbeddedOK pre post es gE cE d) (jE : Bytes) (f : RField)
    (hf : f ∈ pre ++ post) :
    target (renameMap (pre ++ (gE, cE, jE, true, RT.struct es) :: post)) (RField.stored f) = RField.read f := by
  refine target_renameMap _ ?_ f ?_
  · rw [List.map_append, List.map_cons]
    refine (List.perm_middle.nodup_iff).2 (List.nodup_cons.2 ⟨?_, ?_⟩)
    · have := h.stored_not_stored; rw [List.map_append] at this; exact this
    · have := h.storedD; rw [List.map_append] at this; exact this
  · rcases List.mem_append.1 hf with h1 | h1
    · exact List.mem_append.2 (Or.inl h1)
    · exact List.mem_append.2 (Or.inr (List.mem_cons_of_mem _ h1))

/-- … and leaves alone every key that is not the stored name of a direct field or of `E` -/
theorem EmbeddedOK.target_other (jE : Bytes) (k : Bytes)
    (hk : ∀ f ∈ pre ++ post, k ≠ RField.stored f) (hkE : k ≠ fromName gE cE) :
    target (renameMap (pre ++ (gE, cE, jE, true, RT.struct es) :: post)) k = k := by
  refine target_renameMap_stray k _ ?_
  intro f hf
  rcases List.mem_append.1 hf with h1 | h1
  · exact hk f (List.mem_append.2 (Or.inl h1))
  · rcases List.mem_cons.1 h1 with rfl | h2
    · exact hkE
    · exact hk f (List.mem_append.2 (Or.inr h2))

/-- the three kinds of keys of the document and where the top-level `rename` sends them -/
theorem EmbeddedOK.classify (h : EmbeddedOK pre post es gE cE d) (jE : Bytes) (kv : Bytes × Value)
    (hkv : kv ∈ d) :
    (∃ f ∈ pre ++ post, kv.1 = RField.stored f ∧
      target (renameMap (pre ++ (gE, cE, jE, true, RT.struct es) :: post)) kv.1 = RField.read f) ∨
    (∃ f ∈ es, kv.1 = RField.stored f ∧
      target (renameMap (pre ++ (gE, cE, jE, true, RT.struct es) :: post)) kv.1 = kv.1) ∨
    ((∀ f ∈ (pre ++ post) ++ es, kv.1 ≠ RField.stored f ∧ kv.1 ≠ RField.read f) ∧
      target (renameMap (pre ++ (gE, cE, jE, true, RT.struct es) :: post)) kv.1 = kv.1) := by
  have hkE : kv.1 ≠ fromName gE cE := fun e => h.stored_not_key (e ▸ List.mem_map_of_mem hkv)
  by_cases h1 : ∃ f ∈ pre ++ post, kv.1 = RField.stored f
  · obtain ⟨f, hf, e⟩ := h1
    exact Or.inl ⟨f, hf, e, by rw [e]; exact h.target_direct jE f hf⟩
  · have hid := EmbeddedOK.target_other (es := es) jE kv.1 (fun f hf e => h1 ⟨f, hf, e⟩) hkE
    by_cases h2 : ∃ f ∈ es, kv.1 = RField.stored f
    · obtain ⟨f, hf, e⟩ := h2
      exact Or.inr (Or.inl ⟨f, hf, e, hid⟩)
    · refine Or.inr (Or.inr ⟨?_, hid⟩)
      have hns : ∀ f ∈ (pre ++ post) ++ es, kv.1 ≠ RField.stored f := by
        intro f hf e
        rcases List.mem_append.1 hf with h3 | h3
        · exact h1 ⟨f, h3, e⟩
        · exact h2 ⟨f, h3, e⟩
      rcases h.fits.2 kv hkv with ⟨f, hf, e⟩ | h3
      · exact absurd e (hns f hf)
      · exact fun f hf => ⟨hns f hf, h3 f hf⟩

/-- after the top-level `rename` a direct field is found under its read name -/
theorem EmbeddedOK.top_direct (h : EmbeddedOK pre post es gE cE d) (jE : Bytes) (f : RField)
    (hf : f ∈ pre ++ post) :
    lookupKey (RField.read f) (renameTop (renameMap (pre ++ (gE, cE, jE, true, RT.struct es) :: post)) d) =
      lookupKey (RField.stored f) d := by
  refine lookupKey_renameTop_of_iff _ d h.fits.1 _ _ ?_
  intro kv hkv
  constructor
  · intro e
    rcases h.classify jE kv hkv with ⟨f', hf', e1, e2⟩ | ⟨f', hf', e1, e2⟩ | ⟨h3, e2⟩
    · rw [e2] at e
      rw [e1, inj_of_nodup_map RField.read _ h.readD f' hf' f hf e]
    · rw [e2, e1] at e
      exact absurd e (h.cross f' hf' f hf)
    · rw [e2] at e
      exact absurd e (h3 f (List.mem_append.2 (Or.inl hf))).2
  · intro e
    rw [e]; exact h.target_direct jE f hf

/-- after the top-level `rename` a promoted field is still under its stored name -/
theorem EmbeddedOK.top_promoted (h : EmbeddedOK pre post es gE cE d) (jE : Bytes) (f : RField)
    (hf : f ∈ es) :
    lookupKey (RField.stored f) (renameTop (renameMap (pre ++ (gE, cE, jE, true, RT.struct es) :: post)) d) =
      lookupKey (RField.stored f) d := by
  refine lookupKey_renameTop_of_iff _ d h.fits.1 _ _ ?_
  intro kv hkv
  constructor
  · intro e
    rcases h.classify jE kv hkv with ⟨f', hf', _, e2⟩ | ⟨f', hf', _, e2⟩ | ⟨_, e2⟩
    · rw [e2] at e
      exact absurd e.symm (h.cross f hf f' hf')
    · rw [e2] at e; exact e
    · rw [e2] at e; exact e
  · intro e
    rw [e]
    refine EmbeddedOK.target_other jE _ (fun f' hf' e' => h.stored_disj f' hf' f hf e'.symm) ?_
    intro e'
    exact h.stored_not_key (by rw [← e', ← e]; exact List.mem_map_of_mem hkv)

/-- the keys of the map when the loop reaches the embedded field -/
theorem EmbeddedOK.keys_mid (h : EmbeddedOK pre post es gE cE d) (jE : Bytes) (p : Bytes × Value)
    (hp : p ∈ renameFields pre (renameTop (renameMap (pre ++ (gE, cE, jE, true, RT.struct es) :: post)) d)) :
    ∃ kv ∈ d, p.1 = target (renameMap (pre ++ (gE, cE, jE, true, RT.struct es) :: post)) kv.1 := by
  obtain ⟨p', hp', e⟩ := List.mem_map.1 (mem_keys_renameFields p pre _ h.plain_pre hp)
  obtain ⟨kv, hkv, e'⟩ := mem_keys_renameTop _ p' d hp'
  exact ⟨kv, hkv, by rw [← e, e']⟩

/-- … no key is the Go name of the embedded field: the branch "flattened" is taken -/
theorem EmbeddedOK.noMap_mid (h : EmbeddedOK pre post es gE cE d) (jE : Bytes) :
    hasMapUnder gE
      (renameFields pre (renameTop (renameMap (pre ++ (gE, cE, jE, true, RT.struct es) :: post)) d)) = false := by
  refine hasMapUnder_of_not_key _ _ ?_
  intro hmem
  obtain ⟨p, hp, e⟩ := List.mem_map.1 hmem
  obtain ⟨kv, hkv, e'⟩ := h.keys_mid jE p hp
  have e'' : gE = target (renameMap (pre ++ (gE, cE, jE, true, RT.struct es) :: post)) kv.1 := by
    rw [← e', ← e]
  rcases h.classify jE kv hkv with ⟨f', hf', _, e2⟩ | ⟨f', hf', _, e2⟩ | ⟨_, e2⟩
  · rw [e2] at e''
    exact h.goName_not_read (e'' ▸ List.mem_map_of_mem hf')
  · rw [e2] at e''
    exact h.goName_not_key (e'' ▸ List.mem_map_of_mem hkv)
  · rw [e2] at e''
    exact h.goName_not_key (e'' ▸ List.mem_map_of_mem hkv)

/-- … and the map fits the embedded type -/
theorem EmbeddedOK.fits_mid (h : EmbeddedOK pre post es gE cE d) (jE : Bytes) :
    DocFits es
      (renameFields pre (renameTop (renameMap (pre ++ (gE, cE, jE, true, RT.struct es) :: post)) d)) := by
  refine ⟨nodup_keys_of_keysInc _ (keysInc_renameFields pre _ h.plain_pre (keysInc_renameTop _ _)), ?_⟩
  intro p hp
  obtain ⟨kv, hkv, e'⟩ := h.keys_mid jE p hp
  rcases h.classify jE kv hkv with ⟨f', hf', _, e2⟩ | ⟨f', hf', e1, e2⟩ | ⟨h3, e2⟩
  · rw [e2] at e'
    exact Or.inr (fun f hf => by rw [e']; exact h.read_disj f' hf' f hf)
  · rw [e2, e1] at e'
    exact Or.inl ⟨f', hf', e'⟩
  · rw [e2] at e'
    exact Or.inr (fun f hf => by rw [e']; exact (h3 f (List.mem_append.2 (Or.inr hf))).2)

/-- the run of `renameMapKeys` on a struct with an embedded struct whose fields were flattened -/
theorem EmbeddedOK.run (h : EmbeddedOK pre post es gE cE d) (jE : Bytes) :
    renameMapKeys (.struct (pre ++ (gE, cE, jE, true, RT.struct es) :: post)) d =
      renameFields post (renameMapKeys (.struct es)
        (renameFields pre (renameTop (renameMap (pre ++ (gE, cE, jE, true, RT.struct es) :: post)) d))) := by
  rw [renameMapKeys_struct, renameFields_append, renameFields_cons, fieldStep_embedded _ _ _ _ (h.noMap_mid jE)]

/-- item 4: every key stored under the `fromName` of a field of the EMBEDDED struct is found
    afterwards under its `toName`, its value renamed by its own type: promoted fields are renamed
    exactly like direct ones -/
theorem renameMapKeys_embedded (h : EmbeddedOK pre post es gE cE d) (jE : Bytes) (f : RField)
    (hf : f ∈ es) :
    lookupKey (RField.read f)
        (renameMapKeys (.struct (pre ++ (gE, cE, jE, true, RT.struct es) :: post)) d) =
      (lookupKey (RField.stored f) d).map (renameValue f.2.2.2.2) := by
  rw [h.run jE,
    lookupKey_renameFields_other _ post _ h.plain_post
      (fun f' hf' e => h.read_disj f' (List.mem_append.2 (Or.inr hf')) f hf e.symm),
    lookupKey_renameMapKeys_field es h.plain_es ⟨h.storedE, h.readE⟩ _ (h.fits_mid jE) f hf,
    lookupKey_renameFields_other _ pre _ h.plain_pre
      (fun f' hf' e => h.cross f hf f' (List.mem_append.2 (Or.inl hf')) e),
    h.top_promoted jE f hf]

/-- … and so are the direct fields of the same struct, before or after the embedded one -/
theorem renameMapKeys_embedded_direct (h : EmbeddedOK pre post es gE cE d) (jE : Bytes) (f : RField)
    (hf : f ∈ pre ++ post) :
    lookupKey (RField.read f)
        (renameMapKeys (.struct (pre ++ (gE, cE, jE, true, RT.struct es) :: post)) d) =
      (lookupKey (RField.stored f) d).map (renameValue f.2.2.2.2) := by
  have hstray : ∀ dd : Doc, (dd.map (·.1)).Nodup →
      lookupKey (RField.read f) (renameMapKeys (.struct es) dd) = lookupKey (RField.read f) dd :=
    fun dd hn => lookupKey_renameMapKeys_stray es h.plain_es h.storedE dd hn _
      (fun f' hf' => ⟨fun e => h.cross f' hf' f hf e.symm, h.read_disj f hf f' hf'⟩)
  rw [h.run jE]
  rcases List.mem_append.1 hf with h1 | h1
  · rw [lookupKey_renameFields_other _ post _ h.plain_post (fun f' hf' => h.read_pre_post f h1 f' hf'),
      hstray _ (h.fits_mid jE).1,
      lookupKey_renameFields_field pre _ h.plain_pre
        (by have := h.readD; rw [List.map_append] at this; exact (List.nodup_append.1 this).1) f h1,
      h.top_direct jE f hf]
  · rw [lookupKey_renameFields_field post _ h.plain_post
        (by have := h.readD; rw [List.map_append] at this; exact (List.nodup_append.1 this).2.1) f h1,
      hstray _ (h.fits_mid jE).1,
      lookupKey_renameFields_other _ pre _ h.plain_pre
        (fun f' hf' e => h.read_pre_post f' hf' f h1 e.symm),
      h.top_direct jE f hf]

/-- item 4 in the form of the task: the key `fromName g c` of a promoted field `(g, c, j, _, t)` with
    value `v` is found under `toName g j` with the value `renameValue t v` -/
theorem renameMapKeys_embedded_key (h : EmbeddedOK pre post es gE cE d) (jE : Bytes)
    (g c j : Bytes) (e : Bool) (t : RT) (hf : (g, c, j, e, t) ∈ es) (v : Value)
    (hv : lookupKey (fromName g c) d = some v) :
    lookupKey (toName g j)
        (renameMapKeys (.struct (pre ++ (gE, cE, jE, true, RT.struct es) :: post)) d) =
      some (renameValue t v) := by
  have := renameMapKeys_embedded h jE _ hf
  simp only [RField.read, RField.stored, hv, Option.map_some] at this
  exact this

end Embedded

/-! ## 5. The reproducer of F40 -/

section Reproducer
private def sBase : Bytes := [0x42, 0x61, 0x73, 0x65]   -- "Base"
private def sID : Bytes := [0x49, 0x44]   -- "ID"
private def s_ident : Bytes := [0x69, 0x64, 0x65, 0x6E, 0x74]   -- "ident"
private def sCreated : Bytes := [0x43, 0x72, 0x65, 0x61, 0x74, 0x65, 0x64]   -- "Created"
private def sName : Bytes := [0x4E, 0x61, 0x6D, 0x65]   -- "Name"
private def s_name : Bytes := [0x6E, 0x61, 0x6D, 0x65]   -- "name"
private def sIn : Bytes := [0x49, 0x6E]   -- "In"
private def s_inner : Bytes := [0x69, 0x6E, 0x6E, 0x65, 0x72]   -- "inner"
private def sN : Bytes := [0x4E]   -- "N"
private def s_num : Bytes := [0x6E, 0x75, 0x6D]   -- "num"
private def sList : Bytes := [0x4C, 0x69, 0x73, 0x74]   -- "List"
private def s_list : Bytes := [0x6C, 0x69, 0x73, 0x74]   -- "list"
private def sM : Bytes := [0x4D]   -- "M"
private def s_k : Bytes := [0x6B]   -- "k"
private def s_b1 : Bytes := [0x62, 0x31]   -- "b1"
private def s_n : Bytes := [0x6E]   -- "n"
private def n (i : Int) : Value := .num (.int i)
private def created : Value := .time 1700000000000000000 0

/-- `type Inner struct { N int `clover:"num"` }` -/
private def tInner : RT := .struct [(sN, s_num, [], false, .leaf)]
/-- `type Base struct { ID string `clover:"ident"`; Created time.Time }` -/
private def tBase : RT := .struct [(sID, s_ident, [], false, .leaf), (sCreated, [], [], false, .leaf)]
/-- `type Outer struct { Base; Name string `clover:"name"`; In Inner `clover:"inner"`;
      List []Inner `clover:"list"`; M map[string]Inner }` -/
private def tOuter : RT := .struct [
  (sBase, [], [], true, tBase),
  (sName, s_name, [], false, .leaf),
  (sIn, s_inner, [], false, tInner),
  (sList, s_list, [], false, .list tInner),
  (sM, [], [], false, .map tInner)]

/-- the document `NewDocumentOf(&Outer{…})` (the fields of `Base` flattened into it) comes back with
    every key under the name `encoding/json` reads: the promoted field `ident ↦ ID`, and `num ↦ N`
    inside the nested struct, inside the elements of the slice and inside the values of the map -/
example :
    renameMapKeys tOuter
      [(sCreated, created), (sM, .obj [(s_k, .obj [(s_num, n 5)])]), (s_ident, .str s_b1),
       (s_inner, .obj [(s_num, n 1)]), (s_list, .arr [.obj [(s_num, n 3)], .obj [(s_num, n 4)]]),
       (s_name, .str s_n)]
    = [(sCreated, created), (sID, .str s_b1), (sIn, .obj [(sN, n 1)]),
       (sList, .arr [.obj [(sN, n 3)], .obj [(sN, n 4)]]), (sM, .obj [(s_k, .obj [(sN, n 5)])]),
       (sName, .str s_n)] := by rfl

private def reproDoc : Doc :=
  [(sCreated, created), (sM, .obj [(s_k, .obj [(s_num, n 5)])]), (s_ident, .str s_b1),
   (s_inner, .obj [(s_num, n 1)]), (s_list, .arr [.obj [(s_num, n 3)], .obj [(s_num, n 4)]]),
   (s_name, .str s_n)]
private def fName : RField := (sName, s_name, [], false, .leaf)
private def fIn : RField := (sIn, s_inner, [], false, tInner)
private def fList : RField := (sList, s_list, [], false, .list tInner)
private def fM : RField := (sM, [], [], false, .map tInner)
private def fID : RField := (sID, s_ident, [], false, .leaf)
private def fCreated : RField := (sCreated, [], [], false, .leaf)

/-- the hypotheses of item 4 hold of the reproducer (they are satisfiable) -/
private theorem repro_ok :
    EmbeddedOK [] [fName, fIn, fList, fM] [fID, fCreated] sBase [] reproDoc where
  plain_pre := fun f hf => by cases hf
  plain_post := fun f hf => by
    simp only [List.mem_cons, List.not_mem_nil, or_false] at hf
    rcases hf with rfl | rfl | rfl | rfl <;> rfl
  plain_es := fun f hf => by
    simp only [List.mem_cons, List.not_mem_nil, or_false] at hf
    rcases hf with rfl | rfl <;> rfl
  stored := by decide
  read := by decide
  cross := fun f hf f' hf' => by
    simp only [List.nil_append, List.mem_cons, List.not_mem_nil, or_false] at hf hf'
    rcases hf with rfl | rfl <;> rcases hf' with rfl | rfl | rfl | rfl <;> decide
  fits := by
    refine ⟨by decide, ?_⟩
    intro kv hkv
    simp only [reproDoc, List.mem_cons, List.not_mem_nil, or_false] at hkv
    rcases hkv with rfl | rfl | rfl | rfl | rfl | rfl
    · exact Or.inl ⟨fCreated, by simp only [List.nil_append, List.cons_append, List.mem_cons, true_or, or_true], rfl⟩
    · exact Or.inl ⟨fM, by simp only [List.nil_append, List.cons_append, List.mem_cons, true_or, or_true], rfl⟩
    · exact Or.inl ⟨fID, by simp only [List.nil_append, List.cons_append, List.mem_cons, true_or, or_true], rfl⟩
    · exact Or.inl ⟨fIn, by simp only [List.nil_append, List.cons_append, List.mem_cons, true_or, or_true], rfl⟩
    · exact Or.inl ⟨fList, by simp only [List.nil_append, List.cons_append, List.mem_cons, true_or, or_true], rfl⟩
    · exact Or.inl ⟨fName, by simp only [List.nil_append, List.cons_append, List.mem_cons, true_or], rfl⟩
  goName_not_key := by decide
  stored_not_key := by decide
  goName_not_read := by decide
  stored_not_stored := by decide

/-- item 4 on the reproducer: the promoted field `ident` arrives under `ID` -/
example : lookupKey sID (renameMapKeys tOuter reproDoc) = some (.str s_b1) :=
  renameMapKeys_embedded_key repro_ok [] sID s_ident [] false .leaf List.mem_cons_self (.str s_b1) rfl

/-- a struct-typed EMBEDDED field that was NOT flattened (a map sits under its Go name: e.g. a document
    written by hand): treated like a direct field -/
example :
    renameMapKeys (.struct [(sBase, [], [], true, tBase)])
      [(sBase, .obj [(s_ident, .str s_b1)]), (s_ident, n 1)]
    = [(sBase, .obj [(sID, .str s_b1)]), (s_ident, n 1)] := by rfl

/-- the renaming of promoted fields is a SECOND pass over the same map, not simultaneous with the
    renaming of the direct fields: a direct field read under a name that is the stored name of a
    promoted field is moved again (hypothesis `hcross` of `renameMapKeys_embedded` is needed).  Direct
    field `Name` stored under "name" and read under "ident" (`clover:"name" json:"ident"`); promoted
    field `ID` stored under "ident" and absent from the document: the value of `Name` ends under "ID". -/
example :
    renameMapKeys (.struct [(sBase, [], [], true, tBase), (sName, s_name, s_ident, false, .leaf)])
      [(s_name, .str s_n)]
    = [(sID, .str s_n)] := by rfl
end Reproducer

end CV.U2
