import Clover.Model.Unmarshal2
import Clover.Proofs.UnmarshalRename
import Clover.Proofs.SetAllOrder
/-! # The repaired key renaming of `Document.Unmarshal` (defect F40)

1. on the old fragment of types (no embedded fields, no containers) the new `renameMapKeys` is the
   old one (`renameMapKeys_embedOld`);
2. structs held in slices / arrays (`renameValue_list`) and in maps (`renameValue_map`) are renamed by
   the element type;
3. the promoted fields of an embedded struct are renamed exactly like direct ones
   (`renameMapKeys_embedded`);
4. the reproducer of F40. -/
namespace CV.U2
open OC

/-! ## 0. Unfolding -/

/-- the direct case of the loop body: the value found under the read name goes through `renameValue` -/
def directStep (g j : Bytes) (t : RT) (d : Doc) : Doc :=
  match lookupKey (toName g j) d with
  | some v => insertKey (toName g j) (renameValue t v) d
  | none => d

/-- one iteration of the loop of `renameMapKeys` -/
def fieldStep (g j : Bytes) (e : Bool) (t : RT) (d : Doc) : Doc :=
  if e && t.isStruct && !hasMapUnder g d then renameMapKeys t d else directStep g j t d

theorem renameFields_nil (d : Doc) : renameFields [] d = d := rfl

theorem renameFields_cons (g c j : Bytes) (e : Bool) (t : RT) (rest : List RField) (d : Doc) :
    renameFields ((g, c, j, e, t) :: rest) d = renameFields rest (fieldStep g j e t d) := by
  cases t <;> cases e <;> rfl

theorem fieldStep_direct (g j : Bytes) (t : RT) (d : Doc) :
    fieldStep g j false t d = directStep g j t d := rfl

theorem renameMapKeys_struct (fs : List RField) (d : Doc) :
    renameMapKeys (.struct fs) d = renameFields fs (renameTop (renameMap fs) d) := rfl

theorem renameValue_struct (fs : List RField) (m : Doc) :
    renameValue (.struct fs) (.obj m) = .obj (renameMapKeys (.struct fs) m) := rfl

theorem renameValue_list_arr (t : RT) (xs : List Value) :
    renameValue (.list t) (.arr xs) = .arr (xs.map (renameValue t)) := rfl

theorem renameValue_map_obj (t : RT) (m : Doc) :
    renameValue (.map t) (.obj m) = .obj (m.map (fun kv => (kv.1, renameValue t kv.2))) := rfl

theorem renameValue_leaf (v : Value) : renameValue .leaf v = v := rfl

theorem renameValue_struct_not_obj (fs : List RField) (v : Value) (h : ∀ m, v ≠ .obj m) :
    renameValue (.struct fs) v = v := by
  cases v <;> first | rfl | exact absurd rfl (h _)

/-! ## 1. The old fragment -/

theorem insertKey_self (k : Bytes) (v : Value) : (m : Doc) → KeysInc m → lookupKey k m = some v →
    insertKey k v m = m
  | [], _, h => by cases h
  | (a, x) :: t, hs, h => by
    have hs' := List.pairwise_cons.1 hs
    by_cases e : k = a
    · subst e
      simp only [lookupKey, if_true, Option.some.injEq] at h
      rw [insertKey_cons_eq, h]
    · simp only [lookupKey, if_neg e] at h
      have hl : lexLt a k = true := hs'.1 (k, v) (mem_of_lookupKey t h)
      rw [insertKey_cons_gt k v a x t hl, insertKey_self k v t hs'.2 h]

theorem keysInc_renameInto (rm : List (Bytes × Bytes)) : (d : Doc) → (acc : Doc) → KeysInc acc →
    KeysInc (renameInto rm acc d)
  | [], _, h => h
  | kv :: rest, acc, h => by
    rw [renameInto_cons]
    exact keysInc_renameInto rm rest _ (insertKey_sorted _ _ _ h)

theorem keysInc_renameTop (rm : List (Bytes × Bytes)) (d : Doc) : KeysInc (renameTop rm d) :=
  keysInc_renameInto rm d [] List.Pairwise.nil

theorem keysInc_nestStep (g j : Bytes) (t : RType) (d : Doc) (h : KeysInc d) :
    KeysInc (nestStep g j t d) := by
  unfold nestStep
  split
  · exact insertKey_sorted _ _ _ h
  · exact h

theorem renameMap_embedOldFields : (fs : List CV.RField) →
    renameMap (embedOldFields fs) = CV.renameMap fs
  | [] => rfl
  | (g, c, j, t) :: rest => by
    show renameMap ((g, c, j, false, embedOld t) :: embedOldFields rest) = _
    simp only [renameMap, CV.renameMap, renameMap_embedOldFields rest]

mutual
/-- item 1: on the old fragment of types the repaired function is the old one (every document) -/
theorem renameMapKeys_embedOld : (T : RType) → (d : Doc) →
    renameMapKeys (embedOld T) d = CV.renameMapKeys T d
  | .leaf, _ => rfl
  | .struct fs, d => by
    show renameFields (embedOldFields fs) (renameTop (renameMap (embedOldFields fs)) d) = _
    rw [CV.renameMapKeys_struct, renameMap_embedOldFields]
    exact renameFields_embedOld fs _ (keysInc_renameTop _ _)
theorem renameFields_embedOld : (fs : List CV.RField) → (d : Doc) → KeysInc d →
    renameFields (embedOldFields fs) d = renameNested fs d
  | [], _, _ => rfl
  | (g, c, j, t) :: rest, d, hd => by
    show renameFields ((g, c, j, false, embedOld t) :: embedOldFields rest) d = _
    rw [renameFields_cons, renameNested_cons, fieldStep_direct]
    have hstep : directStep g j (embedOld t) d = nestStep g j t d := by
      unfold directStep nestStep
      cases hl : lookupKey (toName g j) d with
      | none => cases t <;> rfl
      | some v =>
        cases t with
        | leaf =>
          show insertKey (toName g j) v d = d
          exact insertKey_self _ _ _ hd hl
        | struct sub =>
          cases v with
          | obj m =>
            show insertKey (toName g j) (.obj (renameMapKeys (embedOld (.struct sub)) m)) d = _
            rw [renameMapKeys_embedOld (.struct sub) m]
          | _ =>
            show insertKey (toName g j) _ d = d
            exact insertKey_self _ _ _ hd hl
    rw [hstep]
    exact renameFields_embedOld rest _ (keysInc_nestStep g j t d hd)
end

/-! ## 5. The reproducer of F40 -/

section Reproducer
private def sBase : Bytes := [0x42, 0x61, 0x73, 0x65]   -- "Base"
private def sID : Bytes := [0x49, 0x44]   -- "ID"
private def s_ident : Bytes := [0x69, 0x64, 0x65, 0x6E, 0x74]   -- "ident"
private def sCreated : Bytes := [0x43, 0x72, 0x65, 0x61, 0x74, 0x65, 0x64]   -- "Created"
private def sName : Bytes := [0x4E, 0x61, 0x6D, 0x65]   -- "Name"
private def s_name : Bytes := [0x6E, 0x61, 0x6D, 0x65]   -- "name"
private def sIn : Bytes := [0x49, 0x6E]   -- "In"
private def s_inner : Bytes := [0x69, 0x6E, 0x6E, 0x65, 0x72]   -- "inner"
private def sN : Bytes := [0x4E]   -- "N"
private def s_num : Bytes := [0x6E, 0x75, 0x6D]   -- "num"
private def sList : Bytes := [0x4C, 0x69, 0x73, 0x74]   -- "List"
private def s_list : Bytes := [0x6C, 0x69, 0x73, 0x74]   -- "list"
private def sM : Bytes := [0x4D]   -- "M"
private def s_k : Bytes := [0x6B]   -- "k"
private def s_b1 : Bytes := [0x62, 0x31]   -- "b1"
private def s_n : Bytes := [0x6E]   -- "n"
private def n (i : Int) : Value := .num (.int i)
private def created : Value := .time 1700000000000000000 0

/-- `type Inner struct { N int `clover:"num"` }` -/
private def tInner : RT := .struct [(sN, s_num, [], false, .leaf)]
/-- `type Base struct { ID string `clover:"ident"`; Created time.Time }` -/
private def tBase : RT := .struct [(sID, s_ident, [], false, .leaf), (sCreated, [], [], false, .leaf)]
/-- `type Outer struct { Base; Name string `clover:"name"`; In Inner `clover:"inner"`;
      List []Inner `clover:"list"`; M map[string]Inner }` -/
private def tOuter : RT := .struct [
  (sBase, [], [], true, tBase),
  (sName, s_name, [], false, .leaf),
  (sIn, s_inner, [], false, tInner),
  (sList, s_list, [], false, .list tInner),
  (sM, [], [], false, .map tInner)]

/-- the document `NewDocumentOf(&Outer{…})` (the fields of `Base` flattened into it) comes back with
    every key under the name `encoding/json` reads: the promoted field `ident ↦ ID`, and `num ↦ N`
    inside the nested struct, inside the elements of the slice and inside the values of the map -/
example :
    renameMapKeys tOuter
      [(sCreated, created), (sM, .obj [(s_k, .obj [(s_num, n 5)])]), (s_ident, .str s_b1),
       (s_inner, .obj [(s_num, n 1)]), (s_list, .arr [.obj [(s_num, n 3)], .obj [(s_num, n 4)]]),
       (s_name, .str s_n)]
    = [(sCreated, created), (sID, .str s_b1), (sIn, .obj [(sN, n 1)]),
       (sList, .arr [.obj [(sN, n 3)], .obj [(sN, n 4)]]), (sM, .obj [(s_k, .obj [(sN, n 5)])]),
       (sName, .str s_n)] := by rfl

/-- a struct-typed EMBEDDED field that was NOT flattened (a map sits under its Go name: e.g. a document
    written by hand): treated like a direct field -/
example :
    renameMapKeys (.struct [(sBase, [], [], true, tBase)])
      [(sBase, .obj [(s_ident, .str s_b1)]), (s_ident, n 1)]
    = [(sBase, .obj [(sID, .str s_b1)]), (s_ident, n 1)] := by rfl

/-- the renaming of promoted fields is a SECOND pass over the same map, not simultaneous with the
    renaming of the direct fields: a direct field read under a name that is the stored name of a
    promoted field is moved again (hypothesis `hcross` of `renameMapKeys_embedded`).  Direct field
    `Name` stored under "name" and read under "ident"; promoted field `ID` stored under "ident": the
    value of `Name` ends under "ID" and the value of `ID` is lost. -/
example :
    renameMapKeys (.struct [(sBase, [], [], true, tBase), (sName, s_name, s_ident, false, .leaf)])
      [(s_ident, .str s_b1), (s_name, .str s_n)]
    = [(sID, .str s_n)] := by rfl
end Reproducer

end CV.U2
