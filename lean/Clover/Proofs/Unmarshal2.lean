import Clover.Model.Unmarshal2
import Clover.Proofs.UnmarshalRename
import Clover.Proofs.SetAllOrder
/-! # The repaired key renaming of `Document.Unmarshal` (defect F40)

1. on the old fragment of types (no embedded fields, no containers) the new `renameMapKeys` is the
   old one (`renameMapKeys_embedOld`);
2. structs held in slices / arrays (`renameValue_list`) and in maps (`renameValue_map`) are renamed by
   the element type;
3. the promoted fields of an embedded struct are renamed exactly like direct ones
   (`renameMapKeys_embedded`);
4. the reproducer of F40. -/
namespace CV.U2
open OC

/-! ## 0. Unfolding -/

/-- the direct case of the loop body: the value found under the read name goes through `renameValue` -/
def directStep (g j : Bytes) (t : RT) (d : Doc) : Doc :=
  match lookupKey (toName g j) d with
  | some v => insertKey (toName g j) (renameValue t v) d
  | none => d

/-- one iteration of the loop of `renameMapKeys` -/
def fieldStep (g j : Bytes) (e : Bool) (t : RT) (d : Doc) : Doc :=
  match e, t, hasMapUnder g d with
  | true, .struct sub, false => renameMapKeys (.struct sub) d
  | _, _, _ => directStep g j t d

theorem renameFields_nil (d : Doc) : renameFields [] d = d := rfl

theorem renameFields_cons (g c j : Bytes) (e : Bool) (t : RT) (rest : List RField) (d : Doc) :
    renameFields ((g, c, j, e, t) :: rest) d = renameFields rest (fieldStep g j e t d) := by
  cases e
  · cases t <;> rfl
  · cases t with
    | struct sub =>
      show renameFields rest (match true, RT.struct sub, hasMapUnder g d with
        | true, .struct sub, false => renameFields sub (renameTop (renameMap sub) d)
        | _, _, _ => directStep g j (RT.struct sub) d) = _
      unfold fieldStep
      cases hasMapUnder g d <;> rfl
    | _ => rfl

theorem renameMapKeys_struct (fs : List RField) (d : Doc) :
    renameMapKeys (.struct fs) d = renameFields fs (renameTop (renameMap fs) d) := rfl

theorem renameValue_struct (fs : List RField) (m : Doc) :
    renameValue (.struct fs) (.obj m) = .obj (renameMapKeys (.struct fs) m) := rfl

theorem renameValue_list_arr (t : RT) (xs : List Value) :
    renameValue (.list t) (.arr xs) = .arr (xs.map (renameValue t)) := rfl

theorem renameValue_map_obj (t : RT) (m : Doc) :
    renameValue (.map t) (.obj m) = .obj (m.map (fun kv => (kv.1, renameValue t kv.2))) := rfl

theorem renameValue_leaf (v : Value) : renameValue .leaf v = v := rfl

theorem renameValue_struct_not_obj (fs : List RField) (v : Value) (h : ∀ m, v ≠ .obj m) :
    renameValue (.struct fs) v = v := by
  cases v <;> first | rfl | exact absurd rfl (h _)

end CV.U2
