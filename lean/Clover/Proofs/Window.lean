import Clover.Model.Plan
import Clover.Spec.Spec
/-! # skipLimitNode + collecting consumer = the window of the fed sequence -/
namespace CV

theorem feed_out (q : Query) : (st : Pipe) → (l : List Doc) → st.skipped ≤ q.skip →
    (st.skipped < q.skip → st.consumed = 0) →
    (feed q none st l).out =
      (if q.limit < 0 then l.drop (q.skip - st.skipped)
       else (l.drop (q.skip - st.skipped)).take (q.limit.toNat - st.consumed)).reverse ++ st.out
  | st, [], _, _ => by simp [feed]
  | st, x :: xs, h1, h2 => by
    simp only [feed, emit, consume]
    by_cases hn : (q.skip > 0 || decide (q.limit ≥ 0)) = true
    · simp only [hn, if_true]
      by_cases hs : st.skipped < q.skip
      · simp only [hs, if_true]
        rw [feed_out q _ xs (by simp; omega) (by intro _; simp; exact h2 hs)]
        have : q.skip - st.skipped = (q.skip - (st.skipped + 1)) + 1 := by omega
        simp only [this, List.drop_succ_cons]
      · have h0 : q.skip - st.skipped = 0 := by omega
        simp only [hs, if_false, h0, List.drop_zero]
        by_cases hl : q.limit < 0
        · simp only [hl, decide_true, Bool.true_or, if_true]
          rw [feed_out q _ xs (by simp; omega) (by intro h; simp at h; omega)]
          simp [hl, h0]
        · by_cases hc : (st.consumed : Int) < q.limit
          · simp only [hl, decide_false, Bool.false_or, hc, decide_true, if_true, if_false]
            rw [feed_out q _ xs (by simp; omega) (by intro h; simp at h; omega)]
            simp only [hl, if_false, h0, List.drop_zero]
            have : q.limit.toNat - st.consumed = (q.limit.toNat - (st.consumed + 1)) + 1 := by omega
            rw [this, List.take_succ_cons]
            simp
          · simp only [hl, decide_false, Bool.false_or, hc, if_false]
            have : q.limit.toNat - st.consumed = 0 := by omega
            simp [this]
    · -- no skip/limit node: skip = 0 and limit < 0
      simp only [Bool.or_eq_true, decide_eq_true_eq, not_or, Nat.not_lt, Nat.le_zero_eq, Int.not_le] at hn
      have hsk : q.skip = 0 := by omega
      have hl : q.limit < 0 := hn.2
      have hcond : (q.skip > 0 || decide (q.limit ≥ 0)) = false := by
        simp [hsk]; omega
      simp only [hcond, Bool.false_eq_true, if_false]
      rw [feed_out q _ xs (by simp; omega) (by intro h; simp at h; omega)]
      simp [hl, hsk]

/-- C08: feeding any sequence through the skip/limit node into a collecting consumer yields
    exactly the window `[skip, skip+limit)` of it (everything after `skip` when `limit < 0`). -/
theorem feed_window (q : Query) (l : List Doc) :
    (feed q none {} l).out.reverse = Spec.window q.skip q.limit l := by
  rw [feed_out q {} l (Nat.zero_le _) (fun _ => rfl)]
  simp [Spec.window]

end CV
