import Clover.Model.Criteria
import Clover.Model.GoVal
import Clover.Proofs.Paths
import Clover.Proofs.GoCmp
/-! # C16, last sentence — a literal yields the same result whatever Go numeric type it was supplied as

`normalize` (C18 `widths_canonical`) turns a Go integer into `.num (.int i)`, an unsigned one into
`.num (.uint u)` and a float into `.num (.float bits)`.  Two canonical numbers with the same exact
value (`nkey`) are `SameNumber`; on the comparison domain of C10 `Compare` cannot tell them apart
(`goCmp_sameNumber`), hence no criteria can (`sat_sameUpToKinds`). -/
namespace CV
open F64

/-- both are numbers, with the same exact numeric value -/
def SameNumber (a b : Value) : Prop := ∃ m n, a = .num m ∧ b = .num n ∧ nkey m = nkey n

theorem SameNumber.symm {a b : Value} (h : SameNumber a b) : SameNumber b a := by
  obtain ⟨m, n, ha, hb, e⟩ := h
  exact ⟨n, m, hb, ha, e.symm⟩

theorem SameNumber.trans {a b c : Value} (h1 : SameNumber a b) (h2 : SameNumber b c) : SameNumber a c := by
  obtain ⟨m, n, ha, hb, e⟩ := h1
  obtain ⟨n', k, hb', hc, e'⟩ := h2
  rw [hb] at hb'
  injection hb' with hnn
  subst hnn
  exact ⟨m, k, ha, hc, e.trans e'⟩

theorem sameNumber_refl_num (m : Num) : SameNumber (.num m) (.num m) := ⟨m, m, rfl, rfl, rfl⟩

/-! ## 1. the three Go kinds of one small natural number -/

/-- `float64(n)` as the model computes it for a signed and for an unsigned source agree on naturals -/
theorem ofInt_natCast (n : Nat) : ofInt (n : Int) = ofNatMag n := by
  unfold ofInt
  have h : (0 : Int) ≤ (n : Int) := Int.natCast_nonneg n
  rw [if_pos h, Int.toNat_natCast]

theorem nkey_float_ofNat (n : Nat) (hn : n ≤ 2^53) : nkey (.float (ofNatMag n)) = (n : Int) * 2^1074 := by
  have h := fval_ofInt (n : Int) (by omega) (by omega)
  rw [ofInt_natCast] at h
  exact h

theorem two_pow_mul_lt (a b c d : Nat) (h : a + b < c + d) : 2^a * 2^b < 2^c * 2^d := by
  rw [← Nat.pow_add, ← Nat.pow_add]; exact Nat.pow_lt_pow_right (by decide) h

/-- the canonical float of a natural `n ≤ 2^53` is in the exact domain (finite, not NaN) -/
theorem numOK_float_ofNat (n : Nat) (hn : n ≤ 2^53) : numOK (.float (ofNatMag n)) := by
  have hlt := ofNatMag_lt n hn
  have hv := ofNatMag_exact n hn
  have hmod : ofNatMag n % 2^63 = ofNatMag n := Nat.mod_eq_of_lt hlt
  refine ⟨by omega, ?_⟩
  rw [hmod]
  rcases Nat.lt_or_ge (2047 * 2^52) (ofNatMag n) with h | h
  · exfalso
    have hm := fvalMag_mono_le (2047 * 2^52) (ofNatMag n) (Nat.le_of_lt h)
    rw [hv, fvalMag_mul_pow 2047 (by decide)] at hm
    have h1 := Nat.mul_le_mul_right (2^1074) hn
    have h2 := two_pow_mul_lt 53 1074 52 (2047 - 1) (by decide)
    omega
  · exact h

/-- A natural number `n ≤ 2^53` supplied as a signed integer, an unsigned integer or a float
    (`float64(n)`): the three canonical values are pairwise the same number, and all three are in
    the exact domain `numOK`. -/
theorem sameNumber_kinds (n : Nat) (hn : n ≤ 2^53) :
    SameNumber (.num (.int (n : Int))) (.num (.uint n)) ∧
    SameNumber (.num (.int (n : Int))) (.num (.float (ofInt (n : Int)))) ∧
    SameNumber (.num (.uint n)) (.num (.float (ofNatMag n))) ∧
    SameNumber (.num (.float (ofInt (n : Int)))) (.num (.float (ofNatMag n))) ∧
    numOK (.int (n : Int)) ∧ numOK (.uint n) ∧ numOK (.float (ofNatMag n)) := by
  have hf := nkey_float_ofNat n hn
  refine ⟨⟨_, _, rfl, rfl, rfl⟩, ⟨_, _, rfl, rfl, ?_⟩, ⟨_, _, rfl, rfl, ?_⟩, ⟨_, _, rfl, rfl, ?_⟩, ?_, ?_, ?_⟩
  · rw [ofInt_natCast, hf]; rfl
  · rw [hf]; rfl
  · rw [ofInt_natCast]
  · show -2^53 ≤ (n : Int) ∧ (n : Int) ≤ 2^53
    omega
  · exact hn
  · exact numOK_float_ofNat n hn

/-- the same through `normalize` (C18): whatever Go kind `n` is supplied as, the normalised
    literals are the same number -/
theorem normalize_kinds_sameNumber (n : Nat) (hn : n ≤ 2^53) :
    ∃ a b c, normalize (.int (n : Int)) = .ok a ∧ normalize (.uint n) = .ok b ∧
      normalize (.float (ofNatMag n)) = .ok c ∧
      SameNumber a b ∧ SameNumber a c ∧ SameNumber b c := by
  have h := sameNumber_kinds n hn
  refine ⟨_, _, _, rfl, rfl, rfl, h.1, ?_, h.2.2.1⟩
  have := h.2.1
  rw [ofInt_natCast] at this
  exact this

/-! ## 2. `Compare` cannot tell two representations of one number apart -/

theorem pairDom_symm {a b : Value} (h : PairDom a b) : PairDom b a := by
  rcases h with h | h
  · exact Or.inl ⟨h.2, h.1⟩
  · exact Or.inr ⟨h.2, h.1⟩

/-- the comparison by exact value only looks at `nkey` of a number -/
theorem cmp_num_congr_right (x : Value) (m n : Num) (e : nkey m = nkey n) :
    cmp nkey x (.num m) = cmp nkey x (.num n) := by
  cases x <;> simp only [cmp, Value.rank, e]

theorem cmp_num_congr_left (x : Value) (m n : Num) (e : nkey m = nkey n) :
    cmp nkey (.num m) x = cmp nkey (.num n) x := by
  cases x <;> simp only [cmp, Value.rank, e]

theorem cmp_sameNumber (x a b : Value) (h : SameNumber a b) :
    cmp nkey x a = cmp nkey x b ∧ cmp nkey a x = cmp nkey b x := by
  obtain ⟨m, n, ha, hb, e⟩ := h
  subst ha; subst hb
  exact ⟨cmp_num_congr_right x m n e, cmp_num_congr_left x m n e⟩

/-- On the comparison domain of C10, replacing a number by another representation of the same
    number changes no comparison result, on either side. -/
theorem goCmp_sameNumber (x a b : Value) (h : SameNumber a b)
    (da : PairDom x a) (db : PairDom x b) :
    goCmp x a = goCmp x b ∧ goCmp a x = goCmp b x := by
  have hc := cmp_sameNumber x a b h
  rw [goCmp_eq x a da, goCmp_eq x b db, goCmp_eq a x (pairDom_symm da), goCmp_eq b x (pairDom_symm db)]
  exact hc

/-- the same with the domain stated number by number: everything exactly representable -/
theorem goCmp_sameNumber_numsOK (x a b : Value) (h : SameNumber a b)
    (hx : NumsOK x) (ha : NumsOK a) (hb : NumsOK b) :
    goCmp x a = goCmp x b ∧ goCmp a x = goCmp b x :=
  goCmp_sameNumber x a b h (Or.inr ⟨hx, ha⟩) (Or.inr ⟨hx, hb⟩)

/-- two representations of one number compare equal -/
theorem goCmp_sameNumber_zero (a b : Value) (h : SameNumber a b) (d : PairDom a b) : goCmp a b = 0 := by
  obtain ⟨m, n, ha, hb, e⟩ := h
  subst ha; subst hb
  rw [goCmp_eq _ _ d]
  simp only [cmp, e, cmpInt]
  simp

/-! ## 3. criteria that differ only in the Go kind of numeric literals -/

/-- operands: equal, or two literals that are the same number -/
def Operand.Same (x y : Operand) : Prop := x = y ∨ ∃ a b, x = .lit a ∧ y = .lit b ∧ SameNumber a b

/-- operand lists of `In` / `Contains`: same length, pairwise `Operand.Same` -/
inductive Operand.SameL : List Operand → List Operand → Prop
  | nil : Operand.SameL [] []
  | cons {x y : Operand} {xs ys : List Operand} :
      Operand.Same x y → Operand.SameL xs ys → Operand.SameL (x :: xs) (y :: ys)

/-- same criteria tree; literal operands pairwise equal or the same number -/
inductive Crit.SameUpToKinds : Crit → Crit → Prop
  | exists_ (f : Bytes) : Crit.SameUpToKinds (.exists_ f) (.exists_ f)
  | cmp (op : CmpOp) (f : Bytes) {x y : Operand} :
      Operand.Same x y → Crit.SameUpToKinds (.cmp op f x) (.cmp op f y)
  | like (f p : Bytes) : Crit.SameUpToKinds (.like f p) (.like f p)
  | isIn (f : Bytes) {xs ys : List Operand} :
      Operand.SameL xs ys → Crit.SameUpToKinds (.isIn f xs) (.isIn f ys)
  | contains (f : Bytes) {xs ys : List Operand} :
      Operand.SameL xs ys → Crit.SameUpToKinds (.contains f xs) (.contains f ys)
  | fn (id : Nat) : Crit.SameUpToKinds (.fn id) (.fn id)
  | and {a a' b b' : Crit} :
      Crit.SameUpToKinds a a' → Crit.SameUpToKinds b b' → Crit.SameUpToKinds (.and a b) (.and a' b')
  | or {a a' b b' : Crit} :
      Crit.SameUpToKinds a a' → Crit.SameUpToKinds b b' → Crit.SameUpToKinds (.or a b) (.or a' b')
  | not {a a' : Crit} : Crit.SameUpToKinds a a' → Crit.SameUpToKinds (.not a) (.not a')

theorem Operand.Same.refl (x : Operand) : Operand.Same x x := Or.inl rfl

theorem Operand.SameL.refl : (xs : List Operand) → Operand.SameL xs xs
  | [] => .nil
  | x :: xs => .cons (Operand.Same.refl x) (Operand.SameL.refl xs)

theorem Crit.SameUpToKinds.refl : (c : Crit) → Crit.SameUpToKinds c c
  | .exists_ f => .exists_ f
  | .cmp op f x => .cmp op f (Operand.Same.refl x)
  | .like f p => .like f p
  | .isIn f xs => .isIn f (Operand.SameL.refl xs)
  | .contains f xs => .contains f (Operand.SameL.refl xs)
  | .fn id => .fn id
  | .and a b => .and (Crit.SameUpToKinds.refl a) (Crit.SameUpToKinds.refl b)
  | .or a b => .or (Crit.SameUpToKinds.refl a) (Crit.SameUpToKinds.refl b)
  | .not a => .not (Crit.SameUpToKinds.refl a)

/-- domain: every number of a literal operand is exactly representable -/
def Operand.LitOK : Operand → Prop
  | .lit v => NumsOK v
  | .ref _ => True

/-- domain: every number of every literal operand of the criteria is exactly representable -/
def Crit.LitsOK : Crit → Prop
  | .cmp _ _ x => x.LitOK
  | .isIn _ xs => ∀ x ∈ xs, x.LitOK
  | .contains _ xs => ∀ x ∈ xs, x.LitOK
  | .and a b => a.LitsOK ∧ b.LitsOK
  | .or a b => a.LitsOK ∧ b.LitsOK
  | .not a => a.LitsOK
  | _ => True

/-! ### the document side of the domain: every value read from a document of exact numbers is exact -/

theorem lookupKey_numsOK (k : Bytes) : (d : Doc) → AllNumKV numOK d → (v : Value) →
    lookupKey k d = some v → AllNum numOK v
  | [], _, v, h => by simp [lookupKey] at h
  | (k', w) :: t, hd, v, h => by
    simp only [AllNumKV] at hd
    simp only [lookupKey] at h
    by_cases e : k = k'
    · rw [if_pos e] at h
      injection h with h
      rw [← h]; exact hd.1
    · rw [if_neg e] at h
      exact lookupKey_numsOK k t hd.2 v h

theorem getPath_numsOK : (p : List Bytes) → (d : Doc) → AllNumKV numOK d → (v : Value) →
    getPath d p = some v → AllNum numOK v
  | [], d, _, v, h => by simp [getPath] at h
  | [k], d, hd, v, h => by
    simp only [getPath] at h
    exact lookupKey_numsOK k d hd v h
  | k :: k2 :: rest, d, hd, v, h => by
    simp only [getPath] at h
    cases hl : lookupKey k d with
    | none => simp [hl] at h
    | some w =>
      have hw := lookupKey_numsOK k d hd w hl
      cases w with
      | obj sub =>
        simp only [hl] at h
        simp only [AllNum] at hw
        exact getPath_numsOK (k2 :: rest) sub hw v h
      | null => simp [hl] at h
      | num _ => simp [hl] at h
      | str _ => simp [hl] at h
      | bool _ => simp [hl] at h
      | time _ _ => simp [hl] at h
      | arr _ => simp [hl] at h

/-- a document whose numbers are all exactly representable only yields such values -/
theorem get_numsOK (d : Doc) (hd : NumsOK (.obj d)) (f : Bytes) : NumsOK (d.get f) := by
  have hd' : AllNumKV numOK d := by simpa [NumsOK, AllNum] using hd
  unfold Doc.get
  cases h : getPath d (splitDots f) with
  | none => simp [NumsOK, AllNum]
  | some v => exact getPath_numsOK _ d hd' v h

theorem allNumL_mem (P : Num → Prop) : (ys : List Value) → AllNumL P ys → ∀ y ∈ ys, AllNum P y
  | [], _, y, hy => by simp at hy
  | z :: zs, h, y, hy => by
    simp only [AllNumL] at h
    rcases List.mem_cons.1 hy with e | hm
    · rw [e]; exact h.1
    · exact allNumL_mem P zs h.2 y hm

/-! ### evaluation -/

theorem deref_lit_num (d : Doc) (m : Num) : deref d (.lit (.num m)) = .num m := rfl

/-- against any exact value, the two operands compare alike on both sides -/
theorem goCmp_deref_same (d : Doc) (x y : Operand) (h : Operand.Same x y)
    (hx : x.LitOK) (hy : y.LitOK) (v : Value) (hv : NumsOK v) :
    goCmp v (deref d x) = goCmp v (deref d y) ∧ goCmp (deref d x) v = goCmp (deref d y) v := by
  rcases h with e | ⟨a, b, ex, ey, hs⟩
  · rw [e]; exact ⟨rfl, rfl⟩
  · obtain ⟨m, n, ea, eb, hk⟩ := hs
    subst ex; subst ey; subst ea; subst eb
    rw [deref_lit_num, deref_lit_num]
    exact goCmp_sameNumber_numsOK v (.num m) (.num n) ⟨m, n, rfl, rfl, hk⟩ hv hx hy

theorem satCmp_same (d : Doc) (hd : NumsOK (.obj d)) (op : CmpOp) (f : Bytes) (x y : Operand)
    (h : Operand.Same x y) (hx : x.LitOK) (hy : y.LitOK) :
    satCmp d op f x = satCmp d op f y := by
  have hc := (goCmp_deref_same d x y h hx hy (d.get f) (get_numsOK d hd f)).1
  unfold satCmp
  cases op <;> simp only [hc]

theorem any_isIn_same (d : Doc) (v : Value) (hv : NumsOK v) : {xs ys : List Operand} →
    Operand.SameL xs ys → (∀ x ∈ xs, x.LitOK) → (∀ y ∈ ys, y.LitOK) →
    xs.any (fun x => goCmp (deref d x) v == 0) = ys.any (fun x => goCmp (deref d x) v == 0)
  | _, _, .nil, _, _ => rfl
  | _, _, .cons (x := x) (y := y) (xs := xs) (ys := ys) hxy hrest, hx, hy => by
    have h1 := (goCmp_deref_same d x y hxy (hx x (List.mem_cons_self ..)) (hy y (List.mem_cons_self ..)) v hv).2
    have h2 := any_isIn_same d v hv hrest
      (fun z hz => hx z (List.mem_cons_of_mem _ hz)) (fun z hz => hy z (List.mem_cons_of_mem _ hz))
    simp only [List.any_cons, h1, h2]

theorem any_elem_same (d : Doc) (x y : Operand) (h : Operand.Same x y) (hx : x.LitOK) (hy : y.LitOK) :
    (zs : List Value) → AllNumL numOK zs →
    zs.any (fun z => goCmp (deref d x) z == 0) = zs.any (fun z => goCmp (deref d y) z == 0)
  | [], _ => rfl
  | z :: zs, hz => by
    simp only [AllNumL] at hz
    have h1 := (goCmp_deref_same d x y h hx hy z hz.1).2
    have h2 := any_elem_same d x y h hx hy zs hz.2
    simp only [List.any_cons, h1, h2]

theorem all_contains_same (d : Doc) (zs : List Value) (hz : AllNumL numOK zs) : {xs ys : List Operand} →
    Operand.SameL xs ys → (∀ x ∈ xs, x.LitOK) → (∀ y ∈ ys, y.LitOK) →
    xs.all (fun x => zs.any (fun z => goCmp (deref d x) z == 0)) =
      ys.all (fun x => zs.any (fun z => goCmp (deref d x) z == 0))
  | _, _, .nil, _, _ => rfl
  | _, _, .cons (x := x) (y := y) (xs := xs) (ys := ys) hxy hrest, hx, hy => by
    have h1 := any_elem_same d x y hxy (hx x (List.mem_cons_self ..)) (hy y (List.mem_cons_self ..)) zs hz
    have h2 := all_contains_same d zs hz hrest
      (fun z hz => hx z (List.mem_cons_of_mem _ hz)) (fun z hz => hy z (List.mem_cons_of_mem _ hz))
    simp only [List.all_cons, h1, h2]

variable (likeFn : LikeFn) (fnFam : FnFam)

/-- C16, last sentence: a criteria yields the same result on every document whatever Go numeric
    type its literals were supplied as — for documents and literals whose numbers are exactly
    representable (integers within ±2^53, non-NaN doubles).  All operators are covered. -/
theorem sat_sameUpToKinds (d : Doc) (hd : NumsOK (.obj d)) : {c c' : Crit} →
    Crit.SameUpToKinds c c' → c.LitsOK → c'.LitsOK →
    sat likeFn fnFam d c = sat likeFn fnFam d c'
  | _, _, .exists_ _, _, _ => rfl
  | _, _, .cmp op f hxy, hc, hc' => by
    simp only [sat]
    exact satCmp_same d hd op f _ _ hxy hc hc'
  | _, _, .like _ _, _, _ => rfl
  | _, _, .isIn f hl, hc, hc' => by
    simp only [sat]
    exact any_isIn_same d (d.get f) (get_numsOK d hd f) hl hc hc'
  | _, _, .contains f hl, hc, hc' => by
    simp only [sat]
    have hv := get_numsOK d hd f
    cases hg : d.get f with
    | arr zs =>
      rw [hg] at hv
      exact all_contains_same d zs (by simpa [NumsOK, AllNum] using hv) hl hc hc'
    | null => rfl
    | num _ => rfl
    | str _ => rfl
    | bool _ => rfl
    | time _ _ => rfl
    | obj _ => rfl
  | _, _, .fn _, _, _ => rfl
  | _, _, .and ha hb, hc, hc' => by
    simp only [sat, sat_sameUpToKinds d hd ha hc.1 hc'.1, sat_sameUpToKinds d hd hb hc.2 hc'.2]
  | _, _, .or ha hb, hc, hc' => by
    simp only [sat, sat_sameUpToKinds d hd ha hc.1 hc'.1, sat_sameUpToKinds d hd hb hc.2 hc'.2]
  | _, _, .not ha, hc, hc' => by
    simp only [sat, sat_sameUpToKinds d hd ha hc hc']

/-- the same for an optional criteria (a query with or without `Where`) -/
theorem satOpt_sameUpToKinds (d : Doc) (hd : NumsOK (.obj d)) (c c' : Crit)
    (h : Crit.SameUpToKinds c c') (hc : c.LitsOK) (hc' : c'.LitsOK) :
    satOpt likeFn fnFam d (some c) = satOpt likeFn fnFam d (some c') :=
  sat_sameUpToKinds likeFn fnFam d hd h hc hc'

/-- instance: `Eq("f", int(n))`, `Eq("f", uint(n))` and `Eq("f", float64(n))` select the same
    documents, for every comparison operator, `n ≤ 2^53` -/
theorem cmp_literal_kind_irrelevant (d : Doc) (hd : NumsOK (.obj d)) (op : CmpOp) (f : Bytes)
    (n : Nat) (hn : n ≤ 2^53) :
    sat likeFn fnFam d (.cmp op f (.lit (.num (.int (n : Int))))) =
      sat likeFn fnFam d (.cmp op f (.lit (.num (.uint n)))) ∧
    sat likeFn fnFam d (.cmp op f (.lit (.num (.int (n : Int))))) =
      sat likeFn fnFam d (.cmp op f (.lit (.num (.float (ofNatMag n))))) := by
  have hk := sameNumber_kinds n hn
  have hif : SameNumber (.num (.int (n : Int))) (.num (.float (ofNatMag n))) := by
    have := hk.2.1; rw [ofInt_natCast] at this; exact this
  constructor
  · exact sat_sameUpToKinds likeFn fnFam d hd (.cmp op f (Or.inr ⟨_, _, rfl, rfl, hk.1⟩))
      hk.2.2.2.2.1 hk.2.2.2.2.2.1
  · exact sat_sameUpToKinds likeFn fnFam d hd (.cmp op f (Or.inr ⟨_, _, rfl, rfl, hif⟩))
      hk.2.2.2.2.1 hk.2.2.2.2.2.2

end CV
