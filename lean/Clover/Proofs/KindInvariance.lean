import Clover.Props.C16
import Clover.Props.C18
import Clover.Props.C10
/-! # C16, last sentence — a literal yields the same result whatever Go numeric type it was supplied as

`normalize` (C18 `widths_canonical`) turns a Go integer into `.num (.int i)`, an unsigned one into
`.num (.uint u)` and a float into `.num (.float bits)`.  Two canonical numbers with the same exact
value (`nkey`) are `SameNumber`; on the comparison domain of C10 `Compare` cannot tell them apart
(`goCmp_sameNumber`), hence no criteria can (`sat_sameUpToKinds`). -/
namespace CV
open F64

/-- both are numbers, with the same exact numeric value -/
def SameNumber (a b : Value) : Prop := ∃ m n, a = .num m ∧ b = .num n ∧ nkey m = nkey n

theorem SameNumber.symm {a b : Value} (h : SameNumber a b) : SameNumber b a := by
  obtain ⟨m, n, ha, hb, e⟩ := h
  exact ⟨n, m, hb, ha, e.symm⟩

theorem SameNumber.trans {a b c : Value} (h1 : SameNumber a b) (h2 : SameNumber b c) : SameNumber a c := by
  obtain ⟨m, n, ha, hb, e⟩ := h1
  obtain ⟨n', k, hb', hc, e'⟩ := h2
  rw [hb] at hb'
  injection hb' with hnn
  subst hnn
  exact ⟨m, k, ha, hc, e.trans e'⟩

theorem sameNumber_refl_num (m : Num) : SameNumber (.num m) (.num m) := ⟨m, m, rfl, rfl, rfl⟩

/-! ## 1. the three Go kinds of one small natural number -/

/-- `float64(n)` as the model computes it for a signed and for an unsigned source agree on naturals -/
theorem ofInt_natCast (n : Nat) : ofInt (n : Int) = ofNatMag n := by
  unfold ofInt
  have h : (0 : Int) ≤ (n : Int) := Int.natCast_nonneg n
  rw [if_pos h, Int.toNat_natCast]

theorem nkey_float_ofNat (n : Nat) (hn : n ≤ 2^53) : nkey (.float (ofNatMag n)) = (n : Int) * 2^1074 := by
  have h := fval_ofInt (n : Int) (by omega) (by omega)
  rw [ofInt_natCast] at h
  exact h

theorem two_pow_mul_lt (a b c d : Nat) (h : a + b < c + d) : 2^a * 2^b < 2^c * 2^d := by
  rw [← Nat.pow_add, ← Nat.pow_add]; exact Nat.pow_lt_pow_right (by decide) h

/-- the canonical float of a natural `n ≤ 2^53` is in the exact domain (finite, not NaN) -/
theorem numOK_float_ofNat (n : Nat) (hn : n ≤ 2^53) : numOK (.float (ofNatMag n)) := by
  have hlt := ofNatMag_lt n hn
  have hv := ofNatMag_exact n hn
  have hmod : ofNatMag n % 2^63 = ofNatMag n := Nat.mod_eq_of_lt hlt
  refine ⟨by omega, ?_⟩
  rw [hmod]
  rcases Nat.lt_or_ge (2047 * 2^52) (ofNatMag n) with h | h
  · exfalso
    have hm := fvalMag_mono_le (2047 * 2^52) (ofNatMag n) (Nat.le_of_lt h)
    rw [hv, fvalMag_mul_pow 2047 (by decide)] at hm
    have h1 := Nat.mul_le_mul_right (2^1074) hn
    have h2 := two_pow_mul_lt 53 1074 52 (2047 - 1) (by decide)
    omega
  · exact h

/-- A natural number `n ≤ 2^53` supplied as a signed integer, an unsigned integer or a float
    (`float64(n)`): the three canonical values are pairwise the same number, and all three are in
    the exact domain `numOK`. -/
theorem sameNumber_kinds (n : Nat) (hn : n ≤ 2^53) :
    SameNumber (.num (.int (n : Int))) (.num (.uint n)) ∧
    SameNumber (.num (.int (n : Int))) (.num (.float (ofInt (n : Int)))) ∧
    SameNumber (.num (.uint n)) (.num (.float (ofNatMag n))) ∧
    SameNumber (.num (.float (ofInt (n : Int)))) (.num (.float (ofNatMag n))) ∧
    numOK (.int (n : Int)) ∧ numOK (.uint n) ∧ numOK (.float (ofNatMag n)) := by
  have hf := nkey_float_ofNat n hn
  refine ⟨⟨_, _, rfl, rfl, rfl⟩, ⟨_, _, rfl, rfl, ?_⟩, ⟨_, _, rfl, rfl, ?_⟩, ⟨_, _, rfl, rfl, ?_⟩, ?_, ?_, ?_⟩
  · rw [ofInt_natCast, hf]; rfl
  · rw [hf]; rfl
  · rw [ofInt_natCast]
  · show -2^53 ≤ (n : Int) ∧ (n : Int) ≤ 2^53
    omega
  · exact hn
  · exact numOK_float_ofNat n hn

/-- the same through `normalize` (C18): whatever Go kind `n` is supplied as, the normalised
    literals are the same number -/
theorem normalize_kinds_sameNumber (n : Nat) (hn : n ≤ 2^53) :
    ∃ a b c, normalize (.int (n : Int)) = .ok a ∧ normalize (.uint n) = .ok b ∧
      normalize (.float (ofNatMag n)) = .ok c ∧
      SameNumber a b ∧ SameNumber a c ∧ SameNumber b c := by
  have h := sameNumber_kinds n hn
  refine ⟨_, _, _, rfl, rfl, rfl, h.1, ?_, h.2.2.1⟩
  have := h.2.1
  rw [ofInt_natCast] at this
  exact this

/-! ## 2. `Compare` cannot tell two representations of one number apart -/

theorem pairDom_symm {a b : Value} (h : PairDom a b) : PairDom b a := by
  rcases h with h | h
  · exact Or.inl ⟨h.2, h.1⟩
  · exact Or.inr ⟨h.2, h.1⟩

/-- the comparison by exact value only looks at `nkey` of a number -/
theorem cmp_num_congr_right (x : Value) (m n : Num) (e : nkey m = nkey n) :
    cmp nkey x (.num m) = cmp nkey x (.num n) := by
  cases x <;> simp only [cmp, Value.rank, e]

theorem cmp_num_congr_left (x : Value) (m n : Num) (e : nkey m = nkey n) :
    cmp nkey (.num m) x = cmp nkey (.num n) x := by
  cases x <;> simp only [cmp, Value.rank, e]

theorem cmp_sameNumber (x a b : Value) (h : SameNumber a b) :
    cmp nkey x a = cmp nkey x b ∧ cmp nkey a x = cmp nkey b x := by
  obtain ⟨m, n, ha, hb, e⟩ := h
  subst ha; subst hb
  exact ⟨cmp_num_congr_right x m n e, cmp_num_congr_left x m n e⟩

/-- On the comparison domain of C10, replacing a number by another representation of the same
    number changes no comparison result, on either side. -/
theorem goCmp_sameNumber (x a b : Value) (h : SameNumber a b)
    (da : PairDom x a) (db : PairDom x b) :
    goCmp x a = goCmp x b ∧ goCmp a x = goCmp b x := by
  have hc := cmp_sameNumber x a b h
  rw [goCmp_eq x a da, goCmp_eq x b db, goCmp_eq a x (pairDom_symm da), goCmp_eq b x (pairDom_symm db)]
  exact hc

/-- the same with the domain stated number by number: everything exactly representable -/
theorem goCmp_sameNumber_numsOK (x a b : Value) (h : SameNumber a b)
    (hx : NumsOK x) (ha : NumsOK a) (hb : NumsOK b) :
    goCmp x a = goCmp x b ∧ goCmp a x = goCmp b x :=
  goCmp_sameNumber x a b h (Or.inr ⟨hx, ha⟩) (Or.inr ⟨hx, hb⟩)

/-- two representations of one number compare equal -/
theorem goCmp_sameNumber_zero (a b : Value) (h : SameNumber a b) (d : PairDom a b) : goCmp a b = 0 := by
  obtain ⟨m, n, ha, hb, e⟩ := h
  subst ha; subst hb
  rw [goCmp_eq _ _ d]
  simp only [cmp, e, cmpInt]
  simp

end CV
