import Clover.Spec.Render
import Clover.Proofs.KVLaws
import Clover.Probe.Keys
import Clover.Proofs.SpecMaps
/-! # The representation relation between abstract states and stores

`Rep s σ`: the store `σ` is sorted and, key by key, holds exactly the entries the abstract state `s`
is stored as (`entries s`): one metadata record per collection, one record per document, one
index entry per document per indexed field under the document's current value.  `Inv σ` (C06) is
`∃ s, WF s ∧ Rep s σ`. -/
namespace CV
open OC Keys

/-- first match in an association list -/
def assoc (k : Bytes) : List (Bytes × SVal) → Option SVal
  | [] => none
  | (k', v) :: t => if k = k' then some v else assoc k t

theorem assoc_append (k : Bytes) (a b : List (Bytes × SVal)) :
    assoc k (a ++ b) = match assoc k a with | some v => some v | none => assoc k b := by
  induction a with
  | nil => rfl
  | cons e t ih =>
    obtain ⟨k', v⟩ := e
    simp only [List.cons_append, assoc]
    split
    · rfl
    · exact ih

theorem assoc_none_of_not_mem (k : Bytes) (l : List (Bytes × SVal)) (h : ∀ e ∈ l, e.1 ≠ k) : assoc k l = none := by
  induction l with
  | nil => rfl
  | cons e t ih =>
    obtain ⟨k', v⟩ := e
    have : k ≠ k' := fun x => h (k', v) (by simp) x.symm
    simp only [assoc, this, if_false]
    exact ih (fun e he => h e (by simp [he]))

/-- the entries one collection is stored as -/
def docEntries (c : Bytes) (coll : Spec.Coll) : List (Bytes × SVal) :=
  coll.docs.map (fun e => (docKey c e.1, SVal.doc e.2))
def idxEntriesOf (c f : Bytes) (coll : Spec.Coll) : List (Bytes × SVal) :=
  coll.docs.map (fun e => (CV.idxKey c f (e.2.get f) e.1, SVal.unit))
def idxEntries (c : Bytes) (coll : Spec.Coll) : List (Bytes × SVal) :=
  coll.indexes.flatMap (fun f => idxEntriesOf c f coll)
def collEntries (c : Bytes) (coll : Spec.Coll) : List (Bytes × SVal) :=
  (metaKey c, SVal.cmeta ⟨coll.docs.length, coll.indexes⟩) :: (docEntries c coll ++ idxEntries c coll)

def entries (s : Spec.State) : List (Bytes × SVal) := s.flatMap (fun p => collEntries p.1 p.2)

/-- the representation relation -/
def Rep (s : Spec.State) (σ : KVS) : Prop := KSorted σ ∧ ∀ k, kvGet σ k = assoc k (entries s)

theorem rep_empty : Rep [] [] := ⟨ksorted_nil, fun _ => rfl⟩

/-- a store is determined by the abstract state it represents -/
theorem rep_unique (s : Spec.State) (σ σ' : KVS) (h : Rep s σ) (h' : Rep s σ') : σ = σ' :=
  kv_ext σ σ' h.1 h'.1 (fun k => by rw [h.2 k, h'.2 k])

/-! ## well-formed abstract states -/

/-- canonical textual id: 36 bytes, none of them `;` or 0xFF (hex digits and dashes) -/
def IdWF (id : Bytes) : Prop := id.length = 36 ∧ ∀ b ∈ id, b ≠ semi ∧ b ≠ 255

structure CollWF (coll : Spec.Coll) : Prop where
  idsDistinct : (coll.docs.map (·.1)).Nodup
  docsSorted : coll.docs.Pairwise (fun a b => lexLt a.1 b.1 = true)
  idsWF : ∀ e ∈ coll.docs, IdWF e.1 ∧ e.2.objectId = e.1
  fieldsClean : ∀ f ∈ coll.indexes, Clean f
  fieldsDistinct : coll.indexes.Nodup

structure WF (s : Spec.State) : Prop where
  namesClean : ∀ p ∈ s, Clean p.1
  namesSorted : Spec.KeysSorted s
  colls : ∀ p ∈ s, CollWF p.2

theorem WF.namesDistinct {s : Spec.State} (h : WF s) : (s.map (·.1)).Nodup := Spec.keysSorted_nodup s h.namesSorted

theorem wf_empty : WF [] := ⟨by simp, by simp [Spec.KeysSorted], by simp⟩

/-- C06's invariant: the store represents some well-formed abstract state -/
def Inv (σ : KVS) : Prop := ∃ s, WF s ∧ Rep s σ

theorem inv_init : Inv [] := ⟨[], wf_empty, rep_empty⟩

end CV
