import Clover.Proofs.GoCmp
import Clover.Probe.PlannerProofs
/-! # The order on values as an instance of the abstract order the planner/scan proofs are about -/
namespace CV

theorem rank_null_iff (v : Value) : v.rank = 0 ↔ v = .null := by
  cases v <;> simp [Value.rank]

theorem cmp_null_left (v : Value) : cmp nkey .null v ≤ 0 := by
  cases v <;> simp [cmp, Value.rank]

theorem cmp_null_right_eq (v : Value) (h : cmp nkey v .null = 0) : v = .null := by
  cases v <;> simp [cmp, Value.rank] at h ⊢

/-- values ordered by exact value, nil least -/
def vord : Pl.VOrd Value where
  cmp := cmp nkey
  nil := .null
  isNil := Value.isNull
  isNil_iff := by intro v; cases v <;> simp [Value.isNull]
  refl := cmp_refl nkey
  antisymm := by
    intro a b
    have := cmp_antisymm nkey a b
    constructor <;> constructor <;> intro h <;> omega
  trans := cmp_trans nkey
  nil_min := cmp_null_left
  nil_eq := cmp_null_right_eq

end CV
