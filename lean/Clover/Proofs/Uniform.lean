import Clover.Proofs.Propagates
import Clover.Proofs.ScanRun
/-! # Programs consult the fault schedule only through their store calls

A run during which no fault fired is exactly the fault-free run (`Uniform`).  Proved for every
transaction body by the same structural closure as `Propagates`, then lifted through `withTx`,
`Op.exec` and `Op.run`. -/
namespace CV
open StoreM

/-- a program consults the fault schedule only through its store calls: a run during which no
    fault fired is exactly the fault-free run -/
def Uniform {α} (m : StoreM α) : Prop :=
  ∀ φ c, c.fired = false → (m φ c).2.fired = false → m φ c = m noFault c

theorem unif_pure {α} (a : α) : Uniform (pure a : StoreM α) := by
  intro φ c _ _; rfl

theorem unif_fail {α} (e : Err) : Uniform (fail e : StoreM α) := by
  intro φ c _ _; rfl

theorem unif_snapshot : Uniform snapshot := by
  intro φ c _ _; rfl

theorem unif_noCommit : Uniform noCommit := by
  intro φ c _ _; rfl

theorem unif_call {α} (lbl : Call) (act : KVS → α × KVS) : Uniform (call lbl act) := by
  intro φ c _ h
  unfold call at h ⊢
  by_cases hφ : φ c.tick = true
  · simp only [hφ, if_true] at h
    cases h
  · simp only [hφ, noFault, Bool.false_eq_true, if_false]

theorem unif_get (k : Bytes) : Uniform (get k) := unif_call _ _
theorem unif_set (k : Bytes) (v : SVal) : Uniform (set k v) := unif_call _ _
theorem unif_del (k : Bytes) : Uniform (del k) := unif_call _ _
theorem unif_item (k : Bytes) : Uniform (item k) := unif_call _ _

theorem unif_bind {α β} (m : StoreM α) (f : α → StoreM β)
    (hm : Uniform m) (hf : ∀ a, Uniform (f a)) (hp : ∀ a, Propagates (f a)) : Uniform (m >>= f) := by
  intro φ c hc h
  show bind' m f φ c = bind' m f noFault c
  change (bind' m f φ c).2.fired = false at h
  unfold bind' at h ⊢
  cases hb : m φ c with
  | mk r c' =>
    rw [hb] at h
    cases r with
    | ok a =>
      simp only at h ⊢
      have hc' : c'.fired = false := by
        cases hf' : c'.fired with
        | false => rfl
        | true =>
          have h2 := (hp a φ c').2 hf'
          rw [h] at h2
          cases h2
      have h1 := hm φ c hc (by rw [hb]; exact hc')
      rw [← h1, hb]
      exact hf a φ c' hc' h
    | err e =>
      simp only at h ⊢
      have h1 := hm φ c hc (by rw [hb]; exact h)
      rw [← h1, hb]

theorem unif_ite {α} (b : Bool) (m1 m2 : StoreM α) (h1 : Uniform m1) (h2 : Uniform m2) :
    Uniform (if b then m1 else m2) := by
  cases b <;> simp <;> assumption

theorem unif_dite {α} (p : Prop) [Decidable p] (m1 m2 : StoreM α) (h1 : Uniform m1) (h2 : Uniform m2) :
    Uniform (if p then m1 else m2) := by
  split <;> assumption

/-- structural closure of `Uniform` (and of the `Propagates` side goals that `unif_bind` creates) -/
macro "unif_auto" : tactic =>
  `(tactic| repeat' (first
    | exact unif_pure _
    | exact unif_fail _
    | exact unif_get _
    | exact unif_set _ _
    | exact unif_del _
    | exact unif_item _
    | exact unif_snapshot
    | exact unif_noCommit
    | exact prop_pure _
    | exact prop_fail _
    | exact prop_get _
    | exact prop_set _ _
    | exact prop_del _
    | exact prop_item _
    | exact prop_snapshot
    | exact prop_noCommit
    | assumption
    | refine unif_bind _ _ ?_ (fun _ => ?_) (fun _ => ?_)
    | refine prop_bind _ _ ?_ (fun _ => ?_)
    | split
    | simp only []))

theorem unif_forM {α} (f : α → StoreM Unit) (hf : ∀ a, Uniform (f a)) (hp : ∀ a, Propagates (f a)) :
    (l : List α) → Uniform (l.forM f)
  | [] => unif_pure ()
  | x :: xs => by
    simp only [List.forM]
    exact unif_bind _ _ (hf x) (fun _ => unif_forM f hf hp xs) (fun _ => prop_forM f hp xs)

theorem unif_skipEq (b : Bytes) : (l : KVS) → Uniform (skipEq b l)
  | [] => unif_pure _
  | e :: rest => by
    have ih := unif_skipEq b rest
    have ihp := prop_skipEq b rest
    simp only [skipEq]
    unif_auto

theorem unif_scanLoop {β} (pfx : Bytes) (stop : Bytes → Bool) (onId : β → Bytes → StoreM (β × Flow))
    (h : ∀ a id, Uniform (onId a id)) (hp : ∀ a id, Propagates (onId a id)) :
    (acc : β) → (l : KVS) → Uniform (scanLoop pfx stop onId acc l)
  | acc, [] => unif_pure _
  | acc, e :: rest => by
    simp only [scanLoop]
    refine unif_bind _ _ (unif_item _) (fun _ => ?_) (fun _ => ?_)
    · split
      · exact unif_pure _
      · split
        · exact unif_pure _
        · refine unif_bind _ _ (h _ _) (fun r => ?_) (fun r => ?_)
          · obtain ⟨acc', fl⟩ := r
            cases fl with
            | stop => exact unif_pure _
            | cont => exact unif_scanLoop pfx stop onId h hp acc' rest
          · obtain ⟨acc', fl⟩ := r
            cases fl with
            | stop => exact prop_pure _
            | cont => exact prop_scanLoop pfx stop onId hp acc' rest
    · split
      · exact prop_pure _
      · split
        · exact prop_pure _
        · refine prop_bind _ _ (hp _ _) (fun r => ?_)
          obtain ⟨acc', fl⟩ := r
          cases fl with
          | stop => exact prop_pure _
          | cont => exact prop_scanLoop pfx stop onId hp acc' rest

theorem unif_loopPrefix {β} (pfx : Bytes) (f : β → Bytes × SVal → StoreM (β × Flow))
    (h : ∀ a e, Uniform (f a e)) (hp : ∀ a e, Propagates (f a e)) :
    (acc : β) → (l : KVS) → Uniform (loopPrefix pfx f acc l)
  | acc, [] => unif_pure _
  | acc, e :: rest => by
    simp only [loopPrefix]
    refine unif_bind _ _ (unif_item _) (fun _ => ?_) (fun _ => ?_)
    · split
      · exact unif_pure _
      · refine unif_bind _ _ (h _ _) (fun r => ?_) (fun r => ?_)
        · obtain ⟨acc', fl⟩ := r
          cases fl with
          | stop => exact unif_pure _
          | cont => exact unif_loopPrefix pfx f h hp acc' rest
        · obtain ⟨acc', fl⟩ := r
          cases fl with
          | stop => exact prop_pure _
          | cont => exact prop_loopPrefix pfx f hp acc' rest
    · split
      · exact prop_pure _
      · refine prop_bind _ _ (hp _ _) (fun r => ?_)
        obtain ⟨acc', fl⟩ := r
        cases fl with
        | stop => exact prop_pure _
        | cont => exact prop_loopPrefix pfx f hp acc' rest

theorem unif_dropLoop (pfx : Bytes) : (l : KVS) → Uniform (dropLoop pfx l)
  | [] => unif_pure _
  | e :: rest => by
    have ih := unif_dropLoop pfx rest
    have ihp := prop_dropLoop pfx rest
    simp only [dropLoop]
    unif_auto

theorem unif_iterateRange {β} (c f : Bytes) (r : Range) (rev : Bool) (onId : β → Bytes → StoreM (β × Flow))
    (h : ∀ a id, Uniform (onId a id)) (hp : ∀ a id, Propagates (onId a id)) (acc : β) :
    Uniform (iterateRange c f r rev onId acc) := by
  have h1 := unif_skipEq
  have h2 := fun pfx stop acc l => unif_scanLoop pfx stop onId h hp acc l
  have p1 := prop_skipEq
  have p2 := fun pfx stop acc l => prop_scanLoop pfx stop onId hp acc l
  unfold iterateRange
  unif_auto
  all_goals first | exact h1 _ _ | exact h2 _ _ _ _ | exact p1 _ _ | exact p2 _ _ _ _

theorem unif_iterateAll {β} (c f : Bytes) (rev : Bool) (onId : β → Bytes → StoreM (β × Flow))
    (h : ∀ a id, Uniform (onId a id)) (hp : ∀ a id, Propagates (onId a id)) (acc : β) :
    Uniform (iterateAll c f rev onId acc) := by
  have h2 := fun pfx stop acc l => unif_scanLoop pfx stop onId h hp acc l
  have p2 := fun pfx stop acc l => prop_scanLoop pfx stop onId hp acc l
  unfold iterateAll
  unif_auto
  all_goals first | exact h2 _ _ _ _ | exact p2 _ _ _ _

theorem unif_getMeta (c : Bytes) : Uniform (getMeta c) := by
  unfold getMeta
  unif_auto

variable (likeFn : LikeFn) (fnFam : FnFam)

theorem unif_fullScan (coll : Bytes) (onDoc : Pipe → Doc → Pipe × Flow) : Uniform (fullScan coll onDoc) := by
  unfold fullScan
  refine unif_bind _ _ unif_snapshot (fun kv => ?_) (fun kv => ?_)
  · apply unif_loopPrefix <;> intro a e <;> unif_auto
  · apply prop_loopPrefix
    intro a e
    prop_auto

theorem unif_onIdOf (coll : Bytes) (onDoc : Pipe → Doc → Pipe × Flow) (st : Pipe) (id : Bytes) :
    Uniform (onIdOf coll onDoc st id) := by
  unfold onIdOf
  unif_auto

attribute [local irreducible] getMeta fullScan iterateRange iterateAll onIdOf in
theorem unif_iterateDocs (q : Query) (k : Option Nat) : Uniform (iterateDocs likeFn fnFam q k) := by
  unfold iterateDocs
  unif_auto
  all_goals first
    | exact unif_getMeta _
    | exact unif_fullScan _ _
    | exact prop_getMeta _
    | exact prop_fullScan _ _
    | (apply unif_iterateRange <;> intro a id <;> first | exact unif_onIdOf _ _ _ _ | exact prop_onIdOf _ _ _ _)
    | (apply unif_iterateAll <;> intro a id <;> first | exact unif_onIdOf _ _ _ _ | exact prop_onIdOf _ _ _ _)
    | (apply prop_iterateRange; intro a id; exact prop_onIdOf _ _ _ _)
    | (apply prop_iterateAll; intro a id; exact prop_onIdOf _ _ _ _)

theorem unif_saveMeta (c : Bytes) (m : CMeta) : Uniform (saveMeta c m) := unif_set _ _

theorem unif_addToIndexes (c : Bytes) (idxs : List Bytes) (d : Doc) : Uniform (addToIndexes c idxs d) :=
  unif_forM _ (fun _ => unif_set _ _) (fun _ => prop_set _ _) idxs

theorem unif_delFromIndexes (c : Bytes) (idxs : List Bytes) (d : Doc) : Uniform (delFromIndexes c idxs d) :=
  unif_forM _ (fun _ => unif_del _) (fun _ => prop_del _) idxs

theorem unif_saveDoc (k : Bytes) (d : Doc) : Uniform (saveDoc k d) := by
  unfold saveDoc
  unif_auto

theorem unif_insertLoop (c : Bytes) (idxs : List Bytes) : (ds : List Doc) → Uniform (insertLoop c idxs ds)
  | [] => unif_pure _
  | d :: ds => by
    have ih := unif_insertLoop c idxs ds
    have ihp := prop_insertLoop c idxs ds
    have h1 := fun d' => unif_addToIndexes c idxs d'
    have p1 := fun d' => prop_addToIndexes c idxs d'
    have h2 := fun k d' => unif_saveDoc k d'
    have p2 := fun k d' => prop_saveDoc k d'
    simp only [insertLoop]
    unif_auto
    all_goals first | exact h1 _ | exact p1 _ | exact h2 _ _ | exact p2 _ _

attribute [local irreducible] getMeta insertLoop saveMeta in
theorem unif_insertDocs (c : Bytes) (ds : List Doc) : Uniform (insertDocs c ds) := by
  unfold insertDocs
  unif_auto
  all_goals first
    | exact unif_getMeta _ | exact prop_getMeta _
    | exact unif_insertLoop _ _ _ | exact prop_insertLoop _ _ _
    | exact unif_saveMeta _ _ | exact prop_saveMeta _ _

theorem unif_applyLoop (c : Bytes) (idxs : List Bytes) (u : Upd) : (n : Nat) → (ds : List Doc) →
    Uniform (applyLoop c idxs u n ds)
  | n, [] => unif_pure _
  | n, d :: ds => by
    have ih1 := unif_applyLoop c idxs u (n + 1) ds
    have ih2 := unif_applyLoop c idxs u n ds
    have ihp1 := prop_applyLoop c idxs u (n + 1) ds
    have ihp2 := prop_applyLoop c idxs u n ds
    have h1 := unif_delFromIndexes c idxs d
    have p1 := prop_delFromIndexes c idxs d
    have h2 := fun d' => unif_addToIndexes c idxs d'
    have p2 := fun d' => prop_addToIndexes c idxs d'
    have h3 := fun k d' => unif_saveDoc k d'
    have p3 := fun k d' => prop_saveDoc k d'
    simp only [applyLoop]
    unif_auto
    all_goals first | exact h2 _ | exact p2 _ | exact h3 _ _ | exact p3 _ _

attribute [local irreducible] getMeta iterateDocs applyLoop saveMeta in
theorem unif_replaceDocs (q : Query) (u : Upd) : Uniform (replaceDocs likeFn fnFam q u) := by
  unfold replaceDocs
  unif_auto
  all_goals first
    | exact unif_getMeta _ | exact prop_getMeta _
    | exact unif_iterateDocs likeFn fnFam _ _ | exact prop_iterateDocs likeFn fnFam _ _
    | exact unif_applyLoop _ _ _ _ _ | exact prop_applyLoop _ _ _ _ _
    | exact unif_saveMeta _ _ | exact prop_saveMeta _ _

attribute [local irreducible] saveMeta in
theorem unif_createColl (c : Bytes) : Uniform (createColl c) := by
  unfold createColl
  unif_auto
  all_goals first | exact unif_saveMeta _ _ | exact prop_saveMeta _ _

end CV

namespace CV
open StoreM
variable (likeFn : LikeFn) (fnFam : FnFam)

attribute [local irreducible] getMeta iterateDocs applyLoop saveMeta replaceDocs insertDocs createColl loopPrefix dropLoop
  delFromIndexes addToIndexes saveDoc in
/-- every operation's transaction body consults the fault schedule only through its store calls -/
theorem unif_body (op : Op) : Uniform (Op.body likeFn fnFam op) := by
  cases op <;> simp only [Op.body] <;> unif_auto <;>
    first
    | exact unif_getMeta _
    | exact unif_iterateDocs likeFn fnFam _ _
    | exact unif_replaceDocs likeFn fnFam _ _
    | exact unif_insertDocs _ _
    | exact unif_createColl _
    | exact unif_saveMeta _ _
    | exact unif_dropLoop _ _
    | exact unif_delFromIndexes _ _ _
    | exact unif_addToIndexes _ _ _
    | exact unif_saveDoc _ _
    | exact prop_getMeta _
    | exact prop_iterateDocs likeFn fnFam _ _
    | exact prop_replaceDocs likeFn fnFam _ _
    | exact prop_insertDocs _ _
    | exact prop_createColl _
    | exact prop_saveMeta _ _
    | exact prop_dropLoop _ _
    | exact prop_delFromIndexes _ _ _
    | exact prop_addToIndexes _ _ _
    | exact prop_saveDoc _ _
    | (apply unif_loopPrefix <;> intro a e <;> unif_auto)
    | (apply prop_loopPrefix; intro a e; prop_auto)

/-- a transaction during which no fault fired is exactly the fault-free transaction -/
theorem withTx_unfired {α} (w : Bool) (body : StoreM α) (hp : Propagates body) (hu : Uniform body)
    (φ : Faults) (σ : KVS) (h : (withTx w body φ σ).2.2.1 = false) :
    withTx w body φ σ = withTx w body noFault σ := by
  have _ := hp
  unfold withTx at h ⊢
  by_cases h0 : φ 0 = true
  · simp only [h0, if_true] at h
    cases h
  · have hn0 : noFault 0 = false := rfl
    simp only [h0, hn0, Bool.false_eq_true, if_false] at h ⊢
    have hu' := hu φ ⟨σ, 1, false, [.begin w], false⟩ rfl
    cases hb : body φ ⟨σ, 1, false, [.begin w], false⟩ with
    | mk r c =>
      rw [hb] at h hu'
      cases r with
      | err e =>
        simp only at h
        rw [← hu' h]
      | ok a =>
        simp only at h
        by_cases hw : (w && !c.skipCommit) = true
        · simp only [hw, if_true] at h ⊢
          by_cases hc : φ c.tick = true
          · simp only [hc, if_true] at h
            cases h
          · simp only [hc, Bool.false_eq_true, if_false] at h ⊢
            rw [← hu' h]
            have hnc : noFault c.tick = false := rfl
            simp only [hw, hnc, if_true, Bool.false_eq_true, if_false]
        · simp only [hw, Bool.false_eq_true, if_false] at h ⊢
          rw [← hu' h]
          simp only [hw, Bool.false_eq_true, if_false]

/-- the transaction(s) of an operation during which no fault fired are the fault-free ones -/
theorem exec_unfired (op : Op) (kv : KVS) (φ : Faults)
    (h : (op.exec likeFn fnFam kv φ).2.2.1 = false) :
    op.exec likeFn fnFam kv φ = op.exec likeFn fnFam kv noFault := by
  cases op
  case exportDocs c =>
    simp only [Op.exec] at h ⊢
    unfold execExport at h ⊢
    have key : (withTx false (Op.body likeFn fnFam (.hasCollection c)) φ kv).2.2.1 = false := by
      revert h
      cases withTx false (Op.body likeFn fnFam (.hasCollection c)) φ kv with
      | mk r rest =>
        obtain ⟨s, f1, t1⟩ := rest
        intro h
        split at h
        · rename_i heq
          cases heq
          exact h
        · rename_i heq
          cases heq
          split at h <;>
          · simp only [Bool.or_eq_false_iff] at h
            exact h.1
        · rename_i heq
          cases heq
          exact h
    rw [withTx_unfired false _ (prop_body likeFn fnFam _) (unif_body likeFn fnFam _) φ kv key] at h ⊢
    generalize withTx false (Op.body likeFn fnFam (.hasCollection c)) noFault kv = r1 at h ⊢
    obtain ⟨o1, s1, f1, t1⟩ := r1
    cases o1 with
    | err e => rfl
    | ok out =>
      cases out with
      | bool b =>
        cases b with
        | false => rfl
        | true =>
          simp only at h ⊢
          have h2 : (withTx false (Op.body likeFn fnFam (.findAll { coll := c })) (fun n => φ (n + 2)) kv).2.2.1 = false := by
            revert h
            cases withTx false (Op.body likeFn fnFam (.findAll { coll := c })) (fun n => φ (n + 2)) kv with
            | mk r rest =>
              obtain ⟨s, f2, t2⟩ := rest
              intro h
              split at h <;>
              first
              | (rename_i heq; cases heq; simp only [Bool.or_eq_false_iff] at h; exact h.2)
              | (rename_i heq _; cases heq; simp only [Bool.or_eq_false_iff] at h; exact h.2)
          rw [withTx_unfired false _ (prop_body likeFn fnFam _) (unif_body likeFn fnFam _) (fun n => φ (n + 2)) kv h2]
          rfl
      | _ => rfl
  all_goals
    simp only [Op.exec] at h ⊢
    exact withTx_unfired _ _ (prop_body likeFn fnFam _) (unif_body likeFn fnFam _) φ _ h

/-- a public call during which no fault fired is the fault-free call -/
theorem run_unfired (op : Op) (σ : DBState) (φ : Faults)
    (h : (op.run likeFn fnFam σ φ).fired = false) :
    op.run likeFn fnFam σ φ = op.run likeFn fnFam σ noFault := by
  unfold Op.run at h ⊢
  by_cases hcl : σ.closed = true
  · simp only [hcl, if_true]
  · simp only [hcl, Bool.false_eq_true, if_false] at h ⊢
    cases hpre : op.pre with
    | some e => rfl
    | none =>
      simp only [hpre] at h ⊢
      rw [exec_unfired likeFn fnFam op.route σ.kv φ h]

end CV
