import Clover.Generated.Translated
import Clover.Model.Plan
import Clover.Model.QueryBuilder
/-! # The translated source equals the model

`Generated/Translated.lean` is produced on every run from the current Go source by `harness/cmd/translate` (statement by
statement).  Each theorem here states that what the translated function computes is what the hand-written model's
definition computes - for every input.  A change of the source that changes the behaviour of one of these functions
breaks the corresponding proof; a refactoring that keeps the behaviour usually leaves the proof (all case analysis and
simplification) intact, and where it does not the proof has to be adapted - not the statement. -/
namespace CV.Translated
open CV CV.Gen

/-- the generated mirror of Go's `index.Range` and the model's `Range` -/
def toModel (r : GRange) : Range := ⟨r.Start, r.End, r.StartIncluded, r.EndIncluded⟩
def ofModel (r : Range) : GRange := ⟨r.start, r.stop, r.si, r.ei⟩

@[simp] theorem toModel_ofModel (r : Range) : toModel (ofModel r) = r := rfl
@[simp] theorem ofModel_toModel (r : GRange) : ofModel (toModel r) = r := rfl

theorem id_pure {α : Type} (x : α) : (pure x : Id α) = x := rfl
theorem int_beq (a b : Int) : (a == b) = decide (a = b) := by
  by_cases h : a = b <;> simp [h]

/-- `Range.IsNil` -/
theorem range_isNil_eq (r : GRange) : Range_IsNil r = (toModel r).isNilR := by
  simp [Range_IsNil, Range.isNilR, toModel, Id.run, id_pure]

/-- case analysis on the sign of a comparison result, with the facts `simp` needs in each case -/
theorem sign3 (c : Int) {P : Prop} (hneg : c < 0 → ¬ (0 < c) → c ≠ 0 → P) (hz : c = 0 → P)
    (hpos : 0 < c → ¬ (c < 0) → c ≠ 0 → P) : P := by
  rcases Int.lt_trichotomy c 0 with h | h | h
  · exact hneg h (by omega) (by omega)
  · exact hz h
  · exact hpos h (by omega) (by omega)

/-- `Range.IsEmpty` - by exhaustion of what the function can look at (the two nil tests, the two flags, the sign of
    the comparison), so that a rewrite of the source that decides the same way keeps the proof -/
theorem range_isEmpty_eq (r : GRange) : Range_IsEmpty r = (toModel r).isEmpty := by
  obtain ⟨s, e, si, ei⟩ := r
  simp only [Range_IsEmpty, Range.isEmpty, toModel, Id.run, int_beq]
  cases hs : s.isNull <;> cases he : e.isNull <;> cases si <;> cases ei <;>
    refine sign3 (goCmp s e) (fun a b c => ?_) (fun a => ?_) (fun a b c => ?_)
  all_goals simp [*, id_pure]

/-- `Range.Intersect` - same method: both comparisons by sign, both nil tests -/
theorem range_intersect_eq (r r2 : GRange) :
    toModel (Range_Intersect r r2) = (toModel r).intersect (toModel r2) := by
  obtain ⟨s, e, si, ei⟩ := r
  obtain ⟨s2, e2, si2, ei2⟩ := r2
  simp only [Range_Intersect, Range.intersect, interStart, interStop, toModel, Id.run, int_beq]
  by_cases hs : s.isNull = true <;> by_cases he : e.isNull = true <;>
    refine sign3 (goCmp s2 s) (fun a b c => ?_) (fun a => ?_) (fun a b c => ?_) <;>
    refine sign3 (goCmp e2 e) (fun a' b' c' => ?_) (fun a' => ?_) (fun a' b' c' => ?_)
  all_goals simp [*, id_pure]

/-- `compareInt64` / `compareUint64` are the model's three-way integer comparison (`goNumCmp` on two ints / two uints) -/
theorem compareInt64_eq (a b : Int) : compareInt64 a b = cmpInt a b := by
  simp only [compareInt64, cmpInt, Id.run, id_pure]
  by_cases h1 : a < b
  · simp [h1, id_pure]
  · by_cases h2 : a > b
    · have : a ≠ b := by omega
      simp [h1, h2, this, id_pure]
    · have : a = b := by omega
      simp [this, id_pure]

theorem compareUint64_eq (a b : Int) : compareUint64 a b = cmpInt a b := by
  simp only [compareUint64, cmpInt, Id.run, id_pure]
  by_cases h1 : a < b
  · simp [h1, id_pure]
  · by_cases h2 : a > b
    · have : a ≠ b := by omega
      simp [h1, h2, this, id_pure]
    · have : a = b := by omega
      simp [this, id_pure]

theorem goNumCmp_ints (a b : Int) : goNumCmp (.int a) (.int b) = compareInt64 a b := by
  rw [compareInt64_eq]; rfl

theorem goNumCmp_uints (a b : Nat) : goNumCmp (.uint a) (.uint b) = compareUint64 a b := by
  rw [compareUint64_eq]; rfl

/-- `util.BoolToInt`, and Go's comparison of two booleans (`BoolToInt(v1) - BoolToInt(v2)`) against the model's -/
theorem boolToInt_eq (v : Bool) : BoolToInt v = if v then 1 else 0 := by
  cases v <;> simp [BoolToInt, Id.run, id_pure]

theorem bool_compare_sign (a b : Bool) :
    goCmp (.bool a) (.bool b) = BoolToInt a - BoolToInt b := by
  cases a <;> cases b <;> simp [goCmp, cmpInt, boolToInt_eq]

/-- `skipLimitNode.Callback`: the node's counters against the model's `emit` (the node exists iff `skip > 0 ∨ limit ≥ 0`);
    the translated function leaves the call to the next node opaque (`Outcome.call`): that is where the model runs the
    consumer.  Integers are unbounded in the translation: the counters count documents handed to the node. -/
theorem emit_eq_translated (q : Query) (stopAfter : Option Nat) (st : Pipe) (d : Doc)
    (h : (q.skip > 0 || q.limit ≥ 0) = true) :
    emit q stopAfter st d =
      match skipLimitNode_Callback ⟨st.skipped, st.consumed, q.skip, q.limit⟩ with
      | (nd, .cont) => ({ st with skipped := nd.skipped.toNat, consumed := nd.consumed.toNat }, .cont)
      | (nd, .call _) => consume stopAfter { st with skipped := nd.skipped.toNat, consumed := nd.consumed.toNat } d
      | (nd, .stop) => ({ st with skipped := nd.skipped.toNat, consumed := nd.consumed.toNat }, .stop) := by
  simp only [emit, h, if_true, skipLimitNode_Callback, Id.run, id_pure]
  by_cases h1 : st.skipped < q.skip
  · have h1' : (st.skipped : Int) < (q.skip : Int) := by omega
    simp [h1, h1', id_pure]
  · have h1' : ¬ (st.skipped : Int) < (q.skip : Int) := by omega
    by_cases h2 : q.limit < 0
    · simp [h1, h1', h2, id_pure]
    · by_cases h3 : (st.consumed : Int) < q.limit
      · have h4 : q.limit ≥ 0 := by omega
        simp [h1, h1', h2, h3, h4, id_pure]
      · simp [h1, h1', h2, h3, id_pure]

/-- the names of the operator constants of the query package the comparison operators of the model stand for -/
def opName : CmpOp → String
  | .eq => "EqOp" | .lt => "LtOp" | .le => "LtEqOp" | .gt => "GtOp" | .ge => "GtEqOp"

theorem isNilLit_lit (v : Value) : Operand.isNilLit (.lit v) = v.isNull := by
  cases v <;> rfl

/-- `unaryCriteriaToRange` (visit.go) as the current source writes it is the model's `toRange`: no range for a field
    reference or a `$`-string, none for a nil bound unless the operator is equality, and the five ranges -/
theorem unaryCriteriaToRange_eq (op : CmpOp) (f : Bytes) (x : Operand) :
    (unaryCriteriaToRange ⟨opName op, f, x⟩).map toModel = toRange op x := by
  cases x with
  | ref n => simp [unaryCriteriaToRange, toRange, Operand.isRef, Id.run, id_pure]
  | lit v =>
    simp only [unaryCriteriaToRange, toRange, Id.run, isNilLit_lit, Operand.val]
    by_cases hr : (Operand.lit v).isRef = true
    · simp [hr, id_pure]
    · by_cases hn : v.isNull = true
      · cases op <;> simp [hr, hn, opName, id_pure, toModel]
      · cases op <;> simp [hr, hn, opName, id_pure, toModel]

/-- `UnaryCriteria.compare` (query/criteria.go) as the current source writes it: for the four ordering operators it
    returns - never reaching its `panic` - the model's `satCmp`: the sign test of `Compare(doc.Get(field), operand)`,
    the operand dereferenced when it names a field -/
theorem unaryCompare_eq (op : CmpOp) (hop : op ≠ .eq) (f : Bytes) (x : Operand) (d : Doc) :
    UnaryCriteria_compare ⟨opName op, f, x⟩ d = some (satCmp d op f x) := by
  cases op <;> first | (exact absurd rfl hop) | simp [UnaryCriteria_compare, satCmp, opName, Id.run, id_pure]

/-- `UnaryCriteria.eq`: present and comparing equal -/
theorem unaryEq_eq (f : Bytes) (x : Operand) (d : Doc) :
    UnaryCriteria_eq ⟨opName .eq, f, x⟩ d = satCmp d .eq f x := by
  simp only [UnaryCriteria_eq, satCmp, Id.run, int_beq]
  cases h : Doc.has d f <;> simp [id_pure]

/-- `UnaryCriteria.exist` -/
theorem unaryExist_eq (op : String) (f : Bytes) (x : Operand) (d : Doc) :
    UnaryCriteria_exist ⟨op, f, x⟩ d = d.has f := by
  simp [UnaryCriteria_exist, Id.run, id_pure]

/-- the generated mirror of Go's `query.Query` and the model's `Query` (whose skip is a natural number: `Skip` never stores a
    negative one) -/
def toQ (g : GQuery) : Query :=
  { coll := g.collection, crit := g.criteria, skip := g.skip.toNat, limit := g.limit, sort := g.sortOpts }

/-- `Query.Skip` and `Query.Limit` (with `Query.copy`) as the current source writes them: a negative skip is ignored, a
    limit is stored as given, every other field is carried over -/
theorem querySkip_eq (g : GQuery) (n : Int) : toQ (Query_Skip g n) = (toQ g).skipB n := by
  by_cases h : n ≥ 0 <;> simp [Query_Skip, Query_copy, Query.skipB, toQ, Id.run, id_pure, h]

theorem queryLimit_eq (g : GQuery) (n : Int) : toQ (Query_Limit g n) = (toQ g).limitB n := by
  simp [Query_Limit, Query_copy, Query.limitB, toQ, Id.run, id_pure]

/-- the comparison operator a constant's name stands for -/
def opOf (s : String) : Option CmpOp :=
  if s == "EqOp" then some .eq else if s == "LtOp" then some .lt else if s == "LtEqOp" then some .le
  else if s == "GtOp" then some .gt else if s == "GtEqOp" then some .ge else none

theorem opOf_opName (op : CmpOp) : opOf (opName op) = some op := by cases op <;> rfl

/-- the model's criterion a planner-built criterion denotes (`none`: an operator name without a model counterpart) -/
def critOf : GCrit → Option Crit
  | .unary u => (opOf u.OpType).map (fun op => .cmp op u.Field u.Value)
  | .binary op a b =>
    match critOf a, critOf b with
    | some x, some y => if op == "LogicalAnd" then some (.and x y) else if op == "LogicalOr" then some (.or x y) else none
    | _, _ => none
  | .notU c => (opOf c.C.OpType).map (fun op => .not (.cmp op c.C.Field c.C.Value))

/-- `NotFlattenVisitor.removeNotCriteria` (visit.go) as the current source writes it: the negation of a comparison leaf
    is the model's `negLeaf` - `not (f = x)` becomes `f < x or f > x`, and the four ordering operators swap -/
theorem removeNotCriteria_eq (op : CmpOp) (f : Bytes) (x : Operand) :
    critOf (removeNotCriteria ⟨⟨opName op, f, x⟩⟩) = some (negLeaf op f x) := by
  cases op <;> simp [removeNotCriteria, negLeaf, opName, critOf, opOf, Id.run, id_pure]

/-- the planner's range for a conjunction of two comparisons on one field, computed ENTIRELY by the translated source
    (`unaryCriteriaToRange` twice, `Range.Intersect` once), is the model's `fieldRange` -/
theorem source_conjunction_range (op1 op2 : CmpOp) (f : Bytes) (x y : Operand) :
    (match unaryCriteriaToRange ⟨opName op1, f, x⟩, unaryCriteriaToRange ⟨opName op2, f, y⟩ with
     | some r, some r2 => some (toModel (Range_Intersect r r2))
     | some r, none => some (toModel r)
     | none, some r2 => some (toModel r2)
     | none, none => none)
    = fieldRange f (.and (.cmp op1 f x) (.cmp op2 f y)) := by
  have h1 := unaryCriteriaToRange_eq op1 f x
  have h2 := unaryCriteriaToRange_eq op2 f y
  simp only [fieldRange, if_true, mergeAnd]
  rw [← h1, ← h2]
  cases unaryCriteriaToRange ⟨opName op1, f, x⟩ <;> cases unaryCriteriaToRange ⟨opName op2, f, y⟩ <;>
    simp [range_intersect_eq]

variable (likeFn : LikeFn) (fnFam : FnFam)

/-- `BinaryCriteria.Satisfy` / `NotCriteria.Satisfy` as the current source writes them, with each sub-criterion
    represented by its answer on the document: the model's `sat` on `.and`, `.or`, `.not` -/
theorem binarySatisfy_eq (d : Doc) (a b : Crit) :
    BinaryCriteria_Satisfy ⟨"LogicalAnd", sat likeFn fnFam d a, sat likeFn fnFam d b⟩ = sat likeFn fnFam d (.and a b) ∧
    BinaryCriteria_Satisfy ⟨"LogicalOr", sat likeFn fnFam d a, sat likeFn fnFam d b⟩ = sat likeFn fnFam d (.or a b) := by
  constructor <;> simp [BinaryCriteria_Satisfy, sat, Id.run, id_pure]

theorem notSatisfy_eq (d : Doc) (a : Crit) :
    NotCriteria_Satisfy ⟨sat likeFn fnFam d a⟩ = sat likeFn fnFam d (.not a) := by
  simp [NotCriteria_Satisfy, sat, Id.run, id_pure]

end CV.Translated
