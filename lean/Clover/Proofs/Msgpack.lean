import Clover.Model.Msgpack
import Clover.Proofs.SetAllOrder
import Clover.Proofs.WireRT
/-! # The byte-level msgpack codec inverts itself (C11 at byte level)

Model: `Clover/Model/Msgpack.lean` (`encWire`/`decWire`, `encDocBytes`/`decDocBytes`).

  * `WireOK` — the hereditary size/range conditions of the formats (int64, uint64, float64 bits,
    lengths below 2^32, `TimeOK` for times);
  * `normW` — a tree with every map (also inside arrays) rebuilt by sorted insertion;
  * (2) `decWire_encWire` / `dec_enc`: decoding `encWire w ++ rest` gives `(normW w, rest)` for every
    fuel from `wsize w` on, in particular for the length of the input (`decWire_encWire_length`);
  * (3) `decDoc_encDoc`: a `WireOK`, `DocSorted` document is read back identical from its bytes
    (also with trailing bytes, `decDoc_encDoc_trailing`, since `msgpack.Unmarshal` ignores them);
  * (4) `decDoc_perm` / `decWire_perm` (top level of a map) and `decWire_shuffle` with the
    compositional rule `normW_obj_congr` (every level): the order in which the entries of a map were
    written does not matter;
  * (5) `types_preserved`: int64 / uint64 / float64 come back with the same Go type;
  * `decWire_fuel_length`: the fuel of `decDocBytes` (length of the input) is always enough;
  * `TimeOK`: with the repaired `(*LocalizedTime).MarshalMsgpack` every zone offset from -1966080 s
    to 1966079 s round-trips except -60 s (refused by `time.MarshalBinary`); the examples at the end
    record why the standard layout (`gobTimeStd`) is not used for negative offsets with seconds. -/
namespace CV.Msgpack
open CV OC

theorem length_be : (w n : Nat) → (be n w).length = w
  | 0, _ => rfl
  | w+1, n => by rw [be, List.length_cons, length_be w]

theorem ofBE_be : (w n : Nat) → n < 256^w → ofBE (be n w) = n
  | 0, n, h => by
    rw [be, ofBE]; simp only [Nat.pow_zero] at h; omega
  | w+1, n, h => by
    have hp : 0 < 256^w := Nat.pow_pos (by decide)
    have hd : n / 256^w < 256 := by
      rw [Nat.div_lt_iff_lt_mul hp]; rw [Nat.pow_succ, Nat.mul_comm] at h; exact h
    have hm : n % 256^w < 256^w := Nat.mod_lt _ hp
    rw [be, ofBE, length_be, ofBE_be w _ hm, UInt8.toNat_ofNat']
    have : n / 256^w % 2^8 = n / 256^w := Nat.mod_eq_of_lt hd
    rw [this, Nat.mul_comm]
    exact Nat.div_add_mod n (256^w)

theorem takeN_append (a r : Bytes) : takeN a.length (a ++ r) = some (a, r) := by
  rw [takeN, if_neg (by rw [List.length_append]; omega), List.take_left' rfl, List.drop_left' rfl]

theorem takeN_append' (a r : Bytes) (n : Nat) (h : a.length = n) : takeN n (a ++ r) = some (a, r) := by
  subst h; exact takeN_append a r

theorem readBE_be (w n : Nat) (h : n < 256^w) (r : Bytes) : readBE w (be n w ++ r) = some (n, r) := by
  rw [readBE, takeN_append' _ _ _ (length_be w n)]
  dsimp only
  rw [ofBE_be w n h]

theorem readBE_be_nil (w n : Nat) (h : n < 256^w) : readBE w (be n w) = some (n, []) := by
  have := readBE_be w n h []
  rwa [List.append_nil] at this

theorem pow256_1 : (256:Nat)^1 = 256 := by decide
theorem pow256_2 : (256:Nat)^2 = 65536 := by decide
theorem pow256_4 : (256:Nat)^4 = 4294967296 := by decide
theorem pow256_8 : (256:Nat)^8 = 18446744073709551616 := by decide

/-! ## codes -/
section codes
variable (dec : Bytes → Option (Wire × Bytes))

theorem dec1_cons (c : UInt8) (bs : Bytes) : decWire1 dec (c :: bs) = decBody dec c.toNat bs := rfl

theorem decWire_succ (fuel : Nat) (bs : Bytes) : decWire (fuel+1) bs = decWire1 (decWire fuel) bs := rfl

theorem toNat_ofNat_lt (n : Nat) (h : n < 256) : (UInt8.ofNat n).toNat = n := by
  rw [UInt8.toNat_ofNat']; omega

theorem decBody_fixmap (n : Nat) (bs : Bytes) (h1 : 0x80 ≤ n) (h2 : n ≤ 0x8f) :
    decBody dec n bs = decMapBody dec (n - 0x80) bs := by
  unfold decBody; rw [if_neg (by omega), if_pos (by omega)]
theorem decBody_fixarr (n : Nat) (bs : Bytes) (h1 : 0x90 ≤ n) (h2 : n ≤ 0x9f) :
    decBody dec n bs = decArrBody dec (n - 0x90) bs := by
  unfold decBody; rw [if_neg (by omega), if_neg (by omega), if_pos (by omega)]
theorem decBody_fixstr (n : Nat) (bs : Bytes) (h1 : 0xa0 ≤ n) (h2 : n ≤ 0xbf) :
    decBody dec n bs = decStrBody (n - 0xa0) bs := by
  unfold decBody; rw [if_neg (by omega), if_neg (by omega), if_neg (by omega), if_pos (by omega)]

theorem decBody_cb (bs : Bytes) : decBody dec 0xcb bs = decNum (fun b => .float b) bs := rfl
theorem decBody_cf (bs : Bytes) : decBody dec 0xcf bs = decNum (fun u => .uint u) bs := rfl
theorem decBody_d3 (bs : Bytes) : decBody dec 0xd3 bs = decNum (fun u => .int (toInt64 u)) bs := rfl
theorem decBody_d9 (bs : Bytes) : decBody dec 0xd9 bs = decStrN 1 bs := rfl
theorem decBody_da (bs : Bytes) : decBody dec 0xda bs = decStrN 2 bs := rfl
theorem decBody_db (bs : Bytes) : decBody dec 0xdb bs = decStrN 4 bs := rfl
theorem decBody_dc (bs : Bytes) : decBody dec 0xdc bs = decArrN dec 2 bs := rfl
theorem decBody_dd (bs : Bytes) : decBody dec 0xdd bs = decArrN dec 4 bs := rfl
theorem decBody_de (bs : Bytes) : decBody dec 0xde bs = decMapN dec 2 bs := rfl
theorem decBody_df (bs : Bytes) : decBody dec 0xdf bs = decMapN dec 4 bs := rfl
theorem decBody_d8 (bs : Bytes) : decBody dec 0xd8 bs = decExtBody 16 bs := rfl
theorem decBody_c7 (bs : Bytes) : decBody dec 0xc7 bs = decExtN 1 bs := rfl

theorem dec1_null (r : Bytes) : decWire1 dec (0xc0 :: r) = some (.null, r) := rfl
theorem dec1_false (r : Bytes) : decWire1 dec (0xc2 :: r) = some (.bool false, r) := rfl
theorem dec1_true (r : Bytes) : decWire1 dec (0xc3 :: r) = some (.bool true, r) := rfl

theorem decNum_be (f : Nat → Num) (n : Nat) (h : n < 18446744073709551616) (r : Bytes) :
    decNum f (be n 8 ++ r) = some (.num (f n), r) := by
  rw [decNum, readBE_be 8 n (by rw [pow256_8]; exact h)]

theorem dec1_float (n : Nat) (h : n < 18446744073709551616) (r : Bytes) :
    decWire1 dec (0xcb :: (be n 8 ++ r)) = some (.num (.float n), r) := by
  show decBody dec 0xcb _ = _
  rw [decBody_cb, decNum_be _ n h]
theorem dec1_uint (n : Nat) (h : n < 18446744073709551616) (r : Bytes) :
    decWire1 dec (0xcf :: (be n 8 ++ r)) = some (.num (.uint n), r) := by
  show decBody dec 0xcf _ = _
  rw [decBody_cf, decNum_be _ n h]
theorem dec1_int (i : Int) (h1 : -9223372036854775808 ≤ i) (h2 : i < 9223372036854775808) (r : Bytes) :
    decWire1 dec (0xd3 :: (be (ofInt64 i) 8 ++ r)) = some (.num (.int i), r) := by
  show decBody dec 0xd3 _ = _
  rw [decBody_d3]
  have hb : ofInt64 i < 18446744073709551616 := by unfold ofInt64; omega
  rw [decNum_be _ _ hb]
  have : toInt64 (ofInt64 i) = i := by unfold toInt64 ofInt64; omega
  rw [this]

theorem decStrBody_append (s r : Bytes) : decStrBody s.length (s ++ r) = some (.str s, r) := by
  rw [decStrBody, takeN_append]

theorem dec1_str (s : Bytes) (h : s.length < 4294967296) (r : Bytes) :
    decWire1 dec (encStr s ++ r) = some (.str s, r) := by
  unfold encStr encStrHdr
  by_cases h1 : s.length < 32
  · rw [if_pos h1, List.append_assoc, List.singleton_append, dec1_cons,
      toNat_ofNat_lt _ (by omega), decBody_fixstr dec _ _ (by omega) (by omega),
      Nat.add_sub_cancel_left, decStrBody_append]
  · rw [if_neg h1]
    by_cases h2 : s.length < 256
    · rw [if_pos h2, List.append_assoc, List.cons_append]
      show decBody dec 0xd9 _ = _
      rw [decBody_d9, decStrN, readBE_be 1 _ (by rw [pow256_1]; exact h2)]
      exact decStrBody_append s r
    · rw [if_neg h2]
      by_cases h3 : s.length ≤ 65535
      · rw [if_pos h3, List.append_assoc, List.cons_append]
        show decBody dec 0xda _ = _
        rw [decBody_da, decStrN, readBE_be 2 _ (by rw [pow256_2]; omega)]
        exact decStrBody_append s r
      · rw [if_neg h3, List.append_assoc, List.cons_append]
        show decBody dec 0xdb _ = _
        rw [decBody_db, decStrN, readBE_be 4 _ (by rw [pow256_4]; omega)]
        exact decStrBody_append s r

theorem dec1_arr (l : Nat) (h : l < 4294967296) (bs : Bytes) :
    decWire1 dec (encArrHdr l ++ bs) = decArrBody dec l bs := by
  unfold encArrHdr
  by_cases h1 : l < 16
  · rw [if_pos h1, List.singleton_append, dec1_cons,
      toNat_ofNat_lt _ (by omega), decBody_fixarr dec _ _ (by omega) (by omega),
      Nat.add_sub_cancel_left]
  · rw [if_neg h1]
    by_cases h3 : l ≤ 65535
    · rw [if_pos h3, List.cons_append]
      show decBody dec 0xdc _ = _
      rw [decBody_dc, decArrN, readBE_be 2 _ (by rw [pow256_2]; omega)]
    · rw [if_neg h3, List.cons_append]
      show decBody dec 0xdd _ = _
      rw [decBody_dd, decArrN, readBE_be 4 _ (by rw [pow256_4]; omega)]

theorem dec1_map (l : Nat) (h : l < 4294967296) (bs : Bytes) :
    decWire1 dec (encMapHdr l ++ bs) = decMapBody dec l bs := by
  unfold encMapHdr
  by_cases h1 : l < 16
  · rw [if_pos h1, List.singleton_append, dec1_cons,
      toNat_ofNat_lt _ (by omega), decBody_fixmap dec _ _ (by omega) (by omega),
      Nat.add_sub_cancel_left]
  · rw [if_neg h1]
    by_cases h3 : l ≤ 65535
    · rw [if_pos h3, List.cons_append]
      show decBody dec 0xde _ = _
      rw [decBody_de, decMapN, readBE_be 2 _ (by rw [pow256_2]; omega)]
    · rw [if_neg h3, List.cons_append]
      show decBody dec 0xdf _ = _
      rw [decBody_df, decMapN, readBE_be 4 _ (by rw [pow256_4]; omega)]

end codes

theorem decKeyBody_d9 (bs : Bytes) : decKeyBody 0xd9 bs = decKeyN 1 bs := rfl
theorem decKeyBody_da (bs : Bytes) : decKeyBody 0xda bs = decKeyN 2 bs := rfl
theorem decKeyBody_db (bs : Bytes) : decKeyBody 0xdb bs = decKeyN 4 bs := rfl
theorem decKey_cons (c : UInt8) (bs : Bytes) : decKey (c :: bs) = decKeyBody c.toNat bs := rfl

/-- `DecodeString` on an encoded key -/
theorem decKey_encStr (s : Bytes) (h : s.length < 4294967296) (r : Bytes) :
    decKey (encStr s ++ r) = some (s, r) := by
  unfold encStr encStrHdr
  by_cases h1 : s.length < 32
  · rw [if_pos h1, List.append_assoc, List.singleton_append, decKey_cons, decKeyBody,
      toNat_ofNat_lt _ (by omega), if_neg (by omega), if_pos (by omega), Nat.add_sub_cancel_left,
      takeN_append]
  · rw [if_neg h1]
    by_cases h2 : s.length < 256
    · rw [if_pos h2, List.append_assoc, List.cons_append]
      show decKeyBody 0xd9 _ = _
      rw [decKeyBody_d9, decKeyN, readBE_be 1 _ (by rw [pow256_1]; exact h2)]
      exact takeN_append s r
    · rw [if_neg h2]
      by_cases h3 : s.length ≤ 65535
      · rw [if_pos h3, List.append_assoc, List.cons_append]
        show decKeyBody 0xda _ = _
        rw [decKeyBody_da, decKeyN, readBE_be 2 _ (by rw [pow256_2]; omega)]
        exact takeN_append s r
      · rw [if_neg h3, List.append_assoc, List.cons_append]
        show decKeyBody 0xdb _ = _
        rw [decKeyBody_db, decKeyN, readBE_be 4 _ (by rw [pow256_4]; omega)]
        exact takeN_append s r


/-! ## times -/

/-- what `(*LocalizedTime).MarshalMsgpack` (/repo/internal/time.go:26-41) and
    `time.UnmarshalBinary` round-trip: UnixNano in int64; zone offset from -32768 minutes up to (not
    including) +32768 minutes, EXCEPT -60 s.  This is exact for the offsets: -60 s is refused by
    `MarshalBinary` (minutes -1 is the UTC marker; `Encode` fails), and beyond the range the minutes
    do not fit int16 (the standard branch fails, the negative-seconds branch silently wraps:
    -1966081 s would come back as +1966079 s).  Evaluating the model over -200..200 shows -60 as
    the only offset that does not come back. -/
def TimeOK (ns off : Int) : Prop :=
  -9223372036854775808 ≤ ns ∧ ns < 9223372036854775808 ∧
  -1966080 ≤ off ∧ off < 1966080 ∧ off ≠ -60

theorem be_one (n : Nat) : be n 1 = [UInt8.ofNat n] := by
  simp only [be, Nat.pow_zero, Nat.div_one]

/-- `UnmarshalBinary` on a well-sized version-1 payload -/
theorem gobDecode_v1 (sec nsec om : Nat) (h1 : sec < 256^8) (h2 : nsec < 256^4) (h3 : om < 256^2) :
    gobDecode (1 :: (be sec 8 ++ (be nsec 4 ++ be om 2))) = mkTime sec nsec om 0 := by
  rw [gobDecode, if_pos (Or.inl rfl), readBE_be 8 _ h1]
  dsimp only
  rw [readBE_be 4 _ h2]
  dsimp only
  rw [readBE_be_nil 2 _ h3]
  dsimp only
  rw [if_pos rfl, if_pos rfl]

/-- `UnmarshalBinary` on a well-sized version-2 payload: the seconds byte is read unsigned -/
theorem gobDecode_v2 (sec nsec om sb : Nat) (h1 : sec < 256^8) (h2 : nsec < 256^4) (h3 : om < 256^2)
    (h4 : sb < 256) :
    gobDecode (2 :: (be sec 8 ++ (be nsec 4 ++ (be om 2 ++ be sb 1)))) = mkTime sec nsec om sb := by
  rw [gobDecode, if_pos (Or.inr rfl), readBE_be 8 _ h1]
  dsimp only
  rw [readBE_be 4 _ h2]
  dsimp only
  rw [readBE_be 2 _ h3]
  dsimp only
  rw [if_neg (by decide), be_one]
  dsimp only
  rw [toNat_ofNat_lt _ h4]

theorem gobTimeStd_v1 (ns off : Int) (h : goMod off 60 = 0) :
    gobTimeStd ns off = 1 :: (be (ofInt64 (ns / 1000000000 + unixToInternal)) 8 ++
      (be (ns % 1000000000).toNat 4 ++ be ((if off = 0 then -1 else goDiv off 60) % 65536).toNat 2)) := by
  simp only [gobTimeStd, h, if_true]

theorem gobTimeStd_v2 (ns off : Int) (h : goMod off 60 ≠ 0) :
    gobTimeStd ns off = 2 :: (be (ofInt64 (ns / 1000000000 + unixToInternal)) 8 ++
      (be (ns % 1000000000).toNat 4 ++ (be ((if off = 0 then -1 else goDiv off 60) % 65536).toNat 2 ++
        be (goMod off 60 % 256).toNat 1))) := by
  simp only [gobTimeStd, h, if_false]

/-- the branch of `MarshalMsgpack` that defers to `MarshalBinary` -/
theorem gobTime_std (ns off : Int) (h : 0 ≤ off ∨ goMod off 60 = 0) : gobTime ns off = gobTimeStd ns off := by
  rw [gobTime, if_pos h]

theorem gobTime_neg' (ns off : Int) (h : ¬ (0 ≤ off ∨ goMod off 60 = 0)) :
    gobTime ns off = 2 :: (be (ofInt64 (ns / 1000000000 + unixToInternal)) 8 ++
      (be (ns % 1000000000).toNat 4 ++ (be ((goDiv off 60 - 1) % 65536).toNat 2 ++
        be ((off - (goDiv off 60 - 1) * 60) % 256).toNat 1))) := by
  rw [gobTime, if_neg h]

/-- the repaired branch: negative offset with a seconds component.  Go's `offset/60 - 1` is the
    FLOOR of offset/60 there and `offset - min*60` the non-negative remainder. -/
theorem gobTime_neg (ns off : Int) (h : ¬ (0 ≤ off ∨ goMod off 60 = 0)) :
    gobTime ns off = 2 :: (be (ofInt64 (ns / 1000000000 + unixToInternal)) 8 ++
      (be (ns % 1000000000).toNat 4 ++ (be ((off / 60) % 65536).toNat 2 ++
        be ((off % 60) % 256).toNat 1))) := by
  have h0 : off < 0 := by omega
  have hr : goMod off 60 ≠ 0 := fun e => h (Or.inr e)
  have hq : goDiv off 60 - 1 = off / 60 := by unfold goMod at hr; unfold goDiv; omega
  have hs : off - (goDiv off 60 - 1) * 60 = off % 60 := by rw [hq]; omega
  rw [gobTime_neg' ns off h, hs, hq]

theorem gobTime_length (ns off : Int) :
    (gobTime ns off).length = if goMod off 60 = 0 then 15 else 16 := by
  by_cases h : goMod off 60 = 0
  · rw [gobTime_std ns off (Or.inr h), gobTimeStd_v1 ns off h, if_pos h]
    simp only [List.length_cons, List.length_append, length_be]
  · rw [if_neg h]
    by_cases h0 : 0 ≤ off
    · rw [gobTime_std ns off (Or.inl h0), gobTimeStd_v2 ns off h]
      simp only [List.length_cons, List.length_append, length_be]
    · rw [gobTime_neg ns off (fun hh => hh.elim h0 h)]
      simp only [List.length_cons, List.length_append, length_be]

/-- the time codec round-trips on `TimeOK` -/
theorem gobDecode_gobTime (ns off : Int) (h : TimeOK ns off) :
    gobDecode (gobTime ns off) = some (ns, off) := by
  obtain ⟨h1, h2, h3, h4, h5⟩ := h
  have hsec : ofInt64 (ns / 1000000000 + unixToInternal) < 256^8 := by
    rw [pow256_8]; unfold ofInt64; omega
  have hnsec : (ns % 1000000000).toNat < 256^4 := by rw [pow256_4]; omega
  by_cases hr : goMod off 60 = 0
  · have hom : ((if off = 0 then -1 else goDiv off 60) % 65536).toNat < 256^2 := by
      rw [pow256_2]; omega
    rw [gobTime_std ns off (Or.inr hr), gobTimeStd_v1 ns off hr, gobDecode_v1 _ _ _ hsec hnsec hom,
      mkTime]
    unfold goMod at hr
    unfold toInt64 toInt16 ofInt64 unixToInternal goDiv
    rw [if_neg (by omega), if_neg (by omega)]
    congr 2
    · omega
    · omega
  · by_cases h0 : 0 ≤ off
    · have hom : ((if off = 0 then -1 else goDiv off 60) % 65536).toNat < 256^2 := by
        rw [pow256_2]; omega
      have hsb : (goMod off 60 % 256).toNat < 256 := by omega
      rw [gobTime_std ns off (Or.inl h0), gobTimeStd_v2 ns off hr,
        gobDecode_v2 _ _ _ _ hsec hnsec hom hsb, mkTime]
      unfold goMod at hr
      unfold toInt64 toInt16 ofInt64 unixToInternal goDiv goMod
      rw [if_neg (by omega), if_neg (by omega)]
      congr 2
      · omega
      · omega
    · have hom : ((off / 60) % 65536).toNat < 256^2 := by rw [pow256_2]; omega
      have hsb : ((off % 60) % 256).toNat < 256 := by omega
      rw [gobTime_neg ns off (fun hh => hh.elim h0 hr), gobDecode_v2 _ _ _ _ hsec hnsec hom hsb, mkTime]
      unfold goMod at hr
      unfold toInt64 toInt16 ofInt64 unixToInternal
      rw [if_neg (by omega), if_neg (by omega)]
      congr 2
      · omega
      · omega

theorem dec1_ltime (dec : Bytes → Option (Wire × Bytes)) (ns off : Int) (h : TimeOK ns off) (r : Bytes) :
    decWire1 dec (encExtLen (gobTime ns off).length ++ (localizedTimeExt :: gobTime ns off) ++ r)
      = some (.ltime ns off, r) := by
  have hd := gobDecode_gobTime ns off h
  have hl := gobTime_length ns off
  by_cases hr : goMod off 60 = 0
  · rw [if_pos hr] at hl
    rw [hl]
    show decBody dec 0xc7 (be 15 1 ++ (localizedTimeExt :: gobTime ns off) ++ r) = _
    rw [decBody_c7, decExtN, List.append_assoc, readBE_be 1 15 (by decide)]
    dsimp only
    rw [List.cons_append, decExtBody]
    rw [if_pos rfl, takeN_append' _ _ _ hl]
    dsimp only
    rw [hd]
  · rw [if_neg hr] at hl
    rw [hl]
    show decBody dec 0xd8 ((localizedTimeExt :: gobTime ns off) ++ r) = _
    rw [decBody_d8, List.cons_append, decExtBody]
    rw [if_pos rfl, takeN_append' _ _ _ hl]
    dsimp only
    rw [hd]


/-! ## `WireOK`, size, normal form -/

def NumOK : Num → Prop
  | .int i => -9223372036854775808 ≤ i ∧ i < 9223372036854775808
  | .uint u => u < 18446744073709551616
  | .float bits => bits < 18446744073709551616

mutual
/-- hereditary size and range conditions: what the formats can hold -/
def WireOK : Wire → Prop
  | .null => True
  | .bool _ => True
  | .num n => NumOK n
  | .str s => s.length < 4294967296
  | .ltime ns off => TimeOK ns off
  | .arr xs => xs.length < 4294967296 ∧ WireOKL xs
  | .obj kvs => kvs.length < 4294967296 ∧ WireOKKV kvs
def WireOKL : List Wire → Prop
  | [] => True
  | x :: xs => WireOK x ∧ WireOKL xs
def WireOKKV : List (Bytes × Wire) → Prop
  | [] => True
  | (k, x) :: xs => k.length < 4294967296 ∧ WireOK x ∧ WireOKKV xs
end

mutual
/-- number of nodes: a sufficient fuel (the decoder only needs the nesting depth) -/
def wsize : Wire → Nat
  | .null => 1
  | .bool _ => 1
  | .num _ => 1
  | .str _ => 1
  | .ltime _ _ => 1
  | .arr xs => 1 + wsizeL xs
  | .obj kvs => 1 + wsizeKV kvs
def wsizeL : List Wire → Nat
  | [] => 0
  | x :: xs => wsize x + wsizeL xs
def wsizeKV : List (Bytes × Wire) → Nat
  | [] => 0
  | (_, x) :: xs => wsize x + wsizeKV xs
end

/-- assign the entries, in list order, into the sorted map `acc` -/
def insAll (acc : List (Bytes × Wire)) (l : List (Bytes × Wire)) : List (Bytes × Wire) :=
  l.foldl (fun a e => insertKeyG e.1 e.2 a) acc

theorem insAll_nil (acc : List (Bytes × Wire)) : insAll acc [] = acc := rfl
theorem insAll_cons (acc : List (Bytes × Wire)) (k : Bytes) (v : Wire) (l : List (Bytes × Wire)) :
    insAll acc ((k, v) :: l) = insAll (insertKeyG k v acc) l := rfl

mutual
/-- `w` with every map (at any depth, also inside arrays) rebuilt by sorted insertion: sorted by
    key, of two entries with the same key the later one survives -/
def normW : Wire → Wire
  | .null => .null
  | .bool b => .bool b
  | .num n => .num n
  | .str s => .str s
  | .ltime ns off => .ltime ns off
  | .arr xs => .arr (normWL xs)
  | .obj kvs => .obj (insAll [] (normWKV kvs))
def normWL : List Wire → List Wire
  | [] => []
  | x :: xs => normW x :: normWL xs
def normWKV : List (Bytes × Wire) → List (Bytes × Wire)
  | [] => []
  | (k, x) :: xs => (k, normW x) :: normWKV xs
end

/-! ## decoding inverts encoding -/

theorem decList_zero (dec : Bytes → Option (Wire × Bytes)) (bs : Bytes) : decList dec 0 bs = some ([], bs) := rfl
theorem decList_succ_some (dec : Bytes → Option (Wire × Bytes)) (n : Nat) (bs r r' : Bytes) (x : Wire)
    (xs : List Wire) (h1 : dec bs = some (x, r)) (h2 : decList dec n r = some (xs, r')) :
    decList dec (n+1) bs = some (x :: xs, r') := by
  rw [decList, h1]; dsimp only; rw [h2]

theorem decKVs_zero (dec : Bytes → Option (Wire × Bytes)) (bs : Bytes) (acc : List (Bytes × Wire)) :
    decKVs dec 0 bs acc = some (acc, bs) := rfl
theorem decKVs_succ_some (dec : Bytes → Option (Wire × Bytes)) (n : Nat) (bs r r' : Bytes) (k : Bytes)
    (v : Wire) (acc : List (Bytes × Wire)) (h1 : decKey bs = some (k, r)) (h2 : dec r = some (v, r')) :
    decKVs dec (n+1) bs acc = decKVs dec n r' (insertKeyG k v acc) := by
  rw [decKVs, h1]; dsimp only; rw [h2]

mutual
theorem dec_enc : (w : Wire) → WireOK w → ∀ fuel, wsize w ≤ fuel → ∀ rest,
    decWire fuel (encWire w ++ rest) = some (normW w, rest)
  | .null, _, fuel, hf, rest => by
    rw [wsize] at hf
    obtain ⟨f, rfl⟩ : ∃ f, fuel = f + 1 := ⟨fuel - 1, by omega⟩
    rw [decWire_succ, encWire, normW, List.singleton_append, dec1_null]
  | .bool b, _, fuel, hf, rest => by
    rw [wsize] at hf
    obtain ⟨f, rfl⟩ : ∃ f, fuel = f + 1 := ⟨fuel - 1, by omega⟩
    rw [decWire_succ, encWire, normW, List.singleton_append]
    cases b
    · exact dec1_false _ rest
    · exact dec1_true _ rest
  | .num (.int i), h, fuel, hf, rest => by
    rw [wsize] at hf
    obtain ⟨f, rfl⟩ : ∃ f, fuel = f + 1 := ⟨fuel - 1, by omega⟩
    rw [WireOK, NumOK] at h
    rw [decWire_succ, encWire, normW, List.cons_append, dec1_int _ i h.1 h.2]
  | .num (.uint u), h, fuel, hf, rest => by
    rw [wsize] at hf
    obtain ⟨f, rfl⟩ : ∃ f, fuel = f + 1 := ⟨fuel - 1, by omega⟩
    rw [WireOK, NumOK] at h
    rw [decWire_succ, encWire, normW, List.cons_append, dec1_uint _ u h]
  | .num (.float b), h, fuel, hf, rest => by
    rw [wsize] at hf
    obtain ⟨f, rfl⟩ : ∃ f, fuel = f + 1 := ⟨fuel - 1, by omega⟩
    rw [WireOK, NumOK] at h
    rw [decWire_succ, encWire, normW, List.cons_append, dec1_float _ b h]
  | .str s, h, fuel, hf, rest => by
    rw [wsize] at hf
    obtain ⟨f, rfl⟩ : ∃ f, fuel = f + 1 := ⟨fuel - 1, by omega⟩
    rw [WireOK] at h
    rw [decWire_succ, encWire, normW, dec1_str _ s h]
  | .ltime ns off, h, fuel, hf, rest => by
    rw [wsize] at hf
    obtain ⟨f, rfl⟩ : ∃ f, fuel = f + 1 := ⟨fuel - 1, by omega⟩
    rw [WireOK] at h
    rw [decWire_succ, encWire, normW, dec1_ltime _ ns off h]
  | .arr xs, h, fuel, hf, rest => by
    rw [wsize] at hf
    obtain ⟨f, rfl⟩ : ∃ f, fuel = f + 1 := ⟨fuel - 1, by omega⟩
    rw [WireOK] at h
    rw [decWire_succ, encWire, normW, List.append_assoc, dec1_arr _ _ h.1, decArrBody,
      dec_encL xs h.2 f (by omega) rest]
  | .obj kvs, h, fuel, hf, rest => by
    rw [wsize] at hf
    obtain ⟨f, rfl⟩ : ∃ f, fuel = f + 1 := ⟨fuel - 1, by omega⟩
    rw [WireOK] at h
    rw [decWire_succ, encWire, normW, List.append_assoc, dec1_map _ _ h.1, decMapBody,
      dec_encKV kvs h.2 f (by omega) [] rest]
theorem dec_encL : (xs : List Wire) → WireOKL xs → ∀ fuel, wsizeL xs ≤ fuel → ∀ rest,
    decList (decWire fuel) xs.length (encWireL xs ++ rest) = some (normWL xs, rest)
  | [], _, fuel, _, rest => by
    rw [encWireL, normWL, List.nil_append, List.length_nil, decList_zero]
  | x :: xs, h, fuel, hf, rest => by
    rw [wsizeL] at hf
    rw [WireOKL] at h
    rw [encWireL, normWL, List.length_cons, List.append_assoc]
    exact decList_succ_some _ _ _ _ _ _ _ (dec_enc x h.1 fuel (by omega) _)
      (dec_encL xs h.2 fuel (by omega) rest)
theorem dec_encKV : (kvs : List (Bytes × Wire)) → WireOKKV kvs → ∀ fuel, wsizeKV kvs ≤ fuel →
    ∀ acc rest, decKVs (decWire fuel) kvs.length (encWireKV kvs ++ rest) acc
      = some (insAll acc (normWKV kvs), rest)
  | [], _, fuel, _, acc, rest => by
    rw [encWireKV, normWKV, List.nil_append, List.length_nil, decKVs_zero, insAll_nil]
  | (k, x) :: xs, h, fuel, hf, acc, rest => by
    rw [wsizeKV] at hf
    rw [WireOKKV] at h
    rw [encWireKV, normWKV, List.length_cons, List.append_assoc, List.append_assoc, insAll_cons,
      decKVs_succ_some _ _ _ _ _ _ _ _ (decKey_encStr k h.1 _) (dec_enc x h.2.1 fuel (by omega) _)]
    exact dec_encKV xs h.2.2 fuel (by omega) _ rest
end


/-! ## 5. the Go type of a number survives -/

theorem types_preserved_int (i : Int) (h1 : -9223372036854775808 ≤ i) (h2 : i < 9223372036854775808)
    (fuel : Nat) (rest : Bytes) :
    decWire (fuel+1) (encWire (.num (.int i)) ++ rest) = some (.num (.int i), rest) :=
  dec_enc (.num (.int i)) (by rw [WireOK, NumOK]; exact ⟨h1, h2⟩) (fuel+1) (by rw [wsize]; omega) rest

theorem types_preserved_uint (u : Nat) (h : u < 18446744073709551616) (fuel : Nat) (rest : Bytes) :
    decWire (fuel+1) (encWire (.num (.uint u)) ++ rest) = some (.num (.uint u), rest) :=
  dec_enc (.num (.uint u)) (by rw [WireOK, NumOK]; exact h) (fuel+1) (by rw [wsize]; omega) rest

theorem types_preserved_float (b : Nat) (h : b < 18446744073709551616) (fuel : Nat) (rest : Bytes) :
    decWire (fuel+1) (encWire (.num (.float b)) ++ rest) = some (.num (.float b), rest) :=
  dec_enc (.num (.float b)) (by rw [WireOK, NumOK]; exact h) (fuel+1) (by rw [wsize]; omega) rest

/-- the three Go number types never mix: whatever `NumOK` number is encoded, the decoder answers
    a number of the same constructor (and the same value) -/
theorem types_preserved (n : Num) (h : NumOK n) (fuel : Nat) (rest : Bytes) :
    decWire (fuel+1) (encWire (.num n) ++ rest) = some (.num n, rest) :=
  dec_enc (.num n) (by rw [WireOK]; exact h) (fuel+1) (by rw [wsize]; omega) rest

/-! ## 2. `decWire_encWire` -/

theorem encStrHdr_pos (l : Nat) : 1 ≤ (encStrHdr l).length := by
  unfold encStrHdr; repeat' split
  all_goals simp
theorem encArrHdr_pos (l : Nat) : 1 ≤ (encArrHdr l).length := by
  unfold encArrHdr; repeat' split
  all_goals simp
theorem encMapHdr_pos (l : Nat) : 1 ≤ (encMapHdr l).length := by
  unfold encMapHdr; repeat' split
  all_goals simp

mutual
theorem wsize_le : (w : Wire) → wsize w ≤ (encWire w).length
  | .null => by rw [wsize, encWire]; simp
  | .bool _ => by rw [wsize, encWire]; simp
  | .num (.int _) => by rw [wsize, encWire]; simp
  | .num (.uint _) => by rw [wsize, encWire]; simp
  | .num (.float _) => by rw [wsize, encWire]; simp
  | .str s => by
    rw [wsize, encWire, encStr, List.length_append]
    have := encStrHdr_pos s.length; omega
  | .ltime ns off => by
    rw [wsize, encWire, List.length_append, List.length_cons]; omega
  | .arr xs => by
    rw [wsize, encWire, List.length_append]
    have := encArrHdr_pos xs.length; have := wsizeL_le xs; omega
  | .obj kvs => by
    rw [wsize, encWire, List.length_append]
    have := encMapHdr_pos kvs.length; have := wsizeKV_le kvs; omega
theorem wsizeL_le : (xs : List Wire) → wsizeL xs ≤ (encWireL xs).length
  | [] => by rw [wsizeL]; omega
  | x :: xs => by
    rw [wsizeL, encWireL, List.length_append]
    have := wsize_le x; have := wsizeL_le xs; omega
theorem wsizeKV_le : (kvs : List (Bytes × Wire)) → wsizeKV kvs ≤ (encWireKV kvs).length
  | [] => by rw [wsizeKV]; omega
  | (k, x) :: xs => by
    rw [wsizeKV, encWireKV, List.length_append, List.length_append]
    have := wsize_le x; have := wsizeKV_le xs; omega
end

/-- MAIN (2): decoding the encoding of a `WireOK` tree, followed by ANY bytes `rest`, gives the tree
    with its maps sorted (`normW`) and exactly `rest` back — for every fuel from `wsize w` on -/
theorem decWire_encWire (w : Wire) (h : WireOK w) :
    ∃ fuel₀, ∀ fuel, fuel₀ ≤ fuel → ∀ rest,
      decWire fuel (encWire w ++ rest) = some (normW w, rest) :=
  ⟨wsize w, fun fuel hf rest => dec_enc w h fuel hf rest⟩

/-- the fuel `decDocBytes` uses — the length of the input — is enough -/
theorem decWire_encWire_length (w : Wire) (h : WireOK w) (rest : Bytes) :
    decWire (encWire w ++ rest).length (encWire w ++ rest) = some (normW w, rest) :=
  dec_enc w h _ (by rw [List.length_append]; have := wsize_le w; omega) rest


/-! ## sorted insertion at any element type -/

section insertKeyG
variable {α : Type}

theorem insertKeyG_nil (k : Bytes) (v : α) : insertKeyG k v [] = [(k, v)] := rfl

theorem insertKeyG_cons_lt (k : Bytes) (v : α) (k' : Bytes) (v' : α) (t : List (Bytes × α))
    (h : lexLt k k' = true) : insertKeyG k v ((k', v') :: t) = (k, v) :: (k', v') :: t := by
  simp only [insertKeyG, h, if_true]

theorem insertKeyG_cons_eq (k : Bytes) (v : α) (v' : α) (t : List (Bytes × α)) :
    insertKeyG k v ((k, v') :: t) = (k, v) :: t := by
  simp only [insertKeyG, lexLt_irrefl' k, Bool.false_eq_true, if_false, if_true]

theorem insertKeyG_cons_gt (k : Bytes) (v : α) (k' : Bytes) (v' : α) (t : List (Bytes × α))
    (h : lexLt k' k = true) : insertKeyG k v ((k', v') :: t) = (k', v') :: insertKeyG k v t := by
  have h1 : lexLt k k' = false := lexLt_asymm' k' k h
  have h2 : k ≠ k' := fun e => lexLt_ne k' k h e.symm
  simp only [insertKeyG, h1, h2, Bool.false_eq_true, if_false]

/-- `insertKeyG` IS `insertKey` (Clover/Model/Doc.lean) on documents -/
theorem insertKeyG_eq_insertKey (k : Bytes) (v : Value) : (m : Doc) → insertKeyG k v m = insertKey k v m
  | [] => rfl
  | (k', v') :: t => by
    simp only [insertKeyG, insertKey, insertKeyG_eq_insertKey k v t]

theorem insertKeyG_comm_lt (k k' : Bytes) (v v' : α) (hlt : lexLt k k' = true) :
    (m : List (Bytes × α)) →
    insertKeyG k v (insertKeyG k' v' m) = insertKeyG k' v' (insertKeyG k v m)
  | [] => by
    rw [insertKeyG_nil, insertKeyG_nil, insertKeyG_cons_lt k v k' v' [] hlt,
      insertKeyG_cons_gt k' v' k v [] hlt, insertKeyG_nil]
  | (a, x) :: t => by
    by_cases e' : k' = a
    · subst e'
      rw [insertKeyG_cons_eq, insertKeyG_cons_lt k v k' v' t hlt, insertKeyG_cons_lt k v k' x t hlt,
        insertKeyG_cons_gt k' v' k v _ hlt, insertKeyG_cons_eq]
    · rcases lexLt_total k' a e' with h' | h'
      · have h : lexLt k a = true := lexLt_trans k k' a hlt h'
        rw [insertKeyG_cons_lt k' v' a x t h', insertKeyG_cons_lt k v k' v' _ hlt,
          insertKeyG_cons_lt k v a x t h, insertKeyG_cons_gt k' v' k v _ hlt,
          insertKeyG_cons_lt k' v' a x t h']
      · rw [insertKeyG_cons_gt k' v' a x t h']
        by_cases e : k = a
        · subst e
          rw [insertKeyG_cons_eq, insertKeyG_cons_eq, insertKeyG_cons_gt k' v' k v t hlt]
        · rcases lexLt_total k a e with h | h
          · rw [insertKeyG_cons_lt k v a x _ h, insertKeyG_cons_lt k v a x t h,
              insertKeyG_cons_gt k' v' k v _ hlt, insertKeyG_cons_gt k' v' a x t h']
          · rw [insertKeyG_cons_gt k v a x _ h, insertKeyG_cons_gt k v a x t h,
              insertKeyG_cons_gt k' v' a x _ h', insertKeyG_comm_lt k k' v v' hlt t]

/-- assignments to two different keys commute, on any association list -/
theorem insertKeyG_comm (k k' : Bytes) (v v' : α) (hne : k ≠ k') (m : List (Bytes × α)) :
    insertKeyG k v (insertKeyG k' v' m) = insertKeyG k' v' (insertKeyG k v m) := by
  rcases lexLt_total k k' hne with h | h
  · exact insertKeyG_comm_lt k k' v v' h m
  · exact (insertKeyG_comm_lt k' k v' v h m).symm

/-- a key above all keys of the map goes to the end -/
theorem insertKeyG_snoc (k : Bytes) (v : α) : (m : List (Bytes × α)) →
    (∀ p ∈ m, lexLt p.1 k = true) → insertKeyG k v m = m ++ [(k, v)]
  | [], _ => rfl
  | (a, x) :: t, h => by
    rw [insertKeyG_cons_gt k v a x t (h (a, x) List.mem_cons_self),
      insertKeyG_snoc k v t (fun p hp => h p (List.mem_cons_of_mem _ hp)), List.cons_append]

/-- keys strictly increasing (one level), at any element type -/
def KeysIncG (m : List (Bytes × α)) : Prop := m.Pairwise (fun a b => lexLt a.1 b.1 = true)

end insertKeyG

/-- inserting a strictly increasing list after a strictly smaller map just appends it -/
theorem insAll_sorted : (l acc : List (Bytes × Wire)) → KeysIncG (acc ++ l) → insAll acc l = acc ++ l
  | [], acc, _ => by rw [insAll_nil, List.append_nil]
  | (k, v) :: t, acc, h => by
    have h' := List.pairwise_append.1 h
    have hk : ∀ p ∈ acc, lexLt p.1 k = true := fun p hp => h'.2.2 p hp (k, v) List.mem_cons_self
    have e : acc ++ (k, v) :: t = (acc ++ [(k, v)]) ++ t := by
      rw [List.append_assoc, List.singleton_append]
    rw [insAll_cons, insertKeyG_snoc k v acc hk, insAll_sorted t (acc ++ [(k, v)]) (e ▸ h), e]

/-! ## 3. a sorted document reads back identical -/

mutual
/-- every map inside the tree — also inside arrays — has strictly increasing keys -/
def WSorted : Wire → Prop
  | .null => True
  | .bool _ => True
  | .num _ => True
  | .str _ => True
  | .ltime _ _ => True
  | .arr xs => WSortedL xs
  | .obj kvs => KeysIncG kvs ∧ WSortedKV kvs
def WSortedL : List Wire → Prop
  | [] => True
  | x :: xs => WSorted x ∧ WSortedL xs
def WSortedKV : List (Bytes × Wire) → Prop
  | [] => True
  | (_, x) :: xs => WSorted x ∧ WSortedKV xs
end

mutual
theorem normW_sorted : (w : Wire) → WSorted w → normW w = w
  | .null, _ => rfl
  | .bool _, _ => rfl
  | .num _, _ => rfl
  | .str _, _ => rfl
  | .ltime _ _, _ => rfl
  | .arr xs, h => by
    rw [WSorted] at h
    rw [normW, normWL_sorted xs h]
  | .obj kvs, h => by
    rw [WSorted] at h
    rw [normW, normWKV_sorted kvs h.2, insAll_sorted kvs [] (by rw [List.nil_append]; exact h.1),
      List.nil_append]
theorem normWL_sorted : (xs : List Wire) → WSortedL xs → normWL xs = xs
  | [], _ => rfl
  | x :: xs, h => by
    rw [WSortedL] at h
    rw [normWL, normW_sorted x h.1, normWL_sorted xs h.2]
theorem normWKV_sorted : (kvs : List (Bytes × Wire)) → WSortedKV kvs → normWKV kvs = kvs
  | [], _ => rfl
  | (k, x) :: xs, h => by
    rw [WSortedKV] at h
    rw [normWKV, normW_sorted x h.1, normWKV_sorted xs h.2]
end

mutual
/-- the same on values: every map — also inside arrays — sorted by key without duplicates.
    (`ValOK` of Clover/Proofs/SetAllOrder.lean and `SortedKeys` of Clover/Proofs/DocFields.lean do NOT
    look into arrays, but the decoder rebuilds the maps inside arrays too, so neither fits.) -/
def ValSorted : Value → Prop
  | .null => True
  | .bool _ => True
  | .num _ => True
  | .str _ => True
  | .time _ _ => True
  | .arr xs => ValSortedL xs
  | .obj kvs => KeysIncG kvs ∧ ValSortedKV kvs
def ValSortedL : List Value → Prop
  | [] => True
  | x :: xs => ValSorted x ∧ ValSortedL xs
def ValSortedKV : List (Bytes × Value) → Prop
  | [] => True
  | (_, x) :: xs => ValSorted x ∧ ValSortedKV xs
end

/-- a document whose maps are sorted by key without duplicates at every level, arrays included -/
def DocSorted (d : Doc) : Prop := KeysIncG d ∧ ValSortedKV d

mutual
theorem ValSorted.valOK : (v : Value) → ValSorted v → ValOK v
  | .null, _ => by
    rw [ValOK]
    all_goals first | trivial | (intro _ e; cases e)
  | .bool _, _ => by
    rw [ValOK]
    all_goals first | trivial | (intro _ e; cases e)
  | .num _, _ => by
    rw [ValOK]
    all_goals first | trivial | (intro _ e; cases e)
  | .str _, _ => by
    rw [ValOK]
    all_goals first | trivial | (intro _ e; cases e)
  | .time _ _, _ => by
    rw [ValOK]
    all_goals first | trivial | (intro _ e; cases e)
  | .arr _, _ => by
    rw [ValOK]
    all_goals first | trivial | (intro _ e; cases e)
  | .obj kvs, h => by
    rw [ValSorted] at h
    rw [ValOK]
    exact ⟨h.1, ValSortedKV.fieldsOK kvs h.2⟩
theorem ValSortedKV.fieldsOK : (kvs : List (Bytes × Value)) → ValSortedKV kvs → ObjFieldsOK kvs
  | [], _ => objFieldsOK_nil
  | (k, x) :: xs, h => by
    rw [ValSortedKV] at h
    exact (objFieldsOK_cons k x xs).2 ⟨ValSorted.valOK x h.1, ValSortedKV.fieldsOK xs h.2⟩
end

/-- `DocSorted` is stronger than `DocOK` of Clover/Proofs/SetAllOrder.lean (which skips arrays) -/
theorem DocSorted.docOK (d : Doc) (h : DocSorted d) : DocOK d := ⟨h.1, ValSortedKV.fieldsOK d h.2⟩

theorem toWireKV_keys : (kvs : List (Bytes × Value)) → (toWireKV kvs).map Prod.fst = kvs.map Prod.fst
  | [] => rfl
  | (k, x) :: xs => by rw [toWireKV, List.map_cons, List.map_cons, toWireKV_keys xs]

theorem keysIncG_iff {α : Type} (m : List (Bytes × α)) :
    KeysIncG m ↔ (m.map Prod.fst).Pairwise (fun a b => lexLt a b = true) := by
  rw [KeysIncG, List.pairwise_map]

theorem keysIncG_toWireKV (kvs : List (Bytes × Value)) (h : KeysIncG kvs) : KeysIncG (toWireKV kvs) := by
  rw [keysIncG_iff, toWireKV_keys, ← keysIncG_iff]; exact h

mutual
theorem toWire_sorted : (v : Value) → ValSorted v → WSorted (toWire v)
  | .null, _ => by rw [toWire, WSorted]; trivial
  | .bool _, _ => by rw [toWire, WSorted]; trivial
  | .num _, _ => by rw [toWire, WSorted]; trivial
  | .str _, _ => by rw [toWire, WSorted]; trivial
  | .time _ _, _ => by rw [toWire, WSorted]; trivial
  | .arr xs, h => by
    rw [ValSorted] at h
    rw [toWire, WSorted]; exact toWireL_sorted xs h
  | .obj kvs, h => by
    rw [ValSorted] at h
    rw [toWire, WSorted]; exact ⟨keysIncG_toWireKV kvs h.1, toWireKV_sorted kvs h.2⟩
theorem toWireL_sorted : (xs : List Value) → ValSortedL xs → WSortedL (toWireL xs)
  | [], _ => by rw [toWireL, WSortedL]; trivial
  | x :: xs, h => by
    rw [ValSortedL] at h
    rw [toWireL, WSortedL]; exact ⟨toWire_sorted x h.1, toWireL_sorted xs h.2⟩
theorem toWireKV_sorted : (kvs : List (Bytes × Value)) → ValSortedKV kvs → WSortedKV (toWireKV kvs)
  | [], _ => by rw [toWireKV, WSortedKV]; trivial
  | (k, x) :: xs, h => by
    rw [ValSortedKV] at h
    rw [toWireKV, WSortedKV]; exact ⟨toWire_sorted x h.1, toWireKV_sorted xs h.2⟩
end

/-- MAIN (3): C11's round trip at BYTE level.  A document within the ranges of the formats
    (`WireOK`) whose maps are sorted without duplicate keys at every level (`DocSorted`; arrays
    included) is read back identical from its msgpack bytes. -/
theorem decDoc_encDoc (d : Doc) (hok : WireOK (.obj (encodeDoc d))) (hs : DocSorted d) :
    decDocBytes (encDocBytes d) = some d := by
  have hw : WSorted (.obj (encodeDoc d)) := by
    rw [WSorted]; exact ⟨keysIncG_toWireKV d hs.1, toWireKV_sorted d hs.2⟩
  have h := decWire_encWire_length (.obj (encodeDoc d)) hok []
  rw [List.append_nil, normW_sorted _ hw] at h
  rw [decDocBytes, encDocBytes, h]
  dsimp only
  rw [decodeDoc_encodeDoc]

/-- the same with the stricter decoder that rejects trailing bytes -/
theorem decDocStrict_encDoc (d : Doc) (hok : WireOK (.obj (encodeDoc d))) (hs : DocSorted d) :
    decDocBytesStrict (encDocBytes d) = some d := by
  have hw : WSorted (.obj (encodeDoc d)) := by
    rw [WSorted]; exact ⟨keysIncG_toWireKV d hs.1, toWireKV_sorted d hs.2⟩
  have h := decWire_encWire_length (.obj (encodeDoc d)) hok []
  rw [List.append_nil, normW_sorted _ hw] at h
  rw [decDocBytesStrict, encDocBytes, h]
  dsimp only
  rw [decodeDoc_encodeDoc]

/-- like Go's `Unmarshal`, `decDocBytes` ignores whatever follows the document -/
theorem decDoc_encDoc_trailing (d : Doc) (hok : WireOK (.obj (encodeDoc d))) (hs : DocSorted d)
    (rest : Bytes) : decDocBytes (encDocBytes d ++ rest) = some d := by
  have hw : WSorted (.obj (encodeDoc d)) := by
    rw [WSorted]; exact ⟨keysIncG_toWireKV d hs.1, toWireKV_sorted d hs.2⟩
  have h := decWire_encWire_length (.obj (encodeDoc d)) hok rest
  rw [normW_sorted _ hw] at h
  rw [decDocBytes, encDocBytes, h]
  dsimp only
  rw [decodeDoc_encodeDoc]


/-! ## 4. the decoder does not depend on the order in which a map's entries were written -/

theorem wireOKKV_iff : (kvs : List (Bytes × Wire)) →
    (WireOKKV kvs ↔ ∀ e ∈ kvs, e.1.length < 4294967296 ∧ WireOK e.2)
  | [] => by rw [WireOKKV]; exact ⟨fun _ _ h => (by cases h), fun _ => trivial⟩
  | (k, x) :: xs => by
    rw [WireOKKV, wireOKKV_iff xs]
    constructor
    · intro h e he
      rcases List.mem_cons.1 he with e1 | e1
      · rw [e1]; exact ⟨h.1, h.2.1⟩
      · exact h.2.2 e e1
    · intro h
      exact ⟨(h (k, x) List.mem_cons_self).1, (h (k, x) List.mem_cons_self).2,
        fun e he => h e (List.mem_cons_of_mem _ he)⟩

theorem normWKV_eq_map : (kvs : List (Bytes × Wire)) → normWKV kvs = kvs.map (fun e => (e.1, normW e.2))
  | [] => rfl
  | (k, x) :: xs => by rw [normWKV, List.map_cons, normWKV_eq_map xs]

theorem eq_of_key_eq {α : Type} : (l : List (Bytes × α)) → (l.map Prod.fst).Nodup →
    ∀ x ∈ l, ∀ y ∈ l, x.1 = y.1 → x = y
  | [], _, x, hx, _, _, _ => by cases hx
  | a :: t, hd, x, hx, y, hy, e => by
    rw [List.map_cons, List.nodup_cons] at hd
    rcases List.mem_cons.1 hx with hx | hx <;> rcases List.mem_cons.1 hy with hy | hy
    · rw [hx, hy]
    · exact absurd (List.mem_map.2 ⟨y, hy, by rw [← e, hx]⟩) hd.1
    · exact absurd (List.mem_map.2 ⟨x, hx, by rw [e, hy]⟩) hd.1
    · exact eq_of_key_eq t hd.2 x hx y hy e

/-- assigning pairs with distinct keys: any order gives the same map -/
theorem insAll_perm {l l' : List (Bytes × Wire)} (hp : l.Perm l') (hd : (l.map Prod.fst).Nodup)
    (acc : List (Bytes × Wire)) : insAll acc l = insAll acc l' := by
  refine List.Perm.foldl_eq' hp ?_ acc
  intro x hx y hy z
  by_cases e : x.1 = y.1
  · rw [eq_of_key_eq l hd x hx y hy e]
  · exact insertKeyG_comm y.1 x.1 y.2 x.2 (fun e' => e e'.symm) z

/-- COMPOSITIONAL rule for maps: entries whose values have the same normal form, taken in any
    order (keys distinct), give the same normal form.  Together with the obvious rule for arrays
    this covers re-orderings at EVERY level. -/
theorem normW_obj_congr {kvs kvs' : List (Bytes × Wire)}
    (hp : (kvs.map (fun e => (e.1, normW e.2))).Perm (kvs'.map (fun e => (e.1, normW e.2))))
    (hd : (kvs.map Prod.fst).Nodup) : normW (.obj kvs) = normW (.obj kvs') := by
  rw [normW, normW, normWKV_eq_map, normWKV_eq_map]
  refine congrArg Wire.obj (insAll_perm hp ?_ [])
  rw [List.map_map]
  exact hd

theorem normW_obj_perm {kvs kvs' : List (Bytes × Wire)} (hp : kvs.Perm kvs')
    (hd : (kvs.map Prod.fst).Nodup) : normW (.obj kvs) = normW (.obj kvs') :=
  normW_obj_congr (hp.map _) hd

theorem wireOK_obj_perm {kvs kvs' : List (Bytes × Wire)} (hp : kvs.Perm kvs')
    (h : WireOK (.obj kvs)) : WireOK (.obj kvs') := by
  rw [WireOK] at h ⊢
  refine ⟨hp.length_eq ▸ h.1, (wireOKKV_iff kvs').2 ?_⟩
  intro e he
  exact (wireOKKV_iff kvs).1 h.2 e (hp.mem_iff.2 he)

/-- GENERAL form: two `WireOK` trees with the same normal form (e.g. differing only in the order
    of the entries of maps, at any depth) are decoded to the same result -/
theorem decWire_shuffle (w w' : Wire) (h : WireOK w) (h' : WireOK w') (e : normW w = normW w') :
    ∃ fuel₀, ∀ fuel, fuel₀ ≤ fuel → ∀ rest,
      decWire fuel (encWire w ++ rest) = some (normW w, rest) ∧
      decWire fuel (encWire w' ++ rest) = some (normW w, rest) :=
  ⟨wsize w + wsize w', fun fuel hf rest =>
    ⟨dec_enc w h fuel (by omega) rest, e ▸ dec_enc w' h' fuel (by omega) rest⟩⟩

/-- MAIN (4), top level of any map value: if `kvs'` is a permutation of `kvs` (keys distinct), the
    two encodings are decoded to the same tree, with the same rest -/
theorem decWire_perm {kvs kvs' : List (Bytes × Wire)} (hp : kvs.Perm kvs')
    (hd : (kvs.map Prod.fst).Nodup) (h : WireOK (.obj kvs)) :
    ∃ fuel₀, ∀ fuel, fuel₀ ≤ fuel → ∀ rest,
      decWire fuel (encWire (.obj kvs) ++ rest) = some (normW (.obj kvs), rest) ∧
      decWire fuel (encWire (.obj kvs') ++ rest) = some (normW (.obj kvs), rest) :=
  decWire_shuffle _ _ h (wireOK_obj_perm hp h) (normW_obj_perm hp hd)

/-- MAIN (4) for documents: the order in which the top-level entries were written is irrelevant -/
theorem decDoc_perm {kvs kvs' : List (Bytes × Wire)} (hp : kvs.Perm kvs')
    (hd : (kvs.map Prod.fst).Nodup) (h : WireOK (.obj kvs)) :
    decDocBytes (encWire (.obj kvs')) = decDocBytes (encWire (.obj kvs)) := by
  have h1 := decWire_encWire_length _ h []
  have h2 := decWire_encWire_length _ (wireOK_obj_perm hp h) []
  rw [List.append_nil] at h1 h2
  rw [decDocBytes, decDocBytes, h1, h2, normW_obj_perm hp hd]

/-- hence: whatever order Go's map iteration picks for the top-level fields of a sorted document,
    the bytes decode to that document -/
theorem decDoc_encDoc_anyOrder (d : Doc) (hok : WireOK (.obj (encodeDoc d))) (hs : DocSorted d)
    (kvs' : List (Bytes × Wire)) (hp : (encodeDoc d).Perm kvs') :
    decDocBytes (encWire (.obj kvs')) = some d := by
  have hk : KeysIncG (encodeDoc d) := keysIncG_toWireKV d hs.1
  have hd : ((encodeDoc d).map Prod.fst).Nodup := by
    rw [keysIncG_iff] at hk
    exact hk.imp (fun {a b} hab => lexLt_ne a b hab)
  rw [decDoc_perm hp hd hok]
  exact decDoc_encDoc d hok hs

/-- general form of the same, for re-orderings at EVERY level: any `WireOK` tree with the normal
    form of the document's tree decodes to the document -/
theorem decDoc_encDoc_shuffle (d : Doc) (hs : DocSorted d) (w' : Wire) (h' : WireOK w')
    (e : normW w' = normW (.obj (encodeDoc d))) : decDocBytes (encWire w') = some d := by
  have hw : WSorted (.obj (encodeDoc d)) := by
    rw [WSorted]; exact ⟨keysIncG_toWireKV d hs.1, toWireKV_sorted d hs.2⟩
  have h := decWire_encWire_length w' h' []
  rw [List.append_nil, e, normW_sorted _ hw] at h
  rw [decDocBytes, h]
  dsimp only
  rw [decodeDoc_encodeDoc]


/-! ## the decoder's maps, seen as documents -/

/-- `removeLocalizedTimes` commutes with the assignment into the map: what `decKVs` builds with
    `insertKeyG` is what `insertKey` builds on documents -/
theorem ofWireKV_insertKeyG (k : Bytes) (v : Wire) : (m : List (Bytes × Wire)) →
    ofWireKV (insertKeyG k v m) = insertKey k (ofWire v) (ofWireKV m)
  | [] => rfl
  | (k', v') :: t => by
    by_cases e : k = k'
    · subst e
      rw [insertKeyG_cons_eq]
      simp only [ofWireKV]
      rw [insertKey_cons_eq]
    · rcases lexLt_total k k' e with h | h
      · rw [insertKeyG_cons_lt k v k' v' t h]
        simp only [ofWireKV]
        rw [insertKey_cons_lt _ _ _ _ _ h]
      · rw [insertKeyG_cons_gt k v k' v' t h]
        simp only [ofWireKV]
        rw [insertKey_cons_gt _ _ _ _ _ h, ofWireKV_insertKeyG k v t]

/-! ## the fuel of `decDocBytes` is always enough -/

theorem takeN_le {n : Nat} {bs a r : Bytes} (h : takeN n bs = some (a, r)) : r.length ≤ bs.length := by
  unfold takeN at h
  split at h
  · cases h
  · cases h; rw [List.length_drop]; omega

theorem readBE_le {w : Nat} {bs r : Bytes} {n : Nat} (h : readBE w bs = some (n, r)) :
    r.length ≤ bs.length := by
  unfold readBE at h
  split at h
  · cases h
  · rename_i a r' e; cases h; exact takeN_le e

theorem decKeyN_le {w : Nat} {bs k r : Bytes} (h : decKeyN w bs = some (k, r)) : r.length ≤ bs.length := by
  unfold decKeyN at h
  split at h
  · cases h
  · rename_i l r' e
    exact Nat.le_trans (takeN_le h) (readBE_le e)

theorem ite_some_le {β : Type} {c : Prop} [Decidable c] {a b : Option (β × Bytes)} {bs : Bytes}
    (ha : ∀ w r, a = some (w, r) → r.length ≤ bs.length)
    (hb : ∀ w r, b = some (w, r) → r.length ≤ bs.length) :
    ∀ w r, (if c then a else b) = some (w, r) → r.length ≤ bs.length := by
  split
  · exact ha
  · exact hb

theorem decKeyBody_le' {n : Nat} {bs : Bytes} :
    ∀ (k r : Bytes), decKeyBody n bs = some (k, r) → r.length ≤ bs.length := by
  unfold decKeyBody
  refine ite_some_le ?_ (ite_some_le ?_ (ite_some_le ?_ (ite_some_le ?_ (ite_some_le ?_ ?_))))
  all_goals first
    | (intro w r h; exact takeN_le h)
    | (intro w r h; exact decKeyN_le h)
    | (intro w r h; cases h; exact Nat.le_refl _)
    | (intro w r h; cases h)

theorem decKeyBody_le {n : Nat} {bs k r : Bytes} (h : decKeyBody n bs = some (k, r)) :
    r.length ≤ bs.length := decKeyBody_le' k r h

theorem decKey_lt {bs k r : Bytes} (h : decKey bs = some (k, r)) : r.length < bs.length := by
  cases bs with
  | nil => cases h
  | cons c t =>
    have := decKeyBody_le (show decKeyBody c.toNat t = some (k, r) from h)
    rw [List.length_cons]; omega

/-- a decoder that returns no more than it was given -/
def Shrinks (dec : Bytes → Option (Wire × Bytes)) : Prop :=
  ∀ bs w r, dec bs = some (w, r) → r.length ≤ bs.length

theorem decList_le {dec : Bytes → Option (Wire × Bytes)} (hs : Shrinks dec) :
    (n : Nat) → (bs : Bytes) → (xs : List Wire) → (r : Bytes) → decList dec n bs = some (xs, r) →
    r.length ≤ bs.length
  | 0, bs, xs, r, h => by cases h; exact Nat.le_refl _
  | n+1, bs, xs, r, h => by
    rw [decList] at h
    split at h
    · cases h
    · rename_i x r1 e1
      split at h
      · cases h
      · rename_i xs' r2 e2
        cases h
        exact Nat.le_trans (decList_le hs n r1 xs' r e2) (hs bs x r1 e1)

theorem decKVs_le {dec : Bytes → Option (Wire × Bytes)} (hs : Shrinks dec) :
    (n : Nat) → (bs : Bytes) → (acc m : List (Bytes × Wire)) → (r : Bytes) →
    decKVs dec n bs acc = some (m, r) → r.length ≤ bs.length
  | 0, bs, acc, m, r, h => by cases h; exact Nat.le_refl _
  | n+1, bs, acc, m, r, h => by
    rw [decKVs] at h
    split at h
    · cases h
    · rename_i k r1 e1
      split at h
      · cases h
      · rename_i v r2 e2
        have := decKVs_le hs n r2 _ m r h
        have := hs r1 v r2 e2
        have := decKey_lt e1
        omega

theorem decStrBody_le {n : Nat} {bs r : Bytes} {w : Wire} (h : decStrBody n bs = some (w, r)) :
    r.length ≤ bs.length := by
  unfold decStrBody at h
  split at h
  · cases h
  · rename_i s r' e; cases h; exact takeN_le e

theorem decStrN_le {n : Nat} {bs r : Bytes} {w : Wire} (h : decStrN n bs = some (w, r)) :
    r.length ≤ bs.length := by
  unfold decStrN at h
  split at h
  · cases h
  · rename_i l r' e; exact Nat.le_trans (decStrBody_le h) (readBE_le e)

theorem decNum_le {f : Nat → Num} {bs r : Bytes} {w : Wire} (h : decNum f bs = some (w, r)) :
    r.length ≤ bs.length := by
  unfold decNum at h
  split at h
  · cases h
  · rename_i l r' e; cases h; exact readBE_le e

theorem decExtBody_le {n : Nat} {bs r : Bytes} {w : Wire} (h : decExtBody n bs = some (w, r)) :
    r.length ≤ bs.length := by
  unfold decExtBody at h
  split at h
  · cases h
  · rename_i id t
    split at h
    · split at h
      · cases h
      · rename_i p rest e
        split at h
        · cases h
        · cases h
          have := takeN_le e
          rw [List.length_cons]; omega
    · cases h

theorem decExtN_le {n : Nat} {bs r : Bytes} {w : Wire} (h : decExtN n bs = some (w, r)) :
    r.length ≤ bs.length := by
  unfold decExtN at h
  split at h
  · cases h
  · rename_i l r' e; exact Nat.le_trans (decExtBody_le h) (readBE_le e)

theorem decArrBody_le {dec : Bytes → Option (Wire × Bytes)} (hs : Shrinks dec) {n : Nat} {bs r : Bytes}
    {w : Wire} (h : decArrBody dec n bs = some (w, r)) : r.length ≤ bs.length := by
  unfold decArrBody at h
  split at h
  · cases h
  · rename_i xs r' e; cases h; exact decList_le hs _ _ _ _ e

theorem decArrN_le {dec : Bytes → Option (Wire × Bytes)} (hs : Shrinks dec) {n : Nat} {bs r : Bytes}
    {w : Wire} (h : decArrN dec n bs = some (w, r)) : r.length ≤ bs.length := by
  unfold decArrN at h
  split at h
  · cases h
  · rename_i l r' e; exact Nat.le_trans (decArrBody_le hs h) (readBE_le e)

theorem decMapBody_le {dec : Bytes → Option (Wire × Bytes)} (hs : Shrinks dec) {n : Nat} {bs r : Bytes}
    {w : Wire} (h : decMapBody dec n bs = some (w, r)) : r.length ≤ bs.length := by
  unfold decMapBody at h
  split at h
  · cases h
  · rename_i xs r' e; cases h; exact decKVs_le hs _ _ _ _ _ e

theorem decMapN_le {dec : Bytes → Option (Wire × Bytes)} (hs : Shrinks dec) {n : Nat} {bs r : Bytes}
    {w : Wire} (h : decMapN dec n bs = some (w, r)) : r.length ≤ bs.length := by
  unfold decMapN at h
  split at h
  · cases h
  · rename_i l r' e; exact Nat.le_trans (decMapBody_le hs h) (readBE_le e)

theorem decBody_le' {dec : Bytes → Option (Wire × Bytes)} (hs : Shrinks dec) {n : Nat} {bs : Bytes} :
    ∀ (w : Wire) (r : Bytes), decBody dec n bs = some (w, r) → r.length ≤ bs.length := by
  unfold decBody
  exact ite_some_le (fun _ _ h => by cases h)
    (ite_some_le (fun _ _ h => decMapBody_le hs h)
    (ite_some_le (fun _ _ h => decArrBody_le hs h)
    (ite_some_le (fun _ _ h => decStrBody_le h)
    (ite_some_le (fun _ _ h => by cases h; exact Nat.le_refl _)
    (ite_some_le (fun _ _ h => by cases h; exact Nat.le_refl _)
    (ite_some_le (fun _ _ h => by cases h; exact Nat.le_refl _)
    (ite_some_le (fun _ _ h => decNum_le h)
    (ite_some_le (fun _ _ h => decNum_le h)
    (ite_some_le (fun _ _ h => decNum_le h)
    (ite_some_le (fun _ _ h => decStrN_le h)
    (ite_some_le (fun _ _ h => decStrN_le h)
    (ite_some_le (fun _ _ h => decStrN_le h)
    (ite_some_le (fun _ _ h => decArrN_le hs h)
    (ite_some_le (fun _ _ h => decArrN_le hs h)
    (ite_some_le (fun _ _ h => decMapN_le hs h)
    (ite_some_le (fun _ _ h => decMapN_le hs h)
    (ite_some_le (fun _ _ h => decExtBody_le h)
    (ite_some_le (fun _ _ h => decExtBody_le h)
    (ite_some_le (fun _ _ h => decExtBody_le h)
    (ite_some_le (fun _ _ h => decExtBody_le h)
    (ite_some_le (fun _ _ h => decExtBody_le h)
    (ite_some_le (fun _ _ h => decExtN_le h)
    (ite_some_le (fun _ _ h => decExtN_le h)
    (ite_some_le (fun _ _ h => decExtN_le h)
    ((fun _ _ h => by cases h))))))))))))))))))))))))))

theorem decBody_le {dec : Bytes → Option (Wire × Bytes)} (hs : Shrinks dec) {n : Nat} {bs r : Bytes}
    {w : Wire} (h : decBody dec n bs = some (w, r)) : r.length ≤ bs.length := decBody_le' hs w r h

theorem decWire1_lt {dec : Bytes → Option (Wire × Bytes)} (hs : Shrinks dec) {bs r : Bytes} {w : Wire}
    (h : decWire1 dec bs = some (w, r)) : r.length < bs.length := by
  cases bs with
  | nil => cases h
  | cons c t =>
    have := decBody_le hs (show decBody dec c.toNat t = some (w, r) from h)
    rw [List.length_cons]; omega

theorem decWire_shrinks : (fuel : Nat) → Shrinks (decWire fuel)
  | 0 => fun _ _ _ h => by cases h
  | fuel+1 => fun bs w r h => by
    have := decWire1_lt (decWire_shrinks fuel) (show decWire1 (decWire fuel) bs = some (w, r) from h)
    omega


/-- two decoders that agree on every input shorter than `n` -/
def AgreeBelow (dec dec' : Bytes → Option (Wire × Bytes)) (n : Nat) : Prop :=
  ∀ bs, bs.length < n → dec bs = dec' bs

section agree
variable {dec dec' : Bytes → Option (Wire × Bytes)} {n : Nat}

theorem decList_agree (ha : AgreeBelow dec dec' n) (hs : Shrinks dec) :
    (cnt : Nat) → (bs : Bytes) → bs.length < n → decList dec cnt bs = decList dec' cnt bs
  | 0, _, _ => rfl
  | cnt+1, bs, hb => by
    rw [decList, decList, ← ha bs hb]
    cases e : dec bs with
    | none => rfl
    | some p =>
      obtain ⟨x, r⟩ := p
      dsimp only
      rw [decList_agree ha hs cnt r (by have := hs bs x r e; omega)]

theorem decKVs_agree (ha : AgreeBelow dec dec' n) (hs : Shrinks dec) :
    (cnt : Nat) → (bs : Bytes) → (acc : List (Bytes × Wire)) → bs.length < n →
    decKVs dec cnt bs acc = decKVs dec' cnt bs acc
  | 0, _, _, _ => rfl
  | cnt+1, bs, acc, hb => by
    rw [decKVs, decKVs]
    cases e : decKey bs with
    | none => rfl
    | some p =>
      obtain ⟨k, r⟩ := p
      dsimp only
      have hr := decKey_lt e
      rw [← ha r (by omega)]
      cases e2 : dec r with
      | none => rfl
      | some q =>
        obtain ⟨v, r2⟩ := q
        dsimp only
        exact decKVs_agree ha hs cnt r2 _ (by have := hs r v r2 e2; omega)

theorem decArrBody_agree (ha : AgreeBelow dec dec' n) (hs : Shrinks dec) (m : Nat) (bs : Bytes)
    (hb : bs.length < n) : decArrBody dec m bs = decArrBody dec' m bs := by
  rw [decArrBody, decArrBody, decList_agree ha hs m bs hb]

theorem decMapBody_agree (ha : AgreeBelow dec dec' n) (hs : Shrinks dec) (m : Nat) (bs : Bytes)
    (hb : bs.length < n) : decMapBody dec m bs = decMapBody dec' m bs := by
  rw [decMapBody, decMapBody, decKVs_agree ha hs m bs [] hb]

theorem decArrN_agree (ha : AgreeBelow dec dec' n) (hs : Shrinks dec) (w : Nat) (bs : Bytes)
    (hb : bs.length < n) : decArrN dec w bs = decArrN dec' w bs := by
  rw [decArrN, decArrN]
  cases e : readBE w bs with
  | none => rfl
  | some p =>
    obtain ⟨l, r⟩ := p
    dsimp only
    exact decArrBody_agree ha hs l r (by have := readBE_le e; omega)

theorem decMapN_agree (ha : AgreeBelow dec dec' n) (hs : Shrinks dec) (w : Nat) (bs : Bytes)
    (hb : bs.length < n) : decMapN dec w bs = decMapN dec' w bs := by
  rw [decMapN, decMapN]
  cases e : readBE w bs with
  | none => rfl
  | some p =>
    obtain ⟨l, r⟩ := p
    dsimp only
    exact decMapBody_agree ha hs l r (by have := readBE_le e; omega)

theorem decBody_agree (ha : AgreeBelow dec dec' n) (hs : Shrinks dec) (c : Nat) (bs : Bytes)
    (hb : bs.length < n) : decBody dec c bs = decBody dec' c bs := by
  unfold decBody
  rw [decMapBody_agree ha hs _ bs hb, decArrBody_agree ha hs _ bs hb,
    decArrN_agree ha hs 2 bs hb, decArrN_agree ha hs 4 bs hb,
    decMapN_agree ha hs 2 bs hb, decMapN_agree ha hs 4 bs hb]

theorem decWire1_agree (ha : AgreeBelow dec dec' n) (hs : Shrinks dec) :
    (bs : Bytes) → bs.length ≤ n → decWire1 dec bs = decWire1 dec' bs
  | [], _ => rfl
  | c :: t, hb => decBody_agree ha hs c.toNat t (by rw [List.length_cons] at hb; omega)

end agree

theorem decWire_nil (fuel : Nat) : decWire fuel [] = none := by
  cases fuel <;> rfl

/-- the fuel is irrelevant once it reaches the length of the input: each nesting level consumes at
    least its code byte -/
theorem decWire_fuel : (f f' : Nat) → (bs : Bytes) → bs.length ≤ f → bs.length ≤ f' →
    decWire f bs = decWire f' bs
  | 0, f', bs, h, _ => by
    have : bs = [] := List.eq_nil_of_length_eq_zero (by omega)
    rw [this, decWire_nil, decWire_nil]
  | f+1, 0, bs, _, h => by
    have : bs = [] := List.eq_nil_of_length_eq_zero (by omega)
    rw [this, decWire_nil, decWire_nil]
  | f+1, f'+1, bs, h, h' => by
    show decWire1 (decWire f) bs = decWire1 (decWire f') bs
    refine decWire1_agree (n := bs.length) ?_ (decWire_shrinks f) bs (Nat.le_refl _)
    intro t ht
    exact decWire_fuel f f' t (by omega) (by omega)

/-- `decDocBytes` never fails for lack of fuel: more fuel than the length of the input changes
    nothing (so its `none` always means "malformed or out of the model") -/
theorem decWire_fuel_length (fuel : Nat) (bs : Bytes) (h : bs.length ≤ fuel) :
    decWire fuel bs = decWire bs.length bs :=
  decWire_fuel fuel bs.length bs h (Nat.le_refl _)

/-! ## examples: concrete byte strings (checked against Go, msgpack v5.3.5 / go1.23.5) -/

/-- `{"a": int64 1}` -/
example : encDocBytes [([0x61], .num (.int 1))]
    = [0x81, 0xa1, 0x61, 0xd3, 0, 0, 0, 0, 0, 0, 0, 1] := by rfl
/-- `{"a": int64 -2}` -/
example : encDocBytes [([0x61], .num (.int (-2)))]
    = [0x81, 0xa1, 0x61, 0xd3, 0xff, 0xff, 0xff, 0xff, 0xff, 0xff, 0xff, 0xfe] := by rfl
/-- `{"a": uint64 max}` -/
example : encDocBytes [([0x61], .num (.uint 18446744073709551615))]
    = [0x81, 0xa1, 0x61, 0xcf, 0xff, 0xff, 0xff, 0xff, 0xff, 0xff, 0xff, 0xff] := by rfl
/-- `{"a": 1.5}` -/
example : encDocBytes [([0x61], .num (.float 0x3ff8000000000000))]
    = [0x81, 0xa1, 0x61, 0xcb, 0x3f, 0xf8, 0, 0, 0, 0, 0, 0] := by rfl
/-- `{"a": [int64 1, "x", []], "m": {}}` -/
example : encDocBytes [([0x61], .arr [.num (.int 1), .str [0x78], .arr []]), ([0x6d], .obj [])]
    = [0x82, 0xa1, 0x61, 0x93, 0xd3, 0, 0, 0, 0, 0, 0, 0, 1, 0xa1, 0x78, 0x90, 0xa1, 0x6d, 0x80] := by
  rfl
/-- a UTC time: ext8, 15 bytes, id 1, version 1, zone marker -1 -/
example : encDocBytes [([0x74], .time 1500000000123456789 0)]
    = [0x81, 0xa1, 0x74, 0xc7, 0x0f, 0x01, 0x01, 0, 0, 0, 0x0e, 0xd0, 0xfa, 0x26, 0x00,
       0x07, 0x5b, 0xcd, 0x15, 0xff, 0xff] := by rfl
/-- offset +1h0m30s: version 2 has 16 bytes, so the header is FIXEXT16 -/
example : encDocBytes [([0x74], .time 1500000000123456789 3630)]
    = [0x81, 0xa1, 0x74, 0xd8, 0x01, 0x02, 0, 0, 0, 0x0e, 0xd0, 0xfa, 0x26, 0x00,
       0x07, 0x5b, 0xcd, 0x15, 0x00, 0x3c, 0x1e] := by rfl
/-- a negative instant, offset -1h -/
example : encDocBytes [([0x74], .time (-1) (-3600))]
    = [0x81, 0xa1, 0x74, 0xc7, 0x0f, 0x01, 0x01, 0, 0, 0, 0x0e, 0x77, 0x91, 0xf6, 0xff,
       0x3b, 0x9a, 0xc9, 0xff, 0xff, 0xc4] := by rfl
/-- decoding: the int64 stays an int64 (through the round-trip theorem) -/
example : decDocBytes [0x81, 0xa1, 0x61, 0xd3, 0, 0, 0, 0, 0, 0, 0, 1] = some [([0x61], .num (.int 1))] := by
  rw [show ([0x81, 0xa1, 0x61, 0xd3, 0, 0, 0, 0, 0, 0, 0, 1] : Bytes)
    = encDocBytes [([0x61], .num (.int 1))] from rfl]
  refine decDoc_encDoc _ ?_ ⟨List.pairwise_singleton _ _, ?_⟩
  · simp [encodeDoc, toWireKV, toWire, WireOK, WireOKKV, NumOK]
  · simp [ValSortedKV, ValSorted]
/-- trailing bytes are ignored by `Unmarshal`; the strict variant rejects them -/
example : decDocBytes [0x81, 0xa1, 0x61, 0xc3, 0xff] = some [([0x61], .bool true)] := by rfl
example : decDocBytesStrict [0x81, 0xa1, 0x61, 0xc3, 0xff] = none := by rfl
/-- duplicate key: the last entry wins; entries come back sorted -/
example : decDocBytes [0x83, 0xa1, 0x62, 0xc0, 0xa1, 0x61, 0xc3, 0xa1, 0x61, 0xc2]
    = some [([0x61], .bool false), ([0x62], .null)] := by rfl
/-- the repaired `MarshalMsgpack`: a negative offset with a seconds component comes back as written
    (minutes rounded down, seconds 1..59: -3630 s = -61 min + 30 s = `ff c3 1e`; -90 s = -2 min +
    30 s = `ff fe 1e`; bytes checked against Go) -/
example : gobTime 1500000000123456789 (-3630)
    = [2, 0, 0, 0, 0x0e, 0xd0, 0xfa, 0x26, 0x00, 0x07, 0x5b, 0xcd, 0x15, 0xff, 0xc3, 0x1e] := by decide
example : gobDecode (gobTime 1500000000123456789 (-3630)) = some (1500000000123456789, -3630) := by
  decide
example : gobDecode (gobTime 1500000000123456789 (-90)) = some (1500000000123456789, -90) := by
  decide
/-- why clover does NOT use `time.MarshalBinary` there: in the STANDARD layout -3630 s is written as
    minutes -60, seconds int8(-30) = 0xe2, and `UnmarshalBinary` reads it back as -3600 + 226
    (Go 1.23.5 agrees: `ff c4 e2` comes back as offset -3374) -/
example : gobDecode (gobTimeStd 1500000000123456789 (-3630)) = some (1500000000123456789, -3374) := by
  decide
/-- `MarshalBinary` has no encoding at all for an offset of -1 minute (the UTC marker), so `Encode`
    FAILS in Go for -60 s; the model's bytes (`ff ff`) are meaningless there and read back as UTC:
    the one offset excluded by `TimeOK` -/
example : gobDecode (gobTime 0 (-60)) = some (0, 0) := by decide
/-- the other offsets are unchanged by the repair -/
example : gobTime 7 3630 = gobTimeStd 7 3630 ∧ gobTime 7 (-3600) = gobTimeStd 7 (-3600) ∧
    gobTime 7 0 = gobTimeStd 7 0 := by decide
/-- Go's truncating division agrees with `Int.tdiv` / `Int.tmod` -/
example : goDiv (-3630) 60 = Int.tdiv (-3630) 60 ∧ goMod (-3630) 60 = Int.tmod (-3630) 60 := by decide

end CV.Msgpack
