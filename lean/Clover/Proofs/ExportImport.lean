import Clover.Proofs.RefineStep
import Clover.Proofs.JsonTyping
/-! # C19 — exporting a collection and importing the file under a new name reproduces it

Specification level (§1), lifted to the model through `refine_step` (§2), and the corollaries in the
property's own words (§3): the copy has the same number of documents, the same `_id`s in the same
order, every document is the JSON typing of the source document (same field set), and no index. -/
namespace CV
open OC Keys

variable (likeFn : LikeFn) (fnFam : FnFam)

/-! ## 0. sorted association lists: inserting above every key appends -/

theorem Spec.insert_append_of_gt {α} (k : Bytes) (v : α) : (l : List (Bytes × α)) →
    (∀ q ∈ l, lexLt q.1 k = true) → Spec.insert k v l = l ++ [(k, v)]
  | [], _ => rfl
  | (k2, v2) :: t, h => by
    have h2 : lexLt k2 k = true := h (k2, v2) (by simp)
    have h1 : lexLt k k2 = false := lexLt_asymm' _ _ h2
    have hne : k ≠ k2 := fun e => lexLt_ne _ _ h2 e.symm
    simp only [Spec.insert, h1, Bool.false_eq_true, if_false, hne, List.cons_append]
    rw [Spec.insert_append_of_gt k v t (fun q hq => h q (List.mem_cons_of_mem _ hq))]

theorem Spec.lookup_none_of_gt {α} (k : Bytes) : (l : List (Bytes × α)) →
    (∀ q ∈ l, lexLt q.1 k = true) → Spec.lookup k l = none
  | [], _ => rfl
  | (k2, v2) :: t, h => by
    have h2 : lexLt k2 k = true := h (k2, v2) (by simp)
    have hne : k ≠ k2 := fun e => lexLt_ne _ _ h2 e.symm
    simp only [Spec.lookup, hne, if_false]
    exact Spec.lookup_none_of_gt k t (fun q hq => h q (List.mem_cons_of_mem _ hq))

/-- inserting, in ascending id order, documents that carry their id and pass `Validate` appends them -/
theorem Spec.insertAll_ascending (g : Doc → Doc) : (ds acc : List (Bytes × Doc)) →
    (acc.map (·.1) ++ ds.map (·.1)).Pairwise (fun a b => lexLt a b = true) →
    (∀ e ∈ ds, validDoc (g e.2) = true ∧ (g e.2).objectId = e.1) →
    Spec.insertAll acc (ds.map (fun e => g e.2)) = .ok (acc ++ ds.map (fun e => (e.1, g e.2)))
  | [], acc, _, _ => by simp [Spec.insertAll]
  | e :: t, acc, hs, hv => by
    obtain ⟨hval, hid⟩ := hv e (by simp)
    have hgt : ∀ q ∈ acc, lexLt q.1 e.1 = true := by
      intro q hq
      have := (List.pairwise_append.1 hs).2.2 q.1 (List.mem_map.2 ⟨q, hq, rfl⟩) e.1 (by simp)
      exact this
    have hlk : Spec.lookup e.1 acc = none := Spec.lookup_none_of_gt e.1 acc hgt
    have hins : Spec.insert e.1 (g e.2) acc = acc ++ [(e.1, g e.2)] := Spec.insert_append_of_gt _ _ acc hgt
    have hs' : ((acc ++ [(e.1, g e.2)]).map (·.1) ++ t.map (·.1)).Pairwise (fun a b => lexLt a b = true) := by
      simpa [List.map_append, List.append_assoc] using hs
    have ih := Spec.insertAll_ascending g t (acc ++ [(e.1, g e.2)]) hs'
      (fun e' he' => hv e' (List.mem_cons_of_mem _ he'))
    simp only [List.map_cons, Spec.insertAll, hid, hlk, Option.isSome_none, Bool.false_eq_true, if_false, hval,
      Bool.not_true, hins]
    rw [ih]
    simp [List.append_assoc]

/-! ## 1. `assignIds` leaves alone the documents that have an id -/

theorem id_of_objectId (d : Doc) (h : d.objectId ≠ []) :
    d.has idField = true ∧ ∃ b bs, d.get idField = .str (b :: bs) := by
  unfold Doc.objectId at h
  unfold Doc.has
  unfold Doc.get at h ⊢
  cases hg : getPath d (splitDots idField) with
  | none => rw [hg] at h; exact absurd rfl h
  | some v =>
    rw [hg] at h
    cases v with
    | str s =>
      cases s with
      | nil => exact absurd rfl h
      | cons b bs => exact ⟨rfl, b, bs, rfl⟩
    | _ => exact absurd rfl h

theorem assignIds_of_ids : (ds : List Doc) → (fresh : List Bytes) → (∀ d ∈ ds, d.objectId ≠ []) →
    assignIds ds fresh = ds
  | [], _, _ => rfl
  | d :: t, fresh, h => by
    obtain ⟨hh, b, bs, hg⟩ := id_of_objectId d (h d (by simp))
    have ih := assignIds_of_ids t fresh (fun d' hd' => h d' (List.mem_cons_of_mem _ hd'))
    simp only [assignIds, hh, hg, Bool.not_true, Bool.or_self, Bool.false_eq_true, if_false, ih]

theorem validDoc_objectId_ne (d : Doc) (h : validDoc d = true) : d.objectId ≠ [] := by
  have := (validDoc_idWF d h).1
  intro e
  rw [e] at this
  cases this

/-! ## 2. exportable documents -/

/-- a document that survives the trip through the exported file: after JSON typing it still passes
    `Validate` and still carries the same `_id` -/
def Exportable (d : Doc) : Prop := validDoc (jsonTypeDoc d) = true ∧ (jsonTypeDoc d).objectId = d.objectId

theorem has_expiresAt_jsonType (d : Doc) : (jsonTypeDoc d).has expiresAtField = d.has expiresAtField := by
  have hs : splitDots expiresAtField = [expiresAtField] := by decide
  unfold Doc.has jsonTypeDoc
  simp only [hs, getPath, JsonT.lookupKey_jsonType, Option.isSome_map]

/-- sufficient condition: a valid document (its `_id` is a canonical UUID string, which JSON typing
    keeps) without a top-level `_expiresAt` field (a time, which JSON typing would turn into text that
    `Validate` rejects) is exportable -/
theorem exportable_of_valid (d : Doc) (hv : validDoc d = true) (hne : d.has expiresAtField = false) :
    Exportable d := by
  obtain ⟨_, b, bs, hg⟩ := id_of_objectId d (validDoc_objectId_ne d hv)
  have hid : (jsonTypeDoc d).objectId = d.objectId := by
    apply JsonT.jsonType_objectId
    intro ns off hlk
    have hs : splitDots idField = [idField] := by decide
    unfold Doc.get at hg
    simp only [hs, getPath, hlk, Option.getD_some] at hg
    cases hg
  refine ⟨?_, hid⟩
  unfold validDoc at hv ⊢
  rw [hid, has_expiresAt_jsonType, hne]
  rw [hne] at hv
  simpa using hv

/-- … and for a valid document the condition is necessary too -/
theorem exportable_iff_of_valid (d : Doc) (hv : validDoc d = true) :
    Exportable d ↔ d.has expiresAtField = false := by
  refine ⟨?_, exportable_of_valid d hv⟩
  intro hex
  cases hh : d.has expiresAtField with
  | false => rfl
  | true =>
    exfalso
    have hs : splitDots expiresAtField = [expiresAtField] := by decide
    have hv1 := hv
    have hv2 := hex.1
    unfold validDoc at hv1 hv2
    rw [has_expiresAt_jsonType, hh] at hv2
    rw [hh] at hv1
    simp only [Bool.not_true, Bool.false_or, Bool.and_eq_true] at hv1 hv2
    have h1 := hv1.2
    have h2 := hv2.2
    unfold Doc.get jsonTypeDoc at h2
    unfold Doc.get at h1
    simp only [hs, getPath, JsonT.lookupKey_jsonType] at h1 h2
    cases hlk : lookupKey expiresAtField d with
    | none => rw [hlk] at h1; simp at h1
    | some v =>
      rw [hlk] at h1 h2
      cases v <;> simp [jsonType] at h1 h2

/-! ## 3. the specification: Export, then Import under a new name -/

/-- what Export writes: the JSON typing of every document, in id order -/
def exported (coll : Spec.Coll) : List Doc := coll.docs.map (fun e => jsonTypeDoc e.2)

/-- the copy Import builds: the same ids in the same order, every document JSON-typed, no index -/
def copyOf (coll : Spec.Coll) : Spec.Coll :=
  { indexes := [], docs := coll.docs.map (fun e => (e.1, jsonTypeDoc e.2)) }

/-- a query without criteria, order or window returns the documents in id order -/
theorem Spec.findAll_all (c : Bytes) (coll : Spec.Coll) :
    Spec.findAll likeFn fnFam { coll := c } coll = coll.docs.map (·.2) := by
  simp [Spec.findAll, satOpt, Spec.window]

theorem export_spec (s : Spec.State) (c : Bytes) (coll : Spec.Coll) (hl : Spec.lookup c s = some coll) :
    Spec.step likeFn fnFam s (.exportDocs c) = (.ok (.docs (exported coll)), s) := by
  simp only [Spec.step, Spec.withColl, hl, Spec.findAll_all, exported, List.map_map]
  rfl

/-- the core: inserting the exported documents of a well-formed collection into the empty
    collection rebuilds the collection, JSON-typed -/
theorem insertAll_exported (coll : Spec.Coll) (hcw : CollWF coll) (hex : ∀ e ∈ coll.docs, Exportable e.2) :
    Spec.insertAll [] (exported coll) = .ok (copyOf coll).docs := by
  have hs : (([] : List (Bytes × Doc)).map (·.1) ++ coll.docs.map (·.1)).Pairwise (fun a b => lexLt a b = true) := by
    simp only [List.map_nil, List.nil_append]
    exact List.pairwise_map.2 hcw.docsSorted
  have := Spec.insertAll_ascending jsonTypeDoc coll.docs [] hs
    (fun e he => ⟨(hex e he).1, by rw [(hex e he).2]; exact (hcw.idsWF e he).2⟩)
  simpa [exported, copyOf] using this

theorem assignIds_exported (coll : Spec.Coll) (hex : ∀ e ∈ coll.docs, Exportable e.2) (fresh : List Bytes) :
    assignIds (exported coll) fresh = exported coll := by
  apply assignIds_of_ids
  intro d hd
  obtain ⟨e, he, rfl⟩ := List.mem_map.1 hd
  exact validDoc_objectId_ne _ (hex e he).1

theorem import_spec (s : Spec.State) (c' : Bytes) (coll : Spec.Coll) (hcw : CollWF coll)
    (hnew : Spec.lookup c' s = none) (hex : ∀ e ∈ coll.docs, Exportable e.2) (fresh : List Bytes) :
    Spec.step likeFn fnFam s (.importDocs c' (some (exported coll)) fresh) =
      (.ok .unit, Spec.insert c' (copyOf coll) s) := by
  simp only [Spec.step, Spec.createWith, hnew, Option.isSome_none, Bool.false_eq_true, if_false,
    assignIds_exported coll hex fresh, insertAll_exported coll hcw hex]
  rfl

/-- **C19 on the specification**: exporting `c` and importing the file under the new name `c'`
    leaves `c` as it was and binds `c'` to the JSON-typed, index-free copy -/
theorem export_import_spec (s : Spec.State) (hw : WF s) (c c' : Bytes) (coll : Spec.Coll)
    (hl : Spec.lookup c s = some coll) (hnew : Spec.lookup c' s = none)
    (hex : ∀ e ∈ coll.docs, Exportable e.2) (fresh : List Bytes) :
    Spec.step likeFn fnFam s (.exportDocs c) = (.ok (.docs (exported coll)), s) ∧
    Spec.step likeFn fnFam s (.importDocs c' (some (exported coll)) fresh) =
      (.ok .unit, Spec.insert c' (copyOf coll) s) :=
  ⟨export_spec likeFn fnFam s c coll hl,
   import_spec likeFn fnFam s c' coll (wf_lookup_clean s hw c coll hl).2 hnew hex fresh⟩

/-! ## 4. the model: a fault-free Export followed by a fault-free Import of what was exported -/

/-- Export on a handle: answers the specification's file and leaves the handle as it was -/
theorem export_run (s : Spec.State) (σ : DBState) (hcl : σ.closed = false) (hw : WF s) (hr : Rep s σ.kv)
    (c : Bytes) (coll : Spec.Coll) (hl : Spec.lookup c s = some coll) :
    let r := (Op.exportDocs c).run likeFn fnFam σ noFault
    r.out = .ok (.docs (exported coll)) ∧ r.state = σ := by
  simp only
  have h := refine_step likeFn fnFam (.exportDocs c) trivial s σ hcl hw hr trivial
  simp only [export_spec likeFn fnFam s c coll hl] at h
  refine ⟨h.1, ?_⟩
  unfold Op.run
  rw [if_neg (by rw [hcl]; exact Bool.false_ne_true)]
  show ({ σ with kv := ((Op.exportDocs c).exec likeFn fnFam σ.kv noFault).2.1 } : DBState) = σ
  rw [JsonT.export_pure]

/-- **C19 on the model**: from a store representing `s`, a fault-free Export of `c` answers the
    JSON typing of its documents and leaves the store unchanged; a fault-free Import of that file
    under the new name `c'` succeeds and yields a store representing `s` plus the copy -/
theorem export_import_refines (s : Spec.State) (σ : DBState) (hcl : σ.closed = false) (hw : WF s)
    (hr : Rep s σ.kv) (c c' : Bytes) (coll : Spec.Coll) (hl : Spec.lookup c s = some coll)
    (hnew : Spec.lookup c' s = none) (hc' : Clean c') (hex : ∀ e ∈ coll.docs, Exportable e.2)
    (fresh : List Bytes) :
    let r1 := (Op.exportDocs c).run likeFn fnFam σ noFault
    let r2 := (Op.importDocs c' (some (exported coll)) fresh).run likeFn fnFam r1.state noFault
    let s' := Spec.insert c' (copyOf coll) s
    r1.out = .ok (.docs (exported coll)) ∧ r1.state = σ ∧
    r2.out = .ok .unit ∧ Rep s' r2.state.kv ∧ WF s' ∧ r2.state.closed = false := by
  simp only
  obtain ⟨ho, hst⟩ := export_run likeFn fnFam s σ hcl hw hr c coll hl
  refine ⟨ho, hst, ?_⟩
  rw [hst]
  have h := refine_step likeFn fnFam (.importDocs c' (some (exported coll)) fresh) hc' s σ hcl hw hr trivial
  simp only [(export_import_spec likeFn fnFam s hw c c' coll hl hnew hex fresh).2] at h
  exact h

/-- the same with the file taken from Export's answer rather than named -/
theorem export_then_import (s : Spec.State) (σ : DBState) (hcl : σ.closed = false) (hw : WF s)
    (hr : Rep s σ.kv) (c c' : Bytes) (coll : Spec.Coll) (hl : Spec.lookup c s = some coll)
    (hnew : Spec.lookup c' s = none) (hc' : Clean c') (hex : ∀ e ∈ coll.docs, Exportable e.2)
    (fresh : List Bytes) :
    ∃ file, ((Op.exportDocs c).run likeFn fnFam σ noFault).out = .ok (.docs file) ∧
      ((Op.exportDocs c).run likeFn fnFam σ noFault).state = σ ∧
      let r2 := (Op.importDocs c' (some file) fresh).run likeFn fnFam σ noFault
      r2.out = .ok .unit ∧ Rep (Spec.insert c' (copyOf coll) s) r2.state.kv ∧
        WF (Spec.insert c' (copyOf coll) s) := by
  have h := export_import_refines likeFn fnFam s σ hcl hw hr c c' coll hl hnew hc' hex fresh
  simp only at h
  obtain ⟨h1, h2, h3, h4, h5, _⟩ := h
  rw [h2] at h3 h4
  exact ⟨exported coll, h1, h2, h3, h4, h5⟩

/-! ## 5. the property's words: what the copy looks like -/

theorem copyOf_length (coll : Spec.Coll) : (copyOf coll).docs.length = coll.docs.length := by
  simp [copyOf]

/-- the same `_id`s, in the same order -/
theorem copyOf_ids (coll : Spec.Coll) : (copyOf coll).docs.map (·.1) = coll.docs.map (·.1) := by
  simp [copyOf, List.map_map, Function.comp_def]

/-- document by document: the copy of `id` is the JSON typing of the source document `id` -/
theorem copyOf_lookup (coll : Spec.Coll) (id : Bytes) :
    Spec.lookup id (copyOf coll).docs = (Spec.lookup id coll.docs).map jsonTypeDoc := by
  unfold copyOf
  simp only
  induction coll.docs with
  | nil => rfl
  | cons e t ih =>
    simp only [List.map_cons, Spec.lookup]
    by_cases h : id = e.1
    · rw [if_pos h, if_pos h]; rfl
    · rw [if_neg h, if_neg h]; exact ih

/-- … hence the same field set (and, level by level, the same shape) -/
theorem copyOf_fields (coll : Spec.Coll) (id : Bytes) (d : Doc) (h : Spec.lookup id coll.docs = some d) :
    ∃ d', Spec.lookup id (copyOf coll).docs = some d' ∧ d'.map (·.1) = d.map (·.1) ∧ d' = jsonTypeDoc d := by
  refine ⟨jsonTypeDoc d, ?_, JsonT.jsonType_keys d, rfl⟩
  rw [copyOf_lookup, h]
  rfl

theorem copyOf_indexes (coll : Spec.Coll) : (copyOf coll).indexes = [] := rfl

/-- `FindAll` of the whole copy is the JSON typing of `FindAll` of the whole source -/
theorem findAll_copy (c c' : Bytes) (coll : Spec.Coll) :
    Spec.findAll likeFn fnFam { coll := c' } (copyOf coll) =
      (Spec.findAll likeFn fnFam { coll := c } coll).map jsonTypeDoc := by
  rw [Spec.findAll_all, Spec.findAll_all]
  simp [copyOf, List.map_map, Function.comp_def]

/-- `Count` agrees -/
theorem count_copy (c c' : Bytes) (coll : Spec.Coll) :
    (Spec.findAll likeFn fnFam { coll := c' } (copyOf coll)).length =
      (Spec.findAll likeFn fnFam { coll := c } coll).length := by
  rw [findAll_copy likeFn fnFam c c' coll, List.length_map]

/-! ### the same corollaries as calls: on the specification state, and on any handle representing it -/

theorem lookup_copy (s : Spec.State) (c' : Bytes) (coll : Spec.Coll) :
    Spec.lookup c' (Spec.insert c' (copyOf coll) s) = some (copyOf coll) := by
  rw [Spec.lookup_insert', if_pos rfl]

/-- the source collection is still there, untouched -/
theorem lookup_source (s : Spec.State) (c c' : Bytes) (coll : Spec.Coll) (hl : Spec.lookup c s = some coll)
    (hnew : Spec.lookup c' s = none) : Spec.lookup c (Spec.insert c' (copyOf coll) s) = some coll := by
  have hne : c ≠ c' := by
    intro e
    rw [e, hnew] at hl
    cases hl
  rw [Spec.lookup_insert', if_neg hne, hl]

theorem findAll_copy_step (s : Spec.State) (c c' : Bytes) (coll : Spec.Coll) :
    Spec.step likeFn fnFam (Spec.insert c' (copyOf coll) s) (.findAll { coll := c' }) =
      (.ok (.docs ((Spec.findAll likeFn fnFam { coll := c } coll).map jsonTypeDoc)),
        Spec.insert c' (copyOf coll) s) := by
  simp only [Spec.step, Spec.withColl, lookup_copy, findAll_copy likeFn fnFam c c' coll]

theorem count_copy_step (s : Spec.State) (c c' : Bytes) (coll : Spec.Coll) :
    Spec.step likeFn fnFam (Spec.insert c' (copyOf coll) s) (.count { coll := c' }) =
      (.ok (.int (Spec.findAll likeFn fnFam { coll := c } coll).length), Spec.insert c' (copyOf coll) s) := by
  simp only [Spec.step, Spec.withColl, lookup_copy, count_copy likeFn fnFam c c' coll]

/-- on any open handle whose store represents the state after the import, `FindAll` of the copy
    answers the JSON typing of what `FindAll` of the source answers, and `Count` the same number -/
theorem findAll_copy_run (s : Spec.State) (σ : DBState) (hcl : σ.closed = false) (c c' : Bytes) (coll : Spec.Coll)
    (hw : WF (Spec.insert c' (copyOf coll) s)) (hr : Rep (Spec.insert c' (copyOf coll) s) σ.kv)
    (hl : Spec.lookup c s = some coll) (hnew : Spec.lookup c' s = none) :
    ((Op.findAll { coll := c }).run likeFn fnFam σ noFault).out =
      .ok (.docs (Spec.findAll likeFn fnFam { coll := c } coll)) ∧
    ((Op.findAll { coll := c' }).run likeFn fnFam σ noFault).out =
      .ok (.docs ((Spec.findAll likeFn fnFam { coll := c } coll).map jsonTypeDoc)) ∧
    ((Op.count { coll := c }).run likeFn fnFam σ noFault).out = .ok (.int coll.docs.length) ∧
    ((Op.count { coll := c' }).run likeFn fnFam σ noFault).out = .ok (.int coll.docs.length) := by
  have hdet : ∀ q : Query, q.crit = none → q.sort = [] → FullPlan (Spec.insert c' (copyOf coll) s) q :=
    fun q h1 h2 cl _ => choosePlan_nocrit cl.indexes q h1 h2
  have hlen : (Spec.findAll likeFn fnFam { coll := c } coll).length = coll.docs.length := by
    rw [Spec.findAll_all, List.length_map]
  have hsrc := lookup_source s c c' coll hl hnew
  have f1 := (refine_step likeFn fnFam (.findAll { coll := c }) trivial _ σ hcl hw hr (hdet _ rfl rfl)).1
  have f2 := (refine_step likeFn fnFam (.findAll { coll := c' }) trivial _ σ hcl hw hr (hdet _ rfl rfl)).1
  have f3 := (refine_step likeFn fnFam (.count { coll := c }) trivial _ σ hcl hw hr (hdet _ rfl rfl)).1
  have f4 := (refine_step likeFn fnFam (.count { coll := c' }) trivial _ σ hcl hw hr (hdet _ rfl rfl)).1
  rw [findAll_copy_step] at f2
  rw [count_copy_step likeFn fnFam s c c' coll, hlen] at f4
  simp only [Spec.step, Spec.withColl, hsrc] at f1
  simp only [Spec.step, Spec.withColl, hsrc, hlen] at f3
  exact ⟨f1, f2, f3, f4⟩

/-- **C19, end to end on the model**: after a fault-free Export of `c` and Import of the file as
    `c'`, `FindAll` of `c'` answers the JSON typing of what `FindAll` of `c` answers (same documents,
    same order) and both collections count the same number of documents -/
theorem export_import_findAll (s : Spec.State) (σ : DBState) (hcl : σ.closed = false) (hw : WF s)
    (hr : Rep s σ.kv) (c c' : Bytes) (coll : Spec.Coll) (hl : Spec.lookup c s = some coll)
    (hnew : Spec.lookup c' s = none) (hc' : Clean c') (hex : ∀ e ∈ coll.docs, Exportable e.2)
    (fresh : List Bytes) :
    let r1 := (Op.exportDocs c).run likeFn fnFam σ noFault
    let σ2 := ((Op.importDocs c' (some (exported coll)) fresh).run likeFn fnFam r1.state noFault).state
    ((Op.findAll { coll := c }).run likeFn fnFam σ2 noFault).out =
      .ok (.docs (Spec.findAll likeFn fnFam { coll := c } coll)) ∧
    ((Op.findAll { coll := c' }).run likeFn fnFam σ2 noFault).out =
      .ok (.docs ((Spec.findAll likeFn fnFam { coll := c } coll).map jsonTypeDoc)) ∧
    ((Op.count { coll := c }).run likeFn fnFam σ2 noFault).out = .ok (.int coll.docs.length) ∧
    ((Op.count { coll := c' }).run likeFn fnFam σ2 noFault).out = .ok (.int coll.docs.length) := by
  have h := export_import_refines likeFn fnFam s σ hcl hw hr c c' coll hl hnew hc' hex fresh
  simp only at h ⊢
  obtain ⟨_, _, _, h4, h5, h6⟩ := h
  exact findAll_copy_run likeFn fnFam s _ h6 c c' coll h5 h4 hl hnew

end CV
