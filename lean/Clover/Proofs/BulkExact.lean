import Clover.Proofs.ReadsExact
import Clover.Proofs.RefineBulkAny
/-! # Index transparency of bulk writes, and the specification's frame property

1. The apply phase of the specification (`Spec.applyAll`) does not depend on the order of the
   selection: it succeeds iff every selected document's update is acceptable, and the resulting
   documents are determined pointwise.
2. Hence, with any set of indexes and whichever plan the planner picks, `Update(q, u)` / `Delete(q)`
   for a query without skip/limit leave the database the specification's step leaves (C02, C03).
3. A step of the specification changes only the collection the operation targets (C13). -/
namespace CV
open OC Keys StoreM

/-! ## 0. extensionality of sorted association lists -/

namespace Spec

theorem lookup_head {α} (k : Bytes) (v : α) (t : List (Bytes × α)) : lookup k ((k, v) :: t) = some v := by
  simp only [lookup, if_true]

/-- two sorted association lists with the same lookups are equal -/
theorem ext {α} : (a b : List (Bytes × α)) → KeysSorted a → KeysSorted b →
    (∀ k, lookup k a = lookup k b) → a = b
  | [], [], _, _, _ => rfl
  | [], (k2, v2) :: tb, _, _, h => by
    have := h k2
    rw [lookup_head] at this
    simp only [lookup] at this
    cases this
  | (k1, v1) :: ta, [], _, _, h => by
    have := h k1
    rw [lookup_head] at this
    simp only [lookup] at this
    cases this
  | (k1, v1) :: ta, (k2, v2) :: tb, ha, hb, h => by
    have ha' := List.pairwise_cons.1 ha
    have hb' := List.pairwise_cons.1 hb
    have hk : k1 = k2 := by
      by_cases e : k1 = k2
      · exact e
      · exfalso
        rcases lexLt_total k1 k2 e with hlt | hlt
        · have h1 := h k1
          rw [lookup_head] at h1
          have h2 : lookup k1 ((k2, v2) :: tb) = none := by
            apply lookup_none_of_lt
            intro p hp
            rcases List.mem_cons.1 hp with e1 | e1
            · rw [e1]; exact hlt
            · exact lexLt_trans _ _ _ hlt (hb'.1 p e1)
          rw [h2] at h1
          cases h1
        · have h1 := h k2
          rw [lookup_head] at h1
          have h2 : lookup k2 ((k1, v1) :: ta) = none := by
            apply lookup_none_of_lt
            intro p hp
            rcases List.mem_cons.1 hp with e1 | e1
            · rw [e1]; exact hlt
            · exact lexLt_trans _ _ _ hlt (ha'.1 p e1)
          rw [h2] at h1
          cases h1
    subst hk
    have hv : v1 = v2 := by
      have h1 := h k1
      rw [lookup_head, lookup_head] at h1
      cases h1
      rfl
    subst hv
    have ht : ta = tb := by
      apply ext ta tb ha'.2 hb'.2
      intro k
      by_cases e : k = k1
      · subst e
        rw [lookup_none_of_lt k ta ha'.1, lookup_none_of_lt k tb hb'.1]
      · have h1 := h k
        simp only [lookup, e, if_false] at h1
        exact h1
    rw [ht]

end Spec

/-! ## 1. the specification's apply phase does not depend on the order of the selection -/

/-- the update of a selected document is acceptable: the updater deletes it, or the result keeps
    the id and is valid -/
def Acceptable (u : Upd) (d : Doc) : Prop :=
  ∀ d', u.apply d = some d' → d'.objectId = d.objectId ∧ validDoc d' = true

/-- the apply phase succeeds iff every selected document's update is acceptable (whatever the
    documents of the collection) -/
theorem applyAll_ok_iff (u : Upd) : (sel : List Doc) → (docs : List (Bytes × Doc)) →
    ((∃ r, Spec.applyAll u docs sel = .ok r) ↔ ∀ d ∈ sel, Acceptable u d)
  | [], docs => by
    simp only [Spec.applyAll]
    exact ⟨fun _ d hd => (nomatch hd), fun _ => ⟨docs, rfl⟩⟩
  | d :: ds, docs => by
    simp only [Spec.applyAll]
    cases hu : u.apply d with
    | none =>
      dsimp only
      rw [applyAll_ok_iff u ds]
      constructor
      · intro h x hx
        rcases List.mem_cons.1 hx with e | e
        · rw [e]
          intro d' hd'
          rw [hu] at hd'
          cases hd'
        · exact h x e
      · intro h x hx
        exact h x (List.mem_cons_of_mem _ hx)
    | some d' =>
      dsimp only
      by_cases h1 : d'.objectId ≠ d.objectId
      · rw [if_pos h1]
        constructor
        · rintro ⟨r, hr⟩
          cases hr
        · intro h
          exact absurd (h d (List.mem_cons_self ..) d' hu).1 h1
      · rw [if_neg h1]
        by_cases h2 : (!validDoc d') = true
        · rw [if_pos h2]
          constructor
          · rintro ⟨r, hr⟩
            cases hr
          · intro h
            have := (h d (List.mem_cons_self ..) d' hu).2
            rw [this] at h2
            cases h2
        · rw [if_neg h2, applyAll_ok_iff u ds]
          constructor
          · intro h x hx
            rcases List.mem_cons.1 hx with e | e
            · rw [e]
              intro d2 hd2
              rw [hu] at hd2
              cases hd2
              refine ⟨Classical.not_not.1 h1, ?_⟩
              cases hv : validDoc d' with
              | true => rfl
              | false => rw [hv] at h2; exact absurd rfl h2
            · exact h x e
          · intro h x hx
            exact h x (List.mem_cons_of_mem _ hx)

theorem isErr_false_iff {α} (r : Res α) : r.isErr = false ↔ ∃ a, r = .ok a := by
  cases r with
  | ok a => exact ⟨fun _ => ⟨a, rfl⟩, fun _ => rfl⟩
  | err e => exact ⟨fun h => (nomatch h), fun ⟨a, h⟩ => (nomatch h)⟩

/-- **1 (a)**: the apply phase succeeds on a selection iff it succeeds on any permutation of it -/
theorem applyAll_ok_perm (u : Upd) (docs : List (Bytes × Doc)) (sel sel' : List Doc) (hp : sel.Perm sel') :
    (∃ r, Spec.applyAll u docs sel = .ok r) ↔ (∃ r, Spec.applyAll u docs sel' = .ok r) := by
  rw [applyAll_ok_iff, applyAll_ok_iff]
  exact ⟨fun h d hd => h d (hp.mem_iff.2 hd), fun h d hd => h d (hp.mem_iff.1 hd)⟩

theorem applyAll_isErr_perm (u : Upd) (docs : List (Bytes × Doc)) (sel sel' : List Doc) (hp : sel.Perm sel') :
    (Spec.applyAll u docs sel).isErr = (Spec.applyAll u docs sel').isErr := by
  have h := applyAll_ok_perm u docs sel sel' hp
  rw [← isErr_false_iff, ← isErr_false_iff] at h
  cases h1 : (Spec.applyAll u docs sel).isErr with
  | false => exact (h.1 h1).symm
  | true =>
    cases h2 : (Spec.applyAll u docs sel').isErr with
    | true => rfl
    | false => rw [h.2 h2] at h1; cases h1

/-- one step of a successful apply phase: the documents after the first selected document -/
theorem applyAll_cons_ok (u : Upd) (d : Doc) (ds : List Doc) (docs docs' : List (Bytes × Doc))
    (h : Spec.applyAll u docs (d :: ds) = .ok docs') :
    ∃ mid, Spec.applyAll u mid ds = .ok docs' ∧ (Spec.KeysSorted docs → Spec.KeysSorted mid) ∧
      (Spec.KeysSorted docs → ∀ id, Spec.lookup id mid = if id = d.objectId then u.apply d else Spec.lookup id docs) := by
  simp only [Spec.applyAll] at h
  cases hu : u.apply d with
  | none =>
    rw [hu] at h
    dsimp only at h
    exact ⟨_, h, Spec.keysSorted_erase _ _, fun hs id => Spec.lookup_erase' _ _ _ hs⟩
  | some d' =>
    rw [hu] at h
    dsimp only at h
    by_cases h1 : d'.objectId ≠ d.objectId
    · rw [if_pos h1] at h
      cases h
    · rw [if_neg h1] at h
      by_cases h2 : (!validDoc d') = true
      · rw [if_pos h2] at h
        cases h
      · rw [if_neg h2] at h
        exact ⟨_, h, Spec.keysSorted_insert _ _ _, fun _ id => Spec.lookup_insert' _ _ _ _⟩

theorem applyAll_sorted (u : Upd) : (sel : List Doc) → (docs docs' : List (Bytes × Doc)) →
    Spec.KeysSorted docs → Spec.applyAll u docs sel = .ok docs' → Spec.KeysSorted docs'
  | [], docs, docs', hs, h => by
    simp only [Spec.applyAll] at h
    cases h
    exact hs
  | d :: ds, docs, docs', hs, h => by
    obtain ⟨mid, hm, hsm, _⟩ := applyAll_cons_ok u d ds docs docs' h
    exact applyAll_sorted u ds mid docs' (hsm hs) hm

/-- a successful apply phase leaves the documents that are not selected as they were -/
theorem applyAll_lookup_other (u : Upd) : (sel : List Doc) → (docs docs' : List (Bytes × Doc)) →
    Spec.KeysSorted docs → Spec.applyAll u docs sel = .ok docs' →
    ∀ id, (∀ d ∈ sel, d.objectId ≠ id) → Spec.lookup id docs' = Spec.lookup id docs
  | [], docs, docs', _, h, id, _ => by
    simp only [Spec.applyAll] at h
    cases h
    rfl
  | d :: ds, docs, docs', hs, h, id, hne => by
    obtain ⟨mid, hm, hsm, hlk⟩ := applyAll_cons_ok u d ds docs docs' h
    rw [applyAll_lookup_other u ds mid docs' (hsm hs) hm id (fun x hx => hne x (List.mem_cons_of_mem _ hx)),
      hlk hs id, if_neg (fun e => hne d (List.mem_cons_self ..) e.symm)]

/-- a successful apply phase binds the id of every selected document to the updater's result -/
theorem applyAll_lookup_sel (u : Upd) : (sel : List Doc) → (docs docs' : List (Bytes × Doc)) →
    Spec.KeysSorted docs → (sel.map Doc.objectId).Nodup → Spec.applyAll u docs sel = .ok docs' →
    ∀ d ∈ sel, Spec.lookup d.objectId docs' = u.apply d
  | [], _, _, _, _, _, d, hd => by cases hd
  | d :: ds, docs, docs', hs, hnd, h, x, hx => by
    obtain ⟨mid, hm, hsm, hlk⟩ := applyAll_cons_ok u d ds docs docs' h
    simp only [List.map, List.nodup_cons] at hnd
    rcases List.mem_cons.1 hx with e | e
    · rw [e, applyAll_lookup_other u ds mid docs' (hsm hs) hm d.objectId
        (fun y hy e2 => hnd.1 (e2 ▸ List.mem_map.2 ⟨y, hy, rfl⟩)), hlk hs, if_pos rfl]
    · exact applyAll_lookup_sel u ds mid docs' (hsm hs) hnd.2 hm x e

/-- **1 (b)**: on permuted selections of live documents with distinct ids the apply phase leaves
    the same documents -/
theorem applyAll_perm_eq (u : Upd) (docs : List (Bytes × Doc)) (hs : Spec.KeysSorted docs) (sel sel' : List Doc)
    (hl : Live docs sel) (hl' : Live docs sel') (hp : sel.Perm sel') (docs₁ docs₂ : List (Bytes × Doc))
    (h1 : Spec.applyAll u docs sel = .ok docs₁) (h2 : Spec.applyAll u docs sel' = .ok docs₂) : docs₁ = docs₂ := by
  apply Spec.ext docs₁ docs₂ (applyAll_sorted u sel docs docs₁ hs h1) (applyAll_sorted u sel' docs docs₂ hs h2)
  intro k
  by_cases hk : ∃ d ∈ sel, d.objectId = k
  · obtain ⟨d, hd, e⟩ := hk
    rw [← e, applyAll_lookup_sel u sel docs docs₁ hs hl.2 h1 d hd,
      applyAll_lookup_sel u sel' docs docs₂ hs hl'.2 h2 d (hp.mem_iff.1 hd)]
  · rw [applyAll_lookup_other u sel docs docs₁ hs h1 k (fun d hd e => hk ⟨d, hd, e⟩),
      applyAll_lookup_other u sel' docs docs₂ hs h2 k (fun d hd e => hk ⟨d, hp.mem_iff.2 hd, e⟩)]

/-! ## 2. `Update` / `Delete` with any set of indexes, whichever plan is chosen -/

variable (likeFn : LikeFn) (fnFam : FnFam)

/-- `replaceDocs_run_any` with the selection named: it is `selectionOf` -/
theorem replaceDocs_run_sel (s : Spec.State) (ctx : Ctx) (hw : WF s) (hr : Rep s ctx.work) (q : Query) (u : Upd)
    (coll : Spec.Coll) (hl : Spec.lookup q.coll s = some coll) :
    match Spec.applyAll u coll.docs (selectionOf likeFn fnFam ctx.work q coll) with
    | .ok docs' => ∃ c', (replaceDocs likeFn fnFam q u) noFault ctx =
          (.ok (selectionOf likeFn fnFam ctx.work q coll), c') ∧
        c'.fired = ctx.fired ∧ c'.skipCommit = ctx.skipCommit ∧ KSorted c'.work ∧
        (∀ k, ¬ Owns q.coll k → kvGet c'.work k = kvGet ctx.work k) ∧
        (∀ k v, Owns q.coll k → (kvGet c'.work k = some v ↔ HoldsC q.coll ⟨coll.indexes, docs'⟩ k v)) ∧
        Spec.KeysSorted docs' ∧ IdsWF docs'
    | .err e => ∃ c', (replaceDocs likeFn fnFam q u) noFault ctx = (.err e, c') := by
  obtain ⟨hc, hcw⟩ := wf_lookup_clean s hw q.coll coll hl
  have hm : kvGet ctx.work (metaKey q.coll) = some (.cmeta ⟨coll.docs.length, coll.indexes⟩) := by
    rw [rep_meta s ctx.work hr q.coll, hl]; rfl
  obtain ⟨c1, h1, s1⟩ := getMeta_run q.coll _ ctx hm
  have hw1 : c1.work = ctx.work := s1.1
  have hr1 : Rep s c1.work := by rw [hw1]; exact hr
  obtain ⟨c2, h2, s2⟩ := iterateDocs_run likeFn fnFam s c1 hw hr1 q none coll hl
  rw [hw1] at h2
  have hlive : Live coll.docs (selectionOf likeFn fnFam ctx.work q coll) :=
    selectionOf_live likeFn fnFam s ctx.work hw hr q coll hl
  have h2' : (iterateDocs likeFn fnFam q none) noFault c1 = (.ok (selectionOf likeFn fnFam ctx.work q coll), c2) := h2
  generalize selectionOf likeFn fnFam ctx.work q coll = sel at hlive h2' ⊢
  have hw2 : c2.work = ctx.work := s2.1.trans s1.1
  have hr2 : Rep s c2.work := by rw [hw2]; exact hr
  have hdata := rep_data s c2.work hw hr2 q.coll coll hl
  have hloop := applyLoop_run q.coll hc coll.indexes u sel coll.docs 0 c2 hr2.1 hdata
    hcw.docsSorted hcw.idsWF hlive
  have hpre : ∀ (r : Res (List Doc) × Ctx),
      (do let deleted ← applyLoop q.coll coll.indexes u 0 sel
          if deleted > 0 then saveMeta q.coll { size := (coll.docs.length : Int) - ↑deleted, indexes := coll.indexes }
          pure sel : StoreM (List Doc)) noFault c2 = r →
      (replaceDocs likeFn fnFam q u) noFault ctx = r := by
    intro r h
    unfold replaceDocs
    rw [bind_run _ _ _ c1 _ h1, bind_run _ _ _ c2 _ h2']
    exact h
  cases ha : Spec.applyAll u coll.docs sel with
  | err e =>
    rw [ha] at hloop
    obtain ⟨c3, h3⟩ := hloop
    exact ⟨c3, hpre _ (bind_run_err' _ _ _ _ _ h3)⟩
  | ok docs' =>
    rw [ha] at hloop
    obtain ⟨c3, h3, p1, p2, p3, p4, p5, p6, p7, p8⟩ := hloop
    dsimp only
    have hnometa : ∀ k, ¬ Owns q.coll k → ¬ OwnsD q.coll k := fun k hno ho => hno (ownsD_owns _ _ ho)
    by_cases hk : 0 + delCount u sel > 0
    · obtain ⟨c4, h4, e4⟩ := set_run' (metaKey q.coll)
        (.cmeta { size := (coll.docs.length : Int) - ↑(0 + delCount u sel), indexes := coll.indexes }) c3
      have hget : ∀ k, kvGet c4.work k = if k = metaKey q.coll then
          some (.cmeta { size := (coll.docs.length : Int) - ↑(0 + delCount u sel), indexes := coll.indexes })
          else kvGet c3.work k := by
        intro k; rw [e4.1, kvGet_kvSet _ _ _ _ p3]
      refine ⟨c4, hpre _ ?_, ?_, ?_, ?_, ?_, ?_, p7, p8⟩
      · rw [bind_run _ _ _ c3 _ h3, if_pos hk]
        simp only [saveMeta]
        rw [bind_run _ _ _ c4 _ h4]
        rfl
      · rw [e4.2.1, p1, s2.2.1, s1.2.1]
      · rw [e4.2.2, p2, s2.2.2, s1.2.2]
      · rw [e4.1]; exact ksorted_kvSet _ p3 _ _
      · intro k hno
        rw [hget k, if_neg (fun e => hno (Or.inl e)), p5 k (hnometa k hno), hw2]
      · apply owned_of_parts
        · rw [hget, if_pos rfl]
          have hsz : (coll.docs.length : Int) - ↑(0 + delCount u sel) = (docs'.length : Int) := by
            omega
          rw [hsz]
        · exact dataRep_frame q.coll coll.indexes docs' c3.work c4.work
            (fun k ho => by
              have hne : k ≠ metaKey q.coll := fun e => metaKey_not_ownsD q.coll (e ▸ ho)
              rw [hget k, if_neg hne]) p4
    · refine ⟨c3, hpre _ ?_, ?_, ?_, p3, ?_, ?_, p7, p8⟩
      · rw [bind_run _ _ _ c3 _ h3, if_neg hk]
        rfl
      · rw [p1, s2.2.1, s1.2.1]
      · rw [p2, s2.2.2, s1.2.2]
      · intro k hno
        rw [p5 k (hnometa k hno), hw2]
      · apply owned_of_parts
        · rw [p5 _ (metaKey_not_ownsD q.coll), hw2, hm]
          have : docs'.length = coll.docs.length := by omega
          rw [this]
        · exact p4

/-- with no skip/limit window, the selection of a bulk write is a permutation of the
    specification's selection, whatever the plan (on the key domain) -/
theorem selectionOf_perm (s : Spec.State) (σ : KVS) (hw : WF s) (hr : Rep s σ) (q : Query)
    (coll : Spec.Coll) (hl : Spec.lookup q.coll s = some coll) (hdomain : KeyDomain q coll)
    (hskip : q.skip = 0) (hlimit : q.limit < 0) :
    (selectionOf likeFn fnFam σ q coll).Perm (Spec.findAll likeFn fnFam q coll) := by
  unfold selectionOf
  rw [pipeline_none]
  have hperm := findAll_perm_any_plan' likeFn fnFam s σ hw hr q coll hl hdomain.docs hdomain.crit hdomain.indexed
  rw [hskip, window_all _ _ hlimit]
  unfold Spec.findAll
  rw [hskip, window_all _ _ hlimit]
  have hsortL : ∀ l : List Doc, (sortDocs q.sort l).Perm l := fun l => List.mergeSort_perm _ _
  have lhs : ∀ b : Bool, (if b = true then sortDocs q.sort ((candidates σ q.coll (coll.docs.map (·.2)) (choosePlan coll.indexes q).1).filter
        (fun d => satOpt likeFn fnFam d q.crit))
      else (candidates σ q.coll (coll.docs.map (·.2)) (choosePlan coll.indexes q).1).filter (fun d => satOpt likeFn fnFam d q.crit)).Perm
      ((coll.docs.map (·.2)).filter (fun d => satOpt likeFn fnFam d q.crit)) := by
    intro b
    cases b with
    | false => simpa using hperm
    | true => simpa using (hsortL _).trans hperm
  refine (lhs _).trans ?_
  split
  · exact List.Perm.refl _
  · exact (hsortL _).symm

/-- **Index transparency for `Update` / `UpdateFunc`** (no skip, no limit): whatever indexes exist
    and whichever plan is chosen, the update fails iff the specification's fails (nothing changes
    then), and otherwise answers a permutation of the specification's selection and leaves a store
    representing the specification's next state. -/
theorem update_exact_any_plan (s : Spec.State) (σ : KVS) (hw : WF s) (hr : Rep s σ) (q : Query) (u : Upd)
    (coll : Spec.Coll) (hl : Spec.lookup q.coll s = some coll) (hdomain : KeyDomain q coll)
    (hskip : q.skip = 0) (hlimit : q.limit < 0) :
    let r := withTx true (Op.body likeFn fnFam (.update q u)) noFault σ
    let sp := Spec.step likeFn fnFam s (.update q u)
    (sp.1.isErr = true → r.1.isErr = true ∧ r.2.1 = σ) ∧
    (sp.1.isErr = false → ∃ sel, r.1 = .ok (.docs sel) ∧ sel.Perm (Spec.findAll likeFn fnFam q coll) ∧
      Rep sp.2 r.2.1 ∧ WF sp.2) := by
  simp only
  obtain ⟨hc, hcw⟩ := wf_lookup_clean s hw q.coll coll hl
  have hrun := replaceDocs_run_sel likeFn fnFam s (ctx0 true σ) hw hr q u coll hl
  have hwk : (ctx0 true σ).work = σ := rfl
  rw [hwk] at hrun
  have hperm := selectionOf_perm likeFn fnFam s σ hw hr q coll hl hdomain hskip hlimit
  have hlive := selectionOf_live likeFn fnFam s σ hw hr q coll hl
  have hliveS := findAll_live likeFn fnFam q coll hcw.docsSorted hcw.idsWF
  generalize selectionOf likeFn fnFam σ q coll = sel at hrun hperm hlive
  have herr := applyAll_isErr_perm u coll.docs _ _ hperm
  simp only [Spec.step, Spec.withColl, hl]
  cases ha : Spec.applyAll u coll.docs (Spec.findAll likeFn fnFam q coll) with
  | err e =>
    rw [ha] at herr
    constructor
    · intro _
      cases hb : Spec.applyAll u coll.docs sel with
      | ok d2 => rw [hb] at herr; cases herr
      | err e2 =>
        rw [hb] at hrun
        obtain ⟨c', h⟩ := hrun
        have hbody : (Op.body likeFn fnFam (.update q u)) noFault (ctx0 true σ) = (.err e2, c') := by
          simp only [Op.body]
          exact bind_run_err' _ _ _ _ _ h
        have ht := withTx_err _ σ _ _ hbody
        exact ⟨by rw [ht.1]; rfl, ht.2⟩
    · intro h
      cases h
  | ok docs₁ =>
    rw [ha] at herr
    constructor
    · intro h
      cases h
    · intro _
      cases hb : Spec.applyAll u coll.docs sel with
      | err e2 => rw [hb] at herr; cases herr
      | ok docs₂ =>
        have heq := applyAll_perm_eq u coll.docs hcw.docsSorted sel _ hlive hliveS hperm docs₂ docs₁ hb ha
        subst heq
        rw [hb] at hrun
        obtain ⟨c', h, _, p2, p3, p4, p5, p7, p8⟩ := hrun
        have hbody : (Op.body likeFn fnFam (.update q u)) noFault (ctx0 true σ) = (.ok (.docs sel), c') := by
          simp only [Op.body]
          rw [bind_run _ _ _ c' _ h]
          rfl
        have hsk : c'.skipCommit = false := by rw [p2]; rfl
        have ht := withTx_ok _ σ _ _ hbody hsk
        have hcw' : CollWF { coll with docs := docs₂ } :=
          ⟨Spec.keysSorted_nodup _ p7, p7, p8, hcw.fieldsClean, hcw.fieldsDistinct⟩
        have hrep := rep_insert_coll s σ c'.work hw hr q.coll hc _ hcw' p3 p4 p5
        refine ⟨sel, ht.1, hperm, ?_, hrep.2⟩
        rw [ht.2]
        exact hrep.1

/-- **Index transparency for `Delete`** (no skip, no limit), in the shape of `update_exact_any_plan` -/
theorem delete_exact_any_plan (s : Spec.State) (σ : KVS) (hw : WF s) (hr : Rep s σ) (q : Query)
    (coll : Spec.Coll) (hl : Spec.lookup q.coll s = some coll) (hdomain : KeyDomain q coll)
    (hskip : q.skip = 0) (hlimit : q.limit < 0) :
    let r := withTx true (Op.body likeFn fnFam (.delete q)) noFault σ
    let sp := Spec.step likeFn fnFam s (.delete q)
    (sp.1.isErr = true → r.1.isErr = true ∧ r.2.1 = σ) ∧
    (sp.1.isErr = false → ∃ sel, r.1 = .ok (.docs sel) ∧ sel.Perm (Spec.findAll likeFn fnFam q coll) ∧
      Rep sp.2 r.2.1 ∧ WF sp.2) := by
  rw [body_delete, step_delete]
  exact update_exact_any_plan likeFn fnFam s σ hw hr q .retNil coll hl hdomain hskip hlimit

/-- deleting never fails in the apply phase -/
theorem applyAll_retNil_ok (docs : List (Bytes × Doc)) (sel : List Doc) : ∃ r, Spec.applyAll .retNil docs sel = .ok r :=
  (applyAll_ok_iff .retNil sel docs).2 (fun _ _ _ h => nomatch h)

theorem step_delete_ok (s : Spec.State) (q : Query) (coll : Spec.Coll) (hl : Spec.lookup q.coll s = some coll) :
    (Spec.step likeFn fnFam s (.delete q)).1.isErr = false := by
  rw [step_delete]
  simp only [Spec.step, Spec.withColl, hl]
  obtain ⟨r, h⟩ := applyAll_retNil_ok coll.docs (Spec.findAll likeFn fnFam q coll)
  rw [h]
  rfl

/-- **Index transparency for `Delete`** (no skip, no limit): whatever indexes exist and whichever
    plan is chosen, `Delete` on a live collection succeeds, answers a permutation of the
    specification's selection and leaves a store representing the specification's next state. -/
theorem delete_exact_any_plan_ok (s : Spec.State) (σ : KVS) (hw : WF s) (hr : Rep s σ) (q : Query)
    (coll : Spec.Coll) (hl : Spec.lookup q.coll s = some coll) (hdomain : KeyDomain q coll)
    (hskip : q.skip = 0) (hlimit : q.limit < 0) :
    let r := withTx true (Op.body likeFn fnFam (.delete q)) noFault σ
    let sp := Spec.step likeFn fnFam s (.delete q)
    ∃ sel, r.1 = .ok (.docs sel) ∧ sel.Perm (Spec.findAll likeFn fnFam q coll) ∧ Rep sp.2 r.2.1 ∧ WF sp.2 :=
  (delete_exact_any_plan likeFn fnFam s σ hw hr q coll hl hdomain hskip hlimit).2
    (step_delete_ok likeFn fnFam s q coll hl)

/-! ## 3. the specification's frame property (C13): a step changes only the targeted collection -/

/-- the collection an operation may modify -/
def Op.target : Op → Option Bytes
  | .createCollection c | .dropCollection c | .insert c _ _ | .save c _ _ | .deleteById c _
  | .updateById c _ _ | .replaceById c _ _ | .createIndex c _ | .dropIndex c _
  | .createCollectionByQuery c _ _ | .importDocs c _ _ => some c
  | .update q _ | .delete q => some q.coll
  | _ => none

/-- **Isolation in the specification**: a step leaves every collection other than the operation's
    target as it was. -/
theorem spec_step_frame (s : Spec.State) (hw : WF s) (op : Op) (c' : Bytes) (h : op.target ≠ some c') :
    Spec.lookup c' (Spec.step likeFn fnFam s op).2 = Spec.lookup c' s := by
  have hs := hw.namesSorted
  have hne : ∀ c, op.target = some c → c' ≠ c := fun c e e2 => h (by rw [e, e2])
  cases op
  case importDocs c docs fresh =>
    cases docs with
    | none => simp only [Spec.step]
    | some ds =>
      simp only [Spec.step, Spec.createWith]
      repeat' split
      all_goals first
        | rfl
        | (rw [Spec.lookup_insert', if_neg (hne _ rfl)])
  all_goals simp only [Spec.step, Spec.withColl, Spec.createWith]
  all_goals repeat' split
  all_goals first
    | rfl
    | (rw [Spec.lookup_insert', if_neg (hne _ rfl)])
    | (rw [Spec.lookup_erase' _ _ _ hs, if_neg (hne _ rfl)])

/-- the one collection whose content decides an operation's answer (`ListCollections` reads the
    catalog, `CreateCollectionByQuery` reads two collections: no single one) -/
def Op.scope : Op → Option Bytes
  | .createCollection c | .dropCollection c | .hasCollection c | .insert c _ _ | .save c _ _
  | .findById c _ | .deleteById c _ | .updateById c _ _ | .replaceById c _ _ | .createIndex c _ | .dropIndex c _
  | .hasIndex c _ | .listIndexes c | .importDocs c _ _ | .exportDocs c => some c
  | .findAll q | .forEach q _ | .findFirst q | .exists_ q | .count q | .update q _ | .delete q => some q.coll
  | .listCollections | .createCollectionByQuery _ _ _ => none

/-- the specification's answer to an operation on one collection depends on that collection only -/
theorem spec_answer_local (s1 s2 : Spec.State) (op : Op) (c : Bytes) (hc : op.scope = some c)
    (h : Spec.lookup c s1 = Spec.lookup c s2) :
    (Spec.step likeFn fnFam s1 op).1 = (Spec.step likeFn fnFam s2 op).1 := by
  cases op
  case importDocs c docs fresh =>
    cases hc
    cases docs with
    | none => simp only [Spec.step]
    | some ds =>
      simp only [Spec.step, Spec.createWith, h]
      repeat' split
      all_goals rfl
  case listCollections => cases hc
  case createCollectionByQuery => cases hc
  all_goals cases hc
  all_goals simp only [Spec.step, Spec.withColl, Spec.createWith, h]
  all_goals repeat' split
  all_goals rfl

/-- whether an operation on one collection is determined depends on that collection only -/
theorem determined_local (s1 s2 : Spec.State) (op : Op) (c : Bytes) (hc : op.scope = some c)
    (h : Spec.lookup c s1 = Spec.lookup c s2) (hd : Op.Determined s1 op) : Op.Determined s2 op := by
  cases op
  case createCollectionByQuery => cases hc
  all_goals cases hc
  all_goals first
    | trivial
    | (intro coll hl; exact hd coll (h.trans hl))

/-- **Isolation in the specification** (C13): an operation that targets another collection does not
    change what an operation on this collection answers. -/
theorem spec_isolation (s : Spec.State) (hw : WF s) (op op2 : Op) (c' : Bytes)
    (h : op.target ≠ some c') (h2 : op2.scope = some c') :
    (Spec.step likeFn fnFam (Spec.step likeFn fnFam s op).2 op2).1 = (Spec.step likeFn fnFam s op2).1 :=
  spec_answer_local likeFn fnFam _ _ op2 c' h2 (spec_step_frame likeFn fnFam s hw op c' h)

/-- **Isolation on the model**, by `refine_step`: on an open handle whose store represents a
    well-formed state, a fault-free determined call that targets another collection does not change
    what a determined call on this collection answers. -/
theorem run_isolation (op op2 : Op) (hop : OpOK op) (hop2 : OpOK op2) (s : Spec.State) (σ : DBState)
    (hcl : σ.closed = false) (hw : WF s) (hr : Rep s σ.kv) (hdet : Op.Determined s op) (hdet2 : Op.Determined s op2)
    (c' : Bytes) (h : op.target ≠ some c') (h2 : op2.scope = some c') :
    (op2.run likeFn fnFam (op.run likeFn fnFam σ noFault).state noFault).out = (op2.run likeFn fnFam σ noFault).out := by
  obtain ⟨_, a2, a3, a4⟩ := refine_step likeFn fnFam op hop s σ hcl hw hr hdet
  have hfr := spec_step_frame likeFn fnFam s hw op c' h
  obtain ⟨b1, _⟩ := refine_step likeFn fnFam op2 hop2 _ _ a4 a3 a2
    (determined_local s _ op2 c' h2 hfr.symm hdet2)
  obtain ⟨d1, _⟩ := refine_step likeFn fnFam op2 hop2 s σ hcl hw hr hdet2
  rw [b1, d1]
  exact spec_isolation likeFn fnFam s hw op op2 c' h h2

end CV
