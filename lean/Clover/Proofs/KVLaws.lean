import Clover.Model.Store
import Clover.Proofs.ByteOrder
import Clover.Probe.Scan
/-! # Laws of the ordered store (sorted association list over byte keys) and of its cursors -/
namespace CV
open OC

/-- strictly increasing keys -/
def KSorted (kv : KVS) : Prop := kv.Pairwise (fun a b => lexLt a.1 b.1 = true)

theorem ksorted_nil : KSorted [] := List.Pairwise.nil

theorem kvGet_none_of_lt : (t : KVS) → (k : Bytes) → (∀ e ∈ t, lexLt k e.1 = true) → kvGet t k = none
  | [], _, _ => rfl
  | (k', v) :: t, k, h => by
    have h1 := h (k', v) (by simp)
    have hne : k ≠ k' := lexLt_ne _ _ h1
    simp only [kvGet, hne, if_false]
    exact kvGet_none_of_lt t k (fun e he => h e (by simp [he]))

theorem ksorted_kvSet : (t : KVS) → KSorted t → (k : Bytes) → (v : SVal) → KSorted (kvSet t k v)
  | [], _, k, v => by simp [kvSet, KSorted]
  | (k', v') :: t, hs, k, v => by
    have hs' := List.pairwise_cons.1 hs
    simp only [kvSet]
    split
    · rename_i hlt
      apply List.pairwise_cons.2
      refine ⟨?_, hs⟩
      intro e he
      rcases List.mem_cons.1 he with e1 | e1
      · rw [e1]; exact hlt
      · exact lexLt_trans _ _ _ hlt (hs'.1 e e1)
    · split
      · rename_i _ heq
        subst heq
        exact List.pairwise_cons.2 ⟨hs'.1, hs'.2⟩
      · rename_i hnlt hne
        apply List.pairwise_cons.2
        constructor
        · intro e he
          -- members of kvSet t k v are k or members of t
          have : e.1 = k ∨ e ∈ t := by
            clear hs hs'
            induction t with
            | nil => simp [kvSet] at he; exact Or.inl (by rw [he])
            | cons a t ih =>
              simp only [kvSet] at he
              split at he
              · rcases List.mem_cons.1 he with e1 | e1
                · exact Or.inl (by rw [e1])
                · exact Or.inr e1
              · split at he
                · rcases List.mem_cons.1 he with e1 | e1
                  · exact Or.inl (by rw [e1])
                  · exact Or.inr (List.mem_cons_of_mem _ e1)
                · rcases List.mem_cons.1 he with e1 | e1
                  · exact Or.inr (by rw [e1]; simp)
                  · rcases ih e1 with h | h
                    · exact Or.inl h
                    · exact Or.inr (List.mem_cons_of_mem _ h)
          rcases this with h | h
          · rw [h]
            rcases lexLt_total k k' hne with h' | h'
            · simp [h'] at hnlt
            · exact h'
          · exact hs'.1 e h
        · exact ksorted_kvSet t hs'.2 k v

theorem kvGet_kvSet : (t : KVS) → (k k' : Bytes) → (v : SVal) → KSorted t →
    kvGet (kvSet t k v) k' = if k' = k then some v else kvGet t k'
  | [], k, k', v, _ => by simp [kvSet, kvGet]
  | (k0, v0) :: t, k, k', v, hs => by
    have hs' := List.pairwise_cons.1 hs
    simp only [kvSet]
    split
    · simp only [kvGet]
    · split
      · rename_i _ heq
        subst heq
        simp only [kvGet]
        split <;> rfl
      · rename_i hnlt hne
        simp only [kvGet]
        rw [kvGet_kvSet t k k' v hs'.2]
        by_cases h1 : k' = k0
        · subst h1
          have : k' ≠ k := fun e => hne e.symm
          simp [this]
        · simp [h1]

theorem ksorted_kvDel : (t : KVS) → KSorted t → (k : Bytes) → KSorted (kvDel t k)
  | [], _, _ => by simp [kvDel, KSorted]
  | (k', v') :: t, hs, k => by
    have hs' := List.pairwise_cons.1 hs
    simp only [kvDel]
    split
    · exact hs'.2
    · apply List.pairwise_cons.2
      refine ⟨?_, ksorted_kvDel t hs'.2 k⟩
      intro e he
      have : e ∈ t := by
        clear hs hs'
        induction t with
        | nil => simp [kvDel] at he
        | cons a t ih =>
          simp only [kvDel] at he
          split at he
          · exact List.mem_cons_of_mem _ he
          · rcases List.mem_cons.1 he with e1 | e1
            · rw [e1]; simp
            · exact List.mem_cons_of_mem _ (ih e1)
      exact hs'.1 e this

theorem kvGet_kvDel : (t : KVS) → (k k' : Bytes) → KSorted t →
    kvGet (kvDel t k) k' = if k' = k then none else kvGet t k'
  | [], _, _, _ => by simp [kvDel, kvGet]
  | (k0, v0) :: t, k, k', hs => by
    have hs' := List.pairwise_cons.1 hs
    simp only [kvDel]
    split
    · rename_i heq
      subst heq
      simp only [kvGet]
      by_cases h1 : k' = k
      · subst h1
        simp only [if_true]
        exact kvGet_none_of_lt t k' hs'.1
      · simp [h1]
    · rename_i hne
      simp only [kvGet]
      rw [kvGet_kvDel t k k' hs'.2]
      by_cases h1 : k' = k0
      · subst h1
        have : k' ≠ k := fun e => hne e.symm
        simp [this]
      · simp [h1]

/-- two sorted stores with the same lookups are equal -/
theorem kv_ext : (a b : KVS) → KSorted a → KSorted b → (∀ k, kvGet a k = kvGet b k) → a = b
  | [], [], _, _, _ => rfl
  | [], (k, v) :: t, _, _, h => by have := h k; simp [kvGet] at this
  | (k, v) :: t, [], _, _, h => by have := h k; simp [kvGet] at this
  | (k1, v1) :: t1, (k2, v2) :: t2, ha, hb, h => by
    have ha' := List.pairwise_cons.1 ha
    have hb' := List.pairwise_cons.1 hb
    have hk : k1 = k2 := by
      by_cases e : k1 = k2
      · exact e
      · exfalso
        rcases lexLt_total k1 k2 e with hlt | hlt
        · have h1 := h k1
          simp only [kvGet, if_true] at h1
          have hne : k1 ≠ k2 := e
          simp only [hne, if_false] at h1
          rw [kvGet_none_of_lt t2 k1 (fun x hx => lexLt_trans _ _ _ hlt (hb'.1 x hx))] at h1
          simp at h1
        · have h2 := h k2
          simp only [kvGet, if_true] at h2
          have hne : k2 ≠ k1 := fun x => e x.symm
          simp only [hne, if_false] at h2
          rw [kvGet_none_of_lt t1 k2 (fun x hx => lexLt_trans _ _ _ hlt (ha'.1 x hx))] at h2
          simp at h2
    subst hk
    have hv : v1 = v2 := by
      have := h k1
      simpa [kvGet] using this
    subst hv
    congr 1
    apply kv_ext t1 t2 ha'.2 hb'.2
    intro k
    by_cases e : k = k1
    · subst e
      rw [kvGet_none_of_lt t1 k ha'.1, kvGet_none_of_lt t2 k hb'.1]
    · have := h k
      simpa [kvGet, e] using this

/-! ## the cursor contract -/

/-- a forward seek lands on the first key at or after the target, then visits every later key
    once, in order: the cursor's view is the stored entries with key ≥ target -/
theorem seekFwd_eq_filter (kv : KVS) (hs : KSorted kv) (k : Bytes) :
    seekFwd kv k = kv.filter (fun e => !lexLt e.1 k) := by
  unfold seekFwd
  apply Pl.dropWhile_eq_filter (fun (a b : Bytes × SVal) => lexLt a.1 b.1 = true) (fun e => lexLt e.1 k) _ kv hs
  intro a b hab hb
  exact lexLt_trans _ _ _ hab hb

/-- a reverse seek lands on the last key at or before the target, then visits every earlier key
    once, in descending order -/
theorem seekRev_eq_filter (kv : KVS) (hs : KSorted kv) (k : Bytes) :
    seekRev kv k = (kv.filter (fun e => !lexLt k e.1)).reverse := by
  unfold seekRev
  congr 1
  apply Pl.takeWhile_eq_filter (fun (a b : Bytes × SVal) => lexLt a.1 b.1 = true) (fun e => !lexLt k e.1) _ kv hs
  intro a b hab hb
  simp only [Bool.not_eq_true', ] at hb ⊢
  cases h : lexLt k a.1 with
  | false => rfl
  | true => have := lexLt_trans _ _ _ h hab; simp [hb] at this

/-- cursors do not look at values: keys with empty values are as visible as any other -/
theorem seekFwd_keys (kv : KVS) (k : Bytes) :
    (seekFwd kv k).map (·.1) = (kv.map (·.1)).dropWhile (fun x => lexLt x k) := by
  unfold seekFwd
  induction kv with
  | nil => rfl
  | cons a t ih =>
    simp only [List.dropWhile, List.map]
    cases lexLt a.1 k with
    | true => exact ih
    | false => rfl

end CV
