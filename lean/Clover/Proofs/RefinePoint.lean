import Clover.Proofs.Eval
/-! # Point writes refine the specification: `UpdateById` (hence `ReplaceById`, `Save`), `DeleteById` -/
namespace CV
open OC Keys StoreM

variable (likeFn : LikeFn) (fnFam : FnFam)

theorem withTx_ok {α} (body : StoreM α) (σ : KVS) (a : α) (c : Ctx)
    (h : body noFault (ctx0 true σ) = (.ok a, c)) (hs : c.skipCommit = false) :
    (withTx true body noFault σ).1 = .ok a ∧ (withTx true body noFault σ).2.1 = c.work := by
  rw [withTx_write_noFault body σ _ _ h]
  simp [hs]

theorem withTx_ok_nocommit {α} (body : StoreM α) (σ : KVS) (a : α) (c : Ctx)
    (h : body noFault (ctx0 true σ) = (.ok a, c)) (hs : c.skipCommit = true) :
    (withTx true body noFault σ).1 = .ok a ∧ (withTx true body noFault σ).2.1 = σ := by
  rw [withTx_write_noFault body σ _ _ h]
  simp [hs]

theorem withTx_err {α} (body : StoreM α) (σ : KVS) (e : Err) (c : Ctx)
    (h : body noFault (ctx0 true σ) = (.err e, c)) :
    (withTx true body noFault σ).1 = .err e ∧ (withTx true body noFault σ).2.1 = σ := by
  rw [withTx_write_noFault body σ _ _ h]
  simp

/-- the metadata record of a collection, as the store holds it -/
theorem rep_meta (s : Spec.State) (σ : KVS) (hr : Rep s σ) (c : Bytes) :
    kvGet σ (metaKey c) = (Spec.lookup c s).map (fun coll => SVal.cmeta ⟨coll.docs.length, coll.indexes⟩) := by
  rw [hr.2, assoc_meta]

/-- the data keys of a live collection -/
theorem rep_data (s : Spec.State) (σ : KVS) (hw : WF s) (hr : Rep s σ) (c : Bytes) (coll : Spec.Coll)
    (hl : Spec.lookup c s = some coll) : DataRep c coll.indexes coll.docs σ :=
  (parts_of_owned c coll σ (fun k v ho => rep_owned s σ hw hr c coll hl k v ho)).2

theorem keyId_ownsD (c k id : Bytes) (h : KeyId c k id) : OwnsD c k := by
  rcases h with e | ⟨f, r, e⟩
  · exact Or.inl ⟨id, e⟩
  · exact Or.inr ⟨f, _, e⟩

theorem ownsD_owns (c k : Bytes) (h : OwnsD c k) : Owns c k := Or.inr h

theorem not_owns_not_keyId (c k id : Bytes) (h : ¬ Owns c k) : ¬ KeyId c k id :=
  fun hk => h (ownsD_owns c k (keyId_ownsD c k id hk))

theorem collWF_ids (coll : Spec.Coll) (hcw : CollWF coll) : ∀ e ∈ coll.docs, e.1.length = 36 :=
  fun e he => (hcw.idsWF e he).1.1

theorem collWF_lookup (coll : Spec.Coll) (hcw : CollWF coll) (id : Bytes) (d : Doc) (hl : Spec.lookup id coll.docs = some d) :
    IdWF id ∧ d.objectId = id := hcw.idsWF (id, d) (lookup_some_mem id d _ hl)

/-- replacing a stored document by one with the same id keeps the collection well formed -/
theorem collWF_replace (coll : Spec.Coll) (hcw : CollWF coll) (id : Bytes) (d d' : Doc)
    (hl : Spec.lookup id coll.docs = some d) (hid : d'.objectId = id) :
    CollWF { coll with docs := Spec.insert id d' coll.docs } := by
  have hsorted := Spec.keysSorted_insert id d' coll.docs hcw.docsSorted
  refine ⟨Spec.keysSorted_nodup _ hsorted, hsorted, ?_, hcw.fieldsClean, hcw.fieldsDistinct⟩
  intro e he
  rcases Spec.mem_insert id d' e coll.docs he with h | h
  · rw [h]; exact ⟨(collWF_lookup coll hcw id d hl).1, hid⟩
  · exact hcw.idsWF e h

theorem collWF_erase (coll : Spec.Coll) (hcw : CollWF coll) (id : Bytes) :
    CollWF { coll with docs := Spec.erase id coll.docs } := by
  have hsorted := Spec.keysSorted_erase id coll.docs hcw.docsSorted
  exact ⟨Spec.keysSorted_nodup _ hsorted, hsorted, fun e he => hcw.idsWF e (Spec.mem_erase id e _ he),
    hcw.fieldsClean, hcw.fieldsDistinct⟩

/-- **UpdateById refines the specification and preserves the invariant** — for every updater, with
    any set of indexes on the collection: same outcome (the sentinel errors included), and the new
    store represents the specification's new state. -/
theorem updateById_refines (s : Spec.State) (σ : KVS) (hw : WF s) (hr : Rep s σ) (c id : Bytes) (u : Upd) :
    let r := withTx true (Op.body likeFn fnFam (.updateById c id u)) noFault σ
    let sp := Spec.step likeFn fnFam s (.updateById c id u)
    r.1 = sp.1 ∧ Rep sp.2 r.2.1 ∧ WF sp.2 := by
  simp only
  have hm := rep_meta s σ hr c
  cases hl : Spec.lookup c s with
  | none =>
    -- missing collection
    rw [hl] at hm
    obtain ⟨c1, h1, s1⟩ := get_run (metaKey c) (ctx0 true σ)
    have hb : (Op.body likeFn fnFam (.updateById c id u)) noFault (ctx0 true σ) = (.err .collNotExist, c1) := by
      simp only [Op.body, getMeta]
      apply bind_run_err'
      rw [bind_run _ _ _ c1 _ h1]
      have : kvGet (ctx0 true σ).work (metaKey c) = none := hm
      rw [this]; rfl
    have ht := withTx_err _ σ _ _ hb
    simp only [Spec.step, Spec.withColl, hl]
    exact ⟨ht.1, by rw [ht.2]; exact hr, hw⟩
  | some coll =>
    rw [hl] at hm
    simp only [Option.map_some] at hm
    obtain ⟨hc, hcw⟩ := wf_lookup_clean s hw c coll hl
    have hdata := rep_data s σ hw hr c coll hl
    obtain ⟨c1, h1, s1⟩ := getMeta_run c ⟨coll.docs.length, coll.indexes⟩ (ctx0 true σ) hm
    obtain ⟨c2, h2, s2⟩ := get_run (docKey c id) c1
    have hw1 : c1.work = σ := s1.1
    have hw2 : c2.work = σ := s2.1.trans hw1
    have hdoc : kvGet c1.work (docKey c id) = (Spec.lookup id coll.docs).map SVal.doc := by
      rw [hw1, hr.2, assoc_doc c id hc s hw.namesClean hw.namesDistinct, hl]; rfl
    simp only [Spec.step, Spec.withColl, hl]
    cases hld : Spec.lookup id coll.docs with
    | none =>
      rw [hld] at hdoc
      have hb : (Op.body likeFn fnFam (.updateById c id u)) noFault (ctx0 true σ) = (.err .docNotExist, c2) := by
        simp only [Op.body]
        rw [bind_run _ _ _ c1 _ h1, bind_run _ _ _ c2 _ h2, hdoc]; rfl
      have ht := withTx_err _ σ _ _ hb
      exact ⟨ht.1, by rw [ht.2]; exact hr, hw⟩
    | some d =>
      dsimp only
      rw [hld] at hdoc
      simp only [Option.map_some] at hdoc
      obtain ⟨hidwf, hdid⟩ := collWF_lookup coll hcw id d hld
      cases hu : u.apply d with
      | none =>
        try dsimp only
        have hb : (Op.body likeFn fnFam (.updateById c id u)) noFault (ctx0 true σ) = (.err .nilDoc, c2) := by
          simp only [Op.body]
          rw [bind_run _ _ _ c1 _ h1, bind_run _ _ _ c2 _ h2, hdoc]
          simp only [hu]; rfl
        have ht := withTx_err _ σ _ _ hb
        exact ⟨ht.1, by rw [ht.2]; exact hr, hw⟩
      | some d' =>
        try dsimp only
        by_cases hid : d'.objectId ≠ id
        · have hb : (Op.body likeFn fnFam (.updateById c id u)) noFault (ctx0 true σ) = (.err .idChanged, c2) := by
            simp only [Op.body]
            rw [bind_run _ _ _ c1 _ h1, bind_run _ _ _ c2 _ h2, hdoc]
            simp only [hu, hid, ne_eq, not_false_eq_true, if_true]; rfl
          have ht := withTx_err _ σ _ _ hb
          rw [if_pos hid]
          exact ⟨ht.1, by rw [ht.2]; exact hr, hw⟩
        · have hid' : d'.objectId = id := by simpa using hid
          rw [if_neg hid]
          obtain ⟨c3, h3, e3⟩ := delFromIndexes_run c d coll.indexes c2
          obtain ⟨c4, h4, e4⟩ := addToIndexes_run c d' coll.indexes c3
          by_cases hv : validDoc d' = true
          · -- success
            obtain ⟨c5, h5, e5⟩ := set_run' (docKey c id) (.doc d') c4
            have hb : (Op.body likeFn fnFam (.updateById c id u)) noFault (ctx0 true σ) = (.ok .unit, c5) := by
              simp only [Op.body]
              rw [bind_run _ _ _ c1 _ h1, bind_run _ _ _ c2 _ h2, hdoc]
              simp only [hu, hid, if_false]
              rw [bind_run _ _ _ c3 _ h3, bind_run _ _ _ c4 _ h4]
              simp only [saveDoc, hv, if_true]
              rw [bind_run _ _ _ c5 _ h5]; rfl
            have hsk : c5.skipCommit = false := by
              rw [e5.2.2, e4.2.2, e3.2.2, s2.2.2, s1.2.2]; rfl
            have ht := withTx_ok _ σ _ _ hb hsk
            simp only [hv, Bool.not_true, Bool.false_eq_true, if_false]
            rw [ht.1, ht.2]
            refine ⟨rfl, ?_⟩
            -- the store after the update
            have hwork : c5.work = kvSet (setEntries c coll.indexes d' (delEntries c coll.indexes d σ)) (docKey c id) (.doc d') := by
              rw [e5.1, e4.1, e3.1, hw2]
            have hσ : ∀ k v, KeyId c k id → (kvGet σ k = some v ↔ ∃ d0, some d = some d0 ∧ DocKeys c coll.indexes id d0 k v) := by
              intro k v hk
              rw [dataRep_keys_of c hc coll.indexes coll.docs σ hdata (collWF_ids coll hcw) id hidwf.1 k v hk, hld]
            obtain ⟨hs', hf', hk'⟩ := docKeys_replace c hc coll.indexes id (some d) d' hid'
              (fun d0 e => by simp only [Option.some.injEq] at e; rw [← e]; exact hdid) σ hr.1 hσ
            simp only at hs' hf' hk'
            rw [← hwork] at hs' hf' hk'
            have hdata' : DataRep c coll.indexes (Spec.insert id d' coll.docs) c5.work :=
              dataRep_update c hc coll.indexes coll.docs σ c5.work hdata hcw.docsSorted (collWF_ids coll hcw) id hidwf.1
                (some d') hf' hk'
            have hmeta' : kvGet c5.work (metaKey c) = some (.cmeta ⟨(Spec.insert id d' coll.docs).length, coll.indexes⟩) := by
              rw [hf' (metaKey c) (fun hk => metaKey_not_keyId c _ id hk rfl), hm,
                Spec.length_insert_old id d' d coll.docs hcw.docsSorted hld]
            exact rep_insert_coll s σ c5.work hw hr c hc _ (collWF_replace coll hcw id d d' hld hid') hs'
              (fun k hno => hf' k (not_owns_not_keyId c k id hno))
              (owned_of_parts c coll.indexes _ c5.work hmeta' hdata')
          · -- the new document is not valid
            have hb : (Op.body likeFn fnFam (.updateById c id u)) noFault (ctx0 true σ) = (.err .invalidId, c4) := by
              simp only [Op.body]
              rw [bind_run _ _ _ c1 _ h1, bind_run _ _ _ c2 _ h2, hdoc]
              simp only [hu, hid, if_false]
              rw [bind_run _ _ _ c3 _ h3, bind_run _ _ _ c4 _ h4]
              simp only [saveDoc, hv, Bool.false_eq_true, if_false]
              rfl
            have ht := withTx_err _ σ _ _ hb
            simp only [hv, Bool.not_false, if_true]
            exact ⟨ht.1, by rw [ht.2]; exact hr, hw⟩

end CV
