import Clover.Proofs.StoreM
import Clover.Model.DB
/-! # Every transaction body of the model propagates store faults

Hence (`fault_reported`) a fault injected at any store call an operation reaches makes the
operation return an error: a store failure is never swallowed into a success. -/
namespace CV
open StoreM

theorem prop_noCommit : Propagates noCommit := by
  intro φ c; exact ⟨fun h => Or.inl h, fun h => h⟩

theorem prop_ite {α} (b : Bool) (m1 m2 : StoreM α) (h1 : Propagates m1) (h2 : Propagates m2) :
    Propagates (if b then m1 else m2) := by
  cases b <;> simp <;> assumption

theorem prop_dite {α} (p : Prop) [Decidable p] (m1 m2 : StoreM α) (h1 : Propagates m1) (h2 : Propagates m2) :
    Propagates (if p then m1 else m2) := by
  split <;> assumption

/-- structural closure of `Propagates`: closes goals built from the primitives, `>>=`, `if`, `match`
    and whatever lemmas / induction hypotheses are in the context -/
macro "prop_auto" : tactic =>
  `(tactic| repeat' (first
    | exact prop_pure _
    | exact prop_fail _
    | exact prop_get _
    | exact prop_set _ _
    | exact prop_del _
    | exact prop_item _
    | exact prop_snapshot
    | exact prop_noCommit
    | assumption
    | refine prop_bind _ _ ?_ (fun _ => ?_)
    | split
    | simp only []))

theorem prop_forM {α} (f : α → StoreM Unit) (hf : ∀ a, Propagates (f a)) : (l : List α) → Propagates (l.forM f)
  | [] => prop_pure ()
  | x :: xs => by
    simp only [List.forM]
    exact prop_bind _ _ (hf x) (fun _ => prop_forM f hf xs)

theorem prop_skipEq (b : Bytes) : (l : KVS) → Propagates (skipEq b l)
  | [] => prop_pure _
  | e :: rest => by
    simp only [skipEq]
    apply prop_bind _ _ (prop_item _)
    intro _
    split
    · exact prop_skipEq b rest
    · exact prop_pure _

theorem prop_scanLoop {β} (pfx : Bytes) (stop : Bytes → Bool) (onId : β → Bytes → StoreM (β × Flow))
    (h : ∀ a id, Propagates (onId a id)) : (acc : β) → (l : KVS) → Propagates (scanLoop pfx stop onId acc l)
  | acc, [] => prop_pure _
  | acc, e :: rest => by
    simp only [scanLoop]
    apply prop_bind _ _ (prop_item _)
    intro _
    split
    · exact prop_pure _
    · split
      · exact prop_pure _
      · apply prop_bind _ _ (h _ _)
        intro r
        obtain ⟨acc', fl⟩ := r
        cases fl with
        | stop => exact prop_pure _
        | cont => exact prop_scanLoop pfx stop onId h acc' rest

theorem prop_loopPrefix {β} (pfx : Bytes) (f : β → Bytes × SVal → StoreM (β × Flow))
    (h : ∀ a e, Propagates (f a e)) : (acc : β) → (l : KVS) → Propagates (loopPrefix pfx f acc l)
  | acc, [] => prop_pure _
  | acc, e :: rest => by
    simp only [loopPrefix]
    apply prop_bind _ _ (prop_item _)
    intro _
    split
    · exact prop_pure _
    · apply prop_bind _ _ (h _ _)
      intro r
      obtain ⟨acc', fl⟩ := r
      cases fl with
      | stop => exact prop_pure _
      | cont => exact prop_loopPrefix pfx f h acc' rest

theorem prop_dropLoop (pfx : Bytes) : (l : KVS) → Propagates (dropLoop pfx l)
  | [] => prop_pure _
  | e :: rest => by
    simp only [dropLoop]
    apply prop_bind _ _ (prop_item _)
    intro _
    split
    · exact prop_pure _
    · exact prop_bind _ _ (prop_del _) (fun _ => prop_dropLoop pfx rest)

theorem prop_iterateRange {β} (c f : Bytes) (r : Range) (rev : Bool) (onId : β → Bytes → StoreM (β × Flow))
    (h : ∀ a id, Propagates (onId a id)) (acc : β) : Propagates (iterateRange c f r rev onId acc) := by
  have h1 := prop_skipEq
  have h2 := fun pfx stop acc l => prop_scanLoop pfx stop onId h acc l
  unfold iterateRange
  prop_auto
  all_goals first | exact h1 _ _ | exact h2 _ _ _ _


theorem prop_iterateAll {β} (c f : Bytes) (rev : Bool) (onId : β → Bytes → StoreM (β × Flow))
    (h : ∀ a id, Propagates (onId a id)) (acc : β) : Propagates (iterateAll c f rev onId acc) := by
  have h2 := fun pfx stop acc l => prop_scanLoop pfx stop onId h acc l
  unfold iterateAll
  prop_auto
  all_goals exact h2 _ _ _ _


theorem prop_getMeta (c : Bytes) : Propagates (getMeta c) := by
  unfold getMeta
  apply prop_bind _ _ (prop_get _)
  intro v
  split <;> first | exact prop_pure _ | exact prop_fail _

variable (likeFn : LikeFn) (fnFam : FnFam)

theorem prop_fullScan (coll : Bytes) (onDoc : Pipe → Doc → Pipe × Flow) : Propagates (fullScan coll onDoc) := by
  unfold fullScan
  refine prop_bind _ _ prop_snapshot (fun kv => ?_)
  apply prop_loopPrefix
  intro a e
  split
  · exact prop_pure _
  · exact prop_fail _

theorem prop_onIdOf (coll : Bytes) (onDoc : Pipe → Doc → Pipe × Flow) (st : Pipe) (id : Bytes) :
    Propagates (onIdOf coll onDoc st id) := by
  unfold onIdOf
  refine prop_bind _ _ (prop_get _) (fun v => ?_)
  split <;> exact prop_pure _

attribute [local irreducible] getMeta fullScan iterateRange iterateAll onIdOf in
theorem prop_iterateDocs (q : Query) (k : Option Nat) : Propagates (iterateDocs likeFn fnFam q k) := by
  unfold iterateDocs
  prop_auto
  all_goals first
    | exact prop_getMeta _
    | exact prop_fullScan _ _
    | (apply prop_iterateRange; intro a id; exact prop_onIdOf _ _ _ _)
    | (apply prop_iterateAll; intro a id; exact prop_onIdOf _ _ _ _)

theorem prop_saveMeta (c : Bytes) (m : CMeta) : Propagates (saveMeta c m) := prop_set _ _

theorem prop_addToIndexes (c : Bytes) (idxs : List Bytes) (d : Doc) : Propagates (addToIndexes c idxs d) :=
  prop_forM _ (fun _ => prop_set _ _) idxs

theorem prop_delFromIndexes (c : Bytes) (idxs : List Bytes) (d : Doc) : Propagates (delFromIndexes c idxs d) :=
  prop_forM _ (fun _ => prop_del _) idxs

theorem prop_saveDoc (k : Bytes) (d : Doc) : Propagates (saveDoc k d) := by
  unfold saveDoc
  split
  · exact prop_set _ _
  · exact prop_fail _

theorem prop_insertLoop (c : Bytes) (idxs : List Bytes) : (ds : List Doc) → Propagates (insertLoop c idxs ds)
  | [] => prop_pure _
  | d :: ds => by
    simp only [insertLoop]
    apply prop_bind _ _ (prop_addToIndexes _ _ _)
    intro _
    apply prop_bind _ _ (prop_get _)
    intro v
    split
    · exact prop_fail _
    · exact prop_bind _ _ (prop_saveDoc _ _) (fun _ => prop_insertLoop c idxs ds)

theorem prop_insertDocs (c : Bytes) (ds : List Doc) : Propagates (insertDocs c ds) := by
  unfold insertDocs
  apply prop_bind _ _ (prop_getMeta _)
  intro m
  apply prop_bind _ _ (prop_insertLoop _ _ _)
  intro _
  exact prop_saveMeta _ _

theorem prop_applyLoop (c : Bytes) (idxs : List Bytes) (u : Upd) : (n : Nat) → (ds : List Doc) →
    Propagates (applyLoop c idxs u n ds)
  | n, [] => prop_pure _
  | n, d :: ds => by
    have ih1 := prop_applyLoop c idxs u (n + 1) ds
    have ih2 := prop_applyLoop c idxs u n ds
    have h1 := prop_delFromIndexes c idxs d
    have h2 := fun d' => prop_addToIndexes c idxs d'
    have h3 := fun k d' => prop_saveDoc k d'
    simp only [applyLoop]
    prop_auto
    all_goals first | exact h2 _ | exact h3 _ _

attribute [local irreducible] getMeta iterateDocs applyLoop saveMeta in
theorem prop_replaceDocs (q : Query) (u : Upd) : Propagates (replaceDocs likeFn fnFam q u) := by
  unfold replaceDocs
  prop_auto
  all_goals first | exact prop_getMeta _ | exact prop_iterateDocs likeFn fnFam _ _ | exact prop_applyLoop _ _ _ _ _ | exact prop_saveMeta _ _


theorem prop_createColl (c : Bytes) : Propagates (createColl c) := by
  unfold createColl
  apply prop_bind _ _ (prop_get _)
  intro v
  split
  · exact prop_fail _
  · exact prop_saveMeta _ _

end CV

namespace CV
open StoreM
variable (likeFn : LikeFn) (fnFam : FnFam)

attribute [local irreducible] getMeta iterateDocs applyLoop saveMeta replaceDocs insertDocs createColl loopPrefix dropLoop
  delFromIndexes addToIndexes saveDoc in
/-- every operation's transaction body propagates store faults -/
theorem prop_body (op : Op) : Propagates (Op.body likeFn fnFam op) := by
  cases op <;> simp only [Op.body] <;> prop_auto <;>
    first
    | exact prop_getMeta _
    | exact prop_iterateDocs likeFn fnFam _ _
    | exact prop_replaceDocs likeFn fnFam _ _
    | exact prop_insertDocs _ _
    | exact prop_createColl _
    | exact prop_saveMeta _ _
    | exact prop_dropLoop _ _
    | exact prop_delFromIndexes _ _ _
    | exact prop_addToIndexes _ _ _
    | exact prop_saveDoc _ _
    | (apply prop_loopPrefix; intro a e; prop_auto)

end CV
