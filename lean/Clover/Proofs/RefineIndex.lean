import Clover.Proofs.RefinePoint
/-! # Index management refines the specification: `CreateIndex`, `DropIndex` -/
namespace CV
open OC Keys StoreM

variable (likeFn : LikeFn) (fnFam : FnFam)

/-! ## shared helpers -/

/-- writing the metadata record does not touch the data keys -/
theorem dataRep_setMeta (c : Bytes) (idxs : List Bytes) (docs : List (Bytes × Doc)) (σ : KVS) (hs : KSorted σ)
    (v : SVal) (hd : DataRep c idxs docs σ) : DataRep c idxs docs (kvSet σ (metaKey c) v) := by
  intro k w ho
  have hne : k ≠ metaKey c := by
    rcases ho with ⟨id, e⟩ | ⟨g, rest, e⟩
    · rw [e]; exact (metaKey_ne_docKey c c id).symm
    · rw [e]; exact (metaKey_ne_kIdxKey c c g rest).symm
  rw [kvGet_kvSet _ _ _ _ hs, if_neg hne]
  exact hd k w ho

theorem keyField_ownsD (c k f : Bytes) (h : KeyField c k f) : OwnsD c k := by
  obtain ⟨rest, e⟩ := h
  exact Or.inr ⟨f, rest, e⟩

theorem keyField_ne_meta (c k f : Bytes) (h : KeyField c k f) : k ≠ metaKey c := by
  obtain ⟨rest, e⟩ := h
  rw [e]; exact (metaKey_ne_kIdxKey c c f rest).symm

theorem keyField_iff_prefix (c k f : Bytes) : KeyField c k f ↔ isPrefix (idxPrefix c f) k = true := by
  rw [isPrefix_iff]
  exact Iff.rfl

theorem kvGet_some_mem (σ : KVS) (k : Bytes) (v : SVal) (h : kvGet σ k = some v) : (k, v) ∈ σ := by
  rw [kvGet_eq_assoc] at h
  exact assoc_some_mem' k v σ h

/-! ## CreateIndex: the loop writes one entry per document -/

def ciStep (c f : Bytes) (w : KVS) (d : Doc) : KVS := kvSet w (idxKey c f (d.get f) d.objectId) .unit

/-- the working copy after the index entries of the documents `ds` have been written -/
def ciFold (c f : Bytes) (ds : List Doc) (w : KVS) : KVS := ds.foldl (ciStep c f) w

theorem ci_loop_run (c f pfx : Bytes) : (items : KVS) → (ctx : Ctx) →
    (∀ e ∈ items.takeWhile (fun e => isPrefix pfx e.1), ∃ d, e.2 = SVal.doc d) →
    ∃ c', (loopPrefix pfx (fun (_ : Unit) e => match e.2 with
        | .doc d => do set (idxKey c f (d.get f) d.objectId) .unit; pure ((), Flow.cont)
        | _ => fail .badInput) () items) noFault ctx = (.ok (), c') ∧
      Eff ctx c' (ciFold c f ((items.takeWhile (fun e => isPrefix pfx e.1)).filterMap docOf) ctx.work)
  | [], ctx, _ => ⟨ctx, rfl, Eff.refl ctx⟩
  | e :: rest, ctx, hdocs => by
    obtain ⟨c1, h1, s1⟩ := item_run e.1 ctx
    simp only [loopPrefix]
    rw [bind_run _ _ ctx c1 () h1]
    by_cases hp : isPrefix pfx e.1 = true
    · obtain ⟨d, hd⟩ := hdocs e (by simp [List.takeWhile, hp])
      obtain ⟨k, v⟩ := e
      simp only at hd hp
      subst hd
      simp only [hp, Bool.not_true, Bool.false_eq_true, if_false, List.takeWhile, List.filterMap, docOf]
      obtain ⟨c2, h2, e2⟩ := set_run' (idxKey c f (d.get f) d.objectId) .unit c1
      obtain ⟨c3, h3, e3⟩ := ci_loop_run c f pfx rest c2 (by
        intro e he
        exact hdocs e (by simp [List.takeWhile, hp, he]))
      refine ⟨c3, ?_, ?_⟩
      · have hstep : (do set (idxKey c f (d.get f) d.objectId) SVal.unit; pure ((), Flow.cont) : StoreM (Unit × Flow)) noFault c1
            = (.ok ((), Flow.cont), c2) := by
          rw [bind_run _ _ c1 c2 () h2]; rfl
        rw [bind_run _ _ c1 c2 _ hstep]
        exact h3
      · have := (Eff.ofSame s1).trans (e2.trans e3)
        rw [e2.1, s1.1] at this
        exact this
    · simp only [Bool.not_eq_true] at hp
      refine ⟨c1, ?_, ?_⟩
      · simp [hp]; rfl
      · have := Eff.ofSame s1
        simp only [List.takeWhile, hp, List.filterMap, ciFold, List.foldl]
        exact this

theorem ksorted_ciFold (c f : Bytes) : (ds : List Doc) → (w : KVS) → KSorted w → KSorted (ciFold c f ds w)
  | [], _, h => h
  | _ :: ds, w, h => ksorted_ciFold c f ds _ (ksorted_kvSet w h _ _)

theorem kvGet_ciFold_other (c f k : Bytes) : (ds : List Doc) → (w : KVS) → KSorted w →
    (∀ d ∈ ds, k ≠ idxKey c f (d.get f) d.objectId) → kvGet (ciFold c f ds w) k = kvGet w k
  | [], _, _, _ => rfl
  | d :: ds, w, hs, hne => by
    show kvGet (ciFold c f ds (kvSet w _ _)) k = _
    rw [kvGet_ciFold_other c f k ds _ (ksorted_kvSet w hs _ _) (fun g hg => hne g (List.mem_cons_of_mem _ hg)),
      kvGet_kvSet _ _ _ _ hs, if_neg (hne d (by simp))]

theorem kvGet_ciFold_mem (c f k : Bytes) : (ds : List Doc) → (w : KVS) → KSorted w →
    (∃ d ∈ ds, k = idxKey c f (d.get f) d.objectId) → kvGet (ciFold c f ds w) k = some .unit
  | [], _, _, h => by simp at h
  | d :: ds, w, hs, h => by
    show kvGet (ciFold c f ds (kvSet w _ _)) k = _
    have hs' := ksorted_kvSet w hs (idxKey c f (d.get f) d.objectId) .unit
    by_cases hin : ∃ g ∈ ds, k = idxKey c f (g.get f) g.objectId
    · exact kvGet_ciFold_mem c f k ds _ hs' hin
    · have hne : ∀ g ∈ ds, k ≠ idxKey c f (g.get f) g.objectId := fun g hg e => hin ⟨g, hg, e⟩
      rw [kvGet_ciFold_other c f k ds _ hs' hne, kvGet_kvSet _ _ _ _ hs]
      obtain ⟨g, hg, e⟩ := h
      rcases List.mem_cons.1 hg with e2 | e2
      · subst e2; simp [e]
      · exact absurd e (hne g e2)

/-- every key the loop writes is an entry of the index on `f` -/
theorem idxKey_keyField (c f : Bytes) (v : Value) (id : Bytes) : KeyField c (idxKey c f v id) f :=
  ⟨goKeyTail v ++ id, rfl⟩

/-- what the store binds the keys of the new index to after the loop -/
theorem ciFold_field (c : Bytes) (hc : Clean c) (f : Bytes) (hf : Clean f) (coll : Spec.Coll) (hcw : CollWF coll)
    (hnew : f ∉ coll.indexes) (σ : KVS) (hs : KSorted σ) (hd : DataRep c coll.indexes coll.docs σ)
    (k : Bytes) (v : SVal) (hk : KeyField c k f) :
    kvGet (ciFold c f (coll.docs.map (·.2)) σ) k = some v ↔
      ∃ id d, Spec.lookup id coll.docs = some d ∧ k = idxKey c f (d.get f) id ∧ v = .unit := by
  by_cases hin : ∃ d ∈ coll.docs.map (·.2), k = idxKey c f (d.get f) d.objectId
  · rw [kvGet_ciFold_mem c f k _ σ hs hin]
    obtain ⟨d, hdm, e⟩ := hin
    obtain ⟨x, hx, hxd⟩ := List.mem_map.1 hdm
    have hid := (hcw.idsWF x hx).2
    have hlk : Spec.lookup x.1 coll.docs = some x.2 := mem_lookup_some x.1 x.2 _ hcw.idsDistinct hx
    constructor
    · intro h
      simp only [Option.some.injEq] at h
      refine ⟨x.1, x.2, hlk, ?_, h.symm⟩
      rw [e, ← hxd, hid]
    · rintro ⟨_, _, _, _, e2⟩
      rw [e2]
  · have hne : ∀ d ∈ coll.docs.map (·.2), k ≠ idxKey c f (d.get f) d.objectId := fun d hd e => hin ⟨d, hd, e⟩
    rw [kvGet_ciFold_other c f k _ σ hs hne, hd k v (keyField_ownsD c k f hk),
      holdsD_field c hc coll.indexes hcw.fieldsClean coll.docs f hf k v hk]
    constructor
    · rintro ⟨h, _⟩; exact absurd h hnew
    · rintro ⟨id, d, hl, e, _⟩
      exfalso
      apply hin
      have hx := lookup_some_mem id d _ hl
      refine ⟨d, List.mem_map.2 ⟨(id, d), hx, rfl⟩, ?_⟩
      rw [e, (hcw.idsWF (id, d) hx).2]

theorem collWF_addIndex (coll : Spec.Coll) (hcw : CollWF coll) (f : Bytes) (hf : Clean f) (hnew : f ∉ coll.indexes) :
    CollWF { coll with indexes := coll.indexes ++ [f] } := by
  refine ⟨hcw.idsDistinct, hcw.docsSorted, hcw.idsWF, ?_, ?_⟩
  · intro g hg
    rcases List.mem_append.1 hg with h | h
    · exact hcw.fieldsClean g h
    · simp only [List.mem_singleton] at h; rw [h]; exact hf
  · show (coll.indexes ++ [f]).Nodup
    rw [List.nodup_append]
    refine ⟨hcw.fieldsDistinct, by simp, ?_⟩
    intro a ha b hb
    simp only [List.mem_singleton] at hb
    rw [hb]; intro e; exact hnew (e ▸ ha)

/-- **CreateIndex refines the specification and preserves the invariant**: same outcome (the
    sentinel errors included), and the new store holds one entry per document under the new index. -/
theorem createIndex_refines (s : Spec.State) (σ : KVS) (hw : WF s) (hr : Rep s σ) (c f : Bytes) (hf : Keys.Clean f) :
    let r := withTx true (Op.body likeFn fnFam (.createIndex c f)) noFault σ
    let sp := Spec.step likeFn fnFam s (.createIndex c f)
    r.1 = sp.1 ∧ Rep sp.2 r.2.1 ∧ WF sp.2 := by
  simp only
  have hm := rep_meta s σ hr c
  cases hl : Spec.lookup c s with
  | none =>
    rw [hl] at hm
    obtain ⟨c1, h1, s1⟩ := get_run (metaKey c) (ctx0 true σ)
    have hb : (Op.body likeFn fnFam (.createIndex c f)) noFault (ctx0 true σ) = (.err .collNotExist, c1) := by
      simp only [Op.body, getMeta]
      apply bind_run_err'
      rw [bind_run _ _ _ c1 _ h1]
      have : kvGet (ctx0 true σ).work (metaKey c) = none := hm
      rw [this]; rfl
    have ht := withTx_err _ σ _ _ hb
    simp only [Spec.step, Spec.withColl, hl]
    exact ⟨ht.1, by rw [ht.2]; exact hr, hw⟩
  | some coll =>
    rw [hl] at hm
    simp only [Option.map_some] at hm
    obtain ⟨hc, hcw⟩ := wf_lookup_clean s hw c coll hl
    have hdata := rep_data s σ hw hr c coll hl
    obtain ⟨c1, h1, s1⟩ := getMeta_run c ⟨coll.docs.length, coll.indexes⟩ (ctx0 true σ) hm
    have hw1 : c1.work = σ := s1.1
    simp only [Spec.step, Spec.withColl, hl]
    by_cases hin : coll.indexes.contains f = true
    · have hb : (Op.body likeFn fnFam (.createIndex c f)) noFault (ctx0 true σ) = (.err .indexExist, c1) := by
        simp only [Op.body]
        rw [bind_run _ _ _ c1 _ h1]
        simp only [hin, if_true]; rfl
      have ht := withTx_err _ σ _ _ hb
      rw [if_pos hin]
      exact ⟨ht.1, by rw [ht.2]; exact hr, hw⟩
    · have hnew : f ∉ coll.indexes := by
        intro h; exact hin (List.contains_iff_mem.2 h)
      obtain ⟨c2, h2, s2⟩ := getMeta_run c ⟨coll.docs.length, coll.indexes⟩ c1 (by rw [hw1]; exact hm)
      have hw2 : c2.work = σ := s2.1.trans hw1
      have hitems := full_scan_items s σ hw hr c coll hc hl hcw
      obtain ⟨c3, h3, e3⟩ := ci_loop_run c f (docPrefix c) (seekFwd c2.work (docPrefix c)) c2 (by
        rw [hw2, hitems]
        intro e he
        simp only [docEntries, List.mem_map] at he
        obtain ⟨x, _, hx⟩ := he
        exact ⟨x.2, by rw [← hx]⟩)
      rw [hw2, hitems, filterMap_docEntries] at e3
      obtain ⟨c4, h4, e4⟩ := set_run' (metaKey c) (.cmeta ⟨coll.docs.length, coll.indexes ++ [f]⟩) c3
      have hb : (Op.body likeFn fnFam (.createIndex c f)) noFault (ctx0 true σ) = (.ok .unit, c4) := by
        simp only [Op.body]
        rw [bind_run _ _ _ c1 _ h1]
        simp only [hin, Bool.false_eq_true, if_false]
        rw [bind_run _ _ _ c2 _ h2, bind_run _ _ c2 c2 _ (snapshot_run c2)]
        refine Eq.trans (bind_run _ _ c2 c3 _ h3) ?_
        simp only [saveMeta]
        rw [bind_run _ _ _ c4 _ h4]; rfl
      have hsk : c4.skipCommit = false := by
        rw [e4.2.2, e3.2.2, s2.2.2, s1.2.2]; rfl
      have ht := withTx_ok _ σ _ _ hb hsk
      rw [if_neg hin, ht.1, ht.2]
      refine ⟨rfl, ?_⟩
      -- the store after the operation
      have hs1 : KSorted (ciFold c f (coll.docs.map (·.2)) σ) := ksorted_ciFold c f _ σ hr.1
      have hwork : c4.work = kvSet (ciFold c f (coll.docs.map (·.2)) σ) (metaKey c)
          (.cmeta ⟨coll.docs.length, coll.indexes ++ [f]⟩) := by
        rw [e4.1, e3.1]
      have hother : ∀ k, ¬ KeyField c k f → kvGet (ciFold c f (coll.docs.map (·.2)) σ) k = kvGet σ k := by
        intro k hk
        exact kvGet_ciFold_other c f k _ σ hr.1 (fun d _ e => hk (e ▸ idxKey_keyField c f _ _))
      have hcw' := collWF_addIndex coll hcw f hf hnew
      have hdata1 : DataRep c (coll.indexes ++ [f]) coll.docs (ciFold c f (coll.docs.map (·.2)) σ) :=
        dataRep_index c hc coll.indexes (coll.indexes ++ [f]) hcw'.fieldsClean coll.docs σ _ hdata f hf
          (fun g hg => by simp [hg]) hother
          (fun k v hk => by
            rw [ciFold_field c hc f hf coll hcw hnew σ hr.1 hdata k v hk]
            simp)
      have hdata' : DataRep c (coll.indexes ++ [f]) coll.docs c4.work := by
        rw [hwork]; exact dataRep_setMeta c _ _ _ hs1 _ hdata1
      have hmeta' : kvGet c4.work (metaKey c) = some (.cmeta ⟨coll.docs.length, coll.indexes ++ [f]⟩) := by
        rw [hwork, kvGet_kvSet _ _ _ _ hs1, if_pos rfl]
      have hs' : KSorted c4.work := by rw [hwork]; exact ksorted_kvSet _ hs1 _ _
      exact rep_insert_coll s σ c4.work hw hr c hc _ hcw' hs'
        (fun k hno => by
          have h1 : k ≠ metaKey c := fun e => hno (Or.inl e)
          have h2 : ¬ KeyField c k f := fun hk => hno (ownsD_owns c k (keyField_ownsD c k f hk))
          rw [hwork, kvGet_kvSet _ _ _ _ hs1, if_neg h1, hother k h2])
        (owned_of_parts c (coll.indexes ++ [f]) coll.docs c4.work hmeta' hdata')

/-! ## DropIndex: the loop deletes every entry under the index prefix -/

theorem di_loop_run (pfx : Bytes) : (items : KVS) → (ctx : Ctx) →
    ∃ c', (dropLoop pfx items) noFault ctx = (.ok (), c') ∧
      Eff ctx c' (((items.takeWhile (fun e => isPrefix pfx e.1)).map (·.1)).foldl kvDel ctx.work)
  | [], ctx => ⟨ctx, rfl, Eff.refl ctx⟩
  | e :: rest, ctx => by
    obtain ⟨c1, h1, s1⟩ := item_run e.1 ctx
    simp only [dropLoop]
    rw [bind_run _ _ ctx c1 () h1]
    by_cases hp : isPrefix pfx e.1 = true
    · simp only [hp, Bool.not_true, Bool.false_eq_true, if_false, List.takeWhile, List.map, List.foldl]
      obtain ⟨c2, h2, e2⟩ := del_run' e.1 c1
      obtain ⟨c3, h3, e3⟩ := di_loop_run pfx rest c2
      refine ⟨c3, ?_, ?_⟩
      · rw [bind_run _ _ c1 c2 () h2]
        exact h3
      · have := (Eff.ofSame s1).trans (e2.trans e3)
        rw [e2.1, s1.1] at this
        exact this
    · simp only [Bool.not_eq_true] at hp
      refine ⟨c1, ?_, ?_⟩
      · simp [hp]; rfl
      · simp only [List.takeWhile, hp, List.map, List.foldl]
        exact Eff.ofSame s1

theorem ksorted_delKeys : (ks : List Bytes) → (w : KVS) → KSorted w → KSorted (ks.foldl kvDel w)
  | [], _, h => h
  | k :: ks, w, h => ksorted_delKeys ks _ (ksorted_kvDel w h k)

theorem kvGet_delKeys (k : Bytes) : (ks : List Bytes) → (w : KVS) → KSorted w →
    kvGet (ks.foldl kvDel w) k = if k ∈ ks then none else kvGet w k
  | [], _, _ => by simp
  | a :: ks, w, hs => by
    show kvGet (ks.foldl kvDel (kvDel w a)) k = _
    rw [kvGet_delKeys k ks _ (ksorted_kvDel w hs a), kvGet_kvDel _ _ _ hs]
    by_cases h1 : k ∈ ks
    · simp [h1]
    · by_cases h2 : k = a
      · simp [h2]
      · simp [h1, h2]

/-- deleting the block of keys under a prefix: those keys are unbound, the others untouched -/
theorem kvGet_dropBlock (p : Bytes) (σ : KVS) (hs : KSorted σ) (k : Bytes) :
    kvGet (((σ.filter (fun e => isPrefix p e.1)).map (·.1)).foldl kvDel σ) k =
      if isPrefix p k = true then none else kvGet σ k := by
  rw [kvGet_delKeys k _ σ hs]
  by_cases hp : isPrefix p k = true
  · rw [if_pos hp]
    by_cases hm : k ∈ (σ.filter (fun e => isPrefix p e.1)).map (·.1)
    · rw [if_pos hm]
    · rw [if_neg hm]
      cases hg : kvGet σ k with
      | none => rfl
      | some v =>
        exfalso
        apply hm
        exact List.mem_map.2 ⟨(k, v), List.mem_filter.2 ⟨kvGet_some_mem σ k v hg, hp⟩, rfl⟩
  · rw [if_neg hp]
    have hm : k ∉ (σ.filter (fun e => isPrefix p e.1)).map (·.1) := by
      intro hm
      obtain ⟨x, hx, e⟩ := List.mem_map.1 hm
      have h2 : isPrefix p x.1 = true := (List.mem_filter.1 hx).2
      have e' : x.1 = k := e
      rw [e'] at h2
      exact hp h2
    rw [if_neg hm]

/-! ### the catalog update of `DropIndex` -/

theorem mem_dropSwap (f : Bytes) (idxs : List Bytes) (hnd : idxs.Nodup) (hf : f ∈ idxs) (g : Bytes) :
    g ∈ dropSwap f idxs ↔ g ∈ idxs ∧ g ≠ f := by
  cases idxs with
  | nil => simp at hf
  | cons first rest =>
    have hnd' := List.nodup_cons.1 hnd
    simp only [dropSwap, List.mem_map, List.mem_cons]
    constructor
    · rintro ⟨a, ha, e⟩
      by_cases haf : a = f
      · rw [if_pos haf] at e
        have hne : first ≠ f := by
          intro h; rw [h, ← haf] at hnd'; exact hnd'.1 ha
        exact ⟨Or.inl e.symm, by rw [← e]; exact hne⟩
      · rw [if_neg haf] at e
        exact ⟨Or.inr (e ▸ ha), by rw [← e]; exact haf⟩
    · rintro ⟨hg, hne⟩
      rcases hg with hg | hg
      · have hfr : f ∈ rest := by
          rcases List.mem_cons.1 hf with h | h
          · exact absurd (hg.trans h.symm) hne
          · exact h
        exact ⟨f, hfr, by rw [if_pos rfl, hg]⟩
      · exact ⟨g, hg, by rw [if_neg hne]⟩

theorem nodup_dropSwap (f : Bytes) (idxs : List Bytes) (hnd : idxs.Nodup) : (dropSwap f idxs).Nodup := by
  cases idxs with
  | nil => exact List.nodup_nil
  | cons first rest =>
    have hnd' := List.nodup_cons.1 hnd
    show (rest.map (fun g => if g = f then first else g)).Nodup
    unfold List.Nodup
    rw [List.pairwise_map]
    refine List.Pairwise.imp_of_mem ?_ hnd'.2
    intro a b ha hb hab
    by_cases haf : a = f
    · by_cases hbf : b = f
      · exact absurd (haf.trans hbf.symm) hab
      · rw [if_pos haf, if_neg hbf]
        intro e; rw [e] at hnd'; exact hnd'.1 hb
    · by_cases hbf : b = f
      · rw [if_neg haf, if_pos hbf]
        intro e; rw [← e] at hnd'; exact hnd'.1 ha
      · rw [if_neg haf, if_neg hbf]; exact hab

theorem collWF_dropIndex (coll : Spec.Coll) (hcw : CollWF coll) (f : Bytes) (hf : f ∈ coll.indexes) :
    CollWF { coll with indexes := dropSwap f coll.indexes } := by
  refine ⟨hcw.idsDistinct, hcw.docsSorted, hcw.idsWF, ?_, nodup_dropSwap f _ hcw.fieldsDistinct⟩
  intro g hg
  exact hcw.fieldsClean g ((mem_dropSwap f _ hcw.fieldsDistinct hf g).1 hg).1

/-- **DropIndex refines the specification and preserves the invariant**: same outcome (the sentinel
    errors included), every entry of the dropped index is gone, nothing else is touched. -/
theorem dropIndex_refines (s : Spec.State) (σ : KVS) (hw : WF s) (hr : Rep s σ) (c f : Bytes) :
    let r := withTx true (Op.body likeFn fnFam (.dropIndex c f)) noFault σ
    let sp := Spec.step likeFn fnFam s (.dropIndex c f)
    r.1 = sp.1 ∧ Rep sp.2 r.2.1 ∧ WF sp.2 := by
  simp only
  have hm := rep_meta s σ hr c
  cases hl : Spec.lookup c s with
  | none =>
    rw [hl] at hm
    obtain ⟨c1, h1, s1⟩ := get_run (metaKey c) (ctx0 true σ)
    have hb : (Op.body likeFn fnFam (.dropIndex c f)) noFault (ctx0 true σ) = (.err .collNotExist, c1) := by
      simp only [Op.body, getMeta]
      apply bind_run_err'
      rw [bind_run _ _ _ c1 _ h1]
      have : kvGet (ctx0 true σ).work (metaKey c) = none := hm
      rw [this]; rfl
    have ht := withTx_err _ σ _ _ hb
    simp only [Spec.step, Spec.withColl, hl]
    exact ⟨ht.1, by rw [ht.2]; exact hr, hw⟩
  | some coll =>
    rw [hl] at hm
    simp only [Option.map_some] at hm
    obtain ⟨hc, hcw⟩ := wf_lookup_clean s hw c coll hl
    have hdata := rep_data s σ hw hr c coll hl
    obtain ⟨c1, h1, s1⟩ := getMeta_run c ⟨coll.docs.length, coll.indexes⟩ (ctx0 true σ) hm
    have hw1 : c1.work = σ := s1.1
    simp only [Spec.step, Spec.withColl, hl]
    by_cases hin : coll.indexes.contains f = true
    · have hmem : f ∈ coll.indexes := List.contains_iff_mem.1 hin
      have hf : Clean f := hcw.fieldsClean f hmem
      obtain ⟨c2, h2, e2⟩ := di_loop_run (idxPrefix c f) (seekFwd c1.work (idxPrefix c f)) c1
      rw [hw1, prefix_scan_eq_filter (idxPrefix c f) σ hr.1] at e2
      obtain ⟨c3, h3, e3⟩ := set_run' (metaKey c) (.cmeta ⟨coll.docs.length, dropSwap f coll.indexes⟩) c2
      have hb : (Op.body likeFn fnFam (.dropIndex c f)) noFault (ctx0 true σ) = (.ok .unit, c3) := by
        simp only [Op.body]
        rw [bind_run _ _ _ c1 _ h1]
        simp only [hin, Bool.not_true, Bool.false_eq_true, if_false]
        rw [bind_run _ _ c1 c1 _ (snapshot_run c1), bind_run _ _ _ c2 _ h2]
        simp only [saveMeta]
        rw [bind_run _ _ _ c3 _ h3]; rfl
      have hsk : c3.skipCommit = false := by
        rw [e3.2.2, e2.2.2, s1.2.2]; rfl
      have ht := withTx_ok _ σ _ _ hb hsk
      simp only [hin, Bool.not_true, Bool.false_eq_true, if_false]
      rw [ht.1, ht.2]
      refine ⟨rfl, ?_⟩
      -- the store after the operation
      let σ1 := ((σ.filter (fun e => isPrefix (idxPrefix c f) e.1)).map (·.1)).foldl kvDel σ
      have hs1 : KSorted σ1 := ksorted_delKeys _ σ hr.1
      have hwork : c3.work = kvSet σ1 (metaKey c) (.cmeta ⟨coll.docs.length, dropSwap f coll.indexes⟩) := by
        rw [e3.1, e2.1]
      have hget : ∀ k, kvGet σ1 k = if isPrefix (idxPrefix c f) k = true then none else kvGet σ k :=
        fun k => kvGet_dropBlock (idxPrefix c f) σ hr.1 k
      have hother : ∀ k, ¬ KeyField c k f → kvGet σ1 k = kvGet σ k := by
        intro k hk
        rw [hget k, if_neg (fun h => hk ((keyField_iff_prefix c k f).2 h))]
      have hcw' := collWF_dropIndex coll hcw f hmem
      have hdata1 : DataRep c (dropSwap f coll.indexes) coll.docs σ1 :=
        dataRep_index c hc coll.indexes (dropSwap f coll.indexes) hcw'.fieldsClean coll.docs σ σ1 hdata f hf
          (fun g hg => by
            rw [mem_dropSwap f _ hcw.fieldsDistinct hmem g]
            exact ⟨fun h => h.1, fun h => ⟨h, hg⟩⟩)
          hother
          (fun k v hk => by
            rw [hget k, if_pos ((keyField_iff_prefix c k f).1 hk), mem_dropSwap f _ hcw.fieldsDistinct hmem f]
            constructor
            · intro h; simp at h
            · rintro ⟨⟨_, h⟩, _⟩; exact absurd rfl h)
      have hdata' : DataRep c (dropSwap f coll.indexes) coll.docs c3.work := by
        rw [hwork]; exact dataRep_setMeta c _ _ _ hs1 _ hdata1
      have hmeta' : kvGet c3.work (metaKey c) = some (.cmeta ⟨coll.docs.length, dropSwap f coll.indexes⟩) := by
        rw [hwork, kvGet_kvSet _ _ _ _ hs1, if_pos rfl]
      have hs' : KSorted c3.work := by rw [hwork]; exact ksorted_kvSet _ hs1 _ _
      exact rep_insert_coll s σ c3.work hw hr c hc _ hcw' hs'
        (fun k hno => by
          have h1 : k ≠ metaKey c := fun e => hno (Or.inl e)
          have h2 : ¬ KeyField c k f := fun hk => hno (ownsD_owns c k (keyField_ownsD c k f hk))
          rw [hwork, kvGet_kvSet _ _ _ _ hs1, if_neg h1, hother k h2])
        (owned_of_parts c (dropSwap f coll.indexes) coll.docs c3.work hmeta' hdata')
    · have hb : (Op.body likeFn fnFam (.dropIndex c f)) noFault (ctx0 true σ) = (.err .indexNotExist, c1) := by
        simp only [Op.body]
        rw [bind_run _ _ _ c1 _ h1]
        simp only [hin, Bool.not_false, if_true]; rfl
      have ht := withTx_err _ σ _ _ hb
      simp only [hin, Bool.not_false, if_true]
      exact ⟨ht.1, by rw [ht.2]; exact hr, hw⟩

end CV
